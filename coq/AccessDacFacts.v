(* AccessDacFacts.v: the BASE/CHECK vector accessors regenerated from the headers (AccessGen.v: the b8g, b16g, b7g
   and b15g families) return what the hand-written model (Dac.v) returns whenever the model returns a value,
   given the same for the compact_vector / bit_vector accessors they call (Section hypotheses, proved in
   AccessFacts.v); and bc_build produces vectors of the shape those refinements need. *)
From Coq Require Import ZArith Lia ZifyN ZifyBool ZifyNat Arith PeanoNat.
From X Require Import Base Arr ArrFacts Consts BitToolsSpec BitToolsGen BitVector CompactVector Dac AccessLib AccessGen Iface IfaceDac IfaceAccess CompactFacts DacFacts.
Local Open Scope N_scope.
Ltac Zify.zify_post_hook ::= Z.div_mod_to_equations.

Arguments N.mul : simpl never.
Arguments N.add : simpl never.
Arguments N.sub : simpl never.
Arguments N.shiftl : simpl never.
Arguments N.shiftr : simpl never.
Arguments N.pow : simpl never.
Arguments N.div : simpl never.
Arguments N.modulo : simpl never.
Arguments N.land : simpl never.
Arguments N.lor : simpl never.
Arguments N.lxor : simpl never.
Arguments N.ones : simpl never.
Arguments N.testbit : simpl never.

Lemma bind_ok_inv {A B} (r : res A) (f : A -> res B) y :
  bind r f = Ok y -> exists a, r = Ok a /\ f a = Ok y.
Proof. destruct r; cbn [bind]; intros H; try discriminate. eexists; split; [reflexivity|exact H]. Qed.

Ltac binv :=
  repeat match goal with
  | H : bind ?r _ = Ok _ |- _ =>
      let a := fresh "a" in let E := fresh "E" in
      apply bind_ok_inv in H; destruct H as (a & E & H)
  end.

Tactic Notation "binv1" hyp(H) ident(a) ident(E) :=
  apply bind_ok_inv in H; destruct H as (a & E & H).

Lemma shr_div i s : shr64 i s = i / 2 ^ s.
Proof. unfold shr64. apply N.shiftr_div_pow2. Qed.

Lemma d128 i : i / 128 = shr64 i 7. Proof. rewrite shr_div. reflexivity. Qed.
Lemma d32768 i : i / 32768 = shr64 i 15. Proof. rewrite shr_div. reflexivity. Qed.
Lemma d2147483648 i : i / 2147483648 = shr64 i 31. Proof. rewrite shr_div. reflexivity. Qed.

Lemma while_res_false {S} fuel (c : S -> res bool) b s : c s = Ok false -> while_res fuel c b s = Ok s.
Proof. intros H. destruct fuel; cbn [while_res]; rewrite H; reflexivity. Qed.
Lemma while_res_step {S} fuel (c : S -> res bool) b s s' :
  c s = Ok true -> b s = Ok s' -> while_res (Datatypes.S fuel) c b s = while_res fuel c b s'.
Proof. intros H1 H2. cbn [while_res]. rewrite H1. cbn [bind]. rewrite H2. reflexivity. Qed.

Lemma skipn_cons {A} (l : list A) : forall n x t, skipn n l = x :: t -> nth_error l n = Some x /\ skipn (S n) l = t.
Proof.
  induction l as [|y l IH]; intros n x t H.
  - destruct n; discriminate H.
  - destruct n as [|n].
    + cbn [skipn] in H. inversion H. split; reflexivity.
    + cbn [skipn nth_error] in *. apply IH. exact H.
Qed.

Lemma shl1_mul i : shl64 i 1 = mul64 i 2.
Proof. unfold shl64, mul64. rewrite N.shiftl_mul_pow2. reflexivity. Qed.

(* ---------- builder shape ---------- *)
Lemma pad_to_length {A} n (d : A) : forall l, length (pad_to n d l) = n.
Proof. induction n as [|n IH]; intros l; [reflexivity|]. destruct l; cbn [pad_to length]; rewrite IH; reflexivity. Qed.
Lemma pad_to_Forall {A} (P : A -> Prop) d : P d -> forall n l, Forall P l -> Forall P (pad_to n d l).
Proof.
  intros Hd. induction n as [|n IH]; intros l Hl; [constructor|].
  destruct l as [|x t]; cbn [pad_to]; constructor.
  - exact Hd.
  - apply IH. constructor.
  - inversion Hl; assumption.
  - apply IH. inversion Hl; assumption.
Qed.
Lemma aempty_no_get (i c : N) : aget (@aempty N) i = Ok c -> False.
Proof. unfold aempty. rewrite aget_of_list. destruct (N.to_nat i); discriminate. Qed.
Lemma of_list_cells w c : w <= 64 -> Forall (fun x => x < 2 ^ w) c ->
  forall i x, aget (of_list c) i = Ok x -> x < 2 ^ 64.
Proof.
  intros Hw Hc i x H. rewrite aget_of_list in H.
  destruct (nth_error c (N.to_nat i)) as [y|] eqn:E; [|discriminate].
  inversion H; subst y. apply nth_error_In in E. rewrite Forall_forall in Hc. apply Hc in E.
  eapply N.lt_le_trans; [exact E|]. apply N.pow_le_mono_r; [discriminate|assumption].
Qed.
Lemma map_low_lt w xs : Forall (fun x => x < 2 ^ w) (map (low w) xs).
Proof. apply Forall_forall. intros x Hx. apply in_map_iff in Hx. destruct Hx as (y & <- & _). apply low_lt. Qed.
Lemma lvls_cells n w : forall xs, Forall (fun cf => Forall (fun x => x < 2 ^ w) (fst cf)) (lvls n w xs).
Proof.
  induction n as [|n IH]; intros xs; [constructor|].
  destruct xs as [|x t]; [constructor|]. rewrite lvls_cons. constructor; [|apply IH].
  cbn [fst]. apply map_low_lt.
Qed.
Lemma plevels_length vbs : forall es cs rs, plevels vbs es = (cs, rs) ->
  length cs = S (length vbs) /\ length rs = length vbs.
Proof.
  induction vbs as [|vb vbs IH]; intros es cs rs H; cbn [plevels] in H.
  - inversion H. split; reflexivity.
  - destruct (plevel vb (vb + 1) es 0 0 0) as [[c r] o].
    destruct (plevels vbs (map EVal o)) as [cs' rs'] eqn:E. inversion H. apply IH in E. cbn [length]. lia.
Qed.

Section AccessDac.
Hypothesis cvref : CvGetRef.
Hypothesis bvget : BvGetRef.
Hypothesis bvrank : BvRankRef.
Hypothesis cvbits : CvBuildBits.

Theorem bc7_access_ref : Bc7AccessRef.
Proof.
  intros d i x (Hv & Hi & Hr & Hb) H.
  destruct d as [vbits frees ints ranks links leaves]. cbn [b7_vbits b7_ints b7_ranks b7_links] in *.
  subst vbits.
  destruct ints as [|a0 [|a1 [|a2 [|a3 [|? ?]]]]]; try discriminate Hi.
  destruct ranks as [|r0 [|r1 [|r2 [|? ?]]]]; try discriminate Hr.
  unfold bc7_access in H. cbn [b7_vbits b7_ints b7_ranks dac7_access] in H.
  unfold b7g_access. cbn [b7_ints b7_ranks nth].
  change (lget [r0; r1; r2] 0) with (Ok r0).
  change (lget [r0; r1; r2] 1) with (Ok r1).
  change (lget [r0; r1; r2] 2) with (Ok r2).
  unfold bc7_block_size_l1, bc7_block_size_l2, bc7_block_size_l3.
  binv. rewrite E. cbn [bind].
  destruct (N.land a 1 =? 0); [exact H|].
  binv. rewrite ?d128, ?d32768, ?d2147483648, E0. cbn [bind]. rewrite E1. cbn [bind].
  destruct (N.land a5 1 =? 0); [exact H|].
  binv. rewrite ?d128, ?d32768, ?d2147483648, E2. cbn [bind]. rewrite E3. cbn [bind].
  destruct (N.land a7 1 =? 0); [exact H|].
  binv. rewrite ?d128, ?d32768, ?d2147483648, E4. cbn [bind]. exact H.
Qed.

Theorem bc15_access_ref : Bc15AccessRef.
Proof.
  intros d i x (Hv & Hi & Hr & Hb) H.
  destruct d as [vbits frees ints ranks links leaves]. cbn [b7_vbits b7_ints b7_ranks b7_links] in *.
  subst vbits.
  destruct ints as [|a0 [|a1 [|a2 [|? ?]]]]; try discriminate Hi.
  destruct ranks as [|r0 [|r1 [|? ?]]]; try discriminate Hr.
  unfold bc7_access in H. cbn [b7_vbits b7_ints b7_ranks dac7_access] in H.
  unfold b15g_access. cbn [b7_ints b7_ranks nth].
  change (lget [r0; r1] 0) with (Ok r0).
  change (lget [r0; r1] 1) with (Ok r1).
  unfold bc15_block_size_l1, bc15_block_size_l2.
  binv. rewrite E. cbn [bind].
  destruct (N.land a 1 =? 0); [exact H|].
  binv. rewrite ?d128, ?d32768, ?d2147483648, E0. cbn [bind]. rewrite E1. cbn [bind].
  destruct (N.land a4 1 =? 0); [exact H|].
  binv. rewrite ?d128, ?d32768, ?d2147483648, E2. cbn [bind]. exact H.
Qed.

(* ---------- 8 / 16 ---------- *)
Definition lcond (s : bc8) : N * N * N -> res bool :=
  fun '(v_i, v_j, v_x) => if N.ltb v_j (b8_nlev s) then (do t2 <- lget (b8_nexts s) v_j; bvg_get t2 v_i) else Ok false.
Definition lbody (w : N) (s : bc8) : N * N * N -> res (N * N * N) :=
  fun '(v_i, v_j, v_x) => (do v_i <- (do t3 <- (lget (b8_nexts s) v_j); (bvg_rank t3 v_i)); (let v_j := (add64 v_j 1) in (do v_x <- (do t6 <- (do t5 <- (do t4 <- (lget (b8_ints s) v_j); (aget t4 v_i)); (shl64c t5 (mul64 v_j w))); (Ok (N.lor v_x t6))); (Ok (v_i, v_j, v_x))))).

Lemma b8g_access_eq s i : b8g_access s i =
  do v_x <- (do t1 <- lget (b8_ints s) 0; aget t1 i);
  do '(v_i, v_j, v_x) <- while_res 8 (lcond s) (lbody 8 s) (i, 0, v_x); Ok v_x.
Proof. reflexivity. Qed.
Lemma b16g_access_eq s i : b16g_access s i =
  do v_x <- (do t1 <- lget (b8_ints s) 0; aget t1 i);
  do '(v_i, v_j, v_x) <- while_res 4 (lcond s) (lbody 16 s) (i, 0, v_x); Ok v_x.
Proof. reflexivity. Qed.

Lemma loop_ref (w : N) (s : bc8) : (w = 8 \/ w = 16) -> b8_nlev s < 64 / w ->
  forall fuel j i r,
  (N.to_nat (b8_nlev s) - N.to_nat j <= fuel)%nat -> j <= b8_nlev s ->
  dac8_access w (b8_nlev s) (skipn (N.to_nat j) (b8_ints s)) (skipn (N.to_nat j) (b8_nexts s)) j i = Ok r ->
  exists v rest, (do t <- lget (b8_ints s) j; aget t i) = Ok v /\ r = N.lor (shl64 v (mul64 j w)) rest /\
    forall x, exists i' j', while_res fuel (lcond s) (lbody w s) (i, j, x) = Ok (i', j', N.lor x rest).
Proof.
  intros Hw Hnl. induction fuel as [|f IH]; intros j i r Hf Hj H.
  - destruct (skipn (N.to_nat j) (b8_ints s)) as [|cur ints'] eqn:Es; cbn [dac8_access] in H; [discriminate|].
    apply skipn_cons in Es. destruct Es as [En Es].
    binv1 H v Ev. exists v. unfold lget. rewrite En. cbn [bind].
    destruct (j <? b8_nlev s) eqn:Ej.
    { apply N.ltb_lt in Ej. lia. }
    exists 0. split; [assumption|]. split; [inversion H; rewrite N.lor_0_r; reflexivity|].
    intros x. exists i, j. rewrite N.lor_0_r. apply while_res_false. unfold lcond. rewrite Ej. reflexivity.
  - destruct (skipn (N.to_nat j) (b8_ints s)) as [|cur ints'] eqn:Es; cbn [dac8_access] in H; [discriminate|].
    apply skipn_cons in Es. destruct Es as [En Es].
    binv1 H v Ev. exists v. unfold lget at 1. rewrite En. cbn [bind].
    destruct (j <? b8_nlev s) eqn:Ej.
    2:{ exists 0. split; [assumption|]. split; [inversion H; rewrite N.lor_0_r; reflexivity|].
        intros x. exists i, j. rewrite N.lor_0_r. apply while_res_false. unfold lcond. rewrite Ej. reflexivity. }
    destruct (skipn (N.to_nat j) (b8_nexts s)) as [|nx nexts'] eqn:Esn; [discriminate|].
    apply skipn_cons in Esn. destruct Esn as [Enn Esn].
    binv1 H bb Eb. destruct bb.
    2:{ exists 0. split; [assumption|]. split; [inversion H; rewrite N.lor_0_r; reflexivity|].
        intros x. exists i, j. rewrite N.lor_0_r. apply while_res_false. unfold lcond. rewrite Ej.
        unfold lget. rewrite Enn. cbn [bind]. apply bvget. assumption. }
    binv1 H i1 Ei1. binv1 H r1 E2. apply N.ltb_lt in Ej.
    assert (Hj1 : N.to_nat (j + 1) = S (N.to_nat j)) by lia.
    rewrite <- Es, <- Esn, <- Hj1 in E2.
    apply IH in E2; [|lia|lia].
    destruct E2 as (v' & rest' & Hv' & Hr' & Hloop).
    exists r1. split; [assumption|]. split; [inversion H; reflexivity|].
    intros x.
    assert (Ha : add64 j 1 = j + 1).
    { apply add64_small. destruct Hw; subst w; [change (64 / 8) with 8 in Hnl | change (64 / 16) with 4 in Hnl]; lia. }
    assert (Hm : mul64 (j + 1) w = (j + 1) * w /\ (j + 1) * w < 64).
    { unfold mul64. destruct Hw; subst w; [change (64 / 8) with 8 in Hnl | change (64 / 16) with 4 in Hnl];
        (split; [apply w64_small|]; lia). }
    destruct Hm as [Hm Hm'].
    destruct (Hloop (N.lor x (shl64 v' (mul64 (j + 1) w)))) as (i' & j' & Hl).
    exists i', j'. rewrite (while_res_step f (lcond s) (lbody w s) (i, j, x) (i1, j + 1, N.lor x (shl64 v' (mul64 (j + 1) w)))).
    + rewrite Hl. rewrite Hr'. rewrite N.lor_assoc. reflexivity.
    + unfold lcond. apply N.ltb_lt in Ej. rewrite Ej. unfold lget. rewrite Enn. cbn [bind]. apply bvget. assumption.
    + unfold lbody. unfold lget at 1. rewrite Enn. cbn [bind]. rewrite (bvrank _ _ _ Ei1). cbn [bind].
      rewrite Ha. rewrite Hv'. cbn [bind]. unfold shl64c. rewrite Hm.
      destruct ((j + 1) * w <? 64) eqn:E64; [|apply N.ltb_ge in E64; lia].
      cbn [bind]. rewrite <- Hm. reflexivity.
Qed.

Lemma bc8_access_gen w fuel d i x : (w = 8 \/ w = 16) -> bc8_shape w d -> (N.to_nat (64 / w) <= fuel)%nat ->
  bc8_access d i = Ok x ->
  (do v_x <- (do t1 <- lget (b8_ints d) 0; aget t1 i);
   do '(v_i, v_j, v_x) <- while_res fuel (lcond d) (lbody w d) (i, 0, v_x); Ok v_x) = Ok x.
Proof.
  intros Hw (Hbw & Hli & Hln & Hnl & Hc & Hb) Hf H.
  unfold bc8_access in H. rewrite Hbw in H.
  assert (H' : dac8_access w (b8_nlev d) (skipn (N.to_nat 0) (b8_ints d)) (skipn (N.to_nat 0) (b8_nexts d)) 0 i = Ok x)
    by exact H.
  apply (loop_ref w d Hw Hnl fuel) in H'; [|lia|lia].
  destruct H' as (v & rest & Hv & Hx & Hloop).
  rewrite Hv. cbn [bind]. destruct (Hloop v) as (i' & j' & Hl). rewrite Hl. cbn [bind].
  subst x. f_equal. f_equal.
  assert (Hv64 : v < 2 ^ 64).
  { unfold lget in Hv. destruct (nth_error (b8_ints d) (N.to_nat 0)) as [cur|] eqn:En; [|discriminate].
    cbn [bind] in Hv. apply nth_error_In in En. unfold cells_ok in Hc. rewrite Forall_forall in Hc.
    apply (Hc cur En i v Hv). }
  unfold mul64. rewrite N.mul_0_l. change (w64 0) with 0. unfold shl64. rewrite N.shiftl_0_r.
  symmetry. apply w64_small. assumption.
Qed.

Theorem bc8_access_ref : Bc8AccessRef.
Proof.
  intros d i x Hs H. rewrite b8g_access_eq. apply bc8_access_gen; [left; reflexivity|assumption| |assumption].
  change (64 / 8) with 8. change (N.to_nat 8) with 8%nat. lia.
Qed.
Theorem bc16_access_ref : Bc16AccessRef.
Proof.
  intros d i x Hs H. rewrite b16g_access_eq. apply bc8_access_gen; [right; reflexivity|assumption| |assumption].
  change (64 / 16) with 4. change (N.to_nat 4) with 4%nat. lia.
Qed.

Theorem bc8_api_ref : Bc8ApiRef.
Proof.
  intros d i Hs. pose proof Hs as (Hbw & Hli & Hln & Hnl & Hc & Hb).
  destruct d as [w nlev frees ints nexts links leaves].
  cbn [b8_w b8_nlev b8_frees b8_ints b8_nexts b8_links b8_leaves] in *.
  change (64 / 8) with 8 in Hli. change (N.to_nat 8) with 8%nat in Hli.
  destruct ints as [|a0 ints']; [discriminate|].
  assert (Hnu : b8g_num_units (mkBc8 w nlev frees (a0 :: ints') nexts links leaves) =
                Ok (bc_num_units (Bc8 (mkBc8 w nlev frees (a0 :: ints') nexts links leaves)))).
  { unfold b8g_num_units, bc_num_units. cbn [bc_level0 b8_ints hd].
    change (lget (a0 :: ints') 0) with (Ok a0). cbn [bind]. rewrite shr_div. reflexivity. }
  repeat split.
  - intros x H. unfold bc_base in H. cbn [bc_access] in H. binv1 H y Ey.
    unfold b8g_base. rewrite <- shl1_mul. rewrite (bc8_access_ref _ _ _ Hs Ey). exact H.
  - intros x H. unfold bc_check in H. cbn [bc_access] in H. binv1 H y Ey.
    unfold b8g_check. rewrite <- shl1_mul. rewrite (bc8_access_ref _ _ _ Hs Ey). exact H.
  - intros x H. unfold bc_link in H. cbn [bc_level0 bc_leaves bc_links bc_lshift b8_ints b8_leaves b8_links b8_w hd] in H.
    binv1 H lo Elo. binv1 H r Er. binv1 H l El.
    unfold b8g_link. cbn [b8_ints b8_leaves b8_links].
    change (lget (a0 :: ints') 0) with (Ok a0). cbn [bind]. rewrite <- shl1_mul, Elo. cbn [bind].
    rewrite (bvrank _ _ _ Er). cbn [bind]. rewrite (cvref _ _ _ Hb El). cbn [bind]. rewrite Hbw in H. exact H.
  - intros x H. apply bvget. exact H.
  - exact Hnu.
  - unfold b8g_num_nodes. rewrite Hnu. reflexivity.
Qed.

Theorem bc16_api_ref : Bc16ApiRef.
Proof.
  intros d i Hs. pose proof Hs as (Hbw & Hli & Hln & Hnl & Hc & Hb).
  destruct d as [w nlev frees ints nexts links leaves].
  cbn [b8_w b8_nlev b8_frees b8_ints b8_nexts b8_links b8_leaves] in *.
  change (64 / 16) with 4 in Hli. change (N.to_nat 4) with 4%nat in Hli.
  destruct ints as [|a0 ints']; [discriminate|].
  assert (Hnu : b16g_num_units (mkBc8 w nlev frees (a0 :: ints') nexts links leaves) =
                Ok (bc_num_units (Bc8 (mkBc8 w nlev frees (a0 :: ints') nexts links leaves)))).
  { unfold b16g_num_units, bc_num_units. cbn [bc_level0 b8_ints hd].
    change (lget (a0 :: ints') 0) with (Ok a0). cbn [bind]. rewrite shr_div. reflexivity. }
  repeat split.
  - intros x H. unfold bc_base in H. cbn [bc_access] in H. binv1 H y Ey.
    unfold b16g_base. rewrite <- shl1_mul. rewrite (bc16_access_ref _ _ _ Hs Ey). exact H.
  - intros x H. unfold bc_check in H. cbn [bc_access] in H. binv1 H y Ey.
    unfold b16g_check. rewrite <- shl1_mul. rewrite (bc16_access_ref _ _ _ Hs Ey). exact H.
  - intros x H. unfold bc_link in H. cbn [bc_level0 bc_leaves bc_links bc_lshift b8_ints b8_leaves b8_links b8_w hd] in H.
    binv1 H lo Elo. binv1 H r Er. binv1 H l El.
    unfold b16g_link. cbn [b8_ints b8_leaves b8_links].
    change (lget (a0 :: ints') 0) with (Ok a0). cbn [bind]. rewrite <- shl1_mul, Elo. cbn [bind].
    rewrite (bvrank _ _ _ Er). cbn [bind]. rewrite (cvref _ _ _ Hb El). cbn [bind]. rewrite Hbw in H. exact H.
  - intros x H. apply bvget. exact H.
  - exact Hnu.
  - unfold b16g_num_nodes. rewrite Hnu. reflexivity.
Qed.

Theorem bc7_api_ref : Bc7ApiRef.
Proof.
  intros d i Hs. pose proof Hs as (Hv & Hi & Hr & Hb).
  destruct d as [vbits frees ints ranks links leaves]. cbn [b7_vbits b7_ints b7_ranks b7_links] in *.
  subst vbits. destruct ints as [|a0 ints']; [discriminate|].
  repeat split.
  - intros x H. unfold bc_base in H. cbn [bc_access] in H. binv1 H y Ey.
    unfold b7g_base. rewrite <- shl1_mul. rewrite (bc7_access_ref _ _ _ Hs Ey). exact H.
  - intros x H. unfold bc_check in H. cbn [bc_access] in H. binv1 H y Ey.
    unfold b7g_check. rewrite <- shl1_mul. rewrite (bc7_access_ref _ _ _ Hs Ey). exact H.
  - intros x H. unfold bc_link in H. cbn [bc_level0 bc_leaves bc_links bc_lshift b7_ints b7_leaves b7_links b7_vbits hd] in H.
    binv1 H lo Elo. binv1 H r Er. binv1 H l El.
    unfold b7g_link. cbn [b7_ints b7_leaves b7_links nth].
    rewrite <- shl1_mul, Elo. cbn [bind].
    rewrite (bvrank _ _ _ Er). cbn [bind]. rewrite (cvref _ _ _ Hb El). cbn [bind]. exact H.
  - intros x H. apply bvget. exact H.
  - unfold b7g_num_units, bc_num_units. cbn [bc_level0 b7_ints hd nth]. rewrite shr_div. reflexivity.
  - unfold b7g_num_nodes, bc_num_nodes, b7g_num_units, bc_num_units. cbn [bc_level0 b7_ints hd nth]. rewrite shr_div. reflexivity.
Qed.

Theorem bc15_api_ref : Bc15ApiRef.
Proof.
  intros d i Hs. pose proof Hs as (Hv & Hi & Hr & Hb).
  destruct d as [vbits frees ints ranks links leaves]. cbn [b7_vbits b7_ints b7_ranks b7_links] in *.
  subst vbits. destruct ints as [|a0 ints']; [discriminate|].
  repeat split.
  - intros x H. unfold bc_base in H. cbn [bc_access] in H. binv1 H y Ey.
    unfold b15g_base. rewrite <- shl1_mul. rewrite (bc15_access_ref _ _ _ Hs Ey). exact H.
  - intros x H. unfold bc_check in H. cbn [bc_access] in H. binv1 H y Ey.
    unfold b15g_check. rewrite <- shl1_mul. rewrite (bc15_access_ref _ _ _ Hs Ey). exact H.
  - intros x H. unfold bc_link in H. cbn [bc_level0 bc_leaves bc_links bc_lshift b7_ints b7_leaves b7_links b7_vbits hd] in H.
    binv1 H lo Elo. binv1 H r Er. binv1 H l El.
    unfold b15g_link. cbn [b7_ints b7_leaves b7_links nth].
    rewrite <- shl1_mul, Elo. cbn [bind].
    rewrite (bvrank _ _ _ Er). cbn [bind]. rewrite (cvref _ _ _ Hb El). cbn [bind]. exact H.
  - intros x H. apply bvget. exact H.
  - unfold b15g_num_units, bc_num_units. cbn [bc_level0 b7_ints hd nth]. rewrite shr_div. reflexivity.
  - unfold b15g_num_nodes, bc_num_nodes, b15g_num_units, bc_num_units. cbn [bc_level0 b7_ints hd nth]. rewrite shr_div. reflexivity.
Qed.

Lemma links_build_bits w units leaves c : units_ok units ->
  links_build (links_of w units leaves) = Ok c -> cv_bits c <= 64.
Proof.
  intros Hok H. unfold links_build in H. pose proof (links_bound w units leaves Hok) as Hb.
  destruct (links_of w units leaves) as [|l ls].
  - inversion H. cbn [cv_empty cv_bits]. lia.
  - apply (cvbits _ _ Hb H).
Qed.

Lemma bc8_build_shape w units leaves d : (w = 8 \/ w = 16) -> units_ok units ->
  bc8_build w units leaves = Ok d -> bc8_shape w d.
Proof.
  intros Hw Hok H. rewrite bc8_build_eq in H. cbv zeta in H.
  binv1 H nx Enx. binv1 H links El. binv1 H lv Elv. inversion H; subst d. clear H.
  unfold bc8_shape. cbn [b8_w b8_nlev b8_ints b8_nexts b8_links].
  split; [reflexivity|]. split; [apply pad_to_length|]. split; [apply pad_to_length|].
  split; [|split].
  - match goal with |- lenN (lvls ?n w ?xs) < _ => pose proof (lvls_length n w xs) as Hl; set (L := lvls n w xs) in * end.
    unfold lenN. clearbody L.
    destruct Hw; subst w; [change (64 / 8) with 8 in * | change (64 / 16) with 4 in *]; lia.
  - unfold cells_ok. apply pad_to_Forall; [intros i c Hc; exfalso; eapply aempty_no_get; exact Hc|].
    cbn [map fst]. constructor.
    + apply (of_list_cells w); [destruct Hw; subst w; lia|apply map_low_lt].
    + apply Forall_map. eapply Forall_impl; [|apply lvls_cells]. intros cf Hcf. apply (of_list_cells w); [destruct Hw; subst w; lia|exact Hcf].
  - eapply links_build_bits; eassumption.
Qed.

Lemma bc7_build_shape vbs ls units leaves d : units_ok units ->
  bc7_build vbs ls units leaves = Ok d -> bc7_shape vbs d.
Proof.
  intros Hok H. unfold bc7_build in H.
  destruct (plevels vbs (entries_of units leaves 0)) as [cs rs] eqn:Ep.
  binv1 H links El. binv1 H lv Elv. inversion H; subst d. clear H.
  apply plevels_length in Ep. destruct Ep as [Hc Hr].
  unfold bc7_shape. cbn [b7_vbits b7_ints b7_ranks b7_links]. rewrite !map_length.
  split; [reflexivity|]. split; [assumption|]. split; [assumption|].
  eapply links_build_bits; eassumption.
Qed.

Theorem bc_build_shape : BcBuildShape.
Proof.
  intros v units leaves d Hok H. destruct v; cbn [bc_build vbits_of] in H; binv1 H d' Ed; inversion H; subst d; clear H.
  - apply (bc7_build_shape _ _ _ _ _ Hok Ed).
  - apply (bc8_build_shape 8 _ _ _ (or_introl eq_refl) Hok Ed).
  - apply (bc7_build_shape _ _ _ _ _ Hok Ed).
  - apply (bc8_build_shape 16 _ _ _ (or_intror eq_refl) Hok Ed).
Qed.
End AccessDac.
Print Assumptions bc7_access_ref. Print Assumptions bc15_access_ref. Print Assumptions bc8_access_ref. Print Assumptions bc16_access_ref.
Print Assumptions bc8_api_ref. Print Assumptions bc16_api_ref. Print Assumptions bc7_api_ref. Print Assumptions bc15_api_ref.
Print Assumptions bc_build_shape.
