(* AccessDecodeFacts.v: trie::decode regenerated from trie.hpp (AccessTrieGen.trg_decode) against the hand-written
   model (Trie.decode / Trie.climb).
   Result (Section AccessDecode; the hypotheses are interface statements of IfaceAccess.v / IfaceAccessTrie.v):
     trie_decode_ref : TrieDecodeRef   trg_decode returns what the model's decode returns, whatever the caller's
                                       buffer held before. *)
From Coq Require Import Lia ZifyN ZifyBool ZifyNat.
From X Require Import Base Arr ArrFacts Consts BitToolsSpec BitToolsGen BitVector CompactVector Dac Tail Trie Spec Wf AccessLib AccessGen AccessDispatch AccessTrieGen Iface IfaceDac IfaceQuery IfaceAccess IfaceAccessTrie AccessTrieFacts.
Local Open Scope N_scope.

Arguments N.mul : simpl never.
Arguments N.add : simpl never.
Arguments N.sub : simpl never.
Arguments N.shiftl : simpl never.
Arguments N.shiftr : simpl never.
Arguments N.pow : simpl never.
Arguments N.div : simpl never.
Arguments N.modulo : simpl never.
Arguments N.land : simpl never.
Arguments N.lor : simpl never.
Arguments N.lxor : simpl never.
Arguments N.ones : simpl never.

Lemma ad_bind_ok_inv {A B} (r : res A) (f : A -> res B) y :
  bind r f = Ok y -> exists a, r = Ok a /\ f a = Ok y.
Proof. destruct r as [a|e|x]; cbn [bind]; intros H; [exists a; split; [reflexivity|exact H]|discriminate|discriminate]. Qed.

Lemma ad_land255_lt x : N.land x 255 < 256.
Proof. change 255 with (N.ones 8). rewrite N.land_ones. apply N.mod_lt. discriminate. Qed.

Lemma ad_while_unfold {S} fuel (c : S -> res bool) (b : S -> res S) s :
  while_res fuel c b s =
  bind (c s) (fun t => if t then match fuel with
                                 | O => Fault OutOfFuel
                                 | Datatypes.S f => bind (b s) (fun s' => while_res f c b s')
                                 end
                       else Ok s).
Proof. destruct fuel; reflexivity. Qed.

Section AccessDecode.
Hypothesis bvget : BvGetRef.
Hypothesis bvrank : BvRankRef.
Hypothesis bvsel : BvSelectRef.
Hypothesis api8 : Bc8ApiRef.
Hypothesis api16 : Bc16ApiRef.
Hypothesis api7 : Bc7ApiRef.
Hypothesis api15 : Bc15ApiRef.
Hypothesis tdec : TailDecodeRef.
Hypothesis ctref : CtRef.

(* the climbing loop: for any condition / body satisfying the characterising equations of the generated lambdas.
   The model conses onto acc while walking up; the loop appends to the buffer, which is reversed afterwards. *)
Lemma climb_loop_ref P (c : list N * N -> res bool) (b : list N * N -> res (list N * N)) :
  trie_shape P ->
  (forall out npos, c (out, npos) = Ok (negb (N.eqb npos 0))) ->
  (forall out npos, b (out, npos) =
     bind (bcg_check (t_bc P) npos) (fun ppos =>
       bind (bind (bind (bind (bind (bcg_base (t_bc P) ppos) (fun t2 => Ok (N.lxor t2 npos)))
                               (fun t3 => Ok (N.land t3 255)))
                         (fun t4 => ctg_get_char (t_table P) t4))
                  (fun t5 => Ok (out ++ [t5])))
            (fun out' => Ok (out', ppos)))) ->
  forall fuel npos out pre, climb fuel P npos (rev out) = Ok pre ->
    exists out' np', while_res fuel c b (out, npos) = Ok (out', np') /\ rev out' = pre.
Proof.
  intros (Hbc & Htb & Htl) Hc Hb.
  induction fuel as [|fuel IH]; intros npos out pre H; rewrite ad_while_unfold, Hc; cbn [bind];
    cbn [climb] in H; destruct (npos =? 0) eqn:E0; cbn [negb].
  - injection H as <-. exists out, npos. split; reflexivity.
  - discriminate.
  - injection H as <-. exists out, npos. split; reflexivity.
  - apply ad_bind_ok_inv in H. destruct H as (ppos & Eppos & H).
    apply ad_bind_ok_inv in H. destruct H as (base & Ebase & H).
    apply ad_bind_ok_inv in H. destruct H as (ch & Ech & H).
    destruct (bcg_ref api8 api16 api7 api15 (t_bc P) npos Hbc) as (_ & _ & Rcheck & _).
    destruct (bcg_ref api8 api16 api7 api15 (t_bc P) ppos Hbc) as (_ & Rbase & _ & _).
    rewrite Hb, (Rcheck _ Eppos). cbn [bind]. rewrite (Rbase _ Ebase). cbn [bind].
    destruct (ctref (t_table P) (N.land (N.lxor base npos) 255) ch Htb) as [_ Rchar].
    rewrite (Rchar (ad_land255_lt _) Ech). cbn [bind].
    apply IH. rewrite rev_unit. exact H.
Qed.

Theorem trie_decode_ref : TrieDecodeRef.
Proof.
  intros P id r out0 Hs Hid H. pose proof Hs as (Hbc & Htb & Htl).
  unfold decode in H. unfold trg_decode, trg_num_keys. cbv zeta.
  destruct (t_nkeys P <=? id) eqn:Ek; [exact H|].
  apply ad_bind_ok_inv in H. destruct H as (npos & Enpos & H).
  apply ad_bind_ok_inv in H. destruct H as (lf & Elf & H).
  apply ad_bind_ok_inv in H. destruct H as (tpos & Etpos & H).
  apply ad_bind_ok_inv in H. destruct H as (pre & Epre & H).
  unfold id_to_npos in Enpos. unfold trg_id_to_npos. rewrite (bvsel _ _ _ Hid Enpos). cbn [bind].
  destruct (bcg_ref api8 api16 api7 api15 (t_bc P) npos Hbc) as (Rleaf & _ & _ & Rlink).
  rewrite (Rleaf _ Elf). cbn [bind].
  assert (Etpos' : (if lf then bcg_link (t_bc P) npos else Ok mask64) = Ok tpos).
  { destruct lf; [exact (Rlink _ Etpos)|exact Etpos]. }
  rewrite Etpos'. cbn [bind].
  unfold t_num_units in Epre. change (@nil N) with (rev (@nil N)) in Epre.
  match goal with |- context [while_res ?f ?c ?b ?s] =>
    destruct (climb_loop_ref P c b Hs (fun _ _ => eq_refl) (fun _ _ => eq_refl) _ _ _ _ Epre)
      as (out' & np' & Eloop & Erev)
  end.
  rewrite Eloop. cbn [bind]. rewrite Erev. unfold u64max in H.
  destruct (negb (tpos =? 0) && negb (tpos =? mask64))%bool.
  - apply ad_bind_ok_inv in H. destruct H as (suf & Esuf & H).
    rewrite (tdec _ _ _ Htl Esuf). cbn [bind]. exact H.
  - exact H.
Qed.

End AccessDecode.

Print Assumptions trie_decode_ref.
