(* AccessDispatch.v (hand-written): trie<BcVector> is a template; the model's [bcvec] is the sum of the four
   instantiations, told apart by the cell width (8 / 16) or the pointer levels ([7;15;31] / [15;31]).
   These wrappers send each call to the functions regenerated from the matching header (AccessGen.v). *)
From X Require Import Base Arr Consts BitToolsSpec BitToolsGen BitVector CompactVector Dac Tail Trie AccessLib AccessGen.
Local Open Scope N_scope.

Definition is7 (d : bc7) : bool := match b7_vbits d with 7 :: _ => true | _ => false end.

Definition bcg_is_leaf (d : bcvec) (i : N) : res bool :=
  match d with
  | Bc8 d => if b8_w d =? 8 then b8g_is_leaf d i else b16g_is_leaf d i
  | Bc7 d => if is7 d then b7g_is_leaf d i else b15g_is_leaf d i
  end.
Definition bcg_base (d : bcvec) (i : N) : res N :=
  match d with
  | Bc8 d => if b8_w d =? 8 then b8g_base d i else b16g_base d i
  | Bc7 d => if is7 d then b7g_base d i else b15g_base d i
  end.
Definition bcg_check (d : bcvec) (i : N) : res N :=
  match d with
  | Bc8 d => if b8_w d =? 8 then b8g_check d i else b16g_check d i
  | Bc7 d => if is7 d then b7g_check d i else b15g_check d i
  end.
Definition bcg_link (d : bcvec) (i : N) : res N :=
  match d with
  | Bc8 d => if b8_w d =? 8 then b8g_link d i else b16g_link d i
  | Bc7 d => if is7 d then b7g_link d i else b15g_link d i
  end.
Definition bcg_is_used (d : bcvec) (i : N) : res bool :=
  match d with
  | Bc8 d => if b8_w d =? 8 then b8g_is_used d i else b16g_is_used d i
  | Bc7 d => if is7 d then b7g_is_used d i else b15g_is_used d i
  end.
Definition bcg_num_units (d : bcvec) : res N :=
  match d with
  | Bc8 d => if b8_w d =? 8 then b8g_num_units d else b16g_num_units d
  | Bc7 d => Ok (if is7 d then b7g_num_units d else b15g_num_units d)
  end.
Definition bcg_num_free_units (d : bcvec) : res N :=
  match d with
  | Bc8 d => Ok (if b8_w d =? 8 then b8g_num_free_units d else b16g_num_free_units d)
  | Bc7 d => Ok (if is7 d then b7g_num_free_units d else b15g_num_free_units d)
  end.
Definition bcg_num_nodes (d : bcvec) : res N :=
  match d with
  | Bc8 d => if b8_w d =? 8 then b8g_num_nodes d else b16g_num_nodes d
  | Bc7 d => Ok (if is7 d then b7g_num_nodes d else b15g_num_nodes d)
  end.
Definition bcg_num_leaves (d : bcvec) : res N :=
  match d with
  | Bc8 d => Ok (if b8_w d =? 8 then b8g_num_leaves d else b16g_num_leaves d)
  | Bc7 d => Ok (if is7 d then b7g_num_leaves d else b15g_num_leaves d)
  end.
