(* AccessFacts.v: the accessors regenerated from the headers (AccessGen.v) return what the hand-written
   model functions return, for compact_vector and bit_vector (statements in IfaceAccess.v). *)
From Coq Require Import ZArith Lia ZifyN ZifyBool ZifyNat.
From X Require Import Base Arr ArrFacts Consts BitToolsSpec BitToolsGen BitVector CompactVector Dac AccessLib AccessGen Iface IfaceDac IfaceAccess.
From X Require Import BitToolsFacts CompactFacts.
Local Open Scope N_scope.
Ltac Zify.zify_post_hook ::= Z.div_mod_to_equations.

Arguments N.mul : simpl never.
Arguments N.add : simpl never.
Arguments N.sub : simpl never.
Arguments N.shiftl : simpl never.
Arguments N.shiftr : simpl never.
Arguments N.pow : simpl never.
Arguments N.div : simpl never.
Arguments N.modulo : simpl never.
Arguments N.land : simpl never.
Arguments N.lor : simpl never.
Arguments N.ones : simpl never.
Arguments N.testbit : simpl never.

(* ---------------- 64-bit arithmetic ---------------- *)
Lemma ac_pow64 : 2 ^ 64 = 18446744073709551616. Proof. reflexivity. Qed.

Lemma ac_add64_small a b : a + b < 2 ^ 64 -> add64 a b = a + b.
Proof. intros H. unfold add64. apply w64_small. assumption. Qed.

Lemma ac_sub64_small a b : b <= a -> a < 2 ^ 64 -> sub64 a b = a - b.
Proof.
  intros Hb Ha. unfold sub64. rewrite (w64_small b) by lia.
  change (N.shiftl 1 64) with (2 ^ 64). rewrite w64_mod. rewrite ac_pow64 in *. lia.
Qed.

Lemma ac_w64_idem x : w64 (w64 x) = w64 x.
Proof. apply w64_small. apply w64_lt. Qed.

Lemma ac_shl_mul a k : shl64 a k = mul64 a (2 ^ k).
Proof. unfold shl64, mul64. rewrite N.shiftl_mul_pow2. reflexivity. Qed.

Lemma ac_shl1 a : shl64 a 1 = mul64 a 2. Proof. apply ac_shl_mul. Qed.
Lemma ac_shl3 a : shl64 a 3 = mul64 a 8. Proof. apply ac_shl_mul. Qed.
Lemma ac_shl6 a : shl64 a 6 = mul64 a 64. Proof. apply ac_shl_mul. Qed.

Lemma ac_shr1 a : shr64 a 1 = a / 2.
Proof. unfold shr64. rewrite N.shiftr_div_pow2. reflexivity. Qed.
Lemma ac_shr3 a : shr64 a 3 = a / 8.
Proof. unfold shr64. rewrite N.shiftr_div_pow2. reflexivity. Qed.
Lemma ac_land7 a : N.land a 7 = a mod 8.
Proof. change 7 with (N.ones 3). rewrite N.land_ones. reflexivity. Qed.

Lemma ac_mod64_ltb a : (a mod 64 <? 64) = true.
Proof. apply N.ltb_lt. apply N.mod_lt. discriminate. Qed.

(* ---------------- compact_vector ---------------- *)
Theorem cv_get_ref : CvGetRef.
Proof.
  intros c i x Hb H. unfold cv_get in H. unfold cvg_get, cvg_decompose.
  destruct (negb (i <? cv_size c)); [discriminate|].
  cbv zeta in H. rewrite shr6, land63 in H. cbv beta iota zeta.
  set (pos := mul64 i (cv_bits c)) in *.
  assert (Hpos : pos < 2 ^ 64) by apply w64_lt.
  assert (Hm : pos mod 64 < 64) by (apply N.mod_lt; discriminate).
  rewrite ac_pow64 in Hpos.
  assert (Hadd : add64 (pos mod 64) (cv_bits c) = pos mod 64 + cv_bits c).
  { apply ac_add64_small. rewrite ac_pow64. lia. }
  rewrite Hadd.
  destruct (pos mod 64 + cv_bits c <=? 64) eqn:E.
  - apply bind_ok_inv in H. destruct H as (w & Hw & H). rewrite Hw. cbn [bind].
    unfold shr64c. rewrite ac_mod64_ltb. cbn [bind]. exact H.
  - apply N.leb_gt in E.
    apply bind_ok_inv in H. destruct H as (w0 & Hw0 & H).
    apply bind_ok_inv in H. destruct H as (w1 & Hw1 & H).
    rewrite Hw0. cbn [bind]. unfold shr64c. rewrite ac_mod64_ltb. cbn [bind].
    rewrite (ac_add64_small (pos / 64) 1) by (rewrite ac_pow64; lia).
    rewrite Hw1. cbn [bind].
    rewrite (ac_sub64_small 64 (pos mod 64)) by (try rewrite ac_pow64; lia).
    unfold shl64c.
    assert (Hs : (64 - pos mod 64 <? 64) = true) by (apply N.ltb_lt; lia).
    rewrite Hs. cbn [bind]. exact H.
Qed.

Theorem cv_build_bits : CvBuildBits.
Proof.
  intros vs c Hall H. unfold cv_build in H.
  destruct vs as [|v0 vt]; [discriminate|]. cbv zeta in H.
  apply bind_ok_inv in H. destruct H as (ch & _ & H).
  injection H as <-. cbn [cv_bits].
  destruct (fold_max_spec (v0 :: vt) 0) as (_ & _ & Hmax64).
  fold (list_max (v0 :: vt)) in Hmax64.
  assert (Hm64 : list_max (v0 :: vt) < 2 ^ 64).
  { apply Hmax64; [|assumption]. apply N.neq_0_lt_0. apply N.pow_nonzero. discriminate. }
  destruct (needed_bits_spec msb_log2 _ Hm64) as (_ & Hb64 & _). exact Hb64.
Qed.

(* ---------------- bit_vector ---------------- *)
Theorem bv_get_ref : BvGetRef.
Proof.
  intros v i x H. unfold bv_get in H. unfold bvg_get.
  rewrite shr6 in H. apply bind_ok_inv in H. destruct H as (w & Hw & H).
  rewrite Hw. cbn [bind]. unfold shl64c. rewrite ac_mod64_ltb. cbn [bind].
  unfold bit_mask in H. rewrite land63 in H. exact H.
Qed.

Lemma rank_for_block_eq v bi : bvg_rank_for_block v bi = rank_for_block v bi.
Proof. unfold bvg_rank_for_block, rank_for_block. rewrite ac_shl1. reflexivity. Qed.

Lemma ranks_in_block_eq v bi : bvg_ranks_in_block v bi = ranks_in_block v bi.
Proof. unfold bvg_ranks_in_block, ranks_in_block. rewrite ac_shl1. reflexivity. Qed.

Lemma rank_in_block_eq v bi bj : bvg_rank_in_block v bi bj = rank_in_block v bi bj.
Proof.
  unfold bvg_rank_in_block, rank_in_block. rewrite ranks_in_block_eq.
  destruct (ranks_in_block v bi); reflexivity.
Qed.

Lemma rank_for_word_eq v wi : bvg_rank_for_word v wi = rank_for_word v wi.
Proof.
  unfold bvg_rank_for_word, rank_for_word, bvg_decompose, bv_block_size.
  cbv beta iota zeta. rewrite ac_shr3, ac_land7, rank_for_block_eq, rank_in_block_eq. reflexivity.
Qed.

Lemma rank_for_word_lt v wi r : rank_for_word v wi = Ok r -> r < 2 ^ 64.
Proof.
  unfold rank_for_word. cbv zeta. intros H.
  apply bind_ok_inv in H. destruct H as (a & _ & H).
  apply bind_ok_inv in H. destruct H as (b & _ & H).
  injection H as <-. apply w64_lt.
Qed.

Theorem bv_rank_ref : BvRankRef.
Proof.
  intros v i x H. unfold bv_rank in H. unfold bvg_rank, bvg_size, bvg_num_ones, bvg_decompose.
  destruct (i =? bv_size v); [exact H|].
  cbv zeta in H. cbv beta iota zeta. rewrite shr6, land63 in H.
  rewrite rank_for_word_eq.
  apply bind_ok_inv in H. destruct H as (r & Hr & H). rewrite Hr. cbn [bind].
  destruct (i mod 64 =? 0); cbn [negb bind].
  - injection H as <-. f_equal. rewrite ac_add64_small; rewrite N.add_0_r; [reflexivity|].
    eapply rank_for_word_lt; eassumption.
  - apply bind_ok_inv in H. destruct H as (w & Hw & H).
    apply bind_ok_inv in H. destruct H as (s & Hs & H).
    rewrite Hw. cbn [bind]. rewrite Hs. cbn [bind]. exact H.
Qed.

Lemma select_with_hint_ref v n p : n < 2 ^ 64 ->
  select_with_hint v n = Ok p -> bvg_select_with_hint v n = Ok p.
Proof.
  intros Hn H. unfold select_with_hint in H. unfold bvg_select_with_hint.
  unfold bv_selects_per_hint in *. cbv zeta in *.
  set (i := n / 1024) in *.
  assert (Hi : i < 2 ^ 64) by (rewrite ac_pow64 in *; subst i; lia).
  destruct (i =? 0) eqn:E; cbn [negb].
  - cbn [bind] in *. apply bind_ok_inv in H. destruct H as (b & Hb & H).
    rewrite Hb. cbn [bind]. exact H.
  - apply N.eqb_neq in E.
    apply bind_ok_inv in H. destruct H as (a & Ha & H).
    apply bind_ok_inv in H. destruct H as (b & Hb & H).
    rewrite (ac_sub64_small i 1) by lia. rewrite Ha. cbn [bind]. rewrite Hb. cbn [bind]. exact H.
Qed.

Lemma while_bsearch v n (C : N * N -> res bool) (B : N * N -> res (N * N)) :
  (forall a b, C (a, b) = Ok (1 <? sub64 b a)) ->
  (forall a b, B (a, b) =
     let lb := add64 a (shr64 (sub64 b a) 1) in
     do r <- rank_for_block v lb; Ok (if r <=? n then (lb, b) else (a, lb))) ->
  forall fuel a b r, select_bsearch fuel v n a b = Ok r ->
  exists b', while_res fuel C B (a, b) = Ok (r, b').
Proof.
  intros HC HB. induction fuel as [|f IH]; intros a b r H; cbn [select_bsearch] in H;
    cbn [while_res]; rewrite HC; cbn [bind]; rewrite N.ltb_antisym;
    destruct (sub64 b a <=? 1) eqn:E; cbn [negb].
  - injection H as <-. eauto.
  - discriminate.
  - injection H as <-. eauto.
  - cbv zeta in H. apply bind_ok_inv in H. destruct H as (r0 & Hr0 & H).
    rewrite HB. cbv zeta. rewrite Hr0. cbn [bind].
    destruct (r0 <=? n); apply IH; exact H.
Qed.

Lemma select_for_block_ref v n r : n < 2 ^ 64 ->
  select_for_block v n = Ok r -> bvg_select_for_block v n = Ok r.
Proof.
  intros Hn H. unfold select_for_block in H. unfold bvg_select_for_block.
  apply bind_ok_inv in H. destruct H as ([a b] & Hp & H).
  rewrite (select_with_hint_ref v n (a, b) Hn Hp). cbn [bind].
  match goal with |- context [while_res 64%nat ?C ?B (a, b)] =>
    destruct (while_bsearch v n C B) with (fuel := 64%nat) (a := a) (b := b) (r := r) as (b' & Hb')
  end.
  - intros a0 b0. reflexivity.
  - intros a0 b0. cbv beta iota zeta. rewrite rank_for_block_eq, ac_shr1.
    destruct (rank_for_block v (add64 a0 (sub64 b0 a0 / 2))) as [t| |]; cbn [bind]; [|reflexivity|reflexivity].
    destruct (t <=? n); reflexivity.
  - exact H.
  - rewrite Hb'. cbn [bind]. reflexivity.
Qed.

Theorem bv_select_ref : BvSelectRef.
Proof.
  intros v n x Hn H. unfold bv_select in H. unfold bvg_select.
  apply bind_ok_inv in H. destruct H as (bi & Hbi & H).
  apply bind_ok_inv in H. destruct H as (cr & Hcr & H).
  cbv zeta in H.
  apply bind_ok_inv in H. destruct H as (sub & Hsub & H).
  apply bind_ok_inv in H. destruct H as (sh & Hsh & H).
  apply bind_ok_inv in H. destruct H as (w & Hw & H).
  rewrite (select_for_block_ref v n bi Hn Hbi). cbn [bind].
  rewrite rank_for_block_eq, Hcr. cbn [bind].
  rewrite ranks_in_block_eq, Hsub. cbn [bind].
  rewrite Hsh. cbn [bind].
  unfold bv_block_size. rewrite <- ac_shl3. rewrite Hw. cbn [bind].
  rewrite <- ac_shl6. exact H.
Qed.

Print Assumptions cv_get_ref.
Print Assumptions bv_get_ref.
Print Assumptions bv_rank_ref.
Print Assumptions bv_select_ref.
Print Assumptions cv_build_bits.
