(* AccessLib.v: the two combinators the generated AccessGen.v uses (translator/access.py). *)
From X Require Import Base Arr.
Local Open Scope N_scope.

(* while (c) { b }: the condition is evaluated first; running out of fuel with the condition still true is a Fault *)
Fixpoint while_res {S : Type} (fuel : nat) (c : S -> res bool) (b : S -> res S) (s : S) : res S :=
  do t <- c s;
  if t then match fuel with
            | O => Fault OutOfFuel
            | Datatypes.S f => do s' <- b s; while_res f c b s'
            end
  else Ok s.

(* m_xs[j] on a std::array of members: outside the array is undefined behaviour *)
Definition lget {A : Type} (l : list A) (j : N) : res A :=
  match nth_error l (N.to_nat j) with Some a => Ok a | None => Fault OobArr end.

(* a loop that can return from the function: one iteration yields the next state, the state at normal exit, or the
   returned value; the fuel counts the iterations after the first *)
Inductive ctl (S R : Type) : Type := Next (s : S) | Done (s : S) | Ret (r : R).
Arguments Next {S R} s. Arguments Done {S R} s. Arguments Ret {S R} r.
Fixpoint loop_ctl {S R : Type} (fuel : nat) (it : S -> res (ctl S R)) (s : S) : res (S + R) :=
  do o <- it s;
  match o with
  | Ret r => Ok (inr r)
  | Done s' => Ok (inl s')
  | Next s' => match fuel with
               | O => Fault OutOfFuel
               | Datatypes.S f => loop_ctl f it s'
               end
  end.

(* std::string_view::substr(i, n) on a byte list *)
Definition key_substr (k : list N) (i n : N) : list N := firstn (N.to_nat n) (skipn (N.to_nat i) k).

(* a read-only pass over a range (for (auto it = r.rbegin(); it != r.rend(); ++it)): the body sees one element at a time *)
Fixpoint foreach_res {S A : Type} (l : list A) (f : S -> A -> res S) (s : S) : res S :=
  match l with
  | [] => Ok s
  | x :: t => do s' <- f s x; foreach_res t f s'
  end.

(* std::string::resize(n): truncates, or pads with NUL bytes *)
Definition key_resize (k : list N) (n : N) : list N :=
  firstn (N.to_nat n) k ++ repeat 0 (N.to_nat n - length k).
