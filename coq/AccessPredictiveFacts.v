From X Require Import Base Arr ArrFacts Consts BitToolsSpec BitToolsGen BitVector CompactVector Dac Tail Trie Spec Wf AccessLib AccessGen AccessDispatch AccessTrieGen Iface IfaceDac IfaceQuery IfaceAccess IfaceAccessTrie AccessTrieFacts.
(* AccessPredictiveFacts.v: trie::next_predictive regenerated from trie.hpp (AccessTrieGen.trg_next_predictive) against the
   hand-written model (Trie.next_predictive / pred_descend / pred_dfs / push_children / set_label / prefixb / child).
   Results (Section AccessPredictive; the hypotheses are interface statements of IfaceAccess.v / IfaceAccessTrie.v):
     pred_next_ref_alpha_gen   one advance: trg_next_predictive returns what the model's next_predictive returns.  Premises of
                               PredNextRefNaive plus alpha_bytes P (below); the bound on the decoded buffer is needed only
                               while the iterator is fresh (d_beg it = true).
     pred_next_ref_alpha : PredNextRefAlpha   = PredNextRefNaive with the extra premise alpha_bytes P
     assemble_alpha_bytes      what assemble builds from certificate-checked content has alpha_bytes (no hypotheses)
     pred_calls_ref_bounded    n successive advances from a fresh iterator (pred_calls_g vs pred_calls), for
                               lenN q < 2^61, units < 2^61, n * (units + 2) < 2^61; no premise on decoded lengths
     model facts: t_decode_len, pred_descend_inv, pred_dfs_inv, next_predictive_inv (cursor depths grow by at most
                  units + 2 per advance; object, key and "fresh => empty stack and buffer" are kept)

   NOTE, PredNextRefNaive as stated in IfaceAccessTrie.v is FALSE: pred_next_ref_naive_refuted : ~ PredNextRefNaive (last theorem of this
   file, no hypotheses).  trie_shape says nothing about the stored alphabet ct_alpha.  The source iterates the alphabet
   as uint8_t and the generated code therefore masks every element (N.land c 255) both for get_code and for the pushed
   cursor's label, while the model's push_children uses the element itself: ct_get_code table c = aget (ct_table) c and
   label c.  The counterexample cx_P: ct_alpha = [256], a 512-entry table of zeros, one terminal non-leaf unit with
   BASE 0 and CHECK 0 (built by bc_build V8): the model's first advance returns the stack [mkCur 256 1 0], the
   generated one [mkCur 0 1 0].  The premise alpha_bytes P : Forall (fun c => c < 256) (alist (ct_alpha (t_table P)))
   removes exactly this; every trie built by assemble from well-formed content has it (assemble_alpha_bytes). *)
From Coq Require Import Lia ZifyN ZifyBool ZifyNat.
From X Require Import PredictiveFacts AllAccess.
Local Open Scope N_scope.

Definition pd_state := (bool * list N * N * N * N)%type.
Definition dfs_state := (list cursor * list N * N)%type.
Definition pr := (pred_it * bool)%type.

Definition pd_body (s : trie) (obj : bool) (key : list N) (stack : list cursor) (beg : bool)
   (e : bool) (dec : list N) (id npos kpos : N) : res (ctl pd_state pr) :=
  if N.ltb kpos (lenN key) then
    bind (bcg_is_leaf (t_bc s) npos) (fun t9 =>
    if t9 then
      bind (bcg_link (t_bc s) npos) (fun tpos =>
      if N.eqb tpos 0 then Ok (Ret (mkPred obj key id dec stack beg true, false))
      else
        bind (bind (tvg_decode (t_tail s) tpos) (fun t1 => Ok (dec ++ t1))) (fun dec' =>
        if orb (N.ltb (sub64 (lenN dec') (lenN dec)) (lenN (trg_get_suffix s key kpos)))
               (negb (key_eqb (key_substr dec' (lenN dec) (lenN (trg_get_suffix s key kpos))) (trg_get_suffix s key kpos)))
        then Ok (Ret (mkPred obj key id dec' stack beg true, false))
        else bind (trg_npos_to_id s npos) (fun id' => Ok (Ret (mkPred obj key id' dec' stack beg true, true)))))
    else
      bind (bind (bcg_base (t_bc s) npos) (fun t4 =>
            bind (bind (bind (kget key kpos) (fun t2 => Ok (N.land t2 255))) (fun t3 => ctg_get_code (t_table s) t3))
                 (fun t5 => Ok (N.lxor t4 t5)))) (fun cpos =>
      bind (bind (bcg_check (t_bc s) cpos) (fun t6 => Ok (negb (N.eqb t6 npos)))) (fun t8 =>
      if t8 then Ok (Ret (mkPred obj key id dec stack beg true, false))
      else bind (bind (kget key kpos) (fun t7 => Ok (dec ++ [t7]))) (fun dec' =>
           Ok (Next (e, dec', id, cpos, add64 kpos 1))))))
  else Ok (Done (e, dec, id, npos, kpos)).

Definition pd_it (s : trie) (obj : bool) (key : list N) (stack : list cursor) (beg : bool)
  : pd_state -> res (ctl pd_state pr) :=
  fun '(e, dec, id, npos, kpos) => pd_body s obj key stack beg e dec id npos kpos.

Definition dfs_push (s : trie) (base npos kpos : N) : list cursor -> N -> res (list cursor) :=
  fun stack cit =>
    bind (bind (ctg_get_code (t_table s) (N.land cit 255)) (fun t12 => Ok (N.lxor base t12))) (fun cpos =>
    bind (bind (bind (bcg_check (t_bc s) cpos) (fun t13 => Ok (N.eqb t13 npos)))
               (fun t14 => Ok (if t14 then mkCur (N.land cit 255) (add64 kpos 1) cpos :: stack else stack)))
         (fun stack' => Ok stack')).

Definition dfs_body (s : trie) (obj : bool) (key : list N) (beg e : bool) (stack : list cursor) (dec : list N) (id : N)
  : res (ctl dfs_state pr) :=
  if negb (match stack with [] => true | _ => false end) then
    let label := c_label (hd (mkCur 0 0 0) stack) in
    let kpos := c_kpos (hd (mkCur 0 0 0) stack) in
    let npos := c_npos (hd (mkCur 0 0 0) stack) in
    let stack1 := tl stack in
    let dec1 := if N.ltb 0 kpos then removelast (key_resize dec kpos) ++ [label] else dec in
    bind (bcg_is_leaf (t_bc s) npos) (fun t16 =>
    if t16 then
      bind (trg_npos_to_id s npos) (fun id' =>
      bind (bind (bind (bcg_link (t_bc s) npos) (fun t10 => tvg_decode (t_tail s) t10)) (fun t11 => Ok (dec1 ++ t11))) (fun dec2 =>
      Ok (Ret (mkPred obj key id' dec2 stack1 beg e, true))))
    else
      bind (bcg_base (t_bc s) npos) (fun base =>
      bind (foreach_res (rev (alist (ct_alpha (t_table s)))) (dfs_push s base npos kpos) stack1) (fun stack2 =>
      bind (bvg_get (t_terms s) npos) (fun t15 =>
      if t15 then bind (trg_npos_to_id s npos) (fun id' => Ok (Ret (mkPred obj key id' dec1 stack2 beg e, true)))
      else Ok (Next (stack2, dec1, id))))))
  else Ok (Done (stack, dec, id)).

Definition dfs_it (s : trie) (obj : bool) (key : list N) (beg e : bool) : dfs_state -> res (ctl dfs_state pr) :=
  fun '(stack, dec, id) => dfs_body s obj key beg e stack dec id.

Definition dfs_epi (obj : bool) (key : list N) (beg : bool) (o_ : dfs_state + pr) : res pr :=
  match o_ with
  | inr r_ => Ok r_
  | inl (stack, dec, id) => Ok (mkPred obj key id dec stack beg true, false)
  end.

Definition dfs_run (s : trie) (obj : bool) (key : list N) (beg e : bool) (st : dfs_state) : res pr :=
  bind (loop_ctl (S (N.to_nat (bc_num_units (t_bc s)))) (dfs_it s obj key beg e) st) (dfs_epi obj key beg).

Definition pd_epi (s : trie) (obj : bool) (key : list N) (stack : list cursor) (beg : bool) (o_ : pd_state + pr) : res pr :=
  match o_ with
  | inr r_ => Ok r_
  | inl (e, dec, id, npos, kpos) =>
    dfs_run s obj key beg e
      ((if negb (match dec with [] => true | _ => false end)
        then mkCur (last dec 0) kpos npos :: stack else mkCur 0 kpos npos :: stack), dec, id)
  end.

Lemma trg_next_predictive_eq s it : trg_next_predictive s it =
  if d_end it then Ok (mkPred (d_obj it) (d_key it) (d_id it) (d_dec it) (d_stack it) (d_beg it) (d_end it), false)
  else if d_beg it then
    bind (loop_ctl (S (length (d_key it))) (pd_it s (d_obj it) (d_key it) (d_stack it) false)
                   (d_end it, d_dec it, d_id it, 0, 0))
         (pd_epi s (d_obj it) (d_key it) (d_stack it) false)
  else dfs_run s (d_obj it) (d_key it) (d_beg it) (d_end it) (d_stack it, d_dec it, d_id it).
Proof. reflexivity. Qed.

Arguments N.mul : simpl never.
Arguments N.add : simpl never.
Arguments N.sub : simpl never.
Arguments N.shiftl : simpl never.
Arguments N.shiftr : simpl never.
Arguments N.pow : simpl never.
Arguments N.div : simpl never.
Arguments N.modulo : simpl never.
Arguments N.land : simpl never.
Arguments N.lor : simpl never.
Arguments N.lxor : simpl never.
Arguments N.ones : simpl never.

(* ------------------------------------------------------------------ small facts *)
Lemma pp_aget_lt {A} (a : arr A) i x : aget a i = Ok x -> i < alen a.
Proof.
  unfold aget, get. destruct (i <? alen a) eqn:E; [intros _; apply N.ltb_lt; exact E|discriminate].
Qed.

Lemma pp_lenN_cons {A} (x : A) l : lenN (x :: l) = lenN l + 1.
Proof. unfold lenN. cbn [length]. lia. Qed.

Lemma dec_bin_len t : forall f tpos r, dec_bin f t tpos = Ok r -> tpos + lenN r <= alen (tv_chars t).
Proof.
  induction f as [|f IH]; intros tpos r H; cbn [dec_bin] in H; [discriminate|].
  apply bind_ok_inv in H. destruct H as (c & Ec & H).
  apply bind_ok_inv in H. destruct H as (tm & Etm & H).
  apply pp_aget_lt in Ec.
  destruct tm.
  - injection H as <-. rewrite pp_lenN_cons. unfold lenN. cbn [length]. lia.
  - apply bind_ok_inv in H. destruct H as (r' & Er & H). injection H as <-.
    apply IH in Er. rewrite pp_lenN_cons. lia.
Qed.

Lemma dec_nul_len t : forall f tpos r, dec_nul f t tpos = Ok r -> tpos + lenN r <= alen (tv_chars t).
Proof.
  induction f as [|f IH]; intros tpos r H; cbn [dec_nul] in H; [discriminate|].
  apply bind_ok_inv in H. destruct H as (c & Ec & H).
  apply pp_aget_lt in Ec.
  destruct (c =? 0).
  - injection H as <-. unfold lenN. cbn [length]. lia.
  - apply bind_ok_inv in H. destruct H as (r' & Er & H). injection H as <-.
    apply IH in Er. rewrite pp_lenN_cons. lia.
Qed.

Lemma t_decode_len t tpos r : t_decode t tpos = Ok r -> lenN r <= alen (tv_chars t).
Proof.
  unfold t_decode. destruct (tv_bin_mode t).
  - destruct (tpos =? 0).
    + intros H. injection H as <-. unfold lenN. cbn [length]. lia.
    + intros H. apply dec_bin_len in H. lia.
  - intros H. apply dec_nul_len in H. lia.
Qed.

(* the repaired F4 comparison, as the source writes it *)
Lemma prefixb_firstn : forall rest suf,
  prefixb rest suf = Nat.leb (length rest) (length suf) && key_eqb (firstn (length rest) suf) rest.
Proof.
  induction rest as [|x rest IH]; intros suf.
  - reflexivity.
  - destruct suf as [|y suf].
    + reflexivity.
    + cbn [prefixb length firstn key_eqb]. rewrite IH, (N.eqb_sym y x).
      change (Nat.leb (S (length rest)) (S (length suf))) with (Nat.leb (length rest) (length suf)).
      destruct (x =? y), (Nat.leb (length rest) (length suf)); reflexivity.
Qed.

Lemma pp_skipn_app {A} (m suf : list A) : skipn (length m) (m ++ suf) = suf.
Proof. induction m as [|x m IH]; [reflexivity|exact IH]. Qed.

Lemma pp_compare m suf rest : lenN m + lenN suf < 2 ^ 64 ->
  orb (N.ltb (sub64 (lenN (m ++ suf)) (lenN m)) (lenN rest))
      (negb (key_eqb (key_substr (m ++ suf) (lenN m) (lenN rest)) rest)) = negb (prefixb rest suf).
Proof.
  intros Hlen. rewrite at_lenN_app, at_sub64_small by lia.
  replace (lenN m + lenN suf - lenN m) with (lenN suf) by lia.
  assert (E1 : N.to_nat (lenN m) = length m) by (unfold lenN; apply Nat2N.id).
  assert (E2 : N.to_nat (lenN rest) = length rest) by (unfold lenN; apply Nat2N.id).
  unfold key_substr. rewrite E1, E2, pp_skipn_app, prefixb_firstn.
  destruct (Nat.leb (length rest) (length suf)) eqn:E.
  - assert (E' : lenN suf <? lenN rest = false) by (apply N.ltb_ge; apply PeanoNat.Nat.leb_le in E; unfold lenN; lia).
    rewrite E'. reflexivity.
  - assert (E' : lenN suf <? lenN rest = true) by (apply N.ltb_lt; apply PeanoNat.Nat.leb_gt in E; unfold lenN; lia).
    rewrite E'. reflexivity.
Qed.

Lemma set_label_eq dec kpos label : set_label dec kpos label = removelast (key_resize dec kpos) ++ [label].
Proof. reflexivity. Qed.

Lemma start_cursor dec kpos npos stack :
  (if negb (match rev dec with [] => true | _ => false end)
   then mkCur (last (rev dec) 0) kpos npos :: stack else mkCur 0 kpos npos :: stack)
  = mkCur (match dec with [] => 0 | c :: _ => c end) kpos npos :: stack.
Proof.
  destruct dec as [|c dec]; [reflexivity|]. cbn [rev]. rewrite last_last.
  destruct (rev dec ++ [c]) eqn:E; [apply app_eq_nil in E; destruct E; discriminate|reflexivity].
Qed.

(* the model's pushes only add cursors one level below the popped one *)
Lemma push_children_kpos P (Q : N -> Prop) base npos kpos : Q (kpos + 1) ->
  forall alpha stack st', Forall (fun c => Q (c_kpos c)) stack ->
  push_children P alpha base npos kpos stack = Ok st' -> Forall (fun c => Q (c_kpos c)) st'.
Proof.
  intros HQ. induction alpha as [|c alpha IH]; intros stack st' Hst H; cbn [push_children] in H.
  - injection H as <-. exact Hst.
  - apply bind_ok_inv in H. destruct H as (cd & Ecd & H). cbv zeta in H.
    apply bind_ok_inv in H. destruct H as (chk & Echk & H).
    apply IH in H; [exact H|]. destruct (chk =? npos); [|exact Hst].
    constructor; [exact HQ|exact Hst].
Qed.


(* ------------------------------------------------------------------ what one advance of the MODEL keeps *)
Lemma pred_descend_inv P it : forall rest kpos npos dec it1 ob,
  pred_descend P it rest kpos npos dec = Ok (it1, ob) ->
  d_obj it1 = true /\ d_key it1 = d_key it /\ d_beg it1 = false /\
  Forall (fun c => c_kpos c = kpos + lenN rest) (d_stack it1).
Proof.
  induction rest as [|b rest IH]; intros kpos npos dec it1 ob H; cbn [pred_descend] in H.
  - injection H as E1 E2. subst it1 ob. cbn [d_obj d_key d_beg d_stack]. repeat split.
    constructor; [|constructor]. cbn [c_kpos]. unfold lenN. cbn [length]. lia.
  - apply bind_ok_inv in H. destruct H as (lf & Elf & H).
    destruct lf.
    + apply bind_ok_inv in H. destruct H as (tpos & Etpos & H).
      destruct (tpos =? 0).
      * injection H as E1 E2. subst it1 ob. cbn [d_obj d_key d_beg d_stack]. repeat split. constructor.
      * apply bind_ok_inv in H. destruct H as (suf & Esuf & H). cbv zeta in H.
        destruct (prefixb (b :: rest) suf).
        -- apply bind_ok_inv in H. destruct H as (idv & Eid & H). injection H as E1 E2. subst it1 ob.
           cbn [d_obj d_key d_beg d_stack]. repeat split. constructor.
        -- injection H as E1 E2. subst it1 ob. cbn [d_obj d_key d_beg d_stack]. repeat split. constructor.
    + apply bind_ok_inv in H. destruct H as ([cpos ok] & Ech & H). cbv beta iota in H.
      destruct ok; cbn [negb] in H.
      * apply IH in H. destruct H as (H1 & H2 & H3 & H4). repeat split; try assumption.
        eapply Forall_impl; [|exact H4]. cbv beta. intros c Hc. rewrite pp_lenN_cons. lia.
      * injection H as E1 E2. subst it1 ob. cbn [d_obj d_key d_beg d_stack]. repeat split. constructor.
Qed.

Lemma pred_dfs_inv P : forall f it B it' b, Forall (fun c => c_kpos c < B) (d_stack it) ->
  pred_dfs f P it = Ok (it', b) ->
  d_obj it' = true /\ d_key it' = d_key it /\ d_beg it' = false /\
  Forall (fun c => c_kpos c < B + N.of_nat f) (d_stack it').
Proof.
  induction f as [|f IH]; intros it B it' b Hst H; destruct it as [obj key id dec stack beg e];
    destruct stack as [|cur stack]; cbn [pred_dfs d_stack d_key d_id d_dec] in H.
  - injection H as E1 E2. subst it' b. cbn [d_obj d_key d_beg d_stack]. repeat split. constructor.
  - discriminate H.
  - injection H as E1 E2. subst it' b. cbn [d_obj d_key d_beg d_stack]. repeat split. constructor.
  - cbn [d_stack] in Hst. inversion Hst as [|c0 s0 Hk Hst']; subst c0 s0.
    apply bind_ok_inv in H. destruct H as (lf & Elf & H).
    destruct lf.
    + apply bind_ok_inv in H. destruct H as (idv & Eid & H).
      apply bind_ok_inv in H. destruct H as (tpos & Etpos & H).
      apply bind_ok_inv in H. destruct H as (suf & Esuf & H).
      injection H as E1 E2. subst it' b. cbn [d_obj d_key d_beg d_stack]. repeat split.
      eapply Forall_impl; [|exact Hst']. cbv beta. intros c Hc. lia.
    + apply bind_ok_inv in H. destruct H as (base & Ebase & H).
      apply bind_ok_inv in H. destruct H as (stack' & Epush & H).
      apply bind_ok_inv in H. destruct H as (tm & Etm & H).
      apply (push_children_kpos P (fun k => k < B + 1)) in Epush; [|lia|].
      2:{ eapply Forall_impl; [|exact Hst']. cbv beta. intros c Hc. lia. }
      destruct tm.
      * apply bind_ok_inv in H. destruct H as (idv & Eid & H).
        injection H as E1 E2. subst it' b. cbn [d_obj d_key d_beg d_stack]. repeat split.
        eapply Forall_impl; [|exact Epush]. cbv beta. intros c Hc. lia.
      * apply (IH _ (B + 1)) in H; [|exact Epush]. cbn [d_key] in H |- *.
        destruct H as (H1 & H2 & H3 & H4). repeat split; try assumption.
        eapply Forall_impl; [|exact H4]. cbv beta. intros c Hc. lia.
Qed.

(* bound to its query; fresh iterators have an empty stack and an empty buffer; every cursor is below B *)
Definition pred_inv (q : key) (B : N) (it : pred_it) : Prop :=
  d_obj it = true /\ d_key it = q /\ (d_beg it = true -> d_stack it = [] /\ d_dec it = []) /\ cursors_below B it.

Lemma next_predictive_inv P q B it it' b : lenN q < B -> pred_inv q B it -> next_predictive P it = Ok (it', b) ->
  pred_inv q (B + t_num_units P + 2) it'.
Proof.
  intros HB (Ho & Hkey & Hbeg & Hcb) H. unfold next_predictive in H. rewrite Ho in H. cbn [negb] in H.
  unfold cursors_below in *.
  assert (Hweak : forall (l : list cursor) B', B' <= B + t_num_units P + 2 ->
            Forall (fun c => c_kpos c < B') l -> Forall (fun c => c_kpos c < B + t_num_units P + 2) l).
  { intros l B' HB' Hl. eapply Forall_impl; [|exact Hl]. cbv beta. intros c Hc. lia. }
  revert H. destruct (d_end it) eqn:Ee; intros H.
  - injection H as E1 E2. subst it' b. unfold pred_inv, cursors_below. repeat split; try assumption.
    + apply (Hbeg H).
    + apply (Hbeg H).
    + apply (Hweak _ B); [lia|exact Hcb].
  - apply bind_ok_inv in H. destruct H as ([it1 ob] & Ed & H). cbv beta iota in H.
    revert Ed. destruct (d_beg it) eqn:Eb; intros Ed.
    + apply pred_descend_inv in Ed. destruct Ed as (D1 & D2 & D3 & D4).
      destruct ob as [b'|].
      * injection H as E1 E2. subst it' b. unfold pred_inv, cursors_below. rewrite D1, D2, D3.
        repeat split; try assumption; try discriminate.
        apply (Hweak _ B); [lia|]. eapply Forall_impl; [|exact D4]. cbv beta. intros c Hc. rewrite Hkey in Hc. lia.
      * apply (pred_dfs_inv P _ _ B) in H.
        -- destruct H as (H1 & H2 & H3 & H4). unfold pred_inv, cursors_below. rewrite H1, H2, H3, D2.
           repeat split; try assumption; try discriminate.
           apply (Hweak _ _ (N.le_refl _)). eapply Forall_impl; [|exact H4]. cbv beta. intros c Hc. lia.
        -- eapply Forall_impl; [|exact D4]. cbv beta. intros c Hc. rewrite Hkey in Hc. lia.
    + injection Ed as E1 E2. subst it1 ob.
      apply (pred_dfs_inv P _ _ B) in H; [|exact Hcb].
      destruct H as (H1 & H2 & H3 & H4). unfold pred_inv, cursors_below. rewrite H1, H2, H3.
      repeat split; try assumption; try discriminate.
      apply (Hweak _ _ (N.le_refl _)). eapply Forall_impl; [|exact H4]. cbv beta. intros c Hc. lia.
Qed.

Definition alpha_bytes (P : trie) : Prop := Forall (fun c => c < 256) (alist (ct_alpha (t_table P))).


(* what assemble builds from certificate-checked content stores an alphabet of bytes *)
Theorem assemble_alpha_bytes : forall v L P K, wf_for v L P K -> alpha_bytes P.
Proof.
  intros v L P K [Hasm Hwf]. destruct (pd_lwf_inv L K Hwf) as (T & _ & _ & _ & _ & Halpha & _).
  unfold assemble in Hasm. apply bind_ok_inv in Hasm. destruct Hasm as ([tv asg] & Et & Hasm). cbv beta iota zeta in Hasm.
  destruct (negb (forallb (fun a => fst a <? lenN (lg_units L)) asg)); [discriminate|].
  apply bind_ok_inv in Hasm. destruct Hasm as (terms & Eterms & Hasm).
  apply bind_ok_inv in Hasm. destruct Hasm as (bc & Ebc & Hasm).
  injection Hasm as <-. unfold alpha_bytes. cbn [t_table ct_alpha]. rewrite alist_of_list, Halpha.
  unfold spec_alphabet. apply Forall_forall. intros x Hx. apply filter_In in Hx. destruct Hx as [Hx _].
  apply in_map_iff in Hx. destruct Hx as (k & <- & Hk). apply in_seq in Hk. lia.
Qed.

Section AccessPredictive.
Hypothesis bvget : BvGetRef.
Hypothesis bvrank : BvRankRef.
Hypothesis api8 : Bc8ApiRef.
Hypothesis api16 : Bc16ApiRef.
Hypothesis api7 : Bc7ApiRef.
Hypothesis api15 : Bc15ApiRef.
Hypothesis tdec : TailDecodeRef.
Hypothesis ctref : CtRef.

Lemma push_children_ref P base npos kpos : trie_shape P -> kpos + 1 < 2 ^ 64 ->
  forall alpha stack st', Forall (fun c => c < 256) alpha ->
  push_children P alpha base npos kpos stack = Ok st' ->
  foreach_res alpha (dfs_push P base npos kpos) stack = Ok st'.
Proof.
  intros (Hbc & Htb & Htl) Hk.
  induction alpha as [|c alpha IH]; intros stack st' Ha H; cbn [push_children foreach_res] in H |- *; [exact H|].
  apply bind_ok_inv in H. destruct H as (cd & Ecd & H). cbv zeta in H.
  apply bind_ok_inv in H. destruct H as (chk & Echk & H).
  inversion Ha as [|c' a' Hc Ha']; subst c' a'.
  unfold dfs_push at 1. rewrite (at_land255 c Hc).
  destruct (ctref (t_table P) c cd Htb) as [Rcode _]. rewrite (Rcode Hc Ecd). cbn [bind].
  destruct (bcg_ref api8 api16 api7 api15 (t_bc P) (N.lxor base cd) Hbc) as (_ & _ & Rcheck & _).
  rewrite (Rcheck _ Echk). cbn [bind]. rewrite (at_add64_small kpos 1) by exact Hk.
  apply IH; [exact Ha'|exact H].
Qed.

(* the search loop: the model spends one unit of fuel per popped cursor; loop_ctl one per continuation *)
Lemma pred_dfs_ref P key : trie_shape P -> alpha_bytes P ->
  forall f g stack dec id r, (f <= g)%nat -> Forall (fun c => c_kpos c + N.of_nat f < 2 ^ 63) stack ->
    pred_dfs f P (mkPred true key id dec stack false false) = Ok r ->
    bind (loop_ctl g (dfs_it P true key false false) (stack, dec, id)) (dfs_epi true key false) = Ok r.
Proof.
  intros Hs Halpha. pose proof Hs as (Hbc & Htb & Htl).
  induction f as [|f IH]; intros g stack dec id r Hfg Hst H; destruct stack as [|cur stack];
    cbn [pred_dfs d_stack d_key d_id d_dec] in H; rewrite loop_ctl_unfold; cbn [dfs_it]; unfold dfs_body.
  - cbn [negb bind dfs_epi]. exact H.
  - discriminate H.
  - cbn [negb bind dfs_epi]. exact H.
  - destruct cur as [label kpos npos]. cbn [c_label c_kpos c_npos] in H. cbn [negb hd tl c_label c_kpos c_npos].
    rewrite set_label_eq in H.
    set (dec1 := if 0 <? kpos then removelast (key_resize dec kpos) ++ [label] else dec) in *.
    inversion Hst as [|c0 s0 Hk Hst']; subst c0 s0. cbn [c_kpos] in Hk.
    apply bind_ok_inv in H. destruct H as (lf & Elf & H).
    destruct (bcg_ref api8 api16 api7 api15 (t_bc P) npos Hbc) as (Rleaf & Rbase & _ & Rlink).
    rewrite (Rleaf _ Elf). cbn [bind].
    destruct lf.
    + apply bind_ok_inv in H. destruct H as (idv & Eid & H).
      apply bind_ok_inv in H. destruct H as (tpos & Etpos & H).
      apply bind_ok_inv in H. destruct H as (suf & Esuf & H).
      unfold trg_npos_to_id. unfold npos_to_id in Eid. rewrite (bvrank _ _ _ Eid). cbn [bind].
      rewrite (Rlink _ Etpos). cbn [bind]. rewrite (tdec _ _ _ Htl Esuf). cbn [bind dfs_epi]. exact H.
    + apply bind_ok_inv in H. destruct H as (base & Ebase & H).
      apply bind_ok_inv in H. destruct H as (stack' & Epush & H).
      apply bind_ok_inv in H. destruct H as (tm & Etm & H).
      rewrite (Rbase _ Ebase). cbn [bind].
      assert (Hk1 : kpos + 1 < 2 ^ 64) by lia.
      assert (Hrev : Forall (fun c => c < 256) (rev (alist (ct_alpha (t_table P))))).
      { apply Forall_forall. intros x Hx. apply in_rev in Hx. unfold alpha_bytes in Halpha.
        rewrite Forall_forall in Halpha. apply Halpha. exact Hx. }
      rewrite (push_children_ref P base npos kpos Hs Hk1 _ _ _ Hrev Epush). cbn [bind].
      rewrite (bvget _ _ _ Etm). cbn [bind].
      destruct tm.
      * apply bind_ok_inv in H. destruct H as (idv & Eid & H).
        unfold trg_npos_to_id. unfold npos_to_id in Eid. rewrite (bvrank _ _ _ Eid). cbn [bind dfs_epi]. exact H.
      * cbn [bind]. destruct g as [|g']; [lia|].
        apply IH; [lia| |exact H].
        apply (push_children_kpos P (fun k => k + N.of_nat f < 2 ^ 63) base npos kpos) in Epush; [exact Epush|lia|].
        eapply Forall_impl; [|exact Hst']. cbv beta. intros c Hc. lia.
Qed.

(* the is_beg phase followed by the search *)
Lemma pred_descend_ref P key id dec0 : trie_shape P -> alpha_bytes P -> alen (tv_chars (t_tail P)) < 2 ^ 62 ->
  bytes_ok key = true -> lenN key < 2 ^ 62 -> bc_num_units (t_bc P) < 2 ^ 62 ->
  forall rest pre npos dec g it1 ob r, key = pre ++ rest -> (length rest <= g)%nat ->
    lenN dec + lenN rest < 2 ^ 63 ->
    pred_descend P (mkPred true key id dec0 [] true false) rest (lenN pre) npos dec = Ok (it1, ob) ->
    match ob with Some b => Ok (it1, b) | None => pred_dfs (S (N.to_nat (t_num_units P))) P it1 end = Ok r ->
    bind (loop_ctl g (pd_it P true key [] false) (false, rev dec, id, npos, lenN pre)) (pd_epi P true key [] false) = Ok r.
Proof.
  intros Hs Halpha Htl62 Hby Hq Hu. pose proof Hs as (Hbc & Htb & Htl).
  assert (Hq64 : lenN key < 2 ^ 64) by lia.
  induction rest as [|b rest IH]; intros pre npos dec g it1 ob r Eq Hg Hlen H H2;
    cbn [pred_descend d_key d_id] in H; rewrite loop_ctl_unfold; cbn [pd_it]; unfold pd_body.
  - assert (Ek : lenN pre <? lenN key = false) by (apply N.ltb_ge; rewrite Eq, app_nil_r; lia).
    rewrite Ek. cbn [bind pd_epi]. injection H as E1 E2. subst it1 ob. cbv beta iota in H2.
    rewrite start_cursor. unfold dfs_run. unfold t_num_units in H2.
    apply (pred_dfs_ref P key Hs Halpha _ _ _ _ _ _ (le_n _)); [|exact H2].
    constructor; [|constructor]. cbn [c_kpos].
    assert (lenN pre = lenN key) by (rewrite Eq, app_nil_r; reflexivity). lia.
  - assert (Hlenq : lenN key = lenN pre + lenN rest + 1).
    { rewrite Eq, at_lenN_app, pp_lenN_cons. lia. }
    assert (Ek : lenN pre <? lenN key = true) by (apply N.ltb_lt; lia).
    rewrite Ek.
    apply bind_ok_inv in H. destruct H as (lf & Elf & H).
    destruct (bcg_ref api8 api16 api7 api15 (t_bc P) npos Hbc) as (Rleaf & Rbase & _ & Rlink).
    rewrite (Rleaf _ Elf). cbn [bind].
    destruct lf.
    + apply bind_ok_inv in H. destruct H as (tpos & Etpos & H).
      rewrite (Rlink _ Etpos). cbn [bind].
      destruct (tpos =? 0).
      * injection H as E1 E2. subst it1 ob. cbn [bind pd_epi]. exact H2.
      * apply bind_ok_inv in H. destruct H as (suf & Esuf & H). cbv zeta in H.
        rewrite (tdec _ _ _ Htl Esuf). cbn [bind].
        rewrite (at_suffix P key pre (b :: rest) Eq Hq64).
        assert (Hsuf : lenN suf <= alen (tv_chars (t_tail P))) by (apply (t_decode_len _ _ _ Esuf)).
        assert (Hrl : lenN (rev dec) = lenN dec) by (unfold lenN; rewrite rev_length; reflexivity).
        rewrite pp_compare by lia.
        destruct (prefixb (b :: rest) suf); cbn [negb].
        -- apply bind_ok_inv in H. destruct H as (idv & Eid & H). injection H as E1 E2. subst it1 ob.
           unfold trg_npos_to_id. unfold npos_to_id in Eid. rewrite (bvrank _ _ _ Eid). cbn [bind pd_epi]. exact H2.
        -- injection H as E1 E2. subst it1 ob. cbn [bind pd_epi]. exact H2.
    + apply bind_ok_inv in H. destruct H as ([cpos ok] & Ech & H). cbv beta iota in H.
      unfold child in Ech.
      apply bind_ok_inv in Ech. destruct Ech as (base & Ebase & Ech).
      apply bind_ok_inv in Ech. destruct Ech as (cd & Ecd & Ech). cbv zeta in Ech.
      apply bind_ok_inv in Ech. destruct Ech as (chk & Echk & Ech).
      injection Ech as Ecpos Eok. subst cpos.
      assert (Hb : b < 256).
      { apply (at_bytes_in key); [exact Hby|]. rewrite Eq. apply in_or_app. right. left. reflexivity. }
      rewrite (Rbase _ Ebase). cbn [bind].
      assert (Ekg : kget key (lenN pre) = Ok b) by (rewrite Eq; apply at_kget_mid).
      rewrite Ekg. cbn [bind]. rewrite (at_land255 b Hb).
      destruct (ctref (t_table P) b cd Htb) as [Rcode _]. rewrite (Rcode Hb Ecd). cbn [bind].
      destruct (bcg_ref api8 api16 api7 api15 (t_bc P) (N.lxor base cd) Hbc) as (_ & _ & Rcheck' & _).
      rewrite (Rcheck' _ Echk). cbn [bind]. rewrite Eok.
      destruct ok; cbn [negb] in H |- *.
      * cbn [bind]. destruct g as [|g']; [cbn [length] in Hg; lia|].
        rewrite at_add64_small by lia.
        replace (lenN pre + 1) with (lenN (pre ++ [b])) in H |- * by (rewrite at_lenN_app; reflexivity).
        change (rev dec ++ [b]) with (rev (b :: dec)).
        apply (IH (pre ++ [b]) (N.lxor base cd) (b :: dec) g' it1 ob r).
        -- rewrite <- app_assoc. exact Eq.
        -- cbn [length] in Hg. lia.
        -- rewrite pp_lenN_cons in *. lia.
        -- exact H.
        -- exact H2.
      * injection H as E1 E2. subst it1 ob. cbn [bind pd_epi]. exact H2.
Qed.

(* one advance; the decoded buffer's length matters only while the iterator is fresh (is_beg) *)
Theorem pred_next_ref_alpha_gen : forall P it r, trie_shape P -> alpha_bytes P -> alen (tv_chars (t_tail P)) < 2^62 ->
  bytes_ok (d_key it) = true -> lenN (d_key it) < 2^62 -> (d_beg it = true -> lenN (d_dec it) < 2^62) ->
  bc_num_units (t_bc P) < 2^62 ->
  d_obj it = true -> (d_beg it = true -> d_stack it = []) -> cursors_below (2^62) it ->
  next_predictive P it = Ok r -> trg_next_predictive P it = Ok r.
Proof.
  intros P it r Hs Halpha Htl62 Hby Hq Hd Hu Ho Hst Hcb H.
  rewrite trg_next_predictive_eq. unfold next_predictive in H.
  destruct it as [obj key id dec stack beg e]. unfold cursors_below in Hcb.
  cbn [d_obj d_key d_id d_dec d_stack d_beg d_end] in *. subst obj. cbn [negb] in H.
  destruct e; [exact H|].
  destruct beg.
  - rewrite (Hst eq_refl) in *. specialize (Hd eq_refl).
    apply bind_ok_inv in H. destruct H as ([it1 ob] & Ed & H). cbv beta iota in H.
    change 0 with (lenN (@nil N)) in Ed at 1.
    change (0, 0) with (lenN (@nil N), 0).
    rewrite <- (rev_involutive dec) at 1.
    apply (pred_descend_ref P key id dec Hs Halpha Htl62 Hby Hq Hu key [] 0 (rev dec) _ it1 ob r);
      [reflexivity|lia| |exact Ed|exact H].
    unfold lenN in *. rewrite rev_length. lia.
  - cbn [bind] in H. unfold dfs_run. unfold t_num_units in H.
    apply (pred_dfs_ref P key Hs Halpha _ _ _ _ _ _ (le_n _)); [|exact H].
    eapply Forall_impl; [|exact Hcb]. cbv beta. intros c Hc. lia.
Qed.

(* PredNextRefNaive with the one extra premise it needs: the stored alphabet consists of bytes *)
Definition PredNextRefAlpha : Prop := forall P it r, trie_shape P -> alpha_bytes P -> alen (tv_chars (t_tail P)) < 2^62 ->
  bytes_ok (d_key it) = true -> lenN (d_key it) < 2^62 -> lenN (d_dec it) < 2^62 -> bc_num_units (t_bc P) < 2^62 ->
  d_obj it = true -> (d_beg it = true -> d_stack it = []) -> cursors_below (2^62) it ->
  next_predictive P it = Ok r -> trg_next_predictive P it = Ok r.

Theorem pred_next_ref_alpha : PredNextRefAlpha.
Proof.
  intros P it r Hs Halpha Htl62 Hby Hq Hd. apply pred_next_ref_alpha_gen; try assumption. intros _. exact Hd.
Qed.


(* ------------------------------------------------------------------ n successive advances *)
Lemma pred_calls_ref_gen P q : trie_shape P -> alpha_bytes P -> alen (tv_chars (t_tail P)) < 2^62 ->
  bytes_ok q = true -> lenN q < 2^62 -> bc_num_units (t_bc P) < 2^62 ->
  forall n it B r, pred_inv q B it -> lenN q < B -> B + N.of_nat n * (bc_num_units (t_bc P) + 2) <= 2^62 ->
    pred_calls P it n = Ok r -> pred_calls_g P it n = Ok r.
Proof.
  intros Hs Halpha Htl Hby Hq Hu.
  induction n as [|n IH]; intros it B r Hinv HB Hbound H; cbn [pred_calls pred_calls_g] in H |- *; [exact H|].
  apply bind_ok_inv in H. destruct H as ([it' b] & Enp & H). cbv beta iota in H.
  apply bind_ok_inv in H. destruct H as (rr & Err & H).
  pose proof (next_predictive_inv P q B it it' b HB Hinv Enp) as Hinv'.
  destruct Hinv as (Ho & Hkey & Hbeg & Hcb).
  assert (Hmul : N.of_nat (S n) * (bc_num_units (t_bc P) + 2) =
                 N.of_nat n * (bc_num_units (t_bc P) + 2) + (bc_num_units (t_bc P) + 2)).
  { rewrite Nat2N.inj_succ, N.mul_succ_l. reflexivity. }
  assert (Hnext : trg_next_predictive P it = Ok (it', b)).
  { apply pred_next_ref_alpha_gen; try assumption.
    - rewrite Hkey. exact Hby.
    - rewrite Hkey. exact Hq.
    - intros Eb. destruct (Hbeg Eb) as [_ ->]. reflexivity.
    - intros Eb. destruct (Hbeg Eb) as [-> _]. reflexivity.
    - unfold cursors_below in *. eapply Forall_impl; [|exact Hcb]. cbv beta. intros c Hc. lia. }
  rewrite Hnext. cbn [bind].
  rewrite (IH it' (B + t_num_units P + 2) rr Hinv'); [cbn [bind]; exact H| |unfold t_num_units|exact Err]; lia.
Qed.

Theorem pred_calls_ref_bounded : forall P q n r, trie_shape P -> alpha_bytes P -> alen (tv_chars (t_tail P)) < 2^62 ->
  bytes_ok q = true -> lenN q < 2^61 -> bc_num_units (t_bc P) < 2^61 ->
  N.of_nat n * (bc_num_units (t_bc P) + 2) < 2^61 ->
  pred_calls P (mk_predictive q) n = Ok r -> pred_calls_g P (mk_predictive q) n = Ok r.
Proof.
  intros P q n r Hs Halpha Htl Hby Hq Hu Hn H.
  apply (pred_calls_ref_gen P q Hs Halpha Htl Hby) with (B := lenN q + 1); try lia; [|exact H].
  unfold pred_inv, mk_predictive, cursors_below. cbn [d_obj d_key d_beg d_stack d_dec].
  repeat split. constructor.
Qed.

End AccessPredictive.

Print Assumptions pred_next_ref_alpha_gen.
Print Assumptions pred_next_ref_alpha.
Print Assumptions pred_calls_ref_bounded.
Print Assumptions assemble_alpha_bytes.

(* ------------------------------------------------------------------ PredNextRefNaive as stated is false *)
Definition cx_units : list unit := [(0, 0)].
Definition cx_leaves : list bool := [false].
Definition cx_bc : bcvec :=
  ltac:(let r := eval vm_compute in (bc_build V8 cx_units cx_leaves) in match r with Ok ?d => exact d end).
Definition cx_terms : bitvec :=
  ltac:(let r := eval vm_compute in (bv_of_bits [true] true true) in match r with Ok ?d => exact d end).
Definition cx_P : trie :=
  mkTrie 1 (mkCt 1 (of_list (repeat 0 512%nat)) (of_list [256])) cx_terms cx_bc (mkTail (of_list [0]) bv_empty).

Definition differs (r1 r2 : res (pred_it * bool)) : bool :=
  match r1, r2 with
  | Ok (a, _), Ok (b, _) =>
    match d_stack a, d_stack b with c1 :: _, c2 :: _ => negb (c_label c1 =? c_label c2) | _, _ => false end
  | _, _ => false
  end.

Lemma differs_spec r1 r2 : differs r1 r2 = true -> exists r, r1 = Ok r /\ r2 <> Ok r.
Proof.
  destruct r1 as [[a ba]| |]; cbn [differs]; try discriminate.
  intros H. exists (a, ba). split; [reflexivity|]. intros ->.
  destruct (d_stack a); [discriminate|]. rewrite N.eqb_refl in H. discriminate.
Qed.

Lemma cx_bc_eq : bc_build V8 cx_units cx_leaves = Ok cx_bc.
Proof. vm_compute. reflexivity. Qed.

Lemma cx_differs : differs (next_predictive cx_P (mk_predictive [])) (trg_next_predictive cx_P (mk_predictive [])) = true.
Proof. vm_compute. reflexivity. Qed.

Lemma cx_shape : trie_shape cx_P.
Proof.
  unfold trie_shape, cx_P. cbn [t_bc t_table t_tail tv_chars]. split; [|split].
  - assert (Hu : units_ok cx_units).
    { unfold units_ok, cx_units. constructor; [|constructor]. cbn [fst snd]. split; reflexivity. }
    pose proof (bc_shape V8 cx_units cx_leaves cx_bc Hu cx_bc_eq) as Hs.
    unfold cx_bc in *. cbv beta iota in Hs. left. exact Hs.
  - unfold table_bytes. cbn [ct_table]. intros i x Hx. rewrite aget_of_list in Hx.
    destruct (nth_error (repeat 0 512%nat) (N.to_nat i)) as [y|] eqn:E; [|discriminate].
    injection Hx as <-. apply nth_error_In in E. apply repeat_spec in E. subst y. reflexivity.
  - rewrite alen_of_list. reflexivity.
Qed.

Theorem pred_next_ref_naive_refuted : ~ PredNextRefNaive.
Proof.
  intros H. destruct (differs_spec _ _ cx_differs) as (r & E1 & E2). apply E2.
  apply H; [exact cx_shape| | | | | | | | |exact E1]; unfold mk_predictive, cursors_below;
    cbn [d_obj d_key d_dec d_stack d_beg cx_P t_bc t_tail tv_chars].
  - rewrite alen_of_list. reflexivity.
  - reflexivity.
  - reflexivity.
  - reflexivity.
  - vm_compute. reflexivity.
  - reflexivity.
  - reflexivity.
  - constructor.
Qed.
Print Assumptions pred_next_ref_naive_refuted.
