(* AccessPrefixFacts.v: trie::next_prefix regenerated from trie.hpp (AccessTrieGen.trg_next_prefix) against the
   hand-written model (Trie.next_prefix / pfx_loop / pfx_fail / child).
   Results (Section AccessPrefix; the hypotheses are interface statements of IfaceAccess.v / IfaceAccessTrie.v):
     t_prefix_match_le   a successful prefix match never reports more bytes than the probe has
     pfx_loop_inv / next_prefix_inv   the model's advance keeps the iterator bound to its key with the cursor inside it
     pfx_next_ref  : PfxNextRef    one advance: trg_next_prefix returns what the model's next_prefix returns
     pfx_calls_ref : PfxCallsRef   n successive advances from a fresh iterator *)
From Coq Require Import Lia ZifyN ZifyBool ZifyNat.
From X Require Import Base Arr ArrFacts Consts BitToolsSpec BitToolsGen BitVector CompactVector Dac Tail Trie Spec Wf AccessLib AccessGen AccessDispatch AccessTrieGen Iface IfaceDac IfaceQuery IfaceAccess IfaceAccessTrie AccessTrieFacts.
Local Open Scope N_scope.

Arguments N.mul : simpl never.
Arguments N.add : simpl never.
Arguments N.sub : simpl never.
Arguments N.shiftl : simpl never.
Arguments N.shiftr : simpl never.
Arguments N.pow : simpl never.
Arguments N.div : simpl never.
Arguments N.modulo : simpl never.
Arguments N.land : simpl never.
Arguments N.lor : simpl never.
Arguments N.lxor : simpl never.
Arguments N.ones : simpl never.

(* ------------------------------------------------------------------ small facts *)
Lemma pf_lenN_skipn (key : list N) kpos : lenN (skipn (N.to_nat kpos) key) = lenN key - kpos.
Proof. unfold lenN. rewrite skipn_length. lia. Qed.

Lemma pf_suffix P key kpos : kpos <= lenN key -> lenN key < 2 ^ 64 ->
  trg_get_suffix P key kpos = skipn (N.to_nat kpos) key.
Proof.
  intros Hk Hq. unfold trg_get_suffix, key_substr. rewrite at_sub64_small by assumption.
  apply firstn_all2. rewrite skipn_length. unfold lenN in *. lia.
Qed.

Lemma pf_kget_facts key kpos b : bytes_ok key = true -> kget key kpos = Ok b -> kpos < lenN key /\ b < 256.
Proof.
  intros Hby H. unfold kget, nthN in H.
  destruct (nth_error key (N.to_nat kpos)) as [x|] eqn:E; [|discriminate]. injection H as ->.
  split.
  - assert (Hl : (N.to_nat kpos < length key)%nat) by (apply nth_error_Some; rewrite E; discriminate).
    unfold lenN. lia.
  - apply (at_bytes_in key); [exact Hby|]. apply nth_error_In in E. exact E.
Qed.

(* ------------------------------------------------------------------ prefix_match never overruns the probe *)
Lemma pmatch_bin_le t q : forall f kpos tpos n, kpos < lenN q ->
  pmatch_bin f t q kpos tpos = Ok (Some n) -> n <= lenN q.
Proof.
  induction f as [|f IH]; intros kpos tpos n Hk H; cbn [pmatch_bin] in H; [discriminate|].
  apply bind_ok_inv in H. destruct H as (k & Ek & H).
  apply bind_ok_inv in H. destruct H as (c & Ec & H).
  destruct (negb (k =? c)); [discriminate|].
  apply bind_ok_inv in H. destruct H as (tm & Etm & H).
  destruct tm.
  - injection H as <-. lia.
  - destruct (kpos + 1 <? lenN q) eqn:E; [|discriminate].
    apply N.ltb_lt in E. exact (IH _ _ _ E H).
Qed.

Lemma pmatch_nul_le t q : forall f kpos tpos n, kpos < lenN q ->
  pmatch_nul f t q kpos tpos = Ok (Some n) -> n <= lenN q.
Proof.
  induction f as [|f IH]; intros kpos tpos n Hk H; cbn [pmatch_nul] in H; [discriminate|].
  apply bind_ok_inv in H. destruct H as (c & Ec & H).
  destruct (c =? 0).
  - injection H as <-. lia.
  - apply bind_ok_inv in H. destruct H as (k & Ek & H).
    destruct (negb (k =? c)); [discriminate|].
    destruct (kpos + 1 <? lenN q) eqn:E.
    + apply N.ltb_lt in E. exact (IH _ _ _ E H).
    + apply bind_ok_inv in H. destruct H as (c' & Ec' & H).
      destruct (c' =? 0); [|discriminate]. injection H as <-. lia.
Qed.

Lemma t_prefix_match_le t q tpos n : t_prefix_match t q tpos = Ok (Some n) -> n <= lenN q.
Proof.
  unfold t_prefix_match. destruct (tpos =? 0).
  - intros H. injection H as <-. lia.
  - destruct q as [|b q']; [discriminate|].
    assert (H0 : 0 < lenN (b :: q')) by (unfold lenN; cbn [length]; lia).
    destruct (tv_bin_mode t); intros H; [eapply pmatch_bin_le|eapply pmatch_nul_le]; eassumption.
Qed.

(* ------------------------------------------------------------------ the model's loop, one unfolding *)
Lemma pfx_loop_unfold fuel P it : pfx_loop fuel P it =
  bind (bc_is_leaf (t_bc P) (p_npos it)) (fun lf =>
  if lf then
    bind (bc_link (t_bc P) (p_npos it)) (fun tpos =>
    bind (t_prefix_match (t_tail P) (skipn (N.to_nat (p_kpos it)) (p_key it)) tpos) (fun m =>
    match m with
    | None => Ok (mkPfx (p_obj it) (p_key it) (t_nkeys P) (p_kpos it) (p_npos it) false true, false)
    | Some n => bind (npos_to_id P (p_npos it)) (fun id =>
                  Ok (mkPfx (p_obj it) (p_key it) id (p_kpos it + n) (p_npos it) false true, true))
    end))
  else if p_kpos it =? lenN (p_key it) then pfx_fail P it
  else match fuel with
       | O => Fault OutOfFuel
       | S f =>
         bind (kget (p_key it) (p_kpos it)) (fun b =>
         bind (child P (p_npos it) b) (fun '(cpos, ok) =>
           if negb ok then pfx_fail P (mkPfx (p_obj it) (p_key it) (p_id it) (p_kpos it + 1) (p_npos it) false false)
           else
           bind (bc_is_leaf (t_bc P) cpos) (fun lf2 =>
           bind (bv_get (t_terms P) cpos) (fun tm =>
           if negb lf2 && tm then
             bind (npos_to_id P cpos) (fun id =>
               Ok (mkPfx (p_obj it) (p_key it) id (p_kpos it + 1) cpos false false, true))
           else pfx_loop f P (mkPfx (p_obj it) (p_key it) (p_id it) (p_kpos it + 1) cpos false false)))))
       end).
Proof. destruct fuel; reflexivity. Qed.

(* the model's advance keeps object, key, and a cursor inside the key *)
Lemma pfx_loop_inv_step P f :
  (forall f', f = S f' -> forall it it' b, p_kpos it <= lenN (p_key it) -> pfx_loop f' P it = Ok (it', b) ->
     p_obj it' = p_obj it /\ p_key it' = p_key it /\ p_kpos it' <= lenN (p_key it)) ->
  forall it it' b, p_kpos it <= lenN (p_key it) -> pfx_loop f P it = Ok (it', b) ->
     p_obj it' = p_obj it /\ p_key it' = p_key it /\ p_kpos it' <= lenN (p_key it).
Proof.
  intros Hrec it it' b Hk H. rewrite pfx_loop_unfold in H.
  apply bind_ok_inv in H. destruct H as (lf & Elf & H).
  destruct lf.
  - apply bind_ok_inv in H. destruct H as (tpos & Etpos & H).
    apply bind_ok_inv in H. destruct H as (m & Em & H).
    destruct m as [n|].
    + apply bind_ok_inv in H. destruct H as (idv & Eid & H).
      injection H as E1 E2. subst it' b. cbn [p_obj p_key p_kpos].
      apply t_prefix_match_le in Em. rewrite pf_lenN_skipn in Em.
      repeat split. lia.
    + injection H as E1 E2. subst it' b. cbn [p_obj p_key p_kpos]. repeat split. exact Hk.
  - destruct (p_kpos it =? lenN (p_key it)).
    + unfold pfx_fail in H. injection H as E1 E2. subst it' b. cbn [p_obj p_key p_kpos]. repeat split. exact Hk.
    + destruct f as [|f']; [discriminate H|].
      apply bind_ok_inv in H. destruct H as (c & Ec & H).
      assert (Hlt : p_kpos it < lenN (p_key it)).
      { unfold kget, nthN in Ec. destruct (nth_error (p_key it) (N.to_nat (p_kpos it))) as [x|] eqn:E; [|discriminate].
        assert (Hl : (N.to_nat (p_kpos it) < length (p_key it))%nat) by (apply nth_error_Some; rewrite E; discriminate).
        unfold lenN. lia. }
      apply bind_ok_inv in H. destruct H as ([cpos ok] & Ech & H). cbv beta iota in H.
      destruct ok; cbn [negb] in H.
      * apply bind_ok_inv in H. destruct H as (lf2 & Elf2 & H).
        apply bind_ok_inv in H. destruct H as (tm & Etm & H).
        destruct (negb lf2 && tm)%bool.
        -- apply bind_ok_inv in H. destruct H as (idv & Eid & H).
           injection H as E1 E2. subst it' b. cbn [p_obj p_key p_kpos]. repeat split. lia.
        -- apply (Hrec f' eq_refl) in H; cbn [p_obj p_key p_kpos] in H |- *; [exact H|lia].
      * unfold pfx_fail in H. cbn [p_obj p_key p_kpos p_npos] in H.
        injection H as E1 E2. subst it' b. cbn [p_obj p_key p_kpos]. repeat split. lia.
Qed.

Lemma pfx_loop_inv P : forall f it it' b, p_kpos it <= lenN (p_key it) -> pfx_loop f P it = Ok (it', b) ->
  p_obj it' = p_obj it /\ p_key it' = p_key it /\ p_kpos it' <= lenN (p_key it).
Proof.
  induction f as [|f IH]; apply pfx_loop_inv_step; intros f' E; [discriminate E|].
  injection E as <-. exact IH.
Qed.

Definition pfx_inv (q : key) (it : pfx_it) : Prop := p_obj it = true /\ p_key it = q /\ p_kpos it <= lenN q.

Lemma mk_prefix_inv q : pfx_inv q (mk_prefix q).
Proof. unfold pfx_inv, mk_prefix. cbn [p_obj p_key p_kpos]. repeat split. lia. Qed.

Lemma next_prefix_inv P q it it' b : pfx_inv q it -> next_prefix P it = Ok (it', b) -> pfx_inv q it'.
Proof.
  intros (Ho & Hkey & Hk) H. unfold next_prefix in H. rewrite Ho in H. cbn [negb] in H.
  revert H. destruct (p_end it) eqn:Ee; intros H.
  - injection H as E1 E2. subst it' b. repeat split; assumption.
  - apply bind_ok_inv in H. destruct H as (first & Ef & H).
    destruct first as [idv|].
    + injection H as E1 E2. subst it' b. unfold pfx_inv. cbn [p_obj p_key p_kpos]. repeat split; assumption.
    + apply pfx_loop_inv in H; cbn [p_obj p_key p_kpos] in H |- *.
      * destruct H as (H1 & H2 & H3). unfold pfx_inv. rewrite H1, H2. rewrite Hkey in H3. repeat split; assumption.
      * rewrite Hkey. exact Hk.
Qed.

(* ------------------------------------------------------------------ the generated next_prefix, named pieces *)
Definition pf_state := (bool * N * N * N)%type.

Definition pf_body (s : trie) (obj : bool) (key : list N) (beg : bool) (e : bool) (id kpos npos : N)
  : res (ctl pf_state (pfx_it * bool)) :=
  bind (bind (bcg_is_leaf (t_bc s) npos) (fun t3 => Ok (negb t3))) (fun t13 =>
  if t13 then
    if N.eqb kpos (lenN key) then Ok (Ret (mkPfx obj key (trg_num_keys s) kpos npos beg true, false))
    else
      bind (bind (bcg_base (t_bc s) npos) (fun t6 =>
            bind (bind (bind (kget key kpos) (fun t4 => Ok (N.land t4 255))) (fun t5 => ctg_get_code (t_table s) t5))
                 (fun t7 => Ok (N.lxor t6 t7)))) (fun cpos =>
      bind (bind (bcg_check (t_bc s) cpos) (fun t8 => Ok (negb (N.eqb t8 npos)))) (fun t12 =>
      if t12 then Ok (Ret (mkPfx obj key (trg_num_keys s) (add64 kpos 1) npos beg true, false))
      else
        bind (bind (bind (bcg_is_leaf (t_bc s) cpos) (fun t9 => Ok (negb t9)))
                   (fun t10 => if t10 then bvg_get (t_terms s) cpos else Ok false)) (fun t11 =>
        if t11 then bind (trg_npos_to_id s cpos) (fun id' => Ok (Ret (mkPfx obj key id' (add64 kpos 1) cpos beg e, true)))
        else Ok (Next (e, id, add64 kpos 1, cpos)))))
  else Ok (Done (e, id, kpos, npos))).

Definition pf_it (s : trie) (obj : bool) (key : list N) (beg : bool) : pf_state -> res (ctl pf_state (pfx_it * bool)) :=
  fun '(e, id, kpos, npos) => pf_body s obj key beg e id kpos npos.

Definition pf_epi (s : trie) (obj : bool) (key : list N) (beg : bool) (o_ : pf_state + (pfx_it * bool))
  : res (pfx_it * bool) :=
  match o_ with
  | inr r_ => Ok r_
  | inl (e, id, kpos, npos) =>
    bind (bcg_link (t_bc s) npos) (fun tpos =>
    bind (tvg_prefix_match (t_tail s) (trg_get_suffix s key kpos) tpos) (fun m =>
    if negb (match m with Some _ => true | None => false end)
    then Ok (mkPfx obj key (trg_num_keys s) kpos npos beg true, false)
    else bind (trg_npos_to_id s npos) (fun id' =>
           Ok (mkPfx obj key id' (add64 kpos (match m with Some y => y | None => 0 end)) npos beg true, true))))
  end.

Definition pf_first (s : trie) (npos : N) : res bool :=
  bind (bind (bcg_is_leaf (t_bc s) npos) (fun t1 => Ok (negb t1)))
       (fun t2 => if t2 then bvg_get (t_terms s) npos else Ok false).

Lemma trg_next_prefix_eq s it : trg_next_prefix s it =
  if p_end it then Ok (mkPfx (p_obj it) (p_key it) (p_id it) (p_kpos it) (p_npos it) (p_beg it) (p_end it), false)
  else if p_beg it then
    bind (pf_first s (p_npos it)) (fun t14 =>
      if t14 then bind (trg_npos_to_id s (p_npos it)) (fun id =>
                    Ok (mkPfx (p_obj it) (p_key it) id (p_kpos it) (p_npos it) false (p_end it), true))
      else bind (loop_ctl (S (length (p_key it))) (pf_it s (p_obj it) (p_key it) false)
                          (p_end it, p_id it, p_kpos it, p_npos it))
                (pf_epi s (p_obj it) (p_key it) false))
  else bind (loop_ctl (S (length (p_key it))) (pf_it s (p_obj it) (p_key it) (p_beg it))
                      (p_end it, p_id it, p_kpos it, p_npos it))
            (pf_epi s (p_obj it) (p_key it) (p_beg it)).
Proof. reflexivity. Qed.

Section AccessPrefix.
Hypothesis bvget : BvGetRef.
Hypothesis bvrank : BvRankRef.
Hypothesis api8 : Bc8ApiRef.
Hypothesis api16 : Bc16ApiRef.
Hypothesis api7 : Bc7ApiRef.
Hypothesis api15 : Bc15ApiRef.
Hypothesis tpm : TailPrefixRef.
Hypothesis ctref : CtRef.

(* one unfolding of the model's loop against one iteration of the generated loop (plus the epilogue) *)
Lemma pfx_loop_ref_step P key : trie_shape P -> bytes_ok key = true -> lenN key < 2 ^ 64 -> forall f,
  (forall f', f = S f' -> forall g id kpos npos r, kpos <= lenN key -> (N.to_nat (lenN key - kpos) <= g)%nat ->
     pfx_loop f' P (mkPfx true key id kpos npos false false) = Ok r ->
     bind (loop_ctl g (pf_it P true key false) (false, id, kpos, npos)) (pf_epi P true key false) = Ok r) ->
  forall g id kpos npos r, kpos <= lenN key -> (N.to_nat (lenN key - kpos) <= g)%nat ->
     pfx_loop f P (mkPfx true key id kpos npos false false) = Ok r ->
     bind (loop_ctl g (pf_it P true key false) (false, id, kpos, npos)) (pf_epi P true key false) = Ok r.
Proof.
  intros (Hbc & Htb & Htl) Hby Hq f Hrec g id kpos npos r Hk Hg H.
  rewrite pfx_loop_unfold in H. cbn [p_obj p_key p_id p_kpos p_npos p_beg p_end] in H.
  apply bind_ok_inv in H. destruct H as (lf & Elf & H).
  destruct (bcg_ref api8 api16 api7 api15 (t_bc P) npos Hbc) as (Rleaf & Rbase & _ & Rlink).
  rewrite loop_ctl_unfold. cbn [pf_it]. unfold pf_body. rewrite (Rleaf _ Elf). cbn [bind].
  destruct lf; cbn [negb].
  - (* a leaf: the loop exits normally, the epilogue matches the tail *)
    cbn [bind pf_epi].
    apply bind_ok_inv in H. destruct H as (tpos & Etpos & H).
    apply bind_ok_inv in H. destruct H as (m & Em & H).
    rewrite (Rlink _ Etpos). cbn [bind].
    rewrite (pf_suffix P key kpos Hk Hq).
    assert (Hsm : tail_small (t_tail P) (skipn (N.to_nat kpos) key)).
    { split; [exact Htl|]. rewrite pf_lenN_skipn. lia. }
    rewrite (tpm _ _ _ _ Hsm Em). cbn [bind].
    destruct m as [n|]; cbn [negb].
    + apply bind_ok_inv in H. destruct H as (idv & Eid & H). unfold trg_npos_to_id.
      unfold npos_to_id in Eid. rewrite (bvrank _ _ _ Eid). cbn [bind].
      apply t_prefix_match_le in Em. rewrite pf_lenN_skipn in Em.
      rewrite at_add64_small by lia. exact H.
    + exact H.
  - revert H. destruct (kpos =? lenN key) eqn:Ek; intros H.
    + unfold pfx_fail in H. cbn [p_obj p_key p_id p_kpos p_npos p_beg p_end] in H. cbn [bind pf_epi]. exact H.
    + destruct f as [|f']; [discriminate H|].
      apply bind_ok_inv in H. destruct H as (b & Eb & H).
      apply bind_ok_inv in H. destruct H as ([cpos ok] & Ech & H). cbv beta iota in H.
      destruct (pf_kget_facts key kpos b Hby Eb) as [Hlt Hb].
      unfold child in Ech.
      apply bind_ok_inv in Ech. destruct Ech as (base & Ebase & Ech).
      apply bind_ok_inv in Ech. destruct Ech as (cd & Ecd & Ech). cbv zeta in Ech.
      apply bind_ok_inv in Ech. destruct Ech as (chk & Echk & Ech).
      injection Ech as Ecpos Eok. subst cpos.
      rewrite (Rbase _ Ebase). cbn [bind]. rewrite Eb. cbn [bind]. rewrite (at_land255 b Hb).
      destruct (ctref (t_table P) b cd Htb) as [Rcode _]. rewrite (Rcode Hb Ecd). cbn [bind].
      destruct (bcg_ref api8 api16 api7 api15 (t_bc P) (N.lxor base cd) Hbc) as (Rleaf' & _ & Rcheck' & _).
      rewrite (Rcheck' _ Echk). cbn [bind]. rewrite Eok.
      rewrite (at_add64_small kpos 1) by lia.
      unfold pfx_fail in H. cbn [p_obj p_key p_id p_kpos p_npos p_beg p_end] in H.
      destruct ok; cbn [negb] in H |- *.
      * apply bind_ok_inv in H. destruct H as (lf2 & Elf2 & H).
        apply bind_ok_inv in H. destruct H as (tm & Etm & H).
        rewrite (Rleaf' _ Elf2). cbn [bind].
        destruct lf2; cbn [negb andb] in H |- *.
        -- cbn [bind]. destruct g as [|g']; [lia|].
           apply (Hrec f' eq_refl); [lia|lia|exact H].
        -- rewrite (bvget _ _ _ Etm). cbn [bind]. destruct tm.
           ++ apply bind_ok_inv in H. destruct H as (idv & Eid & H). unfold trg_npos_to_id.
              unfold npos_to_id in Eid. rewrite (bvrank _ _ _ Eid). cbn [bind pf_epi]. exact H.
           ++ cbn [bind]. destruct g as [|g']; [lia|].
              apply (Hrec f' eq_refl); [lia|lia|exact H].
      * cbn [bind pf_epi]. exact H.
Qed.

Lemma pfx_loop_ref P key : trie_shape P -> bytes_ok key = true -> lenN key < 2 ^ 64 ->
  forall f g id kpos npos r, kpos <= lenN key -> (N.to_nat (lenN key - kpos) <= g)%nat ->
     pfx_loop f P (mkPfx true key id kpos npos false false) = Ok r ->
     bind (loop_ctl g (pf_it P true key false) (false, id, kpos, npos)) (pf_epi P true key false) = Ok r.
Proof.
  intros Hs Hby Hq. induction f as [|f IH]; apply (pfx_loop_ref_step P key Hs Hby Hq); intros f' E; [discriminate E|].
  injection E as <-. exact IH.
Qed.

Theorem pfx_next_ref : PfxNextRef.
Proof.
  intros P it r Hs Hby Hq Ho Hk H. pose proof Hs as (Hbc & Htb & Htl).
  rewrite trg_next_prefix_eq. unfold next_prefix in H.
  destruct it as [obj key id kpos npos beg e]. cbn [p_obj p_key p_id p_kpos p_npos p_beg p_end] in *. subst obj.
  cbn [negb] in H.
  assert (Hg : (N.to_nat (lenN key - kpos) <= S (length key))%nat) by (unfold lenN; lia).
  destruct e; [exact H|].
  destruct beg.
  - apply bind_ok_inv in H. destruct H as (first & Ef & H).
    apply bind_ok_inv in Ef. destruct Ef as (lf & Elf & Ef).
    apply bind_ok_inv in Ef. destruct Ef as (tm & Etm & Ef).
    destruct (bcg_ref api8 api16 api7 api15 (t_bc P) npos Hbc) as (Rleaf & _).
    unfold pf_first. rewrite (Rleaf _ Elf). cbn [bind].
    destruct lf; cbn [negb andb] in Ef |- *.
    + injection Ef as <-. cbn [bind]. apply (pfx_loop_ref P key Hs Hby Hq _ _ _ _ _ _ Hk Hg H).
    + rewrite (bvget _ _ _ Etm). cbn [bind]. destruct tm.
      * apply bind_ok_inv in Ef. destruct Ef as (idv & Eid & Ef). injection Ef as <-.
        unfold trg_npos_to_id. unfold npos_to_id in Eid. rewrite (bvrank _ _ _ Eid). cbn [bind]. exact H.
      * injection Ef as <-. apply (pfx_loop_ref P key Hs Hby Hq _ _ _ _ _ _ Hk Hg H).
  - cbn [bind] in H. apply (pfx_loop_ref P key Hs Hby Hq _ _ _ _ _ _ Hk Hg H).
Qed.

Lemma pfx_calls_ref_gen P q : trie_shape P -> bytes_ok q = true -> lenN q < 2 ^ 64 ->
  forall n it r, pfx_inv q it -> pfx_calls P it n = Ok r -> pfx_calls_g P it n = Ok r.
Proof.
  intros Hs Hby Hq. induction n as [|n IH]; intros it r Hinv H; cbn [pfx_calls pfx_calls_g] in H |- *; [exact H|].
  apply bind_ok_inv in H. destruct H as ([it' b] & Enp & H). cbv beta iota in H.
  apply bind_ok_inv in H. destruct H as (rr & Err & H).
  pose proof (next_prefix_inv P q it it' b Hinv Enp) as Hinv'.
  destruct Hinv as (Ho & Hkey & Hk).
  assert (Hby' : bytes_ok (p_key it) = true) by (rewrite Hkey; exact Hby).
  assert (Hq' : lenN (p_key it) < 2 ^ 64) by (rewrite Hkey; exact Hq).
  assert (Hk' : p_kpos it <= lenN (p_key it)) by (rewrite Hkey; exact Hk).
  rewrite (pfx_next_ref P it (it', b) Hs Hby' Hq' Ho Hk' Enp). cbn [bind].
  rewrite (IH _ _ Hinv' Err). cbn [bind]. exact H.
Qed.

Theorem pfx_calls_ref : PfxCallsRef.
Proof.
  intros P q n r Hs Hby Hq H. exact (pfx_calls_ref_gen P q Hs Hby Hq n (mk_prefix q) r (mk_prefix_inv q) H).
Qed.

End AccessPrefix.

Print Assumptions pfx_next_ref.
Print Assumptions pfx_calls_ref.
