(* AccessSizeFacts.v: size bounds on what assemble builds from certificate-checked content.
     assembled_tail_small   the suffix store has fewer than 2^60 characters
     assembled_units_small  the BASE/CHECK vector has fewer than 2^56 units *)
From Coq Require Import Lia ZifyN ZifyBool ZifyNat.
From X Require Import Base Arr ArrFacts Consts BitToolsSpec BitToolsGen BitVector CompactVector Dac Tail Trie Spec Wf Iface IfaceDac IfaceQuery SerialFacts PhysFacts AssembleFacts All.
Local Open Scope N_scope.

Arguments N.mul : simpl never.
Arguments N.add : simpl never.
Arguments N.sub : simpl never.
Arguments N.shiftl : simpl never.
Arguments N.shiftr : simpl never.
Arguments N.pow : simpl never.
Arguments N.div : simpl never.
Arguments N.modulo : simpl never.

Lemma asz_bind_ok_inv {A B} (r : res A) (f : A -> res B) y :
  bind r f = Ok y -> exists a, r = Ok a /\ f a = Ok y.
Proof. destruct r as [a|e|x]; cbn [bind]; intros H; [exists a; split; [reflexivity|exact H]|discriminate|discriminate]. Qed.

Theorem assembled_tail_small : forall v L P K, wf_for v L P K -> alen (tv_chars (t_tail P)) < 2^60.
Proof.
  intros v L P K [Hasm Hwf]. apply lwf_b_facts in Hwf.
  destruct (assemble_parts tail_thm L K Hwf) as (tv & asg & Etail & Htv & Hchk & Hun' & Hlv' & Hn' & Htm).
  assert (Hsmall : tv_size tv < 2 ^ 60).
  { destruct Hwf as [_ _ _ _ _ _ _ _ _ Hsufs Hnd Hsz _ _].
    assert (Hok : Forall (fun sn : suffix => suf_ok (lg_bin L) (fst sn)) (lg_sufs L)).
    { apply Forall_forall. intros [s u] Hin. cbn [fst]. apply (Hsufs s u Hin). }
    destruct (tail_thm (lg_bin L) (lg_sufs L) Hok Hnd Hsz) as (T & asg' & E' & _ & _ & Htvsz & _).
    rewrite Etail in E'. injection E' as <- _. exact Htvsz. }
  unfold assemble in Hasm. rewrite Etail in Hasm. cbn [bind] in Hasm. rewrite Hchk in Hasm. cbn [negb] in Hasm.
  apply asz_bind_ok_inv in Hasm. destruct Hasm as (terms & Eterms & Hasm).
  apply asz_bind_ok_inv in Hasm. destruct Hasm as (bc & Ebc & Hasm).
  injection Hasm as <-. cbn [t_tail]. exact Hsmall.
Qed.

Theorem assembled_units_small : forall v L P K, wf_for v L P K -> bc_num_units (t_bc P) < 2^56.
Proof.
  intros v L P K [Hasm Hwf]. apply lwf_b_facts in Hwf.
  destruct (assemble_parts tail_thm L K Hwf) as (tv & asg & Etail & Htv & Hchk & Hun' & Hlv' & Hn' & Htm).
  unfold assemble in Hasm. rewrite Etail in Hasm. cbn [bind] in Hasm. rewrite Hchk in Hasm. cbn [negb] in Hasm.
  apply asz_bind_ok_inv in Hasm. destruct Hasm as (terms & Eterms & Hasm).
  apply asz_bind_ok_inv in Hasm. destruct Hasm as (bc & Ebc & Hasm).
  injection Hasm as <-. cbn [t_bc].
  destruct (bc_thm v _ (lg_leaves L) Hun' Hlv' Hn') as (d & Ed & Hnu & _).
  rewrite Ebc in Ed. injection Ed as <-. rewrite Hnu. exact Hn'.
Qed.

Print Assumptions assembled_tail_small.
Print Assumptions assembled_units_small.
