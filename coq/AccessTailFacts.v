From X Require Import Base Arr ArrFacts Consts BitToolsSpec BitToolsGen BitVector CompactVector Dac Tail Trie Spec Wf AccessLib AccessGen AccessDispatch AccessTrieGen Iface IfaceDac IfaceQuery IfaceAccess IfaceAccessTrie AccessFacts.
(* AccessTailFacts.v: the generated tail_vector / code_table accessors (AccessGen.v) return what the hand-written
   models (Tail.v, Trie.v) return: TailMatchRef, TailPrefixRef, TailDecodeRef, CtRef of IfaceAccessTrie.v. *)
From Coq Require Import ZArith Lia ZifyN ZifyBool ZifyNat.
Local Open Scope N_scope.

Arguments N.mul : simpl never.
Arguments N.add : simpl never.
Arguments N.sub : simpl never.
Arguments N.pow : simpl never.
Arguments N.land : simpl never.
Arguments N.ones : simpl never.

Lemma tl_bind_ok_inv {A B} (r : res A) (f : A -> res B) y :
  bind r f = Ok y -> exists a, r = Ok a /\ f a = Ok y.
Proof. destruct r; cbn [bind]; intros H; try discriminate. eauto. Qed.

Lemma tl_pow64 : 2 ^ 64 = 18446744073709551616. Proof. reflexivity. Qed.

Lemma tl_add64_small a b : a + b < 2 ^ 64 -> add64 a b = a + b.
Proof.
  intros H. unfold add64, w64, mask64. rewrite N.land_ones. apply N.mod_small. exact H.
Qed.

Lemma tl_kget_lt q i k : kget q i = Ok k -> i < lenN q.
Proof.
  unfold kget, nthN, lenN. destruct (nth_error q (N.to_nat i)) eqn:E; [|discriminate].
  intros _. assert (N.to_nat i < length q)%nat by (apply nth_error_Some; congruence). lia.
Qed.

Lemma tl_aget_lt {A} (a : arr A) i c : aget a i = Ok c -> i < alen a.
Proof.
  unfold aget, get. destruct (i <? alen a) eqn:E; [|discriminate]. intros _. apply N.ltb_lt. exact E.
Qed.

Lemma tl_loop_ctl_eq {S R} fuel (it : S -> res (ctl S R)) s :
  loop_ctl fuel it s =
  do o <- it s;
  match o with
  | Ret r => Ok (inr r)
  | Done s' => Ok (inl s')
  | Next s' => match fuel with O => Fault OutOfFuel | Datatypes.S f => loop_ctl f it s' end
  end.
Proof. destruct fuel; reflexivity. Qed.

Lemma tl_bin_mode t : tvg_bin_mode t = tv_bin_mode t.
Proof. reflexivity. Qed.

(* ---------------- code_table ---------------- *)
Lemma tl_land255 b : b < 256 -> N.land b 255 = b.
Proof.
  intros H. change 255 with (N.ones 8). rewrite N.land_ones. apply N.mod_small. exact H.
Qed.

Theorem ct_ref : CtRef.
Proof.
  intros c b r Htb. split; intros Hb H.
  - unfold ct_get_code in H. unfold ctg_get_code. rewrite (tl_land255 b Hb), H. cbn [bind].
    rewrite tl_land255; [reflexivity|]. eapply Htb; eassumption.
  - unfold ct_get_char in H. unfold ctg_get_char.
    rewrite tl_add64_small by (rewrite tl_pow64; lia). rewrite H. cbn [bind].
    assert (Hr : r < 256) by (eapply Htb; eassumption).
    rewrite !tl_land255 by (rewrite ?tl_land255; exact Hr). reflexivity.
Qed.

(* ---------------- tail_vector::decode ---------------- *)
Section TailDecodeLoops.
Variable t : tailvec.
Hypothesis Ht : alen (tv_chars t) < 2 ^ 64.

Lemma tl_tpos1 tpos c : aget (tv_chars t) tpos = Ok c -> add64 tpos 1 = tpos + 1.
Proof. intros H. apply tl_aget_lt in H. apply tl_add64_small. lia. Qed.
Lemma tl_dec_bin_loop (IT : list N * N -> res (ctl (list N * N) Datatypes.unit)) :
  (forall out tpos, IT (out, tpos) =
     do out' <- (do t2 <- aget (tv_chars t) tpos; Ok (out ++ [t2]));
     do t3 <- (do t1 <- bvg_get (tv_terms t) tpos; Ok (negb t1));
     Ok (let tpos' := add64 tpos 1 in if t3 then Next (out', tpos') else Done (out', tpos'))) ->
  forall f g acc tpos r, (f <= S g)%nat -> dec_bin f t tpos = Ok r ->
  exists tpos', loop_ctl g IT (acc, tpos) = Ok (inl (acc ++ r, tpos')).
Proof.
  intros HIT. induction f as [|f IH]; intros g acc tpos r Hfg H; cbn [dec_bin] in H; [discriminate|].
  apply tl_bind_ok_inv in H. destruct H as (c & Hc & H).
  apply tl_bind_ok_inv in H. destruct H as (tm & Htm & H).
  rewrite tl_loop_ctl_eq, HIT, Hc. cbn [bind]. rewrite (bv_get_ref _ _ _ Htm). cbn [bind]. cbv zeta.
  rewrite (tl_tpos1 _ _ Hc).
  destruct tm; cbn [negb].
  - injection H as <-. eauto.
  - apply tl_bind_ok_inv in H. destruct H as (r' & Hr' & H). injection H as <-.
    destruct f as [|f']; [discriminate Hr'|].
    destruct g as [|g']; [lia|].
    destruct (IH g' (acc ++ [c]) (tpos + 1) r') as (tpos' & E); [lia|exact Hr'|].
    exists tpos'. rewrite E. rewrite <- app_assoc. reflexivity.
Qed.

Lemma tl_dec_nul_loop (C : list N * N -> res bool) (B : list N * N -> res (list N * N)) :
  (forall out tpos, C (out, tpos) = do t4 <- aget (tv_chars t) tpos; Ok (negb (t4 =? 0))) ->
  (forall out tpos, B (out, tpos) =
     do out' <- (do t5 <- aget (tv_chars t) tpos; Ok (out ++ [t5]));
     Ok (let tpos' := add64 tpos 1 in (out', tpos'))) ->
  forall f g acc tpos r, (f <= S g)%nat -> dec_nul f t tpos = Ok r ->
  exists tpos', while_res g C B (acc, tpos) = Ok (acc ++ r, tpos').
Proof.
  intros HC HB. induction f as [|f IH]; intros g acc tpos r Hfg H; cbn [dec_nul] in H; [discriminate|].
  apply tl_bind_ok_inv in H. destruct H as (c & Hc & H).
  assert (Hw : forall g, while_res g C B (acc, tpos) =
     do t <- C (acc, tpos);
     if t then match g with O => Fault OutOfFuel
               | Datatypes.S g' => do s' <- B (acc, tpos); while_res g' C B s' end
     else Ok (acc, tpos)) by (intros [|?]; reflexivity).
  rewrite Hw, HC, Hc. cbn [bind].
  destruct (c =? 0); cbn [negb].
  - injection H as <-. rewrite app_nil_r. eauto.
  - apply tl_bind_ok_inv in H. destruct H as (r' & Hr' & H). injection H as <-.
    destruct f as [|f']; [discriminate Hr'|].
    destruct g as [|g']; [lia|].
    rewrite HB, Hc. cbn [bind]. cbv zeta. rewrite (tl_tpos1 _ _ Hc).
    destruct (IH g' (acc ++ [c]) (tpos + 1) r') as (tpos' & E); [lia|exact Hr'|].
    exists tpos'. rewrite E. rewrite <- app_assoc. reflexivity.
Qed.

End TailDecodeLoops.

(* ---------------- tail_vector::match ---------------- *)
Section TailMatchLoops.
Variables (t : tailvec) (q : key).
Hypothesis Ht : alen (tv_chars t) < 2 ^ 64.
Hypothesis Hq : lenN q < 2 ^ 64.

Lemma tl_kpos1 kpos k : kget q kpos = Ok k -> add64 kpos 1 = kpos + 1.
Proof. intros H. apply tl_kget_lt in H. apply tl_add64_small. lia. Qed.

Lemma tl_match_bin_loop (IT : N * N -> res (ctl (N * N) bool)) :
  (forall kpos tpos, IT (kpos, tpos) =
     do t4 <- (do t1 <- kget q kpos; do t2 <- aget (tv_chars t) tpos; Ok (negb (t1 =? t2)));
     if t4 then Ok (Ret false) else
     let kpos' := add64 kpos 1 in
     do t3 <- bvg_get (tv_terms t) tpos;
     Ok (if t3 then Ret (kpos' =? lenN q) else
         let tpos' := add64 tpos 1 in
         if kpos' <? lenN q then Next (kpos', tpos') else Done (kpos', tpos'))) ->
  forall f g kpos tpos r, (f <= S g)%nat -> match_bin f t q kpos tpos = Ok r ->
  loop_ctl g IT (kpos, tpos) = Ok (inr r) \/
  (r = false /\ exists s, loop_ctl g IT (kpos, tpos) = Ok (inl s)).
Proof.
  intros HIT. induction f as [|f IH]; intros g kpos tpos r Hfg H; cbn [match_bin] in H; [discriminate|].
  apply tl_bind_ok_inv in H. destruct H as (k & Hk & H).
  apply tl_bind_ok_inv in H. destruct H as (c & Hc & H).
  rewrite tl_loop_ctl_eq, HIT, Hk. cbn [bind]. rewrite Hc. cbn [bind].
  destruct (negb (k =? c)) eqn:E.
  - cbn [bind]. left. congruence.
  - cbv zeta in H. apply tl_bind_ok_inv in H. destruct H as (tm & Htm & H).
    cbv zeta. rewrite (bv_get_ref _ _ _ Htm). cbn [bind].
    rewrite (tl_kpos1 _ _ Hk), (tl_tpos1 t Ht _ _ Hc).
    destruct tm.
    + left. congruence.
    + destruct (kpos + 1 <? lenN q) eqn:E2.
      * destruct f as [|f']; [discriminate H|].
        destruct g as [|g']; [lia|]. apply (IH g'); [lia|exact H].
      * right. split; [congruence|]. eauto.
Qed.

Lemma tl_match_nul_loop (IT : N * N -> res (ctl (N * N) bool)) :
  (forall kpos tpos, IT (kpos, tpos) =
     do t10 <- (do t9 <- (do t6 <- (do t5 <- aget (tv_chars t) tpos; Ok (negb (t5 =? 0))); Ok (negb t6));
                if t9 then Ok true else
                do t7 <- kget q kpos; do t8 <- aget (tv_chars t) tpos; Ok (negb (t7 =? t8)));
     Ok (if t10 then Ret false else
         let kpos' := add64 kpos 1 in
         let tpos' := add64 tpos 1 in
         if kpos' <? lenN q then Next (kpos', tpos') else Done (kpos', tpos'))) ->
  forall f g kpos tpos r, (f <= S g)%nat -> match_nul f t q kpos tpos = Ok r ->
  loop_ctl g IT (kpos, tpos) = Ok (inr r) \/
  (exists kpos' tpos', loop_ctl g IT (kpos, tpos) = Ok (inl (kpos', tpos')) /\
                       (do c' <- aget (tv_chars t) tpos'; Ok (c' =? 0)) = Ok r).
Proof.
  intros HIT. induction f as [|f IH]; intros g kpos tpos r Hfg H; cbn [match_nul] in H; [discriminate|].
  apply tl_bind_ok_inv in H. destruct H as (c & Hc & H).
  rewrite tl_loop_ctl_eq, HIT, Hc. cbn [bind].
  destruct (c =? 0) eqn:E0; cbn [negb bind].
  - cbn [bind]. left. congruence.
  - apply tl_bind_ok_inv in H. destruct H as (k & Hk & H).
    rewrite Hk. cbn [bind].
    destruct (negb (k =? c)) eqn:E.
    + left. congruence.
    + cbv zeta in H. cbv zeta. rewrite (tl_kpos1 _ _ Hk), (tl_tpos1 t Ht _ _ Hc).
      destruct (kpos + 1 <? lenN q) eqn:E2.
      * destruct f as [|f']; [discriminate H|].
        destruct g as [|g']; [lia|]. apply (IH g'); [lia|exact H].
      * right. exists (kpos + 1), (tpos + 1). split; [reflexivity|exact H].
Qed.

Lemma tl_pmatch_bin_loop (IT : N * N -> res (ctl (N * N) (option N))) :
  (forall kpos tpos, IT (kpos, tpos) =
     do t4 <- (do t1 <- kget q kpos; do t2 <- aget (tv_chars t) tpos; Ok (negb (t1 =? t2)));
     if t4 then Ok (Ret None) else
     let kpos' := add64 kpos 1 in
     do t3 <- bvg_get (tv_terms t) tpos;
     Ok (if t3 then Ret (Some kpos') else
         let tpos' := add64 tpos 1 in
         if kpos' <? lenN q then Next (kpos', tpos') else Done (kpos', tpos'))) ->
  forall f g kpos tpos r, (f <= S g)%nat -> pmatch_bin f t q kpos tpos = Ok r ->
  loop_ctl g IT (kpos, tpos) = Ok (inr r) \/
  (r = None /\ exists s, loop_ctl g IT (kpos, tpos) = Ok (inl s)).
Proof.
  intros HIT. induction f as [|f IH]; intros g kpos tpos r Hfg H; cbn [pmatch_bin] in H; [discriminate|].
  apply tl_bind_ok_inv in H. destruct H as (k & Hk & H).
  apply tl_bind_ok_inv in H. destruct H as (c & Hc & H).
  rewrite tl_loop_ctl_eq, HIT, Hk. cbn [bind]. rewrite Hc. cbn [bind].
  destruct (negb (k =? c)) eqn:E.
  - cbn [bind]. left. congruence.
  - cbv zeta in H. apply tl_bind_ok_inv in H. destruct H as (tm & Htm & H).
    cbv zeta. rewrite (bv_get_ref _ _ _ Htm). cbn [bind].
    rewrite (tl_kpos1 _ _ Hk), (tl_tpos1 t Ht _ _ Hc).
    destruct tm.
    + left. congruence.
    + destruct (kpos + 1 <? lenN q) eqn:E2.
      * destruct f as [|f']; [discriminate H|].
        destruct g as [|g']; [lia|]. apply (IH g'); [lia|exact H].
      * right. split; [congruence|]. eauto.
Qed.

Lemma tl_pmatch_nul_loop (IT : N * N -> res (ctl (N * N) (option N))) :
  (forall kpos tpos, IT (kpos, tpos) =
     do t10 <- (do t6 <- (do t5 <- aget (tv_chars t) tpos; Ok (negb (t5 =? 0))); Ok (negb t6));
     if t10 then Ok (Ret (Some kpos)) else
     do t9 <- (do t7 <- kget q kpos; do t8 <- aget (tv_chars t) tpos; Ok (negb (t7 =? t8)));
     Ok (if t9 then Ret None else
         let kpos' := add64 kpos 1 in
         let tpos' := add64 tpos 1 in
         if kpos' <? lenN q then Next (kpos', tpos') else Done (kpos', tpos'))) ->
  forall f g kpos tpos r, (f <= S g)%nat -> pmatch_nul f t q kpos tpos = Ok r ->
  loop_ctl g IT (kpos, tpos) = Ok (inr r) \/
  (exists kpos' tpos', loop_ctl g IT (kpos, tpos) = Ok (inl (kpos', tpos')) /\
                       (do c' <- aget (tv_chars t) tpos'; Ok (if c' =? 0 then Some kpos' else None)) = Ok r).
Proof.
  intros HIT. induction f as [|f IH]; intros g kpos tpos r Hfg H; cbn [pmatch_nul] in H; [discriminate|].
  apply tl_bind_ok_inv in H. destruct H as (c & Hc & H).
  rewrite tl_loop_ctl_eq, HIT, Hc. cbn [bind].
  destruct (c =? 0) eqn:E0; cbn [negb bind].
  - cbn [bind]. left. congruence.
  - apply tl_bind_ok_inv in H. destruct H as (k & Hk & H).
    rewrite Hk. cbn [bind].
    destruct (negb (k =? c)) eqn:E.
    + left. congruence.
    + cbv zeta in H. cbv zeta. rewrite (tl_kpos1 _ _ Hk), (tl_tpos1 t Ht _ _ Hc).
      destruct (kpos + 1 <? lenN q) eqn:E2.
      * destruct f as [|f']; [discriminate H|].
        destruct g as [|g']; [lia|]. apply (IH g'); [lia|exact H].
      * right. exists (kpos + 1), (tpos + 1). split; [reflexivity|exact H].
Qed.

End TailMatchLoops.

Lemma tl_len_cons_nz {A} (b : A) q : (lenN (b :: q) =? 0) = false.
Proof. apply N.eqb_neq. unfold lenN. cbn [length]. lia. Qed.

Theorem tail_match_ref : TailMatchRef.
Proof.
  intros t q tpos r (Ht & Hq) H. unfold t_match in H. unfold tvg_match.
  destruct q as [|b q'].
  - exact H.
  - rewrite tl_len_cons_nz. remember (b :: q') as q eqn:Eq. clear Eq b q'.
    destruct (tpos =? 0); [exact H|]. cbv zeta. rewrite tl_bin_mode.
    destruct (tv_bin_mode t).
    + match goal with |- context [loop_ctl ?fu ?it (0, tpos)] =>
        destruct (tl_match_bin_loop t q Ht Hq it) with (f := S (length q)) (g := fu) (kpos := 0) (tpos := tpos) (r := r)
          as [E | (-> & s & E)]
      end; [intros; reflexivity|lia|exact H| |]; rewrite E; cbn [bind]; [reflexivity|].
      destruct s. reflexivity.
    + match goal with |- context [loop_ctl ?fu ?it (0, tpos)] =>
        destruct (tl_match_nul_loop t q Ht Hq it) with (f := S (length q)) (g := fu) (kpos := 0) (tpos := tpos) (r := r)
          as [E | (kpos' & tpos' & E & Hd)]
      end; [intros; reflexivity|lia|exact H| |]; rewrite E; cbn [bind]; [reflexivity|].
      apply tl_bind_ok_inv in Hd. destruct Hd as (c' & Hc' & Hd). rewrite Hc'. cbn [bind].
      rewrite negb_involutive. exact Hd.
Qed.

Theorem tail_prefix_ref : TailPrefixRef.
Proof.
  intros t q tpos r (Ht & Hq) H. unfold t_prefix_match in H. unfold tvg_prefix_match.
  destruct (tpos =? 0); [exact H|].
  destruct q as [|b q'].
  - exact H.
  - rewrite tl_len_cons_nz. remember (b :: q') as q eqn:Eq. clear Eq b q'.
    cbv zeta. rewrite tl_bin_mode.
    destruct (tv_bin_mode t).
    + match goal with |- context [loop_ctl ?fu ?it (0, tpos)] =>
        destruct (tl_pmatch_bin_loop t q Ht Hq it) with (f := S (length q)) (g := fu) (kpos := 0) (tpos := tpos) (r := r)
          as [E | (-> & s & E)]
      end; [intros; reflexivity|lia|exact H| |]; rewrite E; cbn [bind]; [reflexivity|].
      destruct s. reflexivity.
    + match goal with |- context [loop_ctl ?fu ?it (0, tpos)] =>
        destruct (tl_pmatch_nul_loop t q Ht Hq it) with (f := S (length q)) (g := fu) (kpos := 0) (tpos := tpos) (r := r)
          as [E | (kpos' & tpos' & E & Hd)]
      end; [intros; reflexivity|lia|exact H| |]; rewrite E; cbn [bind]; [reflexivity|].
      apply tl_bind_ok_inv in Hd. destruct Hd as (c' & Hc' & Hd). rewrite Hc'. cbn [bind].
      rewrite negb_involutive. exact Hd.
Qed.

Theorem tail_decode_ref : TailDecodeRef.
Proof.
  intros t tpos r Ht H. unfold t_decode in H. unfold tvg_decode. cbv zeta in H. cbv zeta.
  rewrite tl_bin_mode. unfold tv_size in H.
  destruct (tv_bin_mode t).
  - destruct (tpos =? 0); cbn [negb].
    + cbn [bind]. exact H.
    + match goal with |- context [@loop_ctl ?S ?R ?fu ?it ([], tpos)] =>
        destruct (tl_dec_bin_loop t Ht it) with (f := fu) (g := fu) (acc := @nil N) (tpos := tpos) (r := r)
          as (tpos' & E)
      end; [intros; reflexivity|lia|exact H|]. rewrite E. cbn [bind app]. reflexivity.
  - match goal with |- context [while_res ?fu ?cc ?bb ([], tpos)] =>
      destruct (tl_dec_nul_loop t Ht cc bb) with (f := fu) (g := fu) (acc := @nil N) (tpos := tpos) (r := r)
        as (tpos' & E)
    end; [intros; reflexivity|intros; reflexivity|lia|exact H|]. rewrite E. cbn [bind app]. reflexivity.
Qed.

Print Assumptions tail_match_ref.
Print Assumptions tail_prefix_ref.
Print Assumptions tail_decode_ref.
Print Assumptions ct_ref.
