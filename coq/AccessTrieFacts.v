(* AccessTrieFacts.v: the functions regenerated from trie.hpp (AccessTrieGen.v) against the hand-written model (Trie.v).
   Results (Section AccessTrie; the hypotheses are interface statements of IfaceAccess.v / IfaceAccessTrie.v / IfaceDac.v):
     bcg_ref          the variant dispatch of AccessDispatch.v refines bc_is_leaf / bc_base / bc_check / bc_link
     trie_lookup_ref  : TrieLookupRef   trg_lookup returns what the model's lookup returns
     assemble_shape   : AssembleShape   what assemble builds from certificate-checked content has the shape needed
                        (uses the extra Section hypothesis tailspec : TailSpec, through AssembleFacts.assemble_parts) *)
From Coq Require Import Lia ZifyN ZifyBool ZifyNat.
From X Require Import Base Arr ArrFacts Consts BitToolsSpec BitToolsGen BitVector CompactVector Dac Tail Trie Spec Wf AccessLib AccessGen AccessDispatch AccessTrieGen Iface IfaceDac IfaceQuery IfaceAccess IfaceAccessTrie.
From X Require Import SerialFacts PhysFacts AssembleFacts.
Local Open Scope N_scope.

Arguments N.mul : simpl never.
Arguments N.add : simpl never.
Arguments N.sub : simpl never.
Arguments N.shiftl : simpl never.
Arguments N.shiftr : simpl never.
Arguments N.pow : simpl never.
Arguments N.div : simpl never.
Arguments N.modulo : simpl never.
Arguments N.land : simpl never.
Arguments N.lor : simpl never.
Arguments N.lxor : simpl never.
Arguments N.ones : simpl never.

Lemma bind_ok_inv {A B} (r : res A) (f : A -> res B) y :
  bind r f = Ok y -> exists a, r = Ok a /\ f a = Ok y.
Proof. destruct r as [a|e|x]; cbn [bind]; intros H; [exists a; split; [reflexivity|exact H]|discriminate|discriminate]. Qed.

(* ------------------------------------------------------------------ small facts *)
Lemma at_add64_small a b : a + b < 2 ^ 64 -> add64 a b = a + b.
Proof. intros H. unfold add64, w64, mask64. rewrite N.land_ones. apply N.mod_small. exact H. Qed.

Lemma at_w64_small a : a < 2 ^ 64 -> w64 a = a.
Proof. intros H. unfold w64, mask64. rewrite N.land_ones. apply N.mod_small. exact H. Qed.

Lemma at_sub64_small a b : b <= a -> a < 2 ^ 64 -> sub64 a b = a - b.
Proof.
  intros Hb Ha. unfold sub64. rewrite (at_w64_small b) by lia.
  change (N.shiftl 1 64) with (2 ^ 64).
  replace (a + 2 ^ 64 - b) with ((a - b) + 1 * 2 ^ 64) by lia.
  unfold w64, mask64. rewrite N.land_ones, N.mod_add by (apply N.pow_nonzero; discriminate).
  apply N.mod_small. lia.
Qed.

Lemma at_land255 b : b < 256 -> N.land b 255 = b.
Proof. intros H. change 255 with (N.ones 8). rewrite N.land_ones. apply N.mod_small. exact H. Qed.

Lemma at_lenN_app {A} (l1 l2 : list A) : lenN (l1 ++ l2) = lenN l1 + lenN l2.
Proof. unfold lenN. rewrite app_length. lia. Qed.

Lemma at_kget_mid pre b rest : kget (pre ++ b :: rest) (lenN pre) = Ok b.
Proof.
  unfold kget, nthN, lenN. rewrite Nat2N.id, nth_error_app2 by apply le_n.
  rewrite PeanoNat.Nat.sub_diag. reflexivity.
Qed.

Lemma at_skipn_pre {A} (pre rest : list A) : skipn (length pre) (pre ++ rest) = rest.
Proof. induction pre as [|x pre IH]; [reflexivity|exact IH]. Qed.

Lemma at_suffix P q pre rest : q = pre ++ rest -> lenN q < 2 ^ 64 ->
  trg_get_suffix P q (lenN pre) = rest.
Proof.
  intros -> Hq. unfold trg_get_suffix, key_substr. rewrite at_lenN_app in *.
  rewrite at_sub64_small by lia.
  replace (lenN pre + lenN rest - lenN pre) with (lenN rest) by lia.
  unfold lenN at 2. rewrite Nat2N.id, at_skipn_pre. unfold lenN. rewrite Nat2N.id. apply firstn_all.
Qed.

Lemma at_bytes_in q b : bytes_ok q = true -> In b q -> b < 256.
Proof. unfold bytes_ok. intros H Hin. rewrite forallb_forall in H. apply N.ltb_lt. apply H. exact Hin. Qed.

Lemma loop_ctl_unfold {S R} fuel (it : S -> res (ctl S R)) s :
  loop_ctl fuel it s =
  bind (it s) (fun o => match o with
                        | Ret r => Ok (inr r)
                        | Done s' => Ok (inl s')
                        | Next s' => match fuel with O => Fault OutOfFuel | Datatypes.S f => loop_ctl f it s' end
                        end).
Proof. destruct fuel; reflexivity. Qed.

(* ------------------------------------------------------------------ the generated lookup, named pieces *)
Definition lk_it (s : trie) (v_key : list N) : N * N -> res (ctl (N * N) (option N)) :=
  (fun '(v_kpos, v_npos) => (do t12 <- (do t1 <- (bcg_is_leaf (t_bc s) v_npos); (Ok (negb t1))); (if t12 then (if (N.eqb v_kpos (lenN v_key)) then (do t5 <- (do t2 <- (bvg_get (t_terms s) v_npos); (Ok (negb t2))); (if t5 then (Ok (Ret None)) else (do t4 <- (do t3 <- (trg_npos_to_id s v_npos); (Ok (Some t3))); (Ok (Ret t4))))) else (do v_cpos <- (do t8 <- (bcg_base (t_bc s) v_npos); (do t9 <- (do t7 <- (do t6 <- (kget v_key v_kpos); (Ok (N.land t6 255))); (ctg_get_code (t_table s) t7)); (Ok (N.lxor t8 t9)))); (let v_kpos := (add64 v_kpos 1) in (do t11 <- (do t10 <- (bcg_check (t_bc s) v_cpos); (Ok (negb (N.eqb t10 v_npos)))); (Ok (if t11 then (Ret None) else (let v_npos := v_cpos in (Next (v_kpos, v_npos))))))))) else Ok (Done (v_kpos, v_npos))))).

Definition lk_epi (s : trie) (v_key : list N) (o_ : N * N + option N) : res (option N) :=
  match o_ with inr r_ => Ok r_ | inl (v_kpos, v_npos) => (do v_tpos <- (bcg_link (t_bc s) v_npos); (do t15 <- (do t13 <- (tvg_match (t_tail s) (trg_get_suffix s v_key v_kpos) v_tpos); (Ok (negb t13))); (if t15 then (Ok None) else (do t14 <- (trg_npos_to_id s v_npos); (Ok (Some t14)))))) end.

Lemma trg_lookup_eq s k : trg_lookup s k = bind (loop_ctl (S (length k)) (lk_it s k) (0, 0)) (lk_epi s k).
Proof. reflexivity. Qed.

Section AccessTrie.
Hypothesis bvget : BvGetRef.
Hypothesis bvrank : BvRankRef.
Hypothesis api8 : Bc8ApiRef.
Hypothesis api16 : Bc16ApiRef.
Hypothesis api7 : Bc7ApiRef.
Hypothesis api15 : Bc15ApiRef.
Hypothesis tmatch : TailMatchRef.
Hypothesis ctref : CtRef.
Hypothesis bcshape : BcBuildShape.
Hypothesis tailspec : TailSpec.

(* ------------------------------------------------------------------ dispatch *)
Theorem bcg_ref : forall d i, bc_shape_any d ->
  (forall x, bc_is_leaf d i = Ok x -> bcg_is_leaf d i = Ok x) /\ (forall x, bc_base d i = Ok x -> bcg_base d i = Ok x) /\
  (forall x, bc_check d i = Ok x -> bcg_check d i = Ok x) /\ (forall x, bc_link d i = Ok x -> bcg_link d i = Ok x).
Proof.
  intros [d|d] i Hs; cbn [bc_shape_any] in Hs; unfold bcg_is_leaf, bcg_base, bcg_check, bcg_link.
  - destruct Hs as [Hs|Hs].
    + assert (E : b8_w d = 8) by (destruct Hs as [E _]; exact E). rewrite E. cbn [N.eqb Pos.eqb].
      destruct (api8 d i Hs) as (H1 & H2 & H3 & H4 & _). repeat split; assumption.
    + assert (E : b8_w d = 16) by (destruct Hs as [E _]; exact E). rewrite E. cbn [N.eqb Pos.eqb].
      destruct (api16 d i Hs) as (H1 & H2 & H3 & H4 & _). repeat split; assumption.
  - destruct Hs as [Hs|Hs].
    + assert (E : is7 d = true) by (destruct Hs as [E _]; unfold is7; rewrite E; reflexivity). rewrite E.
      destruct (api7 d i Hs) as (H1 & H2 & H3 & H4 & _). repeat split; assumption.
    + assert (E : is7 d = false) by (destruct Hs as [E _]; unfold is7; rewrite E; reflexivity). rewrite E.
      destruct (api15 d i Hs) as (H1 & H2 & H3 & H4 & _). repeat split; assumption.
Qed.

(* ------------------------------------------------------------------ lookup *)
Lemma lookup_loop_ref P q : trie_shape P -> bytes_ok q = true -> lenN q < 2 ^ 64 ->
  forall rest pre npos r fuel, q = pre ++ rest -> (length rest <= fuel)%nat ->
    lookup_loop P q rest npos = Ok r ->
    bind (loop_ctl fuel (lk_it P q) (lenN pre, npos)) (lk_epi P q) = Ok r.
Proof.
  intros (Hbc & Htb & Htl) Hby Hq.
  induction rest as [|b rest IH]; intros pre npos r fuel Eq Hfuel H; cbn [lookup_loop] in H;
    apply bind_ok_inv in H; destruct H as (lf & Elf & H);
    destruct (bcg_ref (t_bc P) npos Hbc) as (Rleaf & Rbase & Rcheck & Rlink);
    rewrite loop_ctl_unfold; cbn [lk_it]; rewrite (Rleaf _ Elf); cbn [bind].
  - (* rest = [] *)
    destruct lf; cbn [negb].
    + cbn [bind lk_epi].
      apply bind_ok_inv in H. destruct H as (tpos & Etpos & H).
      apply bind_ok_inv in H. destruct H as (m & Em & H).
      rewrite (Rlink _ Etpos). cbn [bind].
      rewrite (at_suffix P q pre [] Eq Hq).
      assert (Hsm : tail_small (t_tail P) []) by (split; [exact Htl|reflexivity]).
      rewrite (tmatch _ _ _ _ Hsm Em). cbn [bind].
      destruct m; cbn [negb].
      * apply bind_ok_inv in H. destruct H as (id & Eid & H). unfold trg_npos_to_id.
        unfold npos_to_id in Eid. rewrite (bvrank _ _ _ Eid). cbn [bind]. exact H.
      * exact H.
    + assert (Ek : lenN pre =? lenN q = true) by (apply N.eqb_eq; rewrite Eq, app_nil_r; reflexivity).
      rewrite Ek.
      apply bind_ok_inv in H. destruct H as (tm & Etm & H).
      rewrite (bvget _ _ _ Etm). cbn [bind].
      destruct tm; cbn [negb].
      * apply bind_ok_inv in H. destruct H as (id & Eid & H). unfold trg_npos_to_id.
        unfold npos_to_id in Eid. rewrite (bvrank _ _ _ Eid). cbn [bind lk_epi]. exact H.
      * cbn [bind lk_epi]. exact H.
  - (* rest = b :: rest *)
    assert (Hlen : lenN q = lenN pre + lenN rest + 1).
    { rewrite Eq, at_lenN_app. unfold lenN. cbn [length]. lia. }
    destruct lf; cbn [negb].
    + cbn [bind lk_epi].
      apply bind_ok_inv in H. destruct H as (tpos & Etpos & H).
      apply bind_ok_inv in H. destruct H as (m & Em & H).
      rewrite (Rlink _ Etpos). cbn [bind].
      rewrite (at_suffix P q pre (b :: rest) Eq Hq).
      assert (Hsm : tail_small (t_tail P) (b :: rest)).
      { split; [exact Htl|]. unfold lenN in *. cbn [length]. lia. }
      rewrite (tmatch _ _ _ _ Hsm Em). cbn [bind].
      destruct m; cbn [negb].
      * apply bind_ok_inv in H. destruct H as (id & Eid & H). unfold trg_npos_to_id.
        unfold npos_to_id in Eid. rewrite (bvrank _ _ _ Eid). cbn [bind]. exact H.
      * exact H.
    + assert (Ek : lenN pre =? lenN q = false) by (apply N.eqb_neq; lia).
      rewrite Ek.
      apply bind_ok_inv in H. destruct H as ([cpos ok] & Ech & H).
      unfold child in Ech.
      apply bind_ok_inv in Ech. destruct Ech as (base & Ebase & Ech).
      apply bind_ok_inv in Ech. destruct Ech as (cd & Ecd & Ech). cbv zeta in Ech.
      apply bind_ok_inv in Ech. destruct Ech as (chk & Echk & Ech).
      injection Ech as Ecpos Eok. subst cpos.
      assert (Hb : b < 256).
      { apply (at_bytes_in q); [exact Hby|]. rewrite Eq. apply in_or_app. right. left. reflexivity. }
      rewrite (Rbase _ Ebase). cbn [bind].
      assert (Ekg : kget q (lenN pre) = Ok b) by (rewrite Eq; apply at_kget_mid).
      rewrite Ekg. cbn [bind]. rewrite (at_land255 b Hb).
      destruct (ctref (t_table P) b cd Htb) as [Rcode _]. rewrite (Rcode Hb Ecd). cbn [bind]. cbv zeta.
      destruct (bcg_ref (t_bc P) (N.lxor base cd) Hbc) as (_ & _ & Rcheck' & _).
      rewrite (Rcheck' _ Echk). cbn [bind]. rewrite Eok.
      destruct ok; cbn [negb].
      * destruct fuel as [|fuel]; [cbn [length] in Hfuel; lia|].
        rewrite at_add64_small by lia.
        replace (lenN pre + 1) with (lenN (pre ++ [b])) by (rewrite at_lenN_app; reflexivity).
        apply IH.
        -- rewrite <- app_assoc. exact Eq.
        -- cbn [length] in Hfuel. lia.
        -- exact H.
      * cbn [bind lk_epi]. exact H.
Qed.

Theorem trie_lookup_ref : TrieLookupRef.
Proof.
  intros P q r Hs Hby Hq H. rewrite trg_lookup_eq. unfold lookup in H.
  change (0, 0) with (lenN (@nil N), 0).
  apply (lookup_loop_ref P q Hs Hby Hq q [] 0 r (S (length q))); [reflexivity|lia|exact H].
Qed.

(* ------------------------------------------------------------------ shape of what assemble builds *)
Theorem assemble_shape : AssembleShape.
Proof.
  intros v L P K [Hasm Hwf]. apply lwf_b_facts in Hwf.
  destruct (assemble_parts tailspec L K Hwf) as (tv & asg & Etail & Htv & Hchk & Hun' & Hlv' & Hn' & Htm).
  unfold assemble in Hasm. rewrite Etail in Hasm. cbn [bind] in Hasm. rewrite Hchk in Hasm. cbn [negb] in Hasm.
  apply bind_ok_inv in Hasm. destruct Hasm as (terms & Eterms & Hasm).
  apply bind_ok_inv in Hasm. destruct Hasm as (bc & Ebc & Hasm).
  injection Hasm as <-.
  unfold trie_shape; cbn [t_table t_bc t_tail].
  split; [|split].
  - pose proof (bcshape v _ _ bc Hun' Ebc) as Hsh. unfold bc_shape_any.
    destruct v, bc; try contradiction; auto.
  - unfold table_bytes; cbn [ct_table]. intros i x Hx. rewrite aget_of_list in Hx.
    destruct (nth_error (lg_tbl L) (N.to_nat i)) as [y|] eqn:E; [|discriminate].
    injection Hx as <-. apply nth_error_In in E.
    pose proof (perm_okb_bytes _ (lf_perm L K Hwf)) as Hb. rewrite Forall_forall in Hb. apply Hb. exact E.
  - destruct Htv as [(_ & Hlen & _) _]. exact Hlen.
Qed.

End AccessTrie.

Print Assumptions bcg_ref.
Print Assumptions trie_lookup_ref.
Print Assumptions assemble_shape.
