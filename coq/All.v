(* All.v: assembly.  Every interface statement (Iface*.v) is discharged here by the theorem that proves it,
   so the results below carry no hypothesis other than their own statement's premises. *)
From X Require Import Base Arr Consts BitToolsSpec BitToolsGen BitVector CompactVector Dac Tail Trie Serial Spec Wf
  Iface IfaceDac IfaceQuery
  BitToolsFacts BitVectorFacts CompactFacts DacFacts TailFacts PhysFacts LookupFacts PrefixFacts PredictiveFacts
  StatsFacts SerialFacts History HistoryFacts Conc ConcFacts.
Local Open Scope N_scope.

(* word level *)
Theorem popcount_thm : PopcountSpec.        Proof. exact popcount_correct. Qed.
Theorem popcnt_low_thm : PopcntLowBits.     Proof. exact popcnt_low_bits. Qed.
Theorem select_in_word_thm : SelectInWordSpec. Proof. exact select_in_word_correct. Qed.
Theorem select_sound_thm : SelectSpecSound. Proof. exact select_char_fwd. Qed.
Theorem uleq_count_thm : UleqCount.         Proof. exact uleq_step_9_count. Qed.
Theorem msb_log2_thm : MsbLog2.             Proof. exact msb_log2. Qed.

(* bit vector *)
Theorem bv_build_thm : BvBuildSpec.   Proof. exact (bv_build_spec popcount_thm). Qed.
Theorem bv_get_thm : BvGetSpec.       Proof. exact (bv_get_spec popcount_thm). Qed.
Theorem bv_rank_thm : BvRankSpec.     Proof. exact (bv_rank_spec popcount_thm popcnt_low_thm). Qed.
Theorem bv_select_thm : BvSelectSpec.
Proof. exact (bv_select_spec popcount_thm select_in_word_thm select_sound_thm uleq_count_thm). Qed.

(* packed integers *)
Theorem cv_thm : CvSpec.              Proof. exact (cv_spec msb_log2_thm). Qed.
Theorem bc_thm : BcSpec.              Proof. exact (bc_spec cv_thm bv_build_thm bv_get_thm bv_rank_thm). Qed.

(* suffix store *)
Theorem tail_thm : TailSpec.          Proof. exact (tail_spec bv_build_thm bv_get_thm). Qed.

(* dictionary assembled from certificate-checked logical content *)
Theorem phys_thm : PhysSpec.          Proof. exact (phys_spec bv_get_thm bv_rank_thm bv_select_thm bc_thm tail_thm). Qed.
Theorem lookup_node_thm : LookupNodeSpec. Proof. exact (lookup_node_spec phys_thm). Qed.
Theorem lookup_thm : LookupSpec.      Proof. exact (lookup_spec phys_thm). Qed.
Theorem decode_thm : DecodeSpec.      Proof. exact (decode_spec phys_thm). Qed.
Theorem prefix_thm : PrefixSpec.      Proof. exact (prefix_spec phys_thm lookup_node_thm). Qed.
Theorem predictive_thm : PredictiveSpec. Proof. exact (predictive_spec phys_thm lookup_node_thm). Qed.
Theorem stats_thm : StatsSpec.        Proof. exact (stats_spec phys_thm). Qed.

(* histories and schedules *)
Theorem history_thm : forall v L P K, wf_for v L P K -> trie_fits v P ->
  forall ops aouts ast', arun K (lk P) [] ops = Some (ast', aouts) ->
  (forall q, In (HLookup q) ops -> bytes_ok q = true) ->
  (forall s q, In (HMkPrefix s q) ops -> bytes_ok q = true) ->
  (forall s q, In (HMkPred s q) ops -> bytes_ok q = true) ->
  exists st', hrun v (mkH P [] []) ops = Ok (st', aouts) /\ h_trie st' = P.
Proof. exact (history_refines_strong lookup_thm decode_thm prefix_thm predictive_thm). Qed.
Theorem decode_total_thm : forall v L P K, wf_for v L P K -> forall id,
  decode P id = Ok (match key_of_id K (lk P) id with Some k => k | None => [] end).
Proof. exact (decode_key_of_id lookup_thm decode_thm). Qed.
Theorem enumerate_thm : forall v L P K, wf_for v L P K -> enumerate P = Ok (with_ids P K).
Proof. exact (enumerate_spec phys_thm lookup_node_thm). Qed.
Theorem enumerate_calls_thm : forall v L P K, wf_for v L P K -> forall m,
  pred_calls P (mk_predictive []) m = Ok (abs_calls (with_ids P K) m).
Proof. exact (enumerate_calls phys_thm lookup_node_thm). Qed.
