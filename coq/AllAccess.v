(* AllAccess.v: the C09 / C10 statements restated for the functions REGENERATED FROM THE HEADERS
   (AccessGen.v, translator/access.py): what bit_vector / compact_vector / bc_vector_{7,8,15,16} accessors,
   as the source spells them today, return on the structures the modelled constructors build. *)
From X Require Import Base Arr Consts BitToolsSpec BitToolsGen BitVector CompactVector Dac AccessLib AccessGen
  Iface IfaceDac IfaceAccess AccessFacts AccessDacFacts All.
From Coq Require Import Lia.
Local Open Scope N_scope.

Theorem bc8_api : Bc8ApiRef.   Proof. exact (bc8_api_ref cv_get_ref bv_get_ref bv_rank_ref). Qed.
Theorem bc16_api : Bc16ApiRef. Proof. exact (bc16_api_ref cv_get_ref bv_get_ref bv_rank_ref). Qed.
Theorem bc7_api : Bc7ApiRef.   Proof. exact (bc7_api_ref cv_get_ref bv_get_ref bv_rank_ref). Qed.
Theorem bc15_api : Bc15ApiRef. Proof. exact (bc15_api_ref cv_get_ref bv_get_ref bv_rank_ref). Qed.
Theorem bc_shape : BcBuildShape. Proof. exact (bc_build_shape cv_build_bits). Qed.

(* ---- bit_vector ---- *)
Theorem src_bv_get : forall bits r s v i, lenN bits < max_bits ->
  bv_of_bits bits r s = Ok v -> i < lenN bits -> bvg_get v i = Ok (nthb bits i).
Proof. intros bits r s v i Hb Hv Hi. apply bv_get_ref. eapply bv_get_thm; eassumption. Qed.

Theorem src_bv_rank : forall bits s v i, lenN bits < max_bits ->
  bv_of_bits bits true s = Ok v -> i <= lenN bits ->
  bvg_rank v i = Ok (count_true (firstn (N.to_nat i) bits)).
Proof. intros bits s v i Hb Hv Hi. apply bv_rank_ref. eapply bv_rank_thm; eassumption. Qed.

Lemma count_true_le : forall l, count_true l <= lenN l.
Proof.
  induction l as [|b l IH]; unfold lenN in *; cbn [count_true length]; [lia|].
  destruct b; lia.
Qed.

Theorem src_bv_select : forall bits v n, lenN bits < max_bits ->
  bv_of_bits bits true true = Ok v -> n < count_true bits ->
  exists p, bvg_select v n = Ok p /\ p < lenN bits /\ nthb bits p = true /\
            count_true (firstn (N.to_nat p) bits) = n.
Proof.
  intros bits v n Hb Hv Hn. destruct (bv_select_thm bits v n Hb Hv Hn) as (p & Hp & R).
  exists p. split; [|exact R]. apply bv_select_ref; [|exact Hp].
  pose proof (count_true_le bits). unfold max_bits in Hb.
  assert (2 ^ 62 < 2 ^ 64) by (apply N.pow_lt_mono_r; lia). lia.
Qed.

(* ---- compact_vector ---- *)
Theorem src_cv : forall vs, vs <> [] -> Forall (fun x => x < 2^64) vs -> lenN vs < 2^56 ->
  exists c, cv_build vs = Ok c /\ cvg_size c = lenN vs /\
            forall i, i < lenN vs -> cvg_get c i = Ok (nth (N.to_nat i) vs 0).
Proof.
  intros vs Hne Hall Hlen. destruct (cv_thm vs Hne Hall Hlen) as (c & Hc & Hs & Hg).
  exists c. split; [exact Hc|]. split; [exact Hs|]. intros i Hi.
  apply cv_get_ref; [eapply cv_build_bits; eassumption|apply Hg; exact Hi].
Qed.

(* ---- the four BASE/CHECK vectors ---- *)
Section Bc.
Variables (units : list unit) (leaves : list bool).
Hypothesis Hu : units_ok units.
Hypothesis Hl : length leaves = length units.
Hypothesis Hn : lenN units < 2^56.

Theorem src_bc8 : exists d, bc_build V8 units leaves = Ok (Bc8 d) /\
  b8g_num_units d = Ok (lenN units) /\ b8g_num_free_units d = count_free_spec units 0 /\
  b8g_num_leaves d = count_true leaves /\ b8g_num_nodes d = Ok (lenN units - count_free_spec units 0) /\
  forall i, i < lenN units ->
    b8g_is_leaf d i = Ok (nthb leaves i) /\ b8g_check d i = Ok (snd (nthu units i)) /\
    (nthb leaves i = false -> b8g_base d i = Ok (fst (nthu units i))) /\
    (nthb leaves i = true -> b8g_link d i = Ok (fst (nthu units i))).
Proof.
  destruct (bc_thm V8 units leaves Hu Hl Hn) as (d0 & Hb & H1 & H2 & H3 & H4 & H5).
  pose proof (bc_shape V8 units leaves d0 Hu Hb) as Hs. destruct d0 as [d|d]; [|contradiction].
  exists d. split; [exact Hb|].
  destruct (bc8_api d 0 Hs) as (_ & _ & _ & _ & A5 & A6 & A7 & A8).
  rewrite A5, A6, A7, A8, H1, H2, H3, H4. repeat split; try reflexivity.
  all: destruct (H5 i H) as (L1 & L2 & L3 & L4); destruct (bc8_api d i Hs) as (B1 & B2 & B3 & B4 & _).
  - apply B4, L1.
  - apply B2, L2.
  - intros E. apply B1, L3, E.
  - intros E. apply B3, L4, E.
Qed.

Theorem src_bc16 : exists d, bc_build V16 units leaves = Ok (Bc8 d) /\
  b16g_num_units d = Ok (lenN units) /\ b16g_num_free_units d = count_free_spec units 0 /\
  b16g_num_leaves d = count_true leaves /\ b16g_num_nodes d = Ok (lenN units - count_free_spec units 0) /\
  forall i, i < lenN units ->
    b16g_is_leaf d i = Ok (nthb leaves i) /\ b16g_check d i = Ok (snd (nthu units i)) /\
    (nthb leaves i = false -> b16g_base d i = Ok (fst (nthu units i))) /\
    (nthb leaves i = true -> b16g_link d i = Ok (fst (nthu units i))).
Proof.
  destruct (bc_thm V16 units leaves Hu Hl Hn) as (d0 & Hb & H1 & H2 & H3 & H4 & H5).
  pose proof (bc_shape V16 units leaves d0 Hu Hb) as Hs. destruct d0 as [d|d]; [|contradiction].
  exists d. split; [exact Hb|].
  destruct (bc16_api d 0 Hs) as (_ & _ & _ & _ & A5 & A6 & A7 & A8).
  rewrite A5, A6, A7, A8, H1, H2, H3, H4. repeat split; try reflexivity.
  all: destruct (H5 i H) as (L1 & L2 & L3 & L4); destruct (bc16_api d i Hs) as (B1 & B2 & B3 & B4 & _).
  - apply B4, L1.
  - apply B2, L2.
  - intros E. apply B1, L3, E.
  - intros E. apply B3, L4, E.
Qed.

Theorem src_bc7 : exists d, bc_build V7 units leaves = Ok (Bc7 d) /\
  b7g_num_units d = lenN units /\ b7g_num_free_units d = count_free_spec units 0 /\
  b7g_num_leaves d = count_true leaves /\ b7g_num_nodes d = lenN units - count_free_spec units 0 /\
  forall i, i < lenN units ->
    b7g_is_leaf d i = Ok (nthb leaves i) /\ b7g_check d i = Ok (snd (nthu units i)) /\
    (nthb leaves i = false -> b7g_base d i = Ok (fst (nthu units i))) /\
    (nthb leaves i = true -> b7g_link d i = Ok (fst (nthu units i))).
Proof.
  destruct (bc_thm V7 units leaves Hu Hl Hn) as (d0 & Hb & H1 & H2 & H3 & H4 & H5).
  pose proof (bc_shape V7 units leaves d0 Hu Hb) as Hs. destruct d0 as [d|d]; [contradiction|].
  exists d. split; [exact Hb|].
  destruct (bc7_api d 0 Hs) as (_ & _ & _ & _ & A5 & A6 & A7 & A8).
  rewrite A5, A6, A7, A8, H1, H2, H3, H4. repeat split; try reflexivity.
  all: destruct (H5 i H) as (L1 & L2 & L3 & L4); destruct (bc7_api d i Hs) as (B1 & B2 & B3 & B4 & _).
  - apply B4, L1.
  - apply B2, L2.
  - intros E. apply B1, L3, E.
  - intros E. apply B3, L4, E.
Qed.

Theorem src_bc15 : exists d, bc_build V15 units leaves = Ok (Bc7 d) /\
  b15g_num_units d = lenN units /\ b15g_num_free_units d = count_free_spec units 0 /\
  b15g_num_leaves d = count_true leaves /\ b15g_num_nodes d = lenN units - count_free_spec units 0 /\
  forall i, i < lenN units ->
    b15g_is_leaf d i = Ok (nthb leaves i) /\ b15g_check d i = Ok (snd (nthu units i)) /\
    (nthb leaves i = false -> b15g_base d i = Ok (fst (nthu units i))) /\
    (nthb leaves i = true -> b15g_link d i = Ok (fst (nthu units i))).
Proof.
  destruct (bc_thm V15 units leaves Hu Hl Hn) as (d0 & Hb & H1 & H2 & H3 & H4 & H5).
  pose proof (bc_shape V15 units leaves d0 Hu Hb) as Hs. destruct d0 as [d|d]; [contradiction|].
  exists d. split; [exact Hb|].
  destruct (bc15_api d 0 Hs) as (_ & _ & _ & _ & A5 & A6 & A7 & A8).
  rewrite A5, A6, A7, A8, H1, H2, H3, H4. repeat split; try reflexivity.
  all: destruct (H5 i H) as (L1 & L2 & L3 & L4); destruct (bc15_api d i Hs) as (B1 & B2 & B3 & B4 & _).
  - apply B4, L1.
  - apply B2, L2.
  - intros E. apply B1, L3, E.
  - intros E. apply B3, L4, E.
Qed.
End Bc.
