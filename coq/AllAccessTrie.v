(* AllAccessTrie.v: the C02 / C11 statements restated for the functions REGENERATED FROM THE HEADERS
   (tail_vector::match / prefix_match / decode, code_table::get_code / get_char, trie::lookup with its
   variant dispatch): what the code the headers contain today returns on the structures the modelled builder
   produces. *)
From X Require Import Base Arr Consts BitToolsSpec BitToolsGen BitVector CompactVector Dac Tail Trie Spec Wf Builder
  AccessLib AccessGen AccessDispatch AccessTrieGen Iface IfaceDac IfaceQuery IfaceBuild IfaceAccess IfaceAccessTrie
  AccessFacts AccessDacFacts AccessTailFacts AccessTrieFacts All AllBuild AllAccess.
From Coq Require Import Lia.
Local Open Scope N_scope.

Theorem trie_lookup_refines : TrieLookupRef.
Proof. exact (trie_lookup_ref bv_get_ref bv_rank_ref bc8_api bc16_api bc7_api bc15_api tail_match_ref ct_ref). Qed.
Theorem assembled_shape : AssembleShape.
Proof. exact (assemble_shape bc_shape tail_thm). Qed.

(* ---- trie::lookup ---- *)
Theorem src_lookup : forall v L P K, wf_for v L P K ->
  forall q, bytes_ok q = true -> lenN q < 2^64 ->
    trg_lookup P q = Ok (lk P q) /\ (lk P q <> None <-> spec_member K q = true).
Proof.
  intros v L P K Hwf q Hq Hl. destruct (lookup_thm v L P K Hwf) as (A & _ & B). split; [|apply B; exact Hq].
  apply trie_lookup_refines; [eapply assembled_shape; exact Hwf|exact Hq|exact Hl|apply A; exact Hq].
Qed.

Theorem src_headline_lookup : forall v tbl K req, valid_keys K = true -> small_keys K -> perm_okb tbl = true ->
  exists P, build v tbl K req = Ok P /\
  forall q, bytes_ok q = true -> lenN q < 2^64 ->
    trg_lookup P q = Ok (lk P q) /\ (lk P q <> None <-> spec_member K q = true).
Proof.
  intros v tbl K req Hv Hs Hp. destruct (build_wf_thm v tbl K req Hv Hs Hp) as (L & P & _ & HP & Hwf & _).
  exists P. split; [exact HP|]. exact (src_lookup v L P K Hwf).
Qed.

(* ---- tail_vector ---- *)
Theorem src_tail : forall bin (sufs : list suffix),
  Forall (fun sn => suf_ok bin (fst sn)) sufs -> NoDup (map snd sufs) ->
  fold_right (fun sn acc => lenN (fst sn) + 1 + acc) 1 sufs < 2^60 ->
  exists T asg, tail_complete bin sufs = Ok (T, asg) /\
    tvg_bin_mode T = bin /\ 1 <= tvg_size T /\
    (forall q, Forall (fun b => b < 256) q -> lenN q < 2^64 ->
       tvg_match T q 0 = Ok (match q with [] => true | _ => false end) /\
       tvg_prefix_match T q 0 = Ok (Some 0)) /\
    tvg_decode T 0 = Ok [] /\
    forall s npos, In (s, npos) sufs ->
      exists tpos, In (npos, tpos) asg /\ tpos <> 0 /\ tpos < tvg_size T /\
        (forall tpos', In (npos, tpos') asg -> tpos' = tpos) /\
        tvg_decode T tpos = Ok s /\
        forall q, Forall (fun b => b < 256) q -> lenN q < 2^64 ->
          tvg_match T q tpos = Ok (key_eqb q s) /\
          tvg_prefix_match T q tpos = Ok (if is_prefixb s q then Some (lenN s) else None).
Proof.
  intros bin sufs H1 H2 H3.
  destruct (tail_thm bin sufs H1 H2 H3) as (T & asg & Hc & Hb & Hs1 & Hs2 & H0 & Hd0 & _ & Hall).
  assert (Hsz : alen (tv_chars T) < 2 ^ 64).
  { unfold tv_size in Hs2. assert (2 ^ 60 < 2 ^ 64) by (apply N.pow_lt_mono_r; lia). lia. }
  exists T, asg. split; [exact Hc|]. split; [exact Hb|]. split; [exact Hs1|]. split; [|split].
  - intros q Hq Hl. destruct (H0 q Hq) as (M & PM). split.
    + apply tail_match_ref; [split; assumption|exact M].
    + apply tail_prefix_ref; [split; assumption|exact PM].
  - apply tail_decode_ref; [exact Hsz|exact Hd0].
  - intros s npos Hin. destruct (Hall s npos Hin) as (tpos & A1 & A2 & A3 & A4 & A5 & A6).
    exists tpos. split; [exact A1|]. split; [exact A2|]. split; [exact A3|]. split; [exact A4|]. split.
    + apply tail_decode_ref; [exact Hsz|exact A5].
    + intros q Hq Hl. destruct (A6 q Hq) as (M & PM). split.
      * apply tail_match_ref; [split; assumption|exact M].
      * apply tail_prefix_ref; [split; assumption|exact PM].
Qed.

(* ---- trie::decode ---- *)
From X Require Import AccessDecodeFacts.
Theorem trie_decode_refines : TrieDecodeRef.
Proof. exact (trie_decode_ref bv_select_ref bc8_api bc16_api bc7_api bc15_api tail_decode_ref ct_ref). Qed.

Theorem src_decode : forall v L P K, wf_for v L P K ->
  trg_num_keys P = lenN K /\
  (forall k i out0, lk P k = Some i -> i < 2^64 -> trg_decode P i out0 = Ok k) /\
  (forall i out0, lenN K <= i -> i < 2^64 -> trg_decode P i out0 = Ok []).
Proof.
  intros v L P K Hwf. destruct (decode_thm v L P K Hwf) as (A & B & C).
  pose proof (assembled_shape v L P K Hwf) as Hs.
  split; [exact A|]. split.
  - intros k i out0 Hk Hi. apply trie_decode_refines; [exact Hs|exact Hi|exact (B k i Hk)].
  - intros i out0 Hi Hb. apply trie_decode_refines; [exact Hs|exact Hb|exact (C i Hi)].
Qed.

(* ---- trie::next_prefix (the common-prefix iterator) ---- *)
From X Require Import AccessPrefixFacts.
Theorem pfx_calls_refines : PfxCallsRef.
Proof. exact (pfx_calls_ref bv_get_ref bv_rank_ref bc8_api bc16_api bc7_api bc15_api tail_prefix_ref ct_ref). Qed.

Theorem src_prefix : forall v L P K, wf_for v L P K -> forall q, bytes_ok q = true -> lenN q < 2^64 ->
  forall n, pfx_calls_g P (mk_prefix q) n = Ok (abs_calls (with_ids P (spec_prefixes K q)) n).
Proof.
  intros v L P K Hwf q Hq Hl n. destruct (prefix_thm v L P K Hwf q Hq) as (A & _).
  apply pfx_calls_refines; [eapply assembled_shape; exact Hwf|exact Hq|exact Hl|apply A].
Qed.

Theorem src_headline_prefix : forall v tbl K req, valid_keys K = true -> small_keys K -> perm_okb tbl = true ->
  exists P, build v tbl K req = Ok P /\ forall q, bytes_ok q = true -> lenN q < 2^64 ->
  forall n, pfx_calls_g P (mk_prefix q) n = Ok (abs_calls (with_ids P (spec_prefixes K q)) n).
Proof.
  intros v tbl K req Hv Hs Hp. destruct (build_wf_thm v tbl K req Hv Hs Hp) as (L & P & _ & HP & Hwf & _).
  exists P. split; [exact HP|]. exact (src_prefix v L P K Hwf).
Qed.

(* ---- trie::next_predictive (the predictive / enumerating iterator) ---- *)
From X Require Import AccessPredictiveFacts AccessSizeFacts.
Theorem pred_calls_refines : forall P q n r, trie_shape P -> alpha_bytes P -> alen (tv_chars (t_tail P)) < 2^62 ->
  bytes_ok q = true -> lenN q < 2^61 -> bc_num_units (t_bc P) < 2^61 ->
  N.of_nat n * (bc_num_units (t_bc P) + 2) < 2^61 ->
  pred_calls P (mk_predictive q) n = Ok r -> pred_calls_g P (mk_predictive q) n = Ok r.
Proof. exact (pred_calls_ref_bounded bv_get_ref bv_rank_ref bc8_api bc16_api bc7_api bc15_api tail_decode_ref ct_ref). Qed.

(* n advances of a fresh regenerated iterator; the bound on n only excludes runs that would take 2^61 search steps *)
Theorem src_predictive : forall v L P K, wf_for v L P K -> forall q n, bytes_ok q = true -> lenN q < 2^61 ->
  N.of_nat n * (bc_num_units (t_bc P) + 2) < 2^61 ->
  pred_calls_g P (mk_predictive q) n = Ok (abs_calls (with_ids P (spec_completions K q)) n).
Proof.
  intros v L P K Hwf q n Hq Hl Hn. destruct (predictive_thm v L P K Hwf q Hq) as (A & _).
  pose proof (assembled_tail_small v L P K Hwf) as Ht. pose proof (assembled_units_small v L P K Hwf) as Hu.
  assert (2 ^ 60 < 2 ^ 62) by (apply N.pow_lt_mono_r; lia).
  assert (2 ^ 56 < 2 ^ 61) by (apply N.pow_lt_mono_r; lia).
  apply pred_calls_refines.
  all: first [ exact (assembled_shape v L P K Hwf) | exact (assemble_alpha_bytes v L P K Hwf) | apply A | assumption | lia ].
Qed.

(* enumeration = the predictive iterator on the empty query *)
Theorem src_enumerate : forall v L P K, wf_for v L P K -> forall n,
  N.of_nat n * (bc_num_units (t_bc P) + 2) < 2^61 ->
  pred_calls_g P (mk_predictive []) n = Ok (abs_calls (with_ids P K) n).
Proof.
  intros v L P K Hwf n Hn.
  assert (E : pred_calls P (mk_predictive []) n = Ok (abs_calls (with_ids P K) n)) by (apply (enumerate_calls_thm v L P K Hwf)).
  pose proof (assembled_tail_small v L P K Hwf) as Ht. pose proof (assembled_units_small v L P K Hwf) as Hu.
  assert (2 ^ 60 < 2 ^ 62) by (apply N.pow_lt_mono_r; lia).
  assert (2 ^ 56 < 2 ^ 61) by (apply N.pow_lt_mono_r; lia).
  apply pred_calls_refines.
  all: first [ exact (assembled_shape v L P K Hwf) | exact (assemble_alpha_bytes v L P K Hwf) | exact E | reflexivity
             | assumption | lia | (unfold lenN; cbn; lia) ].
Qed.
