(* AllBuild.v: assembly of the construction theorems (for all valid K, not only certificate-checked ones). *)
From X Require Import Base Arr Dac Trie Spec Wf Iface IfaceDac IfaceQuery IfaceBuild Builder SerialFacts
  All BuilderFacts AssembleFacts.
Local Open Scope N_scope.

Theorem build_thm : BuildSpec.        Proof. exact build_spec. Qed.
Theorem reject_thm : RejectSpec.      Proof. exact reject_spec. Qed.
Theorem assemble_thm : AssembleSpec.  Proof. exact (assemble_spec bv_build_thm bc_thm tail_thm). Qed.
Theorem assemble_fits_thm : forall v L P K, wf_for v L P K -> trie_fits v P.
Proof. exact (assemble_fits tail_thm). Qed.

(* construction succeeds and yields a certificate-checked dictionary *)
Theorem build_wf_thm : forall v tbl K req,
  valid_keys K = true -> small_keys K -> perm_okb tbl = true ->
  exists L P, build_logical v tbl K req = Ok L /\ build v tbl K req = Ok P /\ wf_for v L P K /\
              lg_bin L = spec_bin_mode req K.
Proof.
  intros v tbl K req Hv Hs Hp.
  destruct (build_thm v tbl K req Hv Hs Hp) as (L & HL & Hwf & Hbin).
  destruct (assemble_thm v L K Hwf) as (P & HP).
  exists L, P. split; [exact HL|]. split.
  - unfold build. rewrite HL. exact HP.
  - split; [split; assumption|exact Hbin].
Qed.

(* ---- never a Fault (memory safety of the modelled logic): every public query on a dictionary with
   certificate-checked content returns Ok, for every byte string / every id ---- *)
Theorem no_fault_thm : forall v L P K, wf_for v L P K ->
  (forall q, bytes_ok q = true -> exists r, lookup P q = Ok r) /\
  (forall id, exists k, decode P id = Ok k) /\
  (forall q, bytes_ok q = true -> exists l, prefix_search P q = Ok l) /\
  (forall q, bytes_ok q = true -> exists l, predictive_search P q = Ok l) /\
  (exists l, enumerate P = Ok l) /\
  (forall q n, bytes_ok q = true -> exists l, pfx_calls P (mk_prefix q) n = Ok l) /\
  (forall q n, bytes_ok q = true -> exists l, pred_calls P (mk_predictive q) n = Ok l).
Proof.
  intros v L P K H. repeat split.
  - intros q Hq. destruct (lookup_thm v L P K H) as (A & _). eexists. apply A. exact Hq.
  - intros id. eexists. apply (decode_total_thm v L P K H).
  - intros q Hq. destruct (prefix_thm v L P K H q Hq) as (_ & A). eexists. exact A.
  - intros q Hq. destruct (predictive_thm v L P K H q Hq) as (_ & A). eexists. exact A.
  - eexists. apply (enumerate_thm v L P K H).
  - intros q n Hq. destruct (prefix_thm v L P K H q Hq) as (A & _). eexists. apply A.
  - intros q n Hq. destruct (predictive_thm v L P K H q Hq) as (A & _). eexists. apply A.
Qed.

(* histories without the shape premise: assembled dictionaries fit *)
Theorem history_wf_thm : forall v L P K, wf_for v L P K ->
  forall ops aouts ast', History.arun K (lk P) [] ops = Some (ast', aouts) ->
  (forall q, In (History.HLookup q) ops -> bytes_ok q = true) ->
  (forall s q, In (History.HMkPrefix s q) ops -> bytes_ok q = true) ->
  (forall s q, In (History.HMkPred s q) ops -> bytes_ok q = true) ->
  exists st', History.hrun v (History.mkH P [] []) ops = Ok (st', aouts) /\ History.h_trie st' = P.
Proof. intros v L P K H. exact (history_thm v L P K H (assemble_fits_thm v L P K H)). Qed.

(* round trip of a built dictionary *)
Theorem built_roundtrip_thm : forall v L P K, wf_for v L P K ->
  Serial.load v (Serial.save v P) = Ok P /\ (forall r, Serial.mmap v (Serial.save v P ++ r) = Ok P) /\
  lenN (Serial.save v P) = Serial.memory_in_bytes v P.
Proof.
  intros v L P K H. pose proof (assemble_fits_thm v L P K H) as F. split; [|split].
  - apply load_save; exact F.
  - intros r. apply mmap_save; exact F.
  - apply save_length; exact F.
Qed.
