(* AllBuild.v: assembly of the construction theorems (for all valid K, not only certificate-checked ones). *)
From X Require Import Base Arr Dac Trie Spec Wf Iface IfaceDac IfaceQuery IfaceBuild Builder SerialFacts
  All BuilderFacts AssembleFacts.
Local Open Scope N_scope.

Theorem build_thm : BuildSpec.        Proof. exact build_spec. Qed.
Theorem reject_thm : RejectSpec.      Proof. exact reject_spec. Qed.
Theorem assemble_thm : AssembleSpec.  Proof. exact (assemble_spec bv_build_thm bc_thm tail_thm). Qed.
Theorem assemble_fits_thm : forall v L P K, wf_for v L P K -> trie_fits v P.
Proof. exact (assemble_fits tail_thm). Qed.

(* construction succeeds and yields a certificate-checked dictionary *)
Theorem build_wf_thm : forall v tbl K req,
  valid_keys K = true -> small_keys K -> perm_okb tbl = true ->
  exists L P, build_logical v tbl K req = Ok L /\ build v tbl K req = Ok P /\ wf_for v L P K /\
              lg_bin L = spec_bin_mode req K.
Proof.
  intros v tbl K req Hv Hs Hp.
  destruct (build_thm v tbl K req Hv Hs Hp) as (L & HL & Hwf & Hbin).
  destruct (assemble_thm v L K Hwf) as (P & HP).
  exists L, P. split; [exact HL|]. split.
  - unfold build. rewrite HL. exact HP.
  - split; [split; assumption|exact Hbin].
Qed.

(* ---- never a Fault (memory safety of the modelled logic): every public query on a dictionary with
   certificate-checked content returns Ok, for every byte string / every id ---- *)
Theorem no_fault_thm : forall v L P K, wf_for v L P K ->
  (forall q, bytes_ok q = true -> exists r, lookup P q = Ok r) /\
  (forall id, exists k, decode P id = Ok k) /\
  (forall q, bytes_ok q = true -> exists l, prefix_search P q = Ok l) /\
  (forall q, bytes_ok q = true -> exists l, predictive_search P q = Ok l) /\
  (exists l, enumerate P = Ok l) /\
  (forall q n, bytes_ok q = true -> exists l, pfx_calls P (mk_prefix q) n = Ok l) /\
  (forall q n, bytes_ok q = true -> exists l, pred_calls P (mk_predictive q) n = Ok l).
Proof.
  intros v L P K H. repeat split.
  - intros q Hq. destruct (lookup_thm v L P K H) as (A & _). eexists. apply A. exact Hq.
  - intros id. eexists. apply (decode_total_thm v L P K H).
  - intros q Hq. destruct (prefix_thm v L P K H q Hq) as (_ & A). eexists. exact A.
  - intros q Hq. destruct (predictive_thm v L P K H q Hq) as (_ & A). eexists. exact A.
  - eexists. apply (enumerate_thm v L P K H).
  - intros q n Hq. destruct (prefix_thm v L P K H q Hq) as (A & _). eexists. apply A.
  - intros q n Hq. destruct (predictive_thm v L P K H q Hq) as (A & _). eexists. apply A.
Qed.

(* histories without the shape premise: assembled dictionaries fit *)
Theorem history_wf_thm : forall v L P K, wf_for v L P K ->
  forall ops aouts ast', History.arun K (lk P) [] ops = Some (ast', aouts) ->
  (forall q, In (History.HLookup q) ops -> bytes_ok q = true) ->
  (forall s q, In (History.HMkPrefix s q) ops -> bytes_ok q = true) ->
  (forall s q, In (History.HMkPred s q) ops -> bytes_ok q = true) ->
  exists st', History.hrun v (History.mkH P [] []) ops = Ok (st', aouts) /\ History.h_trie st' = P.
Proof. intros v L P K H. exact (history_thm v L P K H (assemble_fits_thm v L P K H)). Qed.

(* round trip of a built dictionary *)
Theorem built_roundtrip_thm : forall v L P K, wf_for v L P K ->
  Serial.load v (Serial.save v P) = Ok P /\ (forall r, Serial.mmap v (Serial.save v P ++ r) = Ok P) /\
  lenN (Serial.save v P) = Serial.memory_in_bytes v P.
Proof.
  intros v L P K H. pose proof (assemble_fits_thm v L P K H) as F. split; [|split].
  - apply load_save; exact F.
  - intros r. apply mmap_save; exact F.
  - apply save_length; exact F.
Qed.

(* ---- headline forms: for EVERY valid key list (any variant, any requested mode, any permutation table) ---- *)
Section Headline.
Variables (v : Dac.variant) (tbl : list N) (K : list key) (req : bool).
Hypothesis Hvalid : valid_keys K = true.
Hypothesis Hsmall : small_keys K.
Hypothesis Hperm : perm_okb tbl = true.

Theorem headline_ids : exists P, build v tbl K req = Ok P /\
  id_assignment K (lk P) /\ t_num_keys P = lenN K /\
  (forall k i, lk P k = Some i -> decode P i = Ok k) /\ (forall i, lenN K <= i -> decode P i = Ok []).
Proof.
  destruct (build_wf_thm v tbl K req Hvalid Hsmall Hperm) as (L & P & _ & HP & Hwf & _).
  exists P. split; [exact HP|].
  destruct (lookup_thm v L P K Hwf) as (_ & Hid & _). destruct (decode_thm v L P K Hwf) as (Hn & Hd & He).
  split; [exact Hid|]. split; [exact Hn|]. split; [exact Hd|exact He].
Qed.

Theorem headline_lookup : exists P, build v tbl K req = Ok P /\
  forall q, bytes_ok q = true -> lookup P q = Ok (lk P q) /\ (lk P q <> None <-> spec_member K q = true).
Proof.
  destruct (build_wf_thm v tbl K req Hvalid Hsmall Hperm) as (L & P & _ & HP & Hwf & _).
  exists P. split; [exact HP|]. intros q Hq.
  destruct (lookup_thm v L P K Hwf) as (A & _ & B). split; [apply A|apply B]; exact Hq.
Qed.

Theorem headline_enumerate : exists P, build v tbl K req = Ok P /\ enumerate P = Ok (with_ids P K) /\
  forall m, pred_calls P (mk_predictive []) m = Ok (abs_calls (with_ids P K) m).
Proof.
  destruct (build_wf_thm v tbl K req Hvalid Hsmall Hperm) as (L & P & _ & HP & Hwf & _).
  exists P. split; [exact HP|]. split; [exact (enumerate_thm v L P K Hwf)|exact (enumerate_calls_thm v L P K Hwf)].
Qed.

Theorem headline_prefix : exists P, build v tbl K req = Ok P /\ forall q, bytes_ok q = true ->
  (forall n, pfx_calls P (mk_prefix q) n = Ok (abs_calls (with_ids P (spec_prefixes K q)) n)) /\
  prefix_search P q = Ok (with_ids P (spec_prefixes K q)).
Proof.
  destruct (build_wf_thm v tbl K req Hvalid Hsmall Hperm) as (L & P & _ & HP & Hwf & _).
  exists P. split; [exact HP|]. exact (prefix_thm v L P K Hwf).
Qed.

Theorem headline_predictive : exists P, build v tbl K req = Ok P /\ forall q, bytes_ok q = true ->
  (forall n, pred_calls P (mk_predictive q) n = Ok (abs_calls (with_ids P (spec_completions K q)) n)) /\
  predictive_search P q = Ok (with_ids P (spec_completions K q)).
Proof.
  destruct (build_wf_thm v tbl K req Hvalid Hsmall Hperm) as (L & P & _ & HP & Hwf & _).
  exists P. split; [exact HP|]. exact (predictive_thm v L P K Hwf).
Qed.

Theorem headline_stats : exists P, build v tbl K req = Ok P /\
  t_num_keys P = lenN K /\ t_max_length P = spec_max_length K /\ t_alphabet_size P = lenN (spec_alphabet K) /\
  t_bin_mode P = spec_bin_mode req K /\
  t_num_nodes P + t_num_free_units P = t_num_units P /\ t_num_nodes P = spec_mp_nodes K /\ 1 <= t_tail_length P.
Proof.
  destruct (build_wf_thm v tbl K req Hvalid Hsmall Hperm) as (L & P & _ & HP & Hwf & Hbin).
  exists P. split; [exact HP|].
  destruct (stats_thm v L P K Hwf) as (A & B & C & D & E & F).
  pose proof (ph_bin L P (phys_thm v L P K Hwf)) as G. rewrite Hbin in G.
  split; [exact A|]. split; [exact B|]. split; [exact C|]. split; [exact G|]. split; [exact D|]. split; [exact E|exact F].
Qed.

Theorem headline_roundtrip : exists P, build v tbl K req = Ok P /\
  Serial.load v (Serial.save v P) = Ok P /\ (forall r, Serial.mmap v (Serial.save v P ++ r) = Ok P) /\
  lenN (Serial.save v P) = Serial.memory_in_bytes v P.
Proof.
  destruct (build_wf_thm v tbl K req Hvalid Hsmall Hperm) as (L & P & _ & HP & Hwf & _).
  exists P. split; [exact HP|]. exact (built_roundtrip_thm v L P K Hwf).
Qed.
End Headline.
