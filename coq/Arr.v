(* Arr.v: arrays.  [arr] = immutable array (the C++ immutable_vector / std::array): it carries the
   element list (what theorems speak about) and a PositiveMap index built from it (what execution uses).
   [marr] = growable mutable array used by the builders (std::vector). Model only; lemmas in ArrFacts.v *)
From Coq Require Import FMapPositive.
From X Require Import Base.
Local Open Scope N_scope.

Module PM := PositiveMap.

Section Arr.
Context {A : Type}.

Fixpoint map_from (p : positive) (l : list A) : PM.t A :=
  match l with
  | [] => PM.empty A
  | x :: t => PM.add p x (map_from (Pos.succ p) t)
  end.

Record arr := mkArr { alen : N; alist : list A; amap : PM.t A }.

Definition of_list (l : list A) : arr := mkArr (N.of_nat (length l)) l (map_from 1%positive l).
Definition aempty : arr := of_list [].
Definition arr_wf (a : arr) : Prop := a = of_list (alist a).

Definition get (a : arr) (i : N) : option A :=
  if i <? alen a then PM.find (N.succ_pos i) (amap a) else None.
Definition aget (a : arr) (i : N) : res A :=
  match get a i with Some x => Ok x | None => Fault OobArr end.

(* growable arrays *)
Record marr := mkM { mlen : N; mdata : PM.t A }.
Definition mempty : marr := mkM 0 (PM.empty A).
Definition mget (a : marr) (i : N) : res A :=
  if i <? mlen a then
    match PM.find (N.succ_pos i) (mdata a) with Some x => Ok x | None => Fault OobArr end
  else Fault OobArr.
Definition mset (a : marr) (i : N) (x : A) : res marr :=
  if i <? mlen a then Ok (mkM (mlen a) (PM.add (N.succ_pos i) x (mdata a))) else Fault OobArr.
Definition mpush (a : marr) (x : A) : marr :=
  mkM (mlen a + 1) (PM.add (N.succ_pos (mlen a)) x (mdata a)).
Definition m_of_list (l : list A) : marr := fold_left mpush l mempty.
Definition m_to_list (a : marr) : list A :=
  flat_map (fun n => match PM.find (N.succ_pos (N.of_nat n)) (mdata a) with Some x => [x] | None => [] end)
           (seq 0 (N.to_nat (mlen a))).
End Arr.
Arguments arr : clear implicits.
Arguments marr : clear implicits.

(* list helpers shared by the model *)
Fixpoint upd {A} (l : list A) (i : nat) (f : A -> A) : option (list A) :=
  match l, i with
  | x :: t, O => Some (f x :: t)
  | x :: t, S j => match upd t j f with Some t' => Some (x :: t') | None => None end
  | [], _ => None
  end.

Definition nthN {A} (l : list A) (i : N) : option A := nth_error l (N.to_nat i).
Definition lenN {A} (l : list A) : N := N.of_nat (length l).
