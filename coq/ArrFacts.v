(* ArrFacts.v: lemmas about Arr.v *)
From Coq Require Import FMapPositive Lia Arith PeanoNat.
From X Require Import Base Arr.
Local Open Scope N_scope.

Section Facts.
Context {A : Type}.

Lemma succ_pos_add (i : N) : N.succ_pos (i + 1) = Pos.succ (N.succ_pos i).
Proof. destruct i; simpl; try reflexivity. rewrite Pos.add_1_r. reflexivity. Qed.

Lemma map_from_find (l : list A) : forall p q,
  PM.find q (map_from p l) =
  if (p <=? q)%positive then nth_error l (Pos.to_nat q - Pos.to_nat p) else None.
Proof.
  induction l as [|x t IH]; intros p q; cbn [map_from].
  - rewrite PM.gempty. destruct (p <=? q)%positive; [destruct (Pos.to_nat q - Pos.to_nat p)%nat|]; reflexivity.
  - destruct (Pos.eq_dec q p) as [->|Hne].
    + rewrite PM.gss. rewrite Pos.leb_refl. rewrite Nat.sub_diag. reflexivity.
    + rewrite PM.gso by exact Hne. rewrite IH.
      destruct (Pos.leb_spec p q) as [H1|H1]; destruct (Pos.leb_spec (Pos.succ p) q) as [H2|H2]; try lia.
      * replace (Pos.to_nat q - Pos.to_nat p)%nat with (S (Pos.to_nat q - Pos.to_nat (Pos.succ p)))%nat by lia.
        reflexivity.
      * reflexivity.
Qed.

Lemma alen_of_list (l : list A) : alen (of_list l) = N.of_nat (length l).
Proof. reflexivity. Qed.
Lemma alist_of_list (l : list A) : alist (of_list l) = l.
Proof. reflexivity. Qed.

Lemma get_of_list (l : list A) (i : N) : get (of_list l) i = nth_error l (N.to_nat i).
Proof.
  unfold get, of_list; cbn [alen amap].
  destruct (N.ltb_spec i (N.of_nat (length l))) as [H|H].
  - rewrite map_from_find. destruct (Pos.leb_spec 1 (N.succ_pos i)); [|lia].
    f_equal. destruct i; simpl; lia.
  - symmetry. apply nth_error_None. lia.
Qed.

Lemma aget_of_list (l : list A) (i : N) :
  aget (of_list l) i = match nth_error l (N.to_nat i) with Some x => Ok x | None => Fault OobArr end.
Proof. unfold aget. rewrite get_of_list. reflexivity. Qed.

Lemma aget_of_list_ok (l : list A) (i : N) (d : A) :
  i < N.of_nat (length l) -> aget (of_list l) i = Ok (nth (N.to_nat i) l d).
Proof.
  intros H. rewrite aget_of_list.
  destruct (nth_error l (N.to_nat i)) eqn:E.
  - f_equal. symmetry. apply nth_error_nth. exact E.
  - apply nth_error_None in E. lia.
Qed.

Lemma of_list_inj (l1 l2 : list A) : of_list l1 = of_list l2 -> l1 = l2.
Proof. intros H. apply (f_equal alist) in H. exact H. Qed.

Lemma arr_wf_of_list (l : list A) : arr_wf (of_list l).
Proof. reflexivity. Qed.

Lemma arr_wf_get (a : arr A) (i : N) : arr_wf a -> get a i = nth_error (alist a) (N.to_nat i).
Proof. intros H. rewrite H at 1. apply get_of_list. Qed.

(* ---- growable arrays ---- *)
Definition mwf (a : marr A) : Prop :=
  forall i, i < mlen a -> exists x, PM.find (N.succ_pos i) (mdata a) = Some x.

Lemma succ_pos_inj i j : N.succ_pos i = N.succ_pos j -> i = j.
Proof.
  intros H. assert (E : N.pos (N.succ_pos i) = N.pos (N.succ_pos j)) by (rewrite H; reflexivity).
  rewrite !N.succ_pos_spec in E. lia.
Qed.

Lemma mget_mset_same (a : marr A) i x a' : mset a i x = Ok a' -> mget a' i = Ok x.
Proof.
  unfold mset, mget. destruct (N.ltb_spec i (mlen a)); [|discriminate].
  intros H0; inversion H0; subst; cbn [mlen mdata].
  destruct (N.ltb_spec i (mlen a)); [|lia]. rewrite PM.gss. reflexivity.
Qed.
Lemma mget_mset_other (a : marr A) i j x a' : mset a i x = Ok a' -> i <> j -> mget a' j = mget a j.
Proof.
  unfold mset, mget. destruct (N.ltb_spec i (mlen a)); [|discriminate].
  intros H0 Hne; inversion H0; subst; cbn [mlen mdata].
  rewrite PM.gso; [reflexivity|]. intros E. apply succ_pos_inj in E. congruence.
Qed.
Lemma mlen_mset (a : marr A) i x a' : mset a i x = Ok a' -> mlen a' = mlen a.
Proof. unfold mset. destruct (i <? mlen a); [|discriminate]. intros H; inversion H; reflexivity. Qed.
Lemma mset_ok (a : marr A) i x : i < mlen a -> exists a', mset a i x = Ok a'.
Proof. intros H. unfold mset. destruct (N.ltb_spec i (mlen a)); [eauto|lia]. Qed.

Lemma mlen_mpush (a : marr A) x : mlen (mpush a x) = mlen a + 1.
Proof. reflexivity. Qed.
Lemma mget_mpush_last (a : marr A) x : mget (mpush a x) (mlen a) = Ok x.
Proof.
  unfold mget, mpush; cbn [mlen mdata]. destruct (N.ltb_spec (mlen a) (mlen a + 1)); [|lia].
  rewrite PM.gss. reflexivity.
Qed.
Lemma mget_mpush_old (a : marr A) x i : i < mlen a -> mget (mpush a x) i = mget a i.
Proof.
  intros H. unfold mget, mpush; cbn [mlen mdata].
  destruct (N.ltb_spec i (mlen a + 1)); [|lia]. destruct (N.ltb_spec i (mlen a)); [|lia].
  rewrite PM.gso; [reflexivity|]. intros E. apply succ_pos_inj in E. lia.
Qed.
End Facts.
