(* AssembleFacts.v: [assemble] on certificate-checked logical content.
   Main results (Section Assemble, end of file; hypotheses are the interface statements of Iface*.v):
     assemble_spec  : BvBuildSpec -> BcSpec -> TailSpec -> AssembleSpec
                      lwf_b L K = true -> exists P, assemble v L = Ok P
     assemble_fits  : TailSpec -> forall v L P K, wf_for v L P K -> trie_fits v P
                      every field of the assembled structure fits its C++ type (SerialFacts.trie_fits),
                      so save/load/mmap round-trip on it (corollary assemble_load_save).
   Range lemmas about the builders' outputs, proved from the definitions (no interface statement needed):
     bv_build_fits / bv_of_bits_fits   bit vector: words, rank hints, select hints, size, ones
     cv_build_fits / links_build_fits  compact vector
     bc8_build_fits / bc7_build_fits / bc_build_fits   BASE/CHECK vectors of the four variants
     tail_complete_fits                suffix store
     perm_okb_bytes, spec_alphabet_fits, lwf_maxlen (longest key < 2^56 + 2^60), lwf_nkeys, ct_fits_logical. *)
From Coq Require Import FMapPositive ZArith Lia ZifyN ZifyBool ZifyNat Arith PeanoNat Permutation.
From X Require Import Base Arr ArrFacts Consts BitToolsSpec BitToolsGen BitVector CompactVector Dac Tail Trie Serial Spec
  Iface IfaceDac Wf IfaceQuery IfaceBuild BitVectorFacts CompactFacts DacFacts TailFacts PhysFacts LookupFacts SerialFacts.
Local Open Scope N_scope.
Ltac Zify.zify_post_hook ::= Z.div_mod_to_equations.

Arguments N.mul : simpl never.
Arguments N.add : simpl never.
Arguments N.sub : simpl never.
Arguments N.shiftl : simpl never.
Arguments N.shiftr : simpl never.
Arguments N.pow : simpl never.
Arguments N.div : simpl never.
Arguments N.modulo : simpl never.
Arguments N.land : simpl never.
Arguments N.lor : simpl never.
Arguments N.lxor : simpl never.
Arguments N.ones : simpl never.
Arguments N.testbit : simpl never.

Definition lt64 (x : N) : Prop := x < 2 ^ 64.

(* ------------------------------------------------------------------ arrays *)
Lemma arr_fits_of_list w l : lenN l < 2 ^ 64 -> Forall (fun x => x < bnd w) l -> arr_fits w (of_list l).
Proof.
  intros H1 H2. split; [apply arr_wf_of_list|]. split.
  - rewrite alen_of_list. exact H1.
  - exact H2.
Qed.
Lemma arr_fits_empty w : arr_fits w aempty.
Proof. apply arr_fits_of_list; [reflexivity|constructor]. Qed.
Lemma arr_fits8_of_list l : lenN l < 2 ^ 64 -> Forall lt64 l -> arr_fits 8 (of_list l).
Proof. intros H1 H2. apply arr_fits_of_list; [exact H1|]. rewrite bnd8. exact H2. Qed.

Lemma lor_lt64 a b : a < 2 ^ 64 -> b < 2 ^ 64 -> N.lor a b < 2 ^ 64.
Proof.
  intros Ha Hb. apply CompactFacts.lt_pow2_of_bits. intros i Hi.
  rewrite N.lor_spec, (tb_high a 64 i), (tb_high b 64 i) by assumption. reflexivity.
Qed.
Lemma land_lt64_r a b : b < 2 ^ 64 -> N.land a b < 2 ^ 64.
Proof.
  intros Hb. apply CompactFacts.lt_pow2_of_bits. intros i Hi.
  rewrite N.land_spec, (tb_high b 64 i) by assumption. apply andb_false_r.
Qed.
Lemma add64_lt a b : add64 a b < 2 ^ 64. Proof. apply CompactFacts.w64_lt. Qed.

(* ------------------------------------------------------------------ bit vector *)
Definition rh_ok (s : rh_st) : Prop :=
  rh_ones s < 2 ^ 64 /\ rh_inblk s < 2 ^ 64 /\ rh_packed s < 2 ^ 64 /\ Forall lt64 (rh_out s).

Lemma rh_step_ok s w : rh_ok s -> rh_ok (rh_step s w) /\ (length (rh_out (rh_step s w)) <= length (rh_out s) + 2)%nat.
Proof.
  intros (H1 & H2 & H3 & H4). unfold rh_step.
  assert (Hp : (if rh_bi s =? 0 then rh_packed s else N.lor (shl64 (rh_packed s) 9) (rh_inblk s)) < 2 ^ 64).
  { destruct (rh_bi s =? 0); [exact H3|]. apply lor_lt64; [apply shl64_lt|exact H2]. }
  destruct (rh_bi s =? bv_block_size - 1); unfold rh_ok; cbn [rh_ones rh_inblk rh_packed rh_out length].
  - split; [|lia]. split; [apply add64_lt|]. split; [reflexivity|]. split; [reflexivity|].
    constructor; [apply add64_lt|]. constructor; [exact Hp|exact H4].
  - split; [|lia]. split; [apply add64_lt|]. split; [apply add64_lt|]. split; [exact Hp|exact H4].
Qed.

Lemma rh_fold_ok : forall ws s, rh_ok s ->
  rh_ok (fold_left rh_step ws s) /\ (length (rh_out (fold_left rh_step ws s)) <= length (rh_out s) + 2 * length ws)%nat.
Proof.
  induction ws as [|w ws IH]; intros s Hs; cbn [fold_left length]; [split; [exact Hs|lia]|].
  destruct (rh_step_ok s w Hs) as [H1 H2]. destruct (IH _ H1) as [H3 H4]. split; [exact H3|lia].
Qed.

Lemma rh_pad_lt : forall n p i, p < 2 ^ 64 -> i < 2 ^ 64 -> rh_pad n p i < 2 ^ 64.
Proof.
  induction n as [|n IH]; intros p i Hp Hi; cbn [rh_pad]; [exact Hp|].
  apply IH; [|exact Hi]. apply lor_lt64; [apply shl64_lt|exact Hi].
Qed.

Lemma rank_hints_fits ws :
  Forall lt64 (rank_hints_of ws) /\ (length (rank_hints_of ws) <= 2 * length ws + 4)%nat.
Proof.
  unfold rank_hints_of. cbv zeta.
  assert (H0 : rh_ok (mkRh 0 0 0 0 [0])).
  { unfold rh_ok; cbn [rh_ones rh_inblk rh_packed rh_out]. repeat split; try reflexivity.
    constructor; [reflexivity|constructor]. }
  destruct (rh_fold_ok ws _ H0) as [(H1 & H2 & H3 & H4) HL]. cbn [rh_out length] in HL.
  set (s := fold_left rh_step ws (mkRh 0 0 0 0 [0])) in *.
  pose proof (rh_pad_lt (N.to_nat (bv_block_size - rh_bi s)) _ _ H3 H2) as Hp.
  destruct (rh_bi s =? 0).
  - split; [apply Forall_rev; constructor; [exact Hp|exact H4]|]. rewrite rev_length. cbn [length]. lia.
  - split.
    + apply Forall_rev. constructor; [reflexivity|]. constructor; [exact H1|]. constructor; [exact Hp|exact H4].
    + rewrite rev_length. cbn [length]. lia.
Qed.

Lemma sel_hints_bound hints : forall n bi thr l, sel_hints_loop hints n bi thr = Ok l ->
  Forall (fun x => 2 * x <= N.max (2 * bi) (lenN hints)) l /\ lenN l + bi <= 1 + N.max bi (lenN hints / 2).
Proof.
  induction n as [|n IH]; intros bi thr l H; cbn [sel_hints_loop] in H.
  - injection H as <-. split; [constructor; [lia|constructor]|]. unfold lenN; cbn [length]. lia.
  - destruct (nthN hints (2 * (bi + 1))) as [r|] eqn:E; [|discriminate].
    assert (Hlt : 2 * (bi + 1) < lenN hints).
    { unfold nthN in E. assert (Hn : nth_error hints (N.to_nat (2 * (bi + 1))) <> None) by congruence.
      apply nth_error_Some in Hn. unfold lenN. lia. }
    assert (Hrec : forall t, sel_hints_loop hints n (bi + 1) (if thr <? r then add64 thr bv_selects_per_hint else thr) = Ok t ->
              Forall (fun x => 2 * x <= N.max (2 * bi) (lenN hints)) t /\ lenN t + bi + 1 <= 1 + N.max bi (lenN hints / 2)).
    { intros t Ht. destruct (IH _ _ _ Ht) as [F L]. split.
      - eapply Forall_impl; [|exact F]. intros x Hx. cbv beta in Hx. lia.
      - lia. }
    destruct (thr <? r).
    + apply BitVectorFacts.bind_ok_inv in H. destruct H as (t & Ht & H). injection H as <-.
      destruct (Hrec t Ht) as [F L]. split; [constructor; [lia|exact F]|].
      unfold lenN in *. cbn [length]. lia.
    + destruct (Hrec l H) as [F L]. split; [exact F|lia].
Qed.

Lemma sum_popcount_lt ws : sum_popcount ws < 2 ^ 64.
Proof.
  unfold sum_popcount.
  assert (H : forall ws a, a < 2 ^ 64 -> fold_left (fun acc w => add64 acc (popcount w)) ws a < 2 ^ 64).
  { clear ws. induction ws as [|w ws IH]; intros a Ha; cbn [fold_left]; [exact Ha|]. apply IH. apply add64_lt. }
  apply H. reflexivity.
Qed.

Lemma bv_fits_empty : bv_fits bv_empty.
Proof.
  unfold bv_fits, bv_empty; cbn [bv_size bv_ones bv_words bv_rank_hints bv_sel_hints].
  split; [reflexivity|]. split; [reflexivity|]. repeat split; apply arr_fits_empty.
Qed.

Lemma bv_build_fits b r s v :
  bb_size b < 2 ^ 64 -> Forall lt64 (bb_words b) -> lenN (bb_words b) < 2 ^ 60 ->
  bv_build b r s = Ok v -> bv_fits v.
Proof.
  intros Hsz Hw Hl H. unfold bv_build in H. cbv zeta in H.
  apply BitVectorFacts.bind_ok_inv in H. destruct H as (sh & Hsh & H). injection H as <-.
  set (rh := if r then rank_hints_of (bb_words b) else []) in *.
  assert (Hrh : Forall lt64 rh /\ lenN rh < 2 ^ 62).
  { subst rh. destruct r.
    - destruct (rank_hints_fits (bb_words b)) as [F L]. split; [exact F|]. unfold lenN in *. lia.
    - split; [constructor|reflexivity]. }
  destruct Hrh as [Frh Lrh].
  assert (Hs : Forall lt64 sh /\ lenN sh < 2 ^ 64).
  { destruct (r && s).
    - apply sel_hints_bound in Hsh. destruct Hsh as [F L]. split.
      + eapply Forall_impl; [|exact F]. intros x Hx. cbv beta in Hx. unfold lt64. lia.
      + lia.
    - injection Hsh as <-. split; [constructor|reflexivity]. }
  destruct Hs as [Fsh Lsh].
  unfold bv_fits; cbn [bv_size bv_ones bv_words bv_rank_hints bv_sel_hints].
  split; [exact Hsz|]. split; [apply sum_popcount_lt|].
  split; [apply arr_fits8_of_list; [lia|exact Hw]|].
  split; [apply arr_fits8_of_list; [lia|exact Frh]|].
  apply arr_fits8_of_list; [exact Lsh|exact Fsh].
Qed.

Lemma bv_of_bits_fits bits r s v : lenN bits < max_bits -> bv_of_bits bits r s = Ok v -> bv_fits v.
Proof.
  intros Hl H. rewrite max_bits_eq in Hl. unfold bv_of_bits in H.
  apply BitVectorFacts.bind_ok_inv in H. destruct H as (b & Eb & H).
  destruct (bvb_of_bits_inv bits) as (b' & Eb' & Hsz & Hrepr); [lia|].
  rewrite Eb in Eb'. injection Eb' as <-.
  apply (bv_build_fits b r s v); [rewrite Hsz; lia|exact (repr_forall_lt _ _ Hrepr)| |exact H].
  destruct Hrepr as [HL _]. rewrite HL. lia.
Qed.

(* ------------------------------------------------------------------ compact vector *)
Definition mall (P : N -> Prop) (a : marr N) : Prop := forall k x, PM.find k (mdata a) = Some x -> P x.

Lemma mall_add P (a : marr N) n j x : mall P a -> P x -> mall P (mkM n (PM.add j x (mdata a))).
Proof.
  intros Ha Hx k y. cbn [mdata]. destruct (Pos.eq_dec k j) as [->|Hne].
  - rewrite PM.gss. intros E. injection E as <-. exact Hx.
  - rewrite PM.gso by exact Hne. apply Ha.
Qed.

Lemma mall_mset P (a : marr N) i x a' : mall P a -> P x -> mset a i x = Ok a' -> mall P a' /\ mlen a' = mlen a.
Proof.
  intros Ha Hx H. unfold mset in H. destruct (i <? mlen a); [|discriminate]. injection H as <-.
  split; [apply mall_add; assumption|reflexivity].
Qed.

Lemma mall_mget P (a : marr N) i w : mall P a -> mget a i = Ok w -> P w.
Proof.
  intros Ha H. unfold mget in H. destruct (i <? mlen a); [|discriminate].
  destruct (PM.find (N.succ_pos i) (mdata a)) as [x|] eqn:E; [|discriminate]. injection H as <-.
  exact (Ha _ _ E).
Qed.

Lemma mall_mrmw P ch i f ch' : mall P ch -> (forall w, P w -> P (f w)) -> mrmw ch i f = Ok ch' ->
  mall P ch' /\ mlen ch' = mlen ch.
Proof.
  intros Ha Hf H. unfold mrmw in H. apply CompactFacts.bind_ok_inv in H. destruct H as (w & Ew & H).
  eapply mall_mset; [exact Ha| |exact H]. apply Hf. eapply mall_mget; eassumption.
Qed.

Lemma cv_fill_mall bits mask : mask < 2 ^ 64 -> forall vs i ch ch', mall lt64 ch ->
  cv_fill vs i bits mask ch = Ok ch' -> mall lt64 ch' /\ mlen ch' = mlen ch.
Proof.
  intros Hm. induction vs as [|v t IH]; intros i ch ch' Ha H; cbn [cv_fill] in H.
  - injection H as <-. split; [exact Ha|reflexivity].
  - cbv zeta in H.
    apply CompactFacts.bind_ok_inv in H. destruct H as (ch1 & E1 & H).
    apply CompactFacts.bind_ok_inv in H. destruct H as (ch2 & E2 & H).
    apply mall_mrmw with (P := lt64) in E1; [|exact Ha|].
    2:{ intros w _. apply lor_land_lt64; [apply not64_lt|apply shl64_lt]. }
    destruct E1 as [A1 L1].
    assert (A2 : mall lt64 ch2 /\ mlen ch2 = mlen ch1).
    { destruct (64 <? N.land (mul64 i bits) 63 + bits).
      - apply mall_mrmw with (P := lt64) in E2; [exact E2|exact A1|].
        intros w _. apply lor_land_lt64; [apply not64_lt|].
        eapply N.le_lt_trans; [apply shr64_le|]. apply land_lt64_r. exact Hm.
      - injection E2 as <-. split; [exact A1|reflexivity]. }
    destruct A2 as [A2 L2]. destruct (IH _ _ _ A2 H) as [A3 L3]. split; [exact A3|congruence].
Qed.

Lemma mall_fold_mpush P : forall l (a : marr N), mall P a -> Forall P l -> mall P (fold_left mpush l a).
Proof.
  induction l as [|x l IH]; intros a Ha Hl; cbn [fold_left]; [exact Ha|].
  inversion Hl as [|? ? Hx Hl']; subst. apply IH; [|exact Hl']. unfold mpush. apply mall_add; assumption.
Qed.

Lemma flat_map_len_le1 {A B} (f : A -> list B) : (forall a, (length (f a) <= 1)%nat) ->
  forall l, (length (flat_map f l) <= length l)%nat.
Proof.
  intros Hf. induction l as [|a l IH]; cbn [flat_map length]; [lia|]. rewrite app_length. specialize (Hf a). lia.
Qed.

Lemma m_to_list_mall P (a : marr N) : mall P a ->
  Forall P (m_to_list a) /\ (length (m_to_list a) <= N.to_nat (mlen a))%nat.
Proof.
  intros Ha. unfold m_to_list. split.
  - apply Forall_flat_map. apply Forall_forall. intros n _.
    destruct (PM.find _ (mdata a)) as [x|] eqn:E; [|constructor]. constructor; [exact (Ha _ _ E)|constructor].
  - eapply Nat.le_trans; [apply flat_map_len_le1|rewrite seq_length; lia].
    intros n. destruct (PM.find _ (mdata a)); cbn [length]; lia.
Qed.

Lemma cv_fits_empty : cv_fits cv_empty.
Proof.
  unfold cv_fits, cv_empty; cbn [cv_size cv_bits cv_mask cv_chunks].
  repeat split; try reflexivity; apply arr_fits_empty.
Qed.

Lemma mask_of_bits_lt bits : mask_of_bits bits < 2 ^ 64.
Proof.
  unfold mask_of_bits. destruct (bits <? 64); [|reflexivity].
  pose proof (shl64_lt 1 bits). lia.
Qed.

Lemma cv_build_fits vs c : lenN vs < 2 ^ 64 -> cv_build vs = Ok c -> cv_fits c.
Proof.
  intros Hl H. unfold cv_build in H. destruct vs as [|v0 vs0] eqn:Evs; [discriminate|]. rewrite <- Evs in *.
  cbv zeta in H. apply CompactFacts.bind_ok_inv in H. destruct H as (ch & Ech & H). injection H as <-.
  set (nw := shr64 (add64 (mul64 (lenN vs) (needed_bits (list_max vs))) 63) 6) in *.
  assert (Hnw : nw < 2 ^ 64).
  { subst nw. eapply N.le_lt_trans; [apply shr64_le|apply add64_lt]. }
  assert (H0 : mall lt64 (m_of_list (repeat 0 (N.to_nat nw))) /\ mlen (m_of_list (repeat 0 (N.to_nat nw))) = nw).
  { split.
    - unfold m_of_list. apply mall_fold_mpush.
      + intros k x E. cbn [mempty mdata] in E. rewrite PM.gempty in E. discriminate.
      + apply Forall_forall. intros x Hx. apply repeat_spec in Hx. subst x. reflexivity.
    - unfold m_of_list. destruct (fold_mpush_spec 0 (repeat 0 (N.to_nat nw)) mempty) as (E & _).
      rewrite E. cbn [mempty mlen]. unfold lenN. rewrite repeat_length. lia. }
  destruct H0 as [A0 L0].
  destruct (cv_fill_mall _ _ (mask_of_bits_lt _) _ _ _ _ A0 Ech) as [A1 L1].
  destruct (m_to_list_mall _ _ A1) as [F1 Len1].
  unfold cv_fits; cbn [cv_size cv_bits cv_mask cv_chunks].
  split; [exact Hl|]. split; [apply add64_lt|]. split; [apply mask_of_bits_lt|].
  apply arr_fits8_of_list; [|exact F1]. unfold lenN. lia.
Qed.

Lemma links_build_fits ls c : lenN ls < 2 ^ 64 -> links_build ls = Ok c -> cv_fits c.
Proof.
  intros Hl H. unfold links_build in H. destruct ls as [|x t] eqn:E.
  - injection H as <-. apply cv_fits_empty.
  - rewrite <- E in *. eapply cv_build_fits; eassumption.
Qed.

(* ------------------------------------------------------------------ BASE/CHECK vectors *)
Lemma pad_to_length {A} (d : A) : forall n l, length (pad_to n d l) = n.
Proof. induction n as [|n IH]; intros l; cbn [pad_to length]; [reflexivity|]. destruct l; cbn [length]; rewrite IH; reflexivity. Qed.

Lemma pad_to_Forall {A} (P : A -> Prop) (d : A) : P d -> forall n l, Forall P l -> Forall P (pad_to n d l).
Proof.
  intros Hd. induction n as [|n IH]; intros l Hl; cbn [pad_to]; [constructor|].
  destruct l as [|x t].
  - constructor; [exact Hd|]. apply IH. constructor.
  - inversion Hl; subst. constructor; [assumption|]. apply IH. assumption.
Qed.

Lemma In_firstn' {A} n (l : list A) x : In x (firstn n l) -> In x l.
Proof. intros H. rewrite <- (firstn_skipn n l). apply in_or_app. left. exact H. Qed.

Lemma leaves_bv_fits leaves v : lenN leaves < max_bits -> leaves_bv leaves = Ok v -> bv_fits v.
Proof. intros Hl H. exact (bv_of_bits_fits leaves true false v Hl H). Qed.

Lemma build_nexts_fits : forall fl nx, Forall (fun f => lenN f < max_bits) fl -> build_nexts fl = Ok nx ->
  Forall bv_fits nx.
Proof.
  induction fl as [|f t IH]; intros nx Hf H; cbn [build_nexts] in H.
  - injection H as <-. constructor.
  - inversion Hf as [|? ? Hf1 Hf2]; subst.
    apply CompactFacts.bind_ok_inv in H. destruct H as (b & Eb & H).
    apply CompactFacts.bind_ok_inv in H. destruct H as (v & Ev & H).
    apply CompactFacts.bind_ok_inv in H. destruct H as (r & Er & H). injection H as <-.
    constructor; [|apply IH; assumption].
    apply (bv_of_bits_fits f true false v Hf1). unfold bv_of_bits. rewrite Eb. exact Ev.
Qed.

Lemma lvls_fits n w : forall xs,
  Forall (fun cf => Forall (fun x => x < 2 ^ w) (fst cf) /\ (length (fst cf) <= length xs)%nat /\
                    (length (snd cf) <= length xs)%nat) (lvls n w xs).
Proof.
  induction n as [|n IH]; intros xs; [constructor|].
  destruct xs as [|x t]; [constructor|]. rewrite lvls_cons. constructor.
  - cbn [fst snd]. rewrite !map_length. split; [|lia].
    apply Forall_forall. intros y Hy. apply in_map_iff in Hy. destruct Hy as (z & <- & _). apply low_lt.
  - eapply Forall_impl; [|apply IH]. intros cf (H1 & H2 & H3). rewrite map_length in H2, H3.
    pose proof (filter_length_le (big8 w) (x :: t)). split; [exact H1|]. lia.
Qed.

Lemma bnd_cell8 w : w = 8 \/ w = 16 -> bnd (cell_bytes8 w) = 2 ^ w.
Proof. intros [-> | ->]; reflexivity. Qed.

Lemma bc8_build_fits w units leaves d : w = 8 \/ w = 16 ->
  length leaves = length units -> lenN units < 2 ^ 56 ->
  bc8_build w units leaves = Ok d -> bc8_fits w d.
Proof.
  intros Hw Hlv Hn H. rewrite bc8_build_eq in H. cbv zeta in H.
  set (maxl := N.to_nat (64 / w)) in *.
  set (vals := map (eval8 w) (entries_of units leaves 0)) in *.
  set (rest := lvls (maxl - 1) w (map (hi8 w) (filter (big8 w) vals))) in *.
  set (all := (map (low w) vals, map (big8 w) vals) :: rest) in *.
  apply CompactFacts.bind_ok_inv in H. destruct H as (nx & Enx & H).
  apply CompactFacts.bind_ok_inv in H. destruct H as (links & Elk & H).
  apply CompactFacts.bind_ok_inv in H. destruct H as (lv & Elv & H). injection H as <-.
  assert (Hmaxl : (maxl <= 8)%nat) by (subst maxl; destruct Hw as [-> | ->]; vm_compute; lia).
  assert (Hvals : length vals = (2 * length units)%nat).
  { subst vals. rewrite map_length. apply entries_length. exact Hlv. }
  assert (Hun : N.of_nat (length units) < 2 ^ 56) by exact Hn.
  assert (Hall : Forall (fun cf => Forall (fun x => x < 2 ^ w) (fst cf) /\ (length (fst cf) <= length vals)%nat /\
                    (length (snd cf) <= length vals)%nat) all).
  { subst all. constructor.
    - cbn [fst snd]. rewrite !map_length. split; [|lia].
      apply Forall_forall. intros y Hy. apply in_map_iff in Hy. destruct Hy as (z & <- & _). apply low_lt.
    - eapply Forall_impl; [|apply lvls_fits]. intros cf (H1 & H2 & H3). rewrite map_length in H2, H3.
      pose proof (filter_length_le (big8 w) vals). split; [exact H1|]. lia. }
  assert (Hrest : (length rest <= maxl - 1)%nat) by (subst rest; apply lvls_length).
  unfold bc8_fits; cbn [b8_w b8_nlev b8_frees b8_ints b8_nexts b8_links b8_leaves].
  split; [reflexivity|].
  split. { unfold lenN. assert (N.of_nat (length rest) <= 8) by lia. change (2 ^ 32) with 4294967296. lia. }
  split. { rewrite count_frees_eq. pose proof (count_free_le units 0). change (2 ^ 64) with (2 ^ 56 * 256). lia. }
  split; [apply pad_to_length|].
  split.
  { apply pad_to_Forall; [apply arr_fits_empty|].
    change (Forall (arr_fits (cell_bytes8 w)) (map (fun cf : list N * list bool => of_list (fst cf)) all)).
    apply Forall_forall. intros a Ha.
    apply in_map_iff in Ha. destruct Ha as (cf & <- & Hcf). rewrite Forall_forall in Hall.
    destruct (Hall cf Hcf) as (H1 & H2 & _). apply arr_fits_of_list.
    - unfold lenN. change (2 ^ 64) with (2 ^ 56 * 256). lia.
    - rewrite (bnd_cell8 w Hw). exact H1. }
  split; [apply pad_to_length|].
  split.
  { apply pad_to_Forall; [apply bv_fits_empty|]. eapply build_nexts_fits; [|exact Enx].
    apply Forall_forall. intros f Hf. apply in_map_iff in Hf. destruct Hf as (cf & <- & Hcf).
    apply In_firstn' in Hcf. rewrite Forall_forall in Hall. destruct (Hall cf Hcf) as (_ & _ & H3).
    rewrite max_bits_eq. unfold lenN. change (2 ^ 56) with 72057594037927936 in Hun. lia. }
  split.
  { eapply links_build_fits; [|exact Elk]. pose proof (links_length_le w units leaves).
    unfold lenN. change (2 ^ 64) with (2 ^ 56 * 256). lia. }
  eapply leaves_bv_fits; [|exact Elv]. rewrite max_bits_eq. unfold lenN. rewrite Hlv.
  change (2 ^ 56) with 72057594037927936 in Hun. lia.
Qed.

(* 7 / 15 *)
Lemma plevel_fits vb cell : forall es pos nov base c r o,
  plevel vb cell es pos nov base = (c, r, o) ->
  length c = length es /\ Forall (fun x => x < 2 ^ cell) c /\
  (length r <= length es)%nat /\ Forall (fun x => x <= nov + lenN es) r /\
  (length o <= length es)%nat /\ incl o (map val7 es).
Proof.
  induction es as [|e t IH]; intros pos nov base c r o H; cbn [plevel] in H.
  - injection H as <- <- <-. cbn [length map]. repeat split; try constructor; try lia. intros x [].
  - set (newblk := N.land pos (N.ones vb) =? 0) in *.
    set (base' := if newblk then nov else base) in *.
    set (nov' := if big7 vb e then nov + 1 else nov).
    assert (Hcall : match e with
                    | ERaw _ => plevel vb cell t (pos + 1) nov base'
                    | EVal x => if shr64 x vb =? 0 then plevel vb cell t (pos + 1) nov base'
                                else plevel vb cell t (pos + 1) (nov + 1) base'
                    end = plevel vb cell t (pos + 1) nov' base').
    { subst nov'. destruct e as [v|x]; cbn [big7]; [reflexivity|]. destruct (shr64 x vb =? 0); reflexivity. }
    rewrite Hcall in H. clear Hcall.
    destruct (plevel vb cell t (pos + 1) nov' base') as [[c' r'] o'] eqn:E.
    injection H as Hc Hr Ho.
    destruct (IH _ _ _ _ _ _ E) as (I1 & I2 & I3 & I4 & I5 & I6).
    assert (Hnov' : nov <= nov' <= nov + 1) by (subst nov'; destruct (big7 vb e); lia).
    assert (Hlen_t : lenN (e :: t) = lenN t + 1) by (unfold lenN; cbn [length]; lia).
    split; [subst c; cbn [length]; rewrite I1; reflexivity|].
    split.
    { subst c. constructor; [|exact I2]. destruct e as [v|x]; [apply low_lt|].
      destruct (shr64 x vb =? 0); apply low_lt. }
    assert (Fr' : Forall (fun x => x <= nov + lenN (e :: t)) r').
    { eapply Forall_impl; [|exact I4]. intros x Hx. cbv beta in Hx. lia. }
    split; [subst r; destruct newblk; cbn [length]; lia|].
    split.
    { subst r. destruct newblk; [constructor; [lia|exact Fr']|exact Fr']. }
    cbn [map].
    assert (Hi : incl o' (val7 e :: map val7 t)) by (apply incl_tl; exact I6).
    subst o. destruct e as [v|x]; [split; [cbn [length]; lia|exact Hi]|].
    destruct (shr64 x vb =? 0); [split; [cbn [length]; lia|exact Hi]|].
    split; [cbn [length]; lia|]. apply incl_cons; [left; reflexivity|exact Hi].
Qed.

Lemma widths7_cons vb vbs : widths7 (vb :: vbs) = N.to_nat ((vb + 1) / 8) :: widths7 vbs.
Proof. reflexivity. Qed.

Lemma plevels_fits : forall vbs es cs rs, plevels vbs es = (cs, rs) ->
  lenN es < 2 ^ 62 -> Forall (fun e => val7 e < 2 ^ 64) es ->
  Forall (fun vb => bnd (N.to_nat ((vb + 1) / 8)) = 2 ^ (vb + 1)) vbs ->
  Forall2 arr_fits (widths7 vbs) (map of_list cs) /\ length rs = length vbs /\
  Forall (arr_fits 8) (map of_list rs).
Proof.
  induction vbs as [|vb vbs IH]; intros es cs rs H Hl Hv Hb.
  - cbn [plevels] in H. injection H as <- <-. cbn [map length]. split; [|split; [reflexivity|constructor]].
    constructor; [|constructor]. apply arr_fits8_of_list.
    + unfold lenN in *. rewrite map_length. lia.
    + apply Forall_forall. intros x Hx. apply in_map_iff in Hx. destruct Hx as (e & <- & He).
      rewrite Forall_forall in Hv. specialize (Hv e He). destruct e; exact Hv.
  - apply plevels_cons in H. destruct H as (c & r & o & cs' & rs' & Hpl & -> & -> & Hrest).
    inversion Hb as [|? ? Hb1 Hb2]; subst.
    destruct (plevel_fits _ _ _ _ _ _ _ _ _ Hpl) as (P1 & P2 & P3 & P4 & P5 & P6).
    destruct (IH (map EVal o) cs' rs' Hrest) as (I1 & I2 & I3).
    + unfold lenN in *. rewrite map_length. lia.
    + apply Forall_forall. intros e He. apply in_map_iff in He. destruct He as (x & <- & Hx). cbn [val7].
      apply P6 in Hx. apply in_map_iff in Hx. destruct Hx as (e & <- & He).
      rewrite Forall_forall in Hv. exact (Hv e He).
    + exact Hb2.
    + rewrite widths7_cons. cbn [map length]. split; [|split; [congruence|]].
      * constructor; [|exact I1]. apply arr_fits_of_list; [unfold lenN in *; lia|]. rewrite Hb1. exact P2.
      * constructor; [|exact I3]. apply arr_fits8_of_list; [unfold lenN in *; lia|].
        eapply Forall_impl; [|exact P4]. intros x Hx. cbv beta in Hx. unfold lt64. lia.
Qed.

Lemma entries_val_bound units : forall leaves i0, units_ok units -> i0 + lenN units < 2 ^ 64 ->
  Forall (fun e => val7 e < 2 ^ 64) (entries_of units leaves i0).
Proof.
  unfold lenN. induction units as [|[b c] us IH]; intros leaves i0 Hok Hi; destruct leaves as [|lf ls];
    cbn [entries_of]; try constructor.
  - inversion Hok as [|? ? [Hb Hc] Hus]; subst. cbn [fst snd length] in *.
    destruct lf; cbn [val7]; [exact Hb|]. apply lxor_lt64; [assumption|lia].
  - inversion Hok as [|? ? [Hb Hc] Hus]; subst. cbn [fst snd length] in *. constructor.
    + cbn [val7]. apply lxor_lt64; [assumption|lia].
    + apply IH; [assumption|lia].
Qed.

Lemma bc7_build_fits vbs lshift units leaves d :
  Forall (fun vb => bnd (N.to_nat ((vb + 1) / 8)) = 2 ^ (vb + 1)) vbs ->
  units_ok units -> length leaves = length units -> lenN units < 2 ^ 56 ->
  bc7_build vbs lshift units leaves = Ok d -> bc7_fits vbs d.
Proof.
  intros Hb Hok Hlv Hn H. unfold bc7_build in H.
  destruct (plevels vbs (entries_of units leaves 0)) as [cs rs] eqn:Epl.
  apply CompactFacts.bind_ok_inv in H. destruct H as (links & Elk & H).
  apply CompactFacts.bind_ok_inv in H. destruct H as (lv & Elv & H). injection H as <-.
  assert (Hun : N.of_nat (length units) < 72057594037927936) by exact Hn.
  destruct (plevels_fits _ _ _ _ Epl) as (F1 & F2 & F3).
  - unfold lenN. rewrite entries_length by exact Hlv. change (2 ^ 62) with 4611686018427387904. lia.
  - apply entries_val_bound; [exact Hok|]. unfold lenN. change (2 ^ 64) with 18446744073709551616. lia.
  - exact Hb.
  - unfold bc7_fits; cbn [b7_vbits b7_frees b7_ints b7_ranks b7_links b7_leaves].
    split; [reflexivity|].
    split. { rewrite count_frees_eq. pose proof (count_free_le units 0). unfold lenN in *.
             change (2 ^ 64) with 18446744073709551616. lia. }
    split; [exact F1|]. split; [rewrite map_length; exact F2|]. split; [exact F3|].
    split.
    { eapply links_build_fits; [|exact Elk]. pose proof (links_length_le lshift units leaves).
      unfold lenN. change (2 ^ 64) with 18446744073709551616. lia. }
    eapply leaves_bv_fits; [|exact Elv]. rewrite max_bits_eq. unfold lenN. rewrite Hlv. lia.
Qed.

Lemma bc_build_fits v units leaves d :
  units_ok units -> length leaves = length units -> lenN units < 2 ^ 56 ->
  bc_build v units leaves = Ok d -> bc_fits v d.
Proof.
  intros Hok Hlv Hn H. destruct v; cbn [bc_build] in H;
    apply CompactFacts.bind_ok_inv in H; destruct H as (d0 & Ed & H); injection H as <-; cbn [bc_fits].
  - eapply bc7_build_fits; [|exact Hok|exact Hlv|exact Hn|exact Ed].
    cbn [vbits_of]. repeat constructor.
  - eapply bc8_build_fits; [left; reflexivity|exact Hlv|exact Hn|exact Ed].
  - eapply bc7_build_fits; [|exact Hok|exact Hlv|exact Hn|exact Ed].
    cbn [vbits_of]. repeat constructor.
  - eapply bc8_build_fits; [right; reflexivity|exact Hlv|exact Hn|exact Ed].
Qed.

(* ------------------------------------------------------------------ suffix store *)
Lemma tb_step_bytes bin st cur st' : Forall byte (tb_chars st) -> Forall byte (fst cur) ->
  tb_step bin st cur = Ok st' -> Forall byte (tb_chars st').
Proof.
  intros Hc Hs H. destruct cur as [str npos]. cbn [fst] in Hs. unfold tb_step in H.
  destruct str as [|c0 str0] eqn:Estr; [discriminate|]. rewrite <- Estr in *. clear Estr c0 str0.
  destruct ((common_len (rev (tb_prev st)) (rev str) =? lenN str) && negb (lenN (tb_prev st) =? 0)).
  - injection H as <-. exact Hc.
  - injection H as <-. cbn [tb_chars].
    assert (Hr : Forall byte (rev_append str (tb_chars st))).
    { rewrite rev_append_rev. apply Forall_app. split; [apply Forall_rev; exact Hs|exact Hc]. }
    destruct bin; [exact Hr|]. constructor; [reflexivity|exact Hr].
Qed.

Lemma tb_fold_not_ok bin : forall l (r : res tb_st), (forall st, r <> Ok st) ->
  forall st', fold_left (fun acc cur => do s <- acc; tb_step bin s cur) l r <> Ok st'.
Proof.
  induction l as [|x l IH]; intros r Hr st'; cbn [fold_left]; [apply Hr|].
  apply IH. intros st. destruct r; cbn [bind]; try discriminate. exfalso. exact (Hr a eq_refl).
Qed.

Lemma tb_fold_bytes bin : forall l st st', Forall byte (tb_chars st) ->
  Forall (fun sn : suffix => Forall byte (fst sn)) l ->
  fold_left (fun acc cur => do s <- acc; tb_step bin s cur) l (Ok st) = Ok st' -> Forall byte (tb_chars st').
Proof.
  induction l as [|x l IH]; intros st st' Hc Hl H; cbn [fold_left bind] in H.
  - injection H as <-. exact Hc.
  - inversion Hl as [|? ? Hx Hl']; subst.
    destruct (tb_step bin st x) as [st1|e|f] eqn:E.
    + eapply IH; [|exact Hl'|exact H]. eapply tb_step_bytes; eassumption.
    + exfalso. revert H. apply tb_fold_not_ok. discriminate.
    + exfalso. revert H. apply tb_fold_not_ok. discriminate.
Qed.

Lemma bnd1 : bnd 1 = 256. Proof. reflexivity. Qed.

Lemma tail_complete_fits bin sufs tv asg :
  Forall (fun sn : suffix => suf_ok bin (fst sn)) sufs ->
  fold_right (fun sn acc => lenN (fst sn) + 1 + acc) 1 sufs < 2 ^ 60 ->
  tail_complete bin sufs = Ok (tv, asg) -> tail_fits tv.
Proof.
  intros Hok Hsz H. unfold tail_complete in H. rewrite !frev_eq in H.
  set (l := rev (SufSort.sort sufs)) in *.
  assert (Hperm' : Permutation sufs l).
  { subst l. eapply Permutation_trans; [apply SufSort.Permuted_sort|]. apply Permutation_rev. }
  change (fold_right (fun sn acc => lenN (fst sn) + 1 + acc) 1 sufs) with (szsum 1 sufs) in Hsz.
  rewrite szsum_base, (szsum_perm 0 _ _ Hperm') in Hsz.
  assert (Hokl : Forall (fun sn : suffix => suf_ok bin (fst sn)) l).
  { eapply Permutation_Forall; [exact Hperm'|exact Hok]. }
  assert (Hne : Forall (fun sn : suffix => fst sn <> []) l).
  { eapply Forall_impl; [|exact Hokl]. intros a [Ha _]. exact Ha. }
  assert (Hby : Forall (fun sn : suffix => Forall byte (fst sn)) l).
  { eapply Forall_impl; [|exact Hokl]. intros a (_ & Ha & _). exact Ha. }
  change (mkTb [0] (if bin then [false] else []) 1 [] 0 []) with (tb_init bin) in H.
  destruct (tb_fold_inv bin l (tb_init bin) [] (inv_init bin) Hne) as (st & Efold & Hinv & Hlen).
  { cbn [tb_init tb_len]. lia. }
  pose proof (tb_fold_bytes bin l (tb_init bin) st) as Hch.
  specialize (Hch ltac:(cbn [tb_init tb_chars]; constructor; [reflexivity|constructor]) Hby Efold).
  rewrite Efold in H. cbn [bind] in H. rewrite ?frev_eq in H. cbn [tb_init tb_len] in Hlen.
  destruct Hinv as [Hl _ Htm _ _].
  apply TailFacts.bind_ok_inv in H. destruct H as (tb & Etb & H).
  apply TailFacts.bind_ok_inv in H. destruct H as (terms & Eterms & H). injection H as <- <-.
  split; cbn [tv_chars tv_terms].
  - apply arr_fits_of_list.
    + rewrite TailFacts.lenN_rev, <- Hl. change (2 ^ 64) with (2 ^ 60 * 16). lia.
    + rewrite bnd1. apply Forall_rev. exact Hch.
  - apply (bv_of_bits_fits (rev (tb_terms st)) false false terms).
    + rewrite TailFacts.lenN_rev. unfold max_bits. destruct bin.
      * destruct Htm as [_ HL]. unfold lenN. rewrite HL. fold (lenN (tb_chars st)). rewrite <- Hl.
        change (2 ^ 62) with (2 ^ 60 * 4). lia.
      * rewrite Htm. reflexivity.
    + unfold bv_of_bits. rewrite Etb. exact Eterms.
Qed.

(* ------------------------------------------------------------------ code table, key statistics *)
Lemma perm_okb_bytes tbl : perm_okb tbl = true -> Forall byte tbl.
Proof.
  intros H. pose proof (perm_okb_len tbl H) as Hlen. unfold perm_okb in H.
  apply andb_prop in H. destruct H as [H H2]. apply andb_prop in H. destruct H as [_ H1].
  rewrite forallb_forall in H1, H2.
  apply Forall_forall. intros x Hx. apply In_nth_error in Hx. destruct Hx as [n Hn].
  assert (Hlt : (n < 512)%nat).
  { assert (Hs : nth_error tbl n <> None) by congruence. apply nth_error_Some in Hs. unfold lenN in Hlen. lia. }
  unfold byte. destruct (Nat.lt_ge_cases n 256) as [Hlo|Hhi].
  - specialize (H1 (N.of_nat n)). unfold nthN in H1 at 1. rewrite Nat2N.id, Hn in H1.
    assert (Hin : In (N.of_nat n) bytes256) by (apply bytes256_in; lia).
    apply H1 in Hin. apply andb_prop in Hin. destruct Hin as [Hin _]. apply N.ltb_lt. exact Hin.
  - specialize (H2 (N.of_nat (n - 256))). unfold nthN in H2 at 1.
    replace (N.to_nat (N.of_nat (n - 256) + 256)) with n in H2 by lia. rewrite Hn in H2.
    assert (Hin : In (N.of_nat (n - 256)) bytes256) by (apply bytes256_in; lia).
    apply H2 in Hin. apply andb_prop in Hin. destruct Hin as [Hin _]. apply N.ltb_lt. exact Hin.
Qed.

Lemma spec_alphabet_fits K : arr_fits 1 (of_list (spec_alphabet K)).
Proof.
  unfold spec_alphabet. apply arr_fits_of_list.
  - pose proof (filter_length_le (fun b => occurs b K) (map N.of_nat (seq 0 256))) as H.
    rewrite map_length, seq_length in H. unfold lenN. change (2 ^ 64) with 18446744073709551616. lia.
  - rewrite bnd1. apply Forall_forall. intros x Hx. apply filter_In in Hx. destruct Hx as [Hx _].
    apply in_map_iff in Hx. destruct Hx as (n & <- & Hn). apply in_seq in Hn. lia.
Qed.

Lemma max_len_le K B : (forall k, In k K -> lenN k <= B) -> spec_max_length K <= B.
Proof.
  unfold spec_max_length. induction K as [|k K IH]; intros H; cbn [fold_right]; [lia|].
  assert (H1 : lenN k <= B) by (apply H; left; reflexivity).
  assert (H2 : fold_right (fun k m => N.max (N.of_nat (length k)) m) 0 K <= B)
    by (apply IH; intros k' Hk'; apply H; right; exact Hk').
  unfold lenN in H1. lia.
Qed.

Lemma lenN_cons' {A} (x : A) l : lenN (x :: l) = lenN l + 1.
Proof. unfold lenN. cbn [length]. lia. Qed.

(* a key is at most as long as the number of nodes of the tree plus the longest registered suffix *)
Lemma key_len_tree V M : (forall u, lenN (suffix_at V u) <= M) ->
  forall t, tsound V t -> forall k, In k (keys_of t) -> lenN k + 1 <= lenN (nodes_of t) + M.
Proof.
  intros HM.
  apply (tree_ind2
           (fun t => tsound V t -> forall k, In k (keys_of t) -> lenN k + 1 <= lenN (nodes_of t) + M)
           (fun cs => (forall u, ksound V u cs -> forall k, In k (keys_go cs) -> lenN k <= lenN (nodes_go cs) + M))).
  - intros u s Hs k Hk. cbn [tsound] in Hs. destruct Hs as (_ & _ & ->).
    cbn [keys_of In] in Hk. destruct Hk as [<-|Hk]; [|contradiction]. cbn [nodes_of]. specialize (HM u). rewrite lenN_cons'.
    change (lenN (@nil N)) with 0. lia.
  - intros u tm cs IH Hs k Hk. rewrite tsound_node in Hs. destruct Hs as (_ & _ & _ & _ & Hks).
    rewrite keys_of_node in Hk. rewrite nodes_of_node, lenN_cons'.
    apply in_app_or in Hk. destruct Hk as [Hk|Hk].
    + destruct tm; [|contradiction]. cbn [In] in Hk. destruct Hk as [<-|Hk]; [|contradiction]. change (lenN (@nil N)) with 0. lia.
    + specialize (IH u Hks k Hk). lia.
  - intros u _ k Hk. destruct Hk.
  - intros b c r IHc IHr u Hs k Hk. rewrite ksound_cons in Hs. destruct Hs as [(_ & _ & _ & Hc) Hr].
    rewrite keys_go_cons in Hk. rewrite nodes_go_cons, TailFacts.lenN_app.
    apply in_app_or in Hk. destruct Hk as [Hk|Hk].
    + apply in_map_iff in Hk. destruct Hk as (k' & <- & Hk'). specialize (IHc Hc k' Hk').
      rewrite lenN_cons'. lia.
    + specialize (IHr u Hr k Hk). lia.
Qed.

Lemma suf_len_le (sufs : list suffix) b : forall a, In a sufs ->
  lenN (fst a) + 1 <= fold_right (fun sn acc => lenN (fst sn) + 1 + acc) b sufs.
Proof.
  induction sufs as [|x l IH]; intros a Ha; [contradiction|]. cbn [fold_right].
  set (F := fold_right (fun (sn : list N * N) (acc : N) => lenN (fst sn) + 1 + acc) b l) in *. clearbody F.
  destruct Ha as [->|Ha]; [apply N.le_add_r|]. specialize (IH a Ha).
  set (p := lenN (fst a)) in *. set (q := lenN (fst x)) in *. clearbody p q. lia.
Qed.

Lemma lwf_maxlen L K : lwf_facts L K -> lg_maxlen L < 2 ^ 64.
Proof.
  intros HF. destruct HF as [Hn _ _ _ _ _ _ Hml _ _ _ Hsz _ (T & HT & HK & Hnd & _)].
  rewrite Hml. unfold the_tree in HT. apply extract_sound in HT. destruct HT as [_ Hs].
  set (V := view_of L) in *.
  assert (HM : forall u, lenN (suffix_at V u) <= 2 ^ 60).
  { intros u. unfold suffix_at. subst V. cbn [view_of v_sufs]. rewrite suf_map_fm.
    destruct (PM.find _ _) as [s|] eqn:E; [|change (lenN (@nil N)) with 0; lia].
    apply fm_find in E. destruct E as [(a & Ha & _ & <-)|E]; [|rewrite PM.gempty in E; discriminate].
    pose proof (suf_len_le _ 1 a Ha). lia. }
  assert (Hlen : lenN (nodes_of T) <= lenN (lg_units L)).
  { pose proof (nodup_bounded_length (nodes_of T) (lenN (lg_units L)) Hnd (tsound_nodes_lt V T Hs)).
    unfold lenN in *. lia. }
  apply N.le_lt_trans with (2 ^ 56 + 2 ^ 60); [|reflexivity].
  apply max_len_le. intros k Hk. rewrite <- HK in Hk.
  pose proof (key_len_tree V (2 ^ 60) HM T Hs k Hk). lia.
Qed.

Lemma lwf_nkeys L K : lwf_facts L K -> lg_nkeys L < 2 ^ 64.
Proof.
  intros HF. destruct HF as [Hn _ Htm _ _ _ _ _ Hnk _ _ _ _ (T & _ & _ & _ & _ & Hct & _)].
  rewrite Hnk, <- Hct. pose proof (count_true_le (lg_terms L)). unfold lenN in *. rewrite Htm in H.
  change (2 ^ 64) with (2 ^ 56 * 256). lia.
Qed.

Lemma ct_fits_logical L K : lwf_facts L K ->
  ct_fits (mkCt (lg_maxlen L) (of_list (lg_tbl L)) (of_list (lg_alpha L))).
Proof.
  intros HF. unfold ct_fits; cbn [ct_maxlen ct_table ct_alpha].
  split; [exact (lwf_maxlen L K HF)|]. split.
  - split; [apply arr_wf_of_list|]. pose proof (perm_okb_len _ (lf_perm L K HF)) as Hl.
    split; [unfold lenN in Hl; cbn [of_list alist]; lia|]. exact (perm_okb_bytes _ (lf_perm L K HF)).
  - rewrite (lf_alpha L K HF). apply spec_alphabet_fits.
Qed.

(* ------------------------------------------------------------------ assembly *)
Section Assemble.
Hypothesis Hbuild : BvBuildSpec.
Hypothesis Hget : BvGetSpec.
Hypothesis Hrank : BvRankSpec.
Hypothesis Hsel : BvSelectSpec.
Hypothesis Hbc : BcSpec.
Hypothesis Htail : TailSpec.
Hypothesis Hcv : CvSpec.

(* the steps of [assemble] on well-formed logical content *)
Lemma assemble_parts L K : lwf_facts L K ->
  exists tv asg,
    tail_complete (lg_bin L) (lg_sufs L) = Ok (tv, asg) /\ tail_fits tv /\
    forallb (fun a : N * N => fst a <? lenN (lg_units L)) asg = true /\
    units_ok (assign_units (asg_map asg) (lg_units L) 0) /\
    length (lg_leaves L) = length (assign_units (asg_map asg) (lg_units L) 0) /\
    lenN (assign_units (asg_map asg) (lg_units L) 0) < 2 ^ 56 /\
    lenN (lg_terms L) < max_bits.
Proof.
  intros HF. destruct HF as [Hn Hlv Htm Hun _ _ _ _ _ Hsufs Hnd Hsz _ _].
  set (n := lenN (lg_units L)) in *.
  assert (Hok : Forall (fun sn : suffix => suf_ok (lg_bin L) (fst sn)) (lg_sufs L)).
  { apply Forall_forall. intros [s u] Hin. cbn [fst]. apply (Hsufs s u Hin). }
  destruct (Htail (lg_bin L) (lg_sufs L) Hok Hnd Hsz)
    as (T & asg & E' & _ & _ & Htvsz & _ & _ & Hasg_in & Hsuf).
  exists T, asg. split; [exact E'|].
  split; [exact (tail_complete_fits _ _ _ _ Hok Hsz E')|].
  assert (Hasg_b : forall u tp, In (u, tp) asg -> tp < 2 ^ 60 /\ u < n).
  { intros u tp Hin. destruct (Hasg_in _ _ Hin) as (s & Hs).
    destruct (Hsuf _ _ Hs) as (tpos & _ & _ & Hlt & Huniq & _).
    rewrite (Huniq _ Hin). split; [lia|]. apply (Hsufs s u Hs). }
  split.
  { apply forallb_forall. intros [u tp] Hin. cbn [fst]. apply N.ltb_lt. apply (Hasg_b u tp Hin). }
  set (units' := assign_units (asg_map asg) (lg_units L) 0).
  assert (Hlen' : lenN units' = n).
  { unfold lenN, units'. rewrite assign_units_length. reflexivity. }
  assert (Hnth' : forall i, i < n -> nthu units' i =
            match PM.find (N.succ_pos i) (asg_map asg) with
            | Some tp => (tp, snd (nthu (lg_units L) i)) | None => nthu (lg_units L) i end).
  { intros i Hi. unfold units'. rewrite assign_units_nth by exact Hi. rewrite N.add_0_l. reflexivity. }
  assert (Hunit_in : forall i, i < n -> fst (nthu (lg_units L) i) < 2 ^ 64 /\ snd (nthu (lg_units L) i) < 2 ^ 64).
  { intros i Hi. unfold units_ok in Hun. rewrite Forall_forall in Hun. apply Hun.
    unfold nthu. apply nth_In. apply lenN_lt_nat. exact Hi. }
  split.
  { apply Forall_forall. intros x Hx. apply (In_nth _ _ (0, 0)) in Hx. destruct Hx as (j & Hj & Ex).
    assert (Hjn : N.of_nat j < n) by (rewrite <- Hlen'; unfold lenN, Dac.unit in *; lia).
    assert (E : x = nthu units' (N.of_nat j)) by (unfold nthu; rewrite Nat2N.id; symmetry; exact Ex).
    rewrite (Hnth' _ Hjn) in E.
    destruct (Hunit_in _ Hjn) as [U1 U2].
    destruct (PM.find _ _) eqn:Ef.
    - rewrite asg_map_fm in Ef. apply fm_find in Ef. destruct Ef as [([a1 a2] & Ha & Hk & Hv)|Ef].
      + cbn [fst snd] in Hk, Hv. subst a1 a2. destruct (Hasg_b _ _ Ha) as [Hb _].
        rewrite E. cbn [fst snd]. pose proof pow_60_64. split; [lia|exact U2].
      + rewrite PM.gempty in Ef. discriminate.
    - rewrite E. split; assumption. }
  split; [unfold units'; rewrite assign_units_length; exact Hlv|].
  split; [rewrite Hlen'; exact Hn|].
  unfold lenN. rewrite Htm. fold (lenN (lg_units L)). fold n. unfold max_bits. pose proof pow_56_62. lia.
Qed.

Theorem assemble_spec : AssembleSpec.
Proof.
  intros v L K Hwf. apply lwf_b_facts in Hwf.
  destruct (assemble_parts L K Hwf) as (tv & asg & Etail & _ & Hchk & Hun' & Hlv' & Hn' & Htm).
  destruct (Hbuild (lg_terms L) true true Htm) as (terms & Eterms & _).
  destruct (Hbc v _ (lg_leaves L) Hun' Hlv' Hn') as (bc & Ebc & _).
  unfold assemble. rewrite Etail. cbn [bind]. rewrite Hchk. cbn [negb].
  rewrite Eterms. cbn [bind]. rewrite Ebc. cbn [bind]. eexists. reflexivity.
Qed.

Theorem assemble_fits : forall v L P K, wf_for v L P K -> trie_fits v P.
Proof.
  intros v L P K [Hasm Hwf]. apply lwf_b_facts in Hwf.
  destruct (assemble_parts L K Hwf) as (tv & asg & Etail & Htv & Hchk & Hun' & Hlv' & Hn' & Htm).
  unfold assemble in Hasm. rewrite Etail in Hasm. cbn [bind] in Hasm. rewrite Hchk in Hasm. cbn [negb] in Hasm.
  apply PhysFacts.bind_ok_inv in Hasm. destruct Hasm as (terms & Eterms & Hasm).
  apply PhysFacts.bind_ok_inv in Hasm. destruct Hasm as (bc & Ebc & Hasm).
  injection Hasm as <-.
  unfold trie_fits; cbn [t_nkeys t_table t_terms t_bc t_tail].
  split; [exact (lwf_nkeys L K Hwf)|].
  split; [exact (ct_fits_logical L K Hwf)|].
  split; [exact (bv_of_bits_fits _ _ _ _ Htm Eterms)|].
  split; [exact (bc_build_fits v _ _ bc Hun' Hlv' Hn' Ebc)|].
  exact Htv.
Qed.

(* consequences for the file format: what assemble produces is saved and read back unchanged *)
Corollary assemble_load_save : forall v L P K, wf_for v L P K -> load v (save v P) = Ok P.
Proof. intros v L P K H. apply load_save. exact (assemble_fits v L P K H). Qed.
End Assemble.

Check assemble_spec.
Check assemble_fits.
Print Assumptions assemble_spec.
Print Assumptions assemble_fits.
Print Assumptions assemble_load_save.
