(* Base.v: outcome monad and 64-bit word arithmetic (model; no proofs here). *)
From Coq Require Export List NArith Bool.
Export ListNotations.
Local Open Scope N_scope.

(* xcdat::exception kinds *)
Inductive exc := EmptyDataset | NotUnique | NotSorted | EmptySuffix | EmptyVector
               | TypeMismatch | OpenFail | ReadFail | WriteFail.
(* points at which the C++ would leave defined behaviour *)
Inductive fault := OobArr | OobQuery | OobKey | ShiftTooWide | NullDeref | OutOfFuel | BadState.

Inductive res (A : Type) : Type :=
| Ok (a : A) | Exc (e : exc) | Fault (f : fault).
Arguments Ok {A} a.
Arguments Exc {A} e.
Arguments Fault {A} f.

Definition bind {A B} (r : res A) (f : A -> res B) : res B :=
  match r with Ok a => f a | Exc e => Exc e | Fault x => Fault x end.
Notation "'do' x <- r ; k" := (bind r (fun x => k))
  (at level 200, x pattern, r at level 100, k at level 200, right associativity).
Notation "'do' ' p <- r ; k" := (bind r (fun p => k))
  (at level 200, p pattern, r at level 100, k at level 200, right associativity).

Definition is_ok {A} (r : res A) : bool := match r with Ok _ => true | _ => false end.

(* ---- 64-bit words: values are N below 2^64; every wrapping op reduces explicitly ---- *)
Definition mask64 : N := N.ones 64.
Definition w64 (x : N) : N := N.land x mask64.
Definition add64 (a b : N) : N := w64 (a + b).
Definition sub64 (a b : N) : N := w64 (a + N.shiftl 1 64 - w64 b).
Definition mul64 (a b : N) : N := w64 (a * b).
Definition not64 (a : N) : N := N.lxor (w64 a) mask64.
(* shifts by a constant < 64 (the source's literal shifts) *)
Definition shl64 (a s : N) : N := w64 (N.shiftl a s).
Definition shr64 (a s : N) : N := N.shiftr a s.
(* shifts by a computed amount: C++ UB at >= 64 *)
Definition shl64c (a s : N) : res N := if s <? 64 then Ok (shl64 a s) else Fault ShiftTooWide.
Definition shr64c (a s : N) : res N := if s <? 64 then Ok (shr64 a s) else Fault ShiftTooWide.

(* linear-time list reversal (Coq's [rev] is quadratic); [frev_eq] lets proofs forget the difference *)
Definition frev {A} (l : list A) : list A := rev_append l [].
Lemma frev_eq {A} (l : list A) : frev l = rev l.
Proof. unfold frev. symmetry. apply rev_alt. Qed.

Definition byte (b : N) : Prop := b < 256.
Definition key := list N.

