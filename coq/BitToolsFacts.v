(* BitToolsFacts.v: correctness of the word-level bit tricks of bit_tools.hpp (BitToolsGen.v)
   against the instruction-level specifications of BitToolsSpec.v. Everything is Qed-closed. *)
From Coq Require Import NArith ZArith List Bool Lia ZifyN ZifyBool ZifyNat.
From X Require Import Base Arr Consts BitToolsSpec BitToolsGen.
Import ListNotations.
Local Open Scope N_scope.
Local Ltac Zify.zify_post_hook ::= Z.div_mod_to_equations.


(* ================= popcnt_spec / select_spec: structural facts ================= *)

(* ---------- popcnt_spec ---------- *)
Lemma popcnt_0 : popcnt_spec 0 = 0. Proof. reflexivity. Qed.
Lemma popcnt_double x : popcnt_spec (2 * x) = popcnt_spec x.
Proof. destruct x; reflexivity. Qed.
Lemma popcnt_succ_double x : popcnt_spec (2 * x + 1) = 1 + popcnt_spec x.
Proof. destruct x; reflexivity. Qed.

Lemma N_binary_ind' (P : N -> Prop) :
  P 0 -> (forall n, P n -> P (2 * n)) -> (forall n, P n -> P (2 * n + 1)) -> forall n, P n.
Proof.
  intros H0 H1 H2 n. induction n as [|n IH|n IH] using N.binary_ind; auto.
  - rewrite N.succ_double_spec. auto.
Qed.

Lemma popcnt_split : forall k a b, a < 2 ^ k -> popcnt_spec (a + 2 ^ k * b) = popcnt_spec a + popcnt_spec b.
Proof.
  intro k. induction k as [|k IH] using N.peano_ind; intros a b Ha.
  - change (2 ^ 0) with 1 in *. assert (a = 0) by lia. subst. rewrite N.mul_1_l. reflexivity.
  - rewrite N.pow_succ_r' in *.
    assert (Ea : a = 2 * (a / 2) + a mod 2) by (apply N.div_mod; lia).
    assert (Hlt : a / 2 < 2 ^ k) by lia.
    assert (Hr : a mod 2 = 0 \/ a mod 2 = 1) by lia.
    set (a' := a / 2) in *. clearbody a'.
    destruct Hr as [Hr|Hr]; rewrite Hr in Ea; subst a.
    + replace (2 * a' + 0 + 2 * 2 ^ k * b) with (2 * (a' + 2 ^ k * b)) by lia.
      rewrite N.add_0_r, !popcnt_double. auto.
    + replace (2 * a' + 1 + 2 * 2 ^ k * b) with (2 * (a' + 2 ^ k * b) + 1) by lia.
      rewrite !popcnt_succ_double, IH by auto. lia.
Qed.

Lemma popcnt_shift k b : popcnt_spec (2 ^ k * b) = popcnt_spec b.
Proof. 
  generalize (popcnt_split k 0 b). rewrite N.add_0_l. intros ->; [reflexivity|].
  apply N.neq_0_lt_0, N.pow_nonzero; lia.
Qed.

Lemma popcnt_bound : forall k x, x < 2 ^ k -> popcnt_spec x <= k.
Proof.
  intro k. induction k as [|k IH] using N.peano_ind; intros x Hx.
  - change (2^0) with 1 in Hx. assert (x = 0) by lia. subst. cbn. lia.
  - rewrite N.pow_succ_r' in Hx.
    assert (Ea : x = 2 * (x / 2) + x mod 2) by (apply N.div_mod; lia).
    assert (Hlt : x / 2 < 2 ^ k) by lia.
    assert (Hr : x mod 2 = 0 \/ x mod 2 = 1) by lia.
    specialize (IH _ Hlt).
    destruct Hr as [Hr|Hr]; rewrite Hr in Ea; rewrite Ea.
    + rewrite N.add_0_r, popcnt_double. lia.
    + rewrite popcnt_succ_double. lia.
Qed.

Lemma popcnt_le_64 x : x < 2 ^ 64 -> popcnt_spec x <= 64.
Proof. apply popcnt_bound. Qed.

Lemma popcnt_pos x : 0 < x -> 0 < popcnt_spec x.
Proof.
  induction x as [|x IH|x IH] using N_binary_ind'; intro H.
  - lia.
  - rewrite popcnt_double. apply IH. lia.
  - rewrite popcnt_succ_double. lia.
Qed.

Lemma popcnt_eq_0 x : popcnt_spec x = 0 -> x = 0.
Proof. intro H. destruct (N.eq_dec x 0); auto. assert (0 < popcnt_spec x) by (apply popcnt_pos; lia). lia. Qed.

Lemma popcnt_mod_le x k : popcnt_spec (x mod 2 ^ k) <= popcnt_spec x.
Proof.
  assert (H2 : 2 ^ k <> 0) by (apply N.pow_nonzero; lia).
  rewrite (N.div_mod x (2 ^ k)) at 2 by auto.
  rewrite N.add_comm, popcnt_split by (apply N.mod_lt; auto). lia.
Qed.

(* shl64 w (64-j) keeps exactly the low j bits of w *)
Lemma w64_mod x : w64 x = x mod 2 ^ 64.
Proof. unfold w64, mask64. apply N.land_ones. Qed.

Lemma w64_small x : x < 2 ^ 64 -> w64 x = x.
Proof. intro H. rewrite w64_mod. apply N.mod_small; auto. Qed.

Lemma popcnt_low_bits : forall w j, w < 2 ^ 64 -> 0 < j -> j < 64 ->
  popcnt_spec (shl64 w (64 - j)) = popcnt_spec (N.land w (N.ones j)).
Proof.
  intros w j Hw H0 Hj. unfold shl64. rewrite w64_mod, N.shiftl_mul_pow2, N.land_ones.
  assert (E : 2 ^ 64 = 2 ^ (64 - j) * 2 ^ j) by (rewrite <- N.pow_add_r; f_equal; lia).
  assert (Hj0 : 2 ^ j <> 0) by (apply N.pow_nonzero; lia).
  assert (Hs0 : 2 ^ (64 - j) <> 0) by (apply N.pow_nonzero; lia).
  rewrite E, (N.mul_comm w), N.mul_mod_distr_l by auto.
  apply popcnt_shift.
Qed.

(* ---------- select_spec ---------- *)
Lemma pos_select_off : forall p k off,
  pos_select p k off = option_map (fun r => r + off) (pos_select p k 0).
Proof.
  induction p as [q IH|q IH|]; intros k off; cbn [pos_select].
  - destruct (k =? 0); [reflexivity|].
    rewrite (IH (k - 1) (off + 1)), (IH (k - 1) (0 + 1)).
    destruct (pos_select q (k - 1) 0); cbn; [f_equal; lia|reflexivity].
  - rewrite (IH k (off + 1)), (IH k (0 + 1)).
    destruct (pos_select q k 0); cbn; [f_equal; lia|reflexivity].
  - destruct (k =? 0); reflexivity.
Qed.

Lemma select_0 k : select_spec 0 k = None. Proof. reflexivity. Qed.
Lemma select_double x k : select_spec (2 * x) k = option_map N.succ (select_spec x k).
Proof.
  destruct x as [|p]; [reflexivity|].
  change (2 * N.pos p) with (N.pos p~0). cbn [select_spec pos_select].
  rewrite pos_select_off. destruct (pos_select p k 0); cbn; [f_equal; lia|reflexivity].
Qed.
Lemma select_succ_double x k :
  select_spec (2 * x + 1) k = if k =? 0 then Some 0 else option_map N.succ (select_spec x (k - 1)).
Proof.
  destruct x as [|p].
  - cbn. destruct (k =? 0); reflexivity.
  - change (2 * N.pos p + 1) with (N.pos p~1). cbn [select_spec pos_select].
    destruct (k =? 0); [reflexivity|].
    rewrite pos_select_off. destruct (pos_select p (k - 1) 0); cbn; [f_equal; lia|reflexivity].
Qed.

Lemma select_none : forall x k, popcnt_spec x <= k -> select_spec x k = None.
Proof.
  induction x as [|x IH|x IH] using N_binary_ind'; intros k H.
  - reflexivity.
  - rewrite select_double, IH; [reflexivity|]. rewrite popcnt_double in H; auto.
  - rewrite popcnt_succ_double in H. rewrite select_succ_double.
    destruct (N.eqb_spec k 0); [lia|]. rewrite IH; [reflexivity|lia].
Qed.

Lemma select_some : forall x k, k < popcnt_spec x -> exists p, select_spec x k = Some p.
Proof.
  induction x as [|x IH|x IH] using N_binary_ind'; intros k H.
  - cbn in H. lia.
  - rewrite popcnt_double in H. destruct (IH k H) as [p Hp]. exists (N.succ p).
    rewrite select_double, Hp. reflexivity.
  - rewrite popcnt_succ_double in H. rewrite select_succ_double.
    destruct (N.eqb_spec k 0); [eexists; reflexivity|].
    destruct (IH (k - 1)) as [p Hp]; [lia|]. exists (N.succ p). rewrite Hp. reflexivity.
Qed.

Lemma select_split : forall w a b k, a < 2 ^ w ->
  select_spec (a + 2 ^ w * b) k =
  if k <? popcnt_spec a then select_spec a k
  else option_map (fun r => r + w) (select_spec b (k - popcnt_spec a)).
Proof.
  intro w. induction w as [|w IH] using N.peano_ind; intros a b k Ha.
  - change (2 ^ 0) with 1 in *. assert (a = 0) by lia. subst. rewrite N.mul_1_l, N.add_0_l.
    cbn [popcnt_spec]. rewrite N.sub_0_r. destruct (N.ltb_spec k 0); [lia|].
    destruct (select_spec b k); cbn; [f_equal; lia|reflexivity].
  - rewrite N.pow_succ_r' in *.
    assert (Ea : a = 2 * (a / 2) + a mod 2) by (apply N.div_mod; lia).
    assert (Hlt : a / 2 < 2 ^ w) by lia.
    assert (Hr : a mod 2 = 0 \/ a mod 2 = 1) by lia.
    set (a' := a / 2) in *. clearbody a'.
    destruct Hr as [Hr|Hr]; rewrite Hr in Ea; subst a.
    + replace (2 * a' + 0 + 2 * 2 ^ w * b) with (2 * (a' + 2 ^ w * b)) by lia.
      rewrite N.add_0_r, !select_double, popcnt_double, IH by auto.
      destruct (k <? popcnt_spec a'); [reflexivity|].
      destruct (select_spec b (k - popcnt_spec a')); cbn; [f_equal; lia|reflexivity].
    + replace (2 * a' + 1 + 2 * 2 ^ w * b) with (2 * (a' + 2 ^ w * b) + 1) by lia.
      rewrite !select_succ_double, popcnt_succ_double.
      destruct (N.eqb_spec k 0) as [->|Hk].
      * destruct (N.ltb_spec 0 (1 + popcnt_spec a')); [reflexivity|lia].
      * rewrite IH by auto.
        destruct (N.ltb_spec (k - 1) (popcnt_spec a')), (N.ltb_spec k (1 + popcnt_spec a')); try lia; [reflexivity|].
        replace (k - (1 + popcnt_spec a')) with (k - 1 - popcnt_spec a') by lia.
        destruct (select_spec b (k - 1 - popcnt_spec a')); cbn; [f_equal; lia|reflexivity].
Qed.

(* characterisation of select_spec *)
Lemma testbit_double_0 x : N.testbit (2 * x) 0 = false.
Proof. apply N.testbit_even_0. Qed.
Lemma testbit_double_succ x p : N.testbit (2 * x) (N.succ p) = N.testbit x p.
Proof. apply N.double_bits_succ. Qed.
Lemma testbit_sd_0 x : N.testbit (2 * x + 1) 0 = true.
Proof. apply N.testbit_odd_0. Qed.
Lemma testbit_sd_succ x p : N.testbit (2 * x + 1) (N.succ p) = N.testbit x p.
Proof. apply N.testbit_odd_succ, N.le_0_l. Qed.

Lemma mod_double_succ x p : (2 * x) mod 2 ^ N.succ p = 2 * (x mod 2 ^ p).
Proof.
  rewrite N.pow_succ_r'. apply N.mul_mod_distr_l; [apply N.pow_nonzero|]; lia.
Qed.
Lemma mod_sd_succ x p : (2 * x + 1) mod 2 ^ N.succ p = 2 * (x mod 2 ^ p) + 1.
Proof.
  rewrite N.pow_succ_r'. assert (2 ^ p <> 0) by (apply N.pow_nonzero; lia).
  symmetry. apply N.mod_unique with (q := x / 2 ^ p).
  - assert (x mod 2 ^ p < 2 ^ p) by (apply N.mod_lt; auto). lia.
  - rewrite (N.div_mod x (2 ^ p)) at 1 by auto. lia.
Qed.

Lemma select_char_fwd : forall x k p, select_spec x k = Some p ->
  N.testbit x p = true /\ popcnt_spec (N.land x (N.ones p)) = k.
Proof.
  induction x as [|x IH|x IH] using N_binary_ind'; intros k p H.
  - discriminate.
  - rewrite select_double in H. destruct (select_spec x k) as [q|] eqn:E; [|discriminate].
    cbn in H. injection H as <-. destruct (IH _ _ E) as [H1 H2].
    rewrite N.land_ones in *. rewrite testbit_double_succ, mod_double_succ, popcnt_double. auto.
  - rewrite select_succ_double in H. destruct (N.eqb_spec k 0) as [->|Hk].
    + injection H as <-. rewrite testbit_sd_0. split; auto.
      change (N.ones 0) with 0. rewrite N.land_0_r. reflexivity.
    + destruct (select_spec x (k - 1)) as [q|] eqn:E; [|discriminate].
      cbn in H. injection H as <-. destruct (IH _ _ E) as [H1 H2].
      rewrite N.land_ones in *. rewrite testbit_sd_succ, mod_sd_succ, popcnt_succ_double. split; auto. lia.
Qed.

Lemma select_char_bwd : forall x k p,
  N.testbit x p = true -> popcnt_spec (N.land x (N.ones p)) = k -> select_spec x k = Some p.
Proof.
  induction x as [|x IH|x IH] using N_binary_ind'; intros k p H1 H2.
  - rewrite N.bits_0 in H1. discriminate.
  - rewrite select_double. destruct (N.eq_dec p 0) as [->|Hp].
    + rewrite testbit_double_0 in H1. discriminate.
    + rewrite <- (N.succ_pred p Hp) in *. set (q := N.pred p) in *. clearbody q.
      rewrite N.land_ones in *. rewrite testbit_double_succ in H1. rewrite mod_double_succ, popcnt_double in H2.
      rewrite (IH k q); auto. rewrite N.land_ones; auto.
  - rewrite select_succ_double. destruct (N.eq_dec p 0) as [->|Hp].
    + change (N.ones 0) with 0 in H2. rewrite N.land_0_r in H2. cbn in H2. subst k. reflexivity.
    + rewrite <- (N.succ_pred p Hp) in *. set (q := N.pred p) in *. clearbody q.
      rewrite N.land_ones in *. rewrite testbit_sd_succ in H1. rewrite mod_sd_succ, popcnt_succ_double in H2.
      destruct (N.eqb_spec k 0); [lia|].
      rewrite (IH (k - 1) q); auto. rewrite N.land_ones; lia.
Qed.

Lemma select_char x k p :
  select_spec x k = Some p <-> (N.testbit x p = true /\ popcnt_spec (N.land x (N.ones p)) = k).
Proof. split; [apply select_char_fwd|intros [? ?]; apply select_char_bwd; auto]. Qed.

Lemma select_unique x k p q :
  N.testbit x p = true -> popcnt_spec (N.land x (N.ones p)) = k ->
  N.testbit x q = true -> popcnt_spec (N.land x (N.ones q)) = k -> p = q.
Proof.
  intros A B C D. pose proof (select_char_bwd _ _ _ A B) as E. rewrite (select_char_bwd _ _ _ C D) in E.
  congruence.
Qed.

Lemma select_lt_popcnt x k p : select_spec x k = Some p -> k < popcnt_spec x.
Proof.
  intro H. destruct (N.lt_ge_cases k (popcnt_spec x)); auto.
  rewrite select_none in H by auto. discriminate.
Qed.

Lemma select_range x k p n : x < 2 ^ n -> select_spec x k = Some p -> p < n.
Proof.
  intros Hx H. apply select_char_fwd in H. destruct H as [H _].
  destruct (N.lt_ge_cases p n); auto.
  rewrite <- (N.mod_small x (2 ^ n)) in H by auto. rewrite N.mod_pow2_bits_high in H by auto. discriminate.
Qed.


(* ================= pdep/tzcnt arm of select_in_word ================= *)

(* ---------- pdep / tzcnt : the intrinsic arm of select_in_word ---------- *)
Lemma pdep_pos_0 m : pdep_pos 0 m = 0.
Proof. induction m as [m IH|m IH|]; cbn [pdep_pos]; change (N.div2 0) with 0; rewrite ?IH; reflexivity. Qed.

Lemma pdep_double src m : pdep_spec src (2 * m) = 2 * pdep_spec src m.
Proof.
  destruct m as [|p]; [reflexivity|]. change (2 * N.pos p) with (N.pos p~0).
  cbn [pdep_spec pdep_pos]. apply N.double_spec.
Qed.
Lemma pdep_succ_double src m :
  pdep_spec src (2 * m + 1) = N.land src 1 + 2 * pdep_spec (N.div2 src) m.
Proof.
  destruct m as [|p].
  - change (2 * 0 + 1) with 1. cbn [pdep_spec pdep_pos]. lia.
  - change (2 * N.pos p + 1) with (N.pos p~1). cbn [pdep_spec pdep_pos]. rewrite N.double_spec. reflexivity.
Qed.

Lemma pdep_select : forall m k p, select_spec m k = Some p -> pdep_spec (2 ^ k) m = 2 ^ p.
Proof.
  induction m as [|m IH|m IH] using N_binary_ind'; intros k p H.
  - discriminate.
  - rewrite select_double in H. destruct (select_spec m k) as [q|] eqn:E; [|discriminate].
    cbn in H. injection H as <-. rewrite pdep_double, (IH _ _ E), N.pow_succ_r'. reflexivity.
  - rewrite select_succ_double in H. rewrite pdep_succ_double.
    destruct (N.eqb_spec k 0) as [->|Hk].
    + injection H as <-. change (2 ^ 0) with 1. change (N.div2 1) with 0. change (N.land 1 1) with 1.
      destruct m; cbn [pdep_spec]; rewrite ?pdep_pos_0; reflexivity.
    + destruct (select_spec m (k - 1)) as [q|] eqn:E; [|discriminate].
      cbn in H. injection H as <-.
      assert (Ek : 2 ^ k = 2 * 2 ^ (k - 1)) by (rewrite <- N.pow_succ_r'; f_equal; lia).
      rewrite N.div2_div. change 1 with (N.ones 1) at 1. rewrite N.land_ones. change (2 ^ 1) with 2.
      rewrite Ek at 1 2. rewrite N.mul_comm, N.mod_mul, N.div_mul by lia.
      rewrite (IH _ _ E), N.pow_succ_r'. lia.
Qed.

Lemma tzcnt_double x : 0 < x -> tzcnt_spec (2 * x) = 1 + tzcnt_spec x.
Proof. destruct x; [lia|reflexivity]. Qed.
Lemma tzcnt_pow2 p : tzcnt_spec (2 ^ p) = p.
Proof.
  induction p as [|p IH] using N.peano_ind; [reflexivity|].
  rewrite N.pow_succ_r', tzcnt_double, IH; [lia|].
  apply N.neq_0_lt_0, N.pow_nonzero; lia.
Qed.

Lemma select_in_word_intr_correct : forall x k, x < 2 ^ 64 -> k < popcnt_spec x ->
  select_spec x k = Some (select_in_word_intr x k).
Proof.
  intros x k Hx Hk. destruct (select_some _ _ Hk) as [p Hp]. rewrite Hp. f_equal.
  unfold select_in_word_intr, shl64. pose proof (popcnt_le_64 _ Hx).
  rewrite N.shiftl_mul_pow2, N.mul_1_l, w64_small by (apply N.pow_lt_mono_r; lia).
  rewrite (pdep_select _ _ _ Hp), tzcnt_pow2. reflexivity.
Qed.


(* ================= words as sequences of w-bit fields ================= *)

(* ---------- bits of a + 2^k * b ---------- *)
Lemma pow2_nz k : 2 ^ k <> 0. Proof. apply N.pow_nonzero; lia. Qed.
Lemma pow2_pos k : 0 < 2 ^ k. Proof. apply N.neq_0_lt_0, pow2_nz. Qed.

Lemma split_mod k a b : a < 2 ^ k -> (a + 2 ^ k * b) mod 2 ^ k = a.
Proof.
  intro H. symmetry. apply N.mod_unique with (q := b); auto. lia.
Qed.
Lemma split_div k a b : a < 2 ^ k -> (a + 2 ^ k * b) / 2 ^ k = b.
Proof.
  intro H. symmetry. apply N.div_unique with (r := a); auto. lia.
Qed.

Lemma testbit_split k a b i : a < 2 ^ k ->
  N.testbit (a + 2 ^ k * b) i = if i <? k then N.testbit a i else N.testbit b (i - k).
Proof.
  intro H. destruct (N.ltb_spec i k).
  - rewrite <- (N.mod_pow2_bits_low _ k) by auto. rewrite split_mod; auto.
  - rewrite <- (split_div k a b H) at 2. rewrite N.div_pow2_bits. f_equal. lia.
Qed.

Lemma lt_pow2_bits a k : (forall i, k <= i -> N.testbit a i = false) -> a < 2 ^ k.
Proof.
  intro H. destruct (N.eq_dec a 0) as [->|Ha]; [apply pow2_pos|].
  apply N.log2_lt_pow2; [lia|]. destruct (N.lt_ge_cases (N.log2 a) k); auto.
  specialize (H _ H0). rewrite N.bit_log2 in H; auto. discriminate.
Qed.
Lemma bits_above_pow2 a k i : a < 2 ^ k -> k <= i -> N.testbit a i = false.
Proof.
  intros H Hi. rewrite <- (N.mod_small a (2 ^ k)) by auto. apply N.mod_pow2_bits_high; auto.
Qed.

Definition bitop (op : N -> N -> N) (bo : bool -> bool -> bool) : Prop :=
  bo false false = false /\ forall a b i, N.testbit (op a b) i = bo (N.testbit a i) (N.testbit b i).

Lemma bitop_land : bitop N.land andb. Proof. split; [reflexivity|apply N.land_spec]. Qed.
Lemma bitop_lor : bitop N.lor orb. Proof. split; [reflexivity|apply N.lor_spec]. Qed.
Lemma bitop_lxor : bitop N.lxor xorb. Proof. split; [reflexivity|apply N.lxor_spec]. Qed.

Lemma bitop_lt op bo k a c : bitop op bo -> a < 2 ^ k -> c < 2 ^ k -> op a c < 2 ^ k.
Proof.
  intros [H0 Hb] Ha Hc. apply lt_pow2_bits. intros i Hi.
  rewrite Hb, (bits_above_pow2 a k), (bits_above_pow2 c k); auto.
Qed.

Lemma bitop_00 op bo : bitop op bo -> op 0 0 = 0.
Proof.
  intros [H0 Hb]. apply N.bits_inj. intro i. rewrite Hb, !N.bits_0. auto.
Qed.

Lemma bitop_split op bo k a b c d : bitop op bo -> a < 2 ^ k -> c < 2 ^ k ->
  op (a + 2 ^ k * b) (c + 2 ^ k * d) = op a c + 2 ^ k * op b d.
Proof.
  intros Hop Ha Hc. pose proof (bitop_lt op bo k a c Hop Ha Hc) as Hac.
  destruct Hop as [H0 Hb]. apply N.bits_inj. intro i.
  rewrite Hb, !testbit_split by auto. destruct (i <? k); rewrite Hb; reflexivity.
Qed.

(* ---------- words as sequences of w-bit fields ---------- *)
Fixpoint wjoin (w : N) (n : nat) (f : nat -> N) : N :=
  match n with O => 0 | S m => f O + 2 ^ w * wjoin w m (fun i => f (S i)) end.

Lemma join_ext w : forall n f g, (forall i, (i < n)%nat -> f i = g i) -> wjoin w n f = wjoin w n g.
Proof.
  induction n as [|n IH]; intros f g H; cbn [wjoin]; [reflexivity|].
  rewrite (H O) by lia. f_equal. f_equal. apply IH. intros i Hi. apply H. lia.
Qed.

Lemma join_bound w : forall n f, (forall i, (i < n)%nat -> f i < 2 ^ w) ->
  wjoin w n f < 2 ^ (w * N.of_nat n).
Proof.
  induction n as [|n IH]; intros f H; cbn [wjoin].
  - rewrite N.mul_0_r. cbn. lia.
  - replace (w * N.of_nat (S n)) with (w + w * N.of_nat n) by lia. rewrite N.pow_add_r.
    assert (f O < 2 ^ w) by (apply H; lia).
    assert (wjoin w n (fun i => f (S i)) < 2 ^ (w * N.of_nat n)) by (apply IH; intros; apply H; lia).
    nia.
Qed.

Lemma join_add w : forall n f g, wjoin w n f + wjoin w n g = wjoin w n (fun i => f i + g i).
Proof.
  induction n as [|n IH]; intros f g; cbn [wjoin]; [reflexivity|].
  rewrite <- IH. lia.
Qed.

Lemma join_scale w c : forall n f, c * wjoin w n f = wjoin w n (fun i => c * f i).
Proof.
  induction n as [|n IH]; intros f; cbn [wjoin]; [lia|].
  rewrite <- IH. lia.
Qed.

Lemma join_sub w n f g : (forall i, (i < n)%nat -> g i <= f i) ->
  wjoin w n f - wjoin w n g = wjoin w n (fun i => f i - g i).
Proof.
  intro H. assert (E : wjoin w n f = wjoin w n (fun i => f i - g i) + wjoin w n g).
  { rewrite join_add. apply join_ext. intros i Hi. specialize (H i Hi). lia. }
  lia.
Qed.

Lemma join_le w : forall n f g, (forall i, (i < n)%nat -> g i <= f i) -> wjoin w n g <= wjoin w n f.
Proof.
  intros n f g H. assert (E : wjoin w n f = wjoin w n (fun i => f i - g i) + wjoin w n g).
  { rewrite join_add. apply join_ext. intros i Hi. specialize (H i Hi). lia. }
  lia.
Qed.

Lemma join_bitop op bo w : bitop op bo -> forall n f g,
  (forall i, (i < n)%nat -> f i < 2 ^ w) -> (forall i, (i < n)%nat -> g i < 2 ^ w) ->
  op (wjoin w n f) (wjoin w n g) = wjoin w n (fun i => op (f i) (g i)).
Proof.
  intros Hop. induction n as [|n IH]; intros f g Hf Hg; cbn [wjoin].
  - eapply bitop_00; eauto.
  - rewrite (bitop_split op bo) by (auto; try apply Hf; try apply Hg; lia).
    rewrite IH; auto; intros; [apply Hf|apply Hg]; lia.
Qed.

Definition join_land w := join_bitop N.land andb w bitop_land.
Definition join_lor w := join_bitop N.lor orb w bitop_lor.
Definition join_lxor w := join_bitop N.lxor xorb w bitop_lxor.

(* shifting right by s when every wfield is a multiple of 2^s *)
Lemma join_shr_scaled w s n f : N.shiftr (wjoin w n (fun i => 2 ^ s * f i)) s = wjoin w n f.
Proof.
  rewrite <- join_scale, N.shiftr_div_pow2, N.mul_comm. apply N.div_mul, pow2_nz.
Qed.

(* dropping the lowest wfield *)
Lemma join_shr_field w n f : f O < 2 ^ w ->
  N.shiftr (wjoin w (S n) f) w = wjoin w n (fun i => f (S i)).
Proof. intro H. cbn [wjoin]. rewrite N.shiftr_div_pow2. apply split_div; auto. Qed.

Definition wfield (w x : N) (i : nat) : N := N.land (N.shiftr x (w * N.of_nat i)) (N.ones w).

Lemma field_lt w x i : wfield w x i < 2 ^ w.
Proof. unfold wfield. rewrite N.land_ones. apply N.mod_lt, pow2_nz. Qed.

Lemma field_S w x i : wfield w x (S i) = wfield w (N.shiftr x w) i.
Proof. unfold wfield. rewrite N.shiftr_shiftr. do 2 f_equal. lia. Qed.

Lemma join_field w : forall n x, x < 2 ^ (w * N.of_nat n) -> wjoin w n (wfield w x) = x.
Proof.
  induction n as [|n IH]; intros x Hx; cbn [wjoin].
  - rewrite N.mul_0_r in Hx. cbn in Hx. lia.
  - rewrite (join_ext w n _ (wfield w (N.shiftr x w))) by (intros; apply field_S).
    replace (w * N.of_nat (S n)) with (w + w * N.of_nat n) in Hx by lia. rewrite N.pow_add_r in Hx.
    rewrite IH.
    + unfold wfield. rewrite N.mul_0_r, N.shiftr_0_r, N.land_ones, N.shiftr_div_pow2.
      rewrite N.add_comm. symmetry. apply N.div_mod, pow2_nz.
    + rewrite N.shiftr_div_pow2. apply N.div_lt_upper_bound; [apply pow2_nz|auto].
Qed.

Lemma field_join w : forall n f j, (forall i, (i < n)%nat -> f i < 2 ^ w) -> (j < n)%nat ->
  wfield w (wjoin w n f) j = f j.
Proof.
  induction n as [|n IH]; intros f j Hf Hj; [lia|].
  destruct j as [|j].
  - unfold wfield. rewrite N.mul_0_r, N.shiftr_0_r, N.land_ones. cbn [wjoin]. apply split_mod, Hf. lia.
  - rewrite field_S, join_shr_field by (apply Hf; lia). apply (IH (fun i => f (S i))); [|lia]. intros; apply Hf; lia.
Qed.

Lemma field_high w n x i : x < 2 ^ (w * N.of_nat n) -> (n <= i)%nat -> wfield w x i = 0.
Proof.
  intros Hx Hi. unfold wfield. rewrite N.shiftr_div_pow2, N.div_small; [apply N.land_0_l|].
  eapply N.lt_le_trans; [apply Hx|]. apply N.pow_le_mono_r; [lia|]. apply N.mul_le_mono_l. lia.
Qed.

(* popcount / select over fields *)
Fixpoint psum (c : nat -> N) (n : nat) : N :=
  match n with O => 0 | S m => psum c m + c m end.

Lemma psum_shift c : forall n, psum c (S n) = c O + psum (fun i => c (S i)) n.
Proof. induction n as [|n IH]; [cbn; lia|]. cbn [psum] in *. rewrite IH. lia. Qed.

Lemma popcnt_join w : forall n f, (forall i, (i < n)%nat -> f i < 2 ^ w) ->
  popcnt_spec (wjoin w n f) = psum (fun i => popcnt_spec (f i)) n.
Proof.
  induction n as [|n IH]; intros f Hf; [reflexivity|].
  rewrite psum_shift. cbn [wjoin]. rewrite popcnt_split by (apply Hf; lia).
  rewrite IH; auto. intros; apply Hf; lia.
Qed.

Lemma psum_mono c : forall n m, (n <= m)%nat -> psum c n <= psum c m.
Proof. intros n m H. induction H; [lia|]. cbn [psum]. lia. Qed.

Lemma select_join w : forall n f k p, (forall i, (i < n)%nat -> f i < 2 ^ w) -> (p < n)%nat ->
  psum (fun i => popcnt_spec (f i)) p <= k -> k < psum (fun i => popcnt_spec (f i)) (S p) ->
  select_spec (wjoin w n f) k =
  option_map (fun r => r + w * N.of_nat p) (select_spec (f p) (k - psum (fun i => popcnt_spec (f i)) p)).
Proof.
  induction n as [|n IH]; intros f k p Hf Hp H1 H2; [lia|].
  cbn [wjoin]. rewrite select_split by (apply Hf; lia).
  destruct p as [|p].
  - cbn [psum] in *. rewrite N.add_0_l in H2. destruct (N.ltb_spec k (popcnt_spec (f O))); [|lia].
    rewrite N.sub_0_r. destruct (select_spec (f O) k); cbn; [f_equal; lia|reflexivity].
  - rewrite psum_shift in H1. rewrite (psum_shift _ (S p)) in H2. rewrite psum_shift.
    assert (psum (fun i => popcnt_spec (f (S i))) p <= psum (fun i => popcnt_spec (f (S i))) (S p)) by (apply psum_mono; lia).
    destruct (N.ltb_spec k (popcnt_spec (f O))); [lia|].
    rewrite (IH (fun i => f (S i)) (k - popcnt_spec (f O)) p); try lia.
    + replace (k - popcnt_spec (f 0%nat) - psum (fun i : nat => popcnt_spec (f (S i))) p)
        with (k - (popcnt_spec (f 0%nat) + psum (fun i : nat => popcnt_spec (f (S i))) p)) by lia.
      destruct (select_spec (f (S p)) _); cbn; [f_equal; lia|reflexivity].
    + intros; apply Hf; lia.
Qed.

(* locating the wfield that contains the k-th one *)
Lemma psum_locate c : forall n k, k < psum c n -> exists p, (p < n)%nat /\ psum c p <= k /\ k < psum c (S p).
Proof.
  induction n as [|n IH]; intros k Hk; [cbn in Hk; lia|].
  destruct (N.lt_ge_cases k (psum c n)) as [H|H].
  - destruct (IH k H) as [p [? ?]]. exists p. split; [lia|auto].
  - exists n. split; [lia|]. split; auto.
Qed.


(* ================= byte_counts and popcount ================= *)

(* ---------- finite sweeps ---------- *)
Definition upto (n : nat) : list N := map N.of_nat (seq 0 n).
Lemma in_upto n a : a < N.of_nat n -> In a (upto n).
Proof.
  intro H. unfold upto. apply in_map_iff. exists (N.to_nat a). split; [apply N2Nat.id|].
  apply in_seq. lia.
Qed.
Lemma sweep1 n (P : N -> bool) : forallb P (upto n) = true -> forall a, a < N.of_nat n -> P a = true.
Proof. intros H a Ha. rewrite forallb_forall in H. apply H, in_upto, Ha. Qed.
Lemma sweep2 n m (P : N -> N -> bool) :
  forallb (fun a => forallb (P a) (upto m)) (upto n) = true ->
  forall a b, a < N.of_nat n -> b < N.of_nat m -> P a b = true.
Proof.
  intros H a b Ha Hb. apply (sweep1 m (P a)); auto. apply (sweep1 n (fun a => forallb (P a) (upto m))); auto.
Qed.

(* ---------- more wjoin lemmas: shifts that cross wfield boundaries ---------- *)
Lemma land_shl a m s : N.land a (2 ^ s * m) = 2 ^ s * N.land (N.shiftr a s) m.
Proof.
  rewrite !(N.mul_comm (2 ^ s)), <- !N.shiftl_mul_pow2. apply N.bits_inj. intro i.
  rewrite N.land_spec. destruct (N.lt_ge_cases i s).
  - rewrite !N.shiftl_spec_low by auto. apply andb_false_r.
  - rewrite !N.shiftl_spec_high' by auto. rewrite N.land_spec, N.shiftr_spec'. do 2 f_equal. lia.
Qed.

Lemma join_shr_mask w s n f m : s <= w -> m < 2 ^ (w - s) -> (forall i, (i < n)%nat -> f i < 2 ^ w) ->
  N.land (N.shiftr (wjoin w n f) s) (wjoin w n (fun _ => m)) = wjoin w n (fun i => N.land (N.shiftr (f i) s) m).
Proof.
  intros Hs Hm Hf.
  assert (E : wjoin w n (fun _ => m) = N.shiftr (wjoin w n (fun _ => 2 ^ s * m)) s) by (rewrite join_shr_scaled; auto).
  rewrite E, <- N.shiftr_land, join_land; auto.
  - rewrite (join_ext w n _ (fun i => 2 ^ s * N.land (N.shiftr (f i) s) m)) by (intros; apply land_shl).
    apply join_shr_scaled.
  - intros. replace w with (s + (w - s)) by lia. rewrite N.pow_add_r.
    apply N.mul_lt_mono_pos_l; auto. apply pow2_pos.
Qed.

Lemma join_mod_low w s : s <= w -> forall n f, f n = 0 -> wjoin w n f mod 2 ^ s = f O mod 2 ^ s.
Proof.
  intros Hs n f Hn. destruct n as [|n]; cbn [wjoin]; [rewrite Hn; reflexivity|].
  assert (Ew : 2 ^ w = 2 ^ (w - s) * 2 ^ s) by (rewrite <- N.pow_add_r; f_equal; lia).
  rewrite Ew. set (J := wjoin w n _).
  replace (f O + 2 ^ (w - s) * 2 ^ s * J) with (f O + (2 ^ (w - s) * J) * 2 ^ s) by lia.
  apply N.mod_add, pow2_nz.
Qed.

Lemma join_shr w s : s <= w -> forall n f, (forall i, (i < n)%nat -> f i < 2 ^ w) -> f n = 0 ->
  N.shiftr (wjoin w n f) s = wjoin w n (fun i => N.shiftr (f i) s + 2 ^ (w - s) * (f (S i) mod 2 ^ s)).
Proof.
  intros Hs. induction n as [|n IH]; intros f Hf Hn; cbn [wjoin]; [apply N.shiftr_0_l|].
  rewrite <- (IH (fun i => f (S i))) by (auto; intros; apply Hf; lia).
  set (J := wjoin w n (fun i => f (S i))).
  assert (EJ : J mod 2 ^ s = f 1%nat mod 2 ^ s) by (apply (join_mod_low w s Hs n (fun i => f (S i))); auto).
  rewrite <- EJ, !N.shiftr_div_pow2.
  assert (Ew : 2 ^ w = 2 ^ (w - s) * 2 ^ s) by (rewrite <- N.pow_add_r; f_equal; lia).
  pose proof (pow2_nz s) as Hs0.
  rewrite Ew at 1. rewrite <- N.mul_assoc, (N.mul_comm (2 ^ s)), N.mul_assoc, N.div_add by auto.
  rewrite (N.div_mod J (2 ^ s)) at 1 by auto. rewrite Ew. lia.
Qed.

(* ---------- 64-bit helpers ---------- *)
Lemma sub64_exact a b : b <= a -> a < 2 ^ 64 -> sub64 a b = a - b.
Proof.
  intros H Ha. unfold sub64. rewrite (w64_small b) by lia. rewrite w64_mod.
  change (N.shiftl 1 64) with (2 ^ 64). replace (a + 2 ^ 64 - b) with ((a - b) + 1 * 2 ^ 64) by lia.
  rewrite N.mod_add by apply pow2_nz. apply N.mod_small. lia.
Qed.

Lemma join88_lt f : (forall i, (i < 8)%nat -> f i < 2 ^ 8) -> wjoin 8 8 f < 2 ^ 64.
Proof. intro H. apply (join_bound 8 8 f H). Qed.

(* ---------- byte_counts ---------- *)
Definition bcb1 (a : N) : N := a - N.land (N.shiftr a 1) 85.
Definition bcb2 (a : N) : N := N.land a 51 + N.land (N.shiftr a 2) 51.
Definition bcb3 (a b : N) : N := N.land (a + (N.shiftr a 4 + 2 ^ (8 - 4) * (b mod 2 ^ 4))) 15.

Lemma c_M55 : N.shiftr (mul64 10 ones_step_4) 1 = wjoin 8 8 (fun _ => 85). Proof. vm_compute. reflexivity. Qed.
Lemma c_M55' : 6148914691236517205 = wjoin 8 8 (fun _ => 85). Proof. vm_compute. reflexivity. Qed.
Lemma c_M33 : mul64 3 ones_step_4 = wjoin 8 8 (fun _ => 51). Proof. vm_compute. reflexivity. Qed.
Lemma c_M33' : 3689348814741910323 = wjoin 8 8 (fun _ => 51). Proof. vm_compute. reflexivity. Qed.
Lemma c_M0F : mul64 15 ones_step_8 = wjoin 8 8 (fun _ => 15). Proof. vm_compute. reflexivity. Qed.
Lemma c_M0F' : 1085102592571150095 = wjoin 8 8 (fun _ => 15). Proof. vm_compute. reflexivity. Qed.

Lemma sw_b1 : forall a, a < 256 ->
  ((N.land (N.shiftr a 1) 85 <=? a) && (bcb1 a <? 256) && (bcb2 (bcb1 a) <? 256)) = true.
Proof. apply (sweep1 256). vm_compute. reflexivity. Qed.

Lemma sw_b3 : forall a b, a < 256 -> b < 256 ->
  ((bcb2 (bcb1 a) + (N.shiftr (bcb2 (bcb1 a)) 4 + 2 ^ (8 - 4) * (bcb2 (bcb1 b) mod 2 ^ 4)) <? 256)
   && (bcb3 (bcb2 (bcb1 a)) (bcb2 (bcb1 b)) =? popcnt_spec a) && (popcnt_spec a <=? 8)) = true.
Proof. apply (sweep2 256 256). vm_compute. reflexivity. Qed.

Definition bc_steps (x : N) : N :=
  let x := sub64 x (N.land (shr64 x 1) (wjoin 8 8 (fun _ => 85))) in
  let x := add64 (N.land x (wjoin 8 8 (fun _ => 51))) (N.land (shr64 x 2) (wjoin 8 8 (fun _ => 51))) in
  N.land (add64 x (shr64 x 4)) (wjoin 8 8 (fun _ => 15)).

Lemma byte_counts_steps x : byte_counts x = bc_steps x.
Proof.
  assert (E1 : shr64 (N.land x (mul64 10 ones_step_4)) 1 = N.land (shr64 x 1) (wjoin 8 8 (fun _ => 85))).
  { unfold shr64. rewrite N.shiftr_land, c_M55. reflexivity. }
  unfold byte_counts, bc_steps. rewrite E1, c_M33, c_M0F. reflexivity.
Qed.

Lemma bc_steps_join' f : (forall i, f i < 256) -> f 8%nat = 0 ->
  bc_steps (wjoin 8 8 f) = wjoin 8 8 (fun i => popcnt_spec (f i)).
Proof.
  intros Hf' Hf8.
  assert (Hf : forall i, f i < 2 ^ 8) by apply Hf'.
  unfold bc_steps, shr64, add64. cbv zeta.
  (* step 1 *)
  rewrite join_shr_mask by (auto; try reflexivity; lia).
  assert (S1 : forall i, N.land (N.shiftr (f i) 1) 85 <= f i /\ bcb1 (f i) < 256 /\ bcb2 (bcb1 (f i)) < 256).
  { intro i. pose proof (sw_b1 (f i) (Hf' i)). lia. }
  rewrite sub64_exact; [|apply join_le; intros; apply S1|apply join88_lt; auto].
  rewrite join_sub by (intros; apply S1).
  change (fun i => f i - N.land (N.shiftr (f i) 1) 85) with (fun i => bcb1 (f i)).
  (* step 2 *)
  rewrite join_shr_mask by (auto; try reflexivity; try lia; intros; apply S1).
  rewrite join_land by (intros; try apply S1; reflexivity).
  rewrite join_add. change (fun i => N.land (bcb1 (f i)) 51 + N.land (N.shiftr (bcb1 (f i)) 2) 51) with (fun i => bcb2 (bcb1 (f i))).
  rewrite (w64_small (wjoin 8 8 (fun i => bcb2 (bcb1 (f i))))) by (apply join88_lt; intros; apply S1).
  (* step 3 *)
  rewrite (join_shr 8 4) by (first [lia | intros; apply S1 | cbv beta; rewrite Hf8; reflexivity]).
  rewrite join_add.
  assert (S3 : forall i j, bcb2 (bcb1 (f i)) + (N.shiftr (bcb2 (bcb1 (f i))) 4 + 2 ^ (8 - 4) * (bcb2 (bcb1 (f j)) mod 2 ^ 4)) < 256
     /\ bcb3 (bcb2 (bcb1 (f i))) (bcb2 (bcb1 (f j))) = popcnt_spec (f i)).
  { intros i j. pose proof (sw_b3 (f i) (f j) (Hf' i) (Hf' j)). lia. }
  rewrite w64_small by (apply join88_lt; intros; apply S3).
  rewrite join_land by (intros; try apply S3; reflexivity).
  apply join_ext. intros i Hi. apply S3.
Qed.

Lemma bc_steps_join x : x < 2 ^ 64 ->
  bc_steps x = wjoin 8 8 (fun i => popcnt_spec (wfield 8 x i)).
Proof.
  intro Hx. rewrite <- (join_field 8 8 x) at 1 by auto. apply bc_steps_join'.
  - intro; apply field_lt.
  - apply (field_high 8 8); auto.
Qed.

Lemma popcnt_field8_le x i : popcnt_spec (wfield 8 x i) <= 8.
Proof. apply popcnt_bound, field_lt. Qed.

Lemma byte_counts_join x : x < 2 ^ 64 ->
  byte_counts x = wjoin 8 8 (fun i => popcnt_spec (wfield 8 x i)).
Proof. intro H. rewrite byte_counts_steps. apply bc_steps_join; auto. Qed.

Definition byte_of (x j : N) : N := N.land (N.shiftr x (8 * j)) 255.

Lemma byte_of_field x j : byte_of x j = wfield 8 x (N.to_nat j).
Proof. unfold byte_of, wfield. rewrite N2Nat.id. reflexivity. Qed.

Lemma byte_counts_correct : forall x j, x < 2 ^ 64 -> j < 8 ->
  byte_of (byte_counts x) j = popcnt_spec (byte_of x j).
Proof.
  intros x j Hx Hj. rewrite !byte_of_field, byte_counts_join by auto.
  apply (field_join 8 8); [|lia]. intros i _. pose proof (popcnt_field8_le x i).
  change (2 ^ 8) with 256. lia.
Qed.

Lemma popcnt_fields8 x : x < 2 ^ 64 -> popcnt_spec x = psum (fun i => popcnt_spec (wfield 8 x i)) 8.
Proof.
  intro Hx. rewrite <- (join_field 8 8 x) at 1 by auto. apply popcnt_join. intros; apply field_lt.
Qed.

(* ---------- popcount ---------- *)
Lemma popcount_steps x : popcount x = shr64 (mul64 ones_step_8 (bc_steps x)) 56.
Proof. unfold popcount, bc_steps. rewrite <- c_M55', <- c_M33', <- c_M0F'. reflexivity. Qed.

Lemma sum_bytes_top c0 c1 c2 c3 c4 c5 c6 c7 :
  c0 <= 8 -> c1 <= 8 -> c2 <= 8 -> c3 <= 8 -> c4 <= 8 -> c5 <= 8 -> c6 <= 8 -> c7 <= 8 ->
  ((72340172838076673 * (c0 + 2^8 * (c1 + 2^8 * (c2 + 2^8 * (c3 + 2^8 * (c4 + 2^8 * (c5 + 2^8 * (c6 + 2^8 * (c7 + 2^8 * 0))))))))) mod 2^64) / 2^56
  = c0 + c1 + c2 + c3 + c4 + c5 + c6 + c7.
Proof.
  intros.
  set (L := c0 + 2^8 * ((c0+c1) + 2^8 * ((c0+c1+c2) + 2^8 * ((c0+c1+c2+c3) + 2^8 * ((c0+c1+c2+c3+c4) + 2^8 * ((c0+c1+c2+c3+c4+c5) + 2^8 * (c0+c1+c2+c3+c4+c5+c6))))))).
  set (T := c0 + c1 + c2 + c3 + c4 + c5 + c6 + c7).
  set (Hh := (c1+c2+c3+c4+c5+c6+c7) + 2^8 * ((c2+c3+c4+c5+c6+c7) + 2^8 * ((c3+c4+c5+c6+c7) + 2^8 * ((c4+c5+c6+c7) + 2^8 * ((c5+c6+c7) + 2^8 * ((c6+c7) + 2^8 * c7)))))).
  match goal with |- (?A mod _) / _ = _ => replace A with ((L + 2^56 * T) + 2^64 * Hh) by (unfold L, T, Hh; lia) end.
  assert (HL : L < 2^56) by (unfold L; lia).
  assert (HT : T < 2^8) by (unfold T; lia).
  rewrite split_mod by lia. apply split_div; auto.
Qed.

Lemma popcount_correct : forall x, x < 2 ^ 64 -> popcount x = popcnt_spec x.
Proof.
  intros x Hx. rewrite popcount_steps, bc_steps_join, popcnt_fields8 by auto.
  unfold shr64, mul64. rewrite w64_mod, N.shiftr_div_pow2. cbn [wjoin psum]. unfold ones_step_8.
  rewrite sum_bytes_top by apply popcnt_field8_le. lia.
Qed.


(* ================= msb ================= *)

(* ---------- msb ---------- *)
Definition sat_inv (l y r : N) : Prop :=
  (forall i, l < i -> N.testbit y i = false) /\ (forall i, i <= l -> l < i + r -> N.testbit y i = true).

Lemma sat_inv_step l y r s : s <= r -> sat_inv l y r -> sat_inv l (N.lor y (shr64 y s)) (r + s).
Proof.
  intros Hs [H1 H2]. unfold shr64. split; intros i Hi; rewrite N.lor_spec, N.shiftr_spec'.
  - rewrite !H1 by lia. reflexivity.
  - intro Hr. destruct (N.lt_ge_cases l (i + r)).
    + rewrite H2 by lia. reflexivity.
    + rewrite (H2 (i + s)) by lia. apply orb_true_r.
Qed.

Lemma sat_inv_init x : x <> 0 -> sat_inv (N.log2 x) x 1.
Proof.
  intro Hx. split.
  - intros i Hi. apply N.bits_above_log2; auto.
  - intros i H1 H2. assert (i = N.log2 x) by lia. subst. apply N.bit_log2; auto.
Qed.

Lemma sat_inv_final l y : l < 64 -> sat_inv l y 64 -> y = N.ones (N.succ l).
Proof.
  intros Hl [H1 H2]. apply N.bits_inj. intro i. destruct (N.le_gt_cases i l).
  - rewrite H2, N.ones_spec_low by lia. reflexivity.
  - rewrite H1, N.ones_spec_high by lia. reflexivity.
Qed.

Lemma isolate_msb l : N.lxor (N.ones (N.succ l)) (shr64 (N.ones (N.succ l)) 1) = 2 ^ l.
Proof.
  unfold shr64. apply N.bits_inj. intro i. rewrite N.lxor_spec, N.shiftr_spec', N.pow2_bits_eqb.
  destruct (N.lt_trichotomy i l) as [H|[H|H]].
  - rewrite !N.ones_spec_low by lia. destruct (N.eqb_spec l i); [lia|reflexivity].
  - subst. rewrite N.ones_spec_low, N.ones_spec_high, N.eqb_refl by lia. reflexivity.
  - rewrite !N.ones_spec_high by lia. destruct (N.eqb_spec l i); [lia|reflexivity].
Qed.

Lemma bit_position_pow2 : forall l, l < 64 -> bit_position (2 ^ l) = l.
Proof.
  intros l Hl. apply N.eqb_eq. revert l Hl. apply (sweep1 64). vm_compute. reflexivity.
Qed.

Lemma msb_0 : msb 0 = 0. Proof. reflexivity. Qed.

Lemma msb_log2 : forall x, 0 < x -> x < 2 ^ 64 -> msb x = N.log2 x.
Proof.
  intros x H0 Hx. unfold msb. destruct (N.eqb_spec x 0) as [He|Hn]; [lia|]. cbv zeta.
  assert (Hl : N.log2 x < 64) by (apply N.log2_lt_pow2; auto).
  pose proof (sat_inv_init x Hn) as I0.
  rename I0 into I6.
  apply (sat_inv_step _ _ _ 1) in I6; [|lia].
  apply (sat_inv_step _ _ _ 2) in I6; [|lia].
  apply (sat_inv_step _ _ _ 4) in I6; [|lia].
  apply (sat_inv_step _ _ _ 8) in I6; [|lia].
  apply (sat_inv_step _ _ _ 16) in I6; [|lia].
  apply (sat_inv_step _ _ _ 32) in I6; [|lia].
  change (1 + 1 + 2 + 4 + 8 + 16 + 32) with 64 in I6.
  apply sat_inv_final in I6; auto.
  rewrite I6, isolate_msb. apply bit_position_pow2; auto.
Qed.

Lemma msb_intr_log2 : forall x, 0 < x -> x < 2 ^ 64 -> msb_intr x = N.log2 x.
Proof.
  intros x H0 Hx. unfold msb_intr, clz_spec. destruct (N.eqb_spec x 0) as [He|Hn]; [lia|].
  assert (Hl : N.log2 x < 64) by (apply N.log2_lt_pow2; auto).
  rewrite sub64_exact; lia.
Qed.

Lemma msb_correct : forall x, x < 2 ^ 64 -> msb x = msb_intr x.
Proof.
  intros x Hx. destruct (N.eq_dec x 0) as [->|Hn]; [reflexivity|].
  rewrite msb_log2, msb_intr_log2 by lia. reflexivity.
Qed.


(* ================= select_in_word (broadword arm) ================= *)

(* ---------- select_in_word (broadword arm) ---------- *)
Lemma lor_split k a b : a < 2 ^ k -> N.lor a (2 ^ k * b) = a + 2 ^ k * b.
Proof.
  intro H. generalize (bitop_split N.lor orb k a 0 0 b bitop_lor H (pow2_pos k)).
  rewrite N.mul_0_r, N.add_0_r, N.add_0_l, N.lor_0_r, N.lor_0_l. auto.
Qed.

Lemma prefix_bytes c0 c1 c2 c3 c4 c5 c6 c7 :
  c0 <= 8 -> c1 <= 8 -> c2 <= 8 -> c3 <= 8 -> c4 <= 8 -> c5 <= 8 -> c6 <= 8 -> c7 <= 8 ->
  ((c0 + 2^8 * (c1 + 2^8 * (c2 + 2^8 * (c3 + 2^8 * (c4 + 2^8 * (c5 + 2^8 * (c6 + 2^8 * (c7 + 2^8 * 0)))))))) * 72340172838076673) mod 2^64
  = c0 + 2^8 * ((c0+c1) + 2^8 * ((c0+c1+c2) + 2^8 * ((c0+c1+c2+c3) + 2^8 * ((c0+c1+c2+c3+c4) + 2^8 * ((c0+c1+c2+c3+c4+c5) + 2^8 * ((c0+c1+c2+c3+c4+c5+c6) + 2^8 * (c0+c1+c2+c3+c4+c5+c6+c7))))))).
Proof.
  intros.
  set (P := c0 + 2^8 * ((c0+c1) + 2^8 * ((c0+c1+c2) + 2^8 * ((c0+c1+c2+c3) + 2^8 * ((c0+c1+c2+c3+c4) + 2^8 * ((c0+c1+c2+c3+c4+c5) + 2^8 * ((c0+c1+c2+c3+c4+c5+c6) + 2^8 * (c0+c1+c2+c3+c4+c5+c6+c7)))))))).
  set (Hh := (c1+c2+c3+c4+c5+c6+c7) + 2^8 * ((c2+c3+c4+c5+c6+c7) + 2^8 * ((c3+c4+c5+c6+c7) + 2^8 * ((c4+c5+c6+c7) + 2^8 * ((c5+c6+c7) + 2^8 * ((c6+c7) + 2^8 * c7)))))).
  match goal with |- ?A mod _ = _ => replace A with (P + 2^64 * Hh) by (unfold P, Hh; lia) end.
  apply split_mod. unfold P. lia.
Qed.

Lemma siw_byte_sums c : (forall i, (i < 8)%nat -> c i <= 8) ->
  mul64 (wjoin 8 8 c) ones_step_8 = wjoin 8 8 (fun i => psum c (S i)).
Proof.
  intro Hc. unfold mul64, ones_step_8. rewrite w64_mod. cbn [wjoin psum].
  rewrite prefix_bytes by (apply Hc; lia). lia.
Qed.

Lemma c_ones8 : ones_step_8 = wjoin 8 8 (fun _ => 1). Proof. vm_compute. reflexivity. Qed.
Lemma c_msbs8 : msbs_step_8 = wjoin 8 8 (fun _ => 128). Proof. vm_compute. reflexivity. Qed.

Lemma siw_k_step k : k < 256 -> mul64 k ones_step_8 = wjoin 8 8 (fun _ => k).
Proof.
  intro Hk. unfold mul64. rewrite c_ones8, join_scale.
  rewrite (join_ext 8 8 _ (fun _ => k)) by (intros; lia).
  apply w64_small, join88_lt. intros. apply Hk.
Qed.

Lemma sw_geq : forall k s, k < 64 -> s < 65 ->
  ((s <=? N.lor k 128) && (N.lor k 128 <? 256)
   && (N.land (N.lor k 128 - s) 128 =? (if s <=? k then 128 else 0))) = true.
Proof. apply (sweep2 64 65). vm_compute. reflexivity. Qed.

Lemma siw_geq k S : k < 64 -> (forall i, (i < 8)%nat -> S i <= 64) ->
  N.land (sub64 (N.lor (wjoin 8 8 (fun _ => k)) msbs_step_8) (wjoin 8 8 S)) msbs_step_8
  = wjoin 8 8 (fun i => if S i <=? k then 128 else 0).
Proof.
  intros Hk HS. rewrite c_msbs8.
  assert (F : forall i, (i < 8)%nat -> S i <= N.lor k 128 /\ N.lor k 128 < 256
     /\ N.land (N.lor k 128 - S i) 128 = (if S i <=? k then 128 else 0)).
  { intros i Hi. pose proof (sw_geq k (S i) Hk ltac:(specialize (HS i Hi); lia)). lia. }
  pose proof (F O ltac:(lia)) as [_ [F0 _]].
  rewrite join_lor by (intros; try reflexivity; change (2 ^ 8) with 256; lia).
  rewrite sub64_exact; [|apply join_le; intros; apply F; auto|apply join88_lt; intros; apply F0].
  rewrite join_sub by (intros; apply F; auto).
  rewrite join_land; [|intros i Hi; specialize (F i Hi); change (2 ^ 8) with 256; lia|reflexivity].
  apply join_ext. intros; apply F; auto.
Qed.

Lemma siw_count : forall p, (p < 8)%nat ->
  popcount (wjoin 8 8 (fun i => if (i <? p)%nat then 128 else 0)) = N.of_nat p.
Proof.
  intros p Hp. do 8 (destruct p as [|p]; [vm_compute; reflexivity|]). lia.
Qed.

Lemma shl8_bytes s0 s1 s2 s3 s4 s5 s6 s7 :
  s0 < 256 -> s1 < 256 -> s2 < 256 -> s3 < 256 -> s4 < 256 -> s5 < 256 -> s6 < 256 -> s7 < 256 ->
  ((s0 + 2^8 * (s1 + 2^8 * (s2 + 2^8 * (s3 + 2^8 * (s4 + 2^8 * (s5 + 2^8 * (s6 + 2^8 * (s7 + 2^8 * 0)))))))) * 2^8) mod 2^64
  = 0 + 2^8 * (s0 + 2^8 * (s1 + 2^8 * (s2 + 2^8 * (s3 + 2^8 * (s4 + 2^8 * (s5 + 2^8 * (s6 + 2^8 * 0))))))).
Proof.
  intros.
  set (P := 0 + 2^8 * (s0 + 2^8 * (s1 + 2^8 * (s2 + 2^8 * (s3 + 2^8 * (s4 + 2^8 * (s5 + 2^8 * (s6 + 2^8 * 0)))))))).
  match goal with |- ?A mod _ = _ => replace A with (P + 2^64 * s7) by (unfold P; lia) end.
  apply split_mod. unfold P. lia.
Qed.

Lemma siw_shl8 S : (forall i, (i < 8)%nat -> S i < 256) ->
  shl64 (wjoin 8 8 S) 8 = wjoin 8 8 (fun i => match i with O => 0 | Datatypes.S j => S j end).
Proof.
  intro HS. unfold shl64. rewrite w64_mod, N.shiftl_mul_pow2. cbn [wjoin].
  apply shl8_bytes; apply HS; lia.
Qed.

Lemma sw_table : forall b r, b < 256 -> r < 8 ->
  (if r <? popcnt_spec b
   then match select_spec b r with
        | Some v => v =? tbl_get select_in_byte_tbl (b + 2 ^ 8 * r)
        | None => false end
   else true) = true.
Proof. apply (sweep2 256 8). vm_compute. reflexivity. Qed.

Lemma select_in_byte_correct b r : b < 256 -> r < popcnt_spec b ->
  select_spec b r = Some (tbl_get select_in_byte_tbl (b + 2 ^ 8 * r)).
Proof.
  intros Hb Hr. assert (popcnt_spec b <= 8) by (apply popcnt_bound; apply Hb).
  pose proof (sw_table b r Hb ltac:(lia)) as H1.
  destruct (N.ltb_spec r (popcnt_spec b)); [|lia].
  destruct (select_spec b r); [|discriminate]. f_equal. apply N.eqb_eq; auto.
Qed.

Lemma select_in_word_correct : forall x k, x < 2 ^ 64 -> k < popcnt_spec x ->
  select_spec x k = Some (select_in_word x k).
Proof.
  intros x k Hx Hk.
  set (f := wfield 8 x). set (c := fun i => popcnt_spec (f i)).
  assert (Hf : forall i, f i < 2 ^ 8) by (intro; apply field_lt).
  assert (Hc : forall i, c i <= 8) by (intro; apply popcnt_field8_le).
  assert (Ex : wjoin 8 8 f = x) by (apply (join_field 8 8); auto).
  assert (Epop : popcnt_spec x = psum c 8) by (apply popcnt_fields8; auto).
  assert (Hpop : popcnt_spec x <= 64) by (apply popcnt_le_64; auto).
  assert (HS : forall i, (i <= 8)%nat -> psum c i <= 64).
  { intros i Hi. rewrite Epop in Hpop. pose proof (psum_mono c i 8 Hi). lia. }
  rewrite Epop in Hk. destruct (psum_locate c 8 k Hk) as [p [Hp [Hlo Hhi]]].
  (* the specification side *)
  rewrite <- Ex at 1. rewrite (select_join 8 8 f k p) by auto. fold c.
  assert (Hr : k - psum c p < popcnt_spec (f p)) by (cbn [psum] in Hhi; unfold c in *; lia).
  rewrite (select_in_byte_correct (f p) (k - psum c p)) by (auto; apply Hf).
  cbn [option_map]. f_equal.
  (* the implementation side *)
  unfold select_in_word. cbv zeta.
  rewrite (byte_counts_join x Hx). fold f. fold c.
  rewrite siw_byte_sums by auto.
  rewrite siw_k_step by lia.
  set (S := fun i => psum c (Datatypes.S i)).
  assert (HS' : forall i, (i < 8)%nat -> S i <= 64) by (intros; apply HS; lia).
  rewrite siw_geq by (auto; lia).
  rewrite (join_ext 8 8 _ (fun i => if (i <? p)%nat then 128 else 0)).
  2:{ intros i Hi. unfold S.
      destruct (Nat.ltb_spec i p), (N.leb_spec (psum c (Datatypes.S i)) k); try reflexivity.
      - pose proof (psum_mono c (Datatypes.S i) p ltac:(lia)). lia.
      - pose proof (psum_mono c (Datatypes.S p) (Datatypes.S i) ltac:(lia)). lia. }
  rewrite siw_count by auto.
  assert (Eplace : mul64 (N.of_nat p) 8 = 8 * N.of_nat p).
  { unfold mul64. rewrite w64_small; lia. }
  rewrite Eplace.
  rewrite siw_shl8 by (intros i Hi; specialize (HS' i Hi); lia).
  rewrite (join_ext 8 8 _ (psum c)) by (intros [|i] Hi; reflexivity).
  unfold shr64. change 255 with (N.ones 8). fold (wfield 8 (wjoin 8 8 (psum c)) p). fold (wfield 8 x p). fold f.
  rewrite field_join; [|intros i Hi; specialize (HS i ltac:(lia)); change (2 ^ 8) with 256; lia|auto].
  rewrite sub64_exact by lia.
  unfold shl64. rewrite N.shiftl_mul_pow2, w64_small by lia.
  rewrite (N.mul_comm _ (2 ^ 8)), lor_split by auto.
  unfold add64.
  assert (tbl_get select_in_byte_tbl (f p + 2 ^ 8 * (k - psum c p)) < 8).
  { apply (select_range (f p) (k - psum c p) _ 8); [apply Hf|].
    apply select_in_byte_correct; auto. }
  rewrite w64_small; lia.
Qed.

Lemma select_in_word_agree : forall x k, x < 2 ^ 64 -> k < popcnt_spec x ->
  select_in_word x k = select_in_word_intr x k.
Proof.
  intros x k Hx Hk. pose proof (select_in_word_correct x k Hx Hk) as A.
  rewrite (select_in_word_intr_correct x k Hx Hk) in A. congruence.
Qed.


(* ================= uleq_step_9 ================= *)

(* ---------- uleq_step_9 ---------- *)
Definition field9 (x j : N) : N := N.land (N.shiftr x (9 * j)) 511.

Lemma field9_field x j : field9 x j = wfield 9 x (N.to_nat j).
Proof. unfold field9, wfield. rewrite N2Nat.id. reflexivity. Qed.

Definition u9 (a b : N) : N :=
  N.land (N.lxor (N.lor (N.lor b 256 - N.land a 255) (N.lxor a b)) (N.land a (N.lxor b 511))) 256.

Lemma sw_u9 : forall a b, a < 512 -> b < 512 ->
  ((N.land a 255 <=? N.lor b 256) && (N.lor b 256 - N.land a 255 <? 512) && (N.lor b 256 <? 512)
   && (u9 a b =? 2 ^ 8 * (if a <=? b then 1 else 0))) = true.
Proof. apply (sweep2 512 512). vm_compute. reflexivity. Qed.

Lemma land_low63 x z : x < 2 ^ 63 -> N.land x z = N.land x (N.land (N.ones 63) z).
Proof.
  intro H. rewrite N.land_assoc. f_equal. rewrite N.land_ones. symmetry. apply N.mod_small; auto.
Qed.

Lemma c_msbs9 : msbs_step_9 = wjoin 9 7 (fun _ => 256). Proof. vm_compute. reflexivity. Qed.
Lemma c_nmsbs9 : N.land (N.ones 63) (not64 msbs_step_9) = wjoin 9 7 (fun _ => 255).
Proof. vm_compute. reflexivity. Qed.
Lemma c_ones63 : N.ones 63 = wjoin 9 7 (fun _ => 511). Proof. vm_compute. reflexivity. Qed.

Lemma not64_low63 y : y < 2 ^ 63 -> N.land (N.ones 63) (not64 y) = N.lxor y (N.ones 63).
Proof.
  intro Hy. unfold not64. rewrite w64_small by (eapply N.lt_trans; [apply Hy|reflexivity]).
  unfold mask64. apply N.bits_inj. intro i. rewrite N.land_spec, !N.lxor_spec.
  destruct (N.lt_ge_cases i 63).
  - rewrite N.ones_spec_low by auto. rewrite N.ones_spec_low by lia. reflexivity.
  - rewrite (N.ones_spec_high 63) by auto. rewrite (bits_above_pow2 y 63 i) by auto. reflexivity.
Qed.

Lemma uleq_step_9_join x y : x < 2 ^ 63 -> y < 2 ^ 63 ->
  uleq_step_9 x y = wjoin 9 7 (fun j => if wfield 9 x j <=? wfield 9 y j then 1 else 0).
Proof.
  intros Hx Hy. set (fx := wfield 9 x). set (fy := wfield 9 y).
  assert (Hfx : forall i, fx i < 2 ^ 9) by (intro; apply field_lt).
  assert (Hfy : forall i, fy i < 2 ^ 9) by (intro; apply field_lt).
  assert (F : forall i, N.land (fx i) 255 <= N.lor (fy i) 256 /\ N.lor (fy i) 256 - N.land (fx i) 255 < 2 ^ 9
     /\ N.lor (fy i) 256 < 2 ^ 9 /\ u9 (fx i) (fy i) = 2 ^ 8 * (if fx i <=? fy i then 1 else 0)).
  { intro i. pose proof (sw_u9 (fx i) (fy i) (Hfx i) (Hfy i)). change (2 ^ 9) with 512. lia. }
  assert (Ex : x = wjoin 9 7 fx) by (symmetry; apply (join_field 9 7); auto).
  assert (Ey : y = wjoin 9 7 fy) by (symmetry; apply (join_field 9 7); auto).
  unfold uleq_step_9.
  rewrite (land_low63 x (not64 msbs_step_9)), (land_low63 x (not64 y)) by auto.
  rewrite c_nmsbs9, not64_low63, c_ones63, c_msbs9 by auto.
  clearbody fx fy. subst x y.
  assert (B255 : forall i : nat, (i < 7)%nat -> 255 < 2 ^ 9) by (intros; reflexivity).
  assert (B256 : forall i : nat, (i < 7)%nat -> 256 < 2 ^ 9) by (intros; reflexivity).
  assert (B511 : forall i : nat, (i < 7)%nat -> 511 < 2 ^ 9) by (intros; reflexivity).
  rewrite (join_lor 9 7 fy), (join_land 9 7 fx (fun _ => 255)), (join_lxor 9 7 fy (fun _ => 511)) by auto.
  rewrite (join_land 9 7 fx) by (auto; intros; apply (bitop_lt N.lxor xorb); auto using bitop_lxor; reflexivity).
  rewrite (join_lxor 9 7 fx fy) by auto.
  rewrite sub64_exact.
  2:{ apply join_le. intros; apply F. }
  2:{ eapply N.lt_trans; [apply (join_bound 9 7); intros; apply F|reflexivity]. }
  rewrite join_sub by (intros; apply F).
  rewrite join_lor by (intros; try apply F; apply (bitop_lt N.lxor xorb); auto using bitop_lxor).
  rewrite join_lxor.
  2:{ intros. apply (bitop_lt N.lor orb); auto using bitop_lor; try apply F.
      apply (bitop_lt N.lxor xorb); auto using bitop_lxor. }
  2:{ intros. apply (bitop_lt N.land andb); auto using bitop_land.
      apply (bitop_lt N.lxor xorb); auto using bitop_lxor. reflexivity. }
  rewrite join_land; auto.
  2:{ intros. apply (bitop_lt N.lxor xorb); auto using bitop_lxor.
      - apply (bitop_lt N.lor orb); auto using bitop_lor; try apply F.
        apply (bitop_lt N.lxor xorb); auto using bitop_lxor.
      - apply (bitop_lt N.land andb); auto using bitop_land.
        apply (bitop_lt N.lxor xorb); auto using bitop_lxor. reflexivity. }
  change (fun i => N.land (N.lxor (N.lor (N.lor (fy i) 256 - N.land (fx i) 255) (N.lxor (fx i) (fy i)))
                      (N.land (fx i) (N.lxor (fy i) 511))) 256) with (fun i => u9 (fx i) (fy i)).
  rewrite (join_ext 9 7 _ (fun i => 2 ^ 8 * (if fx i <=? fy i then 1 else 0))) by (intros; apply F).
  unfold shr64. apply join_shr_scaled.
Qed.

(* per-wfield statement: wfield j of the result is the 0/1 outcome of the comparison *)
Lemma uleq_step_9_lt x y : x < 2 ^ 63 -> y < 2 ^ 63 -> uleq_step_9 x y < 2 ^ 63.
Proof.
  intros Hx Hy. rewrite uleq_step_9_join by auto. apply (join_bound 9 7).
  intros. destruct (_ <=? _); reflexivity.
Qed.

Lemma uleq_step_9_field : forall x y j, x < 2 ^ 63 -> y < 2 ^ 63 -> j < 7 ->
  field9 (uleq_step_9 x y) j = if field9 x j <=? field9 y j then 1 else 0.
Proof.
  intros x y j Hx Hy Hj. rewrite !field9_field, uleq_step_9_join by auto.
  rewrite (field_join 9 7); [reflexivity| |lia].
  intros. destruct (_ <=? _); reflexivity.
Qed.

Lemma testbit_field w x i : 0 < w -> N.testbit x i = N.testbit (wfield w x (N.to_nat (i / w))) (i mod w).
Proof.
  intro Hw. unfold wfield. rewrite N2Nat.id, N.land_spec, N.shiftr_spec', N.ones_spec_low by (apply N.mod_lt; lia).
  rewrite andb_true_r. f_equal. rewrite N.add_comm. apply N.div_mod. lia.
Qed.

(* bit 9*j of the result (j < 7) is the comparison of the j-th fields; every other bit is 0 *)
Lemma uleq_step_9_bits : forall x y i, x < 2 ^ 63 -> y < 2 ^ 63 ->
  N.testbit (uleq_step_9 x y) i =
  if (i mod 9 =? 0) && (i / 9 <? 7) then field9 x (i / 9) <=? field9 y (i / 9) else false.
Proof.
  intros x y i Hx Hy. rewrite (testbit_field 9 _ i) by lia.
  destruct (N.ltb_spec (i / 9) 7) as [Hj|Hj].
  - rewrite <- field9_field, uleq_step_9_field by auto.
    destruct (field9 x (i / 9) <=? field9 y (i / 9)).
    + destruct (N.eqb_spec (i mod 9) 0) as [->|Hn]; [reflexivity|].
      change 1 with (2 ^ 0). rewrite N.pow2_bits_eqb. destruct (N.eqb_spec 0 (i mod 9)); [lia|reflexivity].
    + rewrite N.bits_0, andb_true_r. destruct (_ =? _); reflexivity.
  - rewrite (field_high 9 7) by (auto using uleq_step_9_lt; lia).
    rewrite N.bits_0, andb_false_r. reflexivity.
Qed.

Lemma uleq_step_9_bit : forall x y j, x < 2 ^ 63 -> y < 2 ^ 63 -> j < 7 ->
  N.testbit (uleq_step_9 x y) (9 * j) = (field9 x j <=? field9 y j).
Proof.
  intros x y j Hx Hy Hj. rewrite uleq_step_9_bits by auto.
  replace (9 * j mod 9) with 0 by (rewrite N.mul_comm, N.mod_mul; lia).
  replace (9 * j / 9) with j by (rewrite N.mul_comm, N.div_mul; lia).
  destruct (N.ltb_spec j 7); [reflexivity|lia].
Qed.

(* the number of fields of x that are <= the same wfield of y *)
Lemma uleq_step_9_count : forall x y, x < 2 ^ 63 -> y < 2 ^ 63 ->
  N.land (shr64 (mul64 (uleq_step_9 x y) ones_step_9) 54) 7
  = N.of_nat (length (filter (fun j => field9 x j <=? field9 y j) [0;1;2;3;4;5;6])).
Proof.
  intros x y Hx Hy. rewrite uleq_step_9_join by auto. cbn [wjoin filter].
  change (wfield 9 x 0%nat) with (field9 x 0). change (wfield 9 y 0%nat) with (field9 y 0).
  change (wfield 9 x 1%nat) with (field9 x 1). change (wfield 9 y 1%nat) with (field9 y 1).
  change (wfield 9 x 2%nat) with (field9 x 2). change (wfield 9 y 2%nat) with (field9 y 2).
  change (wfield 9 x 3%nat) with (field9 x 3). change (wfield 9 y 3%nat) with (field9 y 3).
  change (wfield 9 x 4%nat) with (field9 x 4). change (wfield 9 y 4%nat) with (field9 y 4).
  change (wfield 9 x 5%nat) with (field9 x 5). change (wfield 9 y 5%nat) with (field9 y 5).
  change (wfield 9 x 6%nat) with (field9 x 6). change (wfield 9 y 6%nat) with (field9 y 6).
  destruct (field9 x 0 <=? field9 y 0), (field9 x 1 <=? field9 y 1), (field9 x 2 <=? field9 y 2),
    (field9 x 3 <=? field9 y 3), (field9 x 4 <=? field9 y 4), (field9 x 5 <=? field9 y 5),
    (field9 x 6 <=? field9 y 6); vm_compute; reflexivity.
Qed.


(* ================= further side facts ================= *)

(* ---------- further side facts for rank/select proofs ---------- *)
Lemma w64_lt x : w64 x < 2 ^ 64.
Proof. rewrite w64_mod. apply N.mod_lt, pow2_nz. Qed.

Lemma popcount_le_64 x : x < 2 ^ 64 -> popcount x <= 64.
Proof. intro H. rewrite popcount_correct by auto. apply popcnt_le_64; auto. Qed.

(* rank inside a word: popcount (w << (64 - j)) counts the set bits of w below position j *)
Lemma popcount_low_bits : forall w j, w < 2 ^ 64 -> 0 < j -> j < 64 ->
  popcount (shl64 w (64 - j)) = popcnt_spec (N.land w (N.ones j)).
Proof.
  intros w j Hw H0 Hj. rewrite popcount_correct by (unfold shl64; apply w64_lt).
  apply popcnt_low_bits; auto.
Qed.

Lemma popcnt_b2n b : popcnt_spec (N.b2n b) = N.b2n b.
Proof. destruct b; reflexivity. Qed.

Lemma popcnt_low_succ x j :
  popcnt_spec (N.land x (N.ones (N.succ j))) = popcnt_spec (N.land x (N.ones j)) + N.b2n (N.testbit x j).
Proof.
  rewrite !N.land_ones, N.pow_succ_r', (N.mul_comm 2), N.mod_mul_r by (try apply pow2_nz; lia).
  rewrite popcnt_split by (apply N.mod_lt, pow2_nz).
  rewrite <- N.testbit_spec', popcnt_b2n. reflexivity.
Qed.

Lemma popcnt_low_le x j : popcnt_spec (N.land x (N.ones j)) <= j.
Proof. rewrite N.land_ones. apply popcnt_bound, N.mod_lt, pow2_nz. Qed.

Lemma popcnt_low_all x n : x < 2 ^ n -> popcnt_spec (N.land x (N.ones n)) = popcnt_spec x.
Proof. intro H. rewrite N.land_ones, N.mod_small; auto. Qed.

Lemma popcnt_low_mono x i j : i <= j -> popcnt_spec (N.land x (N.ones i)) <= popcnt_spec (N.land x (N.ones j)).
Proof.
  intro H. rewrite !N.land_ones.
  replace (x mod 2 ^ i) with ((x mod 2 ^ j) mod 2 ^ i); [apply popcnt_mod_le|].
  replace j with (i + (j - i)) by lia. rewrite N.pow_add_r, N.mod_mul_r by apply pow2_nz.
  apply split_mod, N.mod_lt, pow2_nz.
Qed.

Lemma select_in_word_lt x k : x < 2 ^ 64 -> k < popcnt_spec x -> select_in_word x k < 64.
Proof.
  intros Hx Hk. apply (select_range x k _ 64 Hx). apply select_in_word_correct; auto.
Qed.

Lemma select_in_word_spec x k : x < 2 ^ 64 -> k < popcnt_spec x ->
  N.testbit x (select_in_word x k) = true /\ popcnt_spec (N.land x (N.ones (select_in_word x k))) = k.
Proof. intros Hx Hk. apply select_char_fwd, select_in_word_correct; auto. Qed.

Lemma popcount_intr_correct x : popcount_intr x = popcnt_spec x.
Proof. reflexivity. Qed.

Lemma byte_counts_intr_eq x : byte_counts_intr x = byte_counts x.
Proof. reflexivity. Qed.

Lemma uleq_step_9_intr_eq x y : uleq_step_9_intr x y = uleq_step_9 x y.
Proof. reflexivity. Qed.


(* ================= assumptions ================= *)
Print Assumptions popcount_correct.
Print Assumptions msb_correct.
Print Assumptions msb_log2.
Print Assumptions msb_0.
Print Assumptions byte_counts_correct.
Print Assumptions select_in_word_correct.
Print Assumptions select_in_word_intr_correct.
Print Assumptions select_in_word_agree.
Print Assumptions uleq_step_9_field.
Print Assumptions uleq_step_9_bits.
Print Assumptions uleq_step_9_bit.
Print Assumptions uleq_step_9_count.
Print Assumptions popcnt_le_64.
Print Assumptions popcnt_split.
Print Assumptions popcnt_low_bits.
Print Assumptions popcount_low_bits.
Print Assumptions select_char_fwd.
Print Assumptions select_char_bwd.
Print Assumptions select_unique.
