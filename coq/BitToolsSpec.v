(* BitToolsSpec.v: what the x86 instructions used by the intrinsic arms of bit_tools.hpp compute
   (POPCNT, LZCNT/BSR via __builtin_clzll, TZCNT, PDEP), written directly on the binary representation. *)
From X Require Import Base.
Local Open Scope N_scope.

Fixpoint pos_popcount (p : positive) : N :=
  match p with xH => 1 | xO q => pos_popcount q | xI q => 1 + pos_popcount q end.
Definition popcnt_spec (x : N) : N := match x with 0 => 0 | Npos p => pos_popcount p end.

(* __builtin_clzll on a non-zero 64-bit value *)
Definition clz_spec (x : N) : N := 63 - N.log2 x.

Fixpoint pos_ctz (p : positive) : N :=
  match p with xO q => 1 + pos_ctz q | _ => 0 end.
Definition tzcnt_spec (x : N) : N := match x with 0 => 64 | Npos p => pos_ctz p end.

(* PDEP: the low bits of [src] are deposited, in order, at the positions of the set bits of [m] *)
Fixpoint pdep_pos (src : N) (m : positive) : N :=
  match m with
  | xH => N.land src 1
  | xO m' => N.double (pdep_pos src m')
  | xI m' => N.land src 1 + N.double (pdep_pos (N.div2 src) m')
  end.
Definition pdep_spec (src m : N) : N := match m with 0 => 0 | Npos p => pdep_pos src p end.

(* index of the (k+1)-th set bit of x, counting from the least significant; None if there is none *)
Fixpoint pos_select (p : positive) (k : N) (off : N) : option N :=
  match p with
  | xH => if k =? 0 then Some off else None
  | xO q => pos_select q k (off + 1)
  | xI q => if k =? 0 then Some off else pos_select q (k - 1) (off + 1)
  end.
Definition select_spec (x k : N) : option N := match x with 0 => None | Npos p => pos_select p k 0 end.
