(* BitVector.v: model of include/xcdat/bit_vector.hpp (builder, Rank9 hints, select hints, queries). *)
From X Require Import Base Arr Consts BitToolsSpec BitToolsGen.
Local Open Scope N_scope.

(* ---------------- builder: (m_size, std::vector<uint64_t> m_bits) ---------------- *)
Record bvb := mkBvb { bb_size : N; bb_words : list N }.
Definition bvb_empty : bvb := mkBvb 0 [].

Definition words_for (nbits : N) : N := shr64 (add64 nbits 63) 6.

Definition bit_mask (i : N) : N := shl64 1 (N.land i 63).

(* m_bits[i / 64] |= / &= ~ (1ULL << (i % 64)); UB if the word does not exist *)
Definition bvb_set_bit (b : bvb) (i : N) (x : bool) : res bvb :=
  match upd (bb_words b) (N.to_nat (shr64 i 6))
            (fun w => if x then N.lor w (bit_mask i) else N.land w (not64 (bit_mask i))) with
  | Some ws => Ok (mkBvb (bb_size b) ws)
  | None => Fault OobArr
  end.

Definition bvb_get (b : bvb) (i : N) : res bool :=
  match nthN (bb_words b) (shr64 i 6) with
  | Some w => Ok (negb (N.land w (bit_mask i) =? 0))
  | None => Fault OobArr
  end.

Definition bvb_push_back (b : bvb) (x : bool) : res bvb :=
  let b1 := if N.land (bb_size b) 63 =? 0 then mkBvb (bb_size b) (bb_words b ++ [0]) else b in
  do b2 <- (if x then bvb_set_bit b1 (bb_size b1) true else Ok b1);
  Ok (mkBvb (add64 (bb_size b2) 1) (bb_words b2)).

Fixpoint resize_list (l : list N) (n : nat) : list N :=
  match n with
  | O => []
  | S m => match l with [] => 0 :: resize_list [] m | x :: t => x :: resize_list t m end
  end.

(* resize: std::vector::resize(words_for(size), 0); on a shrink the bits of the (new) last word at
   positions >= size are cleared (repair of finding F14) *)
Definition bvb_resize (b : bvb) (size : N) : bvb :=
  let ws := resize_list (bb_words b) (N.to_nat (words_for size)) in
  let ws := if (size <? bb_size b) && negb (N.land size 63 =? 0) then
              match upd ws (N.to_nat (shr64 size 6)) (fun w => N.land w (bit_mask size - 1)) with
              | Some ws' => ws' | None => ws end
            else ws in
  mkBvb size ws.

Definition bvb_of_bits (bits : list bool) : res bvb :=
  fold_left (fun acc x => do b <- acc; bvb_push_back b x) bits (Ok bvb_empty).

(* ---------------- the immutable bit_vector ---------------- *)
Record bitvec := mkBv { bv_size : N; bv_ones : N; bv_words : arr N; bv_rank_hints : arr N; bv_sel_hints : arr N }.
Definition bv_empty : bitvec := mkBv 0 0 aempty aempty aempty.

(* build_rank_hints, one step per word *)
Record rh_st := mkRh { rh_ones : N; rh_inblk : N; rh_packed : N; rh_bi : N; rh_out : list N (* reversed *) }.

Definition rh_step (s : rh_st) (w : N) : rh_st :=
  let c := popcount w in
  let packed := if rh_bi s =? 0 then rh_packed s else N.lor (shl64 (rh_packed s) 9) (rh_inblk s) in
  let ones := add64 (rh_ones s) c in
  let inblk := add64 (rh_inblk s) c in
  if rh_bi s =? bv_block_size - 1
  then mkRh ones 0 0 0 (ones :: packed :: rh_out s)
  else mkRh ones inblk packed (rh_bi s + 1) (rh_out s).

Fixpoint rh_pad (n : nat) (packed inblk : N) : N :=
  match n with O => packed | S m => rh_pad m (N.lor (shl64 packed 9) inblk) inblk end.

Definition rank_hints_of (words : list N) : list N :=
  let s := fold_left rh_step words (mkRh 0 0 0 0 [0]) in
  let remain := bv_block_size - rh_bi s in            (* block_size - num_words % block_size *)
  let packed := rh_pad (N.to_nat remain) (rh_packed s) (rh_inblk s) in
  let out := packed :: rh_out s in
  let out := if rh_bi s =? 0 then out else 0 :: rh_ones s :: out in   (* sentinel (F8 repaired: total ones) *)
  rev out.

(* build_select_hints over the absolute ranks hints[2], hints[4], ... *)
Fixpoint sel_hints_loop (hints : list N) (nblocks : nat) (bi : N) (thr : N) : res (list N) :=
  match nblocks with
  | O => Ok [bi]                                  (* select_hints.push_back(num_blocks()) *)
  | S m =>
    match nthN hints (2 * (bi + 1)) with
    | None => Fault OobArr
    | Some r =>
      if thr <? r
      then do t <- sel_hints_loop hints m (bi + 1) (add64 thr bv_selects_per_hint); Ok (bi :: t)
      else sel_hints_loop hints m (bi + 1) thr
    end
  end.

Definition num_blocks_of (nhints : N) : N := sub64 (shr64 nhints 1) 1.

Definition sum_popcount (ws : list N) : N := fold_left (fun acc w => add64 acc (popcount w)) ws 0.

Definition bv_build (b : bvb) (enable_rank enable_select : bool) : res bitvec :=
  let ws := bb_words b in
  let ones := sum_popcount ws in
  let rh := if enable_rank then rank_hints_of ws else [] in
  do sh <- (if enable_rank && enable_select
            then sel_hints_loop rh (N.to_nat (num_blocks_of (lenN rh))) 0 bv_selects_per_hint
            else Ok []);
  Ok (mkBv (bb_size b) ones (of_list ws) (of_list rh) (of_list sh)).

(* ---------------- queries ---------------- *)
Definition bv_get (v : bitvec) (i : N) : res bool :=
  do w <- aget (bv_words v) (shr64 i 6);
  Ok (negb (N.land w (bit_mask i) =? 0)).

Definition rank_for_block (v : bitvec) (bi : N) : res N := aget (bv_rank_hints v) (shl64 bi 1).
Definition ranks_in_block (v : bitvec) (bi : N) : res N := aget (bv_rank_hints v) (add64 (shl64 bi 1) 1).
Definition rank_in_block (v : bitvec) (bi bj : N) : res N :=
  do p <- ranks_in_block v bi;
  do s <- shr64c p (mul64 (sub64 7 bj) 9);
  Ok (N.land s 511).
Definition rank_for_word (v : bitvec) (wi : N) : res N :=
  let bi := shr64 wi 3 in let bj := N.land wi 7 in
  do a <- rank_for_block v bi;
  do r <- rank_in_block v bi bj;
  Ok (add64 a r).

Definition bv_rank (v : bitvec) (i : N) : res N :=
  if i =? bv_size v then Ok (bv_ones v) else
  let wi := shr64 i 6 in let wj := N.land i 63 in
  do r <- rank_for_word v wi;
  if wj =? 0 then Ok r
  else do w <- aget (bv_words v) wi;
       do s <- shl64c w (sub64 64 wj);
       Ok (add64 r (popcount s)).

Definition select_with_hint (v : bitvec) (n : N) : res (N * N) :=
  let i := n / bv_selects_per_hint in
  do a <- (if i =? 0 then Ok 0 else aget (bv_sel_hints v) (i - 1));
  do b <- aget (bv_sel_hints v) i;
  Ok (a, add64 b 1).

Fixpoint select_bsearch (fuel : nat) (v : bitvec) (n a b : N) : res N :=
  if sub64 b a <=? 1 then Ok a else
  match fuel with
  | O => Fault OutOfFuel
  | S f =>
    let lb := add64 a (shr64 (sub64 b a) 1) in
    do r <- rank_for_block v lb;
    if r <=? n then select_bsearch f v n lb b else select_bsearch f v n a lb
  end.

Definition select_for_block (v : bitvec) (n : N) : res N :=
  do '(a, b) <- select_with_hint v n;
  select_bsearch 64 v n a b.

Definition bv_select (v : bitvec) (n : N) : res N :=
  do bi <- select_for_block v n;
  do cr <- rank_for_block v bi;
  let par := mul64 (sub64 n cr) ones_step_9 in
  do sub <- ranks_in_block v bi;
  let off := N.land (shr64 (mul64 (uleq_step_9 sub par) ones_step_9) 54) 7 in
  do sh <- shr64c sub (mul64 (sub64 7 off) 9);
  let cr := add64 cr (N.land sh 511) in
  let wo := add64 (shl64 bi 3) off in
  do w <- aget (bv_words v) wo;
  Ok (add64 (shl64 wo 6) (select_in_word w (sub64 n cr))).

(* the same queries when the library is compiled with popcnt/BMI2 *)
Definition bv_rank_intr (v : bitvec) (i : N) : res N :=
  if i =? bv_size v then Ok (bv_ones v) else
  let wi := shr64 i 6 in let wj := N.land i 63 in
  do r <- rank_for_word v wi;
  if wj =? 0 then Ok r
  else do w <- aget (bv_words v) wi;
       do s <- shl64c w (sub64 64 wj);
       Ok (add64 r (popcount_intr s)).
Definition bv_select_intr (v : bitvec) (n : N) : res N :=
  do bi <- select_for_block v n;
  do cr <- rank_for_block v bi;
  let par := mul64 (sub64 n cr) ones_step_9 in
  do sub <- ranks_in_block v bi;
  let off := N.land (shr64 (mul64 (uleq_step_9 sub par) ones_step_9) 54) 7 in
  do sh <- shr64c sub (mul64 (sub64 7 off) 9);
  let cr := add64 cr (N.land sh 511) in
  let wo := add64 (shl64 bi 3) off in
  do w <- aget (bv_words v) wo;
  Ok (add64 (shl64 wo 6) (select_in_word_intr w (sub64 n cr))).
