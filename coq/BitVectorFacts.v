(* BitVectorFacts.v: correctness of the Rank9/select bit vector model (BitVector.v) against bit lists:
   BvBuildSpec, BvGetSpec, BvRankSpec, BvSelectSpec of Iface.v, under the word-level facts of
   BitToolsFacts.v taken as Section hypotheses.

   Main results (end of file, Section WithWordFacts):
     bv_build_spec  : PopcountSpec -> BvBuildSpec
     bv_get_spec    : PopcountSpec -> BvGetSpec
     bv_rank_spec   : PopcountSpec -> PopcntLowBits -> BvRankSpec
     bv_select_spec : PopcountSpec -> SelectInWordSpec -> SelectSpecSound -> UleqCount -> BvSelectSpec
   Builder operations on the denoted bit list ([bvb_inv b bits]: bb_size b = lenN bits and the words
   represent exactly [bits], stale positions being zero; [bvb_bits]/[bvb_wf] give the functional form):
     bvb_of_bits_inv, push_back_inv (append), set_bit_inv (update), resize_inv (truncate / pad with false),
     bvb_get_inv, bvb_wf_inv, bvb_inv_bits.
   Structure: 64-bit arithmetic without wrap; popcnt_spec via low bits; rank on bit lists [rk];
   words representing bits [repr]; builder; word sums [pw]; specification [rh_spec] of the rank hints and
   the fold [rh_main]; reads of the hints on a built vector [hints_ok]; select hints [sel_post];
   binary search; in-block offset; the four theorems. *)
From Coq Require Import ZArith Lia ZifyN ZifyBool ZifyNat Arith PeanoNat.
From X Require Import Base Arr ArrFacts Consts BitToolsSpec BitToolsGen BitVector Iface.
Local Open Scope N_scope.
Ltac Zify.zify_post_hook ::= Z.div_mod_to_equations.

(* ------------------------------------------------------------------ *)
(* 64-bit arithmetic without wrap-around                               *)
(* ------------------------------------------------------------------ *)
Lemma w64_mod x : w64 x = x mod 2^64.
Proof. unfold w64, mask64. apply N.land_ones. Qed.
Lemma w64_small x : x < 2^64 -> w64 x = x.
Proof. intros. rewrite w64_mod. apply N.mod_small; assumption. Qed.
Lemma w64_lt x : w64 x < 2^64.
Proof. rewrite w64_mod. apply N.mod_lt. discriminate. Qed.
Lemma add64_small a b : a + b < 2^64 -> add64 a b = a + b.
Proof. intros. unfold add64. apply w64_small; assumption. Qed.
Lemma sub64_small a b : b <= a -> a < 2^64 -> sub64 a b = a - b.
Proof.
  intros. unfold sub64. rewrite (w64_small b) by lia. rewrite w64_mod.
  change (N.shiftl 1 64) with (2^64).
  replace (a + 2^64 - b) with ((a - b) + 1 * 2^64) by lia.
  rewrite N.mod_add by discriminate. apply N.mod_small. lia.
Qed.
Lemma mul64_small a b : a * b < 2^64 -> mul64 a b = a * b.
Proof. intros. unfold mul64. apply w64_small; assumption. Qed.
Lemma shl64_small a s : a * 2^s < 2^64 -> shl64 a s = a * 2^s.
Proof. intros. unfold shl64. rewrite N.shiftl_mul_pow2. apply w64_small; assumption. Qed.
Lemma shr64_div a s : shr64 a s = a / 2^s.
Proof. unfold shr64. apply N.shiftr_div_pow2. Qed.

Lemma bind_ok_inv {A B} (r : res A) (f : A -> res B) y :
  bind r f = Ok y -> exists a, r = Ok a /\ f a = Ok y.
Proof. destruct r; simpl; intros; try discriminate. eauto. Qed.

Lemma pow2_64 : 2^64 = 18446744073709551616. Proof. reflexivity. Qed.

#[local] Arguments N.mul : simpl never.
#[local] Arguments N.add : simpl never.
#[local] Arguments N.sub : simpl never.
#[local] Arguments N.shiftl : simpl never.
#[local] Arguments N.shiftr : simpl never.
#[local] Arguments N.pow : simpl never.
#[local] Arguments N.div : simpl never.
#[local] Arguments N.modulo : simpl never.
#[local] Arguments N.land : simpl never.
#[local] Arguments N.lor : simpl never.
#[local] Arguments N.testbit : simpl never.
#[local] Arguments N.ones : simpl never.

(* ------------------------------------------------------------------ *)
(* popcnt_spec through the low bits                                     *)
(* ------------------------------------------------------------------ *)
Definition b2n (b : bool) : N := if b then 1 else 0.

Fixpoint cntbits (w : N) (n : nat) : N :=
  match n with O => 0 | S m => b2n (N.odd w) + cntbits (N.div2 w) m end.

Lemma popcnt_div2 x : popcnt_spec x = b2n (N.odd x) + popcnt_spec (N.div2 x).
Proof. destruct x as [|[p|p|]]; reflexivity. Qed.

Lemma pos_popcount_pos p : 1 <= pos_popcount p.
Proof. induction p; cbn [pos_popcount]; lia. Qed.
Lemma popcnt_spec_0 : popcnt_spec 0 = 0.
Proof. reflexivity. Qed.
Lemma popcnt_spec_eq0 x : popcnt_spec x = 0 -> x = 0.
Proof. destruct x as [|p]; [reflexivity|]. cbn [popcnt_spec]. pose proof (pos_popcount_pos p). lia. Qed.

Lemma ones_succ_shiftr m : N.shiftr (N.ones (N.succ m)) 1 = N.ones m.
Proof.
  rewrite N.shiftr_div_pow2, !N.ones_equiv, N.pow_succ_r'.
  assert (0 < 2^m) by (apply N.neq_0_lt_0, N.pow_nonzero; discriminate).
  change (2^1) with 2. lia.
Qed.

Lemma popcnt_land_ones w j : popcnt_spec (N.land w (N.ones (N.of_nat j))) = cntbits w j.
Proof.
  revert w. induction j as [|j IH]; intros w.
  - change (N.of_nat 0) with 0. change (N.ones 0) with 0. rewrite N.land_0_r. reflexivity.
  - rewrite popcnt_div2. cbn [cntbits]. f_equal.
    + f_equal. rewrite <- !N.bit0_odd, N.land_spec, N.ones_spec_low by lia. apply andb_true_r.
    + rewrite <- IH. f_equal. rewrite !N.div2_spec, N.shiftr_land. f_equal.
      rewrite Nat2N.inj_succ. apply ones_succ_shiftr.
Qed.

Lemma popcnt_cntbits w n : w < 2^(N.of_nat n) -> popcnt_spec w = cntbits w n.
Proof.
  intros H. rewrite <- popcnt_land_ones. f_equal. rewrite N.land_ones. symmetry. apply N.mod_small. exact H.
Qed.

Lemma cntbits_snoc w j : cntbits w (S j) = cntbits w j + b2n (N.testbit w (N.of_nat j)).
Proof.
  revert w. induction j as [|j IH]; intros w.
  - cbn [cntbits]. change (N.of_nat 0) with 0. rewrite N.bit0_odd. lia.
  - change (cntbits w (S (S j))) with (b2n (N.odd w) + cntbits (N.div2 w) (S j)).
    rewrite IH. cbn [cntbits]. rewrite N.div2_spec, N.shiftr_spec', Nat2N.inj_succ, N.add_1_r. lia.
Qed.

Lemma cntbits_le w n : cntbits w n <= N.of_nat n.
Proof.
  revert w; induction n as [|n IH]; intros w; cbn [cntbits]; [lia|].
  specialize (IH (N.div2 w)). unfold b2n. destruct (N.odd w); lia.
Qed.

Lemma popcnt_le64 w : w < 2^64 -> popcnt_spec w <= 64.
Proof. intros H. rewrite (popcnt_cntbits w 64) by exact H. apply (cntbits_le w 64). Qed.

(* ------------------------------------------------------------------ *)
(* rank on bit lists                                                    *)
(* ------------------------------------------------------------------ *)
Lemma count_true_firstn_S n l :
  count_true (firstn (S n) l) = count_true (firstn n l) + b2n (nth n l false).
Proof.
  revert n; induction l as [|b t IH]; intros n.
  - destruct n; reflexivity.
  - destruct n as [|n].
    + cbn [firstn count_true nth]. unfold b2n. lia.
    + change (firstn (S (S n)) (b :: t)) with (b :: firstn (S n) t).
      change (firstn (S n) (b :: t)) with (b :: firstn n t).
      cbn [count_true nth]. rewrite IH. lia.
Qed.

Definition rk (bits : list bool) (i : N) : N := count_true (firstn (N.to_nat i) bits).

Lemma rk_0 bits : rk bits 0 = 0.
Proof. reflexivity. Qed.
Lemma rk_succ bits i : rk bits (i + 1) = rk bits i + b2n (nthb bits i).
Proof.
  unfold rk, nthb. replace (N.to_nat (i + 1)) with (S (N.to_nat i)) by lia. apply count_true_firstn_S.
Qed.
Lemma rk_ge bits i : lenN bits <= i -> rk bits i = count_true bits.
Proof. unfold rk, lenN. intros H. rewrite firstn_all2 by lia. reflexivity. Qed.
Lemma rk_add_bounds bits i k : rk bits i <= rk bits (i + k) <= rk bits i + k.
Proof.
  induction k as [|k IH] using N.peano_ind.
  - rewrite N.add_0_r. lia.
  - replace (i + N.succ k) with (i + k + 1) by lia. rewrite rk_succ.
    unfold b2n. destruct (nthb bits (i + k)); lia.
Qed.
Lemma rk_mono bits i j : i <= j -> rk bits i <= rk bits j.
Proof. intros H. replace j with (i + (j - i)) by lia. apply rk_add_bounds. Qed.
Lemma rk_le bits i : rk bits i <= i.
Proof. pose proof (rk_add_bounds bits 0 i) as H. rewrite rk_0 in H. replace (0 + i) with i in H by lia. lia. Qed.
Lemma nthb_ge bits i : lenN bits <= i -> nthb bits i = false.
Proof. unfold nthb, lenN. intros H. apply nth_overflow. lia. Qed.
Lemma nthb_true_lt bits i : nthb bits i = true -> i < lenN bits.
Proof. intros H. destruct (N.lt_ge_cases i (lenN bits)) as [L|L]; [exact L|]. rewrite nthb_ge in H by exact L. discriminate. Qed.

(* ------------------------------------------------------------------ *)
(* words representing a bit list                                        *)
(* ------------------------------------------------------------------ *)
Definition wd (W : list N) (i : N) : N := nth (N.to_nat i) W 0.

Definition repr (W : list N) (bits : list bool) : Prop :=
  lenN W = (lenN bits + 63) / 64 /\
  forall i j, N.testbit (wd W i) j = (j <? 64) && nthb bits (64 * i + j).

Lemma lt_pow2_of_bits w n : (forall j, n <= j -> N.testbit w j = false) -> w < 2^n.
Proof.
  intros H. destruct (N.eq_dec w 0) as [->|Hw].
  - apply N.neq_0_lt_0, N.pow_nonzero. discriminate.
  - apply N.log2_lt_pow2; [lia|].
    destruct (N.lt_ge_cases (N.log2 w) n) as [L|L]; [exact L|].
    specialize (H _ L). rewrite N.bit_log2 in H by exact Hw. discriminate.
Qed.

Lemma repr_wd_lt W bits i : repr W bits -> wd W i < 2^64.
Proof.
  intros [_ H]. apply lt_pow2_of_bits. intros j Hj. rewrite H.
  destruct (N.ltb_spec j 64); [lia|reflexivity].
Qed.

Lemma land63 i : N.land i 63 = i mod 64.
Proof. change 63 with (N.ones 6). rewrite N.land_ones. reflexivity. Qed.
Lemma land7 i : N.land i 7 = i mod 8.
Proof. change 7 with (N.ones 3). rewrite N.land_ones. reflexivity. Qed.
Lemma land511 i : N.land i 511 = i mod 512.
Proof. change 511 with (N.ones 9). rewrite N.land_ones. reflexivity. Qed.

Lemma pow2_lt_64 m : m < 64 -> 2^m < 2^64.
Proof. intros. apply N.pow_lt_mono_r; lia. Qed.

Lemma bit_mask_eq i : bit_mask i = 2^(i mod 64).
Proof.
  unfold bit_mask. rewrite land63. rewrite shl64_small; [lia|].
  rewrite N.mul_1_l. apply pow2_lt_64. apply N.mod_lt. discriminate.
Qed.

Lemma testbit_land_pow2 w m : negb (N.land w (2^m) =? 0) = N.testbit w m.
Proof.
  destruct (N.testbit w m) eqn:E.
  - destruct (N.eqb_spec (N.land w (2^m)) 0) as [H|H]; [|reflexivity].
    assert (F : N.testbit (N.land w (2^m)) m = true)
      by (rewrite N.land_spec, E, N.pow2_bits_true; reflexivity).
    rewrite H, N.bits_0 in F. discriminate.
  - assert (H : N.land w (2^m) = 0).
    { apply N.bits_inj. intros k. rewrite N.land_spec, N.bits_0, N.pow2_bits_eqb.
      destruct (N.eqb_spec m k) as [->|]; [rewrite E; reflexivity|apply andb_false_r]. }
    rewrite H. reflexivity.
Qed.

Lemma nth_app_default {A} (l : list A) (d : A) k : nth k (l ++ [d]) d = nth k l d.
Proof.
  destruct (Nat.lt_ge_cases k (length l)) as [H|H].
  - apply app_nth1. exact H.
  - rewrite app_nth2 by exact H. rewrite (nth_overflow l) by exact H.
    destruct (k - length l)%nat as [|[|?]]; reflexivity.
Qed.

Lemma nthb_snoc bits x k : nthb (bits ++ [x]) k = if k =? lenN bits then x else nthb bits k.
Proof.
  unfold nthb, lenN. destruct (N.eqb_spec k (N.of_nat (length bits))) as [E|E].
  - rewrite app_nth2 by lia. replace (N.to_nat k - length bits)%nat with 0%nat by lia. reflexivity.
  - destruct (Nat.lt_ge_cases (N.to_nat k) (length bits)) as [H|H].
    + apply app_nth1. exact H.
    + rewrite !nth_overflow; [reflexivity|lia|rewrite app_length; cbn [length]; lia].
Qed.

Lemma lenN_app {A} (l1 l2 : list A) : lenN (l1 ++ l2) = lenN l1 + lenN l2.
Proof. unfold lenN. rewrite app_length. lia. Qed.

Lemma repr_nil : repr [] [].
Proof.
  split; [reflexivity|]. intros i j. unfold wd, nthb.
  destruct (N.to_nat i); destruct (N.to_nat (64 * i + j)); cbn [nth]; rewrite N.bits_0, andb_false_r; reflexivity.
Qed.

Lemma repr_snoc W bits x W' :
  repr W bits -> lenN W' = lenN bits / 64 + 1 ->
  (forall i, wd W' i = if (i =? lenN bits / 64) && x
                       then N.lor (wd W i) (2^(lenN bits mod 64)) else wd W i) ->
  repr W' (bits ++ [x]).
Proof.
  intros [HL HB] HL' HW'. split.
  - rewrite HL', lenN_app. change (lenN [x]) with 1. lia.
  - intros i j. rewrite HW', nthb_snoc.
    destruct (N.eqb_spec i (lenN bits / 64)) as [Ei|Ei]; cbn [andb].
    + destruct x.
      * rewrite N.lor_spec, HB, N.pow2_bits_eqb.
        destruct (N.ltb_spec j 64); destruct (N.eqb_spec (lenN bits mod 64) j);
          destruct (N.eqb_spec (64 * i + j) (lenN bits)); cbn [andb orb]; rewrite ?orb_true_r, ?orb_false_r; try reflexivity; try lia.
      * rewrite HB. destruct (N.ltb_spec j 64); cbn [andb]; [|reflexivity].
        destruct (N.eqb_spec (64 * i + j) (lenN bits)); [|reflexivity].
        apply nthb_ge. lia.
    + rewrite HB. destruct (N.ltb_spec j 64); cbn [andb]; [|reflexivity].
      destruct (N.eqb_spec (64 * i + j) (lenN bits)); [lia|reflexivity].
Qed.

(* ---- upd ---- *)
Lemma upd_spec {A} (l : list A) i f l' d :
  upd l i f = Some l' ->
  length l' = length l /\ (i < length l)%nat /\
  forall k, nth k l' d = if Nat.eqb k i then f (nth k l d) else nth k l d.
Proof.
  revert i l'. induction l as [|x t IH]; intros i l' H.
  - destruct i; discriminate.
  - destruct i as [|i]; cbn [upd] in H.
    + inversion H; subst. cbn [length]. repeat split; [lia|]. intros [|k]; reflexivity.
    + destruct (upd t i f) as [t'|] eqn:E; [|discriminate]. inversion H; subst.
      destruct (IH _ _ E) as (H1 & H2 & H3). cbn [length]. repeat split; [lia|lia|].
      intros [|k]; [reflexivity|]. cbn [nth]. rewrite H3. reflexivity.
Qed.
Lemma upd_some {A} (l : list A) i f : (i < length l)%nat -> exists l', upd l i f = Some l'.
Proof.
  revert i. induction l as [|x t IH]; intros i H; [cbn [length] in H; lia|].
  destruct i as [|i]; cbn [upd]; [eauto|].
  destruct (IH i) as [t' E]; [cbn [length] in H; lia|]. rewrite E. eauto.
Qed.

Lemma wd_upd W i f W' k : upd W (N.to_nat i) f = Some W' ->
  wd W' k = if k =? i then f (wd W k) else wd W k.
Proof.
  intros H. destruct (upd_spec _ _ _ _ 0 H) as (_ & _ & H3). unfold wd. rewrite H3.
  destruct (Nat.eqb_spec (N.to_nat k) (N.to_nat i)); destruct (N.eqb_spec k i); try reflexivity; lia.
Qed.

Lemma wd_app0 W i : wd (W ++ [0]) i = wd W i.
Proof. apply nth_app_default. Qed.

(* ------------------------------------------------------------------ *)
(* the builder                                                          *)
(* ------------------------------------------------------------------ *)
Definition bvb_inv (b : bvb) (bits : list bool) : Prop :=
  bb_size b = lenN bits /\ repr (bb_words b) bits.

Lemma shr6 i : shr64 i 6 = i / 64.
Proof. rewrite shr64_div. reflexivity. Qed.

Lemma push_back_inv b bits x :
  bvb_inv b bits -> lenN bits + 1 < 2^64 ->
  exists b', bvb_push_back b x = Ok b' /\ bvb_inv b' (bits ++ [x]).
Proof.
  destruct b as [s W]. intros [Hs HR] Hlt. cbn [bb_size bb_words] in *. subst s.
  set (s := lenN bits) in *.
  unfold bvb_push_back. cbn [bb_size bb_words].
  set (b1 := if N.land s 63 =? 0 then _ else _).
  assert (H1 : bb_size b1 = s /\ lenN (bb_words b1) = s / 64 + 1 /\ forall i, wd (bb_words b1) i = wd W i).
  { subst b1. rewrite land63. destruct HR as [HL _].
    destruct (N.eqb_spec (s mod 64) 0) as [E|E]; cbn [bb_size bb_words].
    - split; [reflexivity|]. split; [|intros; apply wd_app0].
      rewrite lenN_app, HL. change (lenN [0]) with 1. fold s. lia.
    - split; [reflexivity|]. split; [|reflexivity]. rewrite HL. fold s. lia. }
  clearbody b1. destruct b1 as [s1 W1]. cbn [bb_size bb_words] in H1. destruct H1 as (-> & HL1 & HW1).
  destruct x.
  - unfold bvb_set_bit. cbn [bb_size bb_words]. rewrite shr6.
    destruct (upd_some W1 (N.to_nat (s / 64)) (fun w => N.lor w (bit_mask s))) as [W2 E].
    { unfold lenN in HL1. lia. }
    rewrite E. cbn [bind bb_size bb_words]. eexists; split; [reflexivity|].
    split; cbn [bb_size bb_words].
    + rewrite add64_small by exact Hlt. rewrite lenN_app. reflexivity.
    + apply (repr_snoc W); [exact HR| |].
      * destruct (upd_spec _ _ _ _ 0 E) as (L & _). unfold lenN in *. rewrite L. exact HL1.
      * intros i. rewrite (wd_upd _ _ _ _ _ E), HW1, bit_mask_eq, andb_true_r.
        reflexivity.
  - cbn [bind bb_size bb_words]. eexists; split; [reflexivity|].
    split; cbn [bb_size bb_words].
    + rewrite add64_small by exact Hlt. rewrite lenN_app. reflexivity.
    + apply (repr_snoc W); [exact HR|exact HL1|].
      intros i. rewrite andb_false_r. apply HW1.
Qed.

Lemma bvb_of_bits_snoc bits x :
  bvb_of_bits (bits ++ [x]) = (do b <- bvb_of_bits bits; bvb_push_back b x).
Proof. unfold bvb_of_bits. rewrite fold_left_app. reflexivity. Qed.

Lemma bvb_of_bits_inv bits : lenN bits < 2^64 ->
  exists b, bvb_of_bits bits = Ok b /\ bvb_inv b bits.
Proof.
  induction bits as [|x bits IH] using rev_ind; intros H.
  - exists bvb_empty. split; [reflexivity|]. split; [reflexivity|apply repr_nil].
  - rewrite lenN_app in H. change (lenN [x]) with 1 in H.
    destruct IH as (b & E & I); [lia|].
    destruct (push_back_inv b bits x I H) as (b' & E' & I').
    exists b'. split; [|exact I']. rewrite bvb_of_bits_snoc, E. exact E'.
Qed.
(* ==== B ==== *)

(* ------------------------------------------------------------------ *)
(* popcount sums over words                                             *)
(* ------------------------------------------------------------------ *)
Definition wsum (l : list N) : N := fold_right (fun w a => popcnt_spec w + a) 0 l.
Definition pw (W : list N) (k : N) : N := wsum (firstn (N.to_nat k) W).

Lemma wsum_firstn_S n l : wsum (firstn (S n) l) = wsum (firstn n l) + popcnt_spec (nth n l 0).
Proof.
  revert n; induction l as [|b t IH]; intros n.
  - destruct n; reflexivity.
  - destruct n as [|n].
    + cbn [firstn wsum fold_right nth]. lia.
    + change (firstn (S (S n)) (b :: t)) with (b :: firstn (S n) t).
      change (firstn (S n) (b :: t)) with (b :: firstn n t).
      cbn [wsum fold_right nth]. fold (wsum (firstn (S n) t)). fold (wsum (firstn n t)). rewrite IH. lia.
Qed.

Lemma wsum_firstn_add a k l :
  wsum (firstn (a + k) l) = wsum (firstn a l) + wsum (firstn k (skipn a l)).
Proof.
  revert l; induction a as [|a IH]; intros l.
  - reflexivity.
  - destruct l as [|x t].
    + rewrite skipn_nil, !firstn_nil. reflexivity.
    + cbn [Nat.add firstn skipn wsum fold_right]. fold (wsum (firstn (a + k) t)). fold (wsum (firstn a t)).
      rewrite IH. lia.
Qed.

Lemma skipn_skipn' {A} a b (l : list A) : skipn a (skipn b l) = skipn (b + a) l.
Proof.
  revert l; induction b as [|b IH]; intros l; [reflexivity|].
  destruct l as [|x t]; [rewrite !skipn_nil; reflexivity|]. cbn [Nat.add skipn]. apply IH.
Qed.

Lemma wsum_firstn_mono a b l : (a <= b)%nat -> wsum (firstn a l) <= wsum (firstn b l).
Proof.
  intros H. replace b with (a + (b - a))%nat by lia. rewrite wsum_firstn_add. lia.
Qed.

Lemma wsum_le l : Forall (fun w => w < 2^64) l -> wsum l <= 64 * lenN l.
Proof.
  induction 1 as [|x t Hx Ht IH]; [unfold lenN; cbn; lia|].
  cbn [wsum fold_right]. fold (wsum t). pose proof (popcnt_le64 x Hx).
  unfold lenN in *. cbn [length]. lia.
Qed.

Lemma pw_0 W : pw W 0 = 0.
Proof. reflexivity. Qed.
Lemma pw_succ W k : pw W (k + 1) = pw W k + popcnt_spec (wd W k).
Proof.
  unfold pw, wd. replace (N.to_nat (k + 1)) with (S (N.to_nat k)) by lia. apply wsum_firstn_S.
Qed.
Lemma pw_ge W k : lenN W <= k -> pw W k = wsum W.
Proof. unfold pw, lenN. intros. rewrite firstn_all2 by lia. reflexivity. Qed.

Lemma rk_word W bits i j : repr W bits -> (j <= 64)%nat ->
  rk bits (64 * i + N.of_nat j) = rk bits (64 * i) + cntbits (wd W i) j.
Proof.
  intros HR. induction j as [|j IH]; intros Hj.
  - cbn [cntbits]. change (N.of_nat 0) with 0. rewrite !N.add_0_r. reflexivity.
  - rewrite cntbits_snoc, Nat2N.inj_succ, <- N.add_1_r, N.add_assoc, rk_succ, IH by lia.
    destruct HR as [_ HB]. rewrite HB.
    destruct (N.ltb_spec (N.of_nat j) 64); [|lia]. cbn [andb]. lia.
Qed.

Lemma rk_word_full W bits i : repr W bits ->
  rk bits (64 * i + 64) = rk bits (64 * i) + popcnt_spec (wd W i).
Proof.
  intros HR. rewrite (popcnt_cntbits _ 64) by (apply (repr_wd_lt W bits i HR)).
  apply (rk_word W bits i 64 HR). lia.
Qed.

Lemma rk_word_land W bits i j : repr W bits -> j <= 64 ->
  rk bits (64 * i + j) = rk bits (64 * i) + popcnt_spec (N.land (wd W i) (N.ones j)).
Proof.
  intros HR Hj. rewrite <- (N2Nat.id j) at 1 2. rewrite popcnt_land_ones. apply rk_word; [exact HR|lia].
Qed.

Lemma pw_rk W bits k : repr W bits -> pw W k = rk bits (64 * k).
Proof.
  intros HR. induction k as [|k IH] using N.peano_ind.
  - reflexivity.
  - rewrite <- N.add_1_r, pw_succ, IH. replace (64 * (k + 1)) with (64 * k + 64) by lia.
    symmetry. apply rk_word_full. exact HR.
Qed.

Lemma repr_forall_lt W bits : repr W bits -> Forall (fun w => w < 2^64) W.
Proof.
  intros HR. apply Forall_forall. intros w Hin. destruct (In_nth _ _ 0 Hin) as (n & Hn & <-).
  pose proof (repr_wd_lt W bits (N.of_nat n) HR) as H. unfold wd in H. rewrite Nat2N.id in H. exact H.
Qed.

Lemma repr_wsum W bits : repr W bits -> wsum W = count_true bits.
Proof.
  intros HR. rewrite <- (pw_ge W (lenN W)) by lia. rewrite (pw_rk W bits) by exact HR.
  apply rk_ge. destruct HR as [HL _]. rewrite HL. lia.
Qed.

(* ------------------------------------------------------------------ *)
(* bv_get on words                                                      *)
(* ------------------------------------------------------------------ *)
Lemma get_bit_repr W bits i : repr W bits ->
  negb (N.land (wd W (i / 64)) (bit_mask i) =? 0) = nthb bits i.
Proof.
  intros [_ HB]. rewrite bit_mask_eq, testbit_land_pow2, HB.
  destruct (N.ltb_spec (i mod 64) 64); [|lia]. cbn [andb]. f_equal. lia.
Qed.

Lemma aget_words W i : i < lenN W -> aget (of_list W) i = Ok (wd W i).
Proof. intros H. apply aget_of_list_ok. exact H. Qed.

(* ------------------------------------------------------------------ *)
(* specification of the rank hints                                      *)
(* ------------------------------------------------------------------ *)
Definition pk7 (B : list N) : N :=
  let p k := wsum (firstn k B) in
  ((((((p 1%nat) * 512 + p 2%nat) * 512 + p 3%nat) * 512 + p 4%nat) * 512 + p 5%nat) * 512 + p 6%nat) * 512
  + p 7%nat.

Fixpoint rh_spec (fuel : nat) (W : list N) (acc : N) : list N :=
  match fuel with
  | O => []
  | S f => match W with
           | [] => [acc; 0]
           | _ => acc :: pk7 W :: rh_spec f (skipn 8 W) (acc + wsum (firstn 8 W))
           end
  end.

Lemma rh_spec_length fuel : forall W acc, (length W + 8 <= 8 * fuel)%nat ->
  length (rh_spec fuel W acc) = (2 * ((length W + 7) / 8 + 1))%nat.
Proof.
  induction fuel as [|f IH]; intros W acc H; [lia|].
  destruct W as [|w0 t].
  - reflexivity.
  - set (W := w0 :: t) in *. assert (L : (1 <= length W)%nat) by (subst W; cbn [length]; lia).
    change (rh_spec (S f) W acc) with (acc :: pk7 W :: rh_spec f (skipn 8 W) (acc + wsum (firstn 8 W))).
    cbn [length]. rewrite IH; rewrite skipn_length; lia.
Qed.

Lemma rh_spec_nth fuel : forall W acc b, (length W + 8 <= 8 * fuel)%nat -> (8 * b <= length W + 7)%nat ->
  nth (2 * b) (rh_spec fuel W acc) 0 = acc + wsum (firstn (8 * b) W) /\
  nth (2 * b + 1) (rh_spec fuel W acc) 0 = pk7 (skipn (8 * b) W).
Proof.
  induction fuel as [|f IH]; intros W acc b H Hb; [lia|].
  destruct b as [|b].
  - destruct W as [|w0 t]; cbn [rh_spec Nat.mul Nat.add nth firstn skipn wsum fold_right]; split; try reflexivity; lia.
  - destruct W as [|w0 t]; [cbn [length] in Hb; lia|].
    set (W := w0 :: t) in *. assert (L : (1 <= length W)%nat) by (subst W; cbn [length]; lia).
    change (rh_spec (S f) W acc) with (acc :: pk7 W :: rh_spec f (skipn 8 W) (acc + wsum (firstn 8 W))).
    replace (2 * S b)%nat with (S (S (2 * b))) by lia.
    replace (S (S (2 * b)) + 1)%nat with (S (S (2 * b + 1))) by lia.
    cbn [nth].
    destruct (IH (skipn 8 W) (acc + wsum (firstn 8 W)) b) as [H1 H2];
      [rewrite skipn_length; lia|rewrite skipn_length; lia|].
    rewrite H1, H2. replace (8 * S b)%nat with (8 + 8 * b)%nat by lia.
    rewrite wsum_firstn_add, skipn_skipn'. split; [lia|reflexivity].
Qed.

Lemma field9_eq x j : field9 x j = (x / 2^(9*j)) mod 512.
Proof. unfold field9. rewrite N.shiftr_div_pow2, land511. reflexivity. Qed.

Ltac comp_pow := match goal with |- context [2 ^ ?e] => let v := eval vm_compute in (2^e) in change (2^e) with v end.

Lemma pk7_poly p1 p2 p3 p4 p5 p6 p7 k :
  p1 < 512 -> p2 < 512 -> p3 < 512 -> p4 < 512 -> p5 < 512 -> p6 < 512 -> p7 < 512 -> (k <= 7)%nat ->
  field9 (((((((p1) * 512 + p2) * 512 + p3) * 512 + p4) * 512 + p5) * 512 + p6) * 512 + p7) (7 - N.of_nat k)
  = nth k [0; p1; p2; p3; p4; p5; p6; p7] 0.
Proof.
  intros. rewrite field9_eq.
  do 8 (destruct k as [|k]; [comp_pow; cbn [nth]; lia|]). lia.
Qed.

Lemma pk7_field B k : (k <= 7)%nat -> wsum (firstn 7 B) < 512 ->
  field9 (pk7 B) (7 - N.of_nat k) = wsum (firstn k B).
Proof.
  intros Hk H7. unfold pk7. cbv zeta beta.
  pose proof (wsum_firstn_mono 1 7 B ltac:(lia)). pose proof (wsum_firstn_mono 2 7 B ltac:(lia)).
  pose proof (wsum_firstn_mono 3 7 B ltac:(lia)). pose proof (wsum_firstn_mono 4 7 B ltac:(lia)).
  pose proof (wsum_firstn_mono 5 7 B ltac:(lia)). pose proof (wsum_firstn_mono 6 7 B ltac:(lia)).
  rewrite pk7_poly by lia.
  do 8 (destruct k as [|k]; [reflexivity|]). lia.
Qed.

Lemma pk7_lt B : wsum (firstn 7 B) < 512 -> pk7 B < 2^63.
Proof.
  intros H7. unfold pk7. cbv zeta beta.
  pose proof (wsum_firstn_mono 1 7 B ltac:(lia)). pose proof (wsum_firstn_mono 2 7 B ltac:(lia)).
  pose proof (wsum_firstn_mono 3 7 B ltac:(lia)). pose proof (wsum_firstn_mono 4 7 B ltac:(lia)).
  pose proof (wsum_firstn_mono 5 7 B ltac:(lia)). pose proof (wsum_firstn_mono 6 7 B ltac:(lia)).
  change (2^63) with 9223372036854775808. lia.
Qed.

Lemma Forall_firstn' {A} (P : A -> Prop) k l : Forall P l -> Forall P (firstn k l).
Proof.
  revert l; induction k as [|k IH]; intros l H; [constructor|].
  destruct H; cbn [firstn]; constructor; auto.
Qed.
Lemma Forall_skipn' {A} (P : A -> Prop) k l : Forall P l -> Forall P (skipn k l).
Proof.
  revert l; induction k as [|k IH]; intros l H; [exact H|].
  destruct H; cbn [skipn]; [constructor|auto].
Qed.

Lemma wsum_firstn_le k B : Forall (fun w => w < 2^64) B -> wsum (firstn k B) <= 64 * N.of_nat k.
Proof.
  intros HF. pose proof (wsum_le (firstn k B) (Forall_firstn' _ k _ HF)) as H.
  unfold lenN in H. rewrite firstn_length in H. lia.
Qed.
(* ==== G ==== *)

(* ------------------------------------------------------------------ *)
(* the other builder operations on the denoted bit list                 *)
(* ------------------------------------------------------------------ *)
Definition set_nth (bits : list bool) (i : N) (x : bool) : list bool :=
  firstn (N.to_nat i) bits ++ x :: skipn (S (N.to_nat i)) bits.
Definition resize_bits (bits : list bool) (s : N) : list bool :=
  firstn (N.to_nat s) bits ++ repeat false (N.to_nat s - length bits).

Lemma nth_firstn_lt {A} (l : list A) d : forall n k, (k < n)%nat -> nth k (firstn n l) d = nth k l d.
Proof.
  induction l as [|x t IH]; intros n k H.
  - rewrite firstn_nil. reflexivity.
  - destruct n as [|n]; [lia|]. destruct k as [|k]; [reflexivity|]. cbn [firstn nth]. apply IH. lia.
Qed.
Lemma nth_skipn' {A} (l : list A) d : forall n k, nth k (skipn n l) d = nth (n + k) l d.
Proof.
  induction l as [|x t IH]; intros n k.
  - rewrite skipn_nil. destruct k; destruct (n + _)%nat; reflexivity.
  - destruct n as [|n]; [reflexivity|]. cbn [skipn Nat.add nth]. apply IH.
Qed.

Lemma lenN_set_nth bits i x : i < lenN bits -> lenN (set_nth bits i x) = lenN bits.
Proof.
  unfold lenN, set_nth. intros H. rewrite app_length, firstn_length. cbn [length]. rewrite skipn_length. lia.
Qed.
Lemma nthb_set_nth bits i x k : i < lenN bits ->
  nthb (set_nth bits i x) k = if k =? i then x else nthb bits k.
Proof.
  unfold lenN, nthb, set_nth. intros H.
  assert (L : length (firstn (N.to_nat i) bits) = N.to_nat i) by (rewrite firstn_length; lia).
  destruct (N.eqb_spec k i) as [->|Hne].
  - rewrite app_nth2 by lia. rewrite L, Nat.sub_diag. reflexivity.
  - destruct (N.lt_ge_cases k i) as [Lk|Lk].
    + rewrite app_nth1 by lia. apply nth_firstn_lt. lia.
    + rewrite app_nth2 by lia. rewrite L.
      replace (N.to_nat k - N.to_nat i)%nat with (S (N.to_nat k - N.to_nat i - 1)) by lia.
      cbn [nth]. rewrite nth_skipn'. f_equal. lia.
Qed.
Lemma lenN_resize_bits bits s : lenN (resize_bits bits s) = s.
Proof. unfold lenN, resize_bits. rewrite app_length, firstn_length, repeat_length. lia. Qed.
Lemma nthb_resize_bits bits s k : nthb (resize_bits bits s) k = (k <? s) && nthb bits k.
Proof.
  unfold nthb, resize_bits.
  assert (L : length (firstn (N.to_nat s) bits) = Nat.min (N.to_nat s) (length bits)) by apply firstn_length.
  destruct (Nat.lt_ge_cases (N.to_nat k) (Nat.min (N.to_nat s) (length bits))) as [Lk|Lk].
  - rewrite app_nth1 by lia. rewrite nth_firstn_lt by lia.
    destruct (N.ltb_spec k s); [reflexivity|lia].
  - rewrite app_nth2 by lia. rewrite nth_repeat.
    destruct (N.ltb_spec k s); [|reflexivity]. cbn [andb]. symmetry. apply nth_overflow. lia.
Qed.

Lemma testbit_ones n j : N.testbit (N.ones n) j = (j <? n).
Proof.
  destruct (N.ltb_spec j n); [apply N.ones_spec_low|apply N.ones_spec_high]; assumption.
Qed.

Lemma not64_pow2_bits m j : m < 64 -> N.testbit (not64 (2^m)) j = (j <? 64) && negb (m =? j).
Proof.
  intros Hm. unfold not64. rewrite w64_small by (apply pow2_lt_64; exact Hm).
  unfold mask64. rewrite N.lxor_spec, N.pow2_bits_eqb, testbit_ones.
  destruct (N.eqb_spec m j); destruct (N.ltb_spec j 64); try reflexivity. lia.
Qed.

Lemma bvb_get_inv b bits i : bvb_inv b bits -> i < lenN bits -> bvb_get b i = Ok (nthb bits i).
Proof.
  destruct b as [s W]. intros [Hs HR] Hi. cbn [bb_size bb_words] in *.
  unfold bvb_get. cbn [bb_words]. rewrite shr6. unfold nthN.
  assert (HL : (N.to_nat (i / 64) < length W)%nat).
  { destruct HR as [HL _]. unfold lenN in *. lia. }
  rewrite (nth_error_nth' W 0 HL). fold (wd W (i / 64)). f_equal. apply (get_bit_repr W bits i HR).
Qed.

Lemma set_bit_inv b bits i x : bvb_inv b bits -> i < lenN bits ->
  exists b', bvb_set_bit b i x = Ok b' /\ bvb_inv b' (set_nth bits i x).
Proof.
  destruct b as [s W]. intros [Hs HR] Hi. cbn [bb_size bb_words] in *.
  unfold bvb_set_bit. cbn [bb_size bb_words]. rewrite shr6, bit_mask_eq.
  set (f := fun w => if x then _ else _).
  destruct (upd_some W (N.to_nat (i / 64)) f) as [W' E].
  { destruct HR as [HL _]. unfold lenN in *. lia. }
  rewrite E. eexists. split; [reflexivity|]. split; cbn [bb_size bb_words].
  - rewrite lenN_set_nth by exact Hi. exact Hs.
  - destruct HR as [HL HB]. split.
    + rewrite lenN_set_nth by exact Hi. rewrite <- HL.
      destruct (upd_spec _ _ _ _ 0 E) as (L & _). unfold lenN. rewrite L. reflexivity.
    + intros k j. rewrite (wd_upd _ _ _ _ _ E), nthb_set_nth by exact Hi.
      assert (Hm : i mod 64 < 64) by (apply N.mod_lt; discriminate).
      destruct (N.eqb_spec k (i / 64)) as [Ek|Ek].
      * subst f. cbv beta. destruct x.
        -- rewrite N.lor_spec, HB, N.pow2_bits_eqb.
           destruct (N.ltb_spec j 64); destruct (N.eqb_spec (i mod 64) j);
             destruct (N.eqb_spec (64 * k + j) i); cbn [andb orb];
             rewrite ?orb_true_r, ?orb_false_r; try reflexivity; lia.
        -- rewrite N.land_spec, HB, not64_pow2_bits by exact Hm.
           destruct (N.ltb_spec j 64); destruct (N.eqb_spec (i mod 64) j);
             destruct (N.eqb_spec (64 * k + j) i); cbn [andb negb];
             rewrite ?andb_true_r, ?andb_false_r; try reflexivity; lia.
      * rewrite HB. destruct (N.ltb_spec j 64); cbn [andb]; [|reflexivity].
        destruct (N.eqb_spec (64 * k + j) i); [lia|reflexivity].
Qed.

Lemma nth_resize_list l : forall n k, nth k (resize_list l n) 0 = if (k <? n)%nat then nth k l 0 else 0.
Proof.
  induction l as [|x t IH]; intros n k.
  - revert k. induction n as [|n IHn]; intros k.
    + destruct k; reflexivity.
    + destruct k as [|k]; [reflexivity|]. cbn [resize_list nth]. rewrite IHn.
      change (S k <? S n)%nat with (k <? n)%nat. destruct (k <? n)%nat; destruct k; reflexivity.
  - destruct n as [|n]; [destruct k; reflexivity|].
    destruct k as [|k]; [reflexivity|]. cbn [resize_list nth]. rewrite IH. reflexivity.
Qed.
Lemma length_resize_list l : forall n, length (resize_list l n) = n.
Proof.
  induction l as [|x t IH]; intros n.
  - induction n as [|n IHn]; [reflexivity|]. cbn [resize_list length]. rewrite IHn. reflexivity.
  - destruct n; [reflexivity|]. cbn [resize_list length]. rewrite IH. reflexivity.
Qed.
Lemma wd_resize_list W n k : wd (resize_list W n) k = if k <? N.of_nat n then wd W k else 0.
Proof.
  unfold wd. rewrite nth_resize_list.
  destruct (Nat.ltb_spec (N.to_nat k) n); destruct (N.ltb_spec k (N.of_nat n)); try reflexivity; lia.
Qed.

Lemma words_for_eq s : s + 63 < 2^64 -> words_for s = (s + 63) / 64.
Proof. intros H. unfold words_for. rewrite add64_small by exact H. apply shr6. Qed.

Lemma resize_inv b bits s : bvb_inv b bits -> s + 63 < 2^64 ->
  bvb_inv (bvb_resize b s) (resize_bits bits s).
Proof.
  destruct b as [s0 W]. intros [Hs [HL HB]] Hlt. cbn [bb_size bb_words] in *. subst s0.
  unfold bvb_resize. cbn [bb_size bb_words]. rewrite words_for_eq by exact Hlt.
  set (nw := (s + 63) / 64). set (W1 := resize_list W (N.to_nat nw)).
  assert (H1 : forall k, wd W1 k = if k <? nw then wd W k else 0).
  { intros k. subst W1. rewrite wd_resize_list, N2Nat.id. reflexivity. }
  assert (L1 : lenN W1 = nw) by (subst W1; unfold lenN; rewrite length_resize_list; lia).
  rewrite land63, shr6, bit_mask_eq.
  split; cbn [bb_size bb_words]; [symmetry; apply lenN_resize_bits|].
  assert (Hm : s mod 64 < 64) by (apply N.mod_lt; discriminate).
  destruct ((s <? lenN bits) && negb (s mod 64 =? 0)) eqn:C.
  - apply andb_true_iff in C. destruct C as [C1 C2]. apply N.ltb_lt in C1.
    apply negb_true_iff in C2. apply N.eqb_neq in C2.
    destruct (upd_some W1 (N.to_nat (s / 64)) (fun w => N.land w (2 ^ (s mod 64) - 1))) as [W2 E].
    { unfold lenN in L1. subst nw. lia. }
    rewrite E. split.
    + rewrite lenN_resize_bits. destruct (upd_spec _ _ _ _ 0 E) as (L & _).
      unfold lenN in *. rewrite L. exact L1.
    + intros k j. rewrite (wd_upd _ _ _ _ _ E), nthb_resize_bits, H1.
      replace (2 ^ (s mod 64) - 1) with (N.ones (s mod 64)) by (rewrite N.ones_equiv, N.pred_sub; reflexivity).
      destruct (N.eqb_spec k (s / 64)) as [Ek|Ek].
      * destruct (N.ltb_spec k nw); [|subst nw; lia].
        rewrite N.land_spec, HB, testbit_ones.
        destruct (N.ltb_spec j 64); destruct (N.ltb_spec j (s mod 64));
          destruct (N.ltb_spec (64 * k + j) s); cbn [andb];
          rewrite ?andb_true_r, ?andb_false_r; try reflexivity; lia.
      * destruct (N.ltb_spec k nw).
        -- rewrite HB. destruct (N.ltb_spec j 64); cbn [andb]; [|reflexivity].
           destruct (N.ltb_spec (64 * k + j) s); [reflexivity|subst nw; lia].
        -- rewrite N.bits_0. destruct (N.ltb_spec (64 * k + j) s); [subst nw; lia|].
           cbn [andb]. rewrite andb_false_r. reflexivity.
  - apply andb_false_iff in C. split.
    + rewrite lenN_resize_bits. exact L1.
    + intros k j. rewrite nthb_resize_bits, H1.
      destruct (N.ltb_spec k nw).
      * rewrite HB. destruct (N.ltb_spec j 64); cbn [andb]; [|reflexivity].
        destruct (N.ltb_spec (64 * k + j) s); [reflexivity|]. cbn [andb].
        destruct C as [C|C].
        -- apply N.ltb_ge in C. apply nthb_ge. lia.
        -- apply negb_false_iff in C. apply N.eqb_eq in C. subst nw. lia.
      * rewrite N.bits_0. destruct (N.ltb_spec (64 * k + j) s); [subst nw; lia|].
        cbn [andb]. rewrite andb_false_r. reflexivity.
Qed.

(* ---- the denotation as a function, and the invariant in its "stale bits are zero" form ---- *)
Definition bvb_bits (b : bvb) : list bool :=
  map (fun i => N.testbit (wd (bb_words b) (N.of_nat i / 64)) (N.of_nat i mod 64))
      (seq 0 (N.to_nat (bb_size b))).
Definition bvb_wf (b : bvb) : Prop :=
  lenN (bb_words b) = (bb_size b + 63) / 64 /\
  forall i j, N.testbit (wd (bb_words b) i) j = true -> j < 64 /\ 64 * i + j < bb_size b.

Lemma lenN_bvb_bits b : lenN (bvb_bits b) = bb_size b.
Proof. unfold lenN, bvb_bits. rewrite map_length, seq_length. lia. Qed.
Lemma nthb_bvb_bits b k : nthb (bvb_bits b) k =
  (k <? bb_size b) && N.testbit (wd (bb_words b) (k / 64)) (k mod 64).
Proof.
  unfold nthb, bvb_bits. destruct (N.ltb_spec k (bb_size b)) as [L|L]; cbn [andb].
  - set (f := fun i => _).
    rewrite (nth_indep _ false (f 0%nat)) by (rewrite map_length, seq_length; lia).
    rewrite map_nth, seq_nth by lia. subst f. cbv beta. cbn [Nat.add]. rewrite N2Nat.id. reflexivity.
  - apply nth_overflow. rewrite map_length, seq_length. lia.
Qed.

Lemma bvb_wf_inv b : bvb_wf b -> bvb_inv b (bvb_bits b).
Proof.
  intros [HL HB]. split; [symmetry; apply lenN_bvb_bits|]. split.
  - rewrite lenN_bvb_bits. exact HL.
  - intros i j. rewrite nthb_bvb_bits.
    destruct (N.testbit (wd (bb_words b) i) j) eqn:E.
    + destruct (HB _ _ E) as [H1 H2].
      destruct (N.ltb_spec j 64); [|lia]. destruct (N.ltb_spec (64 * i + j) (bb_size b)); [|lia].
      cbn [andb]. replace ((64 * i + j) / 64) with i by lia. replace ((64 * i + j) mod 64) with j by lia.
      symmetry. exact E.
    + destruct (N.ltb_spec j 64); [|reflexivity]. cbn [andb].
      replace ((64 * i + j) / 64) with i by lia. replace ((64 * i + j) mod 64) with j by lia.
      rewrite E. rewrite andb_false_r. reflexivity.
Qed.

Lemma bvb_inv_bits b bits : bvb_inv b bits -> bvb_bits b = bits /\ bvb_wf b.
Proof.
  intros [Hs [HL HB]]. split.
  - apply (nth_ext _ _ false false).
    + pose proof (lenN_bvb_bits b) as H. unfold lenN in *. lia.
    + intros n Hn. pose proof (lenN_bvb_bits b) as H. unfold lenN in H.
      pose proof (nthb_bvb_bits b (N.of_nat n)) as Hk. unfold nthb in Hk. rewrite Nat2N.id in Hk.
      rewrite Hk, HB. destruct (N.ltb_spec (N.of_nat n) (bb_size b)); [|lia].
      destruct (N.ltb_spec (N.of_nat n mod 64) 64); [|lia]. cbn [andb].
      unfold nthb. f_equal. lia.
  - split; [rewrite Hs; exact HL|]. intros i j E. rewrite HB in E.
    apply andb_true_iff in E. destruct E as [E1 E2]. apply N.ltb_lt in E1.
    apply nthb_true_lt in E2. rewrite Hs. lia.
Qed.
(* ==== C ==== *)

Lemma lor_add_disjoint a b n : b < 2^n -> N.lor (a * 2^n) b = a * 2^n + b.
Proof.
  intros Hb.
  assert (H : N.land (a * 2^n) b = 0).
  { apply N.bits_inj. intros k. rewrite N.land_spec, N.bits_0.
    destruct (N.lt_ge_cases k n) as [L|L].
    - rewrite N.mul_pow2_bits_low by exact L. reflexivity.
    - rewrite <- (N.mod_small b (2^n)) by exact Hb. rewrite N.mod_pow2_bits_high by exact L.
      apply andb_false_r. }
  rewrite <- N.lxor_lor by exact H. symmetry. apply N.add_nocarry_lxor. exact H.
Qed.

Lemma lor_shl9 p i : p < 2^54 -> i < 512 -> N.lor (shl64 p 9) i = p * 512 + i.
Proof.
  intros Hp Hi. rewrite shl64_small.
  - change (2^9) with 512 in *. apply (lor_add_disjoint p i 9). exact Hi.
  - change (2^9) with 512. change (2^54) with 18014398509481984 in Hp. rewrite pow2_64. lia.
Qed.

Lemma rh_pad_S n p i : p < 2^54 -> i < 512 -> rh_pad (S n) p i = rh_pad n (p * 512 + i) i.
Proof. intros. cbn [rh_pad]. rewrite lor_shl9 by assumption. reflexivity. Qed.

Definition rh_finish (s : rh_st) : list N :=
  let remain := bv_block_size - rh_bi s in
  let packed := rh_pad (N.to_nat remain) (rh_packed s) (rh_inblk s) in
  let out := packed :: rh_out s in
  let out := if rh_bi s =? 0 then out else 0 :: rh_ones s :: out in
  rev out.

Lemma rank_hints_of_eq W : rank_hints_of W = rh_finish (fold_left rh_step W (mkRh 0 0 0 0 [0])).
Proof. reflexivity. Qed.

Section RankHintsFold.
Hypothesis Hpop : PopcountSpec.

Lemma rh_step_first o i p out w : w < 2^64 -> o + 64 < 2^64 -> i < 512 ->
  rh_step (mkRh o i p 0 out) w = mkRh (o + popcnt_spec w) (i + popcnt_spec w) p 1 out.
Proof.
  intros Hw Ho Hi. pose proof (popcnt_le64 w Hw). rewrite pow2_64 in *.
  unfold rh_step. cbn [rh_bi rh_packed rh_inblk rh_ones rh_out].
  rewrite (Hpop w) by (rewrite pow2_64; exact Hw). rewrite !add64_small by (rewrite pow2_64; lia).
  reflexivity.
Qed.

Lemma rh_step_mid b o i p out w : w < 2^64 -> o + 64 < 2^64 -> i < 512 -> p < 2^54 -> 0 < b < 7 ->
  rh_step (mkRh o i p b out) w = mkRh (o + popcnt_spec w) (i + popcnt_spec w) (p * 512 + i) (b + 1) out.
Proof.
  intros Hw Ho Hi Hp Hb. pose proof (popcnt_le64 w Hw). rewrite pow2_64 in *.
  unfold rh_step. cbn [rh_bi rh_packed rh_inblk rh_ones rh_out].
  rewrite (Hpop w) by (rewrite pow2_64; exact Hw). rewrite !add64_small by (rewrite pow2_64; lia).
  rewrite lor_shl9 by assumption.
  destruct (N.eqb_spec b 0); [lia|]. destruct (N.eqb_spec b (bv_block_size - 1)); [unfold bv_block_size in *; lia|].
  reflexivity.
Qed.

Lemma rh_step_last o i p out w : w < 2^64 -> o + 64 < 2^64 -> i < 512 -> p < 2^54 ->
  rh_step (mkRh o i p 7 out) w =
  mkRh (o + popcnt_spec w) 0 0 0 ((o + popcnt_spec w) :: (p * 512 + i) :: out).
Proof.
  intros Hw Ho Hi Hp. pose proof (popcnt_le64 w Hw). rewrite pow2_64 in *.
  unfold rh_step. cbn [rh_bi rh_packed rh_inblk rh_ones rh_out].
  rewrite (Hpop w) by (rewrite pow2_64; exact Hw). rewrite !add64_small by (rewrite pow2_64; lia).
  rewrite lor_shl9 by assumption.
  reflexivity.
Qed.


Ltac rh_side := first [assumption | lia].

Lemma fold_left_cons' {A B} (f : A -> B -> A) x l a : fold_left f (x :: l) a = fold_left f l (f a x).
Proof. reflexivity. Qed.
Lemma fold_left_nil' {A B} (f : A -> B -> A) a : fold_left f [] a = a.
Proof. reflexivity. Qed.

Ltac rh_steps :=
  rewrite !fold_left_cons', ?fold_left_nil';
  rewrite rh_step_first by rh_side;
  try (rewrite (rh_step_mid 1) by rh_side; change (1 + 1) with 2);
  try (rewrite (rh_step_mid 2) by rh_side; change (2 + 1) with 3);
  try (rewrite (rh_step_mid 3) by rh_side; change (3 + 1) with 4);
  try (rewrite (rh_step_mid 4) by rh_side; change (4 + 1) with 5);
  try (rewrite (rh_step_mid 5) by rh_side; change (5 + 1) with 6);
  try (rewrite (rh_step_mid 6) by rh_side; change (6 + 1) with 7).

Ltac rh_tail f :=
  rh_steps;
  unfold rh_finish; cbn [rh_bi rh_packed rh_inblk rh_ones rh_out];
  match goal with |- context [N.to_nat (bv_block_size - ?b)] =>
    let v := eval vm_compute in (N.to_nat (bv_block_size - b)) in
    change (N.to_nat (bv_block_size - b)) with v end;
  repeat (rewrite rh_pad_S by rh_side); cbn [rh_pad];
  match goal with |- context [?b =? 0] =>
    let v := eval vm_compute in (b =? 0) in change (b =? 0) with v end;
  cbv iota;
  destruct f; [lia|];
  cbn [rh_spec skipn firstn rev app]; rewrite <- !app_assoc; cbn [app];
  unfold pk7; cbn [firstn wsum fold_right];
  repeat (f_equal; try lia).

Lemma rh_main fuel : forall W o out,
  (length W + 8 <= 8 * fuel)%nat -> Forall (fun w => w < 2^64) W -> o + 64 * lenN W + 64 < 2^64 ->
  rh_finish (fold_left rh_step W (mkRh o 0 0 0 (o :: out))) = rev out ++ rh_spec fuel W o.
Proof.
  induction fuel as [|f IH]; intros W o out Hf HF Ho; [lia|].
  destruct W as [|w0 [|w1 [|w2 [|w3 [|w4 [|w5 [|w6 [|w7 R]]]]]]]].
  all: repeat match goal with H : Forall _ (_ :: _) |- _ =>
         apply Forall_cons_iff in H; let H' := fresh "Hw" in destruct H as [H' H];
         pose proof (popcnt_le64 _ H') end.
  all: unfold lenN in Ho; cbn [length] in Ho, Hf.
  - unfold rh_finish. cbn [fold_left rh_bi rh_packed rh_inblk rh_ones rh_out].
    change (rh_pad (N.to_nat (bv_block_size - 0)) 0 0) with 0. change (0 =? 0) with true. cbv iota.
    cbn [rev rh_spec]. rewrite <- app_assoc. reflexivity.
  - rh_tail f.
  - rh_tail f.
  - rh_tail f.
  - rh_tail f.
  - rh_tail f.
  - rh_tail f.
  - rh_tail f.
  - rh_steps. rewrite rh_step_last by rh_side.
    rewrite IH; [|lia|exact HF|unfold lenN; rh_side].
    cbn [rh_spec skipn firstn rev app]. rewrite <- !app_assoc. cbn [app].
    unfold pk7; cbn [firstn wsum fold_right].
    f_equal. f_equal. f_equal; [lia|]. f_equal. lia.
Qed.
End RankHintsFold.
(* ==== D ==== *)

Definition nblk (W : list N) : N := (lenN W + 7) / 8.

Lemma max_bits_eq : max_bits = 4611686018427387904.
Proof. reflexivity. Qed.

Lemma rk_le_len bits i : rk bits i <= lenN bits.
Proof.
  destruct (N.le_gt_cases i (lenN bits)) as [L|L].
  - pose proof (rk_le bits i). lia.
  - rewrite rk_ge by lia. rewrite <- (rk_ge bits (lenN bits)) by lia. apply rk_le.
Qed.

Section Rank.
Hypothesis Hpop : PopcountSpec.
Hypothesis Hlow : PopcntLowBits.

Lemma rank_hints_spec W : Forall (fun w => w < 2^64) W -> 64 * lenN W + 64 < 2^64 ->
  rank_hints_of W = rh_spec (S (length W)) W 0.
Proof.
  intros HF HL. rewrite rank_hints_of_eq.
  apply (rh_main Hpop (S (length W)) W 0 []); [lia|exact HF|lia].
Qed.

Lemma fold_popcount W : forall a, Forall (fun w => w < 2^64) W -> a + 64 * lenN W < 2^64 ->
  fold_left (fun acc w => add64 acc (popcount w)) W a = a + wsum W.
Proof.
  induction W as [|w t IH]; intros a HF Ha.
  - cbn [fold_left wsum fold_right]. lia.
  - apply Forall_cons_iff in HF. destruct HF as [Hw HF]. pose proof (popcnt_le64 w Hw).
    unfold lenN in Ha. cbn [length] in Ha.
    cbn [fold_left wsum fold_right]. fold (wsum t). rewrite (Hpop w Hw).
    rewrite add64_small by lia. rewrite IH; [lia|exact HF|unfold lenN; lia].
Qed.

Lemma sum_popcount_eq W : Forall (fun w => w < 2^64) W -> 64 * lenN W < 2^64 -> sum_popcount W = wsum W.
Proof. intros HF HL. unfold sum_popcount. rewrite fold_popcount; [lia|exact HF|lia]. Qed.

(* everything the queries need to know about a built vector *)
Definition hints_ok (v : bitvec) (W : list N) (bits : list bool) : Prop :=
  repr W bits /\ lenN bits < max_bits /\ bv_words v = of_list W /\
  bv_rank_hints v = of_list (rank_hints_of W).

Lemma repr_len_bound W bits : repr W bits -> lenN bits < max_bits -> lenN W <= 2^56.
Proof. intros [HL _] H. rewrite max_bits_eq in H. rewrite HL. change (2^56) with 72057594037927936. lia. Qed.

Lemma hints_list W bits : repr W bits -> lenN bits < max_bits ->
  lenN (rank_hints_of W) = 2 * (nblk W + 1) /\
  forall b, b <= nblk W ->
    nth (N.to_nat (2 * b)) (rank_hints_of W) 0 = rk bits (512 * b) /\
    nth (N.to_nat (2 * b + 1)) (rank_hints_of W) 0 = pk7 (skipn (N.to_nat (8 * b)) W).
Proof.
  intros HR Hm. pose proof (repr_len_bound W bits HR Hm) as HL. change (2^56) with 72057594037927936 in HL.
  rewrite rank_hints_spec; [|apply (repr_forall_lt W bits HR)|rewrite pow2_64; lia].
  split.
  - unfold lenN at 1. rewrite rh_spec_length by lia. unfold nblk, lenN. lia.
  - intros b Hb. unfold nblk, lenN in Hb.
    destruct (rh_spec_nth (S (length W)) W 0 (N.to_nat b)) as [H1 H2]; [lia|lia|].
    replace (N.to_nat (2 * b)) with (2 * N.to_nat b)%nat by lia.
    replace (N.to_nat (2 * b + 1)) with (2 * N.to_nat b + 1)%nat by lia.
    replace (N.to_nat (8 * b)) with (8 * N.to_nat b)%nat by lia.
    rewrite H1, H2. split; [|reflexivity].
    rewrite N.add_0_l. replace (512 * b) with (64 * (8 * b)) by lia.
    rewrite <- (pw_rk W bits) by exact HR. unfold pw. do 2 f_equal. lia.
Qed.

Lemma block_field W bits b k : repr W bits -> k <= 7 ->
  field9 (pk7 (skipn (N.to_nat (8 * b)) W)) (7 - k) = rk bits (512 * b + 64 * k) - rk bits (512 * b).
Proof.
  intros HR Hk. pose proof (repr_forall_lt W bits HR) as HF.
  rewrite <- (N2Nat.id k) at 1. rewrite pk7_field.
  - replace (512 * b + 64 * k) with (64 * (8 * b + k)) by lia. replace (512 * b) with (64 * (8 * b)) by lia.
    rewrite <- !(pw_rk W bits) by exact HR. unfold pw.
    replace (N.to_nat (8 * b + k)) with (N.to_nat (8 * b) + N.to_nat k)%nat by lia.
    rewrite wsum_firstn_add. lia.
  - lia.
  - pose proof (wsum_firstn_le 7 _ (Forall_skipn' _ (N.to_nat (8 * b)) _ HF)). lia.
Qed.

Lemma block_pk7_lt W bits b : repr W bits -> pk7 (skipn (N.to_nat (8 * b)) W) < 2^63.
Proof.
  intros HR. pose proof (repr_forall_lt W bits HR) as HF. apply pk7_lt.
  pose proof (wsum_firstn_le 7 _ (Forall_skipn' _ (N.to_nat (8 * b)) _ HF)). lia.
Qed.

Section Queries.
Variables (v : bitvec) (W : list N) (bits : list bool).
Hypothesis Hok : hints_ok v W bits.

Lemma nblk_bound : nblk W <= 2^53.
Proof.
  destruct Hok as (HR & Hm & _). pose proof (repr_len_bound W bits HR Hm) as HL.
  unfold nblk. change (2^56) with 72057594037927936 in HL. change (2^53) with 9007199254740992. lia.
Qed.

Lemma rank_for_block_ok b : b <= nblk W -> rank_for_block v b = Ok (rk bits (512 * b)).
Proof.
  intros Hb. pose proof nblk_bound as HN. change (2^53) with 9007199254740992 in HN.
  destruct Hok as (HR & Hm & HW & HH).
  destruct (hints_list W bits HR Hm) as [HL Hn]. destruct (Hn b Hb) as [H1 _].
  unfold rank_for_block. rewrite HH. rewrite shl64_small by (change (2^1) with 2; rewrite pow2_64; lia).
  change (2^1) with 2. rewrite (aget_of_list_ok _ _ 0) by (fold (lenN (rank_hints_of W)); lia).
  rewrite N.mul_comm, H1. reflexivity.
Qed.

Lemma ranks_in_block_ok b : b <= nblk W ->
  ranks_in_block v b = Ok (pk7 (skipn (N.to_nat (8 * b)) W)).
Proof.
  intros Hb. pose proof nblk_bound as HN. change (2^53) with 9007199254740992 in HN.
  destruct Hok as (HR & Hm & HW & HH).
  destruct (hints_list W bits HR Hm) as [HL Hn]. destruct (Hn b Hb) as [_ H2].
  unfold ranks_in_block. rewrite HH. rewrite shl64_small by (change (2^1) with 2; rewrite pow2_64; lia).
  change (2^1) with 2. rewrite add64_small by (rewrite pow2_64; lia).
  rewrite (aget_of_list_ok _ _ 0) by (fold (lenN (rank_hints_of W)); lia).
  rewrite (N.mul_comm b 2), H2. reflexivity.
Qed.

Lemma rank_in_block_ok b k : b <= nblk W -> k <= 7 ->
  rank_in_block v b k = Ok (rk bits (512 * b + 64 * k) - rk bits (512 * b)).
Proof.
  intros Hb Hk. destruct Hok as (HR & _).
  unfold rank_in_block. rewrite ranks_in_block_ok by exact Hb. cbn [bind].
  rewrite sub64_small by (rewrite ?pow2_64; lia). rewrite mul64_small by (rewrite pow2_64; lia).
  unfold shr64c. destruct (N.ltb_spec ((7 - k) * 9) 64) as [_|L]; [|lia]. cbn [bind].
  unfold shr64. rewrite (N.mul_comm (7 - k) 9). fold (field9 (pk7 (skipn (N.to_nat (8 * b)) W)) (7 - k)).
  rewrite (block_field W bits b k HR Hk). reflexivity.
Qed.

Lemma rank_for_word_ok wi : wi / 8 <= nblk W -> rank_for_word v wi = Ok (rk bits (64 * wi)).
Proof.
  intros Hb. destruct Hok as (HR & Hm & _). rewrite max_bits_eq in Hm.
  unfold rank_for_word. rewrite shr64_div, land7. change (2^3) with 8.
  rewrite rank_for_block_ok by exact Hb. cbn [bind].
  rewrite rank_in_block_ok by (try exact Hb; lia). cbn [bind].
  replace (512 * (wi / 8) + 64 * (wi mod 8)) with (64 * wi) by lia.
  pose proof (rk_mono bits (512 * (wi / 8)) (64 * wi) ltac:(lia)).
  pose proof (rk_le_len bits (64 * wi)).
  rewrite add64_small; [f_equal; lia|]. rewrite pow2_64. lia.
Qed.

End Queries.
End Rank.
(* ==== E ==== *)

(* ------------------------------------------------------------------ *)
(* the select hints                                                     *)
(* ------------------------------------------------------------------ *)
Definition sel_post (bits : list bool) (NB : N) (t : list N) (bi j : N) : Prop :=
  (1 <= length t)%nat /\
  nth (length t - 1) t 0 = NB /\
  rk bits (512 * NB) <= 1024 * (j + lenN t) /\
  forall k, (k + 1 < length t)%nat ->
    let e := nth k t 0 in
    bi <= e < NB /\ rk bits (512 * e) <= 1024 * (j + N.of_nat k + 1) < rk bits (512 * (e + 1)).

Section SelHints.
Hypothesis Hpop : PopcountSpec.

Lemma nthN_hints W bits b : repr W bits -> lenN bits < max_bits -> b <= nblk W ->
  nthN (rank_hints_of W) (2 * b) = Some (rk bits (512 * b)).
Proof.
  intros HR Hm Hb. destruct (hints_list Hpop W bits HR Hm) as [HL Hn]. destruct (Hn b Hb) as [H1 _].
  unfold nthN. rewrite <- H1. apply nth_error_nth'. unfold lenN in HL. lia.
Qed.

Lemma sel_loop W bits : repr W bits -> lenN bits < max_bits ->
  forall m bi j, bi + N.of_nat m = nblk W ->
    1024 * j <= rk bits (512 * bi) -> rk bits (512 * bi) <= 1024 * (j + 1) ->
    exists t, sel_hints_loop (rank_hints_of W) m bi (1024 * (j + 1)) = Ok t /\
              sel_post bits (nblk W) t bi j.
Proof.
  intros HR Hm. pose proof Hm as Hm'. rewrite max_bits_eq in Hm'.
  induction m as [|m IH]; intros bi j Hbi Hlo Hhi.
  - exists [bi]. split; [reflexivity|]. replace bi with (nblk W) by lia.
    split; [cbn [length]; lia|]. split; [reflexivity|]. split.
    + change (lenN [nblk W]) with 1. replace (nblk W) with bi by lia. exact Hhi.
    + intros k Hk. cbn [length] in Hk. lia.
  - cbn [sel_hints_loop]. rewrite (nthN_hints W bits (bi + 1) HR Hm) by lia.
    pose proof (rk_add_bounds bits (512 * bi) 512) as Hstep.
    replace (512 * bi + 512) with (512 * (bi + 1)) in Hstep by lia.
    pose proof (rk_le_len bits (512 * (bi + 1))) as Hle.
    destruct (N.ltb_spec (1024 * (j + 1)) (rk bits (512 * (bi + 1)))) as [L|L].
    + unfold bv_selects_per_hint. rewrite add64_small by (rewrite pow2_64; lia).
      replace (1024 * (j + 1) + 1024) with (1024 * (j + 1 + 1)) by lia.
      destruct (IH (bi + 1) (j + 1)) as (t & Et & Pt); [lia|lia|lia|].
      rewrite Et. cbn [bind]. exists (bi :: t). split; [reflexivity|].
      destruct Pt as (P1 & P2 & P3 & P4). split; [cbn [length]; lia|]. split; [|split].
      * cbn [length]. replace (S (length t) - 1)%nat with (S (length t - 1)) by lia. exact P2.
      * unfold lenN in *. cbn [length]. lia.
      * intros [|k] Hk; cbn [length] in Hk; cbn [nth]; cbv zeta.
        -- split; [lia|]. change (N.of_nat 0) with 0. lia.
        -- specialize (P4 k ltac:(lia)). cbv zeta in P4. lia.
    + destruct (IH (bi + 1) j) as (t & Et & Pt); [lia|lia|lia|].
      exists t. split; [exact Et|].
      destruct Pt as (P1 & P2 & P3 & P4). split; [exact P1|]. split; [exact P2|]. split; [exact P3|].
      intros k Hk. specialize (P4 k Hk). cbv zeta in *. lia.
Qed.

Lemma sel_hints_exists W bits : repr W bits -> lenN bits < max_bits ->
  exists sh, sel_hints_loop (rank_hints_of W) (N.to_nat (num_blocks_of (lenN (rank_hints_of W)))) 0
                            bv_selects_per_hint = Ok sh /\
             sel_post bits (nblk W) sh 0 0.
Proof.
  intros HR Hm. destruct (hints_list Hpop W bits HR Hm) as [HL _].
  pose proof (repr_len_bound W bits HR Hm) as HB. change (2^56) with 72057594037927936 in HB.
  assert (E : num_blocks_of (lenN (rank_hints_of W)) = nblk W).
  { unfold num_blocks_of. rewrite HL, shr64_div. change (2^1) with 2.
    unfold nblk in *. rewrite sub64_small by (rewrite ?pow2_64; lia). lia. }
  rewrite E. change bv_selects_per_hint with (1024 * (0 + 1)).
  apply sel_loop; [exact HR|exact Hm|lia|rewrite N.mul_0_r, rk_0; lia|rewrite N.mul_0_r, rk_0; lia].
Qed.

(* ------------------------------------------------------------------ *)
(* what bv_of_bits builds                                               *)
(* ------------------------------------------------------------------ *)
Lemma bv_of_bits_built bits r s : lenN bits < max_bits ->
  exists W sh,
    repr W bits /\
    bv_of_bits bits r s =
      Ok (mkBv (lenN bits) (count_true bits) (of_list W)
               (of_list (if r then rank_hints_of W else [])) (of_list sh)) /\
    (r && s = true -> sel_post bits (nblk W) sh 0 0).
Proof.
  intros Hm. pose proof Hm as Hm'. rewrite max_bits_eq in Hm'.
  destruct (bvb_of_bits_inv bits) as (b & Eb & Hs & HR); [rewrite pow2_64; lia|].
  pose proof (repr_len_bound _ bits HR Hm) as HB. change (2^56) with 72057594037927936 in HB.
  unfold bv_of_bits. rewrite Eb. cbn [bind]. unfold bv_build.
  rewrite sum_popcount_eq; [|exact Hpop|apply (repr_forall_lt _ bits HR)|rewrite pow2_64; lia].
  rewrite (repr_wsum _ bits HR), Hs.
  exists (bb_words b).
  destruct (r && s) eqn:Ers.
  - apply andb_true_iff in Ers. destruct Ers as [-> ->].
    destruct (sel_hints_exists _ bits HR Hm) as (sh & Esh & Psh).
    exists sh. rewrite Esh. cbn [bind]. split; [exact HR|]. split; [reflexivity|]. intros _. exact Psh.
  - exists []. cbn [bind]. split; [exact HR|]. split; [reflexivity|discriminate].
Qed.

End SelHints.

(* ==== F ==== *)

(* ------------------------------------------------------------------ *)
(* counting the sub-block offsets                                       *)
(* ------------------------------------------------------------------ *)
Definition b2nat (b : bool) : nat := if b then 1%nat else 0%nat.

Lemma filter7 (f : N -> bool) :
  length (filter f [0; 1; 2; 3; 4; 5; 6]) =
  (b2nat (f 0%N) + b2nat (f 1%N) + b2nat (f 2%N) + b2nat (f 3%N) + b2nat (f 4%N) + b2nat (f 5%N) + b2nat (f 6%N))%nat.
Proof.
  cbn [filter]. destruct (f 0), (f 1), (f 2), (f 3), (f 4), (f 5), (f 6); reflexivity.
Qed.

Ltac off_pick k k1 :=
  solve [exists k; split; [reflexivity|split; [lia|change (k + 1) with k1; lia]]].

Lemma off_count (P : N -> N) d :
  P 0 <= d -> P 0 <= P 1 -> P 1 <= P 2 -> P 2 <= P 3 -> P 3 <= P 4 -> P 4 <= P 5 -> P 5 <= P 6 ->
  P 6 <= P 7 -> P 7 <= P 8 -> d < P 8 ->
  exists off,
    (b2nat (P 7 <=? d)%N + b2nat (P 6 <=? d)%N + b2nat (P 5 <=? d)%N + b2nat (P 4 <=? d)%N +
     b2nat (P 3 <=? d)%N + b2nat (P 2 <=? d)%N + b2nat (P 1 <=? d)%N)%nat = N.to_nat off /\
    off <= 7 /\ P off <= d < P (off + 1).
Proof.
  intros.
  destruct (N.leb_spec (P 7) d); destruct (N.leb_spec (P 6) d); destruct (N.leb_spec (P 5) d);
  destruct (N.leb_spec (P 4) d); destruct (N.leb_spec (P 3) d); destruct (N.leb_spec (P 2) d);
  destruct (N.leb_spec (P 1) d); try (exfalso; lia); cbn [b2nat Nat.add].
  all: first [off_pick 0 1 | off_pick 1 2 | off_pick 2 3 | off_pick 3 4 | off_pick 4 5 | off_pick 5 6
             | off_pick 6 7 | off_pick 7 8].
Qed.

Lemma field9_ones_step d j : d < 512 -> j <= 6 -> field9 (d * ones_step_9) j = d.
Proof.
  intros Hd Hj. rewrite field9_eq. unfold ones_step_9.
  assert (C : j = 0 \/ j = 1 \/ j = 2 \/ j = 3 \/ j = 4 \/ j = 5 \/ j = 6) by lia.
  destruct C as [->|[->|[->|[->|[->|[->| ->]]]]]]; comp_pow; lia.
Qed.

Section Select.
Hypothesis Hpop : PopcountSpec.
Hypothesis Hsiw : SelectInWordSpec.
Hypothesis Hsound : SelectSpecSound.
Hypothesis Huleq : UleqCount.

Variables (v : bitvec) (W : list N) (bits : list bool) (sh : list N).
Hypothesis Hok : hints_ok v W bits.
Hypothesis Hsh : bv_sel_hints v = of_list sh.
Hypothesis Hpost : sel_post bits (nblk W) sh 0 0.

Let A (b : N) : N := rk bits (512 * b).
Let NB : N := nblk W.

Lemma A_mono a b : a <= b -> A a <= A b.
Proof. intros. apply rk_mono. lia. Qed.
Lemma A_step b : A (b + 1) <= A b + 512.
Proof. unfold A. replace (512 * (b + 1)) with (512 * b + 512) by lia. apply rk_add_bounds. Qed.
Lemma A_total : A NB = count_true bits.
Proof.
  destruct Hok as ([HL _] & _). unfold A, NB, nblk. apply rk_ge. lia.
Qed.
Lemma A_0 : A 0 = 0.
Proof. reflexivity. Qed.
Lemma NB_bound : NB <= 9007199254740992.
Proof. exact (nblk_bound v W bits Hok). Qed.

Lemma swh_ok n : n < count_true bits ->
  exists a b, select_with_hint v n = Ok (a, b) /\
    a < b /\ b <= NB + 1 /\ A a <= n /\ (b <= NB -> n < A b).
Proof.
  intros Hn. rewrite <- A_total in Hn. pose proof NB_bound as HNB.
  destruct Hpost as (P1 & P2 & P3 & P4). fold NB in P2, P3, P4. fold (A NB) in P3.
  unfold lenN in P3. set (i := n / 1024).
  assert (Hi : i < N.of_nat (length sh)) by (subst i; lia).
  set (e := nth (N.to_nat i) sh 0).
  assert (He : e <= NB /\ (e + 1 <= NB -> n < A (e + 1))).
  { destruct (Nat.lt_ge_cases (N.to_nat i + 1) (length sh)) as [L|L].
    - specialize (P4 _ L). cbv zeta in P4. fold e in P4. fold (A (e + 1)) in P4. subst i. lia.
    - assert (e = NB) by (subst e; replace (N.to_nat i) with (length sh - 1)%nat by lia; exact P2). lia. }
  unfold select_with_hint. unfold bv_selects_per_hint. fold i. rewrite Hsh.
  rewrite (aget_of_list_ok sh i 0) by exact Hi. fold e.
  destruct (N.eqb_spec i 0) as [E0|E0]; cbn [bind].
  - rewrite add64_small by (rewrite pow2_64; lia).
    exists 0, (e + 1). split; [reflexivity|]. rewrite A_0. repeat split; try lia; try apply He.
  - rewrite (aget_of_list_ok sh (i - 1) 0) by lia. cbn [bind].
    rewrite add64_small by (rewrite pow2_64; lia).
    set (e' := nth (N.to_nat (i - 1)) sh 0).
    assert (He' : e' < NB /\ A e' <= n /\ 1024 * i < A (e' + 1)).
    { specialize (P4 (N.to_nat (i - 1)) ltac:(lia)). cbv zeta in P4. fold e' in P4.
      fold (A e') in P4. fold (A (e' + 1)) in P4. subst i. lia. }
    exists e', (e + 1). split; [reflexivity|]. repeat split; try lia; try apply He.
    destruct (N.lt_ge_cases e' (e + 1)) as [L|L]; [exact L|exfalso].
    pose proof (A_mono _ _ L). destruct He as [He1 He2].
    assert (e + 1 <= NB) by lia. specialize (He2 H0). subst i. lia.
Qed.

Lemma rfb b : b <= NB -> rank_for_block v b = Ok (A b).
Proof. intros. apply (rank_for_block_ok Hpop v W bits Hok). exact H. Qed.

Lemma bsearch_ok n : n < count_true bits ->
  forall fuel a b, a < b -> b <= NB + 1 -> A a <= n -> (b <= NB -> n < A b) ->
    b - a <= 2 ^ N.of_nat fuel ->
    exists r, select_bsearch fuel v n a b = Ok r /\ r < NB /\ A r <= n < A (r + 1).
Proof.
  intros Hn. rewrite <- A_total in Hn. pose proof NB_bound as HNB.
  induction fuel as [|f IH]; intros a b Hab Hb Ha Hbn Hf.
  - change (2 ^ N.of_nat 0) with 1 in Hf. cbn [select_bsearch].
    rewrite sub64_small by (rewrite ?pow2_64; lia).
    destruct (N.leb_spec (b - a) 1) as [L|L]; [|lia].
    assert (b = a + 1) by lia. subst b.
    exists a. split; [reflexivity|].
    destruct (N.le_gt_cases (a + 1) NB) as [L1|L1]; [specialize (Hbn L1); lia|].
    exfalso. assert (a = NB) by lia. subst a. lia.
  - cbn [select_bsearch]. rewrite sub64_small by (rewrite ?pow2_64; lia).
    destruct (N.leb_spec (b - a) 1) as [L|L].
    + assert (b = a + 1) by lia. subst b.
      exists a. split; [reflexivity|].
      destruct (N.le_gt_cases (a + 1) NB) as [L1|L1]; [specialize (Hbn L1); lia|].
      exfalso. assert (a = NB) by lia. subst a. lia.
    + rewrite Nat2N.inj_succ, N.pow_succ_r' in Hf.
      rewrite shr64_div. change (2^1) with 2.
      rewrite add64_small by (rewrite pow2_64; lia).
      set (lb := a + (b - a) / 2). assert (Hlb : a < lb < b) by (subst lb; lia).
      rewrite rfb by lia. cbn [bind].
      destruct (N.leb_spec (A lb) n) as [C|C].
      * apply IH; try assumption; try (intros; subst lb; lia).
      * apply IH; try assumption; try (intros; subst lb; lia).
Qed.

Lemma select_for_block_ok n : n < count_true bits ->
  exists bi, select_for_block v n = Ok bi /\ bi < NB /\ A bi <= n < A (bi + 1).
Proof.
  intros Hn. pose proof NB_bound as HNB.
  destruct (swh_ok n Hn) as (a & b & E & H1 & H2 & H3 & H4).
  unfold select_for_block. rewrite E. cbn [bind].
  apply bsearch_ok; try assumption. change (2 ^ N.of_nat 64) with 18446744073709551616. lia.
Qed.


Lemma bv_select_ok n : n < count_true bits ->
  exists p, bv_select v n = Ok p /\ p < lenN bits /\ nthb bits p = true /\ rk bits p = n.
Proof.
  intros Hn. pose proof NB_bound as HNB.
  destruct (select_for_block_ok n Hn) as (bi & Ebi & Hbi & Hlo & Hhi).
  pose proof Hok as (HR & Hm & HW & HH). rewrite max_bits_eq in Hm.
  unfold bv_select. rewrite Ebi. cbn [bind]. rewrite rfb by lia. cbn [bind].
  rewrite (ranks_in_block_ok Hpop v W bits Hok) by (fold NB; lia). cbn [bind].
  set (S := pk7 (skipn (N.to_nat (8 * bi)) W)).
  pose proof (block_pk7_lt W bits bi HR) as HS. fold S in HS.
  pose proof (A_step bi) as Hst. pose proof (rk_le_len bits (512 * bi)) as HAl. fold (A bi) in HAl.
  set (d := n - A bi). assert (Hd : d < 512) by (subst d; lia).
  rewrite (sub64_small n (A bi)) by (rewrite ?pow2_64; lia). fold d.
  assert (Hpar : d * ones_step_9 < 2^63) by (unfold ones_step_9; change (2^63) with 9223372036854775808; lia).
  rewrite (mul64_small d) by (rewrite pow2_64; change (2^63) with 9223372036854775808 in Hpar; lia).
  rewrite (Huleq S (d * ones_step_9) HS Hpar). rewrite filter7. cbv beta.
  rewrite !field9_ones_step by lia.
  pose (P := fun k => rk bits (512 * bi + 64 * k) - rk bits (512 * bi)).
  assert (F : forall k, k <= 7 -> field9 S (7 - k) = P k) by (intros k Hk; apply (block_field W bits bi k HR Hk)).
  pose proof (F 7 ltac:(lia)) as F7. change (7 - 7) with 0 in F7.
  pose proof (F 6 ltac:(lia)) as F6. change (7 - 6) with 1 in F6.
  pose proof (F 5 ltac:(lia)) as F5. change (7 - 5) with 2 in F5.
  pose proof (F 4 ltac:(lia)) as F4. change (7 - 4) with 3 in F4.
  pose proof (F 3 ltac:(lia)) as F3. change (7 - 3) with 4 in F3.
  pose proof (F 2 ltac:(lia)) as F2. change (7 - 2) with 5 in F2.
  pose proof (F 1 ltac:(lia)) as F1. change (7 - 1) with 6 in F1.
  rewrite F7, F6, F5, F4, F3, F2, F1.
  assert (Pm : forall k, P k <= P (k + 1)).
  { intros k. subst P. cbv beta.
    pose proof (rk_mono bits (512 * bi + 64 * k) (512 * bi + 64 * (k + 1)) ltac:(lia)). lia. }
  assert (PA : forall k, rk bits (512 * bi + 64 * k) = A bi + P k).
  { intros k. subst P. cbv beta. pose proof (rk_mono bits (512 * bi) (512 * bi + 64 * k) ltac:(lia)).
    unfold A. lia. }
  destruct (off_count P d) as (off & Hoff & Hoff7 & Hlo' & Hhi');
    [subst P; cbv beta; replace (512 * bi + 64 * 0) with (512 * bi) by lia; lia|apply (Pm 0)|apply (Pm 1)|apply (Pm 2)|apply (Pm 3)|apply (Pm 4)
    |apply (Pm 5)|apply (Pm 6)|apply (Pm 7)| |].
  { pose proof (PA 8) as H8. replace (512 * bi + 64 * 8) with (512 * (bi + 1)) in H8 by lia.
    fold (A (bi + 1)) in H8. subst d. lia. }
  rewrite Hoff, N2Nat.id.
  rewrite (sub64_small 7 off) by (rewrite ?pow2_64; lia).
  rewrite mul64_small by (rewrite pow2_64; lia).
  unfold shr64c. destruct (N.ltb_spec ((7 - off) * 9) 64) as [_|L]; [|lia]. cbn [bind].
  unfold shr64. rewrite (N.mul_comm (7 - off) 9). fold (field9 S (7 - off)). rewrite (F off Hoff7).
  pose proof (rk_le_len bits (512 * bi + 64 * off)) as Hle1.
  rewrite (add64_small (A bi)) by (rewrite <- PA, pow2_64; lia). rewrite <- PA.
  rewrite shl64_small by (change (2^3) with 8; rewrite pow2_64; lia). change (2^3) with 8.
  rewrite add64_small by (rewrite pow2_64; lia).
  assert (Hk1 : rk bits (512 * bi + 64 * off) <= n) by (rewrite PA; subst d; lia).
  assert (Hk2 : n < rk bits (512 * bi + 64 * (off + 1))) by (rewrite PA; subst d; lia).
  set (wo := bi * 8 + off).
  replace (512 * bi + 64 * off) with (64 * wo) in * by (subst wo; lia).
  replace (512 * bi + 64 * (off + 1)) with (64 * wo + 64) in Hk2 by (subst wo; lia).
  rewrite (rk_word_full W bits wo HR) in Hk2.
  rewrite sub64_small by (rewrite ?pow2_64; lia).
  set (k := n - rk bits (64 * wo)). assert (Hk : k < popcnt_spec (wd W wo)) by (subst k; lia).
  assert (Hwo : wo < lenN W).
  { destruct (N.lt_ge_cases wo (lenN W)) as [L|L]; [exact L|exfalso].
    unfold wd in Hk. rewrite nth_overflow in Hk by (unfold lenN in L; lia). rewrite popcnt_spec_0 in Hk. lia. }
  rewrite HW, aget_words by exact Hwo. cbn [bind].
  pose proof (repr_wd_lt W bits wo HR) as Hw.
  pose proof (Hsiw (wd W wo) k Hw Hk) as Hsel.
  destruct (Hsound _ _ _ Hsel) as [Hbit Hcnt].
  set (p := select_in_word (wd W wo) k) in *.
  destruct HR as [HL HB]. rewrite HB in Hbit. apply andb_true_iff in Hbit. destruct Hbit as [Hp Hnth].
  apply N.ltb_lt in Hp. pose proof (nthb_true_lt _ _ Hnth) as Hlt.
  pose proof (repr_len_bound W bits (conj HL HB) ltac:(rewrite max_bits_eq; exact Hm)) as HLW.
  change (2^56) with 72057594037927936 in HLW.
  rewrite shl64_small by (change (2^6) with 64; rewrite pow2_64; lia). change (2^6) with 64.
  rewrite add64_small by (rewrite pow2_64; lia).
  exists (wo * 64 + p). split; [reflexivity|]. replace (wo * 64 + p) with (64 * wo + p) by lia.
  split; [exact Hlt|]. split; [exact Hnth|].
  rewrite (rk_word_land W bits wo p (conj HL HB)) by lia. rewrite Hcnt. subst k. lia.
Qed.
End Select.

(* ------------------------------------------------------------------ *)
(* the interface statements of Iface.v                                   *)
(* ------------------------------------------------------------------ *)
Section WithWordFacts.
Hypothesis Hpop : PopcountSpec.
Hypothesis Hlow : PopcntLowBits.
Hypothesis Hsiw : SelectInWordSpec.
Hypothesis Hsound : SelectSpecSound.
Hypothesis Huleq : UleqCount.

Theorem bv_build_spec : BvBuildSpec.
Proof.
  intros bits r s Hm. destruct (bv_of_bits_built Hpop bits r s Hm) as (W & sh & HR & E & _).
  eexists. split; [exact E|]. split; reflexivity.
Qed.

Theorem bv_get_spec : BvGetSpec.
Proof.
  intros bits r s v i Hm Hv Hi.
  destruct (bv_of_bits_built Hpop bits r s Hm) as (W & sh & HR & E & _).
  rewrite E in Hv. inversion Hv; subst v; clear Hv.
  unfold bv_get. cbn [bv_words]. rewrite shr6.
  rewrite aget_words by (destruct HR as [HL _]; rewrite HL; lia).
  cbn [bind]. f_equal. apply (get_bit_repr W bits i HR).
Qed.

Theorem bv_rank_spec : BvRankSpec.
Proof.
  intros bits s v i Hm Hv Hi.
  destruct (bv_of_bits_built Hpop bits true s Hm) as (W & sh & HR & E & _).
  rewrite E in Hv. inversion Hv; clear Hv.
  set (v0 := mkBv _ _ _ _ _) in *.
  assert (Hok : hints_ok v0 W bits) by (repeat split; try apply HR; exact Hm).
  fold (rk bits i). unfold bv_rank. cbn [bv_size bv_ones v0].
  destruct (N.eqb_spec i (lenN bits)) as [Ei|Ei].
  - rewrite rk_ge by lia. reflexivity.
  - assert (Hlt : i < lenN bits) by lia. rewrite shr6, land63.
    pose proof HR as [HL _]. rewrite max_bits_eq in Hm.
    rewrite (rank_for_word_ok Hpop v0 W bits Hok) by (unfold nblk; lia). cbn [bind].
    destruct (N.eqb_spec (i mod 64) 0) as [E0|E0].
    + do 2 f_equal. lia.
    + cbn [bv_words v0]. rewrite aget_words by lia. cbn [bind].
      rewrite sub64_small by (rewrite ?pow2_64; lia).
      unfold shl64c. destruct (N.ltb_spec (64 - i mod 64) 64) as [_|L]; [|lia]. cbn [bind].
      pose proof (repr_wd_lt W bits (i / 64) HR) as Hw.
      rewrite Hpop by (unfold shl64; apply w64_lt).
      rewrite Hlow by (try exact Hw; lia).
      pose proof (rk_word_land W bits (i / 64) (i mod 64) HR ltac:(lia)) as Hq.
      replace (64 * (i / 64) + i mod 64) with i in Hq by lia.
      pose proof (rk_le_len bits i).
      rewrite add64_small by (rewrite pow2_64; lia). f_equal. lia.
Qed.
Theorem bv_select_spec : BvSelectSpec.
Proof.
  intros bits v n Hm Hv Hn.
  destruct (bv_of_bits_built Hpop bits true true Hm) as (W & sh & HR & E & Hpost).
  rewrite E in Hv. inversion Hv; clear Hv.
  set (v0 := mkBv _ _ _ _ _) in *.
  assert (Hok : hints_ok v0 W bits) by (repeat split; try apply HR; exact Hm).
  destruct (bv_select_ok Hpop Hsiw Hsound Huleq v0 W bits sh Hok eq_refl (Hpost eq_refl) n Hn)
    as (p & Ep & Hp1 & Hp2 & Hp3).
  exists p. repeat split; assumption.
Qed.

(* the popcnt-instruction arm of rank computes the same value *)
Lemma bv_rank_intr_eq v i : bv_rank_intr v i = bv_rank v i.
Proof.
  unfold bv_rank_intr, bv_rank. destruct (i =? bv_size v); [reflexivity|].
  destruct (rank_for_word v (shr64 i 6)); cbn [bind]; try reflexivity.
  destruct (N.land i 63 =? 0); [reflexivity|].
  destruct (aget (bv_words v) (shr64 i 6)); cbn [bind]; try reflexivity.
  unfold shl64c. destruct (sub64 64 (N.land i 63) <? 64); cbn [bind]; try reflexivity.
  unfold popcount_intr. rewrite Hpop by (unfold shl64; apply w64_lt). reflexivity.
Qed.

Corollary bv_rank_intr_spec : forall bits s v i, lenN bits < max_bits ->
  bv_of_bits bits true s = Ok v -> i <= lenN bits ->
  bv_rank_intr v i = Ok (count_true (firstn (N.to_nat i) bits)).
Proof. intros. rewrite bv_rank_intr_eq. eapply bv_rank_spec; eassumption. Qed.
End WithWordFacts.

Print Assumptions bv_build_spec.
Print Assumptions bv_get_spec.
Print Assumptions bv_rank_spec.
Print Assumptions bv_select_spec.
Print Assumptions bv_rank_intr_spec.
