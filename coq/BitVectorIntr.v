(* BitVectorIntr.v: the PDEP/TZCNT arm of select ([bv_select_intr], BitVector.v) returns the same result as
   the portable arm ([bv_select]) on every vector built with rank and select hints and every rank
   n < count_true bits.

   The two functions run the same monadic prefix and differ only in the last call
   ([select_in_word_intr] versus [select_in_word]).  The prefix is evaluated exactly as in
   [bv_select_ok] of BitVectorFacts.v (both sides of the equation are rewritten simultaneously); for the word
   [w = wd W wo] read at the end and the in-word rank [k = n - rk bits (64 * wo)] that evaluation gives
   [w < 2^64] and [k < popcnt_spec w], which are the premises of [select_in_word_agree] (BitToolsFacts.v).

   Results:
     bv_select_intr_eq_ok   (Section, word-level facts as hypotheses, on [hints_ok] vectors)
     bv_select_intr_eq      : PopcountSpec -> UleqCount -> forall bits v n, ... -> bv_select_intr v n = bv_select v n
     bv_select_intr_spec    closed form of the above
     bv_select_intr_correct closed: bv_select_intr satisfies the statement BvSelectSpec makes for bv_select *)
From Coq Require Import ZArith Lia ZifyN ZifyBool ZifyNat Arith PeanoNat List.
(* BitToolsFacts first: it has its own (convertible) [field9]; the one meant below is Iface.field9. *)
From X Require Import BitToolsFacts.
From X Require Import Base Arr ArrFacts Consts BitToolsSpec BitToolsGen BitVector Iface BitVectorFacts.
Import ListNotations.
Local Open Scope N_scope.
Ltac Zify.zify_post_hook ::= Z.div_mod_to_equations.

Section SelectIntr.
Hypothesis Hpop : PopcountSpec.
Hypothesis Huleq : UleqCount.

Section OnHints.
Variables (v : bitvec) (W : list N) (bits : list bool) (sh : list N).
Hypothesis Hok : hints_ok v W bits.
Hypothesis Hsh : bv_sel_hints v = of_list sh.
Hypothesis Hpost : sel_post bits (nblk W) sh 0 0.

Let A (b : N) : N := rk bits (512 * b).
Let NB : N := nblk W.

(* Same evaluation as [bv_select_ok]; every rewrite acts on both sides of the equation. *)
Lemma bv_select_intr_eq_ok n : n < count_true bits -> bv_select_intr v n = bv_select v n.
Proof.
  intros Hn. pose proof (nblk_bound v W bits Hok) as HNB. fold NB in HNB.
  destruct (select_for_block_ok Hpop v W bits sh Hok Hsh Hpost n Hn) as (bi & Ebi & Hbi & Hlo & Hhi).
  fold NB in Hbi. fold (A bi) in Hlo. fold (A (bi + 1)) in Hhi.
  pose proof Hok as (HR & Hm & HW & HH). rewrite max_bits_eq in Hm.
  unfold bv_select_intr, bv_select. rewrite Ebi. cbn [bind].
  rewrite (rfb Hpop v W bits Hok bi) by (fold NB; lia). fold (A bi). cbn [bind].
  rewrite (ranks_in_block_ok Hpop v W bits Hok) by (fold NB; lia). cbn [bind].
  set (S := pk7 (skipn (N.to_nat (8 * bi)) W)).
  pose proof (block_pk7_lt W bits bi HR) as HS. fold S in HS.
  pose proof (A_step W bits bi) as Hst. cbv beta in Hst. fold (A bi) in Hst. fold (A (bi + 1)) in Hst.
  pose proof (rk_le_len bits (512 * bi)) as HAl. fold (A bi) in HAl.
  set (d := n - A bi). assert (Hd : d < 512) by (subst d; lia).
  rewrite (sub64_small n (A bi)) by (rewrite ?pow2_64; lia). fold d.
  assert (Hpar : d * ones_step_9 < 2^63) by (unfold ones_step_9; change (2^63) with 9223372036854775808; lia).
  rewrite (mul64_small d) by (rewrite pow2_64; change (2^63) with 9223372036854775808 in Hpar; lia).
  rewrite (Huleq S (d * ones_step_9) HS Hpar). rewrite filter7. cbv beta.
  rewrite !field9_ones_step by lia.
  pose (P := fun k => rk bits (512 * bi + 64 * k) - rk bits (512 * bi)).
  assert (F : forall k, k <= 7 -> field9 S (7 - k) = P k) by (intros k Hk; apply (block_field W bits bi k HR Hk)).
  pose proof (F 7 ltac:(lia)) as F7. change (7 - 7) with 0 in F7.
  pose proof (F 6 ltac:(lia)) as F6. change (7 - 6) with 1 in F6.
  pose proof (F 5 ltac:(lia)) as F5. change (7 - 5) with 2 in F5.
  pose proof (F 4 ltac:(lia)) as F4. change (7 - 4) with 3 in F4.
  pose proof (F 3 ltac:(lia)) as F3. change (7 - 3) with 4 in F3.
  pose proof (F 2 ltac:(lia)) as F2. change (7 - 2) with 5 in F2.
  pose proof (F 1 ltac:(lia)) as F1. change (7 - 1) with 6 in F1.
  rewrite F7, F6, F5, F4, F3, F2, F1.
  assert (Pm : forall k, P k <= P (k + 1)).
  { intros k. subst P. cbv beta.
    pose proof (rk_mono bits (512 * bi + 64 * k) (512 * bi + 64 * (k + 1)) ltac:(lia)). lia. }
  assert (PA : forall k, rk bits (512 * bi + 64 * k) = A bi + P k).
  { intros k. subst P. cbv beta. pose proof (rk_mono bits (512 * bi) (512 * bi + 64 * k) ltac:(lia)).
    unfold A. lia. }
  destruct (off_count P d) as (off & Hoff & Hoff7 & Hlo' & Hhi');
    [subst P; cbv beta; replace (512 * bi + 64 * 0) with (512 * bi) by lia; lia|apply (Pm 0)|apply (Pm 1)|apply (Pm 2)|apply (Pm 3)|apply (Pm 4)
    |apply (Pm 5)|apply (Pm 6)|apply (Pm 7)| |].
  { pose proof (PA 8) as H8. replace (512 * bi + 64 * 8) with (512 * (bi + 1)) in H8 by lia.
    fold (A (bi + 1)) in H8. subst d. lia. }
  rewrite Hoff, N2Nat.id.
  rewrite (sub64_small 7 off) by (rewrite ?pow2_64; lia).
  rewrite mul64_small by (rewrite pow2_64; lia).
  unfold shr64c. destruct (N.ltb_spec ((7 - off) * 9) 64) as [_|L]; [|lia]. cbn [bind].
  unfold shr64. rewrite (N.mul_comm (7 - off) 9). fold (field9 S (7 - off)). rewrite (F off Hoff7).
  pose proof (rk_le_len bits (512 * bi + 64 * off)) as Hle1.
  rewrite (add64_small (A bi)) by (rewrite <- PA, pow2_64; lia). rewrite <- PA.
  rewrite shl64_small by (change (2^3) with 8; rewrite pow2_64; lia). change (2^3) with 8.
  rewrite add64_small by (rewrite pow2_64; lia).
  assert (Hk1 : rk bits (512 * bi + 64 * off) <= n) by (rewrite PA; subst d; lia).
  assert (Hk2 : n < rk bits (512 * bi + 64 * (off + 1))) by (rewrite PA; subst d; lia).
  set (wo := bi * 8 + off).
  replace (512 * bi + 64 * off) with (64 * wo) in * by (subst wo; lia).
  replace (512 * bi + 64 * (off + 1)) with (64 * wo + 64) in Hk2 by (subst wo; lia).
  rewrite (rk_word_full W bits wo HR) in Hk2.
  rewrite sub64_small by (rewrite ?pow2_64; lia).
  set (k := n - rk bits (64 * wo)). assert (Hk : k < popcnt_spec (wd W wo)) by (subst k; lia).
  assert (Hwo : wo < lenN W).
  { destruct (N.lt_ge_cases wo (lenN W)) as [L|L]; [exact L|exfalso].
    unfold wd in Hk. rewrite nth_overflow in Hk by (unfold lenN in L; lia). rewrite popcnt_spec_0 in Hk. lia. }
  rewrite HW, aget_words by exact Hwo. cbn [bind].
  pose proof (repr_wd_lt W bits wo HR) as Hw.
  (* the word actually read is [wd W wo < 2^64] and the in-word rank is [k < popcnt_spec (wd W wo)] *)
  rewrite (select_in_word_agree (wd W wo) k Hw Hk). reflexivity.
Qed.
End OnHints.

Theorem bv_select_intr_eq : forall bits v n, lenN bits < max_bits ->
  bv_of_bits bits true true = Ok v -> n < count_true bits ->
  bv_select_intr v n = bv_select v n.
Proof.
  intros bits v n Hm Hv Hn.
  destruct (bv_of_bits_built Hpop bits true true Hm) as (W & sh & HR & E & Hpost).
  rewrite E in Hv. inversion Hv; clear Hv.
  set (v0 := mkBv _ _ _ _ _) in *.
  assert (Hok : hints_ok v0 W bits) by (repeat split; try apply HR; exact Hm).
  exact (bv_select_intr_eq_ok v0 W bits sh Hok eq_refl (Hpost eq_refl) n Hn).
Qed.
End SelectIntr.

(* ------------------------------------------------------------------ *)
(* closed forms                                                         *)
(* ------------------------------------------------------------------ *)
From X Require All.

Theorem bv_select_intr_spec : forall bits v n, lenN bits < max_bits ->
  bv_of_bits bits true true = Ok v -> n < count_true bits ->
  bv_select_intr v n = bv_select v n.
Proof. exact (bv_select_intr_eq All.popcount_thm All.uleq_count_thm). Qed.

Corollary bv_select_intr_correct : forall bits v n, lenN bits < max_bits ->
  bv_of_bits bits true true = Ok v -> n < count_true bits ->
  exists p, bv_select_intr v n = Ok p /\ p < lenN bits /\ nthb bits p = true /\
            count_true (firstn (N.to_nat p) bits) = n.
Proof.
  intros bits v n Hm Hv Hn. rewrite (bv_select_intr_spec bits v n Hm Hv Hn).
  exact (All.bv_select_thm bits v n Hm Hv Hn).
Qed.

Print Assumptions bv_select_intr_eq.
Print Assumptions bv_select_intr_spec.
Print Assumptions bv_select_intr_correct.
Print Assumptions bv_select_intr_spec.
