(* Builder.v: model of code_table.hpp (construction) and trie_builder.hpp, and the trie constructor. *)
From X Require Import Base Arr Consts BitToolsSpec BitToolsGen BitVector CompactVector Dac Tail Trie Wf.
Local Open Scope N_scope.

(* ---------------- code table ---------------- *)
Fixpoint count_byte (b : N) (k : key) : N :=
  match k with [] => 0 | c :: t => (if c =? b then 1 else 0) + count_byte b t end.
Definition freq (K : list key) (b : N) : N := fold_left (fun acc k => acc + count_byte b k) K 0.
Definition alphabet_of (K : list key) : list N := filter (fun b => negb (freq K b =? 0)) bytes256.
Definition max_length_of (K : list key) : N := fold_left (fun acc k => N.max acc (lenN k)) K 0.

(* The permutation is produced by std::sort with a comparator on frequency only; the order among
   equal frequencies is unspecified, so the table is an input ([tbl], 512 entries) with a validity check. *)
Definition table_ok (tbl : list N) (K : list key) : bool :=
  (lenN tbl =? 512) &&
  forallb (fun b => match nthN tbl b with
                    | Some cd => (cd <? 256) && match nthN tbl (cd + 256) with Some b' => b' =? b | None => false end
                    | None => false end) bytes256 &&
  forallb (fun cd => match nthN tbl (cd + 256) with
                     | Some b => (b <? 256) && match nthN tbl b with Some cd' => cd' =? cd | None => false end
                     | None => false end) bytes256 &&
  (* codes are non-increasing in frequency: char[cd] for cd = 0..255 has non-increasing freq *)
  (fix mono (l : list N) : bool :=
     match l with
     | a :: ((b :: _) as t) => (freq K b <=? freq K a) && mono t
     | _ => true
     end) (skipn 256 tbl).

(* a table the model can compute itself when no oracle is available (stable insertion by frequency) *)
Fixpoint insert_desc (K : list key) (b : N) (l : list N) : list N :=
  match l with
  | [] => [b]
  | x :: t => if freq K x <? freq K b then b :: l else x :: insert_desc K b t
  end.
Definition own_order (K : list key) : list N := fold_left (fun acc b => insert_desc K b acc) bytes256 [].
Definition index_of (b : N) (l : list N) : N :=
  (fix go (l : list N) (i : N) : N := match l with [] => i | x :: t => if x =? b then i else go t (i + 1) end) l 0.
Definition own_table (K : list key) : list N :=
  let ord := own_order K in map (fun b => index_of b ord) bytes256 ++ ord.

Definition ct_build (tbl : list N) (K : list key) : ctable :=
  mkCt (max_length_of K) (of_list tbl) (of_list (alphabet_of K)).
(* repaired F6: an empty alphabet has no NUL *)
Definition ct_has_null (c : ctable) : bool :=
  match alist (ct_alpha c) with b :: _ => b =? 0 | [] => false end.

(* ---------------- trie_builder ---------------- *)
Record bstate := mkBs { bs_units : marr unit; bs_leaves : bvb; bs_terms : bvb; bs_useds : bvb;
                        bs_heads : marr N; bs_sufs : list suffix }.

Section Build.
Variable l1_bits : N.
Variable table : ctable.
Variable keys : arr key.

Definition l1_size : N := shl64 1 l1_bits.
Definition taboo : N := tb_taboo_npos.

Definition set_base (u : marr unit) (i b : N) : res (marr unit) :=
  do x <- mget u i; mset u i (b, snd x).
Definition set_check (u : marr unit) (i c : N) : res (marr unit) :=
  do x <- mget u i; mset u i (fst x, c).
Definition get_base (u : marr unit) (i : N) : res N := do x <- mget u i; Ok (fst x).
Definition get_check (u : marr unit) (i : N) : res N := do x <- mget u i; Ok (snd x).

Definition with_units (s : bstate) (u : marr unit) : bstate :=
  mkBs u (bs_leaves s) (bs_terms s) (bs_useds s) (bs_heads s) (bs_sufs s).
Definition with_useds (s : bstate) (b : bvb) : bstate :=
  mkBs (bs_units s) (bs_leaves s) (bs_terms s) b (bs_heads s) (bs_sufs s).
Definition with_heads (s : bstate) (h : marr N) : bstate :=
  mkBs (bs_units s) (bs_leaves s) (bs_terms s) (bs_useds s) h (bs_sufs s).

Definition use_unit (s : bstate) (npos : N) : res bstate :=
  do us <- bvb_set_bit (bs_useds s) npos true;
  do next <- get_base (bs_units s) npos;
  do prev <- get_check (bs_units s) npos;
  do u1 <- set_base (bs_units s) prev next;
  do u2 <- set_check u1 next prev;
  let lpos := shr64 npos l1_bits in
  do h <- mget (bs_heads s) lpos;
  do hs <- (if h =? npos
            then mset (bs_heads s) lpos (if negb (lpos =? shr64 next l1_bits) then taboo else next)
            else Ok (bs_heads s));
  Ok (mkBs u2 (bs_leaves s) (bs_terms s) us hs (bs_sufs s)).

Fixpoint close_units (n : nat) (s : bstate) (npos : N) : res bstate :=
  match n with
  | O => Ok s
  | S m =>
    do used <- bvb_get (bs_useds s) npos;
    do s' <- (if used then Ok s else
              do s1 <- use_unit s npos;
              do us <- bvb_set_bit (bs_useds s1) npos false;
              do u <- mset (bs_units s1) npos (npos, npos);
              Ok (with_units (with_useds s1 us) u));
    close_units m s' (npos + 1)
  end.
Fixpoint set_heads_taboo (n : nat) (h : marr N) (npos : N) : res (marr N) :=
  match n with
  | O => Ok h
  | S m => do h' <- mset h (shr64 npos l1_bits) taboo; set_heads_taboo m h' (npos + l1_size)
  end.
Definition l1_per_block : nat := N.to_nat (256 / l1_size).

Definition close_block (s : bstate) (bpos : N) : res bstate :=
  let beg := mul64 bpos 256 in
  do s1 <- close_units 256 s beg;
  do h <- set_heads_taboo l1_per_block (bs_heads s1) beg;
  Ok (with_heads s1 h).

Fixpoint push_units (n : nat) (s : bstate) (npos : N) : res bstate :=
  match n with
  | O => Ok s
  | S m =>
    do lv <- bvb_push_back (bs_leaves s) false;
    do tm <- bvb_push_back (bs_terms s) false;
    do us <- bvb_push_back (bs_useds s) false;
    push_units m (mkBs (mpush (bs_units s) (add64 npos 1, sub64 npos 1)) lv tm us (bs_heads s) (bs_sufs s))
               (npos + 1)
  end.
Fixpoint push_heads (n : nat) (h : marr N) (npos : N) : marr N :=
  match n with O => h | S m => push_heads m (mpush h npos) (npos + l1_size) end.

Definition expand (s : bstate) : res bstate :=
  let old_size := mlen (bs_units s) in
  let new_size := old_size + 256 in
  do s1 <- push_units 256 s old_size;
  do last <- get_check (bs_units s1) taboo;
  do u1 <- set_check (bs_units s1) old_size last;
  do u2 <- set_base u1 last old_size;
  do u3 <- set_base u2 (new_size - 1) taboo;
  do u4 <- set_check u3 taboo (new_size - 1);
  let s2 := with_heads (with_units s1 u4) (push_heads l1_per_block (bs_heads s1) old_size) in
  let bpos := shr64 old_size 8 in
  if tb_free_blocks <=? bpos then close_block s2 (bpos - tb_free_blocks) else Ok s2.

Fixpoint finish (fuel : nat) (s : bstate) : res bstate :=
  do b <- get_base (bs_units s) taboo;
  if b =? taboo then Ok s else
  match fuel with
  | O => Fault OutOfFuel
  | S f => do s' <- close_block s (shr64 b 8); finish f s'
  end.

Definition code (ch : N) : res N := ct_get_code table ch.

Fixpoint is_target (s : bstate) (base : N) (edges : list N) : res bool :=
  match edges with
  | [] => Ok true
  | ch :: t => do cd <- code ch;
               do u <- bvb_get (bs_useds s) (N.lxor base cd);
               if u then Ok false else is_target s base t
  end.

(* walk of the free list from i; [inblock] = Some lpos restricts to that L1 block *)
Fixpoint xcheck_walk (fuel : nat) (s : bstate) (edges : list N) (c0 : N) (inblock : option N) (i : N)
  : res (option N) :=
  if i =? taboo then Ok None else
  if match inblock with Some lpos => negb (shr64 i l1_bits =? lpos) | None => false end then Ok None else
  match fuel with
  | O => Fault OutOfFuel
  | S f =>
    let base := N.lxor i c0 in
    do t <- is_target s base edges;
    if t then Ok (Some base) else
    do nx <- get_base (bs_units s) i;
    xcheck_walk f s edges c0 inblock nx
  end.

Definition xcheck (s : bstate) (edges : list N) (lpos : N) : res N :=
  match edges with
  | [] => Fault BadState
  | e0 :: _ =>
    do c0 <- code e0;
    let fresh := N.lxor (mlen (bs_units s)) c0 in
    do tb <- get_base (bs_units s) taboo;
    if tb =? taboo then Ok fresh else
    let fuel := S (N.to_nat (mlen (bs_units s))) in
    do h <- mget (bs_heads s) lpos;
    do r1 <- xcheck_walk fuel s edges c0 (Some lpos) h;
    match r1 with
    | Some b => Ok b
    | None => do r2 <- xcheck_walk fuel s edges c0 None tb;
              match r2 with Some b => Ok b | None => Ok fresh end
    end
  end.

Definition key_at (i : N) : res key := match get keys i with Some k => Ok k | None => Fault OobArr end.
Definition key_char (k : key) (i : N) : res N := match nthN k i with Some c => Ok c | None => Fault OobKey end.

(* "fetching edges": scan keys (i .. end); returns the child ranges (byte, first, last+1) in order *)
Fixpoint scan_edges (n : nat) (kpos : N) (i : N) (ch : N) (start : N) (acc : list (N * N * N))
  : res (list (N * N * N)) :=
  match n with
  | O => Ok (rev ((ch, start, i) :: acc))
  | S m =>
    do k <- key_at i;
    if lenN k <=? kpos then Exc NotSorted else       (* repaired F7: never index a key at or beyond its size *)
    do nc <- key_char k kpos;
    if negb (ch =? nc) then
      if nc <? ch then Exc NotSorted
      else scan_edges m kpos (i + 1) nc i ((ch, start, i) :: acc)
    else scan_edges m kpos (i + 1) ch start acc
  end.

Definition set_bit_of (b : bvb) (i : N) : res bvb := bvb_set_bit b i true.

Fixpoint arrange (fuel : nat) (s : bstate) (beg end_ kpos npos : N) : res bstate :=
  match fuel with
  | O => Fault OutOfFuel
  | S f =>
    do k0 <- key_at beg;
    do '(s1, beg1, fin) <-
      (if lenN k0 =? kpos then
         do tm <- set_bit_of (bs_terms s) npos;
         let s' := mkBs (bs_units s) (bs_leaves s) tm (bs_useds s) (bs_heads s) (bs_sufs s) in
         if beg + 1 =? end_ then
           do u <- set_base (bs_units s') npos 0;
           do lv <- set_bit_of (bs_leaves s') npos;
           Ok (mkBs u lv (bs_terms s') (bs_useds s') (bs_heads s') (bs_sufs s'), beg + 1, true)
         else Ok (s', beg + 1, false)
       else if beg + 1 =? end_ then
         if lenN k0 <=? kpos then Exc NotUnique else
         do tm <- set_bit_of (bs_terms s) npos;
         do lv <- set_bit_of (bs_leaves s) npos;
         do sf <- tail_set_suffix (bs_sufs s) (skipn (N.to_nat kpos) k0) npos;
         Ok (mkBs (bs_units s) lv tm (bs_useds s) (bs_heads s) sf, beg, true)
       else Ok (s, beg, false));
    if (fin : bool) then Ok s1 else
    do kb <- key_at beg1;
    if lenN kb <=? kpos then Exc NotUnique else       (* repaired F7 *)
    do ch0 <- key_char kb kpos;
    do ranges <- scan_edges (N.to_nat (end_ - beg1 - 1)) kpos (beg1 + 1) ch0 beg1 [];
    let edges := map (fun r => fst (fst r)) ranges in
    do base <- xcheck s1 edges (shr64 npos l1_bits);
    do s2 <- (if mlen (bs_units s1) <=? base then expand s1 else Ok s1);
    do u <- set_base (bs_units s2) npos base;
    do s3 <- fold_left (fun acc ch => do st <- acc; do cd <- code ch;
                                      let child := N.lxor base cd in
                                      do st1 <- use_unit st child;
                                      do u' <- set_check (bs_units st1) child npos;
                                      Ok (with_units st1 u'))
                       edges (Ok (with_units s2 u));
    fold_left (fun acc r => do st <- acc;
                            let '(ch, i, j) := r in
                            do cd <- code ch;
                            arrange f st i j (kpos + 1) (N.lxor base cd))
              ranges (Ok s3)
  end.

End Build.

Definition l1_bits_of (v : variant) : N := N.min (type_id v) 8.

Fixpoint init_units (n : nat) (s : bstate) (npos : N) : res bstate :=
  match n with
  | O => Ok s
  | S m =>
    do lv <- bvb_push_back (bs_leaves s) false;
    do tm <- bvb_push_back (bs_terms s) false;
    do us <- bvb_push_back (bs_useds s) false;
    init_units m (mkBs (mpush (bs_units s) (add64 npos 1, sub64 npos 1)) lv tm us (bs_heads s) (bs_sufs s))
               (npos + 1)
  end.

Definition bvb_to_bits (b : bvb) : res (list bool) :=
  (fix go (n : nat) (i : N) : res (list bool) :=
     match n with O => Ok [] | S m => do x <- bvb_get b i; do r <- go m (i + 1); Ok (x :: r) end)
  (N.to_nat (bb_size b)) 0.

(* trie_builder constructor up to and including finish(): the logical content.
   [tbl]: the code table permutation (oracle, see above). *)
Definition build_logical (v : variant) (tbl : list N) (K : list key) (req_bin : bool) : res logical :=
  match K with
  | [] => Exc EmptyDataset
  | _ =>
    let l1 := l1_bits_of v in
    let l1size := shl64 1 l1 in
    do s0 <- init_units 256 (mkBs mempty bvb_empty bvb_empty bvb_empty mempty []) 0;
    do u1 <- mset (bs_units s0) 255 (0, 254);
    do u2 <- mset u1 0 (1, 255);
    let heads := push_heads l1 (N.to_nat (256 / l1size)) mempty 0 in
    let s1 := mkBs u2 (bs_leaves s0) (bs_terms s0) (bs_useds s0) heads [] in
    (* fix the root *)
    do s2 <- use_unit l1 s1 0;
    do u3 <- set_check (bs_units s2) 0 tb_taboo_npos;
    do us <- bvb_set_bit (bs_useds s2) tb_taboo_npos true;
    do tbase <- get_base u3 tb_taboo_npos;
    do hs <- mset (bs_heads s2) (shr64 tb_taboo_npos l1) tbase;
    let s3 := mkBs u3 (bs_leaves s2) (bs_terms s2) us hs [] in
    let table := ct_build tbl K in
    let bin := req_bin || ct_has_null table in
    let keys := of_list K in
    do s4 <- arrange l1 table keys (S (N.to_nat (max_length_of K))) s3 0 (lenN K) 0 0;
    do s5 <- finish l1 (S (N.to_nat (shr64 (mlen (bs_units s4)) 8))) s4;
    do terms <- bvb_to_bits (bs_terms s5);
    do leaves <- bvb_to_bits (bs_leaves s5);
    Ok (mkL (lenN K) tbl (alphabet_of K) (max_length_of K) bin terms leaves (m_to_list (bs_units s5)) (bs_sufs s5))
  end.

(* ... followed by m_suffixes.complete(...) and the trie(trie_builder&&) constructor *)
Definition build (v : variant) (tbl : list N) (K : list key) (req_bin : bool) : res trie :=
  do L <- build_logical v tbl K req_bin; assemble v L.
