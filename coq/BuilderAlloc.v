(* BuilderAlloc.v: the allocator of trie_builder (Builder.v): the circular free list threaded through the
   unused units, L1-block heads, use_unit / close_block / expand / finish / xcheck.  Layer (B) of the
   builder proof. *)
From Coq Require Import ZArith Lia ZifyN ZifyBool ZifyNat Arith PeanoNat FMapPositive.
From X Require Import Base Arr ArrFacts Consts BitToolsSpec BitToolsGen BitVector CompactVector Dac Tail Trie
                      Spec Iface Wf Builder BitVectorFacts BuilderDefs.
Local Open Scope N_scope.
Ltac Zify.zify_post_hook ::= Z.div_mod_to_equations.

Arguments N.mul : simpl never.
Arguments N.add : simpl never.
Arguments N.sub : simpl never.
Arguments N.shiftl : simpl never.
Arguments N.shiftr : simpl never.
Arguments N.pow : simpl never.
Arguments N.div : simpl never.
Arguments N.modulo : simpl never.
Arguments N.land : simpl never.
Arguments N.lor : simpl never.
Arguments N.lxor : simpl never.
Arguments N.testbit : simpl never.
Arguments N.ones : simpl never.

(* ------------------------------------------------------------------ *)
(* growable arrays through total reads                                  *)
(* ------------------------------------------------------------------ *)
Section MArr.
Context {A : Type}.
Definition mdef (a : marr A) : Prop := forall i, i < mlen a -> exists x, mget a i = Ok x.
Definition mval (a : marr A) (d : A) (i : N) : A := match mget a i with Ok x => x | _ => d end.

Lemma mget_oob (a : marr A) i : mlen a <= i -> mget a i = Fault OobArr.
Proof. intros H. unfold mget. destruct (N.ltb_spec i (mlen a)); [lia|reflexivity]. Qed.

Lemma mget_mval (a : marr A) d i : mdef a -> i < mlen a -> mget a i = Ok (mval a d i).
Proof. intros H Hi. destruct (H i Hi) as [x E]. unfold mval. rewrite E. reflexivity. Qed.

Lemma mset_spec (a : marr A) i x : mdef a -> i < mlen a ->
  exists a', mset a i x = Ok a' /\ mlen a' = mlen a /\ mdef a' /\
             forall j, mget a' j = if j =? i then Ok x else mget a j.
Proof.
  intros Hd Hi. destruct (mset_ok a i x Hi) as [a' E]. exists a'. split; [exact E|].
  pose proof (mlen_mset _ _ _ _ E) as L. split; [exact L|].
  assert (G : forall j, mget a' j = if j =? i then Ok x else mget a j).
  { intros j. destruct (N.eqb_spec j i) as [->|Hne].
    - apply (mget_mset_same _ _ _ _ E).
    - apply (mget_mset_other _ _ _ _ _ E). congruence. }
  split; [|exact G]. intros j Hj. rewrite G. destruct (j =? i); [eauto|]. apply Hd. lia.
Qed.

Lemma mpush_spec (a : marr A) x : mdef a ->
  mdef (mpush a x) /\ mlen (mpush a x) = mlen a + 1 /\
  forall j, mget (mpush a x) j = if j =? mlen a then Ok x else mget a j.
Proof.
  intros Hd.
  assert (G : forall j, mget (mpush a x) j = if j =? mlen a then Ok x else mget a j).
  { intros j. destruct (N.eqb_spec j (mlen a)) as [->|Hne].
    - apply mget_mpush_last.
    - destruct (N.lt_ge_cases j (mlen a)) as [L|L].
      + apply mget_mpush_old. exact L.
      + rewrite !mget_oob; [reflexivity|lia|rewrite mlen_mpush; lia]. }
  split; [|split; [apply mlen_mpush|exact G]].
  intros j Hj. rewrite G. destruct (N.eqb_spec j (mlen a)); [eauto|]. apply Hd. rewrite mlen_mpush in Hj. lia.
Qed.

Lemma mdef_mempty : mdef (@mempty A).
Proof. intros i Hi. cbn in Hi. lia. Qed.

Lemma mval_ext (a b : marr A) d i : mget a i = mget b i -> mval a d i = mval b d i.
Proof. unfold mval. intros ->. reflexivity. Qed.

(* the list of a fully defined array *)
Lemma m_to_list_spec (a : marr A) d : mdef a ->
  m_to_list a = map (fun k => mval a d (N.of_nat k)) (seq 0 (N.to_nat (mlen a))).
Proof.
  intros Hd. unfold m_to_list.
  assert (G : forall l, (forall k, In k l -> (k < N.to_nat (mlen a))%nat) ->
     flat_map (fun n => match PM.find (N.succ_pos (N.of_nat n)) (mdata a) with Some x => [x] | None => [] end) l
     = map (fun k => mval a d (N.of_nat k)) l).
  { induction l as [|k l IH]; intros H; [reflexivity|]. cbn [flat_map map].
    rewrite IH by (intros; apply H; right; assumption). f_equal.
    assert (Hk : N.of_nat k < mlen a) by (specialize (H k (or_introl eq_refl)); lia).
    destruct (Hd _ Hk) as [x E]. unfold mval. rewrite E. unfold mget in E.
    destruct (N.ltb_spec (N.of_nat k) (mlen a)); [|lia].
    destruct (PM.find (N.succ_pos (N.of_nat k)) (mdata a)); [|discriminate]. inversion E; subst. reflexivity. }
  apply G. intros k Hk. apply in_seq in Hk. lia.
Qed.
Lemma m_to_list_length (a : marr A) : mdef a -> lenN (m_to_list a) = mlen a.
Proof.
  intros Hd. destruct (N.eq_dec (mlen a) 0) as [E|E].
  - unfold m_to_list. rewrite E. reflexivity.
  - assert (Hx : exists x : A, True).
    { destruct (Hd 0) as [x _]; [lia|eauto]. }
    destruct Hx as [d _]. rewrite (m_to_list_spec a d Hd). unfold lenN. rewrite map_length, seq_length. lia.
Qed.
Lemma m_to_list_nth (a : marr A) d i : mdef a -> i < mlen a -> nth (N.to_nat i) (m_to_list a) d = mval a d i.
Proof.
  intros Hd Hi. rewrite (m_to_list_spec a d Hd).
  rewrite (nth_indep _ d (mval a d (N.of_nat 0))) by (rewrite map_length, seq_length; lia).
  rewrite map_nth with (f := fun k => mval a d (N.of_nat k)). rewrite seq_nth by lia. cbn [Nat.add].
  rewrite N2Nat.id. reflexivity.
Qed.
End MArr.

(* ------------------------------------------------------------------ *)
(* bit builders through their denoted bits                              *)
(* ------------------------------------------------------------------ *)
Definition bbit (b : bvb) (i : N) : bool := nthb (bvb_bits b) i.

Lemma bbit_oob b i : bb_size b <= i -> bbit b i = false.
Proof. intros H. unfold bbit. apply nthb_ge. rewrite lenN_bvb_bits. exact H. Qed.

Lemma bvb_get_wf b i : bvb_wf b -> i < bb_size b -> bvb_get b i = Ok (bbit b i).
Proof.
  intros Hw Hi. apply bvb_get_inv; [apply bvb_wf_inv; exact Hw|]. rewrite lenN_bvb_bits. exact Hi.
Qed.

Lemma bvb_set_wf b i x : bvb_wf b -> i < bb_size b ->
  exists b', bvb_set_bit b i x = Ok b' /\ bvb_wf b' /\ bb_size b' = bb_size b /\
             (forall k, bbit b' k = if k =? i then x else bbit b k) /\
             bvb_bits b' = set_nth (bvb_bits b) i x.
Proof.
  intros Hw Hi. pose proof (bvb_wf_inv b Hw) as HI.
  assert (Hi' : i < lenN (bvb_bits b)) by (rewrite lenN_bvb_bits; exact Hi).
  destruct (set_bit_inv b _ i x HI Hi') as (b' & E & HI').
  destruct (bvb_inv_bits _ _ HI') as [Hb Hw'].
  exists b'. split; [exact E|]. split; [exact Hw'|].
  assert (Hs : bb_size b' = bb_size b).
  { destruct HI' as [Hs _]. rewrite Hs, lenN_set_nth by exact Hi'. apply lenN_bvb_bits. }
  split; [exact Hs|]. split; [|exact Hb].
  intros k. unfold bbit. rewrite Hb. apply nthb_set_nth. exact Hi'.
Qed.

Lemma bvb_push_wf b x : bvb_wf b -> bb_size b + 1 < 2^64 ->
  exists b', bvb_push_back b x = Ok b' /\ bvb_wf b' /\ bb_size b' = bb_size b + 1 /\
             (forall k, bbit b' k = if k =? bb_size b then x else bbit b k) /\
             bvb_bits b' = bvb_bits b ++ [x].
Proof.
  intros Hw Hs. pose proof (bvb_wf_inv b Hw) as HI.
  destruct (push_back_inv b _ x HI) as (b' & E & HI'); [rewrite lenN_bvb_bits; exact Hs|].
  destruct (bvb_inv_bits _ _ HI') as [Hb Hw'].
  exists b'. split; [exact E|]. split; [exact Hw'|].
  assert (Hs' : bb_size b' = bb_size b + 1).
  { destruct HI' as [Hs' _]. rewrite Hs', lenN_app, lenN_bvb_bits. reflexivity. }
  split; [exact Hs'|]. split; [|exact Hb].
  intros k. unfold bbit. rewrite Hb, nthb_snoc, lenN_bvb_bits. reflexivity.
Qed.

Lemma bvb_wf_empty : bvb_wf bvb_empty.
Proof.
  split; [reflexivity|]. intros i j H. exfalso. unfold wd, bvb_empty in H. cbn [bb_words] in H.
  destruct (N.to_nat i); cbn [nth] in H; rewrite N.bits_0 in H; discriminate.
Qed.

Lemma bvb_to_bits_wf b : bvb_wf b -> bvb_to_bits b = Ok (bvb_bits b).
Proof.
  intros Hw. unfold bvb_to_bits.
  assert (G : forall n i, i + N.of_nat n = bb_size b ->
    (fix go (n : nat) (i : N) : res (list bool) :=
       match n with O => Ok [] | S m => do x <- bvb_get b i; do r <- go m (i + 1); Ok (x :: r) end) n i
    = Ok (skipn (N.to_nat i) (bvb_bits b))).
  { induction n as [|n IH]; intros i Hi.
    - rewrite skipn_all2; [reflexivity|]. pose proof (lenN_bvb_bits b) as L. unfold lenN in L. lia.
    - rewrite bvb_get_wf by (try exact Hw; lia). cbn [bind]. rewrite IH by lia. cbn [bind]. f_equal.
      pose proof (lenN_bvb_bits b) as L. unfold lenN in L.
      assert (Hlt : (N.to_nat i < length (bvb_bits b))%nat) by lia.
      replace (N.to_nat (i + 1)) with (S (N.to_nat i)) by lia.
      clear - Hlt. unfold bbit, nthb. revert Hlt. generalize (N.to_nat i) as k. generalize (bvb_bits b) as l.
      induction l as [|y l IH]; intros k Hk; [cbn in Hk; lia|]. destruct k as [|k]; [reflexivity|].
      cbn [skipn nth]. apply IH. cbn [length] in Hk. lia. }
  rewrite (G (N.to_nat (bb_size b)) 0) by lia. reflexivity.
Qed.

(* ------------------------------------------------------------------ *)
(* xor inside an aligned 256-block                                      *)
(* ------------------------------------------------------------------ *)
Lemma lxor_block i c : c < 256 -> N.lxor i c / 256 = i / 256.
Proof.
  intros Hc. change 256 with (2^8). rewrite <- !N.shiftr_div_pow2. rewrite N.shiftr_lxor.
  rewrite (N.shiftr_div_pow2 c). rewrite (N.div_small c) by exact Hc. apply N.lxor_0_r.
Qed.
Lemma lxor_lt i c n : c < 256 -> n mod 256 = 0 -> i < n -> N.lxor i c < n.
Proof. intros Hc Hn Hi. pose proof (lxor_block i c Hc). lia. Qed.
Lemma lxor_cancel_r a b : N.lxor (N.lxor a b) b = a.
Proof. rewrite N.lxor_assoc, N.lxor_nilpotent, N.lxor_0_r. reflexivity. Qed.
Lemma lxor_inj_l a b c : N.lxor a b = N.lxor a c -> b = c.
Proof.
  intros H. apply (f_equal (N.lxor a)) in H. rewrite <- !N.lxor_assoc, N.lxor_nilpotent, !N.lxor_0_l in H. exact H.
Qed.

(* ------------------------------------------------------------------ *)
(* unit arrays                                                          *)
(* ------------------------------------------------------------------ *)
Definition uval (u : marr unit) (i : N) : unit := mval u (0, 0) i.

Lemma get_base_spec u i : mdef u -> i < mlen u -> get_base u i = Ok (fst (uval u i)).
Proof. intros Hd Hi. unfold get_base. rewrite (mget_mval u (0,0) i Hd Hi). reflexivity. Qed.
Lemma get_check_spec u i : mdef u -> i < mlen u -> get_check u i = Ok (snd (uval u i)).
Proof. intros Hd Hi. unfold get_check. rewrite (mget_mval u (0,0) i Hd Hi). reflexivity. Qed.

Lemma mset_uval (u : marr unit) i x : mdef u -> i < mlen u ->
  exists u', mset u i x = Ok u' /\ mlen u' = mlen u /\ mdef u' /\
             forall j, uval u' j = if j =? i then x else uval u j.
Proof.
  intros Hd Hi. destruct (mset_spec u i x Hd Hi) as (u' & E & L & D & G).
  exists u'. repeat split; try assumption. intros j. unfold uval, mval. rewrite G.
  destruct (j =? i); reflexivity.
Qed.
Lemma set_base_spec u i b : mdef u -> i < mlen u ->
  exists u', set_base u i b = Ok u' /\ mlen u' = mlen u /\ mdef u' /\
             forall j, uval u' j = if j =? i then (b, snd (uval u i)) else uval u j.
Proof.
  intros Hd Hi. unfold set_base. rewrite (mget_mval u (0,0) i Hd Hi). cbn [bind].
  apply mset_uval; assumption.
Qed.
Lemma set_check_spec u i c : mdef u -> i < mlen u ->
  exists u', set_check u i c = Ok u' /\ mlen u' = mlen u /\ mdef u' /\
             forall j, uval u' j = if j =? i then (fst (uval u i), c) else uval u j.
Proof.
  intros Hd Hi. unfold set_check. rewrite (mget_mval u (0,0) i Hd Hi). cbn [bind].
  apply mset_uval; assumption.
Qed.

(* ------------------------------------------------------------------ *)
(* views of a builder state                                             *)
(* ------------------------------------------------------------------ *)
Definition nU (s : bstate) : N := mlen (bs_units s).
Definition bas (s : bstate) (i : N) : N := fst (uval (bs_units s) i).
Definition chk (s : bstate) (i : N) : N := snd (uval (bs_units s) i).
Definition usedb (s : bstate) (i : N) : bool := bbit (bs_useds s) i.
Definition leafb (s : bstate) (i : N) : bool := bbit (bs_leaves s) i.
Definition termb (s : bstate) (i : N) : bool := bbit (bs_terms s) i.
Definition headv (s : bstate) (lp : N) : N := mval (bs_heads s) 0 lp.
Definition bwf (b : bvb) (n : N) : Prop := bvb_wf b /\ bb_size b = n.


(* ------------------------------------------------------------------ *)
(* chains: a path a -> l -> z through next (B) and prev (C) pointers   *)
(* ------------------------------------------------------------------ *)
Section Chain.
Variables B C : N -> N.
Fixpoint chain (a : N) (l : list N) (z : N) : Prop :=
  match l with
  | [] => B a = z /\ C z = a
  | b :: t => B a = b /\ C b = a /\ chain b t z
  end.

Lemma chain_app a l1 c l2 z : chain a (l1 ++ c :: l2) z <-> chain a l1 c /\ chain c l2 z.
Proof.
  revert a. induction l1 as [|b t IH]; intros a; cbn [app chain].
  - tauto.
  - rewrite IH. tauto.
Qed.
Lemma last_cons (b : N) t a : last (b :: t) a = last t b.
Proof.
  revert b a. induction t as [|x t IH]; intros b a; [reflexivity|].
  change (last (b :: x :: t) a) with (last (x :: t) a). rewrite !IH. reflexivity.
Qed.
Lemma chain_last a l z : chain a l z -> C z = last l a.
Proof.
  revert a. induction l as [|b t IH]; intros a H; cbn [chain] in H.
  - apply H.
  - destruct H as (_ & _ & H). rewrite (IH _ H). symmetry. apply last_cons.
Qed.
Lemma last_in (t : list N) b : In (last t b) (b :: t).
Proof.
  revert b. induction t as [|x t IH]; intros b; [left; reflexivity|].
  rewrite last_cons. right. apply IH.
Qed.
Lemma chain_hd a l z : chain a l z -> B a = hd z l.
Proof. destruct l; cbn [chain hd]; tauto. Qed.
Lemma chain_succ a l z c : chain a l z -> NoDup l -> ~ In z l -> In c l ->
  B c <> c /\ In (B c) (l ++ [z]).
Proof.
  revert a. induction l as [|b t IH]; intros a H ND Hz Hc; [contradiction|].
  cbn [chain] in H. destruct H as (_ & _ & H). inversion ND as [|? ? Hb ND']; subst.
  destruct Hc as [->|Hc].
  - destruct t as [|d t']; cbn [chain] in H.
    + destruct H as [H _]. rewrite H. split; [intros E; apply Hz; left; auto|]. right; left; reflexivity.
    + destruct H as (H & _). rewrite H. split; [intros E; apply Hb; left; auto|]. right; left; reflexivity.
  - destruct (IH b H ND') as [H1 H2]; [intros E; apply Hz; right; exact E|exact Hc|].
    split; [exact H1|]. right. exact H2.
Qed.
Lemma chain_pred a l z c : chain a l z -> In c l -> In (C c) (a :: l).
Proof.
  revert a. induction l as [|b t IH]; intros a H Hc; [contradiction|].
  cbn [chain] in H. destruct H as (_ & Hb & H). destruct Hc as [->|Hc].
  - left. symmetry. exact Hb.
  - right. apply (IH b H Hc).
Qed.
End Chain.

Lemma chain_frame B C B' C' a l z : chain B C a l z ->
  (forall i, In i (a :: l) -> B' i = B i) -> (forall i, In i (l ++ [z]) -> C' i = C i) ->
  chain B' C' a l z.
Proof.
  revert a. induction l as [|b t IH]; intros a H HB HC; cbn [chain] in *.
  - destruct H as [H1 H2]. rewrite HB by (left; reflexivity). rewrite HC by (left; reflexivity). tauto.
  - destruct H as (H1 & H2 & H3). rewrite HB by (left; reflexivity). rewrite HC by (left; reflexivity).
    split; [exact H1|]. split; [exact H2|]. apply IH; [exact H3| |].
    + intros i Hi. apply HB. right. exact Hi.
    + intros i Hi. apply HC. right. exact Hi.
Qed.

Lemma filter_id {A} (f : A -> bool) l : (forall x, In x l -> f x = true) -> filter f l = l.
Proof.
  induction l as [|x l IH]; intros H; [reflexivity|]. cbn [filter]. rewrite H by (left; reflexivity).
  f_equal. apply IH. intros y Hy. apply H. right. exact Hy.
Qed.

(* unlinking c *)
Lemma chain_remove B C B' C' c : forall l a z, chain B C a l z -> NoDup (a :: l) -> ~ In z l -> In c l ->
  (forall i, B' i = if i =? C c then B c else B i) ->
  (forall i, C' i = if i =? B c then C c else C i) ->
  chain B' C' a (filter (fun i => negb (i =? c)) l) z.
Proof.
  induction l as [|b t IH]; intros a z H ND Hz Hc HB HC; [contradiction|].
  cbn [chain] in H. destruct H as (H1 & H2 & H3).
  apply NoDup_cons_iff in ND. destruct ND as [Ha ND'].
  pose proof ND' as ND2. apply NoDup_cons_iff in ND2. destruct ND2 as [Hb ND''].
  cbn [filter]. destruct (N.eqb_spec b c) as [Ebc|Ebc]; cbn [negb].
  - (* the head is c *)
    subst c. rewrite filter_id.
    2:{ intros x Hx. destruct (N.eqb_spec x b) as [->|]; [contradiction|reflexivity]. }
    destruct t as [|d t']; cbn [chain] in *.
    + destruct H3 as [H3 H4]. rewrite HB, HC, H3, H2. rewrite !N.eqb_refl. tauto.
    + destruct H3 as (H3 & H4 & H5). rewrite HB, HC, H3, H2. rewrite !N.eqb_refl.
      split; [reflexivity|]. split; [reflexivity|].
      apply (chain_frame B C); [exact H5| |].
      * intros i Hi. rewrite HB, H2. destruct (N.eqb_spec i a) as [->|]; [|reflexivity].
        exfalso. apply Ha. right. exact Hi.
      * intros i Hi. rewrite HC, H3. destruct (N.eqb_spec i d) as [->|]; [|reflexivity].
        exfalso. apply in_app_or in Hi. destruct Hi as [Hi|[<-|[]]].
        -- apply NoDup_cons_iff in ND''. destruct ND'' as [Hd _]. contradiction.
        -- apply Hz. right. left. reflexivity.
  - destruct Hc as [Hc|Hc]; [congruence|].
    cbn [chain].
    assert (Hp : In (C c) (b :: t)) by (apply (chain_pred B C _ _ z); assumption).
    assert (Hs : In (B c) (t ++ [z])).
    { apply (chain_succ B C b); try assumption. intros E. apply Hz. right. exact E. }
    split; [|split].
    + rewrite HB. destruct (N.eqb_spec a (C c)) as [E|]; [|exact H1].
      exfalso. apply Ha. rewrite E. exact Hp.
    + rewrite HC. destruct (N.eqb_spec b (B c)) as [E|]; [|exact H2].
      exfalso. apply in_app_or in Hs. destruct Hs as [Hs|[Hs|[]]].
      * apply Hb. rewrite E. exact Hs.
      * apply Hz. left. rewrite E. symmetry. exact Hs.
    + apply IH; try assumption. intros E. apply Hz. right. exact E.
Qed.

(* moving the end of a chain *)
Lemma chain_retarget B C B' C' z' : forall l a z, chain B C a l z -> NoDup (a :: l) ->
  B' (last l a) = z' -> C' z' = last l a ->
  (forall i, In i (a :: l) -> i <> last l a -> B' i = B i) ->
  (forall i, In i l -> C' i = C i) ->
  chain B' C' a l z'.
Proof.
  induction l as [|b t IH]; intros a z H ND HB HC FB FC; cbn [chain] in *.
  - cbn [last] in *. tauto.
  - destruct H as (H1 & H2 & H3). rewrite last_cons in *.
    apply NoDup_cons_iff in ND. destruct ND as [Ha ND'].
    split; [|split].
    + rewrite FB; [exact H1|left; reflexivity|].
      intros E. apply Ha. rewrite E. apply last_in.
    + rewrite FC by (left; reflexivity). exact H2.
    + apply (IH b z); try assumption.
      * intros i Hi Hn. apply FB; [right; exact Hi|exact Hn].
      * intros i Hi. apply FC. right. exact Hi.
Qed.

(* a run of consecutive units p -> p+1 -> ... -> p+k -> z *)
Lemma chain_iota B C z : forall k p,
  (forall j, p <= j < p + N.of_nat k -> B j = j + 1 /\ C (j + 1) = j) ->
  B (p + N.of_nat k) = z -> C z = p + N.of_nat k ->
  chain B C p (iota k (p + 1)) z.
Proof.
  induction k as [|k IH]; intros p H HB HC; cbn [iota chain].
  - rewrite N.add_0_r in *. tauto.
  - destruct (H p) as [H1 H2]; [lia|]. split; [exact H1|]. split; [exact H2|].
    apply IH.
    + intros j Hj. apply H. lia.
    + rewrite <- HB. f_equal. lia.
    + rewrite HC. lia.
Qed.
Lemma iota_in k : forall p i, In i (iota k p) <-> p <= i < p + N.of_nat k.
Proof.
  induction k as [|k IH]; intros p i; cbn [iota In].
  - lia.
  - rewrite IH. lia.
Qed.
Lemma iota_NoDup k : forall p, NoDup (iota k p).
Proof.
  induction k as [|k IH]; intros p; cbn [iota]; constructor; [|apply IH].
  rewrite iota_in. lia.
Qed.
Lemma iota_length k : forall p, length (iota k p) = k.
Proof. induction k as [|k IH]; intros p; cbn [iota length]; [reflexivity|]. rewrite IH. reflexivity. Qed.

Section Alloc.
Variable l1 : N.
Hypothesis Hl1 : l1 = 7 \/ l1 = 8.
Definition lsz : N := 2 ^ l1.

Lemma lsz_cases : (l1 = 7 /\ lsz = 128) \/ (l1 = 8 /\ lsz = 256).
Proof. unfold lsz. destruct Hl1 as [->| ->]; [left|right]; split; reflexivity. Qed.
Lemma shr_l1 x : shr64 x l1 = x / lsz.
Proof. apply shr64_div. Qed.
Lemma l1_size_eq : l1_size l1 = lsz.
Proof. unfold l1_size, lsz. destruct Hl1 as [->| ->]; reflexivity. Qed.
Lemma l1_per_block_eq : l1_per_block l1 = N.to_nat (256 / lsz).
Proof. unfold l1_per_block. rewrite l1_size_eq. reflexivity. Qed.

(* structural well-formedness: everything the operations index is there *)
Record SW (s : bstate) : Prop := mkSW {
  sw_mod : nU s mod 256 = 0;
  sw_pos : 256 <= nU s;
  sw_small : nU s < 2^62;
  sw_units : mdef (bs_units s);
  sw_lv : bwf (bs_leaves s) (nU s);
  sw_tm : bwf (bs_terms s) (nU s);
  sw_us : bwf (bs_useds s) (nU s);
  sw_hd : mdef (bs_heads s);
  sw_hl : mlen (bs_heads s) = nU s / lsz;
  sw_rng : forall i, i < nU s -> bas s i < nU s /\ chk s i < nU s
}.

Lemma usedb_oob s i : SW s -> nU s <= i -> usedb s i = false.
Proof. intros H Hi. unfold usedb. apply bbit_oob. destruct (sw_us s H) as [_ ->]. exact Hi. Qed.
Lemma usedb_lt s i : SW s -> usedb s i = true -> i < nU s.
Proof.
  intros H E. destruct (N.lt_ge_cases i (nU s)) as [L|L]; [exact L|].
  rewrite (usedb_oob s i H L) in E. discriminate.
Qed.

Lemma use_unit_raw s c : SW s -> c < nU s ->
  exists s', use_unit l1 s c = Ok s' /\ SW s' /\ nU s' = nU s /\
    bs_leaves s' = bs_leaves s /\ bs_terms s' = bs_terms s /\ bs_sufs s' = bs_sufs s /\
    (forall i, usedb s' i = if i =? c then true else usedb s i) /\
    (forall i, bas s' i = if i =? chk s c then bas s c else bas s i) /\
    (forall i, chk s' i = if i =? bas s c then chk s c else chk s i) /\
    (forall lp, headv s' lp = if (lp =? c / lsz) && (headv s lp =? c)
                              then (if lp =? bas s c / lsz then bas s c else 1) else headv s lp).
Proof.
  intros W Hc. destruct W as [Wm Wp Wsm Wu [Wl Wls] [Wt Wts] [Wus Wuss] Wh Whl Wr].
  destruct (Wr c Hc) as [Hb Hk]. fold (nU s) in *.
  unfold use_unit.
  destruct (bvb_set_wf (bs_useds s) c true Wus) as (us & E1 & Hus & Huss & Hbit & _); [rewrite Wuss; exact Hc|].
  rewrite E1. cbn [bind].
  rewrite (get_base_spec _ c Wu Hc). cbn [bind].
  rewrite (get_check_spec _ c Wu Hc). cbn [bind].
  fold (bas s c). fold (chk s c).
  destruct (set_base_spec (bs_units s) (chk s c) (bas s c) Wu Hk) as (u1 & E2 & L1 & D1 & G1).
  rewrite E2. cbn [bind].
  destruct (set_check_spec u1 (bas s c) (chk s c) D1) as (u2 & E3 & L2 & D2 & G2); [rewrite L1; exact Hb|].
  rewrite E3. cbn [bind].
  rewrite shr_l1.
  assert (Hlp : c / lsz < mlen (bs_heads s)).
  { rewrite Whl. unfold nU in *. destruct lsz_cases as [[_ ->]|[_ ->]]; lia. }
  rewrite (mget_mval _ 0 _ Wh Hlp). cbn [bind]. fold (headv s (c / lsz)).
  set (nh := if negb (c / lsz =? shr64 (bas s c) l1) then taboo else bas s c).
  assert (EH : exists hs, (if headv s (c / lsz) =? c then mset (bs_heads s) (c / lsz) nh else Ok (bs_heads s)) = Ok hs /\
     mlen hs = mlen (bs_heads s) /\ mdef hs /\
     forall lp, mval hs 0 lp = if (lp =? c / lsz) && (headv s lp =? c) then nh else headv s lp).
  { destruct (N.eqb_spec (headv s (c / lsz)) c) as [Eh|Eh].
    - destruct (mset_spec (bs_heads s) (c / lsz) nh Wh Hlp) as (hs & E4 & L4 & D4 & G4).
      exists hs. repeat split; try assumption. intros lp. unfold mval at 1. rewrite G4.
      destruct (N.eqb_spec lp (c / lsz)) as [->|Hne]; cbn [andb].
      + rewrite Eh, N.eqb_refl. reflexivity.
      + reflexivity.
    - exists (bs_heads s). repeat split; try assumption. intros lp.
      destruct (N.eqb_spec lp (c / lsz)) as [->|Hne]; cbn [andb]; [|reflexivity].
      destruct (N.eqb_spec (headv s (c / lsz)) c); [contradiction|reflexivity]. }
  destruct EH as (hs & E4 & L4 & D4 & G4). rewrite E4. cbn [bind].
  eexists. split; [reflexivity|].
  assert (Gb : forall i, fst (uval u2 i) = if i =? chk s c then bas s c else bas s i).
  { intros i. rewrite G2. destruct (N.eqb_spec i (bas s c)) as [->|Hne]; cbn [fst].
    - rewrite G1. destruct (bas s c =? chk s c); reflexivity.
    - rewrite G1. destruct (i =? chk s c); reflexivity. }
  assert (Gc : forall i, snd (uval u2 i) = if i =? bas s c then chk s c else chk s i).
  { intros i. rewrite G2. destruct (N.eqb_spec i (bas s c)) as [->|Hne]; cbn [snd]; [reflexivity|].
    rewrite G1. destruct (N.eqb_spec i (chk s c)) as [->|]; reflexivity. }
  assert (Gh : forall lp, mval hs 0 lp = if (lp =? c / lsz) && (headv s lp =? c)
                              then (if lp =? bas s c / lsz then bas s c else 1) else headv s lp).
  { intros lp. rewrite G4. destruct (N.eqb_spec lp (c / lsz)) as [->|Hne]; cbn [andb]; [|reflexivity].
    destruct (headv s (c / lsz) =? c); [|reflexivity]. subst nh. rewrite shr_l1.
    destruct (c / lsz =? bas s c / lsz); reflexivity. }
  split.
  - constructor; unfold nU, bas, chk; cbn [bs_units bs_leaves bs_terms bs_useds bs_heads]; rewrite ?L2, ?L1; try assumption.
    + split; assumption.
    + split; assumption.
    + split; [exact Hus|]. rewrite Huss. exact Wuss.
    + rewrite L4. exact Whl.
    + intros i Hi. rewrite Gb, Gc. destruct (Wr i Hi) as [H1 H2].
      destruct (i =? chk s c); destruct (i =? bas s c); split; assumption.
  - unfold nU, usedb, bas, chk, headv; cbn [bs_units bs_leaves bs_terms bs_useds bs_heads bs_sufs].
    rewrite L2, L1. repeat split; try reflexivity; assumption.
Qed.


(* ------------------------------------------------------------------ *)
(* the free-list invariant                                              *)
(* ------------------------------------------------------------------ *)
Record LI (s : bstate) (fl : list N) : Prop := mkLI {
  li_sw : SW s;
  li_nodup : NoDup fl;
  li_mem : forall i, In i fl -> i < nU s /\ usedb s i = false;
  li_chain : chain (bas s) (chk s) 1 fl 1;
  li_u0 : usedb s 0 = true;
  li_u1 : usedb s 1 = true;
  li_closed : forall i, i < nU s -> usedb s i = false -> ~ In i fl -> bas s i = i /\ chk s i = i;
  li_heads : forall lp, lp < nU s / lsz -> headv s lp = 1 \/ (In (headv s lp) fl /\ headv s lp / lsz = lp)
}.
(* a block with a list member has all its unused units in the list (it is "open") *)
Definition OB (s : bstate) (fl : list N) : Prop :=
  forall i j, In i fl -> j / 256 = i / 256 -> usedb s j = false -> In j fl.

Lemma li_not1 s fl : LI s fl -> ~ In 1 fl.
Proof. intros H Hi. destruct (li_mem s fl H 1 Hi) as [_ E]. rewrite (li_u1 s fl H) in E. discriminate. Qed.
Lemma li_nodup1 s fl : LI s fl -> NoDup (1 :: fl).
Proof. intros H. constructor; [apply (li_not1 s fl H)|apply (li_nodup s fl H)]. Qed.
Lemma li_prev s fl c : LI s fl -> In c fl -> In (chk s c) (1 :: fl).
Proof. intros H Hc. apply (chain_pred (bas s) (chk s) 1 fl 1); [apply (li_chain s fl H)|exact Hc]. Qed.
Lemma li_next s fl c : LI s fl -> In c fl -> bas s c <> c /\ In (bas s c) (fl ++ [1]).
Proof.
  intros H Hc. apply (chain_succ (bas s) (chk s) 1 fl 1); [apply (li_chain s fl H)|apply (li_nodup s fl H)|apply (li_not1 s fl H)|exact Hc].
Qed.
(* used units other than the taboo unit are neither list members nor the sentinel *)
Lemma li_used_notin s fl i : LI s fl -> usedb s i = true -> ~ In i fl.
Proof. intros H E Hi. destruct (li_mem s fl H i Hi) as [_ E']. congruence. Qed.

Lemma in_filter_ne (fl : list N) c i : In i (filter (fun i => negb (i =? c)) fl) <-> In i fl /\ i <> c.
Proof.
  rewrite filter_In. destruct (N.eqb_spec i c); cbn [negb]; intuition congruence.
Qed.

Lemma use_unit_spec s fl c : LI s fl -> In c fl ->
  exists s', use_unit l1 s c = Ok s' /\ LI s' (filter (fun i => negb (i =? c)) fl) /\ nU s' = nU s /\
    bs_leaves s' = bs_leaves s /\ bs_terms s' = bs_terms s /\ bs_sufs s' = bs_sufs s /\
    (forall i, usedb s' i = if i =? c then true else usedb s i) /\
    (forall i, usedb s i = true -> i <> 1 -> bas s' i = bas s i /\ chk s' i = chk s i) /\
    (bas s' c = bas s c /\ chk s' c = chk s c).
Proof.
  intros H Hc. pose proof (li_sw s fl H) as W.
  destruct (li_mem s fl H c Hc) as [Hcn Hcu].
  destruct (use_unit_raw s c W Hcn) as (s' & E & W' & Hn & Hlv & Htm & Hsf & Hu & Hb & Hk & Hh).
  pose proof (li_prev s fl c H Hc) as Hp. destruct (li_next s fl c H Hc) as [Hne Hs].
  assert (Hfr : forall i, i <> 1 -> ~ In i fl -> bas s' i = bas s i /\ chk s' i = chk s i).
  { intros i Hi1 Hif. rewrite Hb, Hk. split.
    - destruct (N.eqb_spec i (chk s c)) as [->|]; [|reflexivity]. exfalso. destruct Hp as [Hp|Hp]; [congruence|contradiction].
    - destruct (N.eqb_spec i (bas s c)) as [->|]; [|reflexivity]. exfalso.
      apply in_app_or in Hs. destruct Hs as [Hs|[Hs|[]]]; [contradiction|congruence]. }
  exists s'. split; [exact E|]. split.
  - constructor.
    + exact W'.
    + apply NoDup_filter. apply (li_nodup s fl H).
    + intros i Hi. apply in_filter_ne in Hi. destruct Hi as [Hi Hic].
      destruct (li_mem s fl H i Hi) as [H1 H2]. rewrite Hn, Hu.
      destruct (N.eqb_spec i c); [contradiction|]. split; assumption.
    + apply (chain_remove (bas s) (chk s) _ _ c fl 1 1); try assumption.
      * apply (li_chain s fl H).
      * apply (li_nodup1 s fl H).
      * apply (li_not1 s fl H).
    + rewrite Hu. rewrite (li_u0 s fl H). destruct (0 =? c); reflexivity.
    + rewrite Hu. rewrite (li_u1 s fl H). destruct (1 =? c); reflexivity.
    + intros i Hi Hiu Hif. rewrite Hn in Hi. rewrite Hu in Hiu.
      destruct (N.eqb_spec i c) as [->|Hic]; [discriminate|].
      assert (Hif' : ~ In i fl) by (intros Hx; apply Hif; apply in_filter_ne; split; assumption).
      destruct (li_closed s fl H i Hi Hiu Hif') as [H1 H2].
      assert (Hi1 : i <> 1) by (intros ->; rewrite (li_u1 s fl H) in Hiu; discriminate).
      destruct (Hfr i Hi1 Hif') as [F1 F2]. rewrite F1, F2. split; assumption.
    + intros lp Hlp. rewrite Hn in Hlp. rewrite Hh.
      destruct (N.eqb_spec lp (c / lsz)) as [Elp|Elp]; cbn [andb].
      * destruct (N.eqb_spec (headv s lp) c) as [Eh|Eh].
        -- destruct (N.eqb_spec lp (bas s c / lsz)) as [En|En]; [|left; reflexivity].
           apply in_app_or in Hs. destruct Hs as [Hs|[Hs|[]]]; [|left; symmetry; exact Hs].
           right. split; [|symmetry; exact En]. apply in_filter_ne. split; assumption.
        -- destruct (li_heads s fl H lp Hlp) as [Hl|[Hm1 Hm2]]; [left; exact Hl|].
           right. split; [|exact Hm2]. apply in_filter_ne. split; assumption.
      * destruct (li_heads s fl H lp Hlp) as [Hl|[Hm1 Hm2]]; [left; exact Hl|].
        right. split; [|exact Hm2]. apply in_filter_ne. split; [exact Hm1|].
        intros Eh. apply Elp. rewrite <- Hm2, Eh. reflexivity.
  - do 5 (split; [assumption|]). split; [|split].
    + intros i Hiu Hi1. apply (Hfr i Hi1). apply (li_used_notin s fl i H Hiu).
    + rewrite Hb. destruct (N.eqb_spec c (chk s c)) as [E'|]; reflexivity.
    + rewrite Hk. destruct (N.eqb_spec c (bas s c)) as [E'|]; [congruence|reflexivity].
Qed.

Lemma use_unit_OB s fl c s' : OB s fl -> (forall i, usedb s' i = if i =? c then true else usedb s i) ->
  OB s' (filter (fun i => negb (i =? c)) fl).
Proof.
  intros HO Hu i j Hi Hj Hju. apply in_filter_ne in Hi. destruct Hi as [Hi Hic].
  rewrite Hu in Hju. destruct (N.eqb_spec j c) as [|Hjc]; [discriminate|].
  apply in_filter_ne. split; [|exact Hjc]. apply (HO i j); assumption.
Qed.

(* taking a closed unit (neither used nor on the list) does not touch the list *)
Lemma use_unit_closed s fl c : LI s fl -> c < nU s -> usedb s c = false -> ~ In c fl ->
  exists s', use_unit l1 s c = Ok s' /\ SW s' /\ nU s' = nU s /\
    bs_leaves s' = bs_leaves s /\ bs_terms s' = bs_terms s /\ bs_sufs s' = bs_sufs s /\
    (forall i, usedb s' i = if i =? c then true else usedb s i) /\
    (forall i, bas s' i = bas s i /\ chk s' i = chk s i) /\
    (forall lp, lp < nU s / lsz -> headv s' lp = headv s lp).
Proof.
  intros H Hcn Hcu Hcf. pose proof (li_sw s fl H) as W.
  destruct (use_unit_raw s c W Hcn) as (s' & E & W' & Hn & Hlv & Htm & Hsf & Hu & Hb & Hk & Hh).
  destruct (li_closed s fl H c Hcn Hcu Hcf) as [Cb Ck].
  exists s'. do 7 (split; [assumption|]). split; [intros i; split|].
  - rewrite Hb, Ck, Cb. destruct (N.eqb_spec i c) as [->|]; [symmetry; exact Cb|reflexivity].
  - rewrite Hk, Ck, Cb. destruct (N.eqb_spec i c) as [->|]; [symmetry; exact Ck|reflexivity].
  - intros lp Hlp. rewrite Hh.
    destruct (N.eqb_spec (headv s lp) c) as [Eh|Eh]; [|rewrite andb_false_r; reflexivity].
    exfalso. destruct (li_heads s fl H lp Hlp) as [Hl|[Hl _]].
    + rewrite Hl in Eh. subst c. rewrite (li_u1 s fl H) in Hcu. discriminate.
    + rewrite Eh in Hl. contradiction.
Qed.



(* ------------------------------------------------------------------ *)
(* close_block                                                          *)
(* ------------------------------------------------------------------ *)
(* what every allocator operation leaves alone *)
Definition same_flags (s s' : bstate) : Prop :=
  bs_leaves s' = bs_leaves s /\ bs_terms s' = bs_terms s /\ bs_sufs s' = bs_sufs s.
Definition used_frame (s s' : bstate) : Prop :=
  forall i, usedb s i = true -> i <> 1 -> bas s' i = bas s i /\ chk s' i = chk s i.

Lemma close_one s fl c : LI s fl -> c < nU s -> usedb s c = false ->
  exists s2,
    (do s1 <- use_unit l1 s c;
     do us <- bvb_set_bit (bs_useds s1) c false;
     do u <- mset (bs_units s1) c (c, c);
     Ok (with_units (with_useds s1 us) u)) = Ok s2 /\
    LI s2 (filter (fun i => negb (i =? c)) fl) /\ nU s2 = nU s /\ same_flags s s2 /\
    (forall i, usedb s2 i = usedb s i) /\ used_frame s s2.
Proof.
  intros H Hcn Hcu.
  assert (Hc01 : c <> 0 /\ c <> 1).
  { split; intros ->; [rewrite (li_u0 s fl H) in Hcu|rewrite (li_u1 s fl H) in Hcu]; discriminate. }
  (* common tail: from a state s1 with c used *)
  assert (TAIL : forall s1, SW s1 -> nU s1 = nU s ->
     exists s2, (do us <- bvb_set_bit (bs_useds s1) c false;
                 do u <- mset (bs_units s1) c (c, c);
                 Ok (with_units (with_useds s1 us) u)) = Ok s2 /\ SW s2 /\ nU s2 = nU s /\
       same_flags s1 s2 /\ bs_heads s2 = bs_heads s1 /\
       (forall i, usedb s2 i = if i =? c then false else usedb s1 i) /\
       (forall i, bas s2 i = if i =? c then c else bas s1 i) /\
       (forall i, chk s2 i = if i =? c then c else chk s1 i)).
  { intros s1 W1 Hn1.
    destruct W1 as [Wm Wp Wsm Wu Wl Wt [Wus Wuss] Wh Whl Wr].
    destruct (bvb_set_wf (bs_useds s1) c false Wus) as (us & E1 & Hus & Huss & Hbit & _); [rewrite Wuss, Hn1; exact Hcn|].
    rewrite E1. cbn [bind].
    destruct (mset_uval (bs_units s1) c (c, c) Wu) as (u & E2 & L2 & D2 & G2); [fold (nU s1); rewrite Hn1; exact Hcn|].
    rewrite E2. cbn [bind]. eexists. split; [reflexivity|].
    assert (Gb : forall i, fst (uval u i) = if i =? c then c else bas s1 i).
    { intros i. rewrite G2. destruct (i =? c); reflexivity. }
    assert (Gc : forall i, snd (uval u i) = if i =? c then c else chk s1 i).
    { intros i. rewrite G2. destruct (i =? c); reflexivity. }
    split.
    - constructor; unfold nU, bas, chk, with_units, with_useds in *;
        cbn [bs_units bs_leaves bs_terms bs_useds bs_heads] in *; rewrite ?L2; try assumption.
      + split; [exact Hus|]. rewrite Huss. exact Wuss.
      + intros i Hi. rewrite Gb, Gc. destruct (N.eqb_spec i c) as [->|]; [split; exact Hi|].
        apply Wr. exact Hi.
    - unfold nU, same_flags, usedb, bas, chk, with_units, with_useds in *;
        cbn [bs_units bs_leaves bs_terms bs_useds bs_heads bs_sufs] in *.
      rewrite L2. repeat split; try reflexivity; try assumption. }
  destruct (in_dec N.eq_dec c fl) as [Hin|Hnin].
  - destruct (use_unit_spec s fl c H Hin) as (s1 & E & H1 & Hn1 & Hlv & Htm & Hsf & Hu & Hfr & _).
    rewrite E. cbn [bind].
    destruct (TAIL s1 (li_sw _ _ H1) Hn1) as (s2 & E2 & W2 & Hn2 & (F1 & F2 & F3) & Hh2 & Hu2 & Hb2 & Hk2).
    exists s2. split; [exact E2|].
    assert (Huu : forall i, usedb s2 i = usedb s i).
    { intros i. rewrite Hu2, Hu. destruct (N.eqb_spec i c) as [->|]; [symmetry; exact Hcu|reflexivity]. }
    split; [|split; [exact Hn2|split; [|split; [exact Huu|]]]].
    + constructor.
      * exact W2.
      * apply (li_nodup _ _ H1).
      * intros i Hi. destruct (li_mem _ _ H1 i Hi) as [A1 A2]. rewrite Hn2, <- Hn1. split; [exact A1|].
        apply in_filter_ne in Hi. rewrite Huu. apply (li_mem s fl H i). tauto.
      * apply (chain_frame (bas s1) (chk s1)); [apply (li_chain _ _ H1)| |].
        -- intros i Hi. rewrite Hb2. destruct (N.eqb_spec i c) as [->|]; [|reflexivity]. exfalso.
           destruct Hi as [Hi|Hi]; [symmetry in Hi; tauto|]. apply in_filter_ne in Hi. tauto.
        -- intros i Hi. rewrite Hk2. destruct (N.eqb_spec i c) as [->|]; [|reflexivity]. exfalso.
           apply in_app_or in Hi. destruct Hi as [Hi|[Hi|[]]]; [apply in_filter_ne in Hi; tauto|symmetry in Hi; tauto].
      * rewrite Huu. apply (li_u0 s fl H).
      * rewrite Huu. apply (li_u1 s fl H).
      * intros i Hi Hiu Hif. rewrite Hb2, Hk2. destruct (N.eqb_spec i c) as [->|Hic]; [split; reflexivity|].
        apply (li_closed _ _ H1); [rewrite Hn1, <- Hn2; exact Hi| |exact Hif].
        rewrite Hu2 in Hiu. destruct (N.eqb_spec i c); [contradiction|exact Hiu].
      * intros lp Hlp. unfold headv. rewrite Hh2. apply (li_heads _ _ H1). rewrite Hn1, <- Hn2. exact Hlp.
    + unfold same_flags in *. rewrite F1, F2, F3. auto.
    + intros i Hiu Hi1. rewrite Hb2, Hk2.
      destruct (N.eqb_spec i c) as [->|]; [congruence|]. apply Hfr; assumption.
  - destruct (use_unit_closed s fl c H Hcn Hcu Hnin) as (s1 & E & W1 & Hn1 & Hlv & Htm & Hsf & Hu & Hfr & Hh).
    rewrite E. cbn [bind].
    destruct (TAIL s1 W1 Hn1) as (s2 & E2 & W2 & Hn2 & (F1 & F2 & F3) & Hh2 & Hu2 & Hb2 & Hk2).
    exists s2. split; [exact E2|].
    assert (Huu : forall i, usedb s2 i = usedb s i).
    { intros i. rewrite Hu2, Hu. destruct (N.eqb_spec i c) as [->|]; [symmetry; exact Hcu|reflexivity]. }
    destruct (li_closed s fl H c Hcn Hcu Hnin) as [Cb Ck].
    assert (Hbb : forall i, bas s2 i = bas s i).
    { intros i. rewrite Hb2. destruct (N.eqb_spec i c) as [->|]; [symmetry; exact Cb|apply Hfr]. }
    assert (Hkk : forall i, chk s2 i = chk s i).
    { intros i. rewrite Hk2. destruct (N.eqb_spec i c) as [->|]; [symmetry; exact Ck|apply Hfr]. }
    rewrite filter_id.
    2:{ intros x Hx. destruct (N.eqb_spec x c) as [->|]; [contradiction|reflexivity]. }
    split; [|split; [exact Hn2|split; [|split; [exact Huu|]]]].
    + constructor.
      * exact W2.
      * apply (li_nodup _ _ H).
      * intros i Hi. rewrite Hn2, Huu. apply (li_mem _ _ H i Hi).
      * apply (chain_frame (bas s) (chk s)); [apply (li_chain _ _ H)| |]; intros; auto.
      * rewrite Huu. apply (li_u0 s fl H).
      * rewrite Huu. apply (li_u1 s fl H).
      * intros i Hi Hiu Hif. rewrite Hbb, Hkk. apply (li_closed _ _ H); [rewrite <- Hn2; exact Hi|rewrite <- Huu; exact Hiu|exact Hif].
      * intros lp Hlp. rewrite Hn2 in Hlp. unfold headv. rewrite Hh2. fold (headv s1 lp). rewrite Hh by exact Hlp.
        apply (li_heads _ _ H). exact Hlp.
    + unfold same_flags in *. rewrite F1, F2, F3. auto.
    + intros i _ _. split; [apply Hbb|apply Hkk].
Qed.



Lemma filter_filter {A} (f g : A -> bool) l : filter f (filter g l) = filter (fun x => g x && f x) l.
Proof.
  induction l as [|x l IH]; [reflexivity|]. cbn [filter]. destruct (g x); cbn [filter andb]; rewrite IH; reflexivity.
Qed.

Lemma used_frame_trans s s1 s2 : used_frame s s1 -> (forall i, usedb s i = true -> usedb s1 i = true) ->
  used_frame s1 s2 -> used_frame s s2.
Proof.
  intros F1 Hu F2 i Hi Hi1. destruct (F1 i Hi Hi1) as [A1 A2]. destruct (F2 i (Hu i Hi) Hi1) as [B1 B2].
  split; congruence.
Qed.
Lemma same_flags_trans s s1 s2 : same_flags s s1 -> same_flags s1 s2 -> same_flags s s2.
Proof. unfold same_flags. intros (A1 & A2 & A3) (B1 & B2 & B3). repeat split; congruence. Qed.
Lemma same_flags_refl s : same_flags s s.
Proof. unfold same_flags. auto. Qed.
Lemma used_frame_refl s : used_frame s s.
Proof. intros i _ _. auto. Qed.

Lemma close_units_spec : forall k s fl p, LI s fl -> p + N.of_nat k <= nU s ->
  exists s', close_units l1 k s p = Ok s' /\
    LI s' (filter (fun i => negb ((p <=? i) && (i <? p + N.of_nat k))) fl) /\
    nU s' = nU s /\ same_flags s s' /\ (forall i, usedb s' i = usedb s i) /\ used_frame s s'.
Proof.
  induction k as [|k IH]; intros s fl p H Hp.
  - exists s. cbn [close_units]. split; [reflexivity|]. rewrite filter_id.
    2:{ intros x _. destruct (N.leb_spec p x); destruct (N.ltb_spec x (p + N.of_nat 0)); cbn; try reflexivity. lia. }
    split; [exact H|]. split; [reflexivity|]. split; [apply same_flags_refl|]. split; [reflexivity|apply used_frame_refl].
  - cbn [close_units]. pose proof (li_sw s fl H) as W.
    assert (Hpn : p < nU s) by lia.
    rewrite bvb_get_wf; [|apply (sw_us s W)|destruct (sw_us s W) as [_ ->]; exact Hpn].
    cbn [bind]. fold (usedb s p).
    destruct (usedb s p) eqn:Eu.
    + cbn [bind]. destruct (IH s fl (p + 1) H) as (s' & E & H' & R); [lia|].
      exists s'. split; [exact E|]. split; [|exact R].
      erewrite filter_ext_in; [exact H'|].
      intros a Ha. cbv beta.
      assert (a <> p) by (intros ->; apply (li_used_notin s fl p H Eu Ha)).
      destruct (N.leb_spec p a); destruct (N.leb_spec (p + 1) a); destruct (N.ltb_spec a (p + N.of_nat (S k)));
        destruct (N.ltb_spec a (p + 1 + N.of_nat k)); cbn; try reflexivity; lia.
    + destruct (close_one s fl p H Hpn Eu) as (s2 & E2 & H2 & Hn2 & F2 & Hu2 & Fr2).
      rewrite E2. cbn [bind].
      destruct (IH s2 _ (p + 1) H2) as (s' & E & H' & Hn' & F' & Hu' & Fr'); [rewrite Hn2; lia|].
      exists s'. split; [exact E|]. split; [|split; [congruence|split; [eapply same_flags_trans; eassumption|split]]].
      * rewrite filter_filter in H'. erewrite filter_ext; [exact H'|].
        intros a. cbv beta.
        destruct (N.eqb_spec a p); destruct (N.leb_spec p a); destruct (N.leb_spec (p + 1) a);
          destruct (N.ltb_spec a (p + N.of_nat (S k)));
          destruct (N.ltb_spec a (p + 1 + N.of_nat k)); cbn; try reflexivity; lia.
      * intros i. rewrite Hu', Hu2. reflexivity.
      * eapply used_frame_trans; [exact Fr2| |exact Fr']. intros i Hi. rewrite Hu2. exact Hi.
Qed.

Lemma set_heads_taboo_spec : forall k (h : marr N) p, mdef h -> p mod lsz = 0 -> p / lsz + N.of_nat k <= mlen h ->
  exists h', set_heads_taboo l1 k h p = Ok h' /\ mlen h' = mlen h /\ mdef h' /\
    forall lp, mval h' 0 lp = if (p / lsz <=? lp) && (lp <? p / lsz + N.of_nat k) then 1 else mval h 0 lp.
Proof.
  induction k as [|k IH]; intros h p Hd Hm Hk.
  - exists h. cbn [set_heads_taboo]. repeat split; try assumption. intros lp.
    destruct (N.leb_spec (p / lsz) lp); destruct (N.ltb_spec lp (p / lsz + N.of_nat 0)); cbn; try reflexivity. lia.
  - cbn [set_heads_taboo]. rewrite shr_l1.
    destruct (mset_spec h (p / lsz) taboo Hd) as (h1 & E1 & L1 & D1 & G1); [lia|].
    rewrite E1. cbn [bind]. rewrite l1_size_eq.
    assert (Hdiv : (p + lsz) / lsz = p / lsz + 1 /\ (p + lsz) mod lsz = 0).
    { destruct lsz_cases as [[_ E]|[_ E]]; rewrite E in *; lia. }
    destruct Hdiv as [Hd1 Hd2].
    destruct (IH h1 (p + lsz) D1 Hd2) as (h' & E' & L' & D' & G'); [rewrite Hd1, L1; lia|].
    exists h'. split; [exact E'|]. split; [congruence|]. split; [exact D'|].
    intros lp. rewrite G', Hd1. unfold mval at 1. rewrite G1.
    destruct (N.eqb_spec lp (p / lsz)); destruct (N.leb_spec (p / lsz + 1) lp); destruct (N.leb_spec (p / lsz) lp);
      destruct (N.ltb_spec lp (p / lsz + 1 + N.of_nat k)); destruct (N.ltb_spec lp (p / lsz + N.of_nat (S k)));
      cbn; try reflexivity; lia.
Qed.

Lemma close_block_spec s fl b : LI s fl -> b < nU s / 256 ->
  exists s', close_block l1 s b = Ok s' /\ LI s' (filter (fun i => negb (i / 256 =? b)) fl) /\
    nU s' = nU s /\ same_flags s s' /\ (forall i, usedb s' i = usedb s i) /\ used_frame s s'.
Proof.
  intros H Hb. pose proof (li_sw s fl H) as W. pose proof (sw_mod s W) as Wm. pose proof (sw_small s W) as Ws.
  unfold close_block. rewrite mul64_small by (change (2^64) with 18446744073709551616; change (2^62) with 4611686018427387904 in Ws; lia).
  destruct (close_units_spec 256 s fl (b * 256) H) as (s1 & E1 & H1 & Hn1 & F1 & Hu1 & Fr1); [lia|].
  rewrite E1. cbn [bind].
  pose proof (li_sw _ _ H1) as W1.
  assert (Hlz : (b * 256) mod lsz = 0 /\ (b * 256) / lsz + N.of_nat (l1_per_block l1) <= mlen (bs_heads s1) /\
                N.of_nat (l1_per_block l1) = 256 / lsz).
  { rewrite l1_per_block_eq, (sw_hl s1 W1), Hn1, N2Nat.id. destruct lsz_cases as [[_ E]|[_ E]]; rewrite E in *; lia. }
  destruct Hlz as (Hz1 & Hz2 & Hz3).
  destruct (set_heads_taboo_spec (l1_per_block l1) (bs_heads s1) (b * 256) (sw_hd s1 W1) Hz1 Hz2) as (h & E2 & L2 & D2 & G2).
  rewrite E2. cbn [bind]. eexists. split; [reflexivity|].
  assert (EF : filter (fun i => negb (i / 256 =? b)) fl =
               filter (fun i => negb ((b * 256 <=? i) && (i <? b * 256 + N.of_nat 256))) fl).
  { apply filter_ext. intros a. destruct (N.eqb_spec (a / 256) b); destruct (N.leb_spec (b * 256) a);
      destruct (N.ltb_spec a (b * 256 + N.of_nat 256)); cbn; try reflexivity; lia. }
  rewrite EF.
  split; [|split; [exact Hn1|split; [exact F1|split; [exact Hu1|exact Fr1]]]].
  destruct H1 as [X1 X2 X3 X4 X5 X6 X7 X8].
  constructor; try assumption.
  - destruct X1. constructor; try assumption. unfold with_heads; cbn [bs_heads]. rewrite L2. assumption.
  - intros lp Hlp. unfold headv, with_heads; cbn [bs_heads]. rewrite G2.
    destruct ((b * 256 / lsz <=? lp) && (lp <? b * 256 / lsz + N.of_nat (l1_per_block l1))); [left; reflexivity|].
    apply X8. exact Hlp.
Qed.

Lemma close_block_OB s fl b s' : OB s fl -> (forall i, usedb s' i = usedb s i) ->
  OB s' (filter (fun i => negb (i / 256 =? b)) fl).
Proof.
  intros HO Hu i j Hi Hj Hju. apply filter_In in Hi. destruct Hi as [Hi Hib].
  apply filter_In. split.
  - apply (HO i j Hi Hj). rewrite <- Hu. exact Hju.
  - rewrite Hj. exact Hib.
Qed.



(* ------------------------------------------------------------------ *)
(* expand                                                               *)
(* ------------------------------------------------------------------ *)
Lemma count_true_app a b : count_true (a ++ b) = count_true a + count_true b.
Proof. induction a as [|x a IH]; cbn [app count_true]; [lia|]. rewrite IH. lia. Qed.
Lemma count_true_repeat_false k : count_true (repeat false k) = 0.
Proof. induction k as [|k IH]; cbn [repeat count_true]; [reflexivity|]. rewrite IH. reflexivity. Qed.

Lemma push_units_spec : forall k s p,
  mdef (bs_units s) -> mlen (bs_units s) = p ->
  bwf (bs_leaves s) p -> bwf (bs_terms s) p -> bwf (bs_useds s) p -> p + N.of_nat k < 2^62 ->
  exists s', push_units k s p = Ok s' /\ mdef (bs_units s') /\ mlen (bs_units s') = p + N.of_nat k /\
    bwf (bs_leaves s') (p + N.of_nat k) /\ bwf (bs_terms s') (p + N.of_nat k) /\ bwf (bs_useds s') (p + N.of_nat k) /\
    bs_heads s' = bs_heads s /\ bs_sufs s' = bs_sufs s /\
    (forall i, uval (bs_units s') i =
               if (p <=? i) && (i <? p + N.of_nat k) then (add64 i 1, sub64 i 1) else uval (bs_units s) i) /\
    (forall i, usedb s' i = usedb s i) /\ (forall i, leafb s' i = leafb s i) /\ (forall i, termb s' i = termb s i) /\
    bvb_bits (bs_terms s') = bvb_bits (bs_terms s) ++ repeat false k.
Proof.
  induction k as [|k IH]; intros s p Hd Hl [Wl Wls] [Wt Wts] [Wu Wus] Hk.
  - exists s. cbn [push_units]. rewrite N.add_0_r, app_nil_r.
    repeat (split; [first [reflexivity|assumption|split; assumption]|]).
    split; [|repeat split; reflexivity].
    intros i. destruct (N.leb_spec p i); destruct (N.ltb_spec i p); cbn; try reflexivity. lia.
  - cbn [push_units].
    assert (P62 : 2^62 < 2^64) by reflexivity.
    destruct (bvb_push_wf (bs_leaves s) false Wl) as (lv & E1 & A1 & A2 & A3 & _); [lia|].
    destruct (bvb_push_wf (bs_terms s) false Wt) as (tm & E2 & B1 & B2 & B3 & B4); [lia|].
    destruct (bvb_push_wf (bs_useds s) false Wu) as (us & E3 & C1 & C2 & C3 & _); [lia|].
    rewrite E1, E2, E3. cbn [bind].
    destruct (mpush_spec (bs_units s) (add64 p 1, sub64 p 1) Hd) as (D1 & D2 & D3).
    set (s1 := mkBs _ lv tm us _ _).
    destruct (IH s1 (p + 1)) as (s' & E & R1 & R2 & R3 & R4 & R5 & R6 & R7 & R8 & R9 & R10 & R11 & R12);
      subst s1; cbn [bs_units bs_leaves bs_terms bs_useds bs_heads bs_sufs]; try assumption.
    + rewrite D2, Hl. reflexivity.
    + split; [exact A1|]. rewrite A2, Wls. reflexivity.
    + split; [exact B1|]. rewrite B2, Wts. reflexivity.
    + split; [exact C1|]. rewrite C2, Wus. reflexivity.
    + lia.
    + exists s'. split; [exact E|]. split; [exact R1|].
      replace (p + N.of_nat (S k)) with (p + 1 + N.of_nat k) by lia.
      do 6 (split; [assumption|]). split; [|split; [|split; [|split]]].
      * intros i. rewrite R8. cbn [bs_units]. unfold uval, mval. rewrite D3, Hl.
        destruct (N.eqb_spec i p) as [Ei|Hne]; destruct (N.leb_spec (p + 1) i); destruct (N.leb_spec p i);
          destruct (N.ltb_spec i (p + 1 + N.of_nat k)); cbn [andb]; try reflexivity; try lia.
        subst i. reflexivity.
      * intros i. rewrite R9. unfold usedb; cbn [bs_useds]. rewrite C3, Wus.
        destruct (N.eqb_spec i p) as [->|]; [|reflexivity]. symmetry. apply bbit_oob. lia.
      * intros i. rewrite R10. unfold leafb; cbn [bs_leaves]. rewrite A3, Wls.
        destruct (N.eqb_spec i p) as [->|]; [|reflexivity]. symmetry. apply bbit_oob. lia.
      * intros i. rewrite R11. unfold termb; cbn [bs_terms]. rewrite B3, Wts.
        destruct (N.eqb_spec i p) as [->|]; [|reflexivity]. symmetry. apply bbit_oob. lia.
      * rewrite R12. cbn [bs_terms]. rewrite B4, <- app_assoc. reflexivity.
Qed.

Lemma push_heads_spec : forall k (h : marr N) p, mdef h ->
  mdef (push_heads l1 k h p) /\ mlen (push_heads l1 k h p) = mlen h + N.of_nat k /\
  forall lp, mval (push_heads l1 k h p) 0 lp =
             if (mlen h <=? lp) && (lp <? mlen h + N.of_nat k) then p + (lp - mlen h) * lsz else mval h 0 lp.
Proof.
  induction k as [|k IH]; intros h p Hd; cbn [push_heads].
  - split; [exact Hd|]. split; [lia|]. intros lp.
    destruct (N.leb_spec (mlen h) lp); destruct (N.ltb_spec lp (mlen h + N.of_nat 0)); cbn; try reflexivity; lia.
  - destruct (mpush_spec h p Hd) as (D1 & D2 & D3).
    destruct (IH (mpush h p) (p + l1_size l1) D1) as (R1 & R2 & R3).
    split; [exact R1|]. split; [rewrite R2, D2; lia|].
    intros lp. rewrite R3, D2, l1_size_eq. unfold mval at 1. rewrite D3.
    destruct (N.eqb_spec lp (mlen h)) as [Elp|Hne]; destruct (N.leb_spec (mlen h + 1) lp); destruct (N.leb_spec (mlen h) lp);
      destruct (N.ltb_spec lp (mlen h + 1 + N.of_nat k)); destruct (N.ltb_spec lp (mlen h + N.of_nat (S k)));
      cbn [andb]; try reflexivity; try lia.
    replace (lp - mlen h) with (lp - (mlen h + 1) + 1) by lia. lia.
Qed.



Lemma li_prev_taboo s fl : LI s fl -> chk s 1 = 1 \/ In (chk s 1) fl.
Proof.
  intros H. rewrite (chain_last (bas s) (chk s) 1 fl 1 (li_chain s fl H)).
  destruct (last_in fl 1) as [E|E]; [left; symmetry; exact E|right; exact E].
Qed.
Lemma NoDup_app_intro {A} (a b : list A) : NoDup a -> NoDup b -> (forall x, In x a -> ~ In x b) -> NoDup (a ++ b).
Proof.
  induction a as [|x a IH]; intros Ha Hb Hd; [exact Hb|]. cbn [app].
  apply NoDup_cons_iff in Ha. destruct Ha as [Hx Ha]. constructor.
  - intros Hi. apply in_app_or in Hi. destruct Hi as [Hi|Hi]; [contradiction|]. apply (Hd x); [left; reflexivity|exact Hi].
  - apply IH; try assumption. intros y Hy. apply Hd. right. exact Hy.
Qed.

Lemma expand_chain B C B' C' fl n k lastp :
  chain B C 1 fl 1 -> NoDup (1 :: fl) -> (forall i, In i fl -> i < n) -> 1 < n -> lastp = C 1 ->
  (forall i, B' i = if i =? n + N.of_nat k then 1 else if i =? lastp then n
                    else if (n <=? i) && (i <? n + N.of_nat (S k)) then i + 1 else B i) ->
  (forall i, C' i = if i =? 1 then n + N.of_nat k else if i =? n then lastp
                    else if (n <=? i) && (i <? n + N.of_nat (S k)) then i - 1 else C i) ->
  chain B' C' 1 (fl ++ iota (S k) n) 1.
Proof.
  intros Hc ND Hfl Hn Hl HB HC. cbn [iota]. apply chain_app.
  assert (Hlast : lastp = last fl 1) by (rewrite Hl; apply (chain_last B C 1 fl 1 Hc)).
  assert (Hlt : lastp < n).
  { rewrite Hlast. destruct (last_in fl 1) as [<-|Hi]; [exact Hn|apply Hfl; exact Hi]. }
  split.
  - apply (chain_retarget B C B' C' n fl 1 1 Hc ND).
    + rewrite <- Hlast, HB. destruct (N.eqb_spec lastp (n + N.of_nat k)); [lia|]. rewrite N.eqb_refl. reflexivity.
    + rewrite <- Hlast, HC. destruct (N.eqb_spec n 1); [lia|]. rewrite N.eqb_refl. reflexivity.
    + intros i Hi Hne. rewrite <- Hlast in Hne. rewrite HB.
      assert (i < n) by (destruct Hi as [<-|Hi]; [exact Hn|apply Hfl; exact Hi]).
      destruct (N.eqb_spec i (n + N.of_nat k)); [lia|]. destruct (N.eqb_spec i lastp); [contradiction|].
      destruct (N.leb_spec n i); [lia|]. reflexivity.
    + intros i Hi. rewrite HC. pose proof (Hfl i Hi).
      destruct (N.eqb_spec i 1) as [->|]; [apply NoDup_cons_iff in ND; tauto|].
      destruct (N.eqb_spec i n); [lia|]. destruct (N.leb_spec n i); [lia|]. reflexivity.
  - apply chain_iota.
    + intros j Hj. rewrite HB, HC.
      destruct (N.eqb_spec j (n + N.of_nat k)); [lia|]. destruct (N.eqb_spec j lastp); [lia|].
      destruct (N.leb_spec n j); [|lia]. destruct (N.ltb_spec j (n + N.of_nat (S k))); [|lia]. cbn [andb].
      destruct (N.eqb_spec (j + 1) 1); [lia|]. destruct (N.eqb_spec (j + 1) n); [lia|].
      destruct (N.leb_spec n (j + 1)); [|lia]. destruct (N.ltb_spec (j + 1) (n + N.of_nat (S k))); [|lia]. cbn [andb].
      split; lia.
    + rewrite HB, N.eqb_refl. reflexivity.
    + rewrite HC. reflexivity.
Qed.

Lemma expand_spec s fl : LI s fl -> OB s fl -> nU s + 256 < 2^62 ->
  exists s' fl', expand l1 s = Ok s' /\ LI s' fl' /\ OB s' fl' /\ nU s' = nU s + 256 /\
    (forall i, nU s <= i < nU s + 256 -> In i fl') /\
    (forall i, In i fl' -> In i fl \/ nU s <= i) /\
    bs_sufs s' = bs_sufs s /\
    (forall i, usedb s' i = usedb s i) /\ (forall i, leafb s' i = leafb s i) /\ (forall i, termb s' i = termb s i) /\
    count_true (bvb_bits (bs_terms s')) = count_true (bvb_bits (bs_terms s)) /\
    used_frame s s'.
Proof.
  intros H HO Hsm. pose proof (li_sw s fl H) as W.
  pose proof (sw_mod s W) as Wm. pose proof (sw_pos s W) as Wp.
  set (n := nU s) in *.
  assert (P62 : 2^62 = 4611686018427387904) by reflexivity. assert (P64 : 2^64 = 18446744073709551616) by reflexivity.
  unfold expand. fold (nU s). fold n.
  destruct (push_units_spec 256 s n (sw_units s W) eq_refl (sw_lv s W) (sw_tm s W) (sw_us s W))
    as (s1 & E1 & R1 & R2 & R3 & R4 & R5 & R6 & R7 & R8 & R9 & R10 & R11 & R12); [change (N.of_nat 256) with 256; lia|].
  change (N.of_nat 256) with 256 in *.
  rewrite E1. cbn [bind]. unfold taboo. change tb_taboo_npos with 1.
  rewrite (get_check_spec _ 1 R1) by lia. cbn [bind].
  set (lastp := snd (uval (bs_units s1) 1)).
  assert (Hlast : lastp = chk s 1).
  { subst lastp. rewrite R8. destruct (N.leb_spec n 1); [lia|]. reflexivity. }
  assert (Hlastn : lastp < n) by (rewrite Hlast; apply (sw_rng s W); lia).
  destruct (set_check_spec (bs_units s1) n lastp R1) as (u1 & X1 & L1 & D1 & G1); [lia|].
  rewrite X1. cbn [bind].
  destruct (set_base_spec u1 lastp n D1) as (u2 & X2 & L2 & D2 & G2); [lia|].
  rewrite X2. cbn [bind].
  destruct (set_base_spec u2 (n + 256 - 1) 1 D2) as (u3 & X3 & L3 & D3 & G3); [lia|].
  rewrite X3. cbn [bind].
  destruct (set_check_spec u3 1 (n + 256 - 1) D3) as (u4 & X4 & L4 & D4 & G4); [lia|].
  rewrite X4. cbn [bind].
  assert (Hl4 : mlen u4 = n + 256) by congruence.
  (* the pointer views after the fix-ups *)
  assert (Gb : forall i, fst (uval u4 i) = if i =? n + 255 then 1 else if i =? lastp then n
                    else if (n <=? i) && (i <? n + 256) then i + 1 else bas s i).
  { intros i.
    assert (F4 : fst (uval u4 i) = fst (uval u3 i)) by (rewrite G4; destruct (N.eqb_spec i 1) as [->|]; reflexivity).
    assert (F3 : fst (uval u3 i) = if i =? n + 256 - 1 then 1 else fst (uval u2 i)) by (rewrite G3; destruct (i =? n + 256 - 1); reflexivity).
    assert (F2 : fst (uval u2 i) = if i =? lastp then n else fst (uval u1 i)) by (rewrite G2; destruct (i =? lastp); reflexivity).
    assert (F1 : fst (uval u1 i) = fst (uval (bs_units s1) i)) by (rewrite G1; destruct (N.eqb_spec i n) as [->|]; reflexivity).
    rewrite F4, F3, F2, F1, R8. replace (n + 256 - 1) with (n + 255) by lia.
    destruct ((n <=? i) && (i <? n + 256)) eqn:Er; [|reflexivity]. cbn [fst].
    rewrite add64_small; [reflexivity|]. apply andb_prop in Er. destruct Er as [_ Er]. apply N.ltb_lt in Er. lia. }
  assert (Gc : forall i, snd (uval u4 i) = if i =? 1 then n + 255 else if i =? n then lastp
                    else if (n <=? i) && (i <? n + 256) then i - 1 else chk s i).
  { intros i.
    assert (F4 : snd (uval u4 i) = if i =? 1 then n + 256 - 1 else snd (uval u3 i)) by (rewrite G4; destruct (i =? 1); reflexivity).
    assert (F3 : snd (uval u3 i) = snd (uval u2 i)) by (rewrite G3; destruct (N.eqb_spec i (n + 256 - 1)) as [->|]; reflexivity).
    assert (F2 : snd (uval u2 i) = snd (uval u1 i)) by (rewrite G2; destruct (N.eqb_spec i lastp) as [->|]; reflexivity).
    assert (F1 : snd (uval u1 i) = if i =? n then lastp else snd (uval (bs_units s1) i)) by (rewrite G1; destruct (i =? n); reflexivity).
    rewrite F4, F3, F2, F1, R8. replace (n + 256 - 1) with (n + 255) by lia.
    destruct ((n <=? i) && (i <? n + 256)) eqn:Er; [|reflexivity]. cbn [snd].
    apply andb_prop in Er. destruct Er as [Er1 Er2]. apply N.leb_le in Er1. apply N.ltb_lt in Er2.
    rewrite sub64_small by lia. reflexivity. }
  set (hs := push_heads l1 (l1_per_block l1) (bs_heads s1) n).
  set (s2 := with_heads (with_units s1 u4) hs).
  destruct (push_heads_spec (l1_per_block l1) (bs_heads s1) n) as (Q1 & Q2 & Q3); [rewrite R6; apply (sw_hd s W)|].
  fold hs in Q1, Q2, Q3. rewrite R6, (sw_hl s W) in Q2, Q3. fold n in Q2, Q3.
  assert (Hpb : N.of_nat (l1_per_block l1) = 256 / lsz) by (rewrite l1_per_block_eq; apply N2Nat.id).
  rewrite Hpb in Q2, Q3.
  assert (Hn2 : nU s2 = n + 256) by exact Hl4.
  assert (Hb2 : forall i, bas s2 i = if i =? n + 255 then 1 else if i =? lastp then n
                    else if (n <=? i) && (i <? n + 256) then i + 1 else bas s i) by exact Gb.
  assert (Hk2 : forall i, chk s2 i = if i =? 1 then n + 255 else if i =? n then lastp
                    else if (n <=? i) && (i <? n + 256) then i - 1 else chk s i) by exact Gc.
  assert (Hu2 : forall i, usedb s2 i = usedb s i) by exact R9.
  assert (Hh2 : forall lp, headv s2 lp = if (n / lsz <=? lp) && (lp <? n / lsz + 256 / lsz)
                                         then n + (lp - n / lsz) * lsz else headv s lp).
  { intros lp. unfold headv at 1. subst s2. unfold with_heads; cbn [bs_heads]. rewrite Q3. reflexivity. }
  set (fl2 := fl ++ iota 256 n).
  assert (Hfl : forall i, In i fl -> i < n) by (intros i Hi; apply (li_mem s fl H i Hi)).
  assert (Hin2 : forall i, In i fl2 <-> In i fl \/ n <= i < n + 256).
  { intros i. unfold fl2. rewrite in_app_iff, iota_in. change (N.of_nat 256) with 256. tauto. }
  assert (W2 : SW s2).
  { constructor; rewrite ?Hn2.
    - lia.
    - lia.
    - exact Hsm.
    - exact D4.
    - exact R3.
    - exact R4.
    - exact R5.
    - exact Q1.
    - subst s2. unfold with_heads; cbn [bs_heads]. rewrite Q2.
      destruct lsz_cases as [[_ E]|[_ E]]; rewrite E in *; lia.
    - intros i Hi. rewrite Hb2, Hk2.
      destruct (N.lt_ge_cases i n) as [Lt|Ge].
      + destruct (sw_rng s W i Lt) as [A1 A2]. fold n in A1, A2.
        destruct (N.eqb_spec i (n + 255)); [lia|]. destruct (N.eqb_spec i n); [lia|].
        destruct (N.leb_spec n i); [lia|]. cbn [andb].
        destruct (i =? lastp); destruct (i =? 1); split; lia.
      + destruct (N.eqb_spec i lastp); [lia|]. destruct (N.eqb_spec i 1); [lia|].
        destruct (N.leb_spec n i); [|lia]. destruct (N.ltb_spec i (n + 256)); [|lia]. cbn [andb].
        destruct (N.eqb_spec i (n + 255)); destruct (N.eqb_spec i n); split; lia. }
  assert (H2 : LI s2 fl2).
  { constructor.
    - exact W2.
    - unfold fl2. apply NoDup_app_intro.
      + apply (li_nodup s fl H).
      + apply iota_NoDup.
      + intros x Hx Hy. apply iota_in in Hy. pose proof (Hfl x Hx). lia.
    - intros i Hi. apply Hin2 in Hi. rewrite Hn2, Hu2. destruct Hi as [Hi|Hi].
      + destruct (li_mem s fl H i Hi) as [A1 A2]. fold n in A1. split; [lia|exact A2].
      + split; [lia|]. apply (usedb_oob s i W). fold n. lia.
    - unfold fl2. change 256%nat with (S 255).
      apply (expand_chain (bas s) (chk s) (bas s2) (chk s2) fl n 255 lastp).
      + apply (li_chain s fl H).
      + apply (li_nodup1 s fl H).
      + exact Hfl.
      + lia.
      + exact Hlast.
      + intros i. rewrite Hb2. reflexivity.
      + intros i. rewrite Hk2. reflexivity.
    - rewrite Hu2. apply (li_u0 s fl H).
    - rewrite Hu2. apply (li_u1 s fl H).
    - intros i Hi Hiu Hif. rewrite Hn2 in Hi. rewrite Hu2 in Hiu.
      assert (Hi1 : i <> 1) by (intros ->; rewrite (li_u1 s fl H) in Hiu; discriminate).
      assert (Hin : i < n) by (destruct (N.lt_ge_cases i n); [assumption|]; exfalso; apply Hif; apply Hin2; right; lia).
      assert (Hif' : ~ In i fl) by (intros Hx; apply Hif; apply Hin2; left; exact Hx).
      destruct (li_closed s fl H i Hin Hiu Hif') as [A1 A2].
      assert (Hil : i <> lastp).
      { intros ->. rewrite Hlast in *. destruct (li_prev_taboo s fl H) as [Hx|Hx]; [congruence|contradiction]. }
      rewrite Hb2, Hk2.
      destruct (N.eqb_spec i (n + 255)); [lia|]. destruct (N.eqb_spec i lastp); [contradiction|].
      destruct (N.eqb_spec i 1); [contradiction|]. destruct (N.eqb_spec i n); [lia|].
      destruct (N.leb_spec n i); [lia|]. cbn [andb]. split; assumption.
    - intros lp Hlp. rewrite Hn2 in Hlp. rewrite Hh2.
      destruct (N.leb_spec (n / lsz) lp) as [Ge|Lt]; cbn [andb].
      + destruct (N.ltb_spec lp (n / lsz + 256 / lsz)) as [Lt2|Ge2].
        * right. split.
          -- apply Hin2. right. destruct lsz_cases as [[_ E]|[_ E]]; rewrite E in *; lia.
          -- destruct lsz_cases as [[_ E]|[_ E]]; rewrite E in *; lia.
        * exfalso. destruct lsz_cases as [[_ E]|[_ E]]; rewrite E in *; lia.
      + destruct (li_heads s fl H lp Lt) as [A|[A1 A2]]; [left; exact A|].
        right. split; [apply Hin2; left; exact A1|exact A2]. }
  assert (O2 : OB s2 fl2).
  { intros i j Hi Hj Hju. apply Hin2. apply Hin2 in Hi. rewrite Hu2 in Hju. destruct Hi as [Hi|Hi].
    - left. apply (HO i j Hi Hj Hju).
    - right. lia. }
  assert (Fr2 : used_frame s s2).
  { intros i Hiu Hi1. pose proof (usedb_lt s i W Hiu) as Hin. fold n in Hin.
    assert (Hil : i <> lastp).
    { intros ->. rewrite Hlast in *. destruct (li_prev_taboo s fl H) as [Hx|Hx]; [congruence|].
      apply (li_used_notin s fl _ H Hiu Hx). }
    rewrite Hb2, Hk2.
    destruct (N.eqb_spec i (n + 255)); [lia|]. destruct (N.eqb_spec i lastp); [contradiction|].
    destruct (N.eqb_spec i 1); [contradiction|]. destruct (N.eqb_spec i n); [lia|].
    destruct (N.leb_spec n i); [lia|]. cbn [andb]. split; reflexivity. }
  assert (Tc2 : count_true (bvb_bits (bs_terms s2)) = count_true (bvb_bits (bs_terms s))).
  { subst s2. unfold with_heads, with_units; cbn [bs_terms]. rewrite R12, count_true_app, count_true_repeat_false. lia. }
  fold s2. rewrite shr64_div. change (2^8) with 256. change tb_free_blocks with 16.
  destruct (N.leb_spec 16 (n / 256)) as [Hge|Hlt].
  - destruct (close_block_spec s2 fl2 (n / 256 - 16) H2) as (s3 & E3 & H3 & Hn3 & (F31 & F32 & F33) & Hu3 & Fr3); [rewrite Hn2; lia|].
    exists s3, (filter (fun i => negb (i / 256 =? n / 256 - 16)) fl2).
    split; [exact E3|]. split; [exact H3|]. split; [apply (close_block_OB s2); assumption|].
    split; [congruence|]. split; [|split; [|split; [|split; [|split; [|split; [|split]]]]]].
    + intros i Hi. apply filter_In. split; [apply Hin2; right; exact Hi|].
      destruct (N.eqb_spec (i / 256) (n / 256 - 16)); [lia|reflexivity].
    + intros i Hi. apply filter_In in Hi. destruct Hi as [Hi _]. apply Hin2 in Hi. destruct Hi; [left; assumption|right; lia].
    + rewrite F33. subst s2. unfold with_heads, with_units; cbn [bs_sufs]. exact R7.
    + intros i. rewrite Hu3. apply Hu2.
    + intros i. unfold leafb. rewrite F31. apply R10.
    + intros i. unfold termb. rewrite F32. apply R11.
    + rewrite F32. exact Tc2.
    + eapply used_frame_trans; [exact Fr2| |exact Fr3]. intros i Hi. rewrite Hu2. exact Hi.
  - exists s2, fl2. split; [reflexivity|]. split; [exact H2|]. split; [exact O2|]. split; [exact Hn2|].
    split; [|split; [|split; [|split; [|split; [|split; [|split]]]]]].
    + intros i Hi. apply Hin2. right. exact Hi.
    + intros i Hi. apply Hin2 in Hi. destruct Hi; [left; assumption|right; lia].
    + exact R7.
    + exact Hu2.
    + exact R10.
    + exact R11.
    + exact Tc2.
    + exact Fr2.
Qed.



(* ------------------------------------------------------------------ *)
(* finish                                                               *)
(* ------------------------------------------------------------------ *)
Lemma length_le_bound (l : list N) n : NoDup l -> (forall i, In i l -> i < n) -> (length l <= N.to_nat n)%nat.
Proof.
  intros ND Hb. rewrite <- (seq_length (N.to_nat n) 0), <- (map_length N.of_nat).
  apply NoDup_incl_length; [exact ND|]. intros i Hi. apply in_map_iff. exists (N.to_nat i).
  split; [apply N2Nat.id|]. apply in_seq. specialize (Hb i Hi). lia.
Qed.

Definition blocks_of (fl : list N) : list N := nodup N.eq_dec (map (fun i => i / 256) fl).

Lemma blocks_bound fl n : (forall i, In i fl -> i < n) -> n mod 256 = 0 -> (length (blocks_of fl) <= N.to_nat (n / 256))%nat.
Proof.
  intros Hb Hn. apply length_le_bound; [apply NoDup_nodup|].
  intros b Hi. unfold blocks_of in Hi. apply nodup_In in Hi. apply in_map_iff in Hi. destruct Hi as (i & <- & Hi).
  specialize (Hb i Hi). lia.
Qed.
Lemma blocks_shrink (fl : list N) (c : N) : In c fl ->
  (S (length (blocks_of (filter (fun i : N => negb ((i / 256 =? c / 256)%N)) fl))) <= length (blocks_of fl))%nat.
Proof.
  intros Hc. set (fl' := filter _ fl).
  change (S (length (blocks_of fl'))) with (length (c / 256 :: blocks_of fl')).
  apply NoDup_incl_length.
  - constructor; [|apply NoDup_nodup]. unfold blocks_of. rewrite nodup_In, in_map_iff.
    intros (i & E & Hi). apply filter_In in Hi. destruct Hi as [_ Hi]. rewrite E, N.eqb_refl in Hi. discriminate.
  - intros b [<-|Hb]; unfold blocks_of in *; rewrite nodup_In in *; rewrite in_map_iff in *.
    + exists c. split; [reflexivity|exact Hc].
    + destruct Hb as (i & E & Hi). apply filter_In in Hi. exists i. tauto.
Qed.

Lemma finish_spec : forall fuel s fl, LI s fl -> OB s fl -> (length (blocks_of fl) <= fuel)%nat ->
  exists s', finish l1 fuel s = Ok s' /\ LI s' [] /\ nU s' = nU s /\ same_flags s s' /\
             (forall i, usedb s' i = usedb s i) /\ used_frame s s'.
Proof.
  induction fuel as [|f IH]; intros s fl H HO Hf.
  - assert (fl = []).
    { destruct fl as [|c t]; [reflexivity|]. pose proof (blocks_shrink (c :: t) c (or_introl eq_refl)). lia. }
    subst fl. pose proof (li_sw s [] H) as W. cbn [finish]. unfold taboo. change tb_taboo_npos with 1.
    rewrite (get_base_spec _ 1 (sw_units s W)) by (pose proof (sw_pos s W); unfold nU in *; lia).
    cbn [bind]. fold (bas s 1). destruct (li_chain s [] H) as [-> _]. cbn.
    exists s. split; [reflexivity|]. split; [exact H|]. split; [reflexivity|]. split; [apply same_flags_refl|].
    split; [reflexivity|apply used_frame_refl].
  - pose proof (li_sw s fl H) as W. cbn [finish]. unfold taboo. change tb_taboo_npos with 1.
    rewrite (get_base_spec _ 1 (sw_units s W)) by (pose proof (sw_pos s W); unfold nU in *; lia).
    cbn [bind]. fold (bas s 1). rewrite (chain_hd _ _ _ _ _ (li_chain s fl H)).
    destruct fl as [|c t]; cbn [hd].
    + cbn. exists s. split; [reflexivity|]. split; [exact H|]. split; [reflexivity|]. split; [apply same_flags_refl|].
      split; [reflexivity|apply used_frame_refl].
    + assert (Hc1 : c <> 1) by (intros ->; apply (li_not1 _ _ H); left; reflexivity).
      destruct (N.eqb_spec c 1); [contradiction|].
      destruct (li_mem s _ H c (or_introl eq_refl)) as [Hcn _].
      rewrite shr64_div. change (2^8) with 256.
      destruct (close_block_spec s (c :: t) (c / 256) H) as (s1 & E1 & H1 & Hn1 & F1 & Hu1 & Fr1).
      { pose proof (sw_mod s W). lia. }
      rewrite E1. cbn [bind].
      destruct (IH s1 _ H1) as (s' & E' & H' & Hn' & F' & Hu' & Fr').
      * apply (close_block_OB s); assumption.
      * pose proof (blocks_shrink (c :: t) c (or_introl eq_refl)). lia.
      * exists s'. split; [exact E'|]. split; [exact H'|]. split; [congruence|].
        split; [eapply same_flags_trans; eassumption|]. split.
        -- intros i. rewrite Hu', Hu1. reflexivity.
        -- eapply used_frame_trans; [exact Fr1| |exact Fr']. intros i Hi. rewrite Hu1. exact Hi.
Qed.

(* after finish: every unused unit is closed, and so is the taboo unit *)
Lemma li_nil_closed s : LI s [] -> (forall i, i < nU s -> usedb s i = false -> bas s i = i /\ chk s i = i) /\
                                   bas s 1 = 1 /\ chk s 1 = 1.
Proof.
  intros H. split.
  - intros i Hi Hu. apply (li_closed s [] H i Hi Hu). intros [].
  - apply (li_chain s [] H).
Qed.



(* ------------------------------------------------------------------ *)
(* xcheck                                                               *)
(* ------------------------------------------------------------------ *)
Variable table : ctable.
Variable cd : N -> N.
Hypothesis Hcode : forall ch, ch < 256 -> code table ch = Ok (cd ch) /\ cd ch < 256.

Definition target (s : bstate) (base : N) (edges : list N) : bool :=
  forallb (fun ch => negb (usedb s (N.lxor base (cd ch)))) edges.

Lemma is_target_spec s base edges : SW s -> (forall ch, In ch edges -> ch < 256) -> base < nU s ->
  is_target table s base edges = Ok (target s base edges).
Proof.
  intros W He Hb. induction edges as [|ch t IH]; [reflexivity|].
  cbn [is_target target forallb]. destruct (Hcode ch) as [E Hc]; [apply He; left; reflexivity|].
  rewrite E. cbn [bind].
  rewrite bvb_get_wf; [|apply (sw_us s W)|].
  2:{ destruct (sw_us s W) as [_ ->]. apply lxor_lt; [exact Hc|apply (sw_mod s W)|exact Hb]. }
  cbn [bind]. fold (usedb s (N.lxor base (cd ch))).
  destruct (usedb s (N.lxor base (cd ch))); cbn [negb andb]; [reflexivity|].
  apply IH. intros c Hc'. apply He. right. exact Hc'.
Qed.

Lemma walk_taboo fuel s edges c0 inb : xcheck_walk l1 table fuel s edges c0 inb 1 = Ok None.
Proof. destruct fuel; reflexivity. Qed.

Lemma walk_spec s edges c0 inb : SW s -> (forall ch, In ch edges -> ch < 256) -> c0 < 256 ->
  forall l i fuel, chain (bas s) (chk s) i l 1 -> (forall j, In j (i :: l) -> j < nU s /\ j <> 1) ->
    (length l < fuel)%nat ->
    exists r, xcheck_walk l1 table fuel s edges c0 inb i = Ok r /\
      match r with
      | Some base => exists j, In j (i :: l) /\ base = N.lxor j c0 /\ target s base edges = true
      | None => True
      end.
Proof.
  intros W He Hc0. induction l as [|b t IH]; intros i fuel Hch Hj Hf.
  - destruct fuel as [|f]; [cbn in Hf; lia|]. cbn [xcheck_walk].
    destruct (Hj i (or_introl eq_refl)) as [Hin Hi1].
    unfold taboo. change tb_taboo_npos with 1. destruct (N.eqb_spec i 1); [contradiction|].
    destruct (match inb with Some lpos => negb (shr64 i l1 =? lpos) | None => false end).
    { exists None. split; reflexivity. }
    rewrite is_target_spec; [|exact W|exact He|apply lxor_lt; [exact Hc0|apply (sw_mod s W)|exact Hin]].
    cbn [bind]. destruct (target s (N.lxor i c0) edges) eqn:Et.
    { exists (Some (N.lxor i c0)). split; [reflexivity|]. exists i. split; [left; reflexivity|]. split; [reflexivity|exact Et]. }
    rewrite (get_base_spec _ i (sw_units s W) Hin). cbn [bind]. fold (bas s i).
    cbn [chain] in Hch. destruct Hch as [-> _]. exists None. split; [apply walk_taboo|exact I].
  - destruct fuel as [|f]; [cbn in Hf; lia|]. cbn [xcheck_walk].
    destruct (Hj i (or_introl eq_refl)) as [Hin Hi1].
    unfold taboo. change tb_taboo_npos with 1. destruct (N.eqb_spec i 1); [contradiction|].
    destruct (match inb with Some lpos => negb (shr64 i l1 =? lpos) | None => false end).
    { exists None. split; reflexivity. }
    rewrite is_target_spec; [|exact W|exact He|apply lxor_lt; [exact Hc0|apply (sw_mod s W)|exact Hin]].
    cbn [bind]. destruct (target s (N.lxor i c0) edges) eqn:Et.
    { exists (Some (N.lxor i c0)). split; [reflexivity|]. exists i. split; [left; reflexivity|]. split; [reflexivity|exact Et]. }
    rewrite (get_base_spec _ i (sw_units s W) Hin). cbn [bind]. fold (bas s i).
    cbn [chain] in Hch. destruct Hch as (-> & _ & Hch).
    destruct (IH b f Hch) as (r & E & R).
    + intros j Hjj. apply Hj. right. exact Hjj.
    + cbn [length] in Hf. lia.
    + exists r. split; [exact E|]. destruct r as [base|]; [|exact I].
      destruct R as (j & Hjj & R). exists j. split; [right; exact Hjj|exact R].
Qed.

Lemma target_in_fl s fl j c0 edges : LI s fl -> OB s fl -> In j fl -> c0 < 256 -> (forall ch, In ch edges -> ch < 256) ->
  target s (N.lxor j c0) edges = true -> forall ch, In ch edges -> In (N.lxor (N.lxor j c0) (cd ch)) fl.
Proof.
  intros H HO Hj Hc0 He Ht ch Hch. unfold target in Ht. rewrite forallb_forall in Ht. specialize (Ht ch Hch).
  apply negb_true_iff in Ht. apply (HO j); [exact Hj| |exact Ht].
  destruct (Hcode ch (He ch Hch)) as [_ Hc]. rewrite lxor_block by exact Hc. apply lxor_block. exact Hc0.
Qed.

Lemma xcheck_spec s fl e0 rest lpos : LI s fl -> OB s fl -> (forall ch, In ch (e0 :: rest) -> ch < 256) ->
  lpos < nU s / lsz ->
  exists base, xcheck l1 table s (e0 :: rest) lpos = Ok base /\
    ((forall ch, In ch (e0 :: rest) -> In (N.lxor base (cd ch)) fl) \/ base = N.lxor (nU s) (cd e0)).
Proof.
  intros H HO He Hlp. pose proof (li_sw s fl H) as W.
  unfold xcheck. cbv beta iota. set (edges := e0 :: rest) in *.
  destruct (Hcode e0) as [E0 Hc0]; [apply He; left; reflexivity|].
  rewrite E0. cbn [bind]. unfold taboo. change tb_taboo_npos with 1.
  rewrite (get_base_spec _ 1 (sw_units s W)) by (pose proof (sw_pos s W); unfold nU in *; lia).
  cbn [bind]. fold (bas s 1). fold (nU s).
  destruct (N.eqb_spec (bas s 1) 1) as [Etb|Etb].
  { eexists. split; [reflexivity|]. right. reflexivity. }
  rewrite (mget_mval _ 0 lpos (sw_hd s W)) by (rewrite (sw_hl s W); exact Hlp). cbn [bind]. fold (headv s lpos).
  set (fuel := S (N.to_nat (nU s))).
  assert (Hlen : (length fl <= N.to_nat (nU s))%nat).
  { apply length_le_bound; [apply (li_nodup s fl H)|]. intros i Hi. apply (li_mem s fl H i Hi). }
  assert (Hmem : forall j, In j fl -> j < nU s /\ j <> 1).
  { intros j Hj. split; [apply (li_mem s fl H j Hj)|]. intros ->. apply (li_not1 s fl H Hj). }
  (* first walk *)
  assert (W1 : exists r, xcheck_walk l1 table fuel s edges (cd e0) (Some lpos) (headv s lpos) = Ok r /\
      match r with Some base => exists j, In j fl /\ base = N.lxor j (cd e0) /\ target s base edges = true | None => True end).
  { destruct (li_heads s fl H lpos Hlp) as [Eh|[Hh _]].
    - rewrite Eh. exists None. split; [apply walk_taboo|exact I].
    - destruct (in_split _ _ Hh) as (la & lb & Efl).
      pose proof (li_chain s fl H) as Hch. rewrite Efl in Hch. apply chain_app in Hch. destruct Hch as [_ Hch].
      destruct (walk_spec s edges (cd e0) (Some lpos) W He Hc0 lb (headv s lpos) fuel Hch) as (r & E & R).
      + intros j Hj. apply Hmem. rewrite Efl. apply in_or_app. right. exact Hj.
      + rewrite Efl, app_length in Hlen. cbn [length] in Hlen. subst fuel. lia.
      + exists r. split; [exact E|]. destruct r as [base|]; [|exact I].
        destruct R as (j & Hj & R). exists j. split; [|exact R]. rewrite Efl. apply in_or_app. right. exact Hj. }
  destruct W1 as (r1 & E1 & R1). rewrite E1. cbn [bind].
  destruct r1 as [base|].
  { exists base. split; [reflexivity|]. left. destruct R1 as (j & Hj & -> & Ht).
    apply (target_in_fl s fl j (cd e0) edges H HO Hj Hc0 He Ht). }
  (* second walk *)
  pose proof (li_chain s fl H) as Hch. destruct fl as [|c t]; [cbn [chain] in Hch; tauto|].
  cbn [chain] in Hch. destruct Hch as (Ec & _ & Hch). rewrite Ec.
  destruct (walk_spec s edges (cd e0) None W He Hc0 t c fuel Hch) as (r & E & R).
  - intros j Hj. apply Hmem. exact Hj.
  - cbn [length] in Hlen. subst fuel. lia.
  - rewrite E. cbn [bind]. destruct r as [base|].
    + exists base. split; [reflexivity|]. left. destruct R as (j & Hj & -> & Ht).
      apply (target_in_fl s (c :: t) j (cd e0) edges H HO Hj Hc0 He Ht).
    + eexists. split; [reflexivity|]. right. reflexivity.
Qed.


End Alloc.
(* PA *)
Print Assumptions use_unit_spec.
Print Assumptions close_block_spec.
Print Assumptions expand_spec.
Print Assumptions finish_spec.
Print Assumptions xcheck_spec.
