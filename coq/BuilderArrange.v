(* BuilderArrange.v: the recursion [arrange] of trie_builder lays out the minimal-prefix tree of a key
   range (or raises NotUnique / NotSorted exactly when the range is not strictly increasing).
   Layer (A) of the builder proof; uses the allocator lemmas of BuilderAlloc. *)
From Coq Require Import ZArith Lia ZifyN ZifyBool ZifyNat Arith PeanoNat FMapPositive.
From X Require Import Base Arr ArrFacts Consts BitToolsSpec BitToolsGen BitVector CompactVector Dac Tail Trie
                      Spec Iface Wf Builder IfaceBuild BitVectorFacts PhysFacts BuilderDefs BuilderKeys BuilderTree BuilderAlloc.
Local Open Scope N_scope.
Ltac Zify.zify_post_hook ::= Z.div_mod_to_equations.

Section Arrange.
Variable l1 : N.
Hypothesis Hl1 : l1 = 7 \/ l1 = 8.
Variable tbl : list N.
Hypothesis Hperm : perm_okb tbl = true.
Variable K : list key.
Definition cd (ch : N) : N := nth (N.to_nat ch) tbl 0.
Notation table := (ct_build tbl K).
Notation keys := (of_list K).

Lemma in_bytes256 ch : ch < 256 -> In ch bytes256.
Proof.
  intros H. unfold bytes256. apply in_map_iff. exists (N.to_nat ch). split; [apply N2Nat.id|]. apply in_seq. lia.
Qed.

Lemma perm_facts ch : ch < 256 ->
  nthN tbl ch = Some (cd ch) /\ cd ch < 256 /\ nthN tbl (cd ch + 256) = Some ch.
Proof.
  intros H. unfold perm_okb in Hperm. apply andb_prop in Hperm. destruct Hperm as [Hp _].
  apply andb_prop in Hp. destruct Hp as [_ Hp]. rewrite forallb_forall in Hp.
  specialize (Hp ch (in_bytes256 ch H)). cbv beta in Hp.
  destruct (nthN tbl ch) as [c|] eqn:E; [|discriminate].
  apply andb_prop in Hp. destruct Hp as [Hc Hp]. apply N.ltb_lt in Hc.
  assert (Ec : cd ch = c). { unfold cd. unfold nthN in E. apply nth_error_nth. exact E. }
  rewrite Ec. split; [reflexivity|]. split; [exact Hc|].
  destruct (nthN tbl (c + 256)) as [b'|]; [|discriminate]. apply N.eqb_eq in Hp. congruence.
Qed.

Lemma cd_ok ch : ch < 256 -> code table ch = Ok (cd ch) /\ cd ch < 256.
Proof.
  intros H. destruct (perm_facts ch H) as (E & Hc & _). split; [|exact Hc].
  unfold code, ct_get_code, ct_build. cbn [ct_table]. rewrite aget_of_list. unfold nthN in E. rewrite E. reflexivity.
Qed.
Lemma cd_lt ch : ch < 256 -> cd ch < 256.
Proof. intros H. apply (cd_ok ch H). Qed.
Lemma cd_inj a b : a < 256 -> b < 256 -> cd a = cd b -> a = b.
Proof.
  intros Ha Hb E. destruct (perm_facts a Ha) as (_ & _ & E1). destruct (perm_facts b Hb) as (_ & _ & E2).
  rewrite E in E1. congruence.
Qed.
Lemma slot_inj base a b : a < 256 -> b < 256 -> N.lxor base (cd a) = N.lxor base (cd b) -> a = b.
Proof. intros Ha Hb E. apply lxor_inj_l in E. apply cd_inj; assumption. Qed.

(* ------------------------------------------------------------------ *)
(* global invariants of the representation layer and the frame         *)
(* ------------------------------------------------------------------ *)
Definition tcount (s : bstate) : N := count_true (bvb_bits (bs_terms s)).
Definition sfx (s : bstate) (u : N) : key := sfx_of (bs_sufs s) u.
Definition slay (s : bstate) (t : tree) : Prop :=
  lay (nU s) (bas s) (chk s) (usedb s) (leafb s) (termb s) (sfx s) cd t.

Record GI (s : bstate) : Prop := mkGI {
  g_cu : forall c, c <> 1 -> usedb s c = true -> usedb s (chk s c) = true;
  g_clean : forall i, usedb s i = false -> leafb s i = false /\ termb s i = false;
  g_t1 : leafb s 1 = false /\ termb s 1 = false;
  g_sfx : forall sn, In sn (bs_sufs s) -> leafb s (snd sn) = true
}.

Definition childless (s : bstate) (u : N) : Prop :=
  forall c, c <> 1 -> usedb s c = true -> chk s c <> u.

(* what a set of arrange calls at the nodes R may do to the rest of the world *)
Record fr (R : N -> Prop) (s s' : bstate) : Prop := mkFr {
  fr_n : nU s <= nU s';
  fr_used : forall i, usedb s i = true ->
     usedb s' i = true /\ (i <> 1 -> chk s' i = chk s i) /\ (i <> 1 -> ~ R i -> bas s' i = bas s i) /\
     (~ R i -> leafb s' i = leafb s i /\ termb s' i = termb s i);
  fr_new : forall i, usedb s i = false -> usedb s' i = true -> R (chk s' i) \/ usedb s (chk s' i) = false;
  fr_sufs : exists new, bs_sufs s' = bs_sufs s ++ new /\ forall sn, In sn new -> R (snd sn) \/ usedb s (snd sn) = false
}.

Lemma fr_refl R s : fr R s s.
Proof.
  constructor.
  - lia.
  - intros i Hi. repeat split; auto.
  - intros i H1 H2. congruence.
  - exists []. split; [symmetry; apply app_nil_r|]. intros sn [].
Qed.

Lemma fr_mono (R R' : N -> Prop) s s' : (forall i, R i -> R' i) -> fr R s s' -> fr R' s s'.
Proof.
  intros HR [A1 A2 A3 (n1 & A4 & A5)]. constructor.
  - exact A1.
  - intros i Hi. destruct (A2 i Hi) as (X1 & X2 & X3 & X4). repeat split; auto.
    + apply X4. auto.
    + apply X4. auto.
  - intros i H1 H2. destruct (A3 i H1 H2); auto.
  - exists n1. split; [exact A4|]. intros sn Hsn. destruct (A5 sn Hsn); auto.
Qed.

Lemma fr_trans R s s1 s2 : usedb s 1 = true -> fr R s s1 -> fr R s1 s2 -> fr R s s2.
Proof.
  intros H1 [A1 A2 A3 (n1 & A4 & A5)] [B1 B2 B3 (n2 & B4 & B5)]. constructor.
  - lia.
  - intros i Hi. destruct (A2 i Hi) as (X1 & X2 & X3 & X4). destruct (B2 i X1) as (Y1 & Y2 & Y3 & Y4).
    split; [exact Y1|]. split; [|split].
    + intros Hn. rewrite Y2, X2 by exact Hn. reflexivity.
    + intros Hn Hu. rewrite Y3, X3 by assumption. reflexivity.
    + intros Hu. destruct (X4 Hu) as [P1 P2]. destruct (Y4 Hu) as [Q1 Q2]. split; congruence.
  - intros i Hi Hi2. destruct (usedb s1 i) eqn:E1.
    + assert (Hn1 : i <> 1) by (intros ->; congruence).
      destruct (B2 i E1) as (_ & Y2 & _). rewrite (Y2 Hn1). apply A3; assumption.
    + destruct (B3 i E1 Hi2) as [Y|Y]; [left; exact Y|]. right.
      destruct (usedb s (chk s2 i)) eqn:E; [|reflexivity]. destruct (A2 _ E) as [X _]. congruence.
  - exists (n1 ++ n2). split; [rewrite B4, A4, app_assoc; reflexivity|].
    intros sn Hsn. apply in_app_or in Hsn. destruct Hsn as [Hsn|Hsn]; [apply A5; exact Hsn|].
    destruct (B5 sn Hsn) as [Y|Y]; [left; exact Y|]. right.
    destruct (usedb s (snd sn)) eqn:E; [|reflexivity]. destruct (A2 _ E) as [X _]. congruence.
Qed.

(* calls at children R' that the parents' calls took from the unused units *)
Lemma fr_child (R R' : N -> Prop) s s1 s2 : usedb s 1 = true -> fr R s s1 ->
  (forall c, R' c -> usedb s c = false /\ usedb s1 c = true) ->
  fr R' s1 s2 -> fr R s s2.
Proof.
  intros H1 [A1 A2 A3 (n1 & A4 & A5)] Hc [B1 B2 B3 (n2 & B4 & B5)]. constructor.
  - lia.
  - intros i Hi. destruct (A2 i Hi) as (X1 & X2 & X3 & X4). destruct (B2 i X1) as (Y1 & Y2 & Y3 & Y4).
    assert (Hic : ~ R' i) by (intros HR; destruct (Hc i HR); congruence).
    split; [exact Y1|]. split; [|split].
    + intros Hn. rewrite Y2, X2 by exact Hn. reflexivity.
    + intros Hn Hu. rewrite Y3, X3 by assumption. reflexivity.
    + intros Hu. destruct (X4 Hu) as [P1 P2]. destruct (Y4 Hic) as [Q1 Q2]. split; congruence.
  - intros i Hi Hi2. destruct (usedb s1 i) eqn:E1.
    + assert (Hn1 : i <> 1) by (intros ->; congruence).
      destruct (B2 i E1) as (_ & Y2 & _). rewrite (Y2 Hn1). apply A3; assumption.
    + right. destruct (B3 i E1 Hi2) as [Y|Y]; [apply (Hc _ Y)|].
      destruct (usedb s (chk s2 i)) eqn:E; [|reflexivity]. destruct (A2 _ E) as [X _]. congruence.
  - exists (n1 ++ n2). split; [rewrite B4, A4, app_assoc; reflexivity|].
    intros sn Hsn. apply in_app_or in Hsn. destruct Hsn as [Hsn|Hsn]; [apply A5; exact Hsn|]. right.
    destruct (B5 sn Hsn) as [Y|Y]; [apply (Hc _ Y)|].
    destruct (usedb s (snd sn)) eqn:E; [|reflexivity]. destruct (A2 _ E) as [X _]. congruence.
Qed.

Lemma childless_fr (R : N -> Prop) v s s' : childless s v -> usedb s v = true -> ~ R v -> fr R s s' -> childless s' v.
Proof.
  intros Hc Hv Hvu [A1 A2 A3 _] c Hc1 Hcu. destruct (usedb s c) eqn:E.
  - destruct (A2 c E) as (_ & X & _). rewrite (X Hc1). apply Hc; assumption.
  - destruct (A3 c E Hcu) as [Y|Y]; [intros Ev; apply Hvu; rewrite <- Ev; exact Y|]. intros Ev. rewrite Ev in Y. congruence.
Qed.

Lemma slay_fr (R : N -> Prop) s s' t : slay s t -> (forall v, In v (nodes_of t) -> ~ R v /\ v <> 1) -> fr R s s' -> slay s' t.
Proof.
  intros HL Hn [A1 A2 A3 (new & A4 & A5)]. unfold slay in *.
  pose proof (lay_nodes _ _ _ _ _ _ _ _ t HL) as Hnodes.
  eapply lay_stable; [exact HL|exact A1| |].
  - intros v Hv. destruct (Hnodes v Hv) as [_ Hu]. destruct (Hn v Hv) as [Hvu Hv1].
    destruct (A2 v Hu) as (X1 & X2 & X3 & X4). destruct (X4 Hvu) as [X5 X6].
    repeat split; auto.
    unfold sfx. rewrite A4. apply sfx_of_app_notin. intros Hin. apply in_map_iff in Hin.
    destruct Hin as (sn & E & Hsn). destruct (A5 sn Hsn) as [Y|Y]; [apply Hvu; rewrite <- E; exact Y|congruence].
  - intros v c Hv Hc1 Hcu Ecv. destruct (Hnodes v Hv) as [_ Hu]. destruct (Hn v Hv) as [Hvu Hv1].
    destruct (usedb s c) eqn:E.
    + split; [reflexivity|]. destruct (A2 c E) as (_ & X & _). rewrite <- (X Hc1). exact Ecv.
    + exfalso. destruct (A3 c E Hcu) as [Y|Y]; [apply Hvu; rewrite <- Ecv; exact Y|congruence].
Qed.

(* ------------------------------------------------------------------ *)
(* node-local updates                                                   *)
(* ------------------------------------------------------------------ *)
Lemma LI_ext s s' fl : LI l1 s fl -> SW l1 s' -> nU s' = nU s ->
  (forall i, usedb s' i = usedb s i) ->
  (forall i, usedb s i = false \/ i = 1 -> bas s' i = bas s i /\ chk s' i = chk s i) ->
  (forall lp, headv s' lp = headv s lp) -> LI l1 s' fl.
Proof.
  intros H W' Hn Hu Hf Hh. destruct H as [X1 X2 X3 X4 X5 X6 X7 X8]. constructor.
  - exact W'.
  - exact X2.
  - intros i Hi. rewrite Hn, Hu. apply X3. exact Hi.
  - apply (chain_frame (bas s) (chk s)); [exact X4| |].
    + intros i [<-|Hi]; [apply Hf; right; reflexivity|]. apply Hf. left. apply (X3 i Hi).
    + intros i Hi. apply in_app_or in Hi. destruct Hi as [Hi|[<-|[]]]; [|apply Hf; right; reflexivity].
      apply Hf. left. apply (X3 i Hi).
  - rewrite Hu. exact X5.
  - rewrite Hu. exact X6.
  - intros i Hi Hiu Hif. rewrite Hn in Hi. rewrite Hu in Hiu. destruct (Hf i (or_introl Hiu)) as [-> ->].
    apply X7; assumption.
  - intros lp Hlp. rewrite Hn in Hlp. rewrite Hh. apply X8. exact Hlp.
Qed.
Lemma OB_ext s s' fl : OB s fl -> (forall i, usedb s' i = usedb s i) -> OB s' fl.
Proof. intros HO Hu i j Hi Hj Hju. rewrite Hu in Hju. apply (HO i j); assumption. Qed.

Lemma count_true_set_nth l i : i < lenN l -> nthb l i = false -> count_true (set_nth l i true) = count_true l + 1.
Proof.
  unfold set_nth, nthb, lenN. intros Hi Hb.
  rewrite <- (firstn_skipn (N.to_nat i) l) at 3. rewrite !(count_true_app l1 Hl1).
  assert (G : forall (l : list bool) k, (k < length l)%nat -> nth k l false = false ->
                skipn k l = false :: skipn (S k) l).
  { clear. induction l as [|x l IH]; intros k Hk Hb; [cbn in Hk; lia|].
    destruct k as [|k]; [cbn in Hb; subst x; reflexivity|].
    cbn [skipn]. cbn [nth] in Hb. apply IH; [cbn [length] in Hk; lia|exact Hb]. }
  assert (E : skipn (N.to_nat i) l = false :: skipn (S (N.to_nat i)) l) by (apply G; [lia|exact Hb]).
  rewrite E. cbn [count_true]. lia.
Qed.

Lemma term_set s u : SW l1 s -> u < nU s -> termb s u = false ->
  exists tm, set_bit_of (bs_terms s) u = Ok tm /\ bwf tm (nU s) /\
             (forall i, bbit tm i = if i =? u then true else termb s i) /\
             count_true (bvb_bits tm) = tcount s + 1.
Proof.
  intros W Hu Ht. destruct (sw_tm l1 s W) as [Wt Wts]. unfold set_bit_of.
  destruct (bvb_set_wf (bs_terms s) u true Wt) as (tm & E & A1 & A2 & A3 & A4); [rewrite Wts; exact Hu|].
  exists tm. split; [exact E|]. split; [split; [exact A1|congruence]|]. split; [exact A3|].
  rewrite A4. apply count_true_set_nth; [rewrite lenN_bvb_bits, Wts; exact Hu|exact Ht].
Qed.
Lemma leaf_set s u : SW l1 s -> u < nU s ->
  exists lv, set_bit_of (bs_leaves s) u = Ok lv /\ bwf lv (nU s) /\
             (forall i, bbit lv i = if i =? u then true else leafb s i).
Proof.
  intros W Hu. destruct (sw_lv l1 s W) as [Wt Wts]. unfold set_bit_of.
  destruct (bvb_set_wf (bs_leaves s) u true Wt) as (lv & E & A1 & A2 & A3 & A4); [rewrite Wts; exact Hu|].
  exists lv. split; [exact E|]. split; [split; [exact A1|congruence]|]. exact A3.
Qed.

Lemma local_step s fl u un lv tm sufs' new :
  LI l1 s fl -> OB s fl -> GI s -> usedb s u = true -> u <> 1 ->
  mdef un -> mlen un = nU s ->
  (forall i, snd (uval un i) = chk s i) -> (forall i, i <> u -> fst (uval un i) = bas s i) -> fst (uval un u) < nU s ->
  bwf lv (nU s) -> bwf tm (nU s) ->
  (forall i, i <> u -> bbit lv i = leafb s i /\ bbit tm i = termb s i) ->
  sufs' = bs_sufs s ++ new -> (forall sn, In sn new -> snd sn = u) ->
  (new <> [] -> bbit lv u = true) -> (leafb s u = true -> bbit lv u = true) ->
  let s' := mkBs un lv tm (bs_useds s) (bs_heads s) sufs' in
  LI l1 s' fl /\ OB s' fl /\ GI s' /\ fr (eq u) s s' /\ nU s' = nU s.
Proof.
  intros H HO G Hu Hu1 Hd Hl Hk Hb Hbu Wl Wt Hbits Hs Hnew Hnl Hll s'.
  pose proof (li_sw l1 s fl H) as W.
  assert (Hn : nU s' = nU s) by exact Hl.
  assert (Huu : forall i, usedb s' i = usedb s i) by reflexivity.
  assert (Hkk : forall i, chk s' i = chk s i) by exact Hk.
  assert (Hbb : forall i, i <> u -> bas s' i = bas s i) by exact Hb.
  assert (W' : SW l1 s').
  { destruct W as [Wm Wp Wsm Wu Wl0 Wt0 Wus Wh Whl Wr]. constructor; rewrite ?Hn; try assumption.
    intros i Hi. rewrite Hkk. destruct (N.eq_dec i u) as [->|Hne].
    - split; [exact Hbu|apply Wr; exact Hi].
    - rewrite Hbb by exact Hne. apply Wr. exact Hi. }
  assert (Hun : forall i, usedb s i = false \/ i = 1 -> i <> u).
  { intros i [Hi| ->] E; [subst i; congruence|congruence]. }
  split; [|split; [|split; [|split]]].
  - apply (LI_ext s s' fl H W' Hn Huu); [|reflexivity].
    intros i Hi. split; [apply Hbb; apply Hun; exact Hi|apply Hkk].
  - apply (OB_ext s s' fl HO Huu).
  - destruct G as [G1 G2 G3 G4]. constructor.
    + intros c Hc Hcu. rewrite Huu in *. rewrite Hkk. apply G1; assumption.
    + intros i Hi. rewrite Huu in Hi. assert (i <> u) by (intros ->; congruence).
      unfold leafb, termb, s'; cbn [bs_leaves bs_terms]. destruct (Hbits i H0) as [-> ->]. apply G2. exact Hi.
    + unfold leafb, termb, s'; cbn [bs_leaves bs_terms]. destruct (Hbits 1 (not_eq_sym Hu1)) as [-> ->]. exact G3.
    + intros sn Hsn. unfold s' in Hsn. cbn [bs_sufs] in Hsn. rewrite Hs in Hsn. apply in_app_or in Hsn.
      unfold leafb, s'; cbn [bs_leaves]. destruct Hsn as [Hsn|Hsn].
      * destruct (N.eq_dec (snd sn) u) as [E|E].
        -- rewrite E. apply Hll. rewrite <- E. apply G4. exact Hsn.
        -- destruct (Hbits _ E) as [-> _]. apply G4. exact Hsn.
      * rewrite (Hnew sn Hsn). apply Hnl. intros E. rewrite E in Hsn. contradiction.
  - constructor.
    + lia.
    + intros i Hi. split; [exact Hi|]. split; [intros _; apply Hkk|]. split.
      * intros _ Hne. apply Hbb. intros E. apply Hne. symmetry. exact E.
      * intros Hne. apply Hbits. intros E. apply Hne. symmetry. exact E.
    + intros i H1 H2. rewrite Huu in H2. congruence.
    + exists new. split; [exact Hs|]. intros sn Hsn. left. symmetry. apply Hnew. exact Hsn.
  - exact Hn.
Qed.



(* ------------------------------------------------------------------ *)
(* taking the children of a node                                        *)
(* ------------------------------------------------------------------ *)
Lemma li_used1 s fl : LI l1 s fl -> usedb s 1 = true.
Proof. intros H. apply (li_u1 l1 s fl H). Qed.

Lemma take_one s fl c u : LI l1 s fl -> OB s fl -> GI s -> In c fl -> usedb s u = true -> u <> 1 ->
  exists s', (do st1 <- use_unit l1 s c; do u' <- set_check (bs_units st1) c u; Ok (with_units st1 u')) = Ok s' /\
    LI l1 s' (filter (fun i => negb (i =? c)) fl) /\ OB s' (filter (fun i => negb (i =? c)) fl) /\ GI s' /\
    fr (eq u) s s' /\ nU s' = nU s /\ same_flags s s' /\
    (forall i, usedb s' i = if i =? c then true else usedb s i) /\ chk s' c = u /\ used_frame s s'.
Proof.
  intros H HO G Hc Hu Hu1.
  destruct (use_unit_spec l1 Hl1 s fl c H Hc) as (s1 & E1 & H1 & Hn1 & Flv & Ftm & Fsf & Hus & Hfr & _).
  rewrite E1. cbn [bind]. pose proof (li_sw l1 _ _ H1) as W1.
  destruct (li_mem l1 s fl H c Hc) as [Hcn Hcu].
  assert (Hc1 : c <> 1) by (intros ->; rewrite (li_used1 s fl H) in Hcu; discriminate).
  destruct (set_check_spec (bs_units s1) c u (sw_units l1 s1 W1)) as (u' & E2 & L2 & D2 & GU2); [fold (nU s1); lia|].
  rewrite E2. cbn [bind]. set (s' := with_units s1 u'). exists s'. split; [reflexivity|].
  assert (Hn : nU s' = nU s) by (unfold s', nU, with_units; cbn [bs_units]; rewrite L2; exact Hn1).
  assert (Hb' : forall i, bas s' i = bas s1 i).
  { intros i. unfold bas, s', with_units; cbn [bs_units]. rewrite GU2. destruct (N.eqb_spec i c) as [->|]; reflexivity. }
  assert (Hk' : forall i, chk s' i = if i =? c then u else chk s1 i).
  { intros i. unfold chk, s', with_units; cbn [bs_units]. rewrite GU2. destruct (i =? c); reflexivity. }
  assert (Hu' : forall i, usedb s' i = usedb s1 i) by reflexivity.
  assert (Hun : u < nU s) by (apply (usedb_lt l1 s u (li_sw l1 s fl H) Hu)).
  assert (Hn' : nU s' = nU s1) by congruence.
  assert (W' : SW l1 s').
  { destruct W1 as [Wm Wp Wsm Wu Wl0 Wt0 Wus Wh Whl Wr]. constructor; rewrite ?Hn'; try assumption.
    intros i Hi. rewrite Hb', Hk'. destruct (Wr i Hi) as [A1 A2]. destruct (i =? c); split; try assumption. lia. }
  assert (LI' : LI l1 s' (filter (fun i => negb (i =? c)) fl)).
  { apply (LI_ext s1 s' _ H1 W'); [congruence|exact Hu'| |reflexivity].
    intros i Hi. assert (i <> c).
    { intros ->. destruct Hi as [Hi|Hi]; [|contradiction]. rewrite Hus, N.eqb_refl in Hi. discriminate. }
    rewrite Hb', Hk'. destruct (N.eqb_spec i c); [contradiction|]. split; reflexivity. }
  assert (Fr : used_frame s s').
  { intros i Hi Hi1. rewrite Hb', Hk'. destruct (N.eqb_spec i c) as [->|]; [congruence|]. apply Hfr; assumption. }
  split; [exact LI'|]. split; [apply (OB_ext s1); [apply (use_unit_OB l1 Hl1 s fl c s1 HO Hus)|exact Hu']|].
  assert (Huse : forall i, usedb s' i = if i =? c then true else usedb s i) by (intros i; rewrite Hu'; apply Hus).
  split; [|split; [|split; [exact Hn|split; [|split; [exact Huse|split; [|exact Fr]]]]]].
  - destruct G as [G1 G2 G3 G4]. constructor.
    + intros c' Hc' Hcu'. rewrite Huse in Hcu'. rewrite Hk'. destruct (N.eqb_spec c' c) as [->|Hne].
      * rewrite Huse. rewrite Hu. destruct (u =? c); reflexivity.
      * destruct (Hfr c' Hcu' Hc') as [_ ->]. rewrite Huse. rewrite (G1 c' Hc' Hcu'). destruct (_ =? c); reflexivity.
    + intros i Hi. rewrite Huse in Hi. destruct (i =? c); [discriminate|].
      unfold leafb, termb, s', with_units; cbn [bs_leaves bs_terms]. rewrite Flv, Ftm. apply G2. exact Hi.
    + unfold leafb, termb, s', with_units; cbn [bs_leaves bs_terms]. rewrite Flv, Ftm. exact G3.
    + intros sn Hsn. unfold s', with_units in Hsn; cbn [bs_sufs] in Hsn. rewrite Fsf in Hsn.
      unfold leafb, s', with_units; cbn [bs_leaves]. rewrite Flv. apply G4. exact Hsn.
  - constructor.
    + lia.
    + intros i Hi. split; [rewrite Huse, Hi; destruct (i =? c); reflexivity|].
      split; [intros Hi1; apply (Fr i Hi Hi1)|]. split; [intros Hi1 _; apply (Fr i Hi Hi1)|].
      intros _. unfold leafb, termb, s', with_units; cbn [bs_leaves bs_terms]. rewrite Flv, Ftm. split; reflexivity.
    + intros i Hi Hi'. rewrite Huse in Hi'. destruct (N.eqb_spec i c) as [->|]; [|congruence].
      left. rewrite Hk', N.eqb_refl. reflexivity.
    + exists []. split; [|intros sn []]. unfold s', with_units; cbn [bs_sufs]. rewrite Fsf, app_nil_r. reflexivity.
  - unfold same_flags, s', with_units; cbn [bs_leaves bs_terms bs_sufs]. auto.
  - rewrite Hk', N.eqb_refl. reflexivity.
Qed.



Definition take_step (base npos : N) (acc : res bstate) (ch : N) : res bstate :=
  do st <- acc; do cd <- code table ch;
  let child := N.lxor base cd in
  do st1 <- use_unit l1 st child;
  do u' <- set_check (bs_units st1) child npos;
  Ok (with_units st1 u').

Lemma take_fold base u : forall es s fl,
  LI l1 s fl -> OB s fl -> GI s -> usedb s u = true -> u <> 1 -> NoDup es ->
  (forall ch, In ch es -> ch < 256 /\ In (N.lxor base (cd ch)) fl) ->
  exists s' fl', fold_left (take_step base u) es (Ok s) = Ok s' /\
    LI l1 s' fl' /\ OB s' fl' /\ GI s' /\ fr (eq u) s s' /\ nU s' = nU s /\ same_flags s s' /\
    (forall i, usedb s' i = true <-> usedb s i = true \/ exists ch, In ch es /\ i = N.lxor base (cd ch)) /\
    (forall ch, In ch es -> chk s' (N.lxor base (cd ch)) = u) /\ used_frame s s'.
Proof.
  induction es as [|ch t IH]; intros s fl H HO G Hu Hu1 ND Hes.
  - exists s, fl. cbn [fold_left]. split; [reflexivity|]. do 3 (split; [assumption|]).
    split; [apply fr_refl|]. split; [reflexivity|]. split; [apply same_flags_refl|].
    split; [|split; [intros ch []|apply used_frame_refl]].
    intros i. split; [auto|]. intros [Hi|(ch & [] & _)]. exact Hi.
  - cbn [fold_left]. destruct (Hes ch (or_introl eq_refl)) as [Hch Hin].
    unfold take_step at 2. cbn [bind]. rewrite (proj1 (cd_ok ch Hch)). cbn [bind].
    set (c := N.lxor base (cd ch)) in *.
    destruct (take_one s fl c u H HO G Hin Hu Hu1) as (s1 & E1 & H1 & O1 & G1 & F1 & Hn1 & SF1 & Hus1 & Hk1 & UF1).
    rewrite E1. apply NoDup_cons_iff in ND. destruct ND as [Hnt ND].
    assert (Hu' : usedb s1 u = true) by (rewrite Hus1, Hu; destruct (u =? c); reflexivity).
    destruct (IH s1 _ H1 O1 G1 Hu' Hu1 ND) as (s' & fl' & E' & H' & O' & G' & F' & Hn' & SF' & Hus' & Hk' & UF').
    { intros ch' Hch'. destruct (Hes ch' (or_intror Hch')) as [A1 A2]. split; [exact A1|].
      apply (in_filter_ne l1 Hl1). split; [exact A2|]. intros E. apply slot_inj in E; [|assumption|assumption].
      subst ch'. contradiction. }
    exists s', fl'. split; [exact E'|]. do 3 (split; [assumption|]).
    split; [apply (fr_trans _ s s1 s' (li_used1 s fl H) F1 F')|]. split; [congruence|].
    split; [eapply same_flags_trans; eassumption|].
    assert (UF : used_frame s s').
    { eapply used_frame_trans; [exact UF1| |exact UF']. intros i Hi. rewrite Hus1, Hi. destruct (i =? c); reflexivity. }
    split; [|split; [|exact UF]].
    + intros i. rewrite Hus', Hus1. split.
      * intros [Hi|(ch' & Hch' & ->)].
        -- destruct (N.eqb_spec i c) as [Eic|]; [right; exists ch; split; [left; reflexivity|exact Eic]|left; exact Hi].
        -- right. exists ch'. split; [right; exact Hch'|reflexivity].
      * intros [Hi|(ch' & [<-|Hch'] & ->)].
        -- left. rewrite Hi. destruct (i =? c); reflexivity.
        -- left. fold c. rewrite N.eqb_refl. reflexivity.
        -- right. exists ch'. split; [exact Hch'|reflexivity].
    + intros ch' [<-|Hch']; [|apply Hk'; exact Hch'].
      fold c. destruct (UF' c) as [_ ->]; [rewrite Hus1, N.eqb_refl; reflexivity| |exact Hk1].
      intros E. destruct (li_mem l1 s fl H c Hin) as [_ A]. rewrite E, (li_used1 s fl H) in A. discriminate.
Qed.



(* ------------------------------------------------------------------ *)
(* the specification of arrange                                         *)
(* ------------------------------------------------------------------ *)
Record apre (s : bstate) (fl : list N) (beg kpos : N) (ss : list key) (u : N) : Prop := mkApre {
  ap_li : LI l1 s fl; ap_ob : OB s fl; ap_gi : GI s;
  ap_rng : rng keys beg kpos ss; ap_ne : ss <> []; ap_bytes : Forall (fun k => bytes_ok k = true) ss;
  ap_u : usedb s u = true; ap_u1 : u <> 1; ap_cl : childless s u;
  ap_lf : leafb s u = false; ap_tm : termb s u = false;
  ap_budget : nU s + 256 * msum ss < 2^62
}.
Record apost (s : bstate) (ss : list key) (u : N) (s' : bstate) (fl' : list N) (T : tree) : Prop := mkApost {
  aq_li : LI l1 s' fl'; aq_ob : OB s' fl'; aq_gi : GI s'; aq_fr : fr (eq u) s s';
  aq_n : nU s' <= nU s + 256 * msum ss;
  aq_root : root_of T = u; aq_lay : slay s' T; aq_keys : keys_of T = ss; aq_min : minimal T = true;
  aq_depth : (depth T <= S (N.to_nat (maxlen ss)))%nat; aq_nodup : NoDup (nodes_of T);
  aq_fresh : forall i, In i (nodes_of T) -> i = u \/ usedb s i = false;
  aq_used : forall i, usedb s' i = true <-> usedb s i = true \/ In i (nodes_of T);
  aq_sufs : bs_sufs s' = bs_sufs s ++ tsufs T; aq_tc : tcount s' = tcount s + lenN ss
}.
Definition ArrSpec (fuel : nat) : Prop :=
  forall s fl beg kpos ss u, apre s fl beg kpos ss u -> (N.to_nat (maxlen ss) < fuel)%nat ->
  (exists e, arrange l1 table keys fuel s beg (beg + lenN ss) kpos u = Exc e /\ strictly_sorted ss = false) \/
  (exists s' fl' T, arrange l1 table keys fuel s beg (beg + lenN ss) kpos u = Ok s' /\
                    strictly_sorted ss = true /\ apost s ss u s' fl' T).

Definition child_step (f : nat) (kpos base : N) (acc : res bstate) (r : N * N * N) : res bstate :=
  do st <- acc;
  let '(ch, i, j) := r in
  do cd <- code table ch;
  arrange l1 table keys f st i j (kpos + 1) (N.lxor base cd).

Definition arrange_node (f : nat) (s1 : bstate) (beg1 end_ kpos npos : N) : res bstate :=
  do kb <- key_at keys beg1;
  if lenN kb <=? kpos then Exc NotUnique else
  do ch0 <- key_char kb kpos;
  do ranges <- scan_edges keys (N.to_nat (end_ - beg1 - 1)) kpos (beg1 + 1) ch0 beg1 [];
  let edges := map (fun r => fst (fst r)) ranges in
  do base <- xcheck l1 table s1 edges (shr64 npos l1);
  do s2 <- (if mlen (bs_units s1) <=? base then expand l1 s1 else Ok s1);
  do u <- set_base (bs_units s2) npos base;
  do s3 <- fold_left (take_step base npos) edges (Ok (with_units s2 u));
  fold_left (child_step f kpos base) ranges (Ok s3).

Lemma arrange_unfold f s beg end_ kpos npos :
  arrange l1 table keys (S f) s beg end_ kpos npos =
  (do k0 <- key_at keys beg;
   do '(s1, beg1, fin) <-
      (if lenN k0 =? kpos then
         do tm <- set_bit_of (bs_terms s) npos;
         let s' := mkBs (bs_units s) (bs_leaves s) tm (bs_useds s) (bs_heads s) (bs_sufs s) in
         if beg + 1 =? end_ then
           do u <- set_base (bs_units s') npos 0;
           do lv <- set_bit_of (bs_leaves s') npos;
           Ok (mkBs u lv (bs_terms s') (bs_useds s') (bs_heads s') (bs_sufs s'), beg + 1, true)
         else Ok (s', beg + 1, false)
       else if beg + 1 =? end_ then
         if lenN k0 <=? kpos then Exc NotUnique else
         do tm <- set_bit_of (bs_terms s) npos;
         do lv <- set_bit_of (bs_leaves s) npos;
         do sf <- tail_set_suffix (bs_sufs s) (skipn (N.to_nat kpos) k0) npos;
         Ok (mkBs (bs_units s) lv tm (bs_useds s) (bs_heads s) sf, beg, true)
       else Ok (s, beg, false));
   if (fin : bool) then Ok s1 else arrange_node f s1 beg1 end_ kpos npos).
Proof. reflexivity. Qed.



(* ------------------------------------------------------------------ *)
(* the children of a node, left to right                                *)
(* ------------------------------------------------------------------ *)
Definition slotp (base : N) (gs : list (N * list key)) (i : N) : Prop :=
  exists cg, In cg gs /\ i = N.lxor base (cd (fst cg)).
Definition gsum (gs : list (N * list key)) : N := fold_right (fun cg acc => msum (snd cg) + acc) 0 gs.
Definition glen (gs : list (N * list key)) : N := fold_right (fun cg acc => lenN (snd cg) + acc) 0 gs.
Definition child_rel (base : N) (cg : N * list key) (xc : N * tree) : Prop :=
  fst xc = fst cg /\ root_of (snd xc) = N.lxor base (cd (fst cg)) /\ keys_of (snd xc) = snd cg /\
  minimal (snd xc) = true /\ (depth (snd xc) <= S (N.to_nat (maxlen (snd cg))))%nat.
Definition cnodes (cs : list (N * tree)) : list N := flat_map (fun xc => nodes_of (snd xc)) cs.

Lemma child_fold_exc f kpos base e : forall l, fold_left (child_step f kpos base) l (Exc e) = Exc e.
Proof. induction l as [|r l IH]; [reflexivity|]. cbn [fold_left]. exact IH. Qed.

Lemma children_fold f kpos base : ArrSpec f -> forall gs start s fl,
  LI l1 s fl -> OB s fl -> GI s ->
  rng keys start kpos (ungroup gs) ->
  Forall (fun cg => fst cg < 256 /\ snd cg <> [] /\ Forall (fun k => bytes_ok k = true) (snd cg) /\
                    (N.to_nat (maxlen (snd cg)) < f)%nat) gs ->
  NoDup (map fst gs) ->
  (forall cg, In cg gs -> let v := N.lxor base (cd (fst cg)) in
       usedb s v = true /\ v <> 1 /\ childless s v /\ leafb s v = false /\ termb s v = false) ->
  nU s + 256 * gsum gs < 2^62 ->
  (exists e, fold_left (child_step f kpos base) (index_ranges start gs) (Ok s) = Exc e /\
             forallb (fun cg => strictly_sorted (snd cg)) gs = false) \/
  (exists s' fl' cs, fold_left (child_step f kpos base) (index_ranges start gs) (Ok s) = Ok s' /\
     forallb (fun cg => strictly_sorted (snd cg)) gs = true /\
     LI l1 s' fl' /\ OB s' fl' /\ GI s' /\ fr (slotp base gs) s s' /\ nU s' <= nU s + 256 * gsum gs /\
     Forall2 (child_rel base) gs cs /\ Forall (fun xc => slay s' (snd xc)) cs /\
     NoDup (cnodes cs) /\
     (forall i, In i (cnodes cs) -> slotp base gs i \/ usedb s i = false) /\
     (forall i, usedb s' i = true <-> usedb s i = true \/ In i (cnodes cs)) /\
     bs_sufs s' = bs_sufs s ++ flat_map (fun xc => tsufs (snd xc)) cs /\
     tcount s' = tcount s + glen gs).
Proof.
  intros IHf. induction gs as [|[c g] rest IH]; intros start s fl H HO G Hr HF ND Hsl Hbud.
  - right. exists s, fl, []. cbn. split; [reflexivity|]. split; [reflexivity|]. do 3 (split; [assumption|]).
    split; [apply fr_refl|]. split; [lia|]. split; [constructor|]. split; [constructor|]. split; [constructor|].
    split; [intros i []|]. split; [intros i; tauto|]. split; [symmetry; apply app_nil_r|]. unfold glen. cbn. lia.
  - cbn [index_ranges fst snd fold_left].
    apply Forall_cons_iff in HF. destruct HF as [(Hc & Hg & Hgb & Hgf) HF]. cbn [fst snd] in *.
    set (v := N.lxor base (cd c)).
    assert (Estep : child_step f kpos base (Ok s) (c, start, start + lenN g) =
                    arrange l1 table keys f s start (start + lenN g) (kpos + 1) v).
    { unfold child_step. cbn [bind]. rewrite (proj1 (cd_ok c Hc)). reflexivity. }
    rewrite Estep.
    cbn [map] in ND. apply NoDup_cons_iff in ND. destruct ND as [Hcn ND].
    unfold ungroup in Hr. cbn [flat_map fst snd] in Hr. fold (ungroup rest) in Hr.
    apply rng_app in Hr. destruct Hr as [Hr1 Hr2]. apply rng_child in Hr1.
    rewrite BuilderTree.lenN_map in Hr2.
    destruct (Hsl (c, g) (or_introl eq_refl)) as (Hvu & Hv1 & Hvc & Hvl & Hvt). cbn [fst] in *. fold v in Hvu, Hv1, Hvc, Hvl, Hvt.
    unfold gsum in Hbud. cbn [fold_right snd] in Hbud. fold (gsum rest) in Hbud.
    assert (AP : apre s fl start (kpos + 1) g v).
    { constructor; try assumption. lia. }
    assert (Hslot_ne : forall cg, In cg rest -> N.lxor base (cd (fst cg)) <> v).
    { intros cg Hcg E. apply slot_inj in E.
      - apply Hcn. rewrite <- E. apply in_map. exact Hcg.
      - rewrite Forall_forall in HF. apply (HF cg Hcg).
      - exact Hc. }
    destruct (IHf s fl start (kpos + 1) g v AP Hgf) as [(e & E & Hs)|(s1 & fl1 & T & E & Hs & Q)].
    + left. exists e. rewrite E. split; [apply child_fold_exc|]. cbn [forallb snd]. rewrite Hs. reflexivity.
    + rewrite E. destruct Q as [Q1 Q2 Q3 Q4 Q5 Q6 Q7 Q8 Q9 Q10 Q11 Q12 Q13 Q14 Q15].
      pose proof (li_used1 s fl H) as Hs1.
      assert (Hsl' : forall cg, In cg rest -> let v := N.lxor base (cd (fst cg)) in
                 usedb s1 v = true /\ v <> 1 /\ childless s1 v /\ leafb s1 v = false /\ termb s1 v = false).
      { intros cg Hcg v'. destruct (Hsl cg (or_intror Hcg)) as (A1 & A2 & A3 & A4 & A5). fold v' in A1, A2, A3, A4, A5.
        assert (Hne : v <> v') by (intros E0; apply (Hslot_ne cg Hcg); symmetry; exact E0).
        destruct (fr_used _ _ _ Q4 v' A1) as (B1 & _ & _ & B4). destruct (B4 Hne) as [B5 B6].
        split; [exact B1|]. split; [exact A2|]. split; [apply (childless_fr (eq v) v' s s1 A3 A1 Hne Q4)|]. split; congruence. }
      assert (Hbud' : nU s1 + 256 * gsum rest < 2^62) by lia.
      destruct (IH (start + lenN g) s1 fl1 Q1 Q2 Q3 Hr2 HF ND Hsl' Hbud') as [(e & E' & Hs')|(s' & fl' & cs & E' & Hs' & R1 & R2 & R3 & R4 & R5 & R6 & R7 & R8 & R9 & R10 & R11 & R12)].
      * left. exists e. split; [exact E'|]. cbn [forallb snd]. rewrite Hs'. apply andb_false_r.
      * right. exists s', fl', ((c, T) :: cs). split; [exact E'|]. split; [cbn [forallb snd]; rewrite Hs, Hs'; reflexivity|].
        do 3 (split; [assumption|]).
        assert (Hnodes1 : forall i, In i (nodes_of T) -> usedb s1 i = true) by (intros i Hi; apply Q13; right; exact Hi).
        assert (HTfresh : forall i, In i (nodes_of T) -> ~ slotp base rest i /\ i <> 1).
        { intros i Hi. destruct (Q12 i Hi) as [->|Hiu].
          - split; [|exact Hv1]. intros (cg & Hcg & E0). apply (Hslot_ne cg Hcg). symmetry. exact E0.
          - split; [|intros ->; congruence]. intros (cg & Hcg & ->).
            destruct (Hsl cg (or_intror Hcg)) as (A1 & _). congruence. }
        split; [|split; [|split; [|split; [|split; [|split; [|split; [|split]]]]]]].
        -- apply (fr_trans _ s s1 s' Hs1).
           ++ apply (fr_mono (eq v)); [|exact Q4]. intros i <-. exists (c, g). split; [left; reflexivity|reflexivity].
           ++ apply (fr_mono (slotp base rest)); [|exact R4]. intros i (cg & Hcg & E0). exists cg. split; [right; exact Hcg|exact E0].
        -- unfold gsum. cbn [fold_right snd]. fold (gsum rest). lia.
        -- constructor; [|exact R6]. unfold child_rel. cbn [fst snd]. repeat split; assumption.
        -- constructor; [|exact R7]. cbn [snd]. apply (slay_fr (slotp base rest) s1 s' T Q7 HTfresh R4).
        -- unfold cnodes. cbn [flat_map snd]. fold (cnodes cs). apply BuilderTree.NoDup_app_intro; [exact Q11|exact R8|].
           intros x Hx Hy. destruct (R9 x Hy) as [Hy'|Hy']; [destruct (HTfresh x Hx) as [A _]; apply A; exact Hy'|].
           rewrite (Hnodes1 x Hx) in Hy'. discriminate.
        -- intros i Hi. unfold cnodes in Hi. cbn [flat_map snd] in Hi. fold (cnodes cs) in Hi. apply in_app_or in Hi.
           destruct Hi as [Hi|Hi].
           ++ destruct (Q12 i Hi) as [->|Hiu]; [left; exists (c, g); split; [left; reflexivity|reflexivity]|right; exact Hiu].
           ++ destruct (R9 i Hi) as [(cg & Hcg & E0)|Hiu]; [left; exists cg; split; [right; exact Hcg|exact E0]|].
              right. destruct (usedb s i) eqn:Ei; [|reflexivity]. destruct (fr_used _ _ _ Q4 i Ei) as [B _]. congruence.
        -- intros i. rewrite R10, Q13. unfold cnodes. cbn [flat_map snd]. fold (cnodes cs). rewrite in_app_iff. tauto.
        -- rewrite R11, Q14. cbn [flat_map snd]. rewrite app_assoc. reflexivity.
        -- rewrite R12, Q15. unfold glen. cbn [fold_right snd]. fold (glen rest). lia.
Qed.



(* ------------------------------------------------------------------ *)
(* the pieces of an inner node                                          *)
(* ------------------------------------------------------------------ *)
Lemma GI_alloc s s' : GI s -> (forall i, usedb s' i = usedb s i) -> (forall i, leafb s' i = leafb s i) ->
  (forall i, termb s' i = termb s i) -> used_frame s s' -> bs_sufs s' = bs_sufs s -> GI s'.
Proof.
  intros [G1 G2 G3 G4] Hu Hl Ht Fr Hs. constructor.
  - intros c Hc Hcu. rewrite Hu in *. destruct (Fr c Hcu Hc) as [_ ->]. apply G1; assumption.
  - intros i Hi. rewrite Hu in Hi. rewrite Hl, Ht. apply G2. exact Hi.
  - rewrite Hl, Ht. exact G3.
  - intros sn Hsn. rewrite Hs in Hsn. rewrite Hl. apply G4. exact Hsn.
Qed.
Lemma fr_alloc (R : N -> Prop) s s' : nU s <= nU s' -> (forall i, usedb s' i = usedb s i) ->
  (forall i, leafb s' i = leafb s i) -> (forall i, termb s' i = termb s i) -> used_frame s s' ->
  bs_sufs s' = bs_sufs s -> fr R s s'.
Proof.
  intros Hn Hu Hl Ht Fr Hs. constructor.
  - exact Hn.
  - intros i Hi. split; [rewrite Hu; exact Hi|]. split; [intros H1; apply (Fr i Hi H1)|].
    split; [intros H1 _; apply (Fr i Hi H1)|]. intros _. split; [apply Hl|apply Ht].
  - intros i H1 H2. rewrite Hu in H2. congruence.
  - exists []. split; [rewrite Hs, app_nil_r; reflexivity|intros sn []].
Qed.

Lemma lxor_ge_block n c : c < 256 -> n mod 256 = 0 -> n <= N.lxor n c < n + 256.
Proof. intros Hc Hn. pose proof (lxor_block n c Hc). lia. Qed.

Lemma node_alloc s1 fl u e0 rest : LI l1 s1 fl -> OB s1 fl -> GI s1 -> usedb s1 u = true ->
  (forall ch, In ch (e0 :: rest) -> ch < 256) -> nU s1 + 256 < 2^62 ->
  exists base s2 fl2, xcheck l1 table s1 (e0 :: rest) (shr64 u l1) = Ok base /\
    (if mlen (bs_units s1) <=? base then expand l1 s1 else Ok s1) = Ok s2 /\
    LI l1 s2 fl2 /\ OB s2 fl2 /\ GI s2 /\ nU s1 <= nU s2 <= nU s1 + 256 /\ base < nU s2 /\
    (forall ch, In ch (e0 :: rest) -> In (N.lxor base (cd ch)) fl2) /\
    (forall i, usedb s2 i = usedb s1 i) /\ (forall i, leafb s2 i = leafb s1 i) /\ (forall i, termb s2 i = termb s1 i) /\
    tcount s2 = tcount s1 /\ bs_sufs s2 = bs_sufs s1 /\ used_frame s1 s2.
Proof.
  intros H HO G Hu He Hsm. pose proof (li_sw l1 s1 fl H) as W. pose proof (sw_mod l1 s1 W) as Wm.
  pose proof (usedb_lt l1 s1 u W Hu) as Hun.
  assert (Hlp : u / lsz l1 < nU s1 / lsz l1).
  { destruct (lsz_cases l1 Hl1) as [[_ E]|[_ E]]; rewrite E; lia. }
  destruct (xcheck_spec l1 Hl1 table cd cd_ok s1 fl e0 rest (u / lsz l1) H HO He Hlp) as (base & E & D).
  exists base. rewrite (shr_l1 l1), E. fold (nU s1).
  pose proof (He e0 (or_introl eq_refl)) as He0. pose proof (cd_lt e0 He0) as Hc0.
  destruct D as [D|D].
  - assert (Hb : base < nU s1).
    { destruct (li_mem l1 s1 fl H _ (D e0 (or_introl eq_refl))) as [A _].
      rewrite <- (lxor_cancel_r base (cd e0)). apply lxor_lt; assumption. }
    exists s1, fl. destruct (N.leb_spec (nU s1) base); [lia|].
    split; [reflexivity|]. split; [reflexivity|]. do 3 (split; [assumption|]). split; [lia|]. split; [exact Hb|].
    split; [exact D|]. repeat split; reflexivity.
  - pose proof (lxor_ge_block (nU s1) (cd e0) Hc0 Wm) as Hbb. rewrite <- D in Hbb.
    destruct (N.leb_spec (nU s1) base); [|lia].
    destruct (expand_spec l1 Hl1 s1 fl H HO Hsm) as (s2 & fl2 & E2 & H2 & O2 & Hn2 & Hin2 & _ & Hsf & Hus & Hlf & Htm & Htc & Fr).
    exists s2, fl2. split; [reflexivity|]. split; [exact E2|]. split; [exact H2|]. split; [exact O2|].
    split; [apply (GI_alloc s1 s2 G Hus Hlf Htm Fr Hsf)|]. split; [lia|]. split; [lia|].
    split; [|split; [exact Hus|split; [exact Hlf|split; [exact Htm|split; [exact Htc|split; [exact Hsf|exact Fr]]]]]].
    intros ch Hch. apply Hin2. pose proof (cd_lt ch (He ch Hch)) as Hc.
    pose proof (lxor_block base (cd ch) Hc). pose proof (lxor_block (nU s1) (cd e0) Hc0). rewrite <- D in H3. lia.
Qed.

Lemma node_setbase s2 fl2 u base : LI l1 s2 fl2 -> OB s2 fl2 -> GI s2 -> usedb s2 u = true -> u <> 1 -> base < nU s2 ->
  exists un, set_base (bs_units s2) u base = Ok un /\
    let s2' := with_units s2 un in
    LI l1 s2' fl2 /\ OB s2' fl2 /\ GI s2' /\ fr (eq u) s2 s2' /\ nU s2' = nU s2 /\
    bas s2' u = base /\ (forall i, chk s2' i = chk s2 i) /\ (forall i, i <> u -> bas s2' i = bas s2 i).
Proof.
  intros H HO G Hu Hu1 Hb. pose proof (li_sw l1 s2 fl2 H) as W.
  pose proof (usedb_lt l1 s2 u W Hu) as Hun.
  destruct (set_base_spec (bs_units s2) u base (sw_units l1 s2 W) Hun) as (un & E & L & D & GU).
  exists un. split; [exact E|]. intros s2'.
  assert (Hk : forall i, snd (uval un i) = chk s2 i).
  { intros i. rewrite GU. destruct (N.eqb_spec i u) as [->|]; reflexivity. }
  assert (Hbs : forall i, i <> u -> fst (uval un i) = bas s2 i).
  { intros i Hi. rewrite GU. destruct (N.eqb_spec i u); [contradiction|reflexivity]. }
  assert (Hbu : fst (uval un u) = base) by (rewrite GU, N.eqb_refl; reflexivity).
  destruct (local_step s2 fl2 u un (bs_leaves s2) (bs_terms s2) (bs_sufs s2) [] H HO G Hu Hu1 D L Hk Hbs)
    as (A1 & A2 & A3 & A4 & A5).
  - rewrite Hbu. exact Hb.
  - apply (sw_lv l1 s2 W).
  - apply (sw_tm l1 s2 W).
  - intros i _. split; reflexivity.
  - symmetry. apply app_nil_r.
  - intros sn [].
  - intros X. contradiction.
  - intros X. exact X.
  - split; [exact A1|]. split; [exact A2|]. split; [exact A3|]. split; [exact A4|]. split; [exact A5|].
    split; [exact Hbu|]. split; [exact Hk|exact Hbs].
Qed.

Lemma lay_chk_in n b c us lf tm sx t : lay n b c us lf tm sx cd t ->
  forall v, In v (nodes_of t) -> v <> root_of t -> In (c v) (nodes_of t).
Proof.
  induction t as [u s|u tmf cs IH] using tree_ind2; intros HL v Hv Hne.
  - cbn in Hv. destruct Hv as [<-|[]]. cbn in Hne. contradiction.
  - apply lay_node in HL. destruct HL as (_ & _ & _ & _ & _ & _ & _ & _ & HF).
    rewrite nodes_of_node in *. cbn [root_of] in Hne. destruct Hv as [<-|Hv]; [contradiction|].
    apply in_flat_map in Hv. destruct Hv as (xc & Hxc & Hv).
    rewrite Forall_forall in IH, HF. destruct (HF xc Hxc) as (Hr & Hk & HLc).
    destruct (N.eq_dec v (root_of (snd xc))) as [->|Hn].
    + left. symmetry. exact Hk.
    + right. apply in_flat_map. exists xc. split; [exact Hxc|]. apply (IH xc Hxc HLc v Hv Hn).
Qed.



Lemma cr_fst base gs cs : Forall2 (child_rel base) gs cs -> map fst cs = map fst gs.
Proof. induction 1 as [|cg xc gs cs (H1 & _) _ IH]; [reflexivity|]. cbn [map]. rewrite H1, IH. reflexivity. Qed.
Lemma cr_keys base gs cs : Forall2 (child_rel base) gs cs ->
  flat_map (fun xc => map (cons (fst xc)) (keys_of (snd xc))) cs = ungroup gs.
Proof.
  induction 1 as [|cg xc gs cs (H1 & _ & H3 & _) _ IH]; [reflexivity|].
  unfold ungroup. cbn [flat_map]. fold (ungroup gs). rewrite H1, H3, IH. reflexivity.
Qed.
Lemma cr_min base gs cs : Forall2 (child_rel base) gs cs -> Forall (fun cg => snd cg <> []) gs ->
  forallb (fun xc => (1 <=? nkeys_of (snd xc)) && minimal (snd xc)) cs = true.
Proof.
  induction 1 as [|cg xc gs cs (H1 & _ & H3 & H4 & _) _ IH]; intros HF; [reflexivity|].
  apply Forall_cons_iff in HF. destruct HF as [Hne HF]. cbn [forallb]. rewrite IH by exact HF. rewrite H4.
  rewrite nkeys_len, H3. destruct (snd cg) as [|k g]; [contradiction|]. rewrite BuilderKeys.lenN_cons.
  destruct (N.leb_spec 1 (lenN g + 1)); [reflexivity|lia].
Qed.
Lemma cr_depth base gs cs M : Forall2 (child_rel base) gs cs -> Forall (fun cg => maxlen (snd cg) + 1 <= M) gs ->
  (fold_right (fun xc acc => Nat.max (depth (snd xc)) acc) 0%nat cs <= N.to_nat M)%nat.
Proof.
  induction 1 as [|cg xc gs cs (_ & _ & _ & _ & H5) _ IH]; intros HF; [cbn; lia|].
  apply Forall_cons_iff in HF. destruct HF as [Hm HF]. cbn [fold_right]. specialize (IH HF). lia.
Qed.
Lemma cr_in base gs cs : Forall2 (child_rel base) gs cs ->
  (forall cg, In cg gs -> In (N.lxor base (cd (fst cg))) (cnodes cs)) /\
  (forall xc, In xc cs -> exists cg, In cg gs /\ fst cg = fst xc /\ root_of (snd xc) = N.lxor base (cd (fst cg))).
Proof.
  induction 1 as [|cg xc gs cs (H1 & H2 & _) _ [IH1 IH2]]; [split; intros ? []|]. split.
  - intros cg' [<-|Hcg]; unfold cnodes; cbn [flat_map]; apply in_or_app.
    + left. rewrite <- H2. apply root_in_nodes.
    + right. apply IH1. exact Hcg.
  - intros xc' [<-|Hxc].
    + exists cg. split; [left; reflexivity|]. split; [symmetry; exact H1|exact H2].
    + destruct (IH2 xc' Hxc) as (cg' & A1 & A2). exists cg'. split; [right; exact A1|exact A2].
Qed.
Lemma cnodes_in cs i : In i (cnodes cs) <-> exists xc, In xc cs /\ In i (nodes_of (snd xc)).
Proof. unfold cnodes. apply in_flat_map. Qed.



Lemma node_spec f : ArrSpec f -> forall s1 fl beg1 kpos ss1 u (tm : bool),
  LI l1 s1 fl -> OB s1 fl -> GI s1 -> rng keys beg1 kpos ss1 -> ss1 <> [] ->
  Forall (fun k => bytes_ok k = true) ss1 ->
  usedb s1 u = true -> u <> 1 -> childless s1 u -> leafb s1 u = false -> termb s1 u = tm ->
  (tm = true \/ 2 <= lenN ss1) ->
  nU s1 + 256 * msum ss1 < 2^62 -> (N.to_nat (maxlen ss1) < S f)%nat ->
  (exists e, arrange_node f s1 beg1 (beg1 + lenN ss1) kpos u = Exc e /\
             (hd [] ss1 = [] \/ strictly_sorted ss1 = false)) \/
  (exists s' fl' cs, arrange_node f s1 beg1 (beg1 + lenN ss1) kpos u = Ok s' /\
     strictly_sorted ss1 = true /\ hd [] ss1 <> [] /\
     LI l1 s' fl' /\ OB s' fl' /\ GI s' /\ fr (eq u) s1 s' /\ nU s' <= nU s1 + 256 * msum ss1 /\
     slay s' (TNode u tm cs) /\
     flat_map (fun xc => map (cons (fst xc)) (keys_of (snd xc))) cs = ss1 /\
     minimal (TNode u tm cs) = true /\ (depth (TNode u tm cs) <= S (N.to_nat (maxlen ss1)))%nat /\
     NoDup (u :: cnodes cs) /\ (forall i, In i (cnodes cs) -> usedb s1 i = false) /\
     (forall i, usedb s' i = true <-> usedb s1 i = true \/ In i (cnodes cs)) /\
     bs_sufs s' = bs_sufs s1 ++ flat_map (fun xc => tsufs (snd xc)) cs /\
     tcount s' = tcount s1 + lenN ss1).
Proof.
  intros IHf s1 fl beg1 kpos ss1 u tm H HO G Hr Hne Hby Hu Hu1 Hcl Hlf Htm Hmin Hbud Hfuel.
  pose proof (li_sw l1 s1 fl H) as W. pose proof (li_used1 s1 fl H) as Hs1u1.
  destruct ss1 as [|b0 t1]; [contradiction|]. cbn [hd].
  unfold arrange_node.
  destruct (rng_key keys beg1 kpos (b0 :: t1) 0 Hr) as (kb & Ekb & Hkl & Hks); [cbn; lia|].
  rewrite N.add_0_r in Ekb. cbn [nth] in Hks. rewrite Ekb. cbn [bind].
  destruct (key_len_suffix kpos kb Hkl) as [_ Ele]. rewrite Ele, Hks.
  destruct b0 as [|c0 k'].
  { left. exists NotUnique. split; [reflexivity|]. left. reflexivity. }
  rewrite (key_char_suffix kpos kb c0 k' Hks). cbn [bind].
  match goal with |- context[scan_edges _ ?n] => replace n with (length t1) end.
  2:{ rewrite BuilderKeys.lenN_cons. unfold lenN, key. clear. lia. }
  rewrite (scan_edges_spec keys kpos t1 (beg1 + 1) c0 beg1 [] (rng_tail _ _ _ _ _ Hr)).
  destruct (group c0 t1) as [[g gs']|] eqn:Egr.
  2:{ left. exists NotSorted. split; [reflexivity|]. right. apply groups_none_unsorted. cbn [groups]. rewrite Egr. reflexivity. }
  match goal with |- context[strictly_sorted ?l] => set (ss1 := l) in * end.
  pose (gs := ((c0, k' :: g) :: gs' : list (N * list key))).
  assert (Egs : groups ss1 = Some gs) by (unfold ss1; cbn [groups]; rewrite Egr; reflexivity).
  cbn [rev app bind].
  assert (Erng : (c0, beg1, beg1 + 1 + lenN g) :: index_ranges (beg1 + 1 + lenN g) gs' = index_ranges beg1 gs).
  { unfold gs. cbn [index_ranges fst snd]. rewrite BuilderKeys.lenN_cons.
    replace (beg1 + (lenN g + 1)) with (beg1 + 1 + lenN g) by lia. reflexivity. }
  rewrite Erng. rewrite index_ranges_spec.
  (* facts about the groups *)
  pose proof (groups_ungroup _ _ Egs) as Gun. destruct (groups_nonempty _ _ Egs) as [_ Gne].
  pose proof (groups_asc _ _ Egs) as Gasc. pose proof (groups_bytes _ _ Egs Hby) as Gby.
  pose proof (groups_msum _ _ Egs) as Gms. pose proof (groups_maxlen _ _ Egs) as Gml.
  pose proof (groups_lengths _ _ Egs) as Gln. pose proof (groups_sorted c0 k' t1) as Gso. change (strictly_sorted ss1 = match groups ss1 with None => false | Some gs0 => forallb (fun cg => strictly_sorted (snd cg)) gs0 end) in Gso. rewrite Egs in Gso.
  fold (gsum gs) in Gms. fold (glen gs) in Gln.
  assert (Hlen1 : 1 <= lenN ss1) by (unfold ss1; rewrite BuilderKeys.lenN_cons; lia).
  assert (Hms1 : 1 <= msum ss1) by (unfold ss1; rewrite msum_cons; lia).
  assert (He : forall ch, In ch (map fst gs) -> ch < 256).
  { intros ch Hch. apply in_map_iff in Hch. destruct Hch as (cg & <- & Hcg). rewrite Forall_forall in Gby. apply (Gby cg Hcg). }
  change (map fst gs) with (c0 :: map fst gs') in *.
  (* allocation *)
  destruct (node_alloc s1 fl u c0 (map fst gs') H HO G Hu He) as
    (base & s2 & fl2 & Ex & E2 & H2 & O2 & G2 & Hn2 & Hb2 & Hsl2 & Hus2 & Hlf2 & Htm2 & Htc2 & Hsf2 & Fr2); [lia|].
  rewrite Ex. cbn [bind]. rewrite E2. cbn [bind].
  change (c0 :: map fst gs') with (map fst gs) in *.
  assert (Hu2 : usedb s2 u = true) by (rewrite Hus2; exact Hu).
  destruct (node_setbase s2 fl2 u base H2 O2 G2 Hu2 Hu1 Hb2) as (un & Eun & R).
  rewrite Eun. cbn [bind]. set (s2' := with_units s2 un) in *.
  destruct R as (H2' & O2' & G2' & F2' & Hn2' & Hbu' & Hk2' & Hb2').
  assert (Hus2' : forall i, usedb s2' i = usedb s1 i) by (intros i; rewrite <- Hus2; reflexivity).
  (* taking the children *)
  destruct (take_fold base u (map fst gs) s2' fl2 H2' O2' G2') as
    (s3 & fl3 & E3 & H3 & O3 & G3 & F3 & Hn3 & SF3 & Hus3 & Hk3 & UF3).
  { rewrite Hus2'. exact Hu. }
  { exact Hu1. }
  { apply asc_NoDup. exact Gasc. }
  { intros ch Hch. split; [apply He; exact Hch|apply Hsl2; exact Hch]. }
  rewrite E3. cbn [bind].
  (* the slots *)
  assert (Hslot : forall cg, In cg gs -> let v := N.lxor base (cd (fst cg)) in
                  In v fl2 /\ usedb s1 v = false /\ usedb s3 v = true /\ v <> 1 /\ v <> u).
  { intros cg Hcg v. assert (Hin : In v fl2) by (apply Hsl2; apply in_map; exact Hcg).
    destruct (li_mem l1 s2 fl2 H2 v Hin) as [_ Hvu]. rewrite Hus2 in Hvu.
    split; [exact Hin|]. split; [exact Hvu|]. split; [|split].
    - apply Hus3. right. exists (fst cg). split; [apply in_map; exact Hcg|reflexivity].
    - intros E. rewrite E in Hvu. congruence.
    - intros E. rewrite E in Hvu. congruence. }
  assert (Hflags3 : forall i, leafb s3 i = leafb s1 i /\ termb s3 i = termb s1 i).
  { intros i. destruct SF3 as (A1 & A2 & _). unfold leafb, termb. rewrite A1, A2.
    split; [apply Hlf2|apply Htm2]. }
  assert (Hused3 : forall i, usedb s3 i = true <-> usedb s1 i = true \/ slotp base gs i).
  { intros i. rewrite Hus3, Hus2'. split; intros [A|A]; auto; right.
    - destruct A as (ch & Hch & ->). apply in_map_iff in Hch. destruct Hch as (cg & <- & Hcg). exists cg. auto.
    - destruct A as (cg & Hcg & ->). exists (fst cg). split; [apply in_map; exact Hcg|reflexivity]. }
  assert (Hchk3 : forall i, usedb s1 i = true -> i <> 1 -> chk s3 i = chk s1 i).
  { intros i Hi Hi1. destruct (UF3 i) as [_ ->]; [rewrite Hus2'; exact Hi|exact Hi1|].
    rewrite Hk2'. apply (Fr2 i Hi Hi1). }
  (* the children *)
  destruct (children_fold f kpos base IHf gs beg1 s3 fl3 H3 O3 G3) as
    [(e & E4 & Hs4)|(s' & fl' & cs & E4 & Hs4 & R1 & R2 & R3 & R4 & R5 & R6 & R7 & R8 & R9 & R10 & R11 & R12)].
  { rewrite Gun. exact Hr. }
  { rewrite Forall_forall in *. intros cg Hcg. destruct (Gby cg Hcg) as [A1 A2].
    split; [exact A1|]. split; [apply (Gne cg Hcg)|]. split; [exact A2|]. specialize (Gml cg Hcg). cbv beta in Gml. lia. }
  { apply asc_NoDup. exact Gasc. }
  { intros cg Hcg. cbv zeta. destruct (Hslot cg Hcg) as (A1 & A2 & A3 & A4 & A5). cbv zeta in A1, A2, A3, A4, A5.
    split; [exact A3|]. split; [exact A4|]. split; [|].
    - intros c Hc1 Hcu. apply Hused3 in Hcu. destruct Hcu as [Hcu|(cg' & Hcg' & ->)].
      + rewrite (Hchk3 c Hcu Hc1). intros E. pose proof (g_cu s1 G c Hc1 Hcu) as X. rewrite E in X. congruence.
      + rewrite Hk3 by (apply in_map; exact Hcg'). intros E. apply A5. symmetry. exact E.
    - destruct (Hflags3 (N.lxor base (cd (fst cg)))) as [-> ->]. apply (g_clean s1 G _ A2). }
  { rewrite Hn3, Hn2'. lia. }
  - left. exists e. split; [exact E4|]. right. rewrite Gso. exact Hs4.
  - right. exists s', fl', cs. split; [exact E4|]. split; [rewrite Gso; exact Hs4|]. split; [discriminate|].
    do 3 (split; [assumption|]).
    destruct (cr_in base gs cs R6) as [Cin1 Cin2]. pose proof (cr_fst base gs cs R6) as Cfst.
    assert (Hcn_fresh : forall i, In i (cnodes cs) -> usedb s1 i = false).
    { intros i Hi. destruct (R9 i Hi) as [(cg & Hcg & ->)|Hi3]; [apply (Hslot cg Hcg)|].
      destruct (usedb s1 i) eqn:Ei; [|reflexivity]. assert (X : usedb s3 i = true) by (apply Hused3; left; exact Ei). congruence. }
    assert (Hu_notin : ~ In u (cnodes cs)) by (intros X; apply Hcn_fresh in X; congruence).
    assert (Hu3 : usedb s3 u = true) by (apply Hused3; left; exact Hu).
    assert (Hnslot : ~ slotp base gs u) by (intros (cg & Hcg & E); apply (Hslot cg Hcg); symmetry; exact E).
    assert (FR : fr (eq u) s1 s').
    { assert (F13 : fr (eq u) s1 s3).
      { apply (fr_trans _ s1 s2 s3 Hs1u1); [apply fr_alloc; try assumption; lia|].
        apply (fr_trans _ s2 s2' s3); [rewrite Hus2; exact Hs1u1|exact F2'|exact F3]. }
      apply (fr_child (eq u) (slotp base gs) s1 s3 s' Hs1u1 F13); [|exact R4].
      intros c (cg & Hcg & ->). destruct (Hslot cg Hcg) as (_ & A2 & A3 & _). split; assumption. }
    split; [exact FR|]. split; [rewrite Hn3, Hn2' in R5; lia|].
    destruct (fr_used _ _ _ R4 u Hu3) as (Uu & _ & Ub & Uf). specialize (Ub Hu1 Hnslot). destruct (Uf Hnslot) as [Ul Ut].
    assert (Hbas' : bas s' u = base).
    { rewrite Ub. destruct (UF3 u) as [-> _]; [rewrite Hus2'; exact Hu|exact Hu1|exact Hbu']. }
    split.
    { (* the layout of the node *)
      apply lay_node. pose proof (li_sw l1 s' fl' R1) as W'.
      split; [apply (usedb_lt l1 s' u W' Uu)|]. split; [exact Uu|].
      split; [rewrite Ul; destruct (Hflags3 u) as [-> _]; exact Hlf|].
      split; [rewrite Ut; destruct (Hflags3 u) as [_ ->]; exact Htm|].
      rewrite Cfst. split; [exact Gasc|]. split; [exact He|]. rewrite Hbas'.
      assert (Hb' : base < nU s').
      { pose proof (fr_n _ _ _ R4). rewrite Hn3, Hn2' in H0. lia. }
      split; [intros x Hx; apply lxor_lt; [apply cd_lt; exact Hx|apply (sw_mod l1 s' W')|exact Hb']|].
      split.
      - intros x Hx Hxn Hc1 Hcu. set (c := N.lxor base (cd x)) in *.
        apply R10 in Hcu. destruct Hcu as [Hcu|Hcu].
        + destruct (fr_used _ _ _ R4 c Hcu) as (_ & X & _). rewrite (X Hc1).
          apply Hused3 in Hcu. destruct Hcu as [Hcu|(cg & Hcg & E)].
          * rewrite (Hchk3 c Hcu Hc1). apply Hcl; assumption.
          * exfalso. apply Hxn. apply slot_inj in E; [|exact Hx|apply He; apply in_map; exact Hcg].
            rewrite E. apply in_map. exact Hcg.
        + apply cnodes_in in Hcu. destruct Hcu as (xc & Hxc & Hcin).
          rewrite Forall_forall in R7. pose proof (R7 xc Hxc) as HLc.
          destruct (Cin2 xc Hxc) as (cg & Hcg & Ef & Er).
          destruct (N.eq_dec c (root_of (snd xc))) as [Ec|Ec].
          * exfalso. apply Hxn. rewrite Er in Ec. apply slot_inj in Ec; [|exact Hx|apply He; apply in_map; exact Hcg].
            rewrite Ec. apply in_map. exact Hcg.
          * intros E. apply Hu_notin. apply cnodes_in. exists xc. split; [exact Hxc|]. rewrite <- E.
            apply (lay_chk_in _ _ _ _ _ _ _ _ HLc c Hcin Ec).
      - rewrite Forall_forall in *. intros xc Hxc. destruct (Cin2 xc Hxc) as (cg & Hcg & Ef & Er).
        rewrite <- Ef. split; [exact Er|]. split; [|apply R7; exact Hxc].
        rewrite Er. destruct (Hslot cg Hcg) as (_ & _ & A3 & A4 & _).
        destruct (fr_used _ _ _ R4 _ A3) as (_ & X & _). rewrite (X A4). apply Hk3. apply in_map. exact Hcg. }
    split; [rewrite (cr_keys base gs cs R6); exact Gun|].
    split.
    { rewrite minimal_node, nkeys_len, keys_of_node, (cr_keys base gs cs R6), Gun, BuilderKeys.lenN_app.
      rewrite (cr_min base gs cs R6 Gne), andb_true_r.
      destruct Hmin as [-> |Hmin]; [change (lenN [[]]) with 1|destruct tm; [change (lenN [[]]) with 1|change (lenN (@nil key)) with 0]];
        apply N.leb_le; lia. }
    split.
    { rewrite depth_node. pose proof (cr_depth base gs cs (maxlen ss1) R6 Gml). lia. }
    split; [constructor; assumption|]. split; [exact Hcn_fresh|].
    split.
    { intros i. rewrite R10, Hused3. split; [intros [[A|A]|A]; auto|intros [A|A]; auto].
      right. destruct A as (cg & Hcg & ->). apply Cin1. exact Hcg. }
    split.
    { rewrite R11. destruct SF3 as (_ & _ & ->). unfold s2', with_units; cbn [bs_sufs]. rewrite Hsf2. reflexivity. }
    rewrite R12, Gln. f_equal. destruct SF3 as (_ & A & _). unfold tcount. rewrite A.
    unfold s2', with_units; cbn [bs_terms]. exact Htc2.
Qed.



(* ------------------------------------------------------------------ *)
(* arrange                                                              *)
(* ------------------------------------------------------------------ *)
Lemma beg_end_eqb beg (ss t : list key) s0 : ss = s0 :: t ->
  (beg + 1 =? beg + lenN ss) = match t with [] => true | _ => false end.
Proof.
  intros ->. rewrite BuilderKeys.lenN_cons. destruct t as [|x t].
  - change (lenN (@nil key)) with 0. apply N.eqb_eq. lia.
  - rewrite BuilderKeys.lenN_cons. apply N.eqb_neq. lia.
Qed.

Theorem arrange_spec : forall fuel, ArrSpec fuel.
Proof.
  induction fuel as [|f IHf]; intros s fl beg kpos ss u AP Hfuel; [lia|].
  destruct AP as [H HO G Hr Hne Hby Hu Hu1 Hcl Hlf Htm Hbud].
  pose proof (li_sw l1 s fl H) as W. pose proof (usedb_lt l1 s u W Hu) as Hun.
  rewrite arrange_unfold.
  destruct ss as [|s0 t] eqn:Ess; [contradiction|]. rewrite <- Ess in *.
  destruct (rng_key keys beg kpos ss 0 Hr) as (k0 & Ek0 & Hkl & Hks); [rewrite Ess; cbn; lia|].
  rewrite N.add_0_r in Ek0. rewrite Ess in Hks. cbn [nth] in Hks. rewrite Ek0. cbn [bind].
  destruct (key_len_suffix kpos k0 Hkl) as [Eeq Ele]. rewrite Eeq, Hks.
  rewrite (beg_end_eqb beg ss t s0 Ess).
  assert (Hunits : mdef (bs_units s) /\ mlen (bs_units s) = nU s /\
                   (forall i, snd (uval (bs_units s) i) = chk s i) /\
                   (forall i, i <> u -> fst (uval (bs_units s) i) = bas s i) /\ fst (uval (bs_units s) u) < nU s).
  { split; [apply (sw_units l1 s W)|]. split; [reflexivity|]. split; [reflexivity|]. split; [reflexivity|].
    apply (sw_rng l1 s W u Hun). }
  destruct Hunits as (Ud & Ul & Uk & Ub & Uu).
  assert (Hnotin : ~ In u (map snd (bs_sufs s))).
  { intros Hin. apply in_map_iff in Hin. destruct Hin as (sn & E & Hsn). pose proof (g_sfx s G sn Hsn) as X. rewrite E in X. congruence. }
  assert (Hmsum : msum ss = lenN s0 + 1 + msum t) by (rewrite Ess; apply msum_cons).
  assert (Hmaxl : maxlen ss = N.max (lenN s0) (maxlen t)) by (rewrite Ess; apply maxlen_cons).
  pose proof Hby as Hby'. rewrite Ess in Hby'. apply Forall_cons_iff in Hby'. destruct Hby' as [Hby0 Hbyt].
  destruct s0 as [|c k'].
  - (* the first key ends here: terminal *)
    destruct (term_set s u W Hun Htm) as (tm & Etm & Wtm & Btm & Ctm). rewrite Etm. cbn [bind].
    cbn [bs_units bs_leaves bs_terms bs_useds bs_heads bs_sufs].
    destruct t as [|b0 t'].
    + (* a leaf with the empty suffix *)
      destruct (set_base_spec (bs_units s) u 0 Ud Hun) as (un & Eun & Lun & Dun & Gun).
      rewrite Eun. cbn [bind].
      destruct (leaf_set s u W Hun) as (lv & Elv & Wlv & Blv). rewrite Elv. cbn [bind].
      right. eexists. exists fl, (TLeaf u []). split; [reflexivity|]. split; [rewrite Ess; reflexivity|].
      assert (Hk : forall i, snd (uval un i) = chk s i).
      { intros i. rewrite Gun. destruct (N.eqb_spec i u) as [->|]; reflexivity. }
      assert (Hbs : forall i, i <> u -> fst (uval un i) = bas s i).
      { intros i Hi. rewrite Gun. destruct (N.eqb_spec i u); [contradiction|reflexivity]. }
      assert (Hbu : fst (uval un u) = 0) by (rewrite Gun, N.eqb_refl; reflexivity).
      destruct (local_step s fl u un lv tm (bs_sufs s) [] H HO G Hu Hu1 Dun Lun Hk Hbs) as (A1 & A2 & A3 & A4 & A5);
        try assumption.
      * rewrite Hbu. lia.
      * intros i Hi. rewrite Blv, Btm. destruct (N.eqb_spec i u); [contradiction|]. split; reflexivity.
      * symmetry. apply app_nil_r.
      * intros sn [].
      * intros X. contradiction.
      * intros _. rewrite Blv, N.eqb_refl. reflexivity.
      * set (s' := mkBs un lv tm (bs_useds s) (bs_heads s) (bs_sufs s)) in *.
        constructor; try assumption.
        -- rewrite A5. lia.
        -- reflexivity.
        -- unfold slay. cbn [lay]. rewrite A5. split; [exact Hun|]. split; [exact Hu|].
           split; [unfold leafb, s'; cbn [bs_leaves]; rewrite Blv, N.eqb_refl; reflexivity|].
           split; [unfold termb, s'; cbn [bs_terms]; rewrite Btm, N.eqb_refl; reflexivity|].
           split; [unfold sfx, s'; cbn [bs_sufs]; apply sfx_of_notin; exact Hnotin|].
           intros _. exact Hbu.
        -- rewrite Ess. reflexivity.
        -- cbn. lia.
        -- cbn. constructor; [intros []|constructor].
        -- intros i [<-|[]]. left. reflexivity.
        -- intros i. change (usedb s' i) with (usedb s i). split; [auto|]. intros [X|[<-|[]]]; assumption.
        -- unfold s'; cbn [bs_sufs tsufs]. symmetry. apply app_nil_r.
        -- unfold tcount at 1, s'; cbn [bs_terms]. rewrite Ctm, Ess. reflexivity.
    + (* terminal inner node *)
      set (s' := mkBs (bs_units s) (bs_leaves s) tm (bs_useds s) (bs_heads s) (bs_sufs s)).
      destruct (local_step s fl u (bs_units s) (bs_leaves s) tm (bs_sufs s) [] H HO G Hu Hu1 Ud Ul Uk Ub Uu) as (A1 & A2 & A3 & A4 & A5);
        try assumption.
      * apply (sw_lv l1 s W).
      * intros i Hi. rewrite Btm. destruct (N.eqb_spec i u); [contradiction|]. split; reflexivity.
      * symmetry. apply app_nil_r.
      * intros sn [].
      * intros X. contradiction.
      * intros X. exact X.
      * fold s' in A1, A2, A3, A4, A5. cbn [bind].
        assert (Eend : beg + lenN ss = beg + 1 + lenN (b0 :: t')) by (rewrite Ess, BuilderKeys.lenN_cons; lia).
        rewrite Eend.
        assert (Hr' : rng keys (beg + 1) kpos (b0 :: t')) by (apply (rng_tail keys beg kpos [] (b0 :: t')); rewrite <- Ess; exact Hr).
        assert (P1 : b0 :: t' <> []) by discriminate.
        assert (P2 : usedb s' u = true) by exact Hu.
        assert (P3 : childless s' u) by exact Hcl.
        assert (P4 : leafb s' u = false) by exact Hlf.
        assert (P5 : termb s' u = true) by (unfold termb, s'; cbn [bs_terms]; rewrite Btm, N.eqb_refl; reflexivity).
        assert (P6 : true = true \/ 2 <= lenN (b0 :: t')) by (left; reflexivity).
        assert (P7 : nU s' + 256 * msum (b0 :: t') < 2 ^ 62) by (rewrite A5; change (lenN (@nil N)) with 0 in Hmsum; lia).
        assert (P8 : (N.to_nat (maxlen (b0 :: t')) < S f)%nat) by (change (lenN (@nil N)) with 0 in Hmaxl; lia).
        destruct (node_spec f IHf s' fl (beg + 1) kpos (b0 :: t') u true A1 A2 A3 Hr' P1 Hbyt P2 Hu1 P3 P4 P5 P6 P7 P8) as
          [(e & E & Hs)|(s'' & fl' & cs & E & Hs & Hhd & R1 & R2 & R3 & R4 & R5 & R6 & R7 & R8 & R9 & R10 & R11 & R12 & R13 & R14)].
        -- left. exists e. split; [exact E|]. rewrite Ess, sorted_nil_head.
           destruct Hs as [Hs|Hs]; [cbn [hd] in Hs; subst b0; reflexivity|rewrite Hs; apply andb_false_r].
        -- right. exists s'', fl', (TNode u true cs). split; [exact E|].
           split; [rewrite Ess, sorted_nil_head, Hs; cbn [hd] in Hhd; destruct b0; [contradiction|reflexivity]|].
           apply NoDup_cons_iff in R10. destruct R10 as [R10a R10b].
           constructor; try assumption.
           ++ apply (fr_trans _ s s' s'' (li_used1 s fl H) A4 R4).
           ++ rewrite A5 in R5. change (lenN (@nil N)) with 0 in Hmsum. lia.
           ++ reflexivity.
           ++ rewrite keys_of_node, R7, Ess. reflexivity.
           ++ change (lenN (@nil N)) with 0 in Hmaxl. lia.
           ++ rewrite nodes_of_node. constructor; assumption.
           ++ intros i Hi. rewrite nodes_of_node in Hi. destruct Hi as [<-|Hi]; [left; reflexivity|right; apply (R11 i Hi)].
           ++ intros i. rewrite R12, nodes_of_node. change (usedb s' i) with (usedb s i).
              split; [intros [X|X]; [left; exact X|right; right; exact X]|intros [X|[<-|X]]; [left; exact X|left; exact Hu|right; exact X]].
           ++ rewrite R13, tsufs_node. reflexivity.
           ++ rewrite R14. unfold tcount at 1, s'; cbn [bs_terms]. rewrite Ctm, Ess, !BuilderKeys.lenN_cons. lia.
  - destruct t as [|b0 t'].
    + (* a leaf with a suffix *)
      rewrite Ele, Hks.
      destruct (term_set s u W Hun Htm) as (tm & Etm & Wtm & Btm & Ctm). rewrite Etm. cbn [bind].
      destruct (leaf_set s u W Hun) as (lv & Elv & Wlv & Blv). rewrite Elv. cbn [bind].
      cbn [tail_set_suffix bind].
      right. eexists. exists fl, (TLeaf u (c :: k')). split; [reflexivity|]. split; [rewrite Ess; reflexivity|].
      destruct (local_step s fl u (bs_units s) lv tm (bs_sufs s ++ [(c :: k', u)]) [(c :: k', u)] H HO G Hu Hu1 Ud Ul Uk Ub Uu)
        as (A1 & A2 & A3 & A4 & A5); try assumption.
      * intros i Hi. rewrite Blv, Btm. destruct (N.eqb_spec i u); [contradiction|]. split; reflexivity.
      * reflexivity.
      * intros sn [<-|[]]. reflexivity.
      * intros _. rewrite Blv, N.eqb_refl. reflexivity.
      * intros _. rewrite Blv, N.eqb_refl. reflexivity.
      * constructor; try assumption.
        -- change (nU s <= nU s + 256 * msum ss). lia.
        -- reflexivity.
        -- unfold slay. cbn [lay]. split; [exact Hun|]. split; [exact Hu|].
           split; [unfold leafb; cbn [bs_leaves]; rewrite Blv, N.eqb_refl; reflexivity|].
           split; [unfold termb; cbn [bs_terms]; rewrite Btm, N.eqb_refl; reflexivity|].
           split; [unfold sfx; cbn [bs_sufs]; apply sfx_of_snoc|].
           intros X. discriminate.
        -- rewrite Ess. reflexivity.
        -- reflexivity.
        -- cbn. lia.
        -- cbn. constructor; [intros []|constructor].
        -- intros i [<-|[]]. left. reflexivity.
        -- intros i. match goal with |- usedb ?x i = true <-> _ => change (usedb x i) with (usedb s i) end.
           split; [auto|]. intros [X|[<-|[]]]; assumption.
        -- reflexivity.
        -- unfold tcount at 1; cbn [bs_terms]. rewrite Ctm, Ess. reflexivity.
    + (* a plain inner node *)
      cbn [bind].
      assert (P6 : false = true \/ 2 <= lenN ss) by (right; rewrite Ess, !BuilderKeys.lenN_cons; lia).
      destruct (node_spec f IHf s fl beg kpos ss u false H HO G Hr Hne Hby Hu Hu1 Hcl Hlf Htm P6 Hbud Hfuel) as
        [(e & E & Hs)|(s'' & fl' & cs & E & Hs & Hhd & R1 & R2 & R3 & R4 & R5 & R6 & R7 & R8 & R9 & R10 & R11 & R12 & R13 & R14)].
      * left. exists e. split; [exact E|]. destruct Hs as [Hs|Hs]; [rewrite Ess in Hs; discriminate|exact Hs].
      * right. exists s'', fl', (TNode u false cs). split; [exact E|]. split; [exact Hs|].
        apply NoDup_cons_iff in R10. destruct R10 as [R10a R10b].
        constructor; try assumption.
        -- reflexivity.
        -- rewrite keys_of_node, R7. reflexivity.
        -- rewrite nodes_of_node. constructor; assumption.
        -- intros i Hi. rewrite nodes_of_node in Hi. destruct Hi as [<-|Hi]; [left; reflexivity|right; apply (R11 i Hi)].
        -- intros i. rewrite R12, nodes_of_node.
           split; [intros [X|X]; [left; exact X|right; right; exact X]|intros [X|[<-|X]]; [left; exact X|left; exact Hu|right; exact X]].
        -- rewrite R13, tsufs_node. reflexivity.
Qed.


End Arrange.
(* PA *)
Print Assumptions arrange_spec.
