(* BuilderDefs.v: definitions shared by the builder proof (BuilderKeys / BuilderTree / BuilderAlloc /
   BuilderArrange / BuilderFacts).  No proofs here. *)
From X Require Import Base Arr Consts BitToolsSpec BitToolsGen BitVector CompactVector Dac Tail Trie Spec Iface Wf Builder.
Local Open Scope N_scope.

(* ---------------- key ranges as lists of remaining suffixes ---------------- *)
(* [group ch l]: continue the run of keys whose first byte is [ch] through [l]; returns the tails of the keys
   that still belong to the current run and the following runs (byte, tails).  None = the scan raises
   NotSorted (an empty key, or a first byte below the current one). Mirrors scan_edges. *)
Fixpoint group (ch : N) (l : list key) : option (list key * list (N * list key)) :=
  match l with
  | [] => Some ([], [])
  | k :: t =>
    match k with
    | [] => None
    | c :: k' =>
      if c =? ch then match group ch t with Some (g, gs) => Some (k' :: g, gs) | None => None end
      else if c <? ch then None
      else match group c t with Some (g, gs) => Some ([], (c, k' :: g) :: gs) | None => None end
    end
  end.
Definition groups (l : list key) : option (list (N * list key)) :=
  match l with
  | (c :: k) :: t => match group c t with Some (g, gs) => Some ((c, k :: g) :: gs) | None => None end
  | _ => None
  end.
Definition ungroup (gs : list (N * list key)) : list key :=
  flat_map (fun cg => map (cons (fst cg)) (snd cg)) gs.
(* size measure (= IfaceBuild.total_bytes) and maximal length *)
Definition msum (l : list key) : N := fold_right (fun k acc => lenN k + 1 + acc) 0 l.
Definition maxlen (l : list key) : N := fold_right (fun k m => N.max (lenN k) m) 0 l.
Fixpoint asc (l : list N) : Prop :=
  match l with a :: ((b :: _) as t) => a < b /\ asc t | _ => True end.
Fixpoint index_ranges (start : N) (gs : list (N * list key)) : list (N * N * N) :=
  match gs with
  | [] => []
  | cg :: r => (fst cg, start, start + lenN (snd cg)) :: index_ranges (start + lenN (snd cg)) r
  end.
(* the keys at indices beg, beg+1, ... have at least kpos bytes and their remainders from kpos are [ss] *)
Definition rng (keys : arr key) (beg kpos : N) (ss : list key) : Prop :=
  forall j, (j < length ss)%nat ->
    exists k, get keys (beg + N.of_nat j) = Some k /\ kpos <= lenN k /\
              skipn (N.to_nat kpos) k = nth j ss [].

(* ---------------- trees laid out in a unit array ---------------- *)
Fixpoint depth (t : tree) : nat :=
  match t with
  | TLeaf _ _ => 1%nat
  | TNode _ _ cs =>
    S ((fix go (cs : list (N * tree)) : nat :=
          match cs with [] => 0%nat | (_, c) :: r => Nat.max (depth c) (go r) end) cs)
  end.
(* the suffixes registered for the leaves, in registration (DFS) order *)
Fixpoint tsufs (t : tree) : list suffix :=
  match t with
  | TLeaf u suf => match suf with [] => [] | _ => [(suf, u)] end
  | TNode _ _ cs =>
    (fix go (cs : list (N * tree)) : list suffix :=
       match cs with [] => [] | (_, c) :: r => tsufs c ++ go r end) cs
  end.

Section Lay.
Variables (n : N) (bas chk : N -> N) (usedb leafb termb : N -> bool) (sfx : N -> key) (cd : N -> N).

(* [t] is laid out: flags, the suffix of each leaf, the children of each inner node at base xor code,
   naming it as parent; no other *used* slot (other than the taboo unit 1) names it as parent *)
Fixpoint lay (t : tree) : Prop :=
  match t with
  | TLeaf u suf =>
      u < n /\ usedb u = true /\ leafb u = true /\ termb u = true /\ sfx u = suf /\ (suf = [] -> bas u = 0)
  | TNode u tm cs =>
      u < n /\ usedb u = true /\ leafb u = false /\ termb u = tm /\
      asc (map fst cs) /\ (forall x, In x (map fst cs) -> x < 256) /\
      (forall x, x < 256 -> N.lxor (bas u) (cd x) < n) /\
      (forall x, x < 256 -> ~ In x (map fst cs) ->
         N.lxor (bas u) (cd x) <> 1 -> usedb (N.lxor (bas u) (cd x)) = true ->
         chk (N.lxor (bas u) (cd x)) <> u) /\
      (fix go (cs : list (N * tree)) : Prop :=
         match cs with
         | [] => True
         | (x, c) :: r => root_of c = N.lxor (bas u) (cd x) /\ chk (root_of c) = u /\ lay c /\ go r
         end) cs
  end.
End Lay.
