(* BuilderFacts.v: total correctness of the trie builder model: BuildSpec and RejectSpec of IfaceBuild.v.
   Layers: BuilderAlloc (free list), BuilderArrange (recursion), BuilderKeys / BuilderTree (pure facts). *)
From Coq Require Import ZArith Lia ZifyN ZifyBool ZifyNat Arith PeanoNat FMapPositive.
From X Require Import Base Arr ArrFacts Consts BitToolsSpec BitToolsGen BitVector CompactVector Dac Tail Trie
                      Spec Iface Wf Builder IfaceBuild BitVectorFacts PhysFacts
                      BuilderDefs BuilderKeys BuilderTree BuilderAlloc BuilderArrange.
Local Open Scope N_scope.
Ltac Zify.zify_post_hook ::= Z.div_mod_to_equations.

Lemma init_units_push : forall n s p, init_units n s p = push_units n s p.
Proof. intros. reflexivity. Qed.

Lemma count_true_all_false l : (forall i, nthb l i = false) -> count_true l = 0.
Proof.
  induction l as [|x l IH]; intros H; [reflexivity|]. cbn [count_true].
  pose proof (H 0) as H0. unfold nthb in H0. cbn in H0. subst x. rewrite IH; [reflexivity|].
  intros i. specialize (H (i + 1)). unfold nthb in *. replace (N.to_nat (i + 1)) with (S (N.to_nat i)) in H by lia. exact H.
Qed.

Section Init.
Variable l1 : N.
Hypothesis Hl1 : l1 = 7 \/ l1 = 8.

Lemma init_spec : exists s0 u1 u2 s2 u3 us tbase hs,
  init_units 256 (mkBs mempty bvb_empty bvb_empty bvb_empty mempty []) 0 = Ok s0 /\
  mset (bs_units s0) 255 (0, 254) = Ok u1 /\ mset u1 0 (1, 255) = Ok u2 /\
  use_unit l1 (mkBs u2 (bs_leaves s0) (bs_terms s0) (bs_useds s0)
                    (push_heads l1 (N.to_nat (256 / shl64 1 l1)) mempty 0) []) 0 = Ok s2 /\
  set_check (bs_units s2) 0 tb_taboo_npos = Ok u3 /\
  bvb_set_bit (bs_useds s2) tb_taboo_npos true = Ok us /\
  get_base u3 tb_taboo_npos = Ok tbase /\
  mset (bs_heads s2) (shr64 tb_taboo_npos l1) tbase = Ok hs /\
  let s3 := mkBs u3 (bs_leaves s2) (bs_terms s2) us hs [] in
  LI l1 s3 (iota 254 2) /\ OB s3 (iota 254 2) /\ GI s3 /\ nU s3 = 256 /\
  (forall i, usedb s3 i = true <-> i = 0 \/ i = 1) /\ chk s3 0 = 1 /\ tcount s3 = 0 /\ bs_sufs s3 = [] /\
  (forall i, leafb s3 i = false /\ termb s3 i = false).
Proof.
  assert (P62 : 2^62 = 4611686018427387904) by reflexivity. assert (P64 : 2^64 = 18446744073709551616) by reflexivity.
  set (e := mkBs mempty bvb_empty bvb_empty bvb_empty mempty []).
  assert (Hbe : bwf bvb_empty 0) by (split; [apply bvb_wf_empty|reflexivity]).
  destruct (push_units_spec l1 Hl1 256 e 0 mdef_mempty eq_refl Hbe Hbe Hbe) as
    (s0 & E0 & R1 & R2 & R3 & R4 & R5 & R6 & R7 & R8 & R9 & R10 & R11 & R12); [change (N.of_nat 256) with 256; lia|].
  change (0 + N.of_nat 256) with 256 in *.
  exists s0. rewrite init_units_push.
  destruct (mset_uval (bs_units s0) 255 (0, 254) R1) as (u1 & E1 & L1 & D1 & G1); [lia|].
  destruct (mset_uval u1 0 (1, 255) D1) as (u2 & E2 & L2 & D2 & G2); [lia|].
  exists u1, u2.
  assert (Hbit0 : forall i, bbit bvb_empty i = false) by (intros; apply bbit_oob; cbn; lia).
  assert (Hus0 : forall i, usedb s0 i = false) by (intros i; rewrite R9; apply Hbit0).
  assert (Hlf0 : forall i, leafb s0 i = false) by (intros i; rewrite R10; apply Hbit0).
  assert (Htm0 : forall i, termb s0 i = false) by (intros i; rewrite R11; apply Hbit0).
  (* the unit array after the two stores *)
  assert (GU : forall i, uval u2 i = if i =? 0 then (1, 255) else if i =? 255 then (0, 254)
                         else if i <? 256 then (i + 1, i - 1) else (0, 0)).
  { intros i. rewrite G2. destruct (N.eqb_spec i 0); [reflexivity|]. rewrite G1.
    destruct (N.eqb_spec i 255); [reflexivity|]. rewrite R8.
    destruct (N.leb_spec 0 i); [|lia]. destruct (N.ltb_spec i 256); cbn [andb].
    - rewrite add64_small, sub64_small by lia. reflexivity.
    - unfold uval, mval, e; cbn [bs_units]. rewrite mget_oob by (cbn; lia). reflexivity. }
  set (hd0 := push_heads l1 (N.to_nat (256 / shl64 1 l1)) mempty 0).
  set (s1 := mkBs u2 (bs_leaves s0) (bs_terms s0) (bs_useds s0) hd0 []).
  assert (Hlsz : shl64 1 l1 = lsz l1) by (rewrite <- (l1_size_eq l1 Hl1); reflexivity).
  destruct (push_heads_spec l1 Hl1 (N.to_nat (256 / shl64 1 l1)) mempty 0 mdef_mempty) as (Q1 & Q2 & Q3).
  fold hd0 in Q1, Q2, Q3. rewrite N2Nat.id, Hlsz in Q2, Q3. change (mlen (@mempty N)) with 0 in Q2, Q3.
  assert (W1 : SW l1 s1).
  { constructor; unfold nU, bas, chk, s1; cbn [bs_units bs_leaves bs_terms bs_useds bs_heads]; rewrite ?L2, ?L1, ?R2.
    - reflexivity.
    - lia.
    - lia.
    - exact D2.
    - exact R3.
    - exact R4.
    - exact R5.
    - exact Q1.
    - rewrite Q2. lia.
    - intros i Hi. rewrite GU. destruct (N.eqb_spec i 0); [cbn; lia|]. destruct (N.eqb_spec i 255); [cbn; lia|].
      destruct (N.ltb_spec i 256); cbn [fst snd]; lia. }
  assert (Hn1 : nU s1 = 256) by (unfold nU, s1; cbn [bs_units]; rewrite L2, L1, R2; reflexivity).
  destruct (use_unit_raw l1 Hl1 s1 0 W1) as (s2 & Eu & W2 & Hn2 & Flv & Ftm & Fsf & Hus & Hbs & Hks & Hhs); [lia|].
  exists s2.
  assert (Eb10 : bas s1 0 = 1 /\ chk s1 0 = 255) by (unfold bas, chk, s1; cbn [bs_units]; rewrite GU; split; reflexivity).
  destruct Eb10 as [Eb10 Ek10]. rewrite Eb10, Ek10 in *.
  destruct (set_check_spec (bs_units s2) 0 1 (sw_units l1 s2 W2)) as (u3 & E3 & L3 & D3 & G3); [fold (nU s2); lia|].
  exists u3.
  destruct (sw_us l1 s2 W2) as [Wus Wuss].
  destruct (bvb_set_wf (bs_useds s2) 1 true Wus) as (us & E4 & A1 & A2 & A3 & _); [rewrite Wuss; lia|].
  exists us.
  assert (Hl3 : 1 < mlen u3) by (rewrite L3; fold (nU s2); lia).
  exists (fst (uval u3 1)).
  assert (Hh0 : 0 < mlen (bs_heads s2)).
  { rewrite (sw_hl l1 s2 W2), Hn2, Hn1. destruct (lsz_cases l1 Hl1) as [[_ E]|[_ E]]; rewrite E; lia. }
  assert (Esh : shr64 tb_taboo_npos l1 = 0).
  { rewrite (shr_l1 l1). change tb_taboo_npos with 1. destruct (lsz_cases l1 Hl1) as [[_ E]|[_ E]]; rewrite E; reflexivity. }
  destruct (mset_spec (bs_heads s2) 0 (fst (uval u3 1)) (sw_hd l1 s2 W2) Hh0) as (hs & E5 & L5 & D5 & G5).
  exists hs. rewrite E0, E1, E2. fold hd0. fold s1. rewrite Eu. change tb_taboo_npos with 1 in *. rewrite E3, E4.
  rewrite (get_base_spec u3 1 D3 Hl3), Esh, E5.
  do 8 (split; [reflexivity|]).
  intros s3.
  (* views of s3 *)
  assert (Hb3 : forall i, bas s3 i = if i =? 255 then 1 else if i =? 0 then 1 else if i <? 256 then i + 1 else 0).
  { intros i. unfold bas, s3; cbn [bs_units]. rewrite G3. fold (bas s2 0). fold (bas s2 i).
    assert (X : forall j, bas s2 j = if j =? 255 then 1 else if j =? 0 then 1 else if j <? 256 then j + 1 else 0).
    { intros j. rewrite Hbs. destruct (N.eqb_spec j 255); [reflexivity|]. unfold bas, s1; cbn [bs_units]. rewrite GU.
      destruct (N.eqb_spec j 0); [reflexivity|]. destruct (N.eqb_spec j 255); [contradiction|].
      destruct (j <? 256); reflexivity. }
    destruct (N.eqb_spec i 0) as [->|Hne0]; cbn [fst]; [apply X|].
    fold (bas s2 i). rewrite X. destruct (N.eqb_spec i 0); [contradiction|reflexivity]. }
  assert (Hk3 : forall i, chk s3 i = if i =? 0 then 1 else if i =? 1 then 255 else if i =? 255 then 254
                                     else if i <? 256 then i - 1 else 0).
  { intros i. unfold chk, s3; cbn [bs_units]. rewrite G3. destruct (N.eqb_spec i 0); [reflexivity|]. fold (chk s2 i).
    rewrite Hks. destruct (N.eqb_spec i 1); [reflexivity|]. unfold chk, s1; cbn [bs_units]. rewrite GU.
    destruct (N.eqb_spec i 0); [contradiction|]. destruct (N.eqb_spec i 255); [reflexivity|]. destruct (i <? 256); reflexivity. }
  assert (Hu3 : forall i, usedb s3 i = (i =? 0) || (i =? 1)).
  { intros i. unfold usedb, s3; cbn [bs_useds]. rewrite A3. fold (usedb s2 i). rewrite Hus.
    unfold usedb at 1, s1; cbn [bs_useds]. fold (usedb s0 i). rewrite Hus0.
    destruct (i =? 0); destruct (i =? 1); reflexivity. }
  assert (Hn3 : nU s3 = 256) by (unfold nU, s3; cbn [bs_units]; rewrite L3; fold (nU s2); lia).
  assert (Hh3 : forall lp, headv s3 lp = if lp =? 0 then 2 else if lp <? 256 / lsz l1 then lp * lsz l1 else 0).
  { intros lp. unfold headv, s3; cbn [bs_heads]. unfold mval. rewrite G5.
    destruct (N.eqb_spec lp 0) as [->|Hne].
    - change (fst (uval u3 1)) with (bas s3 1). rewrite Hb3. reflexivity.
    - fold (mval (bs_heads s2) 0 lp). fold (headv s2 lp). rewrite Hhs.
      assert (X : lp =? 0 / lsz l1 = false).
      { apply N.eqb_neq. destruct (lsz_cases l1 Hl1) as [[_ E]|[_ E]]; rewrite E; cbn; exact Hne. }
      rewrite X. cbn [andb]. unfold headv, s1; cbn [bs_heads]. rewrite Q3.
      destruct (N.leb_spec 0 lp); [|lia]. cbn [andb]. replace (0 + 256 / lsz l1) with (256 / lsz l1) by lia.
      destruct (lp <? 256 / lsz l1); [|unfold mval; rewrite mget_oob by (cbn; lia); reflexivity]. lia. }
  assert (Hfl3 : forall i, leafb s3 i = false /\ termb s3 i = false).
  { intros i. unfold leafb, termb, s3; cbn [bs_leaves bs_terms]. rewrite Flv, Ftm. unfold s1; cbn [bs_leaves bs_terms].
    split; [apply Hlf0|apply Htm0]. }
  assert (W3 : SW l1 s3).
  { destruct W2 as [Wm Wp Wsm Wu Wl0 Wt0 Wus0 Wh Whl Wr].
    constructor; rewrite ?Hn3; try lia.
    - exact D3.
    - rewrite <- Hn1, <- Hn2. exact Wl0.
    - rewrite <- Hn1, <- Hn2. exact Wt0.
    - split; [exact A1|]. change (bb_size us = 256). rewrite A2, Wuss. lia.
    - exact D5.
    - unfold s3; cbn [bs_heads]. rewrite L5, Whl, Hn2, Hn1. reflexivity.
    - intros i Hi. rewrite Hb3, Hk3.
      destruct (N.eqb_spec i 255); destruct (N.eqb_spec i 0); destruct (N.eqb_spec i 1);
        destruct (N.ltb_spec i 256); split; lia. }
  assert (Hin : forall i, In i (iota 254 2) <-> 2 <= i < 256).
  { intros i. rewrite iota_in. change (N.of_nat 254) with 254. lia. }
  split; [|split; [|split; [|split; [exact Hn3|split; [|split; [|split; [|split; [reflexivity|exact Hfl3]]]]]]]].
  - constructor.
    + exact W3.
    + apply iota_NoDup.
    + intros i Hi. apply Hin in Hi. rewrite Hn3, Hu3. destruct (N.eqb_spec i 0); [lia|]. destruct (N.eqb_spec i 1); [lia|].
      split; [lia|reflexivity].
    + change 2 with (1 + 1). apply chain_iota.
      * change (N.of_nat 254) with 254. intros j Hj. rewrite Hb3, Hk3.
        destruct (N.eqb_spec j 255); [lia|]. destruct (N.eqb_spec j 0); [lia|]. destruct (N.ltb_spec j 256); [|lia].
        destruct (N.eqb_spec (j + 1) 0); [lia|]. destruct (N.eqb_spec (j + 1) 1); [lia|].
        destruct (N.eqb_spec (j + 1) 255); [split; lia|]. destruct (N.ltb_spec (j + 1) 256); [|lia]. split; lia.
      * change (1 + N.of_nat 254) with 255. rewrite Hb3. reflexivity.
      * change (1 + N.of_nat 254) with 255. rewrite Hk3. reflexivity.
    + rewrite Hu3. reflexivity.
    + rewrite Hu3. reflexivity.
    + intros i Hi Hiu Hif. exfalso. apply Hif. apply Hin. rewrite Hn3 in Hi. rewrite Hu3 in Hiu.
      destruct (N.eqb_spec i 0); [discriminate|]. destruct (N.eqb_spec i 1); [discriminate|]. lia.
    + intros lp Hlp. rewrite Hn3 in Hlp. rewrite Hh3. right.
      destruct (N.eqb_spec lp 0) as [->|Hne].
      * split; [apply Hin; lia|]. destruct (lsz_cases l1 Hl1) as [[_ E]|[_ E]]; rewrite E; reflexivity.
      * destruct (N.ltb_spec lp (256 / lsz l1)); [|lia]. split.
        -- apply Hin. destruct (lsz_cases l1 Hl1) as [[_ E]|[_ E]]; rewrite E in *; lia.
        -- destruct (lsz_cases l1 Hl1) as [[_ E]|[_ E]]; rewrite E in *; lia.
  - intros i j Hi Hj Hju. apply Hin. apply Hin in Hi. rewrite Hu3 in Hju.
    destruct (N.eqb_spec j 0); [discriminate|]. destruct (N.eqb_spec j 1); [discriminate|]. lia.
  - constructor.
    + intros c Hc Hcu. rewrite Hu3 in Hcu. destruct (N.eqb_spec c 0) as [->|]; [|destruct (N.eqb_spec c 1); [contradiction|discriminate]].
      rewrite Hk3, Hu3. reflexivity.
    + intros i _. apply Hfl3.
    + apply Hfl3.
    + intros sn [].
  - intros i. rewrite Hu3. destruct (N.eqb_spec i 0); destruct (N.eqb_spec i 1); cbn; split; intros; try tauto; try discriminate; lia.
  - rewrite Hk3. reflexivity.
  - unfold tcount. apply count_true_all_false. intros i. apply (Hfl3 i).
Qed.
End Init.

Lemma forallb_idx_intro {A} (f : N -> A -> bool) (d : A) : forall l k,
  (forall i, i < lenN l -> f (k + i) (nth (N.to_nat i) l d) = true) -> forallb_idx f l k = true.
Proof.
  induction l as [|x l IH]; intros k H; [reflexivity|]. cbn [forallb_idx].
  pose proof (H 0) as H0. rewrite N.add_0_r in H0. change (N.to_nat 0) with 0%nat in H0. cbn [nth] in H0.
  rewrite H0 by (unfold lenN; cbn [length]; lia). cbn [andb].
  apply IH. intros i Hi. replace (k + 1 + i) with (k + (i + 1)) by lia.
  specialize (H (i + 1)). replace (N.to_nat (i + 1)) with (S (N.to_nat i)) in H by lia. apply H.
  unfold lenN in *. cbn [length]. lia.
Qed.

Lemma rng_top (K : list key) : rng (of_list K) 0 0 K.
Proof.
  intros j Hj. exists (nth j K []). rewrite get_of_list. rewrite N.add_0_l, Nat2N.id.
  split; [apply nth_error_nth'; exact Hj|]. split; [lia|reflexivity].
Qed.

Lemma l1_bits_cases v : l1_bits_of v = 7 \/ l1_bits_of v = 8.
Proof. destruct v; [left|right|right|right]; reflexivity. Qed.

(* the state after finish, and the tree it holds *)
Record fin (l1 : N) (tbl : list N) (K : list key) (s5 : bstate) (T : tree) : Prop := mkFin {
  f_li : LI l1 s5 []; f_gi : GI s5; f_lay : slay tbl s5 T; f_root : root_of T = 0; f_keys : keys_of T = K;
  f_min : minimal T = true; f_depth : (depth T <= S (N.to_nat (maxlen K)))%nat; f_nodup : NoDup (nodes_of T);
  f_used : forall i, usedb s5 i = true <-> i = 1 \/ In i (nodes_of T);
  f_sufs : bs_sufs s5 = tsufs T; f_tc : tcount s5 = lenN K; f_n : nU s5 <= 256 + 256 * msum K;
  f_chk0 : chk s5 0 = 1; f_not1 : ~ In 1 (nodes_of T)
}.

Section Run.
Variables (v : variant) (tbl : list N) (K : list key) (req : bool).
Hypothesis Hperm : perm_okb tbl = true.
Hypothesis HKne : K <> [].
Hypothesis Hbytes : Forall (fun k => bytes_ok k = true) K.
Hypothesis Hsmall : small_keys K.
Let l1 := l1_bits_of v.

Lemma build_run :
  (strictly_sorted K = false /\ exists e, build_logical v tbl K req = Exc e) \/
  (strictly_sorted K = true /\ exists s5 T,
     build_logical v tbl K req =
       Ok (mkL (lenN K) tbl (alphabet_of K) (max_length_of K) (req || ct_has_null (ct_build tbl K))
               (bvb_bits (bs_terms s5)) (bvb_bits (bs_leaves s5)) (m_to_list (bs_units s5)) (bs_sufs s5)) /\
     fin l1 tbl K s5 T).
Proof.
  pose proof (l1_bits_cases v) as Hl1. fold l1 in Hl1.
  unfold build_logical. destruct K as [|k0 K'] eqn:EK; [contradiction|]. rewrite <- EK in *. cbv zeta. fold l1.
  destruct (init_spec l1 Hl1) as (s0 & u1 & u2 & s2 & u3 & us & tbase & hs & E0 & E1 & E2 & E3 & E4 & E5 & E6 & E7 & R).
  rewrite E0. cbn [bind]. rewrite E1. cbn [bind]. rewrite E2. cbn [bind]. rewrite E3. cbn [bind].
  rewrite E4. cbn [bind]. rewrite E5. cbn [bind]. rewrite E6. cbn [bind]. rewrite E7. cbn [bind].
  set (s3 := mkBs u3 (bs_leaves s2) (bs_terms s2) us hs []) in *.
  destruct R as (H3 & O3 & G3 & Hn3 & Hu3 & Hk3 & Htc3 & Hsf3 & Hfl3).
  assert (Hms : msum K < 2^40) by (rewrite msum_total; exact Hsmall).
  assert (P : 2^40 = 1099511627776 /\ 2^62 = 4611686018427387904) by (split; reflexivity). destruct P as [P40 P62].
  assert (AP : apre l1 K s3 (iota 254 2) 0 0 K 0).
  { constructor; try assumption.
    - apply rng_top.
    - apply Hu3. left. reflexivity.
    - discriminate.
    - intros c Hc Hcu. apply Hu3 in Hcu. destruct Hcu as [-> | ->]; [rewrite Hk3; discriminate|contradiction].
    - apply Hfl3.
    - apply Hfl3.
    - rewrite Hn3. lia. }
  assert (Hfuel : (N.to_nat (maxlen K) < S (N.to_nat (max_length_of K)))%nat) by (rewrite max_length_of_maxlen; lia).
  destruct (arrange_spec l1 Hl1 tbl Hperm K _ s3 _ 0 0 K 0 AP Hfuel) as [(e & E & Hs)|(s4 & fl4 & T & E & Hs & Q)];
    change (0 + lenN K) with (lenN K) in E; rewrite E; cbn [bind].
  - left. split; [exact Hs|]. exists e. reflexivity.
  - right. split; [exact Hs|].
    destruct Q as [Q1 Q2 Q3 Q4 Q5 Q6 Q7 Q8 Q9 Q10 Q11 Q12 Q13 Q14 Q15].
    pose proof (li_sw l1 s4 fl4 Q1) as W4.
    destruct (finish_spec l1 Hl1 (S (N.to_nat (shr64 (mlen (bs_units s4)) 8))) s4 fl4 Q1 Q2) as
      (s5 & E5' & H5 & Hn5 & (F1 & F2 & F3) & Hu5 & Fr5).
    { pose proof (blocks_bound l1 Hl1 fl4 (nU s4) (fun i Hi => proj1 (li_mem l1 s4 fl4 Q1 i Hi)) (sw_mod l1 s4 W4)) as B.
      rewrite shr64_div. change (2^8) with 256. fold (nU s4). lia. }
    rewrite E5'. cbn [bind]. pose proof (li_sw l1 s5 [] H5) as W5.
    rewrite (bvb_to_bits_wf _ (proj1 (sw_tm l1 s5 W5))). cbn [bind].
    rewrite (bvb_to_bits_wf _ (proj1 (sw_lv l1 s5 W5))). cbn [bind].
    exists s5, T. split; [reflexivity|].
    assert (F45 : fr (fun _ => False) s4 s5).
    { apply fr_alloc; try assumption; try lia.
      - intros i. unfold leafb. rewrite F1. reflexivity.
      - intros i. unfold termb. rewrite F2. reflexivity. }
    assert (Hnot1 : ~ In 1 (nodes_of T)).
    { intros X. destruct (Q12 1 X) as [X'|X']; [discriminate|]. rewrite (proj2 (Hu3 1)) in X'; [discriminate|right; reflexivity]. }
    constructor.
    + exact H5.
    + apply (GI_alloc s4 s5 Q3 Hu5); try assumption.
      * intros i. unfold leafb. rewrite F1. reflexivity.
      * intros i. unfold termb. rewrite F2. reflexivity.
    + apply (slay_fr tbl Hperm (fun _ => False) s4 s5 T Q7); [|exact F45].
      intros x Hx. split; [tauto|]. intros ->. contradiction.
    + exact Q6.
    + exact Q8.
    + exact Q9.
    + exact Q10.
    + exact Q11.
    + intros i. rewrite Hu5, Q13, Hu3. split.
      * intros [[-> | ->]|X]; [right; rewrite <- Q6; apply root_in_nodes|left; reflexivity|right; exact X].
      * intros [-> |X]; [left; right; reflexivity|right; exact X].
    + rewrite F3, Q14, Hsf3. reflexivity.
    + unfold tcount. rewrite F2. fold (tcount s4). rewrite Q15, Htc3. lia.
    + rewrite Hn5. rewrite Hn3 in Q5. exact Q5.
    + destruct (Fr5 0) as [_ ->]; [apply Q13; left; apply Hu3; left; reflexivity|discriminate|].
      destruct (fr_used _ _ _ Q4 0) as (_ & X & _); [apply Hu3; left; reflexivity|]. rewrite X by discriminate. exact Hk3.
    + exact Hnot1.
Qed.
End Run.

Theorem reject_spec : RejectSpec.
Proof.
  intros v tbl K req Hv Hb Hs Hp. destruct K as [|k K'].
  - exists EmptyDataset. reflexivity.
  - assert (Hne : k :: K' <> []) by discriminate.
    destruct (build_run v tbl (k :: K') req Hp Hne Hb Hs) as [(Hss & e & E)|(Hss & _)].
    + exists e. unfold build. rewrite E. reflexivity.
    + exfalso. unfold valid_keys in Hv. rewrite Hss in Hv. cbn [andb] in Hv.
      assert (X : forallb bytes_ok (k :: K') = true) by (apply forallb_forall; rewrite Forall_forall in Hb; exact Hb).
      congruence.
Qed.

Lemma ssum_fold1 (l : list suffix) : fold_right (fun sn acc => lenN (fst sn) + 1 + acc) 1 l = ssum l + 1.
Proof. induction l as [|x l IH]; cbn [fold_right ssum]; [reflexivity|]. unfold ssum in *. cbn [fold_right]. rewrite IH. lia. Qed.

Lemma existsb_false_in {A} (f : A -> bool) l x : existsb f l = false -> In x l -> f x = false.
Proof.
  intros H Hx. destruct (f x) eqn:E; [|reflexivity]. assert (existsb f l = true) by (apply existsb_exists; eauto). congruence.
Qed.

Lemma lwf_of_fin l1 tbl K req s5 T : (l1 = 7 \/ l1 = 8) -> perm_okb tbl = true -> valid_keys K = true -> small_keys K ->
  fin l1 tbl K s5 T ->
  lwf_b (mkL (lenN K) tbl (alphabet_of K) (max_length_of K) (req || ct_has_null (ct_build tbl K))
             (bvb_bits (bs_terms s5)) (bvb_bits (bs_leaves s5)) (m_to_list (bs_units s5)) (bs_sufs s5)) K = true.
Proof.
  intros Hl1 Hperm Hvalid Hsmall [F1 F2 F3 F4 F5 F6 F7 F8 F9 F10 F11 F12 F13 F14].
  pose proof (li_sw l1 s5 [] F1) as W. set (n := nU s5) in *.
  destruct (li_nil_closed l1 s5 F1) as (Hclosed & _ & Hchk1).
  assert (Hms : msum K < 2^40) by (rewrite msum_total; exact Hsmall).
  assert (P : 2^40 = 1099511627776 /\ 2^56 = 72057594037927936 /\ 2^60 = 1152921504606846976 /\ 2^64 = 18446744073709551616)
    by (repeat split; reflexivity).
  destruct P as (P40 & P56 & P60 & P64).
  assert (Hbytes : forall k, In k K -> bytes_ok k = true).
  { unfold valid_keys in Hvalid. destruct K; [discriminate|]. apply andb_prop in Hvalid. destruct Hvalid as [_ X].
    rewrite forallb_forall in X. exact X. }
  set (units := m_to_list (bs_units s5)).
  assert (Hlu : lenN units = n) by (apply (m_to_list_length _ (sw_units l1 s5 W))).
  assert (Hnu : forall i, i < n -> nth (N.to_nat i) units (0, 0) = (bas s5 i, chk s5 i)).
  { intros i Hi. unfold units. transitivity (mval (bs_units s5) (0, 0) i).
    - apply (m_to_list_nth (bs_units s5) (0, 0) i (sw_units l1 s5 W) Hi).
    - unfold bas, chk, uval. destruct (mval (bs_units s5) (0, 0) i); reflexivity. }
  assert (Hll : lenN (bvb_bits (bs_leaves s5)) = n) by (rewrite lenN_bvb_bits; apply (sw_lv l1 s5 W)).
  assert (Hlt : lenN (bvb_bits (bs_terms s5)) = n) by (rewrite lenN_bvb_bits; apply (sw_tm l1 s5 W)).
  assert (Hleaf : forall i, vget (of_list (bvb_bits (bs_leaves s5))) i false = leafb s5 i) by (intros i; apply vget_of_list).
  assert (Hterm : forall i, vget (of_list (bvb_bits (bs_terms s5))) i false = termb s5 i) by (intros i; apply vget_of_list).
  assert (Hn56 : n < 2^56) by lia.
  unfold slay in F3.
  pose proof (lay_nodes _ _ _ _ _ _ _ _ T F3) as Hnodes.
  assert (Hleafnode : forall i, leafb s5 i = true -> In i (nodes_of T)).
  { intros i Hi. destruct (usedb s5 i) eqn:Eu.
    - apply F9 in Eu. destruct Eu as [-> |X]; [|exact X]. rewrite (proj1 (g_t1 s5 F2)) in Hi. discriminate.
    - rewrite (proj1 (g_clean s5 F2 i Eu)) in Hi. discriminate. }
  unfold lwf_b. cbn [lg_nkeys lg_tbl lg_alpha lg_maxlen lg_bin lg_terms lg_leaves lg_units lg_sufs].
  unfold view_of. cbn [lg_nkeys lg_tbl lg_alpha lg_maxlen lg_bin lg_terms lg_leaves lg_units lg_sufs].
  fold units. cbv zeta. rewrite Hlu, Hll, Hlt, Hperm, Hvalid.
  repeat (apply andb_true_intro; split).
  - apply N.ltb_lt. exact Hn56.
  - apply N.eqb_refl.
  - apply N.eqb_refl.
  - apply forallb_forall. intros x Hx. destruct (@In_nth unit units x (0, 0) Hx) as (j & Hj & Ej).
    assert (Hjn : N.of_nat j < n) by (unfold lenN in Hlu; lia).
    pose proof (Hnu (N.of_nat j) Hjn) as X. rewrite Nat2N.id in X. rewrite <- Ej, X. cbn [fst snd].
    destruct (sw_rng l1 s5 W _ Hjn) as [A1 A2]. fold n in A1, A2.
    apply andb_true_intro. split; apply N.ltb_lt; lia.
  - reflexivity.
  - reflexivity.
  - rewrite alphabet_of_spec. apply list_eqb_N_refl.
  - rewrite max_length_of_spec. apply N.eqb_refl.
  - apply N.eqb_refl.
  - apply forallb_forall. intros [suf u] Hsn. rewrite F10 in Hsn. cbn [fst snd].
    destruct (lay_tsufs _ _ _ _ _ _ _ _ T suf u F3 Hsn) as [Hun Hul]. fold n in Hun.
    destruct (tsufs_keys T suf u Hsn) as [Hsne (p & Hp)]. rewrite F5 in Hp.
    pose proof (Hbytes _ Hp) as Hb. unfold bytes_ok in Hb. rewrite forallb_app in Hb. apply andb_prop in Hb. destruct Hb as [_ Hb].
    apply andb_true_intro. split; [apply andb_true_intro; split|].
    + unfold suf_okb. rewrite Hb. destruct suf as [|c suf']; [contradiction|]. rewrite BuilderKeys.lenN_cons.
      destruct (N.eqb_spec (lenN suf' + 1) 0); [lia|]. cbn [negb andb].
      rewrite has_null_spec. destruct req; [reflexivity|]. cbn [orb].
      destruct (occurs 0 K) eqn:Eo; [reflexivity|]. cbn [orb]. unfold occurs in Eo.
      pose proof (existsb_false_in _ _ _ Eo Hp) as X. rewrite existsb_app in X. apply orb_false_iff in X. destruct X as [_ X].
      rewrite X. reflexivity.
    + apply N.ltb_lt. exact Hun.
    + cbn [v_leaves]. rewrite Hleaf. exact Hul.
  - rewrite F10. apply NoDup_nodup_fast. apply tsufs_NoDup. exact F8.
  - rewrite ssum_fold1, F10. apply N.ltb_lt. pose proof (tsufs_size T) as X. rewrite F5 in X. fold (ssum (tsufs T)) in X. lia.
  - apply (@forallb_idx_intro unit _ (0, 0)). intros i Hi. rewrite Hlu in Hi. rewrite N.add_0_l, (Hnu i Hi). cbn [v_leaves fst].
    rewrite Hleaf. destruct (leafb s5 i) eqn:El; [|reflexivity]. cbn [negb orb].
    destruct (lay_leaf_base _ _ _ _ _ _ _ _ T i F3 (Hleafnode i El) El) as [X|X].
    + rewrite F10. rewrite (proj2 (in_set_of_iff _ _) X). reflexivity.
    + rewrite X. rewrite N.eqb_refl. apply orb_true_r.
  - set (V := mkView n (of_list units) (of_list (bvb_bits (bs_leaves s5))) (of_list (bvb_bits (bs_terms s5)))
                     (of_list (firstn 256 tbl)) (suf_map (bs_sufs s5))).
    assert (Hext : extract (S (N.to_nat (max_length_of K))) V 0 = Some T).
    { rewrite <- F4.
      apply (extract_lay V n (bas s5) (chk s5) (usedb s5) (leafb s5) (termb s5) (sfx s5) (cd tbl)); try assumption.
      - reflexivity.
      - intros i Hi. unfold V; cbn [v_units]. rewrite vget_of_list. apply Hnu. exact Hi.
      - intros i _. unfold V; cbn [v_leaves]. apply Hleaf.
      - intros i _. unfold V; cbn [v_terms]. apply Hterm.
      - intros x Hx. unfold V; cbn [v_code]. rewrite vget_of_list. unfold cd. apply nth_firstn_lt. lia.
      - intros i _. reflexivity.
      - intros c Hc Hcu. apply (Hclosed c Hc Hcu).
      - intros x Hx ->. contradiction.
      - rewrite max_length_of_maxlen. exact F7. }
    rewrite Hext.
    repeat (apply andb_true_intro; split).
    + rewrite F5. apply list_eqb_key_refl.
    + apply NoDup_nodup_fast. exact F8.
    + apply (terms_okb_lay _ _ _ _ _ _ _ _ V T F3). intros i _. unfold V; cbn [v_terms]. apply Hterm.
    + fold (tcount s5). rewrite F11. apply N.eqb_refl.
    + exact F6.
    + apply (@forallb_idx_intro unit _ (0, 0)). intros i Hi. rewrite Hlu in Hi. rewrite N.add_0_l, (Hnu i Hi). cbn [snd].
      destruct (in_set (set_of (nodes_of T)) i) eqn:Es.
      * apply in_set_of_iff in Es. apply negb_true_iff. apply N.eqb_neq.
        destruct (N.eq_dec i (root_of T)) as [E|E].
        -- rewrite E, F4, F13. discriminate.
        -- apply (lay_chk_ne _ _ _ _ _ _ _ _ T F3 F8 i Es E).
      * assert (Hni : ~ In i (nodes_of T)) by (intros X; apply in_set_of_iff in X; congruence).
        apply N.eqb_eq. destruct (N.eq_dec i 1) as [->|Hi1]; [exact Hchk1|].
        apply (Hclosed i Hi). destruct (usedb s5 i) eqn:Eu; [|reflexivity]. apply F9 in Eu. tauto.
Qed.

Theorem build_spec : BuildSpec.
Proof.
  intros v tbl K req Hv Hs Hp.
  assert (Hne : K <> []) by (intros ->; discriminate).
  assert (Hb : Forall (fun k => bytes_ok k = true) K).
  { unfold valid_keys in Hv. destruct K; [discriminate|]. apply andb_prop in Hv. destruct Hv as [_ X].
    apply Forall_forall. rewrite forallb_forall in X. exact X. }
  assert (Hss : strictly_sorted K = true).
  { unfold valid_keys in Hv. destruct K; [discriminate|]. apply andb_prop in Hv. tauto. }
  destruct (build_run v tbl K req Hp Hne Hb Hs) as [(Hss' & _)|(_ & s5 & T & E & F)]; [congruence|].
  eexists. split; [exact E|]. split.
  - apply (lwf_of_fin (l1_bits_of v) tbl K req s5 T (l1_bits_cases v) Hp Hv Hs F).
  - cbn [lg_bin]. unfold spec_bin_mode. rewrite has_null_spec. reflexivity.
Qed.

Print Assumptions build_spec.
Print Assumptions reject_spec.
