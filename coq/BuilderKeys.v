(* BuilderKeys.v: facts about key grouping (group/groups), the code-table statistics and the edge scan. *)
From Coq Require Import Lia ZifyN ZifyBool ZifyNat Arith PeanoNat.
From X Require Import Base Arr ArrFacts Consts BitToolsSpec BitToolsGen BitVector CompactVector Dac Tail Trie Spec Iface Wf Builder IfaceBuild BuilderDefs.
Local Open Scope N_scope.
Arguments N.add : simpl never.
Arguments N.of_nat : simpl never.
Arguments N.max : simpl never.

(* ---------------- small helpers ---------------- *)
Lemma lenN_nil {A} : lenN (@nil A) = 0.
Proof. reflexivity. Qed.
Lemma lenN_cons {A} (a : A) l : lenN (a :: l) = lenN l + 1.
Proof. unfold lenN; cbn [length]; lia. Qed.
Lemma lenN_app {A} (a b : list A) : lenN (a ++ b) = lenN a + lenN b.
Proof. unfold lenN; rewrite app_length; lia. Qed.
Lemma ss_cons2 a b t : strictly_sorted (a :: b :: t) = lex_lt a b && strictly_sorted (b :: t).
Proof. reflexivity. Qed.
Lemma ss_one a : strictly_sorted [a] = true.
Proof. reflexivity. Qed.
Lemma msum_cons k l : msum (k :: l) = lenN k + 1 + msum l.
Proof. reflexivity. Qed.
Lemma maxlen_cons k l : maxlen (k :: l) = N.max (lenN k) (maxlen l).
Proof. reflexivity. Qed.
Lemma asc_cons2 a b t : asc (a :: b :: t) <-> a < b /\ asc (b :: t).
Proof. reflexivity. Qed.

(* ================= (A) pure list facts ================= *)
Lemma group_sorted_aux : forall l ch k0,
  strictly_sorted ((ch :: k0) :: l) =
  match group ch l with
  | None => false
  | Some (g, gs) => strictly_sorted (k0 :: g) && forallb (fun cg => strictly_sorted (snd cg)) gs
  end.
Proof.
  induction l as [|k t IH]; intros ch k0.
  - reflexivity.
  - rewrite ss_cons2. destruct k as [|c k'].
    + destruct k0; reflexivity.
    + cbn [group lex_lt]. destruct (N.eqb_spec c ch) as [->|Hne].
      * rewrite N.ltb_irrefl. rewrite IH.
        destruct (group ch t) as [[g gs]|].
        -- rewrite ss_cons2. rewrite andb_assoc. reflexivity.
        -- apply andb_false_r.
      * destruct (N.ltb_spec c ch) as [Hlt|Hge].
        -- destruct (N.ltb_spec ch c); [lia|reflexivity].
        -- destruct (N.ltb_spec ch c); [|lia]. rewrite IH.
           destruct (group c t) as [[g gs]|]; reflexivity.
Qed.

Lemma groups_sorted c k t :
  strictly_sorted ((c :: k) :: t) =
  match groups ((c :: k) :: t) with
  | None => false
  | Some gs => forallb (fun cg => strictly_sorted (snd cg)) gs
  end.
Proof.
  rewrite group_sorted_aux. unfold groups.
  destruct (group c t) as [[g gs]|]; reflexivity.
Qed.

Lemma group_ungroup : forall l ch g gs,
  group ch l = Some (g, gs) -> map (cons ch) g ++ ungroup gs = l.
Proof.
  induction l as [|k t IH]; intros ch g gs H.
  - cbn [group] in H. inversion H; reflexivity.
  - destruct k as [|c k']; [discriminate|]. cbn [group] in H.
    destruct (N.eqb_spec c ch) as [->|Hne].
    + destruct (group ch t) as [[g1 gs1]|] eqn:E; [|discriminate].
      inversion H; subst. cbn [map app]. f_equal. apply IH. exact E.
    + destruct (c <? ch); [discriminate|].
      destruct (group c t) as [[g1 gs1]|] eqn:E; [|discriminate].
      inversion H; subst. unfold ungroup; cbn [map app flat_map fst snd].
      f_equal. apply (IH _ _ _ E).
Qed.

Lemma groups_shape l gs : groups l = Some gs ->
  exists c k t g gs', l = (c :: k) :: t /\ group c t = Some (g, gs') /\ gs = (c, k :: g) :: gs'.
Proof.
  intros H. destruct l as [|[|c k] t]; try discriminate. unfold groups in H.
  destruct (group c t) as [[g gs']|] eqn:E; [|discriminate].
  inversion H; subst. exists c, k, t, g, gs'. auto.
Qed.

Lemma groups_ungroup l gs : groups l = Some gs -> ungroup gs = l.
Proof.
  intros H. destruct (groups_shape _ _ H) as (c & k & t & g & gs' & -> & E & ->).
  unfold ungroup; cbn [flat_map fst snd map app]. f_equal. apply (group_ungroup _ _ _ _ E).
Qed.

Lemma group_nonempty : forall l ch g gs,
  group ch l = Some (g, gs) -> Forall (fun cg : N * list key => snd cg <> []) gs.
Proof.
  induction l as [|k t IH]; intros ch g gs H.
  - inversion H; constructor.
  - destruct k as [|c k']; [discriminate|]. cbn [group] in H.
    destruct (c =? ch).
    + destruct (group ch t) as [[g1 gs1]|] eqn:E; [|discriminate].
      inversion H; subst. apply (IH _ _ _ E).
    + destruct (c <? ch); [discriminate|].
      destruct (group c t) as [[g1 gs1]|] eqn:E; [|discriminate].
      inversion H; subst. constructor; [cbn; discriminate|apply (IH _ _ _ E)].
Qed.

Lemma groups_nonempty l gs : groups l = Some gs ->
  gs <> [] /\ Forall (fun cg => snd cg <> []) gs.
Proof.
  intros H. destruct (groups_shape _ _ H) as (c & k & t & g & gs' & -> & E & ->).
  split; [discriminate|]. constructor; [cbn; discriminate|apply (group_nonempty _ _ _ _ E)].
Qed.

Lemma group_asc : forall l ch g gs, group ch l = Some (g, gs) -> asc (ch :: map fst gs).
Proof.
  induction l as [|k t IH]; intros ch g gs H.
  - inversion H; exact I.
  - destruct k as [|c k']; [discriminate|]. cbn [group] in H.
    destruct (N.eqb_spec c ch) as [->|Hne].
    + destruct (group ch t) as [[g1 gs1]|] eqn:E; [|discriminate].
      inversion H; subst. apply (IH _ _ _ E).
    + destruct (N.ltb_spec c ch); [discriminate|].
      destruct (group c t) as [[g1 gs1]|] eqn:E; [|discriminate].
      inversion H; subst. cbn [map fst]. apply asc_cons2. split; [lia|apply (IH _ _ _ E)].
Qed.

Lemma asc_tail a l : asc (a :: l) -> asc l.
Proof. destruct l; [intros; exact I|]. intros H. apply (proj1 (asc_cons2 _ _ _)) in H. exact (proj2 H). Qed.

Lemma groups_asc l gs : groups l = Some gs -> asc (map fst gs).
Proof.
  intros H. destruct (groups_shape _ _ H) as (c & k & t & g & gs' & -> & E & ->).
  cbn [map fst]. apply (group_asc _ _ _ _ E).
Qed.

Lemma group_bytes : forall l ch g gs,
  group ch l = Some (g, gs) -> Forall (fun k => bytes_ok k = true) l ->
  Forall (fun k => bytes_ok k = true) g /\
  Forall (fun cg => fst cg < 256 /\ Forall (fun k => bytes_ok k = true) (snd cg)) gs.
Proof.
  induction l as [|k t IH]; intros ch g gs H HB.
  - inversion H; split; constructor.
  - destruct k as [|c k']; [discriminate|]. cbn [group] in H.
    inversion HB as [|? ? Hk Ht]; subst. cbn [bytes_ok forallb] in Hk.
    apply andb_true_iff in Hk. destruct Hk as [Hc Hk']. apply N.ltb_lt in Hc.
    destruct (c =? ch).
    + destruct (group ch t) as [[g1 gs1]|] eqn:E; [|discriminate].
      inversion H; subst. destruct (IH _ _ _ E Ht) as [H1 H2].
      split; [constructor; assumption|assumption].
    + destruct (c <? ch); [discriminate|].
      destruct (group c t) as [[g1 gs1]|] eqn:E; [|discriminate].
      inversion H; subst. destruct (IH _ _ _ E Ht) as [H1 H2].
      split; [constructor|]. constructor; [|assumption].
      cbn [fst snd]. split; [assumption|constructor; assumption].
Qed.

Lemma groups_bytes l gs : groups l = Some gs -> Forall (fun k => bytes_ok k = true) l ->
  Forall (fun cg => fst cg < 256 /\ Forall (fun k => bytes_ok k = true) (snd cg)) gs.
Proof.
  intros H HB. destruct (groups_shape _ _ H) as (c & k & t & g & gs' & -> & E & ->).
  inversion HB as [|? ? Hk Ht]; subst. cbn [bytes_ok forallb] in Hk.
  apply andb_true_iff in Hk. destruct Hk as [Hc Hk']. apply N.ltb_lt in Hc.
  destruct (group_bytes _ _ _ _ E Ht) as [H1 H2].
  constructor; [|assumption]. cbn [fst snd]. split; [assumption|constructor; assumption].
Qed.

Lemma group_msum : forall l ch g gs, group ch l = Some (g, gs) ->
  msum g + fold_right (fun cg acc => msum (snd cg) + acc) 0 gs + lenN l = msum l.
Proof.
  induction l as [|k t IH]; intros ch g gs H.
  - inversion H; reflexivity.
  - destruct k as [|c k']; [discriminate|]. cbn [group] in H.
    destruct (c =? ch).
    + destruct (group ch t) as [[g1 gs1]|] eqn:E; [|discriminate].
      inversion H; subst. specialize (IH _ _ _ E).
      rewrite !msum_cons, !lenN_cons. lia.
    + destruct (c <? ch); [discriminate|].
      destruct (group c t) as [[g1 gs1]|] eqn:E; [|discriminate].
      inversion H; subst. specialize (IH _ _ _ E).
      cbn [fold_right snd]. rewrite !msum_cons, !lenN_cons. change (msum []) with 0. lia.
Qed.

Lemma groups_msum l gs : groups l = Some gs ->
  fold_right (fun cg acc => msum (snd cg) + acc) 0 gs + lenN l = msum l.
Proof.
  intros H. destruct (groups_shape _ _ H) as (c & k & t & g & gs' & -> & E & ->).
  pose proof (group_msum _ _ _ _ E) as IH.
  cbn [fold_right snd]. rewrite !msum_cons, !lenN_cons. lia.
Qed.

Lemma group_maxlen : forall l ch g gs, group ch l = Some (g, gs) ->
  forall M, maxlen l <= M -> 1 <= M ->
  maxlen g + 1 <= M /\ Forall (fun cg => maxlen (snd cg) + 1 <= M) gs.
Proof.
  induction l as [|k t IH]; intros ch g gs H M HM H1.
  - inversion H; subst. split; [change (maxlen []) with 0; lia|constructor].
  - destruct k as [|c k']; [discriminate|]. cbn [group] in H.
    rewrite maxlen_cons, lenN_cons in HM.
    destruct (c =? ch).
    + destruct (group ch t) as [[g1 gs1]|] eqn:E; [|discriminate].
      inversion H; subst. destruct (IH _ _ _ E M) as [A B]; [lia|lia|].
      split; [rewrite maxlen_cons; lia|assumption].
    + destruct (c <? ch); [discriminate|].
      destruct (group c t) as [[g1 gs1]|] eqn:E; [|discriminate].
      inversion H; subst. destruct (IH _ _ _ E M) as [A B]; [lia|lia|].
      split; [change (maxlen []) with 0; lia|].
      constructor; [cbn [snd]; rewrite maxlen_cons; lia|assumption].
Qed.

Lemma groups_maxlen l gs : groups l = Some gs ->
  Forall (fun cg => maxlen (snd cg) + 1 <= maxlen l) gs.
Proof.
  intros H. destruct (groups_shape _ _ H) as (c & k & t & g & gs' & -> & E & ->).
  assert (HM : maxlen t <= maxlen ((c :: k) :: t) /\ lenN k + 1 <= maxlen ((c :: k) :: t))
    by (rewrite maxlen_cons, lenN_cons; lia).
  destruct HM as [HM1 HM2].
  destruct (group_maxlen _ _ _ _ E _ HM1) as [A B]; [lia|].
  constructor; [cbn [snd]; rewrite maxlen_cons; lia|assumption].
Qed.

Lemma groups_none_unsorted c k t :
  groups ((c :: k) :: t) = None -> strictly_sorted ((c :: k) :: t) = false.
Proof. intros H. rewrite groups_sorted, H. reflexivity. Qed.

Lemma sorted_nil_head rest :
  strictly_sorted ([] :: rest) =
  match rest with [] => true | k :: _ => negb (lenN k =? 0) && strictly_sorted rest end.
Proof.
  destruct rest as [|k r]; [reflexivity|]. rewrite ss_cons2. destruct k; reflexivity.
Qed.

Lemma sorted_nonnil_head_nil k0 rest : k0 <> [] -> strictly_sorted (k0 :: [] :: rest) = false.
Proof. intros _. rewrite ss_cons2. destruct k0; reflexivity. Qed.

Lemma group_lengths : forall l ch g gs, group ch l = Some (g, gs) ->
  lenN g + fold_right (fun cg acc => lenN (snd cg) + acc) 0 gs = lenN l.
Proof.
  induction l as [|k t IH]; intros ch g gs H.
  - inversion H; reflexivity.
  - destruct k as [|c k']; [discriminate|]. cbn [group] in H.
    destruct (c =? ch).
    + destruct (group ch t) as [[g1 gs1]|] eqn:E; [|discriminate].
      inversion H; subst. specialize (IH _ _ _ E). rewrite !lenN_cons. lia.
    + destruct (c <? ch); [discriminate|].
      destruct (group c t) as [[g1 gs1]|] eqn:E; [|discriminate].
      inversion H; subst. specialize (IH _ _ _ E).
      cbn [fold_right snd]. rewrite !lenN_cons, lenN_nil. lia.
Qed.

Lemma groups_lengths l gs : groups l = Some gs ->
  fold_right (fun cg acc => lenN (snd cg) + acc) 0 gs = lenN l.
Proof.
  intros H. destruct (groups_shape _ _ H) as (c & k & t & g & gs' & -> & E & ->).
  pose proof (group_lengths _ _ _ _ E) as IH.
  cbn [fold_right snd]. rewrite !lenN_cons. lia.
Qed.

Lemma asc_lt_all a l : asc (a :: l) -> Forall (fun b => a < b) l.
Proof.
  revert a. induction l as [|b l IH]; intros a H; [constructor|].
  apply asc_cons2 in H. destruct H as [Hab H]. constructor; [assumption|].
  eapply Forall_impl; [|apply (IH _ H)]. cbn beta. intros; lia.
Qed.

Lemma asc_NoDup l : asc l -> NoDup l.
Proof.
  induction l as [|a l IH]; intros H; [constructor|].
  constructor; [|apply IH, (asc_tail _ _ H)].
  intros Hin. pose proof (asc_lt_all _ _ H) as HF. rewrite Forall_forall in HF.
  specialize (HF _ Hin). lia.
Qed.

(* ---- 14: an ascending association list is recovered by looking up 0..255 in order ---- *)
Lemma find_key_none {A} (l : list (N * A)) x :
  ~ In x (map fst l) -> find (fun p => fst p =? x) l = None.
Proof.
  induction l as [|p l IH]; intros H; [reflexivity|]. cbn [find].
  destruct (N.eqb_spec (fst p) x) as [E|E].
  - exfalso. apply H. left. exact E.
  - apply IH. intros Hin. apply H. right. exact Hin.
Qed.

Lemma flat_map_ext_in' {A B} (f g : A -> list B) l :
  (forall a, In a l -> f a = g a) -> flat_map f l = flat_map g l.
Proof.
  induction l as [|a l IH]; intros H; [reflexivity|]. cbn [flat_map].
  rewrite (H a (or_introl eq_refl)). f_equal. apply IH. intros b Hb. apply H. right. exact Hb.
Qed.

Lemma asc_flat_map_gen {A} : forall len lo (l : list (N * A)),
  asc (map fst l) ->
  (forall x, In x (map fst l) -> N.of_nat lo <= x < N.of_nat (lo + len)) ->
  flat_map (fun x => match find (fun p => fst p =? x) l with Some p => [p] | None => [] end)
           (map N.of_nat (seq lo len)) = l.
Proof.
  induction len as [|n IH]; intros lo l Hasc Hr.
  - destruct l as [|p l]; [reflexivity|]. exfalso.
    specialize (Hr (fst p) (or_introl eq_refl)). lia.
  - cbn [seq map flat_map].
    destruct l as [|[a v] l'].
    + cbn [find app]. apply (IH (S lo) []); [exact I|]. intros x [].
    + cbn [map fst] in Hasc, Hr.
      pose proof (asc_lt_all _ _ Hasc) as Hall. rewrite Forall_forall in Hall.
      destruct (N.eq_dec a (N.of_nat lo)) as [Ea|Ea].
      * cbn [find fst]. rewrite (proj2 (N.eqb_eq _ _) Ea). cbn [app]. f_equal.
        etransitivity; [|apply (IH (S lo) l')].
        -- apply flat_map_ext_in'. intros x Hx. cbn [find fst].
           apply in_map_iff in Hx. destruct Hx as (m & <- & Hm). apply in_seq in Hm.
           destruct (N.eqb_spec a (N.of_nat m)); [lia|reflexivity].
        -- apply (asc_tail _ _ Hasc).
        -- intros x Hx. specialize (Hall _ Hx). specialize (Hr x (or_intror Hx)). lia.
      * rewrite find_key_none.
        -- cbn [app]. apply (IH (S lo) ((a, v) :: l')); [exact Hasc|].
           intros x Hx. cbn [map fst] in Hx. pose proof (Hr x Hx) as Hx'.
           pose proof (Hr a (or_introl eq_refl)) as Ha.
           destruct Hx as [<-|Hx]; [lia|]. specialize (Hall _ Hx). lia.
        -- cbn [map fst]. intros [E|Hin]; [congruence|].
           specialize (Hall _ Hin). pose proof (Hr a (or_introl eq_refl)). lia.
Qed.

Lemma asc_flat_map_id {A} (l : list (N * A)) :
  asc (map fst l) -> (forall x, In x (map fst l) -> x < 256) ->
  flat_map (fun x => match find (fun p => fst p =? x) l with Some p => [p] | None => [] end) bytes256 = l.
Proof.
  intros Hasc Hr. unfold bytes256. apply asc_flat_map_gen; [exact Hasc|].
  intros x Hx. specialize (Hr x Hx). lia.
Qed.

(* ---- 15 ---- *)
Lemma msum_total K : msum K = total_bytes K.
Proof. reflexivity. Qed.

Lemma msum_app a b : msum (a ++ b) = msum a + msum b.
Proof.
  induction a as [|k a IH]; [change (msum []) with 0; cbn [app]; lia|].
  cbn [app]. rewrite !msum_cons, IH. lia.
Qed.

Lemma maxlen_in k l : In k l -> lenN k <= maxlen l.
Proof.
  induction l as [|x l IH]; intros H; [destruct H|].
  rewrite maxlen_cons. destruct H as [->|H]; [lia|]. specialize (IH H). lia.
Qed.

(* ================= (B) code-table statistics ================= *)
Lemma freq_acc b : forall K a,
  fold_left (fun acc k => acc + count_byte b k) K a =
  a + fold_right (fun k s => count_byte b k + s) 0 K.
Proof.
  induction K as [|k K IH]; intros a; cbn [fold_left fold_right]; [lia|].
  rewrite IH. lia.
Qed.

Lemma count_byte_zero b k : (count_byte b k =? 0) = negb (existsb (N.eqb b) k).
Proof.
  induction k as [|c t IH]; [reflexivity|]. cbn [count_byte existsb].
  rewrite negb_orb, <- IH, (N.eqb_sym b c).
  destruct (c =? b); destruct (N.eqb_spec (count_byte b t) 0) as [E|E]; cbn [negb andb].
  - apply N.eqb_neq. lia.
  - apply N.eqb_neq. lia.
  - apply N.eqb_eq. lia.
  - apply N.eqb_neq. lia.
Qed.

Lemma freq_occurs K b : negb (freq K b =? 0) = occurs b K.
Proof.
  unfold freq, occurs. rewrite freq_acc.
  induction K as [|k K IH]; [reflexivity|]. cbn [fold_right existsb].
  pose proof (count_byte_zero b k) as Hk.
  destruct (existsb (N.eqb b) k); cbn [negb orb] in *.
  - apply N.eqb_neq in Hk. apply negb_true_iff. apply N.eqb_neq. lia.
  - apply N.eqb_eq in Hk. rewrite <- IH. f_equal. f_equal. lia.
Qed.

Lemma alphabet_of_spec K : alphabet_of K = spec_alphabet K.
Proof.
  unfold alphabet_of, spec_alphabet, bytes256. apply filter_ext. intros b. apply freq_occurs.
Qed.

Lemma max_length_acc : forall K a,
  fold_left (fun acc k => N.max acc (lenN k)) K a = N.max a (maxlen K).
Proof.
  induction K as [|k K IH]; intros a; cbn [fold_left].
  - change (maxlen []) with 0. lia.
  - rewrite IH, maxlen_cons. lia.
Qed.

Lemma max_length_of_maxlen K : max_length_of K = maxlen K.
Proof. unfold max_length_of. rewrite max_length_acc. lia. Qed.

Lemma max_length_of_spec K : max_length_of K = spec_max_length K.
Proof. rewrite max_length_of_maxlen. reflexivity. Qed.

Lemma filter_head_nonzero (f : N -> bool) l :
  (forall x, In x l -> x <> 0) ->
  match filter f l with b :: _ => b =? 0 | [] => false end = false.
Proof.
  intros H. destruct (filter f l) as [|b r] eqn:E; [reflexivity|].
  apply N.eqb_neq. apply H. apply (proj1 (filter_In f b l)). rewrite E. left. reflexivity.
Qed.

Lemma bytes256_unfold : bytes256 = 0 :: map N.of_nat (seq 1 255).
Proof. reflexivity. Qed.
Lemma filter_cons' {A} (f : A -> bool) a l :
  filter f (a :: l) = if f a then a :: filter f l else filter f l.
Proof. reflexivity. Qed.

Lemma has_null_spec tbl K : ct_has_null (ct_build tbl K) = occurs 0 K.
Proof.
  unfold ct_has_null, ct_build. cbn [ct_alpha]. rewrite alist_of_list.
  unfold alphabet_of. rewrite bytes256_unfold.
  rewrite filter_cons'. rewrite freq_occurs. destruct (occurs 0 K); [reflexivity|].
  apply filter_head_nonzero. intros x Hx.
  apply in_map_iff in Hx. destruct Hx as (m & <- & Hm). apply in_seq in Hm. lia.
Qed.

(* ================= (C) the edge scan ================= *)
Lemma rng_key keys beg kpos ss j : rng keys beg kpos ss -> (j < length ss)%nat ->
  exists k, key_at keys (beg + N.of_nat j) = Ok k /\ kpos <= lenN k /\
            skipn (N.to_nat kpos) k = nth j ss [].
Proof.
  intros H Hj. destruct (H j Hj) as (k & E & Hl & Hs). exists k. unfold key_at. rewrite E. auto.
Qed.

Lemma rng_tail keys beg kpos a ss : rng keys beg kpos (a :: ss) -> rng keys (beg + 1) kpos ss.
Proof.
  intros H j Hj. destruct (H (S j)) as (k & E & Hl & Hs); [cbn [length]; lia|].
  exists k. replace (beg + 1 + N.of_nat j) with (beg + N.of_nat (S j)) by lia. auto.
Qed.

Lemma rng_app keys beg kpos a b : rng keys beg kpos (a ++ b) ->
  rng keys beg kpos a /\ rng keys (beg + lenN a) kpos b.
Proof.
  intros H. split; intros j Hj.
  - destruct (H j) as (k & E & Hl & Hs); [rewrite app_length; lia|].
    exists k. rewrite app_nth1 in Hs by exact Hj. auto.
  - destruct (H (length a + j)%nat) as (k & E & Hl & Hs); [rewrite app_length; lia|].
    exists k. rewrite app_nth2 in Hs by lia.
    replace (length a + j - length a)%nat with j in Hs by lia.
    replace (beg + lenN a + N.of_nat j) with (beg + N.of_nat (length a + j)) by (unfold lenN; lia). auto.
Qed.

Lemma skipn_cons_succ {A} : forall n (k : list A) c k',
  skipn n k = c :: k' -> skipn (S n) k = k' /\ (n < length k)%nat /\ nth_error k n = Some c.
Proof.
  induction n as [|n IH]; intros k c k' H.
  - destruct k; [discriminate|]. cbn [skipn] in H. inversion H; subst. cbn. repeat split; lia.
  - destruct k as [|x k]; [discriminate|]. cbn [skipn] in H. destruct (IH _ _ _ H) as (A1 & A2 & A3).
    repeat split; [exact A1|cbn [length]; lia|exact A3].
Qed.

Lemma rng_child keys beg kpos c g : rng keys beg kpos (map (cons c) g) -> rng keys beg (kpos + 1) g.
Proof.
  intros H j Hj. destruct (H j) as (k & E & Hl & Hs); [rewrite map_length; exact Hj|].
  exists k. rewrite (nth_indep _ [] (c :: [])) in Hs by (rewrite map_length; exact Hj).
  rewrite (map_nth (cons c)) in Hs.
  destruct (skipn_cons_succ _ _ _ _ Hs) as (A1 & A2 & _).
  replace (N.to_nat (kpos + 1)) with (S (N.to_nat kpos)) by lia.
  repeat split; [exact E|unfold lenN; lia|exact A1].
Qed.

Lemma key_len_suffix kpos (k : key) : kpos <= lenN k ->
  (lenN k =? kpos) = (match skipn (N.to_nat kpos) k with [] => true | _ => false end) /\
  (lenN k <=? kpos) = (match skipn (N.to_nat kpos) k with [] => true | _ => false end).
Proof.
  intros H. unfold lenN in *.
  destruct (skipn (N.to_nat kpos) k) as [|c r] eqn:E; apply (f_equal (@length N)) in E;
    rewrite skipn_length in E; cbn [length] in E.
  - split; [apply N.eqb_eq|apply N.leb_le]; lia.
  - split; [apply N.eqb_neq|apply N.leb_gt]; lia.
Qed.

Lemma key_char_suffix kpos (k : key) c k' : skipn (N.to_nat kpos) k = c :: k' -> key_char k kpos = Ok c.
Proof.
  intros H. unfold key_char, nthN. destruct (skipn_cons_succ _ _ _ _ H) as (_ & _ & E).
  rewrite E. reflexivity.
Qed.

Lemma scan_edges_spec keys kpos : forall l i ch start acc,
  rng keys i kpos l ->
  scan_edges keys (length l) kpos i ch start acc =
  match group ch l with
  | None => Exc NotSorted
  | Some (g, gs) => Ok (rev acc ++ (ch, start, i + lenN g) :: index_ranges (i + lenN g) gs)
  end.
Proof.
  induction l as [|hd t IH]; intros i ch start acc H.
  - cbn [length scan_edges group index_ranges rev]. rewrite lenN_nil, N.add_0_r. reflexivity.
  - destruct (rng_key _ _ _ _ 0%nat H) as (k & Ek & Hl & Hs); [cbn [length]; lia|].
    change (N.of_nat 0) with 0 in Ek. rewrite N.add_0_r in Ek. cbn [nth] in Hs.
    cbn [length scan_edges]. rewrite Ek. cbn [bind].
    destruct (key_len_suffix _ _ Hl) as [_ Hle]. rewrite Hle, Hs.
    destruct hd as [|c k']; [reflexivity|].
    rewrite (key_char_suffix _ _ _ _ Hs). cbn [bind group].
    rewrite (N.eqb_sym c ch).
    apply rng_tail in H.
    destruct (N.eqb_spec ch c) as [->|Hne]; cbn [negb].
    + rewrite (IH _ _ _ _ H). destruct (group c t) as [[g gs]|]; [|reflexivity].
      rewrite lenN_cons. replace (i + (lenN g + 1)) with (i + 1 + lenN g) by lia. reflexivity.
    + destruct (c <? ch); [reflexivity|].
      rewrite (IH _ _ _ _ H). destruct (group c t) as [[g gs]|]; [|reflexivity].
      cbn [rev index_ranges fst snd]. rewrite lenN_nil, N.add_0_r, lenN_cons.
      replace (i + (lenN g + 1)) with (i + 1 + lenN g) by lia.
      rewrite <- app_assoc. reflexivity.
Qed.

Lemma index_ranges_spec : forall gs start,
  map (fun r => fst (fst r)) (index_ranges start gs) = map fst gs.
Proof.
  induction gs as [|cg r IH]; intros start; [reflexivity|].
  cbn [index_ranges map fst]. f_equal. apply IH.
Qed.

Print Assumptions groups_sorted.
Print Assumptions scan_edges_spec.
Print Assumptions alphabet_of_spec.
