(* BuilderTree.v: facts about abstract trees (Wf.tree), their registered suffixes, and trees laid out in a
   unit array (BuilderDefs.lay); the extraction of a laid-out tree returns that tree. *)
From Coq Require Import FMapPositive Lia ZifyN ZifyBool ZifyNat Arith PeanoNat.
From X Require Import Base Arr ArrFacts Consts BitToolsSpec BitToolsGen BitVector CompactVector Dac Tail Trie Spec Iface Wf Builder BuilderDefs PhysFacts.
Local Open Scope N_scope.

Arguments N.lxor : simpl never.
Arguments N.add : simpl never.

(* ------------------------------------------------------------------ induction principle *)
Lemma tree_ind2 : forall P : tree -> Prop,
  (forall u s, P (TLeaf u s)) ->
  (forall u tm cs, Forall (fun xc => P (snd xc)) cs -> P (TNode u tm cs)) ->
  forall t, P t.
Proof.
  intros P Hl Hn.
  exact (fix IH t :=
           match t with
           | TLeaf u s => Hl u s
           | TNode u tm cs =>
             Hn u tm cs ((fix go (cs : list (N * tree)) : Forall (fun xc => P (snd xc)) cs :=
                            match cs with
                            | [] => Forall_nil _
                            | (x, c) :: r => Forall_cons (x, c) (IH c) (go r)
                            end) cs)
           end).
Qed.

(* ------------------------------------------------------------------ (A) unfolding the nested fixes *)
Lemma keys_of_node u tm cs :
  keys_of (TNode u tm cs) =
  (if tm then [[]] else []) ++ flat_map (fun xc => map (cons (fst xc)) (keys_of (snd xc))) cs.
Proof.
  cbn [keys_of]. f_equal.
  induction cs as [|[x c] r IH]; cbn [flat_map fst snd]; [reflexivity|]. rewrite IH. reflexivity.
Qed.

Lemma nodes_of_node u tm cs :
  nodes_of (TNode u tm cs) = u :: flat_map (fun xc => nodes_of (snd xc)) cs.
Proof.
  cbn [nodes_of]. f_equal.
  induction cs as [|[x c] r IH]; cbn [flat_map fst snd]; [reflexivity|]. rewrite IH. reflexivity.
Qed.

Lemma nkeys_of_node u tm cs :
  nkeys_of (TNode u tm cs) =
  (if tm then 1 else 0) + fold_right (fun xc acc => nkeys_of (snd xc) + acc) 0 cs.
Proof.
  cbn [nkeys_of]. f_equal.
  induction cs as [|[x c] r IH]; cbn [fold_right fst snd]; [reflexivity|]. rewrite IH. reflexivity.
Qed.

Lemma minimal_node u tm cs :
  minimal (TNode u tm cs) =
  (2 <=? nkeys_of (TNode u tm cs)) &&
  forallb (fun xc => (1 <=? nkeys_of (snd xc)) && minimal (snd xc)) cs.
Proof.
  cbn [minimal]. f_equal.
  induction cs as [|[x c] r IH]; cbn [forallb fst snd]; [reflexivity|]. rewrite IH. reflexivity.
Qed.

Lemma depth_node u tm cs :
  depth (TNode u tm cs) = S (fold_right (fun xc acc => Nat.max (depth (snd xc)) acc) 0%nat cs).
Proof.
  cbn [depth]. f_equal.
  induction cs as [|[x c] r IH]; cbn [fold_right fst snd]; [reflexivity|]. rewrite IH. reflexivity.
Qed.

Lemma tsufs_node u tm cs : tsufs (TNode u tm cs) = flat_map (fun xc => tsufs (snd xc)) cs.
Proof.
  cbn [tsufs].
  induction cs as [|[x c] r IH]; cbn [flat_map fst snd]; [reflexivity|]. rewrite IH. reflexivity.
Qed.

Lemma terms_okb_node V u tm cs :
  terms_okb V (TNode u tm cs) = forallb (fun xc => terms_okb V (snd xc)) cs.
Proof.
  cbn [terms_okb].
  induction cs as [|[x c] r IH]; cbn [forallb fst snd]; [reflexivity|]. rewrite IH. reflexivity.
Qed.

Lemma lay_node n bas chk usedb leafb termb sfx cd u tm cs :
  lay n bas chk usedb leafb termb sfx cd (TNode u tm cs) <->
  (u < n /\ usedb u = true /\ leafb u = false /\ termb u = tm /\ asc (map fst cs) /\
   (forall x, In x (map fst cs) -> x < 256) /\
   (forall x, x < 256 -> N.lxor (bas u) (cd x) < n) /\
   (forall x, x < 256 -> ~ In x (map fst cs) -> N.lxor (bas u) (cd x) <> 1 ->
              usedb (N.lxor (bas u) (cd x)) = true -> chk (N.lxor (bas u) (cd x)) <> u) /\
   Forall (fun xc => root_of (snd xc) = N.lxor (bas u) (cd (fst xc)) /\ chk (root_of (snd xc)) = u /\
                     lay n bas chk usedb leafb termb sfx cd (snd xc)) cs).
Proof.
  assert (HG : forall cs',
    (fix go (cs : list (N * tree)) : Prop :=
       match cs with
       | [] => True
       | (x, c) :: r => root_of c = N.lxor (bas u) (cd x) /\ chk (root_of c) = u /\
                        lay n bas chk usedb leafb termb sfx cd c /\ go r
       end) cs' <->
    Forall (fun xc => root_of (snd xc) = N.lxor (bas u) (cd (fst xc)) /\ chk (root_of (snd xc)) = u /\
                      lay n bas chk usedb leafb termb sfx cd (snd xc)) cs').
  { induction cs' as [|[x c] r IH].
    - split; intros _; [constructor|exact I].
    - split.
      + intros (H1 & H2 & H3 & H4). constructor; [cbn [fst snd]; auto|]. apply IH. exact H4.
      + intros H. inversion H as [|? ? Ha Hb]; subst. cbn [fst snd] in Ha.
        destruct Ha as (H1 & H2 & H3). split; [exact H1|]. split; [exact H2|]. split; [exact H3|].
        apply IH. exact Hb. }
  cbn [lay].
  split; intros (H1 & H2 & H3 & H4 & H5 & H6 & H7 & H8 & H9);
    (split; [exact H1|]); (split; [exact H2|]); (split; [exact H3|]); (split; [exact H4|]);
    (split; [exact H5|]); (split; [exact H6|]); (split; [exact H7|]); (split; [exact H8|]);
    apply HG; exact H9.
Qed.

Lemma root_in_nodes t : In (root_of t) (nodes_of t).
Proof. destruct t as [u s|u tm cs]; [left; reflexivity|]. rewrite nodes_of_node. left. reflexivity. Qed.

(* ------------------------------------------------------------------ (B) general tree facts *)
Lemma lenN_app {A} (a b : list A) : lenN (a ++ b) = lenN a + lenN b.
Proof. unfold lenN. rewrite app_length. lia. Qed.
Lemma lenN_map {A B} (f : A -> B) l : lenN (map f l) = lenN l.
Proof. unfold lenN. rewrite map_length. reflexivity. Qed.

Lemma nkeys_len t : nkeys_of t = lenN (keys_of t).
Proof.
  induction t as [u s|u tm cs IH] using tree_ind2; [reflexivity|].
  rewrite nkeys_of_node, keys_of_node, lenN_app. f_equal; [destruct tm; reflexivity|].
  induction IH as [|[x c] r Hc Hr IHr]; cbn [fold_right flat_map fst snd]; [reflexivity|].
  cbn [snd] in Hc. rewrite lenN_app, lenN_map, IHr, Hc. reflexivity.
Qed.

Lemma tsufs_nodes t : incl (map snd (tsufs t)) (nodes_of t).
Proof.
  induction t as [u s|u tm cs IH] using tree_ind2.
  - destruct s; cbn [tsufs nodes_of map snd]; [intros x []|apply incl_refl].
  - rewrite tsufs_node, nodes_of_node. apply incl_tl.
    induction IH as [|[x c] r Hc Hr IHr]; cbn [flat_map fst snd]; [intros y []|].
    cbn [snd] in Hc. rewrite map_app. apply incl_app; [apply incl_appl; exact Hc|apply incl_appr; exact IHr].
Qed.

Lemma NoDup_app_intro {A} (a b : list A) :
  NoDup a -> NoDup b -> (forall x, In x a -> ~ In x b) -> NoDup (a ++ b).
Proof.
  induction a as [|x a IH]; intros Ha Hb Hd; [exact Hb|].
  inversion Ha as [|? ? Hx Ha']; subst. cbn [app]. constructor.
  - intros Hin. apply in_app_or in Hin. destruct Hin as [Hin|Hin]; [exact (Hx Hin)|].
    exact (Hd x (or_introl eq_refl) Hin).
  - apply IH; [exact Ha'|exact Hb|]. intros y Hy. apply Hd. right. exact Hy.
Qed.
Lemma NoDup_app_elim {A} (a b : list A) :
  NoDup (a ++ b) -> NoDup a /\ NoDup b /\ (forall x, In x a -> ~ In x b).
Proof.
  induction a as [|x a IH]; intros H.
  - split; [constructor|]. split; [exact H|]. intros x [].
  - cbn [app] in H. inversion H as [|? ? Hx H']; subst. apply IH in H'. destruct H' as (H1 & H2 & H3).
    split; [constructor; [|exact H1]; intros Hi; apply Hx; apply in_or_app; left; exact Hi|].
    split; [exact H2|]. intros y [<-|Hy] Hb; [apply Hx; apply in_or_app; right; exact Hb|exact (H3 y Hy Hb)].
Qed.

Lemma tsufs_NoDup t : NoDup (nodes_of t) -> NoDup (map snd (tsufs t)).
Proof.
  induction t as [u s|u tm cs IH] using tree_ind2.
  - intros _. destruct s; cbn [tsufs map snd]; [constructor|]. constructor; [intros []|constructor].
  - rewrite tsufs_node, nodes_of_node. intros H. inversion H as [|? ? _ H']; subst. clear H.
    induction IH as [|[x c] r Hc Hr IHr]; cbn [flat_map fst snd] in *; [constructor|].
    apply NoDup_app_elim in H'. destruct H' as (H1 & H2 & H3). rewrite map_app.
    apply NoDup_app_intro; [apply Hc; exact H1|apply IHr; exact H2|].
    intros y Hy Hy'. apply (H3 y).
    + apply (tsufs_nodes c). exact Hy.
    + clear - Hy'. induction r as [|[x' c'] r IH]; cbn [flat_map map fst snd] in *; [contradiction|].
      rewrite map_app in Hy'. apply in_app_or in Hy'. apply in_or_app.
      destruct Hy' as [Hy'|Hy']; [left; apply (tsufs_nodes c'); exact Hy'|right; apply IH; exact Hy'].
Qed.

Lemma tsufs_keys t suf u :
  In (suf, u) (tsufs t) -> suf <> [] /\ exists p, In (p ++ suf) (keys_of t).
Proof.
  revert suf u. induction t as [v s|v tm cs IH] using tree_ind2; intros suf u H.
  - destruct s as [|b s]; cbn [tsufs] in H; [contradiction|]. destruct H as [H|[]].
    inversion H; subst. split; [discriminate|]. exists []. left. reflexivity.
  - rewrite tsufs_node in H. apply in_flat_map in H. destruct H as ([x c] & Hin & H). cbn [snd] in H.
    rewrite Forall_forall in IH. specialize (IH _ Hin _ _ H). cbn [snd] in IH.
    destruct IH as (Hne & p & Hp). split; [exact Hne|]. exists (x :: p).
    rewrite keys_of_node. apply in_or_app. right. apply in_flat_map. exists (x, c). split; [exact Hin|].
    cbn [fst snd app]. apply in_map. exact Hp.
Qed.

Definition ssum (l : list suffix) : N := fold_right (fun sn acc => lenN (fst sn) + 1 + acc) 0 l.
Lemma ssum_app a b : ssum (a ++ b) = ssum a + ssum b.
Proof. unfold ssum. induction a as [|x a IH]; cbn [app fold_right]; lia. Qed.
Lemma msum_app a b : msum (a ++ b) = msum a + msum b.
Proof. unfold msum. induction a as [|x a IH]; cbn [app fold_right]; lia. Qed.
Lemma msum_map_cons x l : msum l <= msum (map (cons x) l).
Proof.
  unfold msum. induction l as [|k l IH]; cbn [map fold_right]; [lia|].
  unfold lenN in *. cbn [length]. lia.
Qed.

Lemma tsufs_size t :
  fold_right (fun sn acc => lenN (fst sn) + 1 + acc) 0 (tsufs t) <= msum (keys_of t).
Proof.
  fold (ssum (tsufs t)).
  induction t as [v s|v tm cs IH] using tree_ind2.
  - destruct s; cbn [tsufs keys_of ssum msum fold_right fst]; lia.
  - rewrite tsufs_node, keys_of_node, msum_app.
    assert (ssum (flat_map (fun xc => tsufs (snd xc)) cs) <=
            msum (flat_map (fun xc => map (cons (fst xc)) (keys_of (snd xc))) cs)); [|lia].
    induction IH as [|[x c] r Hc Hr IHr]; cbn [flat_map fst snd] in *; [cbn; lia|].
    rewrite ssum_app, msum_app. pose proof (msum_map_cons x (keys_of c)). lia.
Qed.

Lemma NoDup_nodup_fast_gen : forall l ok m,
  NoDup l -> (forall x, In x l -> PM.find (N.succ_pos x) m = None) ->
  fst (fold_left (fun st x => let '(ok, m) := st in
                   match PM.find (N.succ_pos x) m with
                   | Some _ => (false, m)
                   | None => (ok, PM.add (N.succ_pos x) tt m) end) l (ok, m)) = ok.
Proof.
  induction l as [|x l IH]; intros ok m Hnd Hm; [reflexivity|].
  cbn [fold_left]. rewrite (Hm x (or_introl eq_refl)).
  inversion Hnd as [|? ? Hx Hnd']; subst. apply IH; [exact Hnd'|].
  intros y Hy. rewrite PM.gso; [apply Hm; right; exact Hy|].
  intros E. apply succ_pos_inj in E. subst. exact (Hx Hy).
Qed.

Lemma NoDup_nodup_fast l : NoDup l -> nodup_fast l = true.
Proof.
  intros H. unfold nodup_fast. apply NoDup_nodup_fast_gen; [exact H|]. intros x _. apply PM.gempty.
Qed.

Lemma list_eqb_key_refl (K : list key) : list_eqb key_eqb K K = true.
Proof.
  induction K as [|k K IH]; cbn [list_eqb]; [reflexivity|]. rewrite IH.
  rewrite (proj2 (key_eqb_eq k k) eq_refl). reflexivity.
Qed.
Lemma list_eqb_N_refl (l : list N) : list_eqb N.eqb l l = true.
Proof. induction l as [|k K IH]; cbn [list_eqb]; [reflexivity|]. rewrite IH, N.eqb_refl. reflexivity. Qed.

Definition sfx_of (sufs : list suffix) (u : N) : key :=
  match PM.find (N.succ_pos u) (suf_map sufs) with Some s => s | None => [] end.

Lemma sfx_of_view L u : suffix_at (view_of L) u = sfx_of (lg_sufs L) u.
Proof. reflexivity. Qed.

Lemma sfx_of_notin l u : ~ In u (map snd l) -> sfx_of l u = [].
Proof.
  intros H. unfold sfx_of. rewrite suf_map_fm, fm_none; [reflexivity|].
  intros a Ha E. apply H. apply in_map_iff. exists a. auto.
Qed.

Lemma suf_map_app l new : suf_map (l ++ new) = fm snd fst new (suf_map l).
Proof. unfold suf_map, fm. apply fold_left_app. Qed.

Lemma sfx_of_app_notin l new u : ~ In u (map snd new) -> sfx_of (l ++ new) u = sfx_of l u.
Proof.
  intros H. unfold sfx_of. rewrite suf_map_app, fm_notin; [reflexivity|].
  intros a Ha E. apply H. apply in_map_iff. exists a. auto.
Qed.

Lemma sfx_of_snoc l s u : sfx_of (l ++ [(s, u)]) u = s.
Proof. unfold sfx_of. rewrite suf_map_app. unfold fm. cbn [fold_left fst snd]. rewrite PM.gss. reflexivity. Qed.

Lemma in_set_of_iff l u : in_set (set_of l) u = true <-> In u l.
Proof. apply in_set_spec. Qed.

(* ------------------------------------------------------------------ (C) facts from [lay] *)
Lemma in_nodes_child x c cs v : In (x, c) cs -> In v (nodes_of c) ->
  In v (flat_map (fun xc : N * tree => nodes_of (snd xc)) cs).
Proof. intros H1 H2. apply in_flat_map. exists (x, c). split; [exact H1|exact H2]. Qed.

Section LayFacts.
Variables (n : N) (bas chk : N -> N) (usedb leafb termb : N -> bool) (sfx : N -> key) (cd : N -> N).
Notation LAY := (lay n bas chk usedb leafb termb sfx cd).

Lemma lay_root t : LAY t -> root_of t < n /\ usedb (root_of t) = true.
Proof.
  destruct t as [u s|u tm cs]; [cbn [lay root_of]; tauto|].
  intros H. apply lay_node in H. cbn [root_of]. tauto.
Qed.

Lemma lay_nodes t : LAY t -> forall v, In v (nodes_of t) -> v < n /\ usedb v = true.
Proof.
  induction t as [u s|u tm cs IH] using tree_ind2; intros H v Hv.
  - destruct Hv as [<-|[]]. cbn [lay] in H. tauto.
  - apply lay_node in H. destruct H as (H1 & H2 & _ & _ & _ & _ & _ & _ & H9).
    rewrite nodes_of_node in Hv. destruct Hv as [<-|Hv]; [auto|].
    apply in_flat_map in Hv. destruct Hv as ([x c] & Hin & Hv). cbn [snd] in Hv.
    rewrite Forall_forall in IH, H9. apply (IH _ Hin); [|exact Hv]. apply (H9 _ Hin).
Qed.

Lemma lay_leaf_base t i :
  LAY t -> In i (nodes_of t) -> leafb i = true -> In i (map snd (tsufs t)) \/ bas i = 0.
Proof.
  induction t as [u s|u tm cs IH] using tree_ind2; intros H Hi Hl.
  - destruct Hi as [<-|[]]. cbn [lay] in H. destruct s as [|b s]; [right; apply H; reflexivity|].
    left. left. reflexivity.
  - apply lay_node in H. destruct H as (_ & _ & H3 & _ & _ & _ & _ & _ & H9).
    rewrite nodes_of_node in Hi. destruct Hi as [<-|Hi]; [congruence|].
    apply in_flat_map in Hi. destruct Hi as ([x c] & Hin & Hi). cbn [snd] in Hi.
    rewrite Forall_forall in IH, H9. destruct (IH _ Hin (proj2 (proj2 (H9 _ Hin))) Hi Hl) as [Hs|Hb]; [|right; exact Hb].
    left. rewrite tsufs_node. cbn [snd] in Hs. apply in_map_iff in Hs. destruct Hs as (sn & E & Hs).
    apply in_map_iff. exists sn. split; [exact E|]. apply in_flat_map. exists (x, c). split; [exact Hin|exact Hs].
Qed.

Lemma NoDup_flat_child {A} (f : A -> list N) : forall (cs : list A) a,
  NoDup (flat_map f cs) -> In a cs -> NoDup (f a).
Proof.
  induction cs as [|b cs IH]; intros a H Hin; [contradiction|].
  cbn [flat_map] in H. apply NoDup_app_elim in H. destruct H as (H1 & H2 & _).
  destruct Hin as [<-|Hin]; [exact H1|]. apply IH; assumption.
Qed.

Lemma lay_chk_ne t :
  LAY t -> NoDup (nodes_of t) -> forall c, In c (nodes_of t) -> c <> root_of t -> chk c <> c.
Proof.
  induction t as [u s|u tm cs IH] using tree_ind2; intros H Hnd c Hc Hne.
  - destruct Hc as [<-|[]]. cbn [root_of] in Hne. congruence.
  - apply lay_node in H. destruct H as (_ & _ & _ & _ & _ & _ & _ & _ & H9).
    rewrite nodes_of_node in Hc, Hnd. cbn [root_of] in Hne. destruct Hc as [<-|Hc]; [congruence|].
    inversion Hnd as [|? ? Hu Hnd']; subst.
    apply in_flat_map in Hc. destruct Hc as ([x ch] & Hin & Hc). cbn [snd] in Hc.
    rewrite Forall_forall in IH, H9. destruct (H9 _ Hin) as (_ & Hk & Hl). cbn [snd] in Hk, Hl.
    destruct (N.eq_dec c (root_of ch)) as [->|Hr].
    + rewrite Hk. intros E. apply Hu. rewrite E. apply (in_nodes_child x ch); [exact Hin|apply root_in_nodes].
    + apply (IH _ Hin Hl); [|exact Hc|exact Hr].
      apply (NoDup_flat_child (fun xc : N * tree => nodes_of (snd xc)) cs (x, ch) Hnd' Hin).
Qed.

Lemma lay_tsufs t suf u : LAY t -> In (suf, u) (tsufs t) -> u < n /\ leafb u = true.
Proof.
  revert suf u. induction t as [v s|v tm cs IH] using tree_ind2; intros suf u H Hin.
  - destruct s as [|b s]; cbn [tsufs] in Hin; [contradiction|]. destruct Hin as [E|[]].
    inversion E; subst. cbn [lay] in H. tauto.
  - apply lay_node in H. destruct H as (_ & _ & _ & _ & _ & _ & _ & _ & H9).
    rewrite tsufs_node in Hin. apply in_flat_map in Hin. destruct Hin as ([x c] & Hc & Hin).
    rewrite Forall_forall in IH, H9. apply (IH _ Hc suf u); [apply (H9 _ Hc)|exact Hin].
Qed.

Lemma terms_okb_lay (V : lview) t :
  LAY t -> (forall i, i < n -> vget (v_terms V) i false = termb i) -> terms_okb V t = true.
Proof.
  intros H HV. induction t as [v s|v tm cs IH] using tree_ind2.
  - cbn [lay] in H. cbn [terms_okb]. rewrite HV by tauto. tauto.
  - apply lay_node in H. destruct H as (_ & _ & _ & _ & _ & _ & _ & _ & H9).
    rewrite terms_okb_node. apply forallb_forall. intros [x c] Hin.
    rewrite Forall_forall in IH, H9. apply (IH _ Hin). apply (H9 _ Hin).
Qed.
End LayFacts.

Lemma lay_stable n bas chk usedb leafb termb sfx cd n' bas' chk' usedb' leafb' termb' sfx' t :
  lay n bas chk usedb leafb termb sfx cd t -> n <= n' ->
  (forall v, In v (nodes_of t) -> bas' v = bas v /\ chk' v = chk v /\ usedb' v = true /\
                                   leafb' v = leafb v /\ termb' v = termb v /\ sfx' v = sfx v) ->
  (forall v c, In v (nodes_of t) -> c <> 1 -> usedb' c = true -> chk' c = v -> usedb c = true /\ chk c = v) ->
  lay n' bas' chk' usedb' leafb' termb' sfx' cd t.
Proof.
  intros H Hn. induction t as [u s|u tm cs IH] using tree_ind2; intros Hs Hc.
  - cbn [lay] in *. destruct (Hs u (or_introl eq_refl)) as (E1 & E2 & E3 & E4 & E5 & E6).
    rewrite E1, E4, E5, E6. destruct H as (H1 & H2 & H3 & H4 & H5 & H6).
    split; [lia|]. tauto.
  - apply lay_node in H. destruct H as (H1 & H2 & H3 & H4 & H5 & H6 & H7 & H8 & H9).
    apply lay_node.
    assert (Hu : In u (nodes_of (TNode u tm cs))) by (rewrite nodes_of_node; left; reflexivity).
    destruct (Hs u Hu) as (E1 & E2 & E3 & E4 & E5 & E6). rewrite E1, E4, E5.
    split; [lia|]. split; [exact E3|]. split; [exact H3|]. split; [exact H4|].
    split; [exact H5|]. split; [exact H6|].
    split; [intros x Hx; specialize (H7 x Hx); lia|].
    split.
    + intros x Hx Hni Hne Hus Hck. destruct (Hc u _ Hu Hne Hus Hck) as (Ha & Hb).
      exact (H8 x Hx Hni Hne Ha Hb).
    + rewrite Forall_forall in *. intros [x c] Hin. cbn [fst snd].
      destruct (H9 _ Hin) as (Ha & Hb & Hl). cbn [fst snd] in Ha, Hb, Hl.
      assert (Hsub : forall v, In v (nodes_of c) -> In v (nodes_of (TNode u tm cs))).
      { intros v Hv. rewrite nodes_of_node. right. apply (in_nodes_child x c); assumption. }
      split; [exact Ha|]. split.
      * destruct (Hs _ (Hsub _ (root_in_nodes c))) as (_ & E & _). rewrite E. exact Hb.
      * apply (IH _ Hin Hl).
        -- intros v Hv. apply Hs. apply Hsub. exact Hv.
        -- intros v c0 Hv. apply Hc. apply Hsub. exact Hv.
Qed.

(* ------------------------------------------------------------------ ascending child lists and the byte sweep *)
Lemma asc_tail a l : asc (a :: l) -> asc l.
Proof. destruct l as [|b l]; [intros _; exact I|]. cbn [asc]. tauto. Qed.
Lemma asc_head_lt : forall l a, asc (a :: l) -> forall x, In x l -> a < x.
Proof.
  induction l as [|b l IH]; intros a H x Hx; [contradiction|].
  destruct H as [Hab Hl]. destruct Hx as [<-|Hx]; [exact Hab|].
  specialize (IH b Hl x Hx). lia.
Qed.

Definition pick {A} (l : list (N * A)) (x : N) : list (N * A) :=
  match find (fun p => fst p =? x) l with Some p => [p] | None => [] end.

Lemma flat_map_ext_in {A B} (f g : A -> list B) : forall l,
  (forall a, In a l -> f a = g a) -> flat_map f l = flat_map g l.
Proof.
  induction l as [|a l IH]; intros H; [reflexivity|]. cbn [flat_map].
  rewrite (H a (or_introl eq_refl)), IH; [reflexivity|]. intros b Hb. apply H. right. exact Hb.
Qed.

Lemma pick_notin {A} (l : list (N * A)) x : ~ In x (map fst l) -> pick l x = [].
Proof.
  intros H. unfold pick. destruct (find _ l) eqn:E; [|reflexivity].
  apply find_some in E. destruct E as [E1 E2]. apply N.eqb_eq in E2. exfalso. apply H.
  rewrite <- E2. apply in_map. exact E1.
Qed.

Lemma asc_flat_map_gen {A} : forall len lo (l : list (N * A)),
  asc (map fst l) ->
  (forall x, In x (map fst l) -> N.of_nat lo <= x < N.of_nat (lo + len)) ->
  flat_map (pick l) (map N.of_nat (seq lo len)) = l.
Proof.
  induction len as [|len IH]; intros lo l Ha Hr.
  - destruct l as [|[k a] t]; [reflexivity|]. exfalso.
    specialize (Hr k (or_introl eq_refl)). lia.
  - cbn [seq map flat_map]. destruct l as [|[k a] t].
    + cbn [app]. unfold pick at 1. cbn [find app]. apply (IH (S lo) []); [exact I|intros x []].
    + cbn [map fst] in Ha, Hr. pose proof (asc_head_lt _ _ Ha) as Hlt. apply asc_tail in Ha.
      destruct (N.eq_dec k (N.of_nat lo)) as [Ek|Ek].
      * unfold pick at 1. cbn [find fst]. rewrite (proj2 (N.eqb_eq k (N.of_nat lo)) Ek). cbn [app]. f_equal.
        rewrite (flat_map_ext_in (pick ((k, a) :: t)) (pick t)).
        -- apply IH; [exact Ha|]. intros x Hx. specialize (Hlt x Hx). specialize (Hr x (or_intror Hx)). lia.
        -- intros x Hx. apply in_map_iff in Hx. destruct Hx as (j & <- & Hj). apply in_seq in Hj.
           unfold pick. cbn [find fst]. destruct (k =? N.of_nat j) eqn:E; [apply N.eqb_eq in E; lia|reflexivity].
      * rewrite pick_notin.
        -- cbn [app]. apply IH; [cbn [map fst]; destruct t; [exact I|]; split; [apply Hlt; left; reflexivity|exact Ha]|].
           cbn [map fst]. intros x Hx. pose proof (Hr x Hx) as Hx'.
           destruct Hx as [<-|Hx]; [lia|]. specialize (Hlt x Hx). specialize (Hr k (or_introl eq_refl)). lia.
        -- cbn [map fst]. intros [E|Hin]; [congruence|]. specialize (Hlt _ Hin).
           specialize (Hr k (or_introl eq_refl)). lia.
Qed.

Lemma asc_flat_map_id' {A} (l : list (N * A)) :
  asc (map fst l) -> (forall x, In x (map fst l) -> x < 256) ->
  flat_map (fun x => match find (fun p => fst p =? x) l with Some p => [p] | None => [] end) bytes256 = l.
Proof.
  intros Ha Hr. unfold bytes256. change 256%nat with (0 + 256)%nat at 1.
  apply (asc_flat_map_gen 256 0 l Ha). intros x Hx. specialize (Hr x Hx).
  split; [lia|]. replace (N.of_nat (0 + 256)) with 256 by reflexivity. exact Hr.
Qed.

Lemma bytes256_lt : Forall (fun x => x < 256) bytes256.
Proof.
  unfold bytes256. apply Forall_forall. intros x Hx. apply in_map_iff in Hx. destruct Hx as (j & <- & Hj).
  apply in_seq in Hj. destruct Hj as [_ Hj]. apply Nat.lt_succ_r in Hj. cbn [Nat.add] in Hj.
  apply Nat.lt_succ_r in Hj. change 256 with (N.of_nat 256). lia.
Qed.

Lemma depth_child x c cs : In (x, c) cs ->
  (depth c <= fold_right (fun (xc : N * tree) acc => Nat.max (depth (snd xc)) acc) 0%nat cs)%nat.
Proof.
  induction cs as [|[y d] r IH]; intros H; [contradiction|]. cbn [fold_right snd].
  destruct H as [E|H]; [inversion E; subst; lia|]. specialize (IH H). lia.
Qed.

(* ------------------------------------------------------------------ extraction of a laid-out tree *)
Section ExtractLay.
Variables (V : lview) (n : N) (bas chk : N -> N) (usedb leafb termb : N -> bool) (sfx : N -> key) (cd : N -> N).
Hypothesis Hn : v_n V = n.
Hypothesis Hunits : forall i, i < n -> vget (v_units V) i (0, 0) = (bas i, chk i).
Hypothesis Hleaves : forall i, i < n -> vget (v_leaves V) i false = leafb i.
Hypothesis Hterms : forall i, i < n -> vget (v_terms V) i false = termb i.
Hypothesis Hcode : forall x, x < 256 -> vget (v_code V) x 0 = cd x.
Hypothesis Hsfx : forall i, i < n -> suffix_at V i = sfx i.
Hypothesis Hfree : forall c, c < n -> usedb c = false -> chk c = c.
Hypothesis Hone : chk 1 = 1.

Lemma scan_lay rec u tm cs :
  lay n bas chk usedb leafb termb sfx cd (TNode u tm cs) -> u <> 1 ->
  (forall x c, In (x, c) cs -> rec (root_of c) = Some c) ->
  forall bs, Forall (fun x => x < 256) bs ->
  scan_children V rec bs (bas u) u = Some (flat_map (pick cs) bs).
Proof.
  intros H Hu1 Hrec. apply lay_node in H. destruct H as (H1 & H2 & H3 & H4 & H5 & H6 & H7 & H8 & H9).
  rewrite Forall_forall in H9.
  induction bs as [|b bs IH]; intros Hb; [reflexivity|].
  pose proof (Forall_inv Hb) as Hb1. pose proof (Forall_inv_tail Hb) as Hb2. cbn beta in Hb1. specialize (IH Hb2).
  cbn [scan_children flat_map]. unfold pick at 1. rewrite Hcode by exact Hb1. rewrite Hn.
  pose proof (H7 b Hb1) as Hc. set (c := N.lxor (bas u) (cd b)) in *.
  rewrite (proj2 (N.ltb_lt c n) Hc). cbn [negb]. rewrite IH. rewrite Hunits by exact Hc. cbn [snd].
  destruct (find (fun p => fst p =? b) cs) as [[x ch]|] eqn:E.
  - apply find_some in E. destruct E as [Hin Ex]. cbn [fst] in Ex. apply N.eqb_eq in Ex. subst x.
    destruct (H9 _ Hin) as (Ha & Hk & _). cbn [fst snd] in Ha, Hk. fold c in Ha.
    rewrite <- Ha, Hk, N.eqb_refl. rewrite (Hrec _ _ Hin). reflexivity.
  - assert (Hni : ~ In b (map fst cs)).
    { intros Hi. apply in_map_iff in Hi. destruct Hi as (p & Ep & Hp).
      pose proof (find_none _ _ E p Hp) as F. cbn beta in F. rewrite Ep, N.eqb_refl in F. discriminate. }
    assert (Hck : chk c <> u).
    { destruct (N.eq_dec c 1) as [E1|E1]; [rewrite E1, Hone; congruence|].
      destruct (usedb c) eqn:Eu.
      - exact (H8 b Hb1 Hni E1 Eu).
      - rewrite (Hfree c Hc Eu). intros ->. congruence. }
    destruct (chk c =? u) eqn:Eq; [apply N.eqb_eq in Eq; contradiction|]. reflexivity.
Qed.

Lemma extract_lay_sec : forall fuel t,
  lay n bas chk usedb leafb termb sfx cd t -> (forall v, In v (nodes_of t) -> v <> 1) ->
  (depth t <= fuel)%nat -> extract fuel V (root_of t) = Some t.
Proof.
  induction fuel as [|f IH]; intros t Hl Hv Hd.
  - destruct t; [cbn [depth] in Hd|rewrite depth_node in Hd]; lia.
  - destruct t as [u s|u tm cs].
    + cbn [lay] in Hl. destruct Hl as (H1 & H2 & H3 & H4 & H5 & H6).
      cbn [extract root_of]. rewrite Hn, (proj2 (N.ltb_lt u n) H1). cbn [negb].
      rewrite Hleaves, H3, Hsfx, H5 by exact H1. reflexivity.
    + pose proof Hl as Hl'. apply lay_node in Hl'. destruct Hl' as (H1 & H2 & H3 & H4 & H5 & H6 & H7 & H8 & H9).
      cbn [extract root_of]. rewrite Hn, (proj2 (N.ltb_lt u n) H1). cbn [negb].
      rewrite Hleaves, H3, Hunits, Hterms, H4 by exact H1. cbn [fst].
      rewrite (scan_lay (extract f V) u tm cs Hl).
      * unfold pick. rewrite (asc_flat_map_id' cs H5 H6). reflexivity.
      * apply Hv. rewrite nodes_of_node. left. reflexivity.
      * intros x c Hin. rewrite Forall_forall in H9. apply IH.
        -- apply (H9 _ Hin).
        -- intros v Hv'. apply Hv. rewrite nodes_of_node. right. apply (in_nodes_child x c); assumption.
        -- rewrite depth_node in Hd. pose proof (depth_child x c cs Hin). lia.
      * exact bytes256_lt.
Qed.
End ExtractLay.

Lemma extract_lay (V : lview) n bas chk usedb leafb termb sfx cd :
  v_n V = n ->
  (forall i, i < n -> vget (v_units V) i (0, 0) = (bas i, chk i)) ->
  (forall i, i < n -> vget (v_leaves V) i false = leafb i) ->
  (forall i, i < n -> vget (v_terms V) i false = termb i) ->
  (forall x, x < 256 -> vget (v_code V) x 0 = cd x) ->
  (forall i, i < n -> suffix_at V i = sfx i) ->
  (forall c, c < n -> usedb c = false -> chk c = c) -> chk 1 = 1 ->
  forall fuel t, lay n bas chk usedb leafb termb sfx cd t -> (forall v, In v (nodes_of t) -> v <> 1) ->
                 (depth t <= fuel)%nat -> extract fuel V (root_of t) = Some t.
Proof.
  intros A1 A2 A3 A4 A5 A6 A7 A8. exact (extract_lay_sec V n bas chk usedb leafb termb sfx cd A1 A2 A3 A4 A5 A6 A7 A8).
Qed.

Print Assumptions extract_lay.
Print Assumptions lay_stable.
Print Assumptions NoDup_nodup_fast.
