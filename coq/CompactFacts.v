(* CompactFacts.v: losslessness of the packed integer array (compact_vector.hpp).
   Main result: cv_spec : CvSpec (Section Cv, hypothesis Hmsb : MsbLog2).
   The invariant of cv_fill is stated on global bit positions of the chunk array ([cbit]):
   step_spec (one element written = exactly its field changes), cv_fill_spec, read_bits. *)
From Coq Require Import FMapPositive ZArith Lia ZifyN ZifyBool ZifyNat Arith PeanoNat.
From X Require Import Base Arr ArrFacts Consts BitToolsSpec BitToolsGen BitVector CompactVector Dac Tail Iface.
Local Open Scope N_scope.
Ltac Zify.zify_post_hook ::= Z.div_mod_to_equations.

Arguments N.mul : simpl never.
Arguments N.add : simpl never.
Arguments N.sub : simpl never.
Arguments N.shiftl : simpl never.
Arguments N.shiftr : simpl never.
Arguments N.pow : simpl never.
Arguments N.div : simpl never.
Arguments N.modulo : simpl never.
Arguments N.land : simpl never.
Arguments N.lor : simpl never.
Arguments N.ones : simpl never.
Arguments N.testbit : simpl never.

(* ---------------- the outcome monad ---------------- *)
Lemma bind_ok_inv {A B} (r : res A) (f : A -> res B) y :
  bind r f = Ok y -> exists a, r = Ok a /\ f a = Ok y.
Proof. destruct r; cbn; intros H; try discriminate. eauto. Qed.

(* ---------------- bits of the 64-bit word operations ---------------- *)
Lemma tb_ones n b : N.testbit (N.ones n) b = (b <? n).
Proof.
  destruct (N.ltb_spec b n).
  - apply N.ones_spec_low; assumption.
  - apply N.ones_spec_high; assumption.
Qed.

Lemma tb_w64 x b : N.testbit (w64 x) b = N.testbit x b && (b <? 64).
Proof. unfold w64, mask64. rewrite N.land_spec, tb_ones. reflexivity. Qed.

Lemma tb_shl x s b : N.testbit (N.shiftl x s) b = (s <=? b) && N.testbit x (b - s).
Proof.
  destruct (N.leb_spec s b).
  - rewrite N.shiftl_spec_high' by assumption. reflexivity.
  - rewrite N.shiftl_spec_low by assumption. reflexivity.
Qed.

Lemma tb_shl64 x s b : N.testbit (shl64 x s) b = (s <=? b) && N.testbit x (b - s) && (b <? 64).
Proof. unfold shl64. rewrite tb_w64, tb_shl. reflexivity. Qed.

Lemma tb_shr64 x s b : N.testbit (shr64 x s) b = N.testbit x (b + s).
Proof. unfold shr64. apply N.shiftr_spec'. Qed.

Lemma tb_not64 x b : N.testbit (not64 x) b = negb (N.testbit x b) && (b <? 64).
Proof.
  unfold not64, mask64. rewrite N.lxor_spec, tb_w64, tb_ones.
  destruct (N.testbit x b), (b <? 64); reflexivity.
Qed.

Lemma tb_high x n b : x < 2 ^ n -> n <= b -> N.testbit x b = false.
Proof.
  intros Hx Hb. rewrite <- (N.mod_small x (2 ^ n)) by assumption.
  apply N.mod_pow2_bits_high. assumption.
Qed.

Lemma lt_pow2_of_bits x n : (forall b, n <= b -> N.testbit x b = false) -> x < 2 ^ n.
Proof.
  intros H. destruct (N.eq_dec x 0) as [->|Hx].
  - apply N.neq_0_lt_0. apply N.pow_nonzero. discriminate.
  - apply N.log2_lt_pow2; [lia|].
    destruct (N.lt_ge_cases (N.log2 x) n) as [|Hge]; [assumption|].
    specialize (H _ Hge). rewrite N.bit_log2 in H by assumption. discriminate.
Qed.

Lemma w64_small x : x < 2 ^ 64 -> w64 x = x.
Proof. intros H. unfold w64, mask64. rewrite N.land_ones. apply N.mod_small. assumption. Qed.

Lemma w64_lt x : w64 x < 2 ^ 64.
Proof. unfold w64, mask64. rewrite N.land_ones. apply N.mod_lt. apply N.pow_nonzero. discriminate. Qed.

Lemma shr6 x : shr64 x 6 = x / 64.
Proof. unfold shr64. rewrite N.shiftr_div_pow2. reflexivity. Qed.
Lemma land63 x : N.land x 63 = x mod 64.
Proof. change 63 with (N.ones 6). rewrite N.land_ones. reflexivity. Qed.

Lemma land_ones_small x n : x < 2 ^ n -> N.land x (N.ones n) = x.
Proof. intros H. rewrite N.land_ones. apply N.mod_small. assumption. Qed.

(* ---------------- growable arrays: initialisation and release ---------------- *)
Lemma fold_mpush_spec {A} (d : A) (l : list A) : forall a : marr A,
  mlen (fold_left mpush l a) = mlen a + lenN l /\
  (forall k, k < mlen a -> mget (fold_left mpush l a) k = mget a k) /\
  (forall k, (k < length l)%nat -> mget (fold_left mpush l a) (mlen a + N.of_nat k) = Ok (nth k l d)).
Proof.
  unfold lenN. induction l as [|x t IH]; intros a; cbn [fold_left length nth].
  - split; [lia|]. split; [reflexivity|]. intros k Hk. lia.
  - destruct (IH (mpush a x)) as (H1 & H2 & H3). rewrite mlen_mpush in *.
    split; [lia|]. split.
    + intros k Hk. rewrite H2 by lia. apply mget_mpush_old. assumption.
    + intros [|k] Hk.
      * rewrite N.add_0_r. rewrite H2 by lia. apply mget_mpush_last.
      * replace (mlen a + N.of_nat (S k)) with (mlen a + 1 + N.of_nat k) by lia.
        apply H3. lia.
Qed.

Lemma flat_map_single {A} (f : nat -> list A) (g : nat -> A) n : forall s,
  (forall k, (s <= k < s + n)%nat -> f k = [g k]) -> flat_map f (seq s n) = map g (seq s n).
Proof.
  induction n as [|n IH]; intros s H; cbn [seq flat_map map]; [reflexivity|].
  rewrite H by lia. rewrite IH; [reflexivity|]. intros k Hk. apply H. lia.
Qed.

Lemma nth_error_seq0 n k : (k < n)%nat -> nth_error (seq 0 n) k = Some k.
Proof.
  intros H. rewrite (nth_error_nth' _ 0%nat) by (rewrite seq_length; assumption).
  rewrite seq_nth by assumption. reflexivity.
Qed.

Definition mfull (a : marr N) : Prop := forall k, k < mlen a -> exists x, mget a k = Ok x.

Lemma m_to_list_spec (a : marr N) : mfull a ->
  length (m_to_list a) = N.to_nat (mlen a) /\
  forall k, k < mlen a -> aget (of_list (m_to_list a)) k = mget a k.
Proof.
  intros Hf. unfold m_to_list.
  set (g := fun n => match PM.find (N.succ_pos (N.of_nat n)) (mdata a) with Some x => x | None => 0 end).
  rewrite (flat_map_single _ g).
  - split; [rewrite map_length, seq_length; reflexivity|].
    intros k Hk. rewrite aget_of_list.
    rewrite nth_error_map, nth_error_seq0 by lia. cbn [option_map].
    unfold g. rewrite N2Nat.id. unfold mget. destruct (N.ltb_spec k (mlen a)); [|lia].
    destruct (Hf k Hk) as [x Hx]. unfold mget in Hx. destruct (N.ltb_spec k (mlen a)); [|lia].
    destruct (PM.find (N.succ_pos k) (mdata a)); [reflexivity|discriminate].
  - intros k Hk. unfold g. destruct (Hf (N.of_nat k)) as [x Hx]; [lia|].
    unfold mget in Hx. destruct (N.ltb_spec (N.of_nat k) (mlen a)); [|lia].
    destruct (PM.find (N.succ_pos (N.of_nat k)) (mdata a)); [reflexivity|discriminate].
Qed.

(* ---------------- one field of a word ---------------- *)
Ltac dcmp := repeat match goal with
  | |- context[?a <? ?b] => destruct (N.ltb_spec a b)
  | |- context[?a <=? ?b] => destruct (N.leb_spec a b)
  end.

Lemma tb_wlow bits w md x b : md < 64 ->
  N.testbit (N.lor (N.land w (not64 (shl64 (N.ones bits) md))) (shl64 (N.land x (N.ones bits)) md)) b
  = (b <? 64) && (if (md <=? b) && (b <? md + bits) then N.testbit x (b - md) else N.testbit w b).
Proof.
  intros Hmd. rewrite N.lor_spec, N.land_spec, tb_not64, !tb_shl64, N.land_spec, !tb_ones.
  dcmp; cbn [andb orb negb]; try lia;
    destruct (N.testbit w b), (N.testbit x (b - md)); reflexivity.
Qed.

Lemma tb_whigh bits w diff x b :
  N.testbit (N.lor (N.land w (not64 (shr64 (N.ones bits) diff))) (shr64 (N.land x (N.ones bits)) diff)) b
  = if b + diff <? bits then N.testbit x (b + diff) else (b <? 64) && N.testbit w b.
Proof.
  rewrite N.lor_spec, N.land_spec, tb_not64, !tb_shr64, N.land_spec, !tb_ones.
  dcmp; cbn [andb orb negb]; try lia;
    destruct (N.testbit w b), (N.testbit x (b + diff)); try reflexivity.
Qed.

(* ---------------- the fill loop ---------------- *)
Definition rd (ch : marr N) (k : N) : N := match mget ch k with Ok w => w | _ => 0 end.
(* the bit at global position p of the chunk array *)
Definition cbit (ch : marr N) (p : N) : bool := N.testbit (rd ch (p / 64)) (p mod 64).
Definition chunks_ok (nw : N) (ch : marr N) : Prop :=
  mlen ch = nw /\ forall k, k < nw -> exists w, mget ch k = Ok w /\ w < 2 ^ 64.

Lemma mrmw_spec nw ch k f :
  chunks_ok nw ch -> k < nw -> f (rd ch k) < 2 ^ 64 ->
  exists ch', mrmw ch k f = Ok ch' /\ chunks_ok nw ch' /\
    rd ch' k = f (rd ch k) /\ forall k', k' <> k -> rd ch' k' = rd ch k'.
Proof.
  intros [Hlen Hall] Hk Hf. unfold mrmw. destruct (Hall k Hk) as (w & Hw & Hw64).
  unfold rd in Hf |- *. rewrite Hw in *. cbn [bind].
  destruct (mset_ok ch k (f w)) as [ch' Hset]; [lia|]. exists ch'. split; [assumption|].
  pose proof (mget_mset_same _ _ _ _ Hset) as Hsame.
  pose proof (mlen_mset _ _ _ _ Hset) as Hl.
  repeat split.
  - lia.
  - intros k' Hk'. destruct (N.eq_dec k k') as [<-|Hne].
    + exists (f w). split; assumption.
    + rewrite (mget_mset_other _ _ _ _ _ Hset Hne). apply Hall. assumption.
  - rewrite Hsame. reflexivity.
  - intros k' Hne. rewrite (mget_mset_other _ _ _ _ _ Hset) by congruence. reflexivity.
Qed.

Lemma lor_land_lt64 a b c : b < 2 ^ 64 -> c < 2 ^ 64 -> N.lor (N.land a b) c < 2 ^ 64.
Proof.
  intros Hb Hc. apply lt_pow2_of_bits. intros i Hi.
  rewrite N.lor_spec, N.land_spec, (tb_high b 64 i), (tb_high c 64 i) by assumption.
  destruct (N.testbit a i); reflexivity.
Qed.

Lemma not64_lt a : not64 a < 2 ^ 64.
Proof. apply lt_pow2_of_bits. intros i Hi. rewrite tb_not64. destruct (N.ltb_spec i 64); [lia|]. apply andb_false_r. Qed.
Lemma shl64_lt a s : shl64 a s < 2 ^ 64.
Proof. apply w64_lt. Qed.
Lemma shr64_le a s : shr64 a s <= a.
Proof.
  unfold shr64. rewrite N.shiftr_div_pow2.
  assert (H : 2 ^ s <> 0) by (apply N.pow_nonzero; discriminate).
  apply N.div_le_upper_bound; [assumption|]. nia.
Qed.

Lemma step_spec bits nw ch pos v :
  1 <= bits -> bits <= 64 -> chunks_ok nw ch -> pos + bits <= 64 * nw ->
  let mask := N.ones bits in
  let quo := pos / 64 in let md := pos mod 64 in
  let x := N.land v mask in
  exists ch1 ch2,
    mrmw ch quo (fun w => N.lor (N.land w (not64 (shl64 mask md))) (shl64 x md)) = Ok ch1 /\
    (if 64 <? md + bits
     then let diff := 64 - md in
          mrmw ch1 (quo + 1) (fun w => N.lor (N.land w (not64 (shr64 mask diff))) (shr64 x diff))
     else Ok ch1) = Ok ch2 /\
    chunks_ok nw ch2 /\
    forall p, cbit ch2 p = if (pos <=? p) && (p <? pos + bits) then N.testbit v (p - pos) else cbit ch p.
Proof.
  intros Hb1 Hb Hok Hfit mask quo md x.
  assert (Hmd : md < 64) by (subst md; lia).
  assert (Hpos : pos = 64 * quo + md) by (subst quo md; lia).
  destruct (mrmw_spec nw ch quo (fun w => N.lor (N.land w (not64 (shl64 mask md))) (shl64 x md)) Hok)
    as (ch1 & H1 & Hok1 & Hr1 & Ho1).
  { lia. }
  { apply lor_land_lt64; [apply not64_lt|apply shl64_lt]. }
  exists ch1.
  destruct (N.ltb_spec 64 (md + bits)) as [Hst|Hst].
  - destruct (mrmw_spec nw ch1 (quo + 1)
       (fun w => N.lor (N.land w (not64 (shr64 mask (64 - md)))) (shr64 x (64 - md))) Hok1)
      as (ch2 & H2 & Hok2 & Hr2 & Ho2).
    { lia. }
    { apply lor_land_lt64; [apply not64_lt|].
      eapply N.le_lt_trans; [apply shr64_le|]. subst x mask. rewrite N.land_ones.
      eapply N.lt_le_trans; [apply N.mod_lt; apply N.pow_nonzero; discriminate|].
      apply N.pow_le_mono_r; [discriminate|assumption]. }
    exists ch2. split; [assumption|]. split; [assumption|]. split; [assumption|].
    intros p. unfold cbit.
    assert (Hp : p = 64 * (p / 64) + p mod 64) by lia.
    assert (Hr : p mod 64 < 64) by lia.
    set (k := p / 64) in *. set (r := p mod 64) in *. clearbody k r.
    destruct (N.eq_dec k (quo + 1)) as [Ek|Nk1].
    + subst k. rewrite Hr2, Ho1 by lia. subst x mask. rewrite tb_whigh.
      destruct (N.ltb_spec (r + (64 - md)) bits); destruct (N.leb_spec pos p); destruct (N.ltb_spec p (pos + bits));
        cbn [andb]; try lia.
      * f_equal. lia.
      * destruct (N.ltb_spec r 64); [reflexivity|lia].
    + rewrite Ho2 by assumption.
      destruct (N.eq_dec k quo) as [Ek|Nk].
      * subst k. rewrite Hr1. subst x mask. rewrite tb_wlow by assumption.
        destruct (N.ltb_spec r 64); [|lia]. cbn [andb].
        destruct (N.leb_spec md r); destruct (N.ltb_spec r (md + bits)); destruct (N.leb_spec pos p);
          destruct (N.ltb_spec p (pos + bits)); cbn [andb]; try lia; try reflexivity.
        f_equal. lia.
      * rewrite Ho1 by assumption.
        destruct (N.leb_spec pos p); destruct (N.ltb_spec p (pos + bits)); cbn [andb]; try reflexivity.
        exfalso. assert (k < quo \/ quo + 1 < k) by lia. lia.
  - exists ch1. split; [assumption|]. split; [reflexivity|]. split; [assumption|].
    intros p. unfold cbit.
    assert (Hp : p = 64 * (p / 64) + p mod 64) by lia.
    assert (Hr : p mod 64 < 64) by lia.
    set (k := p / 64) in *. set (r := p mod 64) in *. clearbody k r.
    destruct (N.eq_dec k quo) as [Ek|Nk].
    + subst k. rewrite Hr1. subst x mask. rewrite tb_wlow by assumption.
      destruct (N.ltb_spec r 64); [|lia]. cbn [andb].
      destruct (N.leb_spec md r); destruct (N.ltb_spec r (md + bits)); destruct (N.leb_spec pos p);
        destruct (N.ltb_spec p (pos + bits)); cbn [andb]; try lia; try reflexivity.
      f_equal. lia.
    + rewrite Ho1 by assumption.
      destruct (N.leb_spec pos p); destruct (N.ltb_spec p (pos + bits)); cbn [andb]; try reflexivity.
      exfalso. assert (k < quo \/ quo < k) by lia. lia.
Qed.

Lemma mul64_small a b : a * b < 2 ^ 64 -> mul64 a b = a * b.
Proof. apply w64_small. Qed.
Lemma p56_64 : 2 ^ 56 * 64 < 2 ^ 64.
Proof. vm_compute. reflexivity. Qed.

Lemma cv_fill_spec bits nw : 1 <= bits -> bits <= 64 ->
  forall vs i ch pos, chunks_ok nw ch -> pos = i * bits ->
    pos + lenN vs * bits <= 64 * nw -> i + lenN vs < 2 ^ 56 ->
    exists ch', cv_fill vs i bits (N.ones bits) ch = Ok ch' /\ chunks_ok nw ch' /\
      (forall p, p < pos -> cbit ch' p = cbit ch p) /\
      (forall j b, (j < length vs)%nat -> b < bits ->
         cbit ch' (pos + N.of_nat j * bits + b) = N.testbit (nth j vs 0) b).
Proof.
  intros Hb1 Hb64. unfold lenN.
  induction vs as [|v t IH]; intros i ch pos Hok Hpos Hfit Hsz; cbn [cv_fill length].
  - exists ch. split; [reflexivity|]. split; [assumption|]. split; [reflexivity|].
    intros j b Hj. cbn in Hj. lia.
  - cbv zeta. cbn [length] in Hfit, Hsz.
    replace (N.of_nat (S (length t))) with (N.of_nat (length t) + 1) in * by lia.
    rewrite N.mul_add_distr_r, N.mul_1_l in Hfit.
    set (L := N.of_nat (length t)) in *.
    assert (Hm : mul64 i bits = pos).
    { subst pos. apply mul64_small. pose proof p56_64.
      assert (i * bits <= 2 ^ 56 * 64) by (apply N.mul_le_mono; lia). lia. }
    rewrite Hm, shr6, land63.
    assert (Hfit1 : pos + bits <= 64 * nw) by lia.
    destruct (step_spec bits nw ch pos v Hb1 Hb64 Hok Hfit1) as (ch1 & ch2 & H1 & H2 & Hok2 & Hbits).
    cbv zeta in H1, H2. rewrite H1. cbn [bind]. rewrite H2. cbn [bind].
    destruct (IH (i + 1) ch2 (pos + bits) Hok2) as (ch' & Hf & Hok' & Hlow & Hnew).
    { subst pos. rewrite N.mul_add_distr_r. lia. }
    { lia. }
    { lia. }
    exists ch'. split; [assumption|]. split; [assumption|]. split.
    + intros p Hp. rewrite Hlow by lia. rewrite Hbits.
      destruct (N.leb_spec pos p); [lia|]. reflexivity.
    + intros [|j] b Hj Hbb; cbn [nth].
      * rewrite Hlow by lia. rewrite Hbits.
        destruct (N.leb_spec pos (pos + N.of_nat 0 * bits + b)); [|lia].
        destruct (N.ltb_spec (pos + N.of_nat 0 * bits + b) (pos + bits)); [|lia].
        cbn [andb]. f_equal. lia.
      * replace (pos + N.of_nat (S j) * bits + b) with (pos + bits + N.of_nat j * bits + b) by lia.
        apply Hnew; [lia|assumption].
Qed.

(* ---------------- reading a field back ---------------- *)
Lemma rd_lt nw ch k : chunks_ok nw ch -> rd ch k < 2 ^ 64.
Proof.
  intros [Hl Hall]. unfold rd. destruct (N.ltb_spec k nw) as [Hk|Hk].
  - destruct (Hall k Hk) as (w & -> & Hw). assumption.
  - unfold mget. destruct (N.ltb_spec k (mlen ch)); [lia|]. reflexivity.
Qed.
Lemma mget_rd nw ch k : chunks_ok nw ch -> k < nw -> mget ch k = Ok (rd ch k).
Proof. intros [Hl Hall] Hk. unfold rd. destruct (Hall k Hk) as (w & -> & Hw). reflexivity. Qed.

Lemma read_bits bits nw ch pos b : bits <= 64 -> chunks_ok nw ch ->
  let quo := pos / 64 in let md := pos mod 64 in
  N.testbit (if md + bits <=? 64 then N.land (shr64 (rd ch quo) md) (N.ones bits)
             else N.land (N.lor (shr64 (rd ch quo) md) (shl64 (rd ch (quo + 1)) (64 - md))) (N.ones bits)) b
  = (b <? bits) && cbit ch (pos + b).
Proof.
  intros Hb Hok quo md. unfold cbit.
  assert (Hmd : md < 64) by (subst md; lia).
  assert (Hpos : pos = 64 * quo + md) by (subst quo md; lia).
  pose proof (rd_lt nw ch quo Hok) as Hw0.
  destruct (N.ltb_spec b bits) as [Hbb|Hbb].
  2:{ destruct (md + bits <=? 64); rewrite N.land_spec, tb_ones;
      (destruct (N.ltb_spec b bits); [lia|]); apply andb_false_r. }
  cbn [andb].
  assert (Hp : pos + b = 64 * ((pos + b) / 64) + (pos + b) mod 64) by lia.
  assert (Hr : (pos + b) mod 64 < 64) by lia.
  set (k := (pos + b) / 64) in *. set (r := (pos + b) mod 64) in *. clearbody k r.
  destruct (N.leb_spec (md + bits) 64) as [Hst|Hst].
  - rewrite N.land_spec, tb_ones, tb_shr64. destruct (N.ltb_spec b bits); [|lia].
    rewrite andb_true_r. assert (k = quo) by lia. subst k. f_equal. lia.
  - rewrite N.land_spec, tb_ones, N.lor_spec, tb_shr64, tb_shl64. destruct (N.ltb_spec b bits); [|lia].
    rewrite andb_true_r.
    destruct (N.ltb_spec (b + md) 64) as [Hlo|Hhi].
    + assert (k = quo) by lia. subst k.
      destruct (N.leb_spec (64 - md) b); [lia|]. cbn [andb]. rewrite orb_false_r. f_equal. lia.
    + assert (k = quo + 1) by lia. subst k.
      rewrite (tb_high _ 64 (b + md) Hw0) by lia. cbn [orb].
      destruct (N.leb_spec (64 - md) b); [|lia]. destruct (N.ltb_spec b 64); [|lia].
      cbn [andb]. rewrite andb_true_r. f_equal. lia.
Qed.

(* ---------------- width and mask ---------------- *)
Lemma fold_max_spec l : forall a,
  a <= fold_left N.max l a /\ (forall v, In v l -> v <= fold_left N.max l a) /\
  (a < 2 ^ 64 -> Forall (fun x => x < 2 ^ 64) l -> fold_left N.max l a < 2 ^ 64).
Proof.
  induction l as [|x t IH]; intros a; cbn [fold_left].
  - split; [lia|]. split; [intros v []|]. intros; assumption.
  - destruct (IH (N.max a x)) as (H1 & H2 & H3). split; [lia|]. split.
    + intros v [<-|Hv]; [lia|]. apply H2. assumption.
    + intros Ha Hall. inversion Hall; subst. apply H3; [lia|assumption].
Qed.

Lemma mask_of_bits_ones bits : 1 <= bits -> bits <= 64 -> mask_of_bits bits = N.ones bits.
Proof.
  intros H1 H64. unfold mask_of_bits. destruct (N.ltb_spec bits 64) as [Hlt|Hge].
  - unfold shl64. rewrite N.shiftl_1_l. rewrite w64_small.
    + rewrite N.ones_equiv. lia.
    + apply N.pow_lt_mono_r; lia.
  - replace bits with 64 by lia. reflexivity.
Qed.

Lemma zeros_chunks_ok n : chunks_ok (N.of_nat n) (m_of_list (repeat 0 n)).
Proof.
  unfold m_of_list. destruct (fold_mpush_spec 0 (repeat 0 n) mempty) as (H1 & _ & H3).
  unfold lenN in H1. rewrite repeat_length in *. cbn [mlen mempty] in *. split; [lia|].
  intros k Hk. exists 0. split.
  - specialize (H3 (N.to_nat k)). rewrite N2Nat.id, N.add_0_l in H3. rewrite H3 by lia.
    f_equal. apply nth_repeat.
  - apply N.neq_0_lt_0. apply N.pow_nonzero. discriminate.
Qed.

Section Cv.
Hypothesis Hmsb : MsbLog2.

Lemma needed_bits_spec m : m < 2 ^ 64 ->
  let bits := needed_bits m in 1 <= bits /\ bits <= 64 /\ m < 2 ^ bits.
Proof.
  intros Hm. unfold needed_bits, add64. destruct (N.eq_dec m 0) as [->|Hne].
  - vm_compute. repeat split; discriminate.
  - assert (Hpos : 0 < m) by lia. rewrite (Hmsb m Hpos Hm).
    assert (Hl : N.log2 m < 64) by (apply N.log2_lt_pow2; assumption).
    rewrite w64_small by (assert (2 ^ 7 <= 2 ^ 64) by (apply N.pow_le_mono_r; lia); change (2 ^ 7) with 128 in *; lia).
    split; [lia|]. split; [lia|]. rewrite N.add_1_r. apply N.log2_spec. assumption.
Qed.

Theorem cv_spec : CvSpec.
Proof.
  intros vs Hne Hall Hlen.
  destruct (fold_max_spec vs 0) as (_ & Hmax & Hmax64).
  fold (list_max vs) in Hmax, Hmax64.
  assert (Hm64 : list_max vs < 2 ^ 64).
  { apply Hmax64; [|assumption]. apply N.neq_0_lt_0. apply N.pow_nonzero. discriminate. }
  destruct (needed_bits_spec _ Hm64) as (Hb1 & Hb64 & Hmb). cbv zeta in *.
  unfold cv_build. destruct vs as [|v0 vt] eqn:Evs; [congruence|]. rewrite <- Evs in *. clear Evs.
  set (bits := needed_bits (list_max vs)) in *.
  rewrite (mask_of_bits_ones bits Hb1 Hb64).
  assert (Hsb : lenN vs * bits <= 2 ^ 56 * 64) by (apply N.mul_le_mono; lia).
  pose proof p56_64 as Hp.
  assert (Hnw : shr64 (add64 (mul64 (lenN vs) bits) 63) 6 = (lenN vs * bits + 63) / 64).
  { rewrite mul64_small by lia. unfold add64. rewrite w64_small by lia. apply shr6. }
  rewrite Hnw. set (nw := (lenN vs * bits + 63) / 64).
  pose proof (zeros_chunks_ok (N.to_nat nw)) as Hok0. rewrite N2Nat.id in Hok0.
  destruct (cv_fill_spec bits nw Hb1 Hb64 vs 0 _ 0 Hok0) as (ch & Hfill & Hok & _ & Hbits).
  { lia. } { subst nw. lia. } { lia. }
  rewrite Hfill. cbn [bind]. eexists. split; [reflexivity|]. split; [reflexivity|].
  intros i Hi. unfold cv_get. cbn [cv_size cv_bits cv_mask cv_chunks].
  destruct (N.ltb_spec i (lenN vs)); [|lia]. cbn [negb].
  assert (Hib : (i + 1) * bits <= lenN vs * bits) by (apply N.mul_le_mono_r; lia).
  rewrite N.mul_add_distr_r, N.mul_1_l in Hib.
  rewrite mul64_small by lia. rewrite shr6, land63.
  set (pos := i * bits) in *.
  assert (Hfull : mfull ch).
  { intros k Hk. destruct Hok as [Hl Ha]. destruct (Ha k) as (w & Hw & _); [lia|]. eauto. }
  destruct (m_to_list_spec ch Hfull) as [_ Hget].
  assert (Hl : mlen ch = nw) by apply Hok.
  assert (Hq : pos / 64 < nw) by (subst nw; lia).
  pose proof (read_bits bits nw ch pos) as Hrd. cbv zeta in Hrd.
  assert (Hv : nth (N.to_nat i) vs 0 < 2 ^ bits).
  { eapply N.le_lt_trans; [|exact Hmb]. apply Hmax. apply nth_In. unfold lenN in *. lia. }
  assert (Hfin : forall r, (forall b, N.testbit r b = (b <? bits) && cbit ch (pos + b)) ->
                           r = nth (N.to_nat i) vs 0).
  { intros r Hr. apply N.bits_inj. intros b. rewrite Hr.
    destruct (N.ltb_spec b bits) as [Hbb|Hbb]; cbn [andb].
    - specialize (Hbits (N.to_nat i) b). rewrite N2Nat.id, N.add_0_l in Hbits. fold pos in Hbits.
      apply Hbits; [unfold lenN in *; lia|assumption].
    - symmetry. eapply tb_high; eassumption. }
  destruct (N.leb_spec (pos mod 64 + bits) 64) as [Hst|Hst].
  - rewrite Hget by lia. rewrite (mget_rd nw) by assumption. cbn [bind]. f_equal.
    apply Hfin. intros b. specialize (Hrd b Hb64 Hok).
    destruct (N.leb_spec (pos mod 64 + bits) 64); [|lia]. exact Hrd.
  - assert (Hq1 : pos / 64 + 1 < nw) by (subst nw; lia).
    rewrite !Hget by lia. rewrite !(mget_rd nw) by assumption. cbn [bind]. f_equal.
    apply Hfin. intros b. specialize (Hrd b Hb64 Hok).
    destruct (N.leb_spec (pos mod 64 + bits) 64); [lia|]. exact Hrd.
Qed.
End Cv.

Print Assumptions cv_spec.
