(* CompactVector.v: model of include/xcdat/compact_vector.hpp *)
From X Require Import Base Arr Consts BitToolsSpec BitToolsGen.
Local Open Scope N_scope.

Record compact := mkCv { cv_size : N; cv_bits : N; cv_mask : N; cv_chunks : arr N }.
Definition cv_empty : compact := mkCv 0 0 0 aempty.

Definition needed_bits (x : N) : N := add64 (msb x) 1.
Definition list_max (l : list N) : N := fold_left N.max l 0.
(* repaired F9: a 64-bit wide element gets the all-ones mask *)
Definition mask_of_bits (bits : N) : N := if bits <? 64 then shl64 1 bits - 1 else mask64.

Definition mrmw (ch : marr N) (i : N) (f : N -> N) : res (marr N) :=
  do w <- mget ch i; mset ch i (f w).

Fixpoint cv_fill (vs : list N) (i : N) (bits mask : N) (ch : marr N) : res (marr N) :=
  match vs with
  | [] => Ok ch
  | v :: t =>
    let pos := mul64 i bits in
    let quo := shr64 pos 6 in let md := N.land pos 63 in
    let x := N.land v mask in
    do ch1 <- mrmw ch quo (fun w => N.lor (N.land w (not64 (shl64 mask md))) (shl64 x md));
    do ch2 <- (if 64 <? md + bits
               then let diff := 64 - md in
                    mrmw ch1 (quo + 1) (fun w => N.lor (N.land w (not64 (shr64 mask diff))) (shr64 x diff))
               else Ok ch1);
    cv_fill t (i + 1) bits mask ch2
  end.

Definition cv_build (vs : list N) : res compact :=
  match vs with
  | [] => Exc EmptyVector
  | _ =>
    let size := lenN vs in
    let bits := needed_bits (list_max vs) in
    let mask := mask_of_bits bits in
    let nwords := shr64 (add64 (mul64 size bits) 63) 6 in
    do ch <- cv_fill vs 0 bits mask (m_of_list (repeat 0 (N.to_nat nwords)));
    Ok (mkCv size bits mask (of_list (m_to_list ch)))
  end.

Definition cv_get (c : compact) (i : N) : res N :=
  if negb (i <? cv_size c) then Fault OobArr else     (* assert(i < m_size) *)
  let pos := mul64 i (cv_bits c) in
  let quo := shr64 pos 6 in let md := N.land pos 63 in
  if md + cv_bits c <=? 64 then
    do w <- aget (cv_chunks c) quo; Ok (N.land (shr64 w md) (cv_mask c))
  else
    do w0 <- aget (cv_chunks c) quo;
    do w1 <- aget (cv_chunks c) (quo + 1);
    Ok (N.land (N.lor (shr64 w0 md) (shl64 w1 (64 - md))) (cv_mask c)).
