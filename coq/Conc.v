(* Conc.v: a generic interleaving model of threads that read one shared object, and its instance for
   the dictionary (read-only API operations, statistics, save, memory_in_bytes).
   Model only; the theorems are in ConcFacts.v. *)
From X Require Import Base Arr Consts BitToolsSpec BitToolsGen BitVector CompactVector Dac Tail Trie Serial Spec History.
Local Open Scope N_scope.

(* ---------------- generic model ---------------- *)
Section Conc.
(* Sh: the shared, read-only object.  Lo: thread-local state (iterators, buffers).
   [step] has no way to hand back a new shared object: this is the premise "the operations do not
   write the dictionary", which is a fact about the C++ sampled by the tsan runs, not proved here. *)
Variables (Sh Lo Op Out : Type).
Variable step : Sh -> Lo -> Op -> Lo * Out.

Record thread := mkT { th_lo : Lo; th_ops : list Op (* remaining *); th_outs : list Out (* oldest first *) }.
Definition system := list thread.

(* a thread with a remaining operation executes it atomically; a finished thread does nothing *)
Definition thread_step (sh : Sh) (t : thread) : thread :=
  match th_ops t with
  | [] => t
  | op :: rest => let '(lo', o) := step sh (th_lo t) op in mkT lo' rest (th_outs t ++ [o])
  end.

(* the scheduler picks thread i (an index outside the system picks nobody) *)
Fixpoint sys_step (sh : Sh) (sys : system) (i : nat) : system :=
  match sys with
  | [] => []
  | t :: r => match i with
              | O => thread_step sh t :: r
              | S i' => t :: sys_step sh r i'
              end
  end.

(* a configuration carries the shared object so that "it is the same afterwards" can be stated *)
Definition sched_step (c : Sh * system) (i : nat) : Sh * system := (fst c, sys_step (fst c) (snd c) i).
Definition run_sched (sh : Sh) (sys : system) (schedule : list nat) : Sh * system :=
  fold_left sched_step schedule (sh, sys).

(* one thread alone *)
Fixpoint seq_run (sh : Sh) (lo : Lo) (ops : list Op) : list Out :=
  match ops with
  | [] => []
  | op :: r => let '(lo', o) := step sh lo op in o :: seq_run sh lo' r
  end.

(* initial system: thread i starts in local state lo_i with the operation list ops_i and no output *)
Definition start (init : list (Lo * list Op)) : system := map (fun p => mkT (fst p) (snd p) []) init.
(* every thread has run to completion *)
Definition complete (sys : system) : bool :=
  forallb (fun t => match th_ops t with [] => true | _ => false end) sys.
End Conc.

Arguments mkT {Lo Op Out} _ _ _.
Arguments th_lo {Lo Op Out} _.
Arguments th_ops {Lo Op Out} _.
Arguments th_outs {Lo Op Out} _.
Arguments thread_step {Sh Lo Op Out} _ _ _.
Arguments sys_step {Sh Lo Op Out} _ _ _ _.
Arguments sched_step {Sh Lo Op Out} _ _ _.
Arguments run_sched {Sh Lo Op Out} _ _ _ _.
Arguments seq_run {Sh Lo Op Out} _ _ _ _.
Arguments start {Lo Op Out} _.
Arguments complete {Lo Op Out} _.

(* ---------------- the dictionary instance ---------------- *)
Inductive stat := StBinMode | StNumKeys | StAlphabetSize | StMaxLength | StNumNodes | StNumUnits
                | StNumFreeUnits | StTailLength.

(* the read-only operations: those of History.hop except HMove / HSaveLoad / HSaveMmap, the statistics
   accessors, and save / memory_in_bytes (which only read the object: they const_cast in the C++) *)
Inductive rop :=
| RLookup (q : key) | RDecode (id : N) | RDecodeInto (buf : N) (id : N)
| RMkPrefix (s : N) (q : key) | RMkPred (s : N) (q : key) | RMkEnum (s : N)
| RDefPrefix (s : N) | RDefPred (s : N) | RNext (s : N) | RRead (s : N)
| RStat (w : stat) | RSave | RMem.

Inductive rout := RHist (o : hout) | RNum (n : N).

Definition rop_hop (op : rop) : option hop :=
  match op with
  | RLookup q => Some (HLookup q) | RDecode id => Some (HDecode id)
  | RDecodeInto buf id => Some (HDecodeInto buf id)
  | RMkPrefix s q => Some (HMkPrefix s q) | RMkPred s q => Some (HMkPred s q) | RMkEnum s => Some (HMkEnum s)
  | RDefPrefix s => Some (HDefPrefix s) | RDefPred s => Some (HDefPred s)
  | RNext s => Some (HNext s) | RRead s => Some (HRead s)
  | RStat _ | RSave | RMem => None
  end.

Definition stat_of (P : trie) (w : stat) : N :=
  match w with
  | StBinMode => if t_bin_mode P then 1 else 0
  | StNumKeys => t_num_keys P
  | StAlphabetSize => t_alphabet_size P
  | StMaxLength => t_max_length P
  | StNumNodes => t_num_nodes P
  | StNumUnits => t_num_units P
  | StNumFreeUnits => t_num_free_units P
  | StTailLength => t_tail_length P
  end.

(* thread-local state: History.hstate without the dictionary *)
Definition rlocal : Type := list (N * slot) * list (N * key).

(* one operation of one thread.  An operation that leaves defined behaviour (Fault) or throws is
   recorded as such in the output and leaves the local state as it was. *)
Definition rstep (v : variant) (P : trie) (lo : rlocal) (op : rop) : rlocal * res rout :=
  match rop_hop op with
  | Some h =>
    match read_step P (fst lo) (snd lo) h with
    | Ok (slots, bufs, o) => ((slots, bufs), Ok (RHist o))
    | Exc e => (lo, Exc e)
    | Fault f => (lo, Fault f)
    end
  | None =>
    match op with
    | RStat w => (lo, Ok (RNum (stat_of P w)))
    | RSave => (lo, Ok (RNum (lenN (save v P))))            (* the number of bytes written *)
    | RMem => (lo, Ok (RNum (memory_in_bytes v P)))
    | _ => (lo, Fault BadState)                             (* unreachable: rop_hop is Some *)
    end
  end.

Definition dict_thread : Type := thread rlocal rop (res rout).
Definition dict_run (v : variant) (P : trie) (init : list (rlocal * list rop)) (schedule : list nat)
  : trie * list dict_thread :=
  run_sched (rstep v) P (start init) schedule.
Definition dict_seq (v : variant) (P : trie) (lo : rlocal) (ops : list rop) : list (res rout) :=
  seq_run (rstep v) P lo ops.
