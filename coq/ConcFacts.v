(* ConcFacts.v: concurrent readers see sequential answers.  For every schedule, every thread's outputs
   are a prefix of its sequential run, the shared object is unchanged, and once a thread has run to
   completion its outputs are exactly its sequential run; so any two complete schedules agree.
   Then the dictionary instance (C12). *)
From Coq Require Import Lia Arith PeanoNat.
From X Require Import Base Arr Consts BitToolsSpec BitToolsGen BitVector CompactVector Dac Tail Trie Serial Spec
  History Conc.

(* ---------------- generic theorems ---------------- *)
Section ConcFacts.
Variables (Sh Lo Op Out : Type).
Variable step : Sh -> Lo -> Op -> Lo * Out.
Notation thr := (thread Lo Op Out).

(* what a thread has produced, followed by what it would still produce alone: invariant under every
   scheduler step, whoever is picked *)
Definition full (sh : Sh) (t : thr) : list Out := th_outs t ++ seq_run step sh (th_lo t) (th_ops t).
(* number of operations of the thread, executed or not *)
Definition total (t : thr) : nat := length (th_outs t) + length (th_ops t).

Lemma seq_run_length sh : forall ops lo, length (seq_run step sh lo ops) = length ops.
Proof.
  induction ops as [|op r IH]; intros lo; cbn [seq_run]; [reflexivity|].
  destruct (step sh lo op) as [lo' o]. cbn [length]. rewrite IH. reflexivity.
Qed.

Lemma thread_step_full sh t : full sh (thread_step step sh t) = full sh t.
Proof.
  unfold full, thread_step. destruct t as [lo ops outs]. cbn [th_lo th_ops th_outs].
  destruct ops as [|op r]; [reflexivity|]. cbn [seq_run].
  destruct (step sh lo op) as [lo' o]. cbn [th_lo th_ops th_outs].
  rewrite <- app_assoc. reflexivity.
Qed.

Lemma thread_step_total sh t : total (thread_step step sh t) = total t.
Proof.
  unfold total, thread_step. destruct t as [lo ops outs]. cbn [th_lo th_ops th_outs].
  destruct ops as [|op r]; [reflexivity|].
  destruct (step sh lo op) as [lo' o]. cbn [th_lo th_ops th_outs].
  rewrite app_length. cbn [length]. lia.
Qed.

Lemma sys_step_full sh : forall sys i, map (full sh) (sys_step step sh sys i) = map (full sh) sys.
Proof.
  induction sys as [|t r IH]; intros i; [reflexivity|]. destruct i as [|i]; cbn [sys_step map].
  - rewrite thread_step_full. reflexivity.
  - rewrite IH. reflexivity.
Qed.

Lemma sys_step_total sh : forall sys i, map total (sys_step step sh sys i) = map total sys.
Proof.
  induction sys as [|t r IH]; intros i; [reflexivity|]. destruct i as [|i]; cbn [sys_step map].
  - rewrite thread_step_total. reflexivity.
  - rewrite IH. reflexivity.
Qed.

Lemma run_sched_unfold sh : forall sched sys,
  run_sched step sh sys sched = (sh, fold_left (sys_step step sh) sched sys).
Proof.
  unfold run_sched. induction sched as [|i r IH]; intros sys; [reflexivity|].
  cbn [fold_left]. unfold sched_step at 2. cbn [fst snd]. apply IH.
Qed.

(* the shared object is the same after the run *)
Lemma run_sched_shared sh sys sched : fst (run_sched step sh sys sched) = sh.
Proof. rewrite run_sched_unfold. reflexivity. Qed.

Lemma run_sched_full sh : forall sched sys,
  map (full sh) (snd (run_sched step sh sys sched)) = map (full sh) sys.
Proof.
  intros sched sys. rewrite run_sched_unfold. cbn [snd]. revert sys.
  induction sched as [|i r IH]; intros sys; [reflexivity|].
  cbn [fold_left]. rewrite IH. apply sys_step_full.
Qed.

Lemma run_sched_total sh : forall sched sys,
  map total (snd (run_sched step sh sys sched)) = map total sys.
Proof.
  intros sched sys. rewrite run_sched_unfold. cbn [snd]. revert sys.
  induction sched as [|i r IH]; intros sys; [reflexivity|].
  cbn [fold_left]. rewrite IH. apply sys_step_total.
Qed.

Lemma prefix_firstn {A} (a b s : list A) : a ++ b = s -> a = firstn (length s - length b) s.
Proof.
  intros <-. rewrite app_length, Nat.add_sub, firstn_app, Nat.sub_diag, firstn_all. cbn [firstn].
  rewrite app_nil_r. reflexivity.
Qed.

(* Main theorem.  [init] gives every thread its initial local state and its operation list. *)
Theorem schedule_independent : forall (sh : Sh) (init : list (Lo * list Op)) (schedule : list nat),
  let c := run_sched step sh (start init) schedule in
  fst c = sh /\
  length (snd c) = length init /\
  forall i lo ops, nth_error init i = Some (lo, ops) ->
    exists t, nth_error (snd c) i = Some t /\
      (* what it has output so far, continued by running the rest alone, is its sequential run *)
      th_outs t ++ seq_run step sh (th_lo t) (th_ops t) = seq_run step sh lo ops /\
      (* so the outputs so far are a prefix of the sequential run: as many as operations executed *)
      th_outs t = firstn (length ops - length (th_ops t)) (seq_run step sh lo ops) /\
      (exists k, th_outs t = firstn k (seq_run step sh lo ops)) /\
      (* and all of it once the thread is exhausted *)
      (th_ops t = [] -> th_outs t = seq_run step sh lo ops).
Proof.
  intros sh init schedule c.
  pose proof (run_sched_full sh schedule (start init)) as Hf. fold c in Hf.
  pose proof (run_sched_total sh schedule (start init)) as Ht. fold c in Ht.
  split; [apply run_sched_shared|]. split.
  - rewrite <- (map_length (full sh) (snd c)), Hf, map_length. unfold start. apply map_length.
  - intros i lo ops Hi.
    assert (Hs : nth_error (start (Out := Out) init) i = Some (mkT lo ops [])).
    { unfold start. rewrite nth_error_map, Hi. reflexivity. }
    pose proof (f_equal (fun l => nth_error l i) Hf) as Hfi. cbv beta in Hfi.
    pose proof (f_equal (fun l => nth_error l i) Ht) as Hti. cbv beta in Hti.
    rewrite !nth_error_map, Hs in Hfi, Hti.
    destruct (nth_error (snd c) i) as [t|]; [|discriminate]. exists t. split; [reflexivity|].
    cbn [option_map] in Hfi, Hti. injection Hfi as Hfi. injection Hti as Hti.
    unfold full in Hfi. cbn [th_lo th_ops th_outs app] in Hfi.
    unfold total in Hti. cbn [th_ops th_outs length] in Hti.
    assert (Hp : th_outs t = firstn (length ops - length (th_ops t)) (seq_run step sh lo ops)).
    { pose proof (prefix_firstn _ _ _ Hfi) as Hp. rewrite !seq_run_length in Hp. exact Hp. }
    split; [exact Hfi|]. split; [exact Hp|]. split; [eexists; exact Hp|].
    intros He. rewrite He in Hfi. cbn [seq_run] in Hfi. rewrite app_nil_r in Hfi. exact Hfi.
Qed.

(* a complete run: every thread's outputs are exactly its sequential run *)
Theorem complete_outputs : forall sh init schedule,
  complete (snd (run_sched step sh (start init) schedule)) = true ->
  map th_outs (snd (run_sched step sh (start init) schedule))
  = map (fun p => seq_run step sh (fst p) (snd p)) init.
Proof.
  intros sh init schedule Hc.
  pose proof (run_sched_full sh schedule (start init)) as Hf.
  assert (He : forall sys : list thr, complete sys = true -> map th_outs sys = map (full sh) sys).
  { induction sys as [|t r IH]; [reflexivity|]. unfold complete. cbn [forallb map]. intros H.
    apply andb_prop in H. destruct H as [H1 H2]. rewrite (IH H2). f_equal.
    unfold full. destruct (th_ops t); [|discriminate]. cbn [seq_run]. rewrite app_nil_r. reflexivity. }
  rewrite (He _ Hc), Hf. unfold start. rewrite map_map. apply map_ext.
  intros [lo ops]. reflexivity.
Qed.

(* any two schedules that exhaust all threads give identical per-thread outputs *)
Corollary complete_schedules_agree : forall sh init s1 s2,
  complete (snd (run_sched step sh (start init) s1)) = true ->
  complete (snd (run_sched step sh (start init) s2)) = true ->
  map th_outs (snd (run_sched step sh (start init) s1))
  = map th_outs (snd (run_sched step sh (start init) s2)).
Proof.
  intros sh init s1 s2 H1 H2. rewrite (complete_outputs sh init s1 H1), (complete_outputs sh init s2 H2).
  reflexivity.
Qed.

(* non-vacuity: complete schedules exist (run the threads one after the other) *)
Fixpoint steps (sh : Sh) (n : nat) (t : thr) : thr :=
  match n with O => t | S m => steps sh m (thread_step step sh t) end.

Lemma run_thread_alone sh r : forall n t,
  fold_left (sys_step step sh) (repeat 0%nat n) (t :: r) = steps sh n t :: r.
Proof.
  induction n as [|n IH]; intros t; [reflexivity|]. cbn [repeat fold_left sys_step steps]. apply IH.
Qed.

Lemma run_others sh t : forall sched r,
  fold_left (sys_step step sh) (map S sched) (t :: r) = t :: fold_left (sys_step step sh) sched r.
Proof.
  induction sched as [|i s IH]; intros r; [reflexivity|]. cbn [map fold_left sys_step]. apply IH.
Qed.

Lemma thread_exhausted sh : forall n t, length (th_ops t) = n -> th_ops (steps sh n t) = [].
Proof.
  induction n as [|n IH]; intros t H.
  - cbn [steps]. destruct (th_ops t); [reflexivity|discriminate].
  - cbn [steps]. apply IH. unfold thread_step. destruct t as [lo ops outs].
    cbn [th_lo th_ops th_outs] in *. destruct ops as [|op r]; [discriminate|].
    destruct (step sh lo op) as [lo' o]. cbn [th_ops]. cbn [length] in H. lia.
Qed.

Theorem complete_schedule_exists : forall sh (sys : list thr),
  exists schedule, complete (snd (run_sched step sh sys schedule)) = true.
Proof.
  intros sh sys. induction sys as [|t r IH].
  - exists []. reflexivity.
  - destruct IH as [sched Hc]. rewrite run_sched_unfold in Hc. cbn [snd] in Hc.
    exists (repeat 0%nat (length (th_ops t)) ++ map S sched).
    rewrite run_sched_unfold. cbn [snd]. rewrite fold_left_app, run_thread_alone, run_others.
    unfold complete in *. cbn [forallb]. rewrite Hc, thread_exhausted by reflexivity. reflexivity.
Qed.
End ConcFacts.

(* ---------------- the dictionary instance ---------------- *)
Local Open Scope N_scope.

(* the instance's step is the History machine's step on the same dictionary, and that step gives the
   dictionary back unchanged *)
Lemma rstep_hstep v P slots bufs op h : rop_hop op = Some h ->
  rstep v P (slots, bufs) op =
    match hstep v (mkH P slots bufs) h with
    | Ok (st', o) => ((h_slots st', h_bufs st'), Ok (RHist o))
    | Exc e => ((slots, bufs), Exc e)
    | Fault f => ((slots, bufs), Fault f)
    end
  /\ forall st' o, hstep v (mkH P slots bufs) h = Ok (st', o) -> h_trie st' = P.
Proof.
  intros Hh. unfold rstep. rewrite Hh. cbn [fst snd].
  assert (E : hstep v (mkH P slots bufs) h =
              do '(sl, bf, o) <- read_step P slots bufs h; Ok (mkH P sl bf, o)).
  { destruct op; try discriminate; injection Hh as <-; reflexivity. }
  rewrite E. destruct (read_step P slots bufs h) as [[[sl bf] o]| |]; cbn [bind].
  - split; [reflexivity|]. intros st' o' H. injection H as <- _. reflexivity.
  - split; [reflexivity|]. intros st' o' H. discriminate.
  - split; [reflexivity|]. intros st' o' H. discriminate.
Qed.

(* statistics, save and memory_in_bytes are pure functions of the shared dictionary *)
Lemma rstep_pure v P lo op : rop_hop op = None ->
  rstep v P lo op =
    (lo, Ok (RNum (match op with
                   | RStat w => stat_of P w
                   | RSave => lenN (save v P)
                   | _ => memory_in_bytes v P
                   end))).
Proof. destruct op; try discriminate; reflexivity. Qed.

(* a thread's sequential run is the History machine's run of the same operations on the same dictionary:
   this is what lets HistoryFacts.history_refines speak about every thread of a concurrent run *)
Lemma dict_seq_hrun v P : forall ops hs slots bufs st' outs,
  map rop_hop ops = map Some hs ->
  hrun v (mkH P slots bufs) hs = Ok (st', outs) ->
  dict_seq v P (slots, bufs) ops = map (fun o => Ok (RHist o)) outs.
Proof.
  induction ops as [|op r IH]; intros hs slots bufs st' outs Hm Hr.
  - destruct hs; [|discriminate]. cbn [hrun] in Hr. injection Hr as _ <-. reflexivity.
  - destruct hs as [|h hr]; [discriminate|]. cbn [map] in Hm. injection Hm as Hh Hm.
    cbn [hrun] in Hr. destruct (rstep_hstep v P slots bufs op h Hh) as [E Htrie].
    destruct (hstep v (mkH P slots bufs) h) as [[st1 o]| |] eqn:E1; cbn [bind] in Hr; try discriminate.
    destruct (hrun v st1 hr) as [[st2 os]| |] eqn:E2; cbn [bind] in Hr; try discriminate.
    injection Hr as _ <-. specialize (Htrie st1 o eq_refl).
    destruct st1 as [P1 sl1 bf1]. cbn [h_trie h_slots h_bufs] in *. subst P1.
    unfold dict_seq. cbn [seq_run]. rewrite E. cbn [map]. f_equal.
    exact (IH hr sl1 bf1 st2 os Hm E2).
Qed.

Theorem C12_schedule_independent : forall (v : variant) (P : trie)
    (init : list (rlocal * list rop)) (schedule : list nat),
  let c := dict_run v P init schedule in
  fst c = P /\
  length (snd c) = length init /\
  forall i lo ops, nth_error init i = Some (lo, ops) ->
    exists t, nth_error (snd c) i = Some t /\
      th_outs t ++ dict_seq v P (th_lo t) (th_ops t) = dict_seq v P lo ops /\
      th_outs t = firstn (length ops - length (th_ops t)) (dict_seq v P lo ops) /\
      (exists k, th_outs t = firstn k (dict_seq v P lo ops)) /\
      (th_ops t = [] -> th_outs t = dict_seq v P lo ops).
Proof. intros v P init schedule. exact (schedule_independent _ _ _ _ (rstep v) P init schedule). Qed.

Corollary C12_complete_outputs : forall v P init schedule,
  complete (snd (dict_run v P init schedule)) = true ->
  map th_outs (snd (dict_run v P init schedule)) = map (fun p => dict_seq v P (fst p) (snd p)) init.
Proof. intros v P init schedule. exact (complete_outputs _ _ _ _ (rstep v) P init schedule). Qed.

Corollary C12_complete_schedules_agree : forall v P init s1 s2,
  complete (snd (dict_run v P init s1)) = true ->
  complete (snd (dict_run v P init s2)) = true ->
  map th_outs (snd (dict_run v P init s1)) = map th_outs (snd (dict_run v P init s2)).
Proof. intros v P init s1 s2. exact (complete_schedules_agree _ _ _ _ (rstep v) P init s1 s2). Qed.

Corollary C12_complete_schedule_exists : forall v P init,
  exists schedule, complete (snd (dict_run v P init schedule)) = true.
Proof. intros v P init. exact (complete_schedule_exists _ _ _ _ (rstep v) P (start init)). Qed.

Print Assumptions schedule_independent.
Print Assumptions complete_outputs.
Print Assumptions complete_schedules_agree.
Print Assumptions complete_schedule_exists.
Print Assumptions rstep_hstep.
Print Assumptions dict_seq_hrun.
Print Assumptions C12_schedule_independent.
Print Assumptions C12_complete_outputs.
Print Assumptions C12_complete_schedules_agree.
Print Assumptions C12_complete_schedule_exists.
