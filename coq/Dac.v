(* Dac.v: model of bc_vector_{8,16} (byte/short DACs with next-flags + rank) and
   bc_vector_{7,15} (pointer DACs with per-block offsets).  One definition per family,
   parameterised by the cell width. *)
From X Require Import Base Arr Consts BitToolsSpec BitToolsGen BitVector CompactVector.
Local Open Scope N_scope.

Inductive variant := V7 | V8 | V15 | V16.
Definition type_id (v : variant) : N :=
  match v with V7 => bc7_l1_bits | V8 => bc8_l1_bits | V15 => bc15_l1_bits | V16 => bc16_l1_bits end.
(* width of the level-0 cell that holds the low bits of a leaf link: 8 for 7/8, 16 for 15/16 *)
Definition link_shift (v : variant) : N := match v with V7 | V8 => 8 | V15 | V16 => 16 end.

(* one DAC slot (two per unit): a leaf's raw low bits, or a value (base^i / check^i) *)
Inductive entry := ERaw (v : N) | EVal (x : N).

Definition unit := (N * N)%type.   (* (base, check) *)

Fixpoint entries_of (units : list unit) (leaves : list bool) (i : N) : list entry :=
  match units, leaves with
  | (b, c) :: us, lf :: ls =>
      (if lf then ERaw b else EVal (N.lxor b i)) :: EVal (N.lxor c i) :: entries_of us ls (i + 1)
  | _, _ => []
  end.
Fixpoint links_of (w : N) (units : list unit) (leaves : list bool) : list N :=
  match units, leaves with
  | (b, _) :: us, lf :: ls => if lf then shr64 b w :: links_of w us ls else links_of w us ls
  | _, _ => []
  end.
Fixpoint count_frees (units : list unit) (i : N) : N :=
  match units with
  | (_, c) :: us => (if c =? i then 1 else 0) + count_frees us (i + 1)
  | [] => 0
  end.

(* repaired F10: the link vector is only built when there is a leaf *)
Definition links_build (links : list N) : res compact :=
  match links with [] => Ok cv_empty | _ => cv_build links end.

Definition leaves_bv (leaves : list bool) : res bitvec :=
  do b <- bvb_of_bits leaves; bv_build b true false.

(* ================= 8 / 16 ================= *)
Record bc8 := mkBc8 { b8_w : N; b8_nlev : N; b8_frees : N;
                      b8_ints : list (arr N); b8_nexts : list bitvec;
                      b8_links : compact; b8_leaves : bitvec }.

Definition low (w x : N) : N := N.land x (N.ones w).

(* level 0 from the entries: cells, next flags, values continuing to level 1 *)
Fixpoint lvl0 (w : N) (es : list entry) : list N * list bool * list N :=
  match es with
  | [] => ([], [], [])
  | ERaw v :: t => let '(c, f, o) := lvl0 w t in (low w v :: c, false :: f, o)
  | EVal x :: t => let '(c, f, o) := lvl0 w t in
                   let hi := shr64 x w in
                   if hi =? 0 then (low w x :: c, false :: f, o) else (low w x :: c, true :: f, hi :: o)
  end.
Fixpoint lvlj (w : N) (xs : list N) : list N * list bool * list N :=
  match xs with
  | [] => ([], [], [])
  | x :: t => let '(c, f, o) := lvlj w t in
              let hi := shr64 x w in
              if hi =? 0 then (low w x :: c, false :: f, o) else (low w x :: c, true :: f, hi :: o)
  end.
(* levels 1.. while values remain; [n] bounds the number of levels (max_levels - 1) *)
Fixpoint lvls (n : nat) (w : N) (xs : list N) : list (list N * list bool) :=
  match n with
  | O => []
  | S m => match xs with
           | [] => []
           | _ => let '(c, f, o) := lvlj w xs in (c, f) :: lvls m w o
           end
  end.

Fixpoint pad_to {A} (n : nat) (d : A) (l : list A) : list A :=
  match n with O => [] | S m => match l with [] => d :: pad_to m d [] | x :: t => x :: pad_to m d t end end.

Fixpoint build_nexts (fl : list (list bool)) : res (list bitvec) :=
  match fl with
  | [] => Ok []
  | f :: t => do b <- bvb_of_bits f; do v <- bv_build b true false; do r <- build_nexts t; Ok (v :: r)
  end.

Definition bc8_build (w : N) (units : list unit) (leaves : list bool) : res bc8 :=
  let maxl := N.to_nat (64 / w) in
  let '(c0, f0, o0) := lvl0 w (entries_of units leaves 0) in
  let rest := lvls (maxl - 1) w o0 in
  let all := (c0, f0) :: rest in
  let nlev := lenN rest in                                  (* m_num_levels = index of the last level *)
  let ints := pad_to maxl aempty (map (fun cf => of_list (fst cf)) all) in
  do nx <- build_nexts (map snd (firstn (N.to_nat nlev) all));   (* the last level's flags are not released *)
  let nexts := pad_to (maxl - 1) bv_empty nx in
  do links <- links_build (links_of w units leaves);
  do lv <- leaves_bv leaves;
  Ok (mkBc8 w nlev (count_frees units 0) ints nexts links lv).

Fixpoint dac8_access (w nlev : N) (ints : list (arr N)) (nexts : list bitvec) (j i : N) : res N :=
  match ints with
  | [] => Fault OobArr
  | cur :: ints' =>
    do v <- aget cur i;
    let x := shl64 v (mul64 j w) in
    if j <? nlev then
      match nexts with
      | [] => Fault OobArr
      | nx :: nexts' =>
        do b <- bv_get nx i;
        if b then do i' <- bv_rank nx i;
                  do r <- dac8_access w nlev ints' nexts' (j + 1) i';
                  Ok (N.lor x r)
        else Ok x
      end
    else Ok x
  end.
Definition bc8_access (d : bc8) (i : N) : res N :=
  dac8_access (b8_w d) (b8_nlev d) (b8_ints d) (b8_nexts d) 0 i.

(* ================= 7 / 15 ================= *)
Record bc7 := mkBc7 { b7_vbits : list N;      (* value bits per pointer level: [7;15;31] or [15;31] *)
                      b7_frees : N;
                      b7_ints : list (arr N);  (* pointer levels then the final raw level *)
                      b7_ranks : list (arr N);
                      b7_links : compact; b7_leaves : bitvec }.

(* one pointer level over the values arriving at it.
   state: position in this level, number of values passed on so far, rank base of the current block *)
Fixpoint plevel (vb cell : N) (es : list entry) (pos nov base : N) : list N * list N * list N :=
  match es with
  | [] => ([], [], [])
  | e :: t =>
    let newblk := N.land pos (N.ones vb) =? 0 in      (* ints.size() % block_size == 0 *)
    let base' := if newblk then nov else base in
    let '(c, r, o) :=
      match e with
      | ERaw v => plevel vb cell t (pos + 1) nov base'
      | EVal x => if shr64 x vb =? 0 then plevel vb cell t (pos + 1) nov base'
                  else plevel vb cell t (pos + 1) (nov + 1) base'
      end in
    let cellv :=
      match e with
      | ERaw v => low cell v
      | EVal x => if shr64 x vb =? 0 then low cell (shl64 x 1)
                  else low cell (N.lor 1 (shl64 (sub64 nov base') 1))
      end in
    let o' := match e with EVal x => if shr64 x vb =? 0 then o else x :: o | _ => o end in
    (cellv :: c, (if newblk then nov :: r else r), o')
  end.

Fixpoint plevels (vbs : list N) (es : list entry) : list (list N) * list (list N) :=
  match vbs with
  | [] => ([map (fun e => match e with EVal x => x | ERaw v => v end) es], [])
  | vb :: vbs' =>
    let '(c, r, o) := plevel vb (vb + 1) es 0 0 0 in
    let '(cs, rs) := plevels vbs' (map EVal o) in
    (c :: cs, r :: rs)
  end.

Definition bc7_build (vbs : list N) (lshift : N) (units : list unit) (leaves : list bool) : res bc7 :=
  let '(cs, rs) := plevels vbs (entries_of units leaves 0) in
  do links <- links_build (links_of lshift units leaves);
  do lv <- leaves_bv leaves;
  Ok (mkBc7 vbs (count_frees units 0) (map of_list cs) (map of_list rs) links lv).

Fixpoint dac7_access (vbs : list N) (ints ranks : list (arr N)) (i : N) : res N :=
  match vbs, ints with
  | [], cur :: _ => aget cur i
  | vb :: vbs', cur :: ints' =>
    do c <- aget cur i;
    let x := shr64 c 1 in
    if N.land c 1 =? 0 then Ok x else
    match ranks with
    | [] => Fault OobArr
    | rk :: ranks' => do r <- aget rk (shr64 i vb);
                      dac7_access vbs' ints' ranks' (add64 r x)
    end
  | _, [] => Fault OobArr
  end.
Definition bc7_access (d : bc7) (i : N) : res N := dac7_access (b7_vbits d) (b7_ints d) (b7_ranks d) i.

(* ================= common interface ================= *)
Inductive bcvec := Bc8 (d : bc8) | Bc7 (d : bc7).

Definition vbits_of (v : variant) : list N := match v with V7 => [7; 15; 31] | V15 => [15; 31] | _ => [] end.

Definition bc_build (v : variant) (units : list unit) (leaves : list bool) : res bcvec :=
  match v with
  | V8 => do d <- bc8_build 8 units leaves; Ok (Bc8 d)
  | V16 => do d <- bc8_build 16 units leaves; Ok (Bc8 d)
  | V7 => do d <- bc7_build (vbits_of V7) 8 units leaves; Ok (Bc7 d)
  | V15 => do d <- bc7_build (vbits_of V15) 16 units leaves; Ok (Bc7 d)
  end.

Definition bc_access (d : bcvec) (i : N) : res N :=
  match d with Bc8 d => bc8_access d i | Bc7 d => bc7_access d i end.
Definition bc_links (d : bcvec) := match d with Bc8 d => b8_links d | Bc7 d => b7_links d end.
Definition bc_leaves (d : bcvec) := match d with Bc8 d => b8_leaves d | Bc7 d => b7_leaves d end.
Definition bc_frees (d : bcvec) := match d with Bc8 d => b8_frees d | Bc7 d => b7_frees d end.
Definition bc_level0 (d : bcvec) : arr N :=
  match d with Bc8 d => hd aempty (b8_ints d) | Bc7 d => hd aempty (b7_ints d) end.
Definition bc_lshift (d : bcvec) : N :=
  match d with Bc8 d => b8_w d | Bc7 d => match b7_vbits d with 7 :: _ => 8 | _ => 16 end end.

Definition bc_base (d : bcvec) (i : N) : res N := do x <- bc_access d (shl64 i 1); Ok (N.lxor x i).
Definition bc_check (d : bcvec) (i : N) : res N := do x <- bc_access d (add64 (shl64 i 1) 1); Ok (N.lxor x i).
Definition bc_is_leaf (d : bcvec) (i : N) : res bool := bv_get (bc_leaves d) i.
Definition bc_link (d : bcvec) (i : N) : res N :=
  do lo <- aget (bc_level0 d) (shl64 i 1);
  do r <- bv_rank (bc_leaves d) i;
  do l <- cv_get (bc_links d) r;
  Ok (N.lor lo (shl64 l (bc_lshift d))).
Definition bc_num_units (d : bcvec) : N := shr64 (alen (bc_level0 d)) 1.
Definition bc_num_free_units (d : bcvec) : N := bc_frees d.
Definition bc_num_nodes (d : bcvec) : N := sub64 (bc_num_units d) (bc_num_free_units d).
Definition bc_num_leaves (d : bcvec) : N := bv_ones (bc_leaves d).
