(* DacFacts.v: losslessness of the BASE/CHECK vectors bc_vector_{7,8,15,16} (Dac.v).
   Main results (Section Dac, hypotheses Hcv : CvSpec, Hbuild : BvBuildSpec, Hget : BvGetSpec,
   Hrank : BvRankSpec):
     access_levels / bc8_spec   the byte/short DAC (8, 16)
     plevel_spec / access7 / bc7_spec   the pointer DAC (7, 15)
     bc_spec_8_16, bc_spec_7_15, bc_spec : BcSpec. *)
From Coq Require Import FMapPositive ZArith Lia ZifyN ZifyBool ZifyNat Arith PeanoNat.
From X Require Import Base Arr ArrFacts Consts BitToolsSpec BitToolsGen BitVector CompactVector Dac Tail Spec
  Iface IfaceDac CompactFacts.
Local Open Scope N_scope.
Ltac Zify.zify_post_hook ::= Z.div_mod_to_equations.

Arguments N.mul : simpl never.
Arguments N.add : simpl never.
Arguments N.sub : simpl never.
Arguments N.shiftl : simpl never.
Arguments N.shiftr : simpl never.
Arguments N.pow : simpl never.
Arguments N.div : simpl never.
Arguments N.modulo : simpl never.
Arguments N.land : simpl never.
Arguments N.lor : simpl never.
Arguments N.lxor : simpl never.
Arguments N.ones : simpl never.
Arguments N.testbit : simpl never.

(* ---------------- lists ---------------- *)
Lemma count_true_app l1 l2 : count_true (l1 ++ l2) = count_true l1 + count_true l2.
Proof. induction l1 as [|b t IH]; cbn [count_true app]; [lia|]. rewrite IH. lia. Qed.

Lemma count_true_le l : count_true l <= lenN l.
Proof. unfold lenN. induction l as [|b t IH]; cbn [count_true length]; [lia|]. destruct b; lia. Qed.

(* rank over the flags selects in the filtered list *)
Lemma filter_rank {A} (p : A -> bool) (d : A) xs : forall i, (i < length xs)%nat ->
  p (nth i xs d) = true ->
  let r := N.to_nat (count_true (firstn i (map p xs))) in
  (r < length (filter p xs))%nat /\ nth r (filter p xs) d = nth i xs d.
Proof.
  induction xs as [|x t IH]; intros i Hi Hp; cbn [length] in Hi; [lia|].
  destruct i as [|i].
  - cbn [nth] in Hp. cbn [firstn map count_true filter nth]. rewrite Hp. cbn. split; [lia|reflexivity].
  - cbn [nth] in Hp |- *. cbn [firstn map count_true filter].
    destruct (IH i ltac:(lia) Hp) as [H1 H2]. cbv zeta in H1, H2.
    destruct (p x); cbn [length nth].
    + replace (N.to_nat (1 + count_true (firstn i (map p t)))) with (S (N.to_nat (count_true (firstn i (map p t))))) by lia.
      split; [lia|]. exact H2.
    + rewrite N.add_0_l. split; assumption.
Qed.

Lemma filter_length_le {A} (p : A -> bool) xs : (length (filter p xs) <= length xs)%nat.
Proof. induction xs as [|x t IH]; cbn [filter length]; [lia|]. destruct (p x); cbn [length]; lia. Qed.

Lemma pad_to_app {A} (d : A) l : forall n, (length l <= n)%nat -> pad_to n d l = l ++ repeat d (n - length l).
Proof.
  induction l as [|x t IH]; intros n Hn.
  - cbn [length app]. rewrite Nat.sub_0_r. clear Hn. induction n as [|n IHn]; cbn [pad_to repeat]; [reflexivity|].
    rewrite IHn. reflexivity.
  - cbn [length] in Hn. destruct n as [|n]; [lia|]. cbn [pad_to length app]. rewrite IH by lia.
    reflexivity.
Qed.

Lemma removelast_firstn_pred {A} (l : list A) : firstn (length l - 1) l = removelast l.
Proof. rewrite removelast_firstn_len. f_equal. lia. Qed.

(* ================= 8 / 16: the level structure ================= *)
Definition hi8 (w x : N) : N := shr64 x w.
Definition big8 (w x : N) : bool := negb (shr64 x w =? 0).
Definition eval8 (w : N) (e : entry) : N := match e with ERaw v => low w v | EVal x => x end.

Lemma lvlj_eq w xs :
  lvlj w xs = (map (low w) xs, map (big8 w) xs, map (hi8 w) (filter (big8 w) xs)).
Proof.
  induction xs as [|x t IH]; cbn [lvlj map filter]; [reflexivity|].
  rewrite IH. unfold big8, hi8. destruct (shr64 x w =? 0); reflexivity.
Qed.

Lemma low_lt w x : low w x < 2 ^ w.
Proof. unfold low. rewrite N.land_ones. apply N.mod_lt. apply N.pow_nonzero. discriminate. Qed.

Lemma shr_small x w : x < 2 ^ w -> shr64 x w = 0.
Proof. intros H. unfold shr64. rewrite N.shiftr_div_pow2. apply N.div_small. assumption. Qed.
Lemma shr_zero_small x w : shr64 x w = 0 -> x < 2 ^ w.
Proof.
  unfold shr64. rewrite N.shiftr_div_pow2. intros H.
  apply N.div_small_iff in H; [assumption|]. apply N.pow_nonzero. discriminate.
Qed.
Lemma low_small w x : x < 2 ^ w -> low w x = x.
Proof. apply land_ones_small. Qed.

Lemma lvl0_eq w es : lvl0 w es = lvlj w (map (eval8 w) es).
Proof.
  induction es as [|e t IH]; cbn [lvl0 lvlj map]; [reflexivity|].
  rewrite IH. destruct e as [v|x]; cbn [eval8].
  - destruct (lvlj w (map (eval8 w) t)) as [[c f] o].
    rewrite (shr_small (low w v) w (low_lt w v)). cbn [N.eqb].
    rewrite (low_small w (low w v) (low_lt w v)). reflexivity.
  - reflexivity.
Qed.

Lemma lvls_nil n w : lvls n w [] = [].
Proof. destruct n; reflexivity. Qed.

Lemma lvls_cons n w x t :
  lvls (S n) w (x :: t) =
  (map (low w) (x :: t), map (big8 w) (x :: t)) :: lvls n w (map (hi8 w) (filter (big8 w) (x :: t))).
Proof. cbn [lvls]. rewrite lvlj_eq. reflexivity. Qed.

Lemma lvls_length n w : forall xs, (length (lvls n w xs) <= n)%nat.
Proof.
  induction n as [|n IH]; intros xs; [cbn; lia|].
  destruct xs as [|x t]; [cbn; lia|]. rewrite lvls_cons. cbn [length]. specialize (IH (map (hi8 w) (filter (big8 w) (x :: t)))). lia.
Qed.

(* reassembling a value from its low cell and the shifted rest *)
Lemma reassemble w s x : x < 2 ^ (64 - s) -> s <= 64 ->
  N.lor (shl64 (low w x) s) (N.shiftl (shr64 x w) (s + w)) = N.shiftl x s.
Proof.
  intros Hx Hs. apply N.bits_inj. intros b.
  rewrite N.lor_spec, tb_shl64, !tb_shl, tb_shr64. unfold low. rewrite N.land_spec, tb_ones.
  destruct (N.leb_spec s b) as [H1|H1]; cbn [andb orb].
  2:{ destruct (N.leb_spec (s + w) b); [lia|]. reflexivity. }
  destruct (N.ltb_spec (b - s) w) as [H2|H2].
  - destruct (N.leb_spec (s + w) b); [lia|]. cbn [andb]. rewrite orb_false_r, andb_true_r.
    destruct (N.ltb_spec b 64); [apply andb_true_r|].
    rewrite andb_false_r. symmetry. apply (tb_high x (64 - s)); [assumption|lia].
  - rewrite andb_false_r. cbn [andb orb]. destruct (N.leb_spec (s + w) b); [|lia]. cbn [andb].
    f_equal. lia.
Qed.

Lemma shl64_shiftl x s : x < 2 ^ (64 - s) -> s <= 64 -> shl64 x s = N.shiftl x s.
Proof.
  intros Hx Hs. unfold shl64. apply w64_small. rewrite N.shiftl_mul_pow2.
  replace (2 ^ 64) with (2 ^ (64 - s) * 2 ^ s).
  - apply N.mul_lt_mono_pos_r; [|assumption]. apply N.neq_0_lt_0. apply N.pow_nonzero. discriminate.
  - rewrite <- N.pow_add_r. f_equal. lia.
Qed.

(* ================= entries, links, counters ================= *)
Lemma entries_length units : forall leaves i0, length leaves = length units ->
  length (entries_of units leaves i0) = (2 * length units)%nat.
Proof.
  induction units as [|[b c] us IH]; intros leaves i0 Hl; destruct leaves as [|lf ls]; cbn [length] in *;
    try discriminate; cbn [entries_of length]; [reflexivity|].
  rewrite IH by lia. lia.
Qed.

Lemma entries_nth units : forall leaves i0 k, length leaves = length units -> (k < length units)%nat ->
  nth (2 * k) (entries_of units leaves i0) (EVal 0)
    = (if nth k leaves false then ERaw (fst (nth k units (0, 0)))
       else EVal (N.lxor (fst (nth k units (0, 0))) (i0 + N.of_nat k))) /\
  nth (2 * k + 1) (entries_of units leaves i0) (EVal 0)
    = EVal (N.lxor (snd (nth k units (0, 0))) (i0 + N.of_nat k)).
Proof.
  induction units as [|[b c] us IH]; intros leaves i0 k Hl Hk; destruct leaves as [|lf ls]; cbn [length] in *;
    try discriminate; try lia.
  cbn [entries_of]. destruct k as [|k].
  - cbn [nth fst snd Nat.mul Nat.add]. rewrite N.add_0_r. split; reflexivity.
  - replace (2 * S k)%nat with (S (S (2 * k))) by lia. replace (S (S (2 * k)) + 1)%nat with (S (S (2 * k + 1))) by lia.
    cbn [nth]. destruct (IH ls (i0 + 1) k ltac:(lia) ltac:(lia)) as [H1 H2].
    rewrite H1, H2. replace (i0 + 1 + N.of_nat k) with (i0 + N.of_nat (S k)) by lia. split; reflexivity.
Qed.

Lemma links_nth w units : forall leaves k, length leaves = length units -> (k < length units)%nat ->
  nth k leaves false = true ->
  let r := N.to_nat (count_true (firstn k leaves)) in
  (r < length (links_of w units leaves))%nat /\
  nth r (links_of w units leaves) 0 = shr64 (fst (nth k units (0, 0))) w.
Proof.
  induction units as [|[b c] us IH]; intros leaves k Hl Hk Hlf; destruct leaves as [|lf ls]; cbn [length] in *;
    try discriminate; try lia.
  cbn [links_of]. destruct k as [|k].
  - cbn [nth] in Hlf. subst lf. cbn. split; [lia|reflexivity].
  - cbn [nth] in Hlf |- *. cbn [firstn count_true].
    destruct (IH ls k ltac:(lia) ltac:(lia) Hlf) as [H1 H2]. cbv zeta in H1, H2.
    destruct lf; cbn [length nth].
    + replace (N.to_nat (1 + count_true (firstn k ls))) with (S (N.to_nat (count_true (firstn k ls)))) by lia.
      split; [lia|exact H2].
    + rewrite N.add_0_l. split; assumption.
Qed.

Lemma links_length_le w units : forall leaves, (length (links_of w units leaves) <= length units)%nat.
Proof.
  induction units as [|[b c] us IH]; intros leaves; destruct leaves as [|lf ls]; cbn [links_of length]; try lia.
  specialize (IH ls). destruct lf; cbn [length]; lia.
Qed.

Lemma links_bound w units : forall leaves, units_ok units ->
  Forall (fun x => x < 2 ^ 64) (links_of w units leaves).
Proof.
  induction units as [|[b c] us IH]; intros leaves Hok; destruct leaves as [|lf ls]; cbn [links_of]; try constructor.
  inversion Hok as [|? ? [Hb Hc] Hus]; subst. cbn [fst snd] in *.
  destruct lf; [constructor|]; try (apply IH; assumption).
  eapply N.le_lt_trans; [apply shr64_le|assumption].
Qed.

Lemma links_nil_no_leaf w units : forall leaves, length leaves = length units ->
  links_of w units leaves = [] -> forall k, nth k leaves false = false.
Proof.
  induction units as [|[b c] us IH]; intros leaves Hl Hnil k; destruct leaves as [|lf ls]; cbn [length] in *;
    try discriminate.
  - destruct k; reflexivity.
  - cbn [links_of] in Hnil. destruct lf; [discriminate|]. destruct k as [|k]; [reflexivity|].
    cbn [nth]. apply IH; [lia|assumption].
Qed.

Lemma count_frees_eq units : forall i, count_frees units i = count_free_spec units i.
Proof.
  induction units as [|[b c] us IH]; intros i; cbn [count_frees count_free_spec snd]; [reflexivity|].
  rewrite IH. reflexivity.
Qed.
Lemma count_free_le units : forall i, count_free_spec units i <= lenN units.
Proof.
  unfold lenN. induction units as [|u us IH]; intros i; cbn [count_free_spec length]; [lia|].
  specialize (IH (i + 1)). destruct (snd u =? i); lia.
Qed.

Lemma sub64_small a b : b <= a -> a < 2 ^ 64 -> sub64 a b = a - b.
Proof.
  intros Hb Ha. unfold sub64. rewrite (w64_small b) by lia. rewrite N.shiftl_1_l.
  unfold w64, mask64. rewrite N.land_ones.
  replace (a + 2 ^ 64 - b) with ((a - b) + 1 * 2 ^ 64) by lia.
  rewrite N.mod_add by (apply N.pow_nonzero; discriminate). apply N.mod_small. lia.
Qed.

Lemma lxor_lt64 a b : a < 2 ^ 64 -> b < 2 ^ 64 -> N.lxor a b < 2 ^ 64.
Proof.
  intros Ha Hb. apply lt_pow2_of_bits. intros i Hi.
  rewrite N.lxor_spec, (tb_high a 64 i), (tb_high b 64 i) by assumption. reflexivity.
Qed.
Lemma lxor_cancel a b : N.lxor (N.lxor a b) b = a.
Proof. rewrite N.lxor_assoc, N.lxor_nilpotent, N.lxor_0_r. reflexivity. Qed.

Lemma low_hi_join w b : b < 2 ^ 64 -> w <= 64 -> N.lor (low w b) (shl64 (shr64 b w) w) = b.
Proof.
  intros Hb Hw. apply N.bits_inj. intros i.
  rewrite N.lor_spec, tb_shl64, tb_shr64. unfold low. rewrite N.land_spec, tb_ones.
  destruct (N.ltb_spec i w); destruct (N.leb_spec w i); try lia; cbn [andb orb].
  - rewrite andb_true_r, orb_false_r. reflexivity.
  - rewrite andb_false_r. cbn [orb]. replace (i - w + w) with i by lia.
    destruct (N.ltb_spec i 64); [apply andb_true_r|]. rewrite andb_false_r. symmetry.
    apply (tb_high b 64); assumption.
Qed.

Lemma Forall_firstn {A} (P : A -> Prop) l : forall n, Forall P l -> Forall P (firstn n l).
Proof.
  induction l as [|x t IH]; intros [|n] H; cbn [firstn]; try constructor.
  - inversion H; assumption.
  - apply IH. inversion H; assumption.
Qed.

Lemma lvls_flags_len n w : forall xs,
  Forall (fun cf => (length (snd cf) <= length xs)%nat) (lvls n w xs).
Proof.
  induction n as [|n IH]; intros xs; [constructor|].
  destruct xs as [|x t]; [constructor|]. rewrite lvls_cons. constructor.
  - cbn [snd]. rewrite map_length. lia.
  - eapply Forall_impl; [|apply IH]. intros cf H. cbv beta in H. rewrite map_length in H.
    pose proof (filter_length_le (big8 w) (x :: t)). lia.
Qed.

Lemma entries_bound w units : forall leaves i0, units_ok units -> w <= 64 -> i0 + lenN units < 2 ^ 64 ->
  Forall (fun x => x < 2 ^ 64) (map (eval8 w) (entries_of units leaves i0)).
Proof.
  unfold lenN. induction units as [|[b c] us IH]; intros leaves i0 Hok Hw Hi; destruct leaves as [|lf ls];
    cbn [entries_of map]; try constructor.
  - inversion Hok as [|? ? [Hb Hc] Hus]; subst. cbn [fst snd length] in *.
    destruct lf; cbn [eval8].
    + eapply N.lt_le_trans; [apply low_lt|]. apply N.pow_le_mono_r; [discriminate|assumption].
    + apply lxor_lt64; [assumption|lia].
  - inversion Hok as [|? ? [Hb Hc] Hus]; subst. cbn [fst snd length] in *. constructor.
    + cbn [eval8]. apply lxor_lt64; [assumption|lia].
    + apply IH; [assumption|assumption|lia].
Qed.

Lemma bc8_build_eq w units leaves :
  bc8_build w units leaves =
  let maxl := N.to_nat (64 / w) in
  let vals := map (eval8 w) (entries_of units leaves 0) in
  let rest := lvls (maxl - 1) w (map (hi8 w) (filter (big8 w) vals)) in
  let all := (map (low w) vals, map (big8 w) vals) :: rest in
  let nlev := lenN rest in
  let ints := pad_to maxl aempty (map (fun cf => of_list (fst cf)) all) in
  do nx <- build_nexts (map snd (firstn (N.to_nat nlev) all));
  let nexts := pad_to (maxl - 1) bv_empty nx in
  do links <- links_build (links_of w units leaves);
  do lv <- leaves_bv leaves;
  Ok (mkBc8 w nlev (count_frees units 0) ints nexts links lv).
Proof. unfold bc8_build. rewrite lvl0_eq, lvlj_eq. reflexivity. Qed.

Lemma shl1 i : i < 2 ^ 62 -> shl64 i 1 = 2 * i.
Proof.
  intros H. unfold shl64. rewrite N.shiftl_mul_pow2. change (2 ^ 1) with 2.
  rewrite w64_small; [lia|]. change (2 ^ 64) with (2 ^ 62 * 4). lia.
Qed.
Lemma add64_small a b : a + b < 2 ^ 64 -> add64 a b = a + b.
Proof. apply w64_small. Qed.

Definition bc_ok (d : bcvec) (units : list unit) (leaves : list bool) : Prop :=
  bc_num_units d = lenN units /\
  bc_num_free_units d = count_free_spec units 0 /\
  bc_num_leaves d = count_true leaves /\
  bc_num_nodes d = lenN units - count_free_spec units 0 /\
  forall i, i < lenN units ->
    bc_is_leaf d i = Ok (nthb leaves i) /\
    bc_check d i = Ok (snd (nthu units i)) /\
    (nthb leaves i = false -> bc_base d i = Ok (fst (nthu units i))) /\
    (nthb leaves i = true -> bc_link d i = Ok (fst (nthu units i))).

Lemma nth_map0 {A} (f : A -> N) (d : A) l i : (i < length l)%nat -> nth i (map f l) 0 = f (nth i l d).
Proof. intros H. rewrite (nth_indep _ 0 (f d)) by (rewrite map_length; assumption). apply map_nth. Qed.
Lemma nthb_map {A} (f : A -> bool) (d : A) l i : (i < length l)%nat -> nthb (map f l) (N.of_nat i) = f (nth i l d).
Proof.
  intros H. unfold nthb. rewrite Nat2N.id.
  rewrite (nth_indep _ false (f d)) by (rewrite map_length; assumption). apply map_nth.
Qed.


Lemma p62_64 : 2 ^ 62 * 4 = 2 ^ 64. Proof. vm_compute. reflexivity. Qed.

(* ================= 7 / 15: block arithmetic ================= *)
Lemma divmod_char a B q r : r < B -> a = B * q + r -> a / B = q /\ a mod B = r.
Proof.
  intros Hr Ha. split.
  - symmetry. apply (N.div_unique a B q r); assumption.
  - symmetry. apply (N.mod_unique a B q r); assumption.
Qed.

Section Blocks.
Variable B : N.
Hypothesis HB : 2 <= B.
Definition cdiv (a : N) : N := (a + B - 1) / B.

Lemma blk_decomp a : exists q r, a = B * q + r /\ r < B /\ a / B = q /\ a mod B = r.
Proof.
  exists (a / B), (a mod B). split; [apply N.div_mod; lia|]. split; [apply N.mod_lt; lia|]. split; reflexivity.
Qed.

Lemma cdiv_at_start a : a mod B = 0 -> cdiv a = a / B /\ cdiv (a + 1) = a / B + 1 /\ (a + 1) mod B = 1 /\ (a + 1) / B = a / B.
Proof.
  destruct (blk_decomp a) as (q & r & Ha & Hr & Hq & Hm). rewrite Hq, Hm. intros ->. unfold cdiv.
  destruct (divmod_char (a + B - 1) B q (B - 1)) as [E1 _]; [lia|lia|].
  destruct (divmod_char (a + 1 + B - 1) B (q + 1) 0) as [E2 _]; [lia|lia|].
  destruct (divmod_char (a + 1) B q 1) as [E3 E4]; [lia|lia|].
  rewrite E1, E2, E3, E4. repeat split.
Qed.

Lemma cdiv_inside a : a mod B <> 0 -> cdiv a = a / B + 1 /\ cdiv (a + 1) = a / B + 1.
Proof.
  destruct (blk_decomp a) as (q & r & Ha & Hr & Hq & Hm). rewrite Hq, Hm. intros Hne. unfold cdiv.
  destruct (divmod_char (a + B - 1) B (q + 1) (r - 1)) as [E1 _]; [lia|lia|].
  rewrite E1. split; [reflexivity|].
  destruct (N.eq_dec (r + 1) B) as [E|E].
  - destruct (divmod_char (a + 1 + B - 1) B (q + 1) (B - 1)) as [E2 _]; [lia|lia|]. exact E2.
  - destruct (divmod_char (a + 1 + B - 1) B (q + 1) r) as [E2 _]; [lia|lia|]. exact E2.
Qed.

Lemma next_inside a : (a + 1) mod B <> 0 -> (a + 1) / B = a / B /\ (a + 1) mod B = a mod B + 1.
Proof.
  destruct (blk_decomp a) as (q & r & Ha & Hr & Hq & Hm). rewrite Hq, Hm. intros Hne.
  destruct (N.eq_dec (r + 1) B) as [E|E].
  - exfalso. apply Hne. destruct (divmod_char (a + 1) B (q + 1) 0) as [_ E2]; [lia|lia|]. exact E2.
  - destruct (divmod_char (a + 1) B q (r + 1)) as [E1 E2]; [lia|lia|]. split; assumption.
Qed.

Lemma cdiv_mono a b : a <= b -> cdiv a <= cdiv b.
Proof. intros H. unfold cdiv. apply N.div_le_mono; lia. Qed.

Lemma div_lt_cdiv a b : a < b -> a / B < cdiv b.
Proof.
  intros H. unfold cdiv. destruct (blk_decomp a) as (q & r & Ha & Hr & Hq & Hm). rewrite Hq.
  assert (q + 1 <= (b + B - 1) / B); [|lia].
  apply N.div_le_lower_bound; [lia|]. lia.
Qed.
End Blocks.

(* ================= 7 / 15: one pointer level ================= *)
Definition big7 (vb : N) (e : entry) : bool :=
  match e with EVal x => negb (shr64 x vb =? 0) | ERaw _ => false end.
Definition val7 (e : entry) : N := match e with EVal x => x | ERaw v => v end.
Definition idx7 (vb : N) (es : list entry) (i : nat) : N := lenN (filter (big7 vb) (firstn i es)).

Definition cell_ok (vb : N) (e : entry) (cellv : N) (rk : N) (target : N) : Prop :=
  match e with
  | ERaw v => cellv = low (vb + 1) v
  | EVal x => if shr64 x vb =? 0 then cellv = 2 * x
              else exists k, cellv = 2 * k + 1 /\ rk + k = target
  end.

Lemma lor_1_double k : N.lor 1 (2 * k) = 2 * k + 1.
Proof. destruct k; reflexivity. Qed.

Lemma pow2_ge2 vb : 1 <= vb -> 2 <= 2 ^ vb.
Proof. intros H. change 2 with (2 ^ 1) at 1. apply N.pow_le_mono_r; [discriminate|assumption]. Qed.

Lemma plevel_spec vb : 1 <= vb -> vb < 62 -> forall es pos nov base rpre c r o,
  plevel vb (vb + 1) es pos nov base = (c, r, o) ->
  lenN rpre = cdiv (2 ^ vb) pos ->
  (pos mod 2 ^ vb <> 0 ->
     nth (N.to_nat (pos / 2 ^ vb)) rpre 0 = base /\ base <= nov /\ nov - base <= pos mod 2 ^ vb) ->
  nov + lenN es < 2 ^ 62 ->
  length c = length es /\ o = map val7 (filter (big7 vb) es) /\
  lenN rpre + lenN r = cdiv (2 ^ vb) (pos + lenN es) /\
  forall i, (i < length es)%nat ->
    cell_ok vb (nth i es (ERaw 0)) (nth i c 0)
      (nth (N.to_nat ((pos + N.of_nat i) / 2 ^ vb)) (rpre ++ r) 0) (nov + idx7 vb es i).
Proof.
  intros Hvb1 Hvb62. set (B := 2 ^ vb). assert (HB : 2 <= B) by (apply pow2_ge2; assumption).
  assert (HB62 : B < 2 ^ 62) by (apply N.pow_lt_mono_r; lia).
  assert (Hcellpow : 2 ^ (vb + 1) = 2 * B) by (rewrite N.add_1_r, N.pow_succ_r'; reflexivity).
  pose proof p62_64 as Hp.
  induction es as [|e t IH]; intros pos nov base rpre c r o Hpl Hrp Hbase Hbnd.
  - cbn [plevel] in Hpl. inversion Hpl; subst. split; [reflexivity|]. split; [reflexivity|]. split.
    { unfold lenN. cbn [length]. rewrite !N.add_0_r. exact Hrp. }
    intros i Hi. cbn in Hi. lia.
  - cbn [plevel] in Hpl. rewrite N.land_ones in Hpl. fold B in Hpl.
    set (newblk := pos mod B =? 0) in *.
    set (base' := if newblk then nov else base) in *.
    set (nov' := if big7 vb e then nov + 1 else nov).
    assert (Hcall : match e with
                    | ERaw _ => plevel vb (vb + 1) t (pos + 1) nov base'
                    | EVal x => if shr64 x vb =? 0 then plevel vb (vb + 1) t (pos + 1) nov base'
                                else plevel vb (vb + 1) t (pos + 1) (nov + 1) base'
                    end = plevel vb (vb + 1) t (pos + 1) nov' base').
    { subst nov'. destruct e as [v|x]; cbn [big7]; [reflexivity|]. destruct (shr64 x vb =? 0); reflexivity. }
    rewrite Hcall in Hpl. clear Hcall.
    destruct (plevel vb (vb + 1) t (pos + 1) nov' base') as [[c' r'] o'] eqn:E.
    injection Hpl as Hc Hr Ho.
    set (rpre' := if newblk then rpre ++ [nov] else rpre).
    assert (Hnov' : nov <= nov' <= nov + 1) by (subst nov'; destruct (big7 vb e); lia).
    assert (Hlen_t : lenN (e :: t) = lenN t + 1) by (unfold lenN; cbn [length]; lia).
    (* the state handed to the rest of the level *)
    assert (Hstate : lenN rpre' = cdiv B (pos + 1) /\
              ((pos + 1) mod B <> 0 ->
                nth (N.to_nat ((pos + 1) / B)) rpre' 0 = base' /\ base' <= nov' /\ nov' - base' <= (pos + 1) mod B) /\
              nth (N.to_nat (pos / B)) (rpre' ++ r') 0 = base' /\ base' <= nov /\ nov - base' < B).
    { subst rpre' base'. destruct (N.eqb_spec (pos mod B) 0) as [E0|E0]; subst newblk; cbv iota.
      - destruct (cdiv_at_start B HB pos E0) as (C1 & C2 & C3 & C4).
        assert (Hlr : length rpre = N.to_nat (pos / B)) by (unfold lenN in Hrp; lia).
        split; [unfold lenN in *; rewrite app_length; cbn [length]; lia|]. split.
        + intros _. rewrite C4, C3. rewrite app_nth2 by lia. rewrite Hlr, Nat.sub_diag. cbn [nth]. lia.
        + rewrite <- app_assoc. rewrite app_nth2 by lia. rewrite Hlr, Nat.sub_diag. cbn [app nth]. lia.
      - destruct (cdiv_inside B HB pos E0) as (C1 & C2). destruct (Hbase E0) as (Hb1 & Hb2 & Hb3).
        assert (Hlr : length rpre = S (N.to_nat (pos / B))) by (unfold lenN in Hrp; lia).
        assert (pos mod B < B) by (apply N.mod_lt; lia).
        split; [lia|]. split.
        + intros Hne. destruct (next_inside B HB pos Hne) as [N1 N2]. rewrite N1, N2. split; [assumption|]. lia.
        + rewrite app_nth1 by lia. split; [assumption|]. lia. }
    destruct Hstate as (Hs1 & Hs2 & Hs3 & Hs4 & Hs5).
    assert (Hbnd' : nov' + lenN t < 2 ^ 62) by (clear - Hnov' Hbnd Hlen_t; lia).
    destruct (IH (pos + 1) nov' base' rpre' c' r' o' E Hs1 Hs2 Hbnd') as (I1 & I2 & I3 & I4).
    assert (Happ : rpre ++ r = rpre' ++ r').
    { subst r rpre'. destruct newblk; [rewrite <- app_assoc; reflexivity|reflexivity]. }
    split; [subst c; cbn [length]; rewrite I1; reflexivity|]. split.
    { subst o. cbn [filter]. destruct e as [v|x]; cbn [big7]; [assumption|].
      destruct (shr64 x vb =? 0); cbn [negb map val7]; [assumption|]. rewrite I2. reflexivity. }
    split.
    { replace (lenN rpre + lenN r) with (lenN rpre' + lenN r').
      - rewrite I3. f_equal. clear - Hlen_t. lia.
      - unfold lenN. rewrite <- !Nat2N.inj_add, <- !app_length, Happ. reflexivity. }
    intros [|i] Hi.
    + rewrite N.add_0_r. cbn [nth]. subst c. cbn [nth]. rewrite Happ, Hs3.
      unfold idx7. cbn [firstn filter]. unfold lenN at 1. cbn [length]. rewrite N.add_0_r.
      clearbody base' newblk nov'. clear - HB HB62 Hcellpow Hp Hs4 Hs5 Hbnd Hlen_t Hvb1 Hvb62.
      destruct e as [v|x]; cbn [cell_ok]; [reflexivity|].
      destruct (N.eqb_spec (shr64 x vb) 0) as [Ex|Ex].
      * apply shr_zero_small in Ex. fold B in Ex. rewrite shl1 by lia. apply low_small. rewrite Hcellpow. lia.
      * exists (nov - base'). split; [|lia].
        rewrite sub64_small by lia. rewrite shl1 by lia. rewrite lor_1_double. apply low_small.
        rewrite Hcellpow. lia.
    + cbn [length] in Hi. specialize (I4 i ltac:(lia)). cbn [nth]. subst c. cbn [nth].
      replace (pos + N.of_nat (S i)) with (pos + 1 + N.of_nat i) by lia. rewrite Happ.
      replace (nov + idx7 vb (e :: t) (S i)) with (nov' + idx7 vb t i); [exact I4|].
      unfold idx7. cbn [firstn filter]. subst nov'. destruct (big7 vb e); unfold lenN; cbn [length]; lia.
Qed.

Lemma plevel_top vb : 1 <= vb -> vb < 62 -> forall es c r o,
  plevel vb (vb + 1) es 0 0 0 = (c, r, o) -> lenN es < 2 ^ 62 ->
  length c = length es /\ o = map val7 (filter (big7 vb) es) /\
  lenN r = cdiv (2 ^ vb) (lenN es) /\
  forall i, (i < length es)%nat ->
    cell_ok vb (nth i es (ERaw 0)) (nth i c 0)
      (nth (N.to_nat (N.of_nat i / 2 ^ vb)) r 0) (idx7 vb es i).
Proof.
  intros Hvb1 Hvb62 es c r o Hpl Hlen.
  pose proof (pow2_ge2 vb Hvb1) as HB.
  destruct (plevel_spec vb Hvb1 Hvb62 es 0 0 0 [] c r o Hpl) as (H1 & H2 & H3 & H4).
  - unfold cdiv, lenN. cbn [length]. symmetry. apply N.div_small. lia.
  - intros Hne. exfalso. apply Hne. apply N.mod_0_l. lia.
  - lia.
  - split; [assumption|]. split; [assumption|]. split.
    + unfold lenN in H3 at 1. cbn [length] in H3. rewrite !N.add_0_l in H3. exact H3.
    + intros i Hi. specialize (H4 i Hi). rewrite !N.add_0_l in H4. exact H4.
Qed.

Lemma filter_idx {A} (p : A -> bool) (d : A) xs : forall i, (i < length xs)%nat ->
  p (nth i xs d) = true ->
  let r := length (filter p (firstn i xs)) in
  (r < length (filter p xs))%nat /\ nth r (filter p xs) d = nth i xs d.
Proof.
  induction xs as [|x t IH]; intros i Hi Hp; cbn [length] in Hi; [lia|].
  destruct i as [|i].
  - cbn [nth] in Hp. cbn [firstn filter length nth]. rewrite Hp. cbn [length nth]. split; [lia|reflexivity].
  - cbn [nth] in Hp |- *. cbn [firstn filter].
    destruct (IH i ltac:(lia) Hp) as [H1 H2]. cbv zeta in H1, H2.
    destruct (p x); cbn [length nth]; split; try lia; assumption.
Qed.

Lemma plevels_cons vb vbs es cs rs : plevels (vb :: vbs) es = (cs, rs) ->
  exists c r o cs' rs', plevel vb (vb + 1) es 0 0 0 = (c, r, o) /\ cs = c :: cs' /\ rs = r :: rs' /\
    plevels vbs (map EVal o) = (cs', rs').
Proof.
  cbn [plevels]. destruct (plevel vb (vb + 1) es 0 0 0) as [[c r] o] eqn:E1.
  destruct (plevels vbs (map EVal o)) as [cs' rs'] eqn:E2. intros H. injection H as <- <-.
  exists c, r, o, cs', rs'. split; [reflexivity|]. split; [reflexivity|]. split; [reflexivity|]. exact E2.
Qed.

Lemma even_cell x : N.land (2 * x) 1 = 0 /\ shr64 (2 * x) 1 = x.
Proof.
  change 1 with (N.ones 1) at 1. rewrite N.land_ones. unfold shr64. rewrite N.shiftr_div_pow2.
  change (2 ^ 1) with 2. split; lia.
Qed.
Lemma odd_cell k : N.land (2 * k + 1) 1 = 1 /\ shr64 (2 * k + 1) 1 = k.
Proof.
  change 1 with (N.ones 1) at 2. rewrite N.land_ones. unfold shr64. rewrite N.shiftr_div_pow2.
  change (2 ^ 1) with 2. split; lia.
Qed.

Lemma access7 : forall vbs es cs rs, Forall (fun vb => 1 <= vb /\ vb < 62) vbs ->
  plevels vbs es = (cs, rs) -> lenN es < 2 ^ 62 ->
  forall i x, (i < length es)%nat -> nth i es (ERaw 0) = EVal x ->
    dac7_access vbs (map of_list cs) (map of_list rs) (N.of_nat i) = Ok x.
Proof.
  induction vbs as [|vb vbs IH]; intros es cs rs Hvbs Hpl Hlen i x Hi Hx.
  - cbn [plevels] in Hpl. injection Hpl as <- <-. cbn [map dac7_access].
    rewrite (aget_of_list_ok _ _ 0) by (rewrite map_length; lia). rewrite Nat2N.id.
    rewrite (nth_map0 _ (ERaw 0)) by assumption. rewrite Hx. reflexivity.
  - inversion Hvbs as [|? ? [Hvb1 Hvb62] Hvbs']; subst.
    apply plevels_cons in Hpl. destruct Hpl as (c & r & o & cs' & rs' & Hpl & -> & -> & Hrest).
    destruct (plevel_top vb Hvb1 Hvb62 es c r o Hpl Hlen) as (H1 & H2 & H3 & H4).
    specialize (H4 i Hi). rewrite Hx in H4. cbn [cell_ok] in H4.
    cbn [map dac7_access].
    rewrite (aget_of_list_ok _ _ 0) by lia. rewrite Nat2N.id. cbn [bind].
    destruct (N.eqb_spec (shr64 x vb) 0) as [Es|Eb].
    + rewrite H4. destruct (even_cell x) as [E1 E2]. rewrite E1, E2. reflexivity.
    + destruct H4 as (k & Hc & Hk). rewrite Hc. destruct (odd_cell k) as [E1 E2]. rewrite E1, E2.
      cbn [N.eqb Pos.eqb].
      pose proof (pow2_ge2 vb Hvb1) as HB.
      unfold shr64. rewrite N.shiftr_div_pow2.
      rewrite (aget_of_list_ok _ _ 0).
      2:{ unfold lenN in H3. rewrite H3. apply div_lt_cdiv; [assumption|]. lia. }
      cbn [bind].
      assert (Hbig : big7 vb (nth i es (ERaw 0)) = true).
      { rewrite Hx. cbn [big7]. apply negb_true_iff. apply N.eqb_neq. assumption. }
      destruct (filter_idx (big7 vb) (ERaw 0) es i Hi Hbig) as [F1 F2]. cbv zeta in F1, F2.
      pose proof (filter_length_le (big7 vb) es) as Hfl.
      rewrite add64_small.
      2:{ rewrite Hk. unfold idx7, lenN in *. pose proof p62_64. lia. }
      rewrite Hk. unfold idx7, lenN.
      apply (IH (map EVal o) cs' rs' Hvbs' Hrest).
      * unfold lenN in *. rewrite map_length, H2, map_length. lia.
      * rewrite map_length, H2, map_length. exact F1.
      * rewrite H2. rewrite map_map.
        rewrite (nth_indep _ (ERaw 0) (EVal (val7 (ERaw 0)))) by (rewrite map_length; exact F1).
        rewrite (map_nth (fun e => EVal (val7 e))). rewrite F2, Hx. reflexivity.
Qed.
Section Dac.
Hypothesis Hcv : CvSpec.
Hypothesis Hbuild : BvBuildSpec.
Hypothesis Hget : BvGetSpec.
Hypothesis Hrank : BvRankSpec.

Definition is_bv (f : list bool) (v : bitvec) : Prop := bv_of_bits f true false = Ok v.

Lemma build_nexts_ok fl : Forall (fun f => lenN f < max_bits) fl ->
  exists nx, build_nexts fl = Ok nx /\ Forall2 is_bv fl nx.
Proof.
  induction fl as [|f t IH]; intros H; cbn [build_nexts].
  - exists []. split; [reflexivity|constructor].
  - inversion H as [|? ? Hf Ht]; subst. destruct (IH Ht) as (nx & Hnx & Hall).
    destruct (Hbuild f true false Hf) as (v & Hv & _).
    pose proof Hv as Hv'. unfold bv_of_bits in Hv'. apply bind_ok_inv in Hv'. destruct Hv' as (b & Hb & Hbv).
    rewrite Hb. cbn [bind]. rewrite Hbv. cbn [bind]. rewrite Hnx. cbn [bind].
    exists (v :: nx). split; [reflexivity|]. constructor; assumption.
Qed.

Lemma access_levels w : 0 < w -> forall n xs j nlev nxs isuf nsuf,
  xs <> [] -> (0 < n)%nat -> j * w + N.of_nat n * w = 64 ->
  Forall (fun x => x < 2 ^ (N.of_nat n * w)) xs -> lenN xs < 2 ^ 62 ->
  j + lenN (lvls n w xs) = nlev + 1 ->
  Forall2 is_bv (map snd (removelast (lvls n w xs))) nxs ->
  forall i, (i < length xs)%nat ->
    dac8_access w nlev (map (fun cf => of_list (fst cf)) (lvls n w xs) ++ isuf) (nxs ++ nsuf) j (N.of_nat i)
    = Ok (N.shiftl (nth i xs 0) (j * w)).
Proof.
  intros Hw. induction n as [|m IH]; intros xs j nlev nxs isuf nsuf Hne Hn Hjw Hbound Hlen Hlev Hnx i Hi; [lia|].
  destruct xs as [|x0 t]; [congruence|]. rewrite lvls_cons in *.
  set (xs := x0 :: t) in *. clearbody xs. clear Hne x0 t.
  set (o := map (hi8 w) (filter (big8 w) xs)) in *.
  cbn [map app fst dac8_access].
  rewrite (aget_of_list_ok _ _ 0) by (rewrite map_length; lia). rewrite Nat2N.id. cbn [bind].
  rewrite (nth_map0 _ 0) by assumption.
  set (x := nth i xs 0).
  assert (Hx : x < 2 ^ (N.of_nat (S m) * w)).
  { rewrite Forall_forall in Hbound. apply Hbound. apply nth_In. assumption. }
  assert (Hjw64 : j * w < 64) by nia.
  rewrite (mul64_small j w) by (assert (2 ^ 6 <= 2 ^ 64) by (apply N.pow_le_mono_r; lia); change (2 ^ 6) with 64 in *; lia).
  assert (Hx' : x < 2 ^ (64 - j * w)) by (replace (64 - j * w) with (N.of_nat (S m) * w) by lia; assumption).
  destruct (lvls m w o) as [|l1 L'] eqn:EL.
  - (* this is the last level: no value continues *)
    assert (Hj : j = nlev) by (unfold lenN in Hlev; cbn [length] in Hlev; lia).
    destruct (N.ltb_spec j nlev); [lia|].
    assert (Hsmall : x < 2 ^ w).
    { destruct m as [|m'].
      - replace (N.of_nat 1 * w) with w in Hx by lia. assumption.
      - assert (Ho : o = []) by (destruct o; [reflexivity|rewrite lvls_cons in EL; discriminate]).
        apply map_eq_nil in Ho.
        destruct (big8 w x) eqn:Eb.
        + assert (Hin : In x (filter (big8 w) xs)) by (apply filter_In; split; [apply nth_In; assumption|assumption]).
          rewrite Ho in Hin. destruct Hin.
        + unfold big8 in Eb. apply negb_false_iff in Eb. apply N.eqb_eq in Eb.
          apply shr_zero_small. assumption. }
    rewrite low_small by assumption. rewrite shl64_shiftl by (assumption || lia). reflexivity.
  - assert (Hm : (0 < m)%nat) by (destruct m; [discriminate|lia]).
    assert (Ho : o <> []) by (intros ->; rewrite lvls_nil in EL; discriminate).
    assert (Hjl : j < nlev) by (unfold lenN in Hlev; cbn [length] in Hlev; lia).
    destruct (N.ltb_spec j nlev); [|lia].
    change (removelast ((map (low w) xs, map (big8 w) xs) :: l1 :: L'))
      with ((map (low w) xs, map (big8 w) xs) :: removelast (l1 :: L')) in Hnx.
    cbn [map snd] in Hnx. inversion Hnx as [|f0 nx fl nxs' Hnx0 Hnxt]; subst. clear Hnx.
    cbn [app]. unfold is_bv in Hnx0.
    assert (Hfl : lenN (map (big8 w) xs) < max_bits).
    { unfold lenN in *. rewrite map_length. unfold max_bits. lia. }
    rewrite (Hget _ _ _ _ (N.of_nat i) Hfl Hnx0) by (unfold lenN; rewrite map_length; lia).
    cbn [bind]. rewrite (nthb_map _ 0) by assumption. fold x.
    destruct (big8 w x) eqn:Eb.
    + rewrite (Hrank _ _ _ (N.of_nat i) Hfl Hnx0) by (unfold lenN; rewrite map_length; lia).
      cbn [bind]. rewrite Nat2N.id.
      destruct (filter_rank (big8 w) 0 xs i Hi Eb) as [Hr1 Hr2]. cbv zeta in Hr1, Hr2.
      set (r := N.to_nat (count_true (firstn i (map (big8 w) xs)))) in *.
      replace (count_true (firstn i (map (big8 w) xs))) with (N.of_nat r) by (subst r; lia).
      rewrite <- EL in *.
      rewrite (IH o (j + 1) nlev nxs' isuf nsuf Ho Hm).
      * cbn [bind]. f_equal. subst o. rewrite (nth_map0 _ 0) by assumption. rewrite Hr2. fold x.
        unfold hi8. replace ((j + 1) * w) with (j * w + w) by lia.
        apply reassemble; [assumption|lia].
      * lia.
      * subst o. apply Forall_forall. intros y Hy. apply in_map_iff in Hy. destruct Hy as (z & <- & Hz).
        apply filter_In in Hz. destruct Hz as [Hz _]. rewrite Forall_forall in Hbound. specialize (Hbound z Hz).
        unfold hi8, shr64. rewrite N.shiftr_div_pow2. apply N.div_lt_upper_bound; [apply N.pow_nonzero; discriminate|].
        rewrite <- N.pow_add_r. replace (w + N.of_nat m * w) with (N.of_nat (S m) * w) by lia. assumption.
      * subst o. unfold lenN in *. rewrite map_length. pose proof (filter_length_le (big8 w) xs). lia.
      * unfold lenN in *. cbn [length] in Hlev. lia.
      * rewrite EL. exact Hnxt.
      * subst o. rewrite map_length. assumption.
    + unfold big8 in Eb. apply negb_false_iff in Eb. apply N.eqb_eq in Eb. apply shr_zero_small in Eb.
      rewrite low_small by assumption. rewrite shl64_shiftl by (assumption || lia). reflexivity.
Qed.

Lemma p56_62 : 2 ^ 56 < 2 ^ 62. Proof. vm_compute. reflexivity. Qed.

Lemma links_leaves_ok w units leaves :
  units_ok units -> length leaves = length units -> lenN units < 2 ^ 56 ->
  exists links lv, links_build (links_of w units leaves) = Ok links /\ leaves_bv leaves = Ok lv /\
    bv_ones lv = count_true leaves /\
    forall i, i < lenN units ->
      bv_get lv i = Ok (nthb leaves i) /\
      (nthb leaves i = true ->
       exists r, bv_rank lv i = Ok r /\ cv_get links r = Ok (shr64 (fst (nthu units i)) w)).
Proof.
  intros Hok Hl Hsz. pose proof p56_62 as Hp.
  assert (Hlb : lenN leaves < max_bits) by (unfold lenN, max_bits in *; lia).
  destruct (Hbuild leaves true false Hlb) as (lv & Hlv & _ & Hones).
  assert (Hlinks : exists links, links_build (links_of w units leaves) = Ok links /\
            (links_of w units leaves <> [] -> forall r, r < lenN (links_of w units leaves) ->
               cv_get links r = Ok (nth (N.to_nat r) (links_of w units leaves) 0))).
  { unfold links_build. destruct (links_of w units leaves) as [|l0 lt] eqn:El.
    - exists cv_empty. split; [reflexivity|]. congruence.
    - rewrite <- El. destruct (Hcv (links_of w units leaves)) as (c & Hc & _ & Hcg).
      + congruence.
      + apply links_bound. assumption.
      + pose proof (links_length_le w units leaves). unfold lenN in *. lia.
      + exists c. split; [assumption|]. intros _. exact Hcg. }
  destruct Hlinks as (links & Hlk & Hlg).
  exists links, lv. split; [assumption|]. split; [exact Hlv|]. split; [assumption|].
  intros i Hi. split.
  - apply (Hget leaves true false); [assumption|assumption|unfold lenN in *; lia].
  - intros Hleaf. exists (count_true (firstn (N.to_nat i) leaves)). split.
    + apply (Hrank leaves false); [assumption|assumption|unfold lenN in *; lia].
    + unfold nthb in Hleaf.
      destruct (links_nth w units leaves (N.to_nat i) Hl ltac:(unfold lenN in *; lia) Hleaf) as [H1 H2].
      cbv zeta in H1, H2. rewrite Hlg.
      * rewrite H2. reflexivity.
      * intros E. rewrite E in H1. cbn in H1. lia.
      * unfold lenN. lia.
Qed.

Lemma Forall2_length' {A B} (R : A -> B -> Prop) l1 l2 : Forall2 R l1 l2 -> length l1 = length l2.
Proof. induction 1; cbn [length]; congruence. Qed.

Lemma bc8_spec w : w = 8 \/ w = 16 -> forall units leaves,
  units_ok units -> length leaves = length units -> lenN units < 2 ^ 56 ->
  exists d, bc8_build w units leaves = Ok d /\ bc_ok (Bc8 d) units leaves.
Proof.
  intros Hw units leaves Hok Hl Hsz. pose proof p56_62 as Hp. pose proof p62_64 as Hp'.
  rewrite bc8_build_eq.
  set (maxl := N.to_nat (64 / w)).
  assert (Hmaxl : (1 <= maxl)%nat /\ N.of_nat maxl * w = 64 /\ 0 < w /\ w <= 64).
  { destruct Hw; subst w maxl; vm_compute; repeat split; try discriminate; lia. }
  destruct Hmaxl as (Hm1 & Hmw & Hw0 & Hw64). clearbody maxl. cbv zeta.
  set (vals := map (eval8 w) (entries_of units leaves 0)).
  set (rest := lvls (maxl - 1) w (map (hi8 w) (filter (big8 w) vals))).
  set (all := (map (low w) vals, map (big8 w) vals) :: rest).
  assert (Hvlen : length vals = (2 * length units)%nat).
  { subst vals. rewrite map_length. apply entries_length. assumption. }
  assert (Hrest : (length rest <= maxl - 1)%nat) by apply lvls_length.
  assert (Hfirst : firstn (N.to_nat (lenN rest)) all = removelast all).
  { rewrite <- removelast_firstn_pred. f_equal. subst all. unfold lenN. cbn [length]. lia. }
  rewrite Hfirst.
  assert (Hflags : Forall (fun f => lenN f < max_bits) (map snd (removelast all))).
  { rewrite <- Hfirst. apply Forall_forall. intros f Hf. apply in_map_iff in Hf. destruct Hf as (cf & <- & Hcf).
    assert (Hall : Forall (fun cf => (length (snd cf) <= length vals)%nat) all).
    { subst all. constructor; [cbn [snd]; rewrite map_length; lia|].
      eapply Forall_impl; [|apply lvls_flags_len]. intros a Ha. cbv beta in Ha. rewrite map_length in Ha.
      pose proof (filter_length_le (big8 w) vals). lia. }
    apply (Forall_firstn _ _ (N.to_nat (lenN rest))) in Hall. rewrite Forall_forall in Hall.
    specialize (Hall cf Hcf). unfold lenN, max_bits in *. lia. }
  destruct (build_nexts_ok _ Hflags) as (nx & Hnx & Hnxall). rewrite Hnx. cbn [bind].
  destruct (links_leaves_ok w units leaves Hok Hl Hsz) as (links & lv & Hlk & Hlv & Hones & Hq).
  rewrite Hlk. cbn [bind]. rewrite Hlv. cbn [bind].
  eexists. split; [reflexivity|].
  assert (Hints : pad_to maxl aempty (map (fun cf => of_list (fst cf)) all)
                  = map (fun cf => of_list (fst cf)) all ++ repeat aempty (maxl - length all)).
  { rewrite pad_to_app; rewrite map_length; [reflexivity|]. subst all. cbn [length]. lia. }
  assert (Hnxlen : length nx = length rest).
  { apply Forall2_length' in Hnxall. rewrite map_length in Hnxall. rewrite <- Hnxall, <- Hfirst.
    rewrite firstn_length. subst all. unfold lenN. cbn [length]. lia. }
  assert (Hnexts : pad_to (maxl - 1) bv_empty nx = nx ++ repeat bv_empty (maxl - 1 - length nx)).
  { apply pad_to_app. lia. }
  assert (Hunits : bc_num_units (Bc8 (mkBc8 w (lenN rest) (count_frees units 0)
             (pad_to maxl aempty (map (fun cf => of_list (fst cf)) all))
             (pad_to (maxl - 1) bv_empty nx) links lv)) = lenN units).
  { unfold bc_num_units, bc_level0. cbn [b8_ints]. rewrite Hints. subst all. cbn [map app hd fst].
    rewrite alen_of_list, map_length, Hvlen. unfold shr64. rewrite N.shiftr_div_pow2. unfold lenN.
    change (2 ^ 1) with 2. lia. }
  (* the DAC proper *)
  assert (Hacc : forall k, (k < length vals)%nat ->
     bc_access (Bc8 (mkBc8 w (lenN rest) (count_frees units 0)
             (pad_to maxl aempty (map (fun cf => of_list (fst cf)) all))
             (pad_to (maxl - 1) bv_empty nx) links lv)) (N.of_nat k) = Ok (nth k vals 0)).
  { intros k Hk. unfold bc_access, bc8_access. cbn [b8_w b8_nlev b8_ints b8_nexts].
    rewrite Hints, Hnexts.
    assert (Hall : all = lvls maxl w vals).
    { destruct vals as [|v0 vt] eqn:Ev; [cbn in Hk; lia|]. destruct maxl as [|m]; [lia|].
      rewrite lvls_cons. subst all rest. replace (S m - 1)%nat with m by lia. reflexivity. }
    rewrite Hall in *.
    rewrite (access_levels w Hw0 maxl vals 0 (lenN rest) nx).
    - rewrite N.shiftl_0_r. reflexivity.
    - intros E. rewrite E in Hk. cbn in Hk. lia.
    - lia.
    - lia.
    - rewrite Hmw. subst vals. apply entries_bound; [assumption|assumption|lia].
    - unfold lenN in *. lia.
    - rewrite <- Hall. subst all. unfold lenN. cbn [length]. lia.
    - exact Hnxall.
    - assumption. }
  unfold bc_ok. split; [exact Hunits|]. split; [apply count_frees_eq|]. split; [exact Hones|]. split.
  { unfold bc_num_nodes. rewrite Hunits. unfold bc_num_free_units, bc_frees. cbn [b8_frees].
    rewrite count_frees_eq. pose proof (count_free_le units 0). apply sub64_small; lia. }
  intros i Hi. destruct (Hq i Hi) as [Hq1 Hq2].
  assert (Hk : (N.to_nat i < length units)%nat) by (unfold lenN in *; lia).
  destruct (entries_nth units leaves 0 (N.to_nat i) Hl Hk) as [He1 He2]. rewrite N.add_0_l, N2Nat.id in He1, He2.
  assert (Hs : shl64 i 1 = N.of_nat (2 * N.to_nat i)) by (rewrite shl1; lia).
  assert (Hs1 : add64 (shl64 i 1) 1 = N.of_nat (2 * N.to_nat i + 1)) by (rewrite shl1 by lia; rewrite add64_small; lia).
  split; [exact Hq1|]. split; [|split].
  - unfold bc_check. rewrite Hs1, Hacc by lia. cbn [bind]. f_equal.
    subst vals. rewrite (nth_map0 _ (EVal 0)) by (rewrite entries_length; lia). rewrite He2. cbn [eval8].
    unfold nthu. apply lxor_cancel.
  - intros Hnl. unfold bc_base. rewrite Hs, Hacc by lia. cbn [bind]. f_equal.
    subst vals. rewrite (nth_map0 _ (EVal 0)) by (rewrite entries_length; lia). rewrite He1.
    unfold nthb in Hnl. rewrite Hnl. cbn [eval8]. unfold nthu. apply lxor_cancel.
  - intros Hlf. destruct (Hq2 Hlf) as (r & Hr & Hcg). unfold bc_link, bc_level0, bc_leaves, bc_links, bc_lshift.
    cbn [b8_ints b8_leaves b8_links b8_w]. rewrite Hints. subst all. cbn [map app hd fst].
    rewrite Hs. rewrite (aget_of_list_ok _ _ 0) by (rewrite map_length; lia). rewrite Nat2N.id. cbn [bind].
    rewrite Hr. cbn [bind]. rewrite Hcg. cbn [bind]. f_equal.
    rewrite (nth_map0 _ 0) by lia. subst vals. rewrite (nth_map0 _ (EVal 0)) by (rewrite entries_length; lia).
    rewrite He1. unfold nthb in Hlf. rewrite Hlf. cbn [eval8]. rewrite (low_small w (low w _)) by apply low_lt.
    unfold nthu. apply low_hi_join; [|assumption].
    unfold units_ok in Hok. rewrite Forall_forall in Hok. apply (Hok (nth (N.to_nat i) units (0, 0))).
    apply nth_In. assumption.
Qed.

Lemma bc7_spec vb0 vbs' lshift :
  Forall (fun vb => 1 <= vb /\ vb < 62) (vb0 :: vbs') -> lshift = vb0 + 1 ->
  match vb0 :: vbs' with 7 :: _ => 8 | _ => 16 end = lshift ->
  forall units leaves,
  units_ok units -> length leaves = length units -> lenN units < 2 ^ 56 ->
  exists d, bc7_build (vb0 :: vbs') lshift units leaves = Ok d /\ bc_ok (Bc7 d) units leaves.
Proof.
  intros Hvbs Hls Hlsm units leaves Hok Hl Hsz. pose proof p56_62 as Hp. pose proof p62_64 as Hp'.
  unfold bc7_build.
  set (es := entries_of units leaves 0).
  destruct (plevels (vb0 :: vbs') es) as [cs rs] eqn:Epl.
  destruct (links_leaves_ok lshift units leaves Hok Hl Hsz) as (links & lv & Hlk & Hlv & Hones & Hq).
  rewrite Hlk. cbn [bind]. rewrite Hlv. cbn [bind].
  eexists. split; [reflexivity|].
  assert (Heslen : length es = (2 * length units)%nat) by (apply entries_length; assumption).
  assert (Hes62 : lenN es < 2 ^ 62) by (unfold lenN in *; lia).
  pose proof (access7 (vb0 :: vbs') es cs rs Hvbs Epl Hes62) as Hacc.
  apply plevels_cons in Epl. destruct Epl as (c & r & o & cs' & rs' & Hpl & -> & -> & Hrest).
  inversion Hvbs as [|? ? [Hvb1 Hvb62] _]; subst.
  destruct (plevel_top vb0 Hvb1 Hvb62 es c r o Hpl Hes62) as (H1 & _ & _ & H4).
  assert (Hunits : bc_num_units (Bc7 (mkBc7 (vb0 :: vbs') (count_frees units 0)
             (map of_list (c :: cs')) (map of_list (r :: rs')) links lv)) = lenN units).
  { unfold bc_num_units, bc_level0. cbn [b7_ints map hd].
    rewrite alen_of_list, H1, Heslen. unfold shr64. rewrite N.shiftr_div_pow2. unfold lenN.
    change (2 ^ 1) with 2. lia. }
  unfold bc_ok. split; [exact Hunits|]. split; [apply count_frees_eq|]. split; [exact Hones|]. split.
  { unfold bc_num_nodes. rewrite Hunits. unfold bc_num_free_units, bc_frees. cbn [b7_frees].
    rewrite count_frees_eq. pose proof (count_free_le units 0). apply sub64_small; lia. }
  intros i Hi. destruct (Hq i Hi) as [Hq1 Hq2].
  assert (Hk : (N.to_nat i < length units)%nat) by (unfold lenN in *; lia).
  destruct (entries_nth units leaves 0 (N.to_nat i) Hl Hk) as [He1 He2]. rewrite N.add_0_l, N2Nat.id in He1, He2.
  fold es in He1, He2.
  assert (Hs : shl64 i 1 = N.of_nat (2 * N.to_nat i)) by (rewrite shl1; lia).
  assert (Hs1 : add64 (shl64 i 1) 1 = N.of_nat (2 * N.to_nat i + 1)) by (rewrite shl1 by lia; rewrite add64_small; lia).
  rewrite <- (nth_indep es (ERaw 0) (EVal 0)) in He1 by lia.
  rewrite <- (nth_indep es (ERaw 0) (EVal 0)) in He2 by lia.
  split; [exact Hq1|]. split; [|split].
  - unfold bc_check, bc_access, bc7_access. cbn [b7_vbits b7_ints b7_ranks]. rewrite Hs1.
    rewrite (Hacc (2 * N.to_nat i + 1)%nat _ ltac:(lia) He2). cbn [bind]. f_equal. unfold nthu. apply lxor_cancel.
  - intros Hnl. unfold nthb in Hnl. rewrite Hnl in He1.
    unfold bc_base, bc_access, bc7_access. cbn [b7_vbits b7_ints b7_ranks]. rewrite Hs.
    rewrite (Hacc (2 * N.to_nat i)%nat _ ltac:(lia) He1). cbn [bind]. f_equal. unfold nthu. apply lxor_cancel.
  - intros Hlf. destruct (Hq2 Hlf) as (rr & Hr & Hcg). unfold nthb in Hlf. rewrite Hlf in He1.
    specialize (H4 (2 * N.to_nat i)%nat ltac:(lia)). rewrite He1 in H4. cbn [cell_ok] in H4.
    unfold bc_link, bc_level0, bc_leaves, bc_links, bc_lshift.
    cbn [b7_ints b7_leaves b7_links b7_vbits map hd]. rewrite Hlsm.
    rewrite Hs. rewrite (aget_of_list_ok _ _ 0) by lia. rewrite Nat2N.id. cbn [bind].
    rewrite Hr. cbn [bind]. rewrite Hcg. cbn [bind]. f_equal. rewrite H4.
    unfold nthu. apply low_hi_join; [|lia].
    unfold units_ok in Hok. rewrite Forall_forall in Hok. apply (Hok (nth (N.to_nat i) units (0, 0))).
    apply nth_In. assumption.
Qed.

Theorem bc_spec_8_16 : forall v, v = V8 \/ v = V16 -> forall units leaves,
  units_ok units -> length leaves = length units -> lenN units < 2 ^ 56 ->
  exists d, bc_build v units leaves = Ok d /\ bc_ok d units leaves.
Proof.
  intros v Hv units leaves Hok Hl Hsz. destruct Hv; subst v; cbn [bc_build].
  - destruct (bc8_spec 8 (or_introl eq_refl) units leaves Hok Hl Hsz) as (d & Hd & Hbc).
    rewrite Hd. cbn [bind]. exists (Bc8 d). split; [reflexivity|assumption].
  - destruct (bc8_spec 16 (or_intror eq_refl) units leaves Hok Hl Hsz) as (d & Hd & Hbc).
    rewrite Hd. cbn [bind]. exists (Bc8 d). split; [reflexivity|assumption].
Qed.

Theorem bc_spec_7_15 : forall v, v = V7 \/ v = V15 -> forall units leaves,
  units_ok units -> length leaves = length units -> lenN units < 2 ^ 56 ->
  exists d, bc_build v units leaves = Ok d /\ bc_ok d units leaves.
Proof.
  intros v Hv units leaves Hok Hl Hsz. destruct Hv; subst v; cbn [bc_build vbits_of].
  - destruct (bc7_spec 7 [15; 31] 8) with (units := units) (leaves := leaves) as (d & Hd & Hbc);
      try assumption; try reflexivity.
    { repeat constructor; cbv; congruence. }
    rewrite Hd. cbn [bind]. exists (Bc7 d). split; [reflexivity|assumption].
  - destruct (bc7_spec 15 [31] 16) with (units := units) (leaves := leaves) as (d & Hd & Hbc);
      try assumption; try reflexivity.
    { repeat constructor; cbv; congruence. }
    rewrite Hd. cbn [bind]. exists (Bc7 d). split; [reflexivity|assumption].
Qed.

Theorem bc_spec : BcSpec.
Proof.
  intros v units leaves Hok Hl Hsz.
  destruct v.
  - destruct (bc_spec_7_15 V7 (or_introl eq_refl) units leaves Hok Hl Hsz) as (d & Hd & Hbc). exists d. split; assumption.
  - destruct (bc_spec_8_16 V8 (or_introl eq_refl) units leaves Hok Hl Hsz) as (d & Hd & Hbc). exists d. split; assumption.
  - destruct (bc_spec_7_15 V15 (or_intror eq_refl) units leaves Hok Hl Hsz) as (d & Hd & Hbc). exists d. split; assumption.
  - destruct (bc_spec_8_16 V16 (or_intror eq_refl) units leaves Hok Hl Hsz) as (d & Hd & Hbc). exists d. split; assumption.
Qed.
End Dac.

Print Assumptions bc_spec_8_16.
Print Assumptions bc_spec_7_15.
Print Assumptions bc_spec.
