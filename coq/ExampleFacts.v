(* ExampleFacts.v: the example dictionary satisfies the hypotheses of the query theorems (non-vacuity). *)
From X Require Import Base Arr Dac Trie Spec Wf IfaceQuery Builder Examples.
Local Open Scope N_scope.

Lemma ex_wf_true : forall v, ex_wf v = true.
Proof. intros v; destruct v; vm_compute; reflexivity. Qed.

Lemma ex_wf_inv : forall v, ex_wf v = true ->
  exists L P, ex_logical v = Ok L /\ assemble v L = Ok P /\ lwf_b L ex_keys = true.
Proof.
  intros v. unfold ex_wf.
  destruct (ex_logical v) as [L| |]; try discriminate.
  destruct (assemble v L) as [P| |] eqn:E; try discriminate.
  intros H. exists L, P. split; [reflexivity|]. split; [exact E|exact H].
Qed.

(* ex_logical v is the builder's output for ex_keys (6 keys: "", a, ab, abcd, b\0x, \xff) *)
Lemma ex_wf_for : forall v, exists L P, ex_logical v = Ok L /\ wf_for v L P ex_keys.
Proof.
  intros v. destruct (ex_wf_inv v (ex_wf_true v)) as (L & P & H1 & H2 & H3).
  exists L, P. split; [exact H1|]. split; assumption.
Qed.
