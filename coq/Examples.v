(* Examples.v: concrete dictionaries used by the non-vacuity examples of the property files. *)
From X Require Import Base Arr Consts BitToolsSpec BitToolsGen BitVector CompactVector Dac Tail Trie Serial Spec Wf Builder.
Local Open Scope N_scope.

Definition ex_keys : list key := [[]; [97]; [97; 98]; [97; 98; 99; 100]; [98; 0; 120]; [255]].
Definition ex_logical (v : variant) : res logical := build_logical v (own_table ex_keys) ex_keys false.
Definition ex_trie (v : variant) : res trie := build v (own_table ex_keys) ex_keys false.
Definition ex_bytes (v : variant) : list N := match ex_trie v with Ok P => save v P | _ => [] end.

(* a certificate-checked dictionary: the hypotheses of the query theorems are satisfiable *)
Definition ex_wf (v : variant) : bool :=
  match ex_logical v with
  | Ok L => match assemble v L with Ok _ => lwf_b L ex_keys | _ => false end
  | _ => false
  end.
