(* Extract.v: extraction of the executable model for the correspondence check.
   Only the directives of ExtrOcamlBasic are used; N / positive / nat stay the extracted datatypes.
   Compiled from /verif/ocaml so that xmodel_core.ml lands there. *)
Require Extraction.
Require Import ExtrOcamlBasic.
From X Require Import Base Arr Consts BitToolsSpec BitToolsGen BitVector CompactVector Dac Tail Trie Serial Stream Builder Spec Wf History Conc Tools.
Extraction Language OCaml.
Extraction "xmodel_core.ml"
  (* words *) popcount popcount_intr msb msb_intr uleq_step_9 byte_counts bit_position select_in_word select_in_word_intr
  (* bit vector *) bvb_empty bvb_set_bit bvb_get bvb_push_back bvb_resize bvb_of_bits bv_build bv_get bv_rank bv_select
                   bv_rank_intr bv_select_intr
  (* compact / dac *) cv_build cv_get bc_build bc_base bc_check bc_is_leaf bc_link
                   bc_num_units bc_num_free_units bc_num_nodes bc_num_leaves
  (* tail *) tail_set_suffix tail_complete t_match t_prefix_match t_decode
  (* trie *) lookup decode mk_prefix default_prefix next_prefix pfx_decoded mk_predictive default_predictive
             next_predictive prefix_search predictive_search enumerate
             t_bin_mode t_num_keys t_alphabet_size t_max_length t_num_nodes t_num_units t_num_free_units t_tail_length
  (* serial *) save memory_in_bytes load mmap get_type_id enc_bv enc_cv enc_bc enc_tail fs_load fs_save fs_type_id save_dev save_chunks sched_cap sched_transient
  (* builder *) build build_logical own_table table_ok
  (* certificate *) assemble disassemble lwf_b cert_check
  (* histories, schedules *) hstep hrun astep arun hop_ok dict_run dict_seq
  (* tools *) split_lines sort_dedup tool_build tool_build_stdout tool_enumerate tool_lookup tool_decode tool_prefix tool_predictive
  (* spec *) valid_keys spec_member spec_prefixes spec_completions spec_max_length spec_alphabet spec_bin_mode spec_mp_nodes.
