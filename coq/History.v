(* History.v: the public API as a state machine over the model (concrete machine, executable: it is
   extracted and run against the C++ on generated histories) and the abstract machine whose state is
   only the key list, an id function and, per iterator slot, (spec result list, number of advances).
   Model only; the refinement theorem is in HistoryFacts.v. *)
From X Require Import Base Arr Consts BitToolsSpec BitToolsGen BitVector CompactVector Dac Tail Trie Serial Spec.
Local Open Scope N_scope.

(* ---------------- operations and outputs ---------------- *)
Inductive hop :=
| HLookup (q : key) | HDecode (id : N) | HDecodeInto (buf : N) (id : N)
| HMkPrefix (s : N) (q : key) | HMkPred (s : N) (q : key) | HMkEnum (s : N)
| HDefPrefix (s : N) | HDefPred (s : N)
| HNext (s : N) | HRead (s : N)
| HMove | HSaveLoad | HSaveMmap.

Inductive hout :=
| OLookup (r : option N) | OKey (k : key) | ONext (r : option (N * key)) | ORead (r : N * key) | OUnit.

(* association lists keyed by N; a new binding is consed in front and shadows the older ones *)
Fixpoint assoc {A} (s : N) (l : list (N * A)) : option A :=
  match l with
  | [] => None
  | (k, a) :: t => if k =? s then Some a else assoc s t
  end.

(* ---------------- the concrete machine ---------------- *)
Inductive slot := SPfx (it : pfx_it) | SPred (it : pred_it).
Record hstate := mkH { h_trie : trie;
                       h_slots : list (N * slot) (* association list, newest binding first *);
                       h_bufs : list (N * key) }.

(* what the accessors id() / decoded_view() of an iterator return *)
Definition pfx_out (it : pfx_it) : N * key := (p_id it, pfx_decoded it).
Definition pred_out (it : pred_it) : N * key := (d_id it, d_dec it).
Definition slot_read (sl : slot) : N * key :=
  match sl with SPfx it => pfx_out it | SPred it => pred_out it end.

(* one next() on a slot: the new iterator and Some (id, decoded) iff next() returned true *)
Definition slot_next (P : trie) (sl : slot) : res (slot * option (N * key)) :=
  match sl with
  | SPfx it => do '(it', b) <- next_prefix P it;
               Ok (SPfx it', if b then Some (pfx_out it') else None)
  | SPred it => do '(it', b) <- next_predictive P it;
                Ok (SPred it', if b then Some (pred_out it') else None)
  end.

Definition get_slot (slots : list (N * slot)) (s : N) : res slot :=
  match assoc s slots with Some sl => Ok sl | None => Fault NullDeref end.

(* the operations that touch only the iterator store and the buffers, given the dictionary read-only;
   shared with the concurrent-reader model (Conc.v) *)
Definition read_step (P : trie) (slots : list (N * slot)) (bufs : list (N * key)) (op : hop)
  : res (list (N * slot) * list (N * key) * hout) :=
  match op with
  | HLookup q => do r <- lookup P q; Ok (slots, bufs, OLookup r)
  | HDecode id => do k <- decode P id; Ok (slots, bufs, OKey k)
  | HDecodeInto buf id =>
    (* decode(id, buf) clears buf first: the result does not depend on the previous content *)
    do k <- decode P id; Ok (slots, (buf, k) :: bufs, OKey k)
  | HMkPrefix s q => Ok ((s, SPfx (mk_prefix q)) :: slots, bufs, OUnit)
  | HMkPred s q => Ok ((s, SPred (mk_predictive q)) :: slots, bufs, OUnit)
  | HMkEnum s => Ok ((s, SPred (mk_predictive [])) :: slots, bufs, OUnit)
  | HDefPrefix s => Ok ((s, SPfx default_prefix) :: slots, bufs, OUnit)
  | HDefPred s => Ok ((s, SPred default_predictive) :: slots, bufs, OUnit)
  | HNext s => do sl <- get_slot slots s;
               do '(sl', r) <- slot_next P sl;
               Ok ((s, sl') :: slots, bufs, ONext r)
  | HRead s => do sl <- get_slot slots s; Ok (slots, bufs, ORead (slot_read sl))
  | HMove | HSaveLoad | HSaveMmap => Fault BadState          (* not a read-only operation *)
  end.

Definition hstep (v : variant) (st : hstate) (op : hop) : res (hstate * hout) :=
  match op with
  | HMove =>
    (* the dictionary object is moved: same content; the iterators of the moved-from object are dead *)
    Ok (mkH (h_trie st) [] (h_bufs st), OUnit)
  | HSaveLoad => do P' <- load v (save v (h_trie st)); Ok (mkH P' [] (h_bufs st), OUnit)
  | HSaveMmap => do P' <- mmap v (save v (h_trie st)); Ok (mkH P' [] (h_bufs st), OUnit)
  | _ => do '(slots, bufs, o) <- read_step (h_trie st) (h_slots st) (h_bufs st) op;
         Ok (mkH (h_trie st) slots bufs, o)
  end.

(* left to right *)
Fixpoint hrun (v : variant) (st : hstate) (ops : list hop) : res (hstate * list hout) :=
  match ops with
  | [] => Ok (st, [])
  | op :: t => do '(st1, o) <- hstep v st op;
               do '(st2, os) <- hrun v st1 t;
               Ok (st2, o :: os)
  end.

(* ---------------- the abstract machine ---------------- *)
Inductive aslot := ASlot (results : list (N * key)) (adv : nat) | ADefault.

Definition key_of_id (K : list key) (idf : key -> option N) (id : N) : option key :=
  find (fun k => match idf k with Some i => i =? id | None => false end) K.
Definition ids (idf : key -> option N) (ks : list key) : list (N * key) :=
  map (fun k => (match idf k with Some i => i | None => 0 end, k)) ks.

(* None = "unspecified": the history uses an unbound slot, or reads an iterator that has not just
   advanced successfully; such histories are outside the refinement theorem *)
Definition astep (K : list key) (idf : key -> option N) (ast : list (N * aslot)) (op : hop)
  : option (list (N * aslot) * hout) :=
  match op with
  | HLookup q => Some (ast, OLookup (idf q))
  | HDecode id | HDecodeInto _ id =>
    Some (ast, OKey (match key_of_id K idf id with Some k => k | None => [] end))
  | HMkPrefix s q => Some ((s, ASlot (ids idf (spec_prefixes K q)) 0) :: ast, OUnit)
  | HMkPred s q => Some ((s, ASlot (ids idf (spec_completions K q)) 0) :: ast, OUnit)
  | HMkEnum s => Some ((s, ASlot (ids idf K) 0) :: ast, OUnit)
  | HDefPrefix s | HDefPred s => Some ((s, ADefault) :: ast, OUnit)
  | HNext s =>
    match assoc s ast with
    | Some (ASlot l j) => Some ((s, ASlot l (S j)) :: ast, ONext (nth_error l j))
    | Some ADefault => Some ((s, ADefault) :: ast, ONext None)
    | None => None
    end
  | HRead s =>
    match assoc s ast with
    | Some (ASlot l (S j)) => match nth_error l j with Some r => Some (ast, ORead r) | None => None end
    | _ => None
    end
  | HMove | HSaveLoad | HSaveMmap => Some ([], OUnit)
  end.

Fixpoint arun (K : list key) (idf : key -> option N) (ast : list (N * aslot)) (ops : list hop)
  : option (list (N * aslot) * list hout) :=
  match ops with
  | [] => Some (ast, [])
  | op :: t =>
    match astep K idf ast op with
    | None => None
    | Some (ast1, o) =>
      match arun K idf ast1 t with
      | None => None
      | Some (ast2, os) => Some (ast2, o :: os)
      end
    end
  end.

(* the side condition of the refinement theorem on the byte strings occurring in a history (executable,
   for the generator): queries are byte strings *)
Definition hop_ok (op : hop) : bool :=
  match op with
  | HLookup q | HMkPrefix _ q | HMkPred _ q => bytes_ok q
  | _ => true
  end.
