(* HistoryFacts.v: the concrete API state machine of History.v refines the abstract machine:
   every output of every operation of a history depends only on (key set, the operation, and for an
   iterator the number of advances made on it) -- no hidden state across operations. *)
From Coq Require Import Lia ZifyN ZifyBool ZifyNat Arith PeanoNat.
From X Require Import Base Arr Consts BitToolsSpec BitToolsGen BitVector CompactVector Dac Tail Trie Serial
  Spec Iface IfaceDac Wf IfaceQuery SerialFacts History.
Local Open Scope N_scope.

(* ---------------- small list facts ---------------- *)
Lemma nth_error_nil_S {A} (a : nat) : nth_error (@nil A) a = nth_error (@nil A) (S a).
Proof. destruct a; reflexivity. Qed.

Lemma abs_calls_seq_gen (l : list (N * key)) : forall n m, (n <= m)%nat ->
  firstn n (map Some l ++ repeat None m) = map (nth_error l) (seq 0 n).
Proof.
  induction l as [|x l IH]; intros n m H.
  - cbn [map app]. revert m H. induction n as [|n IHn]; intros m H; [reflexivity|].
    destruct m as [|m]; [lia|]. cbn [repeat firstn seq map nth_error]. f_equal.
    rewrite <- seq_shift, map_map, (IHn m) by lia. apply map_ext. intros a. apply nth_error_nil_S.
  - destruct n as [|n]; [reflexivity|]. cbn [map app firstn seq nth_error]. f_equal.
    rewrite <- seq_shift, map_map. cbn [nth_error]. apply IH. lia.
Qed.

(* the abstract iterator of IfaceQuery, call by call: the j-th call answers [nth_error l j] *)
Lemma abs_calls_seq l n : abs_calls l n = map (nth_error l) (seq 0 n).
Proof. unfold abs_calls. apply abs_calls_seq_gen. lia. Qed.

Lemma spec_completions_nil K : spec_completions K [] = K.
Proof.
  unfold spec_completions. induction K as [|k K IH]; cbn [filter is_prefixb]; [reflexivity|].
  f_equal. exact IH.
Qed.

Lemma ids_with_ids P ks : ids (lk P) ks = with_ids P ks.
Proof. reflexivity. Qed.

(* ---------------- strictly sorted lists have no duplicates ---------------- *)
Lemma lex_lt_irrefl a : lex_lt a a = false.
Proof.
  induction a as [|x a IH]; cbn [lex_lt]; [reflexivity|]. rewrite N.ltb_irrefl. exact IH.
Qed.

Lemma lex_lt_trans : forall a b c, lex_lt a b = true -> lex_lt b c = true -> lex_lt a c = true.
Proof.
  induction a as [|x a IH]; intros [|y b] [|z c]; cbn [lex_lt]; try discriminate; try reflexivity.
  destruct (N.ltb_spec x y), (N.ltb_spec y x), (N.ltb_spec y z), (N.ltb_spec z y),
           (N.ltb_spec x z), (N.ltb_spec z x); try discriminate; try reflexivity; try lia.
  apply IH.
Qed.

Lemma sorted_head_lt : forall t a, strictly_sorted (a :: t) = true ->
  strictly_sorted t = true /\ forall b, In b t -> lex_lt a b = true.
Proof.
  induction t as [|b t IH]; intros a H.
  - split; [reflexivity|]. intros b [].
  - cbn [strictly_sorted] in H. apply andb_prop in H. destruct H as [Hab Ht].
    split; [exact Ht|]. intros c [<-|Hc]; [exact Hab|].
    destruct (IH b Ht) as [_ Hb]. eapply lex_lt_trans; [exact Hab|]. apply Hb. exact Hc.
Qed.

Lemma sorted_nodup : forall K, strictly_sorted K = true -> NoDup K.
Proof.
  induction K as [|a t IH]; intros H; [constructor|].
  destruct (sorted_head_lt t a H) as [Ht Hlt]. constructor; [|apply IH; exact Ht].
  intros Hin. apply Hlt in Hin. rewrite lex_lt_irrefl in Hin. discriminate.
Qed.

Lemma valid_keys_nodup K : valid_keys K = true -> NoDup K.
Proof.
  unfold valid_keys. destruct K as [|a t]; [discriminate|]. intros H.
  apply andb_prop in H. apply sorted_nodup. apply H.
Qed.

Lemma wf_for_valid v L P K : wf_for v L P K -> valid_keys K = true.
Proof.
  intros [_ H]. unfold lwf_b in H.
  repeat match type of H with
         | (_ && valid_keys K) = true => apply andb_prop in H; destruct H as [_ H]
         | (_ && _) = true => apply andb_prop in H; destruct H as [H _]
         end.
  exact H.
Qed.

(* an injective id assignment into [0, |K|) on a duplicate-free K is onto (pigeonhole) *)
Lemma ids_surj (K : list key) (f : key -> option N) : id_assignment K f -> NoDup K ->
  forall i, i < lenN K -> exists k, In k K /\ f k = Some i.
Proof.
  intros (Hdom & Hbnd & Hinj) Hnd i Hi.
  set (g := fun k => match f k with Some i => i | None => 0 end).
  assert (Hg : forall k, In k K -> f k = Some (g k)).
  { intros k Hk. apply Hdom in Hk. destruct Hk as [j Hj]. unfold g. rewrite Hj. reflexivity. }
  assert (Hnd' : forall K', incl K' K -> NoDup K' -> NoDup (map g K')).
  { induction K' as [|a K' IH]; intros Hinc Hn; [constructor|].
    inversion Hn as [|? ? Ha Hn']; subst. cbn [map]. constructor.
    - intros Hin. apply in_map_iff in Hin. destruct Hin as (k' & Hk' & Hin).
      apply Ha. assert (k' = a); [|subst; exact Hin].
      apply (Hinj k' a (g a)).
      + rewrite <- Hk'. apply Hg. apply Hinc. right. exact Hin.
      + apply Hg. apply Hinc. left. reflexivity.
    - apply IH; [|exact Hn']. intros x Hx. apply Hinc. right. exact Hx. }
  specialize (Hnd' K (incl_refl K) Hnd).
  assert (Hincl : incl (map g K) (map N.of_nat (seq 0 (length K)))).
  { intros x Hx. apply in_map_iff in Hx. destruct Hx as (k & <- & Hk).
    apply in_map_iff. exists (N.to_nat (g k)). split; [apply N2Nat.id|].
    apply in_seq. pose proof (Hbnd k (g k) (Hg k Hk)). lia. }
  assert (Hlen : (length (map N.of_nat (seq 0 (length K))) <= length (map g K))%nat).
  { rewrite !map_length, seq_length. lia. }
  pose proof (NoDup_length_incl Hnd' Hlen Hincl) as Hrev.
  assert (Hin : In i (map g K)).
  { apply Hrev. apply in_map_iff. exists (N.to_nat i). split; [apply N2Nat.id|].
    apply in_seq. unfold lenN in Hi. lia. }
  apply in_map_iff in Hin. destruct Hin as (k & Hk & Hin). exists k. split; [exact Hin|].
  rewrite <- Hk. apply Hg. exact Hin.
Qed.

(* ---------------- iterators, generically: "the future of this iterator is the rest of the list" ---------------- *)
Section Iter.
Variables (I : Type) (next : I -> res (I * bool)) (out : I -> N * key).

Fixpoint calls (it : I) (n : nat) : res (list (option (N * key))) :=
  match n with
  | O => Ok []
  | S m => do '(it', b) <- next it;
           do r <- calls it' m;
           Ok ((if b then Some (out it') else None) :: r)
  end.

(* after j calls on an iterator whose spec list is l: the next n calls answer l[j], l[j+1], ... *)
Definition fut (it : I) (l : list (N * key)) (j : nat) : Prop :=
  forall n, calls it n = Ok (map (nth_error l) (seq j n)).
(* what the accessors show after a successful advance is what that advance reported *)
Definition lastrd (it : I) (l : list (N * key)) (j : nat) : Prop :=
  forall j' r, j = S j' -> nth_error l j' = Some r -> out it = r.

Lemma fut_step it l j : fut it l j ->
  exists it' b, next it = Ok (it', b) /\ (if b then Some (out it') else None) = nth_error l j /\
                fut it' l (S j) /\ lastrd it' l (S j).
Proof.
  intros H. pose proof (H 1%nat) as H1. cbn [calls seq map] in H1.
  destruct (next it) as [[it' b]| |] eqn:E; cbn [bind] in H1; try discriminate.
  exists it', b. split; [reflexivity|]. injection H1 as H1. split; [exact H1|]. split.
  - intros n. pose proof (H (S n)) as Hn. cbn [calls seq map] in Hn. rewrite E in Hn. cbn [bind] in Hn.
    destruct (calls it' n) as [r| |]; cbn [bind] in Hn; try discriminate.
    injection Hn as _ Hn. rewrite Hn. reflexivity.
  - intros j' r Hj Hr. injection Hj as <-. rewrite Hr in H1. destruct b; [|discriminate].
    injection H1 as H1. exact H1.
Qed.
End Iter.

Lemma pfx_calls_gen P : forall n it, pfx_calls P it n = calls _ (next_prefix P) pfx_out it n.
Proof.
  induction n as [|n IH]; intros it; [reflexivity|]. cbn [pfx_calls calls].
  destruct (next_prefix P it) as [[it' b]| |]; cbn [bind]; [|reflexivity|reflexivity].
  rewrite IH. reflexivity.
Qed.
Lemma pred_calls_gen P : forall n it, pred_calls P it n = calls _ (next_predictive P) pred_out it n.
Proof.
  induction n as [|n IH]; intros it; [reflexivity|]. cbn [pred_calls calls].
  destruct (next_predictive P it) as [[it' b]| |]; cbn [bind]; [|reflexivity|reflexivity].
  rewrite IH. reflexivity.
Qed.

(* default-constructed iterators answer false forever and do not change *)
Lemma next_prefix_default P it : p_obj it = false -> next_prefix P it = Ok (it, false).
Proof. intros H. unfold next_prefix. rewrite H. reflexivity. Qed.
Lemma next_predictive_default P it : d_obj it = false -> next_predictive P it = Ok (it, false).
Proof. intros H. unfold next_predictive. rewrite H. reflexivity. Qed.

(* ---------------- association lists ---------------- *)
Lemma assoc_cons {A} s s0 (x : A) l : assoc s ((s0, x) :: l) = if s0 =? s then Some x else assoc s l.
Proof. reflexivity. Qed.

(* ---------------- the simulation ---------------- *)
Definition slot_rel (P : trie) (sl : slot) (a : aslot) : Prop :=
  match sl, a with
  | SPfx it, ASlot l j => fut _ (next_prefix P) pfx_out it l j /\ lastrd _ pfx_out it l j
  | SPred it, ASlot l j => fut _ (next_predictive P) pred_out it l j /\ lastrd _ pred_out it l j
  | SPfx it, ADefault => p_obj it = false
  | SPred it, ADefault => d_obj it = false
  end.

Definition slots_rel (P : trie) (cs : list (N * slot)) (asl : list (N * aslot)) : Prop :=
  forall s, match assoc s cs, assoc s asl with
            | Some sl, Some a => slot_rel P sl a
            | None, None => True
            | _, _ => False
            end.

Lemma slots_rel_nil P : slots_rel P [] [].
Proof. intros s. exact Logic.I. Qed.

Lemma slots_rel_cons P cs asl s sl a :
  slots_rel P cs asl -> slot_rel P sl a -> slots_rel P ((s, sl) :: cs) ((s, a) :: asl).
Proof.
  intros H Hs s'. rewrite !assoc_cons. destruct (s =? s'); [exact Hs|apply H].
Qed.

Lemma slots_rel_get P cs asl s a :
  slots_rel P cs asl -> assoc s asl = Some a ->
  exists sl, get_slot cs s = Ok sl /\ slot_rel P sl a.
Proof.
  intros H Ha. specialize (H s). rewrite Ha in H. unfold get_slot.
  destruct (assoc s cs) as [sl|]; [|contradiction]. exists sl. split; [reflexivity|exact H].
Qed.

(* one next() on related slots *)
Lemma slot_next_sim P sl l j : slot_rel P sl (ASlot l j) ->
  exists sl', slot_next P sl = Ok (sl', nth_error l j) /\ slot_rel P sl' (ASlot l (S j)).
Proof.
  destruct sl as [it|it]; cbn [slot_rel]; intros [Hf _].
  - destruct (fut_step _ _ _ it l j Hf) as (it' & b & E & Ho & Hf' & Hr').
    exists (SPfx it'). cbn [slot_next]. rewrite E. cbn [bind]. rewrite Ho. split; [reflexivity|].
    cbn [slot_rel]. split; assumption.
  - destruct (fut_step _ _ _ it l j Hf) as (it' & b & E & Ho & Hf' & Hr').
    exists (SPred it'). cbn [slot_next]. rewrite E. cbn [bind]. rewrite Ho. split; [reflexivity|].
    cbn [slot_rel]. split; assumption.
Qed.

Lemma slot_next_default P sl : slot_rel P sl ADefault ->
  slot_next P sl = Ok (sl, None).
Proof.
  destruct sl as [it|it]; cbn [slot_rel slot_next]; intros H.
  - rewrite (next_prefix_default P it H). reflexivity.
  - rewrite (next_predictive_default P it H). reflexivity.
Qed.

Lemma slot_read_sim P sl l j r : slot_rel P sl (ASlot l (S j)) -> nth_error l j = Some r ->
  slot_read sl = r.
Proof.
  destruct sl as [it|it]; cbn [slot_rel slot_read]; intros [_ Hr] Hn; exact (Hr j r eq_refl Hn).
Qed.

Lemma lastrd_0 I out it l : lastrd I out it l 0.
Proof. intros j' r Hj. discriminate. Qed.

Section History.
Hypothesis Hlook : LookupSpec.
Hypothesis Hdec : DecodeSpec.
Hypothesis Hpfx : PrefixSpec.
Hypothesis Hpred : PredictiveSpec.

Section Fixed.
Variables (v : variant) (L : logical) (P : trie) (K : list key).
Hypothesis Hwf : wf_for v L P K.
Hypothesis Hfits : trie_fits v P.

Lemma lookup_lk q : bytes_ok q = true -> lookup P q = Ok (lk P q).
Proof. destruct (Hlook v L P K Hwf) as [H _]. apply H. Qed.

(* decode answers with the key that carries the id, and with the empty string when there is none *)
Lemma decode_key_of_id id :
  decode P id = Ok (match key_of_id K (lk P) id with Some k => k | None => [] end).
Proof.
  destruct (Hlook v L P K Hwf) as (_ & Hid & _).
  destruct (Hdec v L P K Hwf) as (_ & Hd1 & Hd2).
  unfold key_of_id.
  destruct (find _ K) as [k|] eqn:E.
  - apply find_some in E. destruct E as [_ E]. destruct (lk P k) as [i|] eqn:Ei; [|discriminate].
    apply N.eqb_eq in E. subst i. apply Hd1. exact Ei.
  - destruct (N.le_gt_cases (lenN K) id) as [Hge|Hlt]; [apply Hd2; exact Hge|].
    exfalso.
    destruct (ids_surj K (lk P) Hid (valid_keys_nodup K (wf_for_valid v L P K Hwf)) id Hlt)
      as (k & Hk & Hi).
    pose proof (find_none _ K E k Hk) as Hn. cbv beta in Hn. rewrite Hi, N.eqb_refl in Hn. discriminate.
Qed.

Lemma mk_prefix_fut q : bytes_ok q = true ->
  slot_rel P (SPfx (mk_prefix q)) (ASlot (ids (lk P) (spec_prefixes K q)) 0).
Proof.
  intros Hq. destruct (Hpfx v L P K Hwf q Hq) as [H _]. cbn [slot_rel]. split; [|apply lastrd_0].
  intros n. rewrite <- pfx_calls_gen, H, abs_calls_seq. reflexivity.
Qed.

Lemma mk_predictive_fut q : bytes_ok q = true ->
  slot_rel P (SPred (mk_predictive q)) (ASlot (ids (lk P) (spec_completions K q)) 0).
Proof.
  intros Hq. destruct (Hpred v L P K Hwf q Hq) as [H _]. cbn [slot_rel]. split; [|apply lastrd_0].
  intros n. rewrite <- pred_calls_gen, H, abs_calls_seq. reflexivity.
Qed.

Lemma mk_enum_fut : slot_rel P (SPred (mk_predictive [])) (ASlot (ids (lk P) K) 0).
Proof.
  pose proof (mk_predictive_fut [] eq_refl) as H. rewrite spec_completions_nil in H. exact H.
Qed.

Definition sim (st : hstate) (ast : list (N * aslot)) : Prop :=
  h_trie st = P /\ slots_rel P (h_slots st) ast.

Lemma step_sim st ast op ast1 o :
  sim st ast -> hop_ok op = true -> astep K (lk P) ast op = Some (ast1, o) ->
  exists st1, hstep v st op = Ok (st1, o) /\ sim st1 ast1.
Proof.
  intros [HP Hs] Hok Ha. destruct st as [P0 cs bufs]. cbn [h_trie h_slots] in HP, Hs. subst P0.
  destruct op; cbn [astep] in Ha; cbn [hstep read_step h_trie h_slots h_bufs hop_ok] in *.
  - (* HLookup *) injection Ha as <- <-. rewrite (lookup_lk q Hok). cbn [bind].
    eexists. split; [reflexivity|]. split; [reflexivity|exact Hs].
  - (* HDecode *) injection Ha as <- <-. rewrite decode_key_of_id. cbn [bind].
    eexists. split; [reflexivity|]. split; [reflexivity|exact Hs].
  - (* HDecodeInto *) injection Ha as <- <-. rewrite decode_key_of_id. cbn [bind].
    eexists. split; [reflexivity|]. split; [reflexivity|exact Hs].
  - (* HMkPrefix *) injection Ha as <- <-. cbn [bind].
    eexists. split; [reflexivity|]. split; [reflexivity|]. cbn [h_slots].
    apply slots_rel_cons; [exact Hs|]. apply mk_prefix_fut. exact Hok.
  - (* HMkPred *) injection Ha as <- <-. cbn [bind].
    eexists. split; [reflexivity|]. split; [reflexivity|]. cbn [h_slots].
    apply slots_rel_cons; [exact Hs|]. apply mk_predictive_fut. exact Hok.
  - (* HMkEnum *) injection Ha as <- <-. cbn [bind].
    eexists. split; [reflexivity|]. split; [reflexivity|]. cbn [h_slots].
    apply slots_rel_cons; [exact Hs|]. apply mk_enum_fut.
  - (* HDefPrefix *) injection Ha as <- <-. cbn [bind].
    eexists. split; [reflexivity|]. split; [reflexivity|]. cbn [h_slots].
    apply slots_rel_cons; [exact Hs|]. reflexivity.
  - (* HDefPred *) injection Ha as <- <-. cbn [bind].
    eexists. split; [reflexivity|]. split; [reflexivity|]. cbn [h_slots].
    apply slots_rel_cons; [exact Hs|]. reflexivity.
  - (* HNext *) destruct (assoc s ast) as [[l j|]|] eqn:Ea; [| |discriminate]; injection Ha as <- <-.
    + destruct (slots_rel_get P cs ast s _ Hs Ea) as (sl & Hg & Hr). rewrite Hg. cbn [bind].
      destruct (slot_next_sim P sl l j Hr) as (sl' & Hn & Hr'). rewrite Hn. cbn [bind].
      eexists. split; [reflexivity|]. split; [reflexivity|]. cbn [h_slots].
      apply slots_rel_cons; assumption.
    + destruct (slots_rel_get P cs ast s _ Hs Ea) as (sl & Hg & Hr). rewrite Hg. cbn [bind].
      rewrite (slot_next_default P sl Hr). cbn [bind].
      eexists. split; [reflexivity|]. split; [reflexivity|]. cbn [h_slots].
      apply slots_rel_cons; assumption.
  - (* HRead *) destruct (assoc s ast) as [[l [|j]|]|] eqn:Ea; try discriminate.
    destruct (nth_error l j) as [r|] eqn:En; [|discriminate]. injection Ha as <- <-.
    destruct (slots_rel_get P cs ast s _ Hs Ea) as (sl & Hg & Hr). rewrite Hg. cbn [bind].
    rewrite (slot_read_sim P sl l j r Hr En).
    eexists. split; [reflexivity|]. split; [reflexivity|exact Hs].
  - (* HMove *) injection Ha as <- <-.
    eexists. split; [reflexivity|]. split; [reflexivity|apply slots_rel_nil].
  - (* HSaveLoad *) injection Ha as <- <-. rewrite (load_save v P Hfits). cbn [bind].
    eexists. split; [reflexivity|]. split; [reflexivity|apply slots_rel_nil].
  - (* HSaveMmap *) injection Ha as <- <-.
    rewrite <- (app_nil_r (save v P)), (mmap_save v P [] Hfits). cbn [bind].
    eexists. split; [reflexivity|]. split; [reflexivity|apply slots_rel_nil].
Qed.

Lemma run_sim : forall ops st ast ast' aouts,
  sim st ast -> forallb hop_ok ops = true -> arun K (lk P) ast ops = Some (ast', aouts) ->
  exists st', hrun v st ops = Ok (st', aouts) /\ sim st' ast'.
Proof.
  induction ops as [|op ops IH]; intros st ast ast' aouts Hsim Hok Ha.
  - cbn [arun] in Ha. injection Ha as <- <-. exists st. split; [reflexivity|exact Hsim].
  - cbn [arun] in Ha. cbn [forallb] in Hok. apply andb_prop in Hok. destruct Hok as [Hok1 Hok2].
    destruct (astep K (lk P) ast op) as [[ast1 o]|] eqn:E1; [|discriminate].
    destruct (arun K (lk P) ast1 ops) as [[ast2 os]|] eqn:E2; [|discriminate].
    injection Ha as <- <-.
    destruct (step_sim st ast op ast1 o Hsim Hok1 E1) as (st1 & Hst & Hsim1).
    destruct (IH st1 ast1 ast2 os Hsim1 Hok2 E2) as (st2 & Hrun & Hsim2).
    exists st2. cbn [hrun]. rewrite Hst. cbn [bind]. rewrite Hrun. cbn [bind].
    split; [reflexivity|exact Hsim2].
Qed.
End Fixed.

Lemma hop_ok_of_in ops :
  (forall q, In (HLookup q) ops -> bytes_ok q = true) ->
  (forall s q, In (HMkPrefix s q) ops -> bytes_ok q = true) ->
  (forall s q, In (HMkPred s q) ops -> bytes_ok q = true) ->
  forallb hop_ok ops = true.
Proof.
  intros H1 H2 H3. apply forallb_forall. intros op Hin.
  destruct op; cbn [hop_ok]; try reflexivity; eauto.
Qed.

(* The refinement theorem.  Whatever was done before (other iterators advanced in any interleaving,
   buffers reused, moves, save/load generations), every operation's output is the abstract machine's,
   which is a function of (K, the id assignment, the operation, and the number of advances made on the
   iterator concerned).  Also: the dictionary held at the end is P again. *)
Theorem history_refines_strong : forall v L P K, wf_for v L P K -> trie_fits v P ->
  forall ops aouts ast', arun K (lk P) [] ops = Some (ast', aouts) ->
  (forall q, In (HLookup q) ops -> bytes_ok q = true) ->
  (forall s q, In (HMkPrefix s q) ops -> bytes_ok q = true) ->
  (forall s q, In (HMkPred s q) ops -> bytes_ok q = true) ->
  exists st', hrun v (mkH P [] []) ops = Ok (st', aouts) /\ h_trie st' = P.
Proof.
  intros v L P K Hwf Hfits ops aouts ast' Ha H1 H2 H3.
  destruct (run_sim v L P K Hwf Hfits ops (mkH P [] []) [] ast' aouts) as (st' & Hrun & Hsim).
  - split; [reflexivity|apply slots_rel_nil].
  - apply hop_ok_of_in; assumption.
  - exact Ha.
  - exists st'. split; [exact Hrun|apply Hsim].
Qed.

Theorem history_refines : forall v L P K, wf_for v L P K -> trie_fits v P ->
  forall ops aouts ast', arun K (lk P) [] ops = Some (ast', aouts) ->
  (forall q, In (HLookup q) ops -> bytes_ok q = true) ->
  (forall s q, In (HMkPrefix s q) ops -> bytes_ok q = true) ->
  (forall s q, In (HMkPred s q) ops -> bytes_ok q = true) ->
  exists st', hrun v (mkH P [] []) ops = Ok (st', aouts).
Proof.
  intros v L P K Hwf Hfits ops aouts ast' Ha H1 H2 H3.
  destruct (history_refines_strong v L P K Hwf Hfits ops aouts ast' Ha H1 H2 H3) as (st' & H & _).
  exists st'. exact H.
Qed.

(* executable form of the side condition *)
Corollary history_refines_b : forall v L P K, wf_for v L P K -> trie_fits v P ->
  forall ops aouts ast', arun K (lk P) [] ops = Some (ast', aouts) -> forallb hop_ok ops = true ->
  exists st', hrun v (mkH P [] []) ops = Ok (st', aouts).
Proof.
  intros v L P K Hwf Hfits ops aouts ast' Ha Hok.
  destruct (run_sim v L P K Hwf Hfits ops (mkH P [] []) [] ast' aouts) as (st' & Hrun & _).
  - split; [reflexivity|apply slots_rel_nil].
  - exact Hok.
  - exact Ha.
  - exists st'. exact Hrun.
Qed.

(* the same history from any reachable state: outputs do not depend on the past.  Two concrete states
   that simulate the same abstract state (for instance reached by different histories that left the
   same iterators at the same positions) give the same outputs on every continuation. *)
Corollary history_no_hidden_state : forall v L P K, wf_for v L P K -> trie_fits v P ->
  forall st1 st2 ast ops ast' aouts,
  sim P st1 ast -> sim P st2 ast -> forallb hop_ok ops = true ->
  arun K (lk P) ast ops = Some (ast', aouts) ->
  exists st1' st2', hrun v st1 ops = Ok (st1', aouts) /\ hrun v st2 ops = Ok (st2', aouts).
Proof.
  intros v L P K Hwf Hfits st1 st2 ast ops ast' aouts S1 S2 Hok Ha.
  destruct (run_sim v L P K Hwf Hfits ops st1 ast ast' aouts S1 Hok Ha) as (st1' & R1 & _).
  destruct (run_sim v L P K Hwf Hfits ops st2 ast ast' aouts S2 Hok Ha) as (st2' & R2 & _).
  exists st1', st2'. split; assumption.
Qed.
End History.

Print Assumptions history_refines.
Print Assumptions history_refines_strong.
Print Assumptions history_refines_b.
Print Assumptions history_no_hidden_state.
