(* Iface.v: the statements that connect the layers.  Each is a Prop definition; the *Facts files prove
   them as theorems, and higher layers take them as Section hypotheses until everything is assembled
   in the Properties_* files (no axioms: the hypotheses are discharged there). *)
From X Require Import Base Arr Consts BitToolsSpec BitToolsGen BitVector CompactVector Dac Tail.
Local Open Scope N_scope.

(* ---- word level (proved in BitToolsFacts.v) ---- *)
Definition PopcountSpec : Prop := forall x, x < 2^64 -> popcount x = popcnt_spec x.
Definition PopcntLowBits : Prop :=
  forall w j, w < 2^64 -> 0 < j -> j < 64 -> popcnt_spec (shl64 w (64 - j)) = popcnt_spec (N.land w (N.ones j)).
Definition SelectInWordSpec : Prop :=
  forall x k, x < 2^64 -> k < popcnt_spec x -> select_spec x k = Some (select_in_word x k).
Definition SelectSpecSound : Prop :=
  forall x k p, select_spec x k = Some p -> N.testbit x p = true /\ popcnt_spec (N.land x (N.ones p)) = k.
Definition field9 (x j : N) : N := N.land (N.shiftr x (9 * j)) 511.
Definition UleqCount : Prop :=
  forall x y, x < 2^63 -> y < 2^63 ->
    N.land (shr64 (mul64 (uleq_step_9 x y) ones_step_9) 54) 7
    = N.of_nat (length (filter (fun j => field9 x j <=? field9 y j) [0; 1; 2; 3; 4; 5; 6])).
Definition MsbLog2 : Prop := forall x, 0 < x -> x < 2^64 -> msb x = N.log2 x.

(* ---- bit vector (proved in BitVectorFacts.v) ---- *)
Fixpoint count_true (l : list bool) : N :=
  match l with [] => 0 | b :: t => (if b then 1 else 0) + count_true t end.
Definition nthb (l : list bool) (i : N) : bool := nth (N.to_nat i) l false.
Definition bv_of_bits (bits : list bool) (r s : bool) : res bitvec :=
  do b <- bvb_of_bits bits; bv_build b r s.
Definition max_bits : N := 2^62.      (* sizes for which no 64-bit counter wraps *)

Definition BvBuildSpec : Prop := forall bits r s, lenN bits < max_bits ->
  exists v, bv_of_bits bits r s = Ok v /\ bv_size v = lenN bits /\ bv_ones v = count_true bits.
Definition BvGetSpec : Prop := forall bits r s v i, lenN bits < max_bits ->
  bv_of_bits bits r s = Ok v -> i < lenN bits -> bv_get v i = Ok (nthb bits i).
Definition BvRankSpec : Prop := forall bits s v i, lenN bits < max_bits ->
  bv_of_bits bits true s = Ok v -> i <= lenN bits ->
  bv_rank v i = Ok (count_true (firstn (N.to_nat i) bits)).
Definition BvSelectSpec : Prop := forall bits v n, lenN bits < max_bits ->
  bv_of_bits bits true true = Ok v -> n < count_true bits ->
  exists p, bv_select v n = Ok p /\ p < lenN bits /\ nthb bits p = true /\
            count_true (firstn (N.to_nat p) bits) = n.

(* ---- compact vector (proved in CompactFacts.v) ---- *)
Definition CvSpec : Prop := forall vs, vs <> [] -> Forall (fun x => x < 2^64) vs -> lenN vs < 2^56 ->
  exists c, cv_build vs = Ok c /\ cv_size c = lenN vs /\
            forall i, i < lenN vs -> cv_get c i = Ok (nth (N.to_nat i) vs 0).
