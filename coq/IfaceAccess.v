(* IfaceAccess.v: what ties the functions regenerated from the headers (AccessGen.v, translator/access.py)
   to the hand-written model functions the theorems are about: whenever the model function returns a value,
   the generated one returns the same value ("Ref").  The model may be stricter (it keeps the asserts). *)
From X Require Import Base Arr Consts BitToolsSpec BitToolsGen BitVector CompactVector Dac AccessLib AccessGen Iface IfaceDac.
Local Open Scope N_scope.

(* ---- compact_vector, bit_vector (AccessFacts.v) ---- *)
Definition CvGetRef : Prop := forall c i x, cv_bits c <= 64 -> cv_get c i = Ok x -> cvg_get c i = Ok x.
Definition BvGetRef : Prop := forall v i x, bv_get v i = Ok x -> bvg_get v i = Ok x.
Definition BvRankRef : Prop := forall v i x, bv_rank v i = Ok x -> bvg_rank v i = Ok x.
Definition BvSelectRef : Prop := forall v n x, n < 2^64 -> bv_select v n = Ok x -> bvg_select v n = Ok x.
(* compact vectors as built have at most 64-bit elements *)
Definition CvBuildBits : Prop := forall vs c, Forall (fun x => x < 2^64) vs -> cv_build vs = Ok c -> cv_bits c <= 64.

(* ---- BASE/CHECK vectors (AccessDacFacts.v) ---- *)
Definition cells_ok (l : list (arr N)) : Prop := Forall (fun a => forall i c, aget a i = Ok c -> c < 2^64) l.
Definition bc8_shape (w : N) (d : bc8) : Prop :=
  b8_w d = w /\ length (b8_ints d) = N.to_nat (64 / w) /\ length (b8_nexts d) = (N.to_nat (64 / w) - 1)%nat /\
  b8_nlev d < 64 / w /\ cells_ok (b8_ints d) /\ cv_bits (b8_links d) <= 64.
Definition bc7_shape (vbs : list N) (d : bc7) : Prop :=
  b7_vbits d = vbs /\ length (b7_ints d) = S (length vbs) /\ length (b7_ranks d) = length vbs /\
  cv_bits (b7_links d) <= 64.

Definition Bc8AccessRef : Prop := forall d i x, bc8_shape 8 d -> bc8_access d i = Ok x -> b8g_access d i = Ok x.
Definition Bc16AccessRef : Prop := forall d i x, bc8_shape 16 d -> bc8_access d i = Ok x -> b16g_access d i = Ok x.
Definition Bc7AccessRef : Prop := forall d i x, bc7_shape [7; 15; 31] d -> bc7_access d i = Ok x -> b7g_access d i = Ok x.
Definition Bc15AccessRef : Prop := forall d i x, bc7_shape [15; 31] d -> bc7_access d i = Ok x -> b15g_access d i = Ok x.

Definition Bc8ApiRef : Prop := forall d i, bc8_shape 8 d ->
  (forall x, bc_base (Bc8 d) i = Ok x -> b8g_base d i = Ok x) /\
  (forall x, bc_check (Bc8 d) i = Ok x -> b8g_check d i = Ok x) /\
  (forall x, bc_link (Bc8 d) i = Ok x -> b8g_link d i = Ok x) /\
  (forall x, bc_is_leaf (Bc8 d) i = Ok x -> b8g_is_leaf d i = Ok x) /\
  b8g_num_units d = Ok (bc_num_units (Bc8 d)) /\ b8g_num_free_units d = bc_num_free_units (Bc8 d) /\
  b8g_num_nodes d = Ok (bc_num_nodes (Bc8 d)) /\ b8g_num_leaves d = bc_num_leaves (Bc8 d).
Definition Bc16ApiRef : Prop := forall d i, bc8_shape 16 d ->
  (forall x, bc_base (Bc8 d) i = Ok x -> b16g_base d i = Ok x) /\
  (forall x, bc_check (Bc8 d) i = Ok x -> b16g_check d i = Ok x) /\
  (forall x, bc_link (Bc8 d) i = Ok x -> b16g_link d i = Ok x) /\
  (forall x, bc_is_leaf (Bc8 d) i = Ok x -> b16g_is_leaf d i = Ok x) /\
  b16g_num_units d = Ok (bc_num_units (Bc8 d)) /\ b16g_num_free_units d = bc_num_free_units (Bc8 d) /\
  b16g_num_nodes d = Ok (bc_num_nodes (Bc8 d)) /\ b16g_num_leaves d = bc_num_leaves (Bc8 d).
Definition Bc7ApiRef : Prop := forall d i, bc7_shape [7; 15; 31] d ->
  (forall x, bc_base (Bc7 d) i = Ok x -> b7g_base d i = Ok x) /\
  (forall x, bc_check (Bc7 d) i = Ok x -> b7g_check d i = Ok x) /\
  (forall x, bc_link (Bc7 d) i = Ok x -> b7g_link d i = Ok x) /\
  (forall x, bc_is_leaf (Bc7 d) i = Ok x -> b7g_is_leaf d i = Ok x) /\
  b7g_num_units d = bc_num_units (Bc7 d) /\ b7g_num_free_units d = bc_num_free_units (Bc7 d) /\
  b7g_num_nodes d = bc_num_nodes (Bc7 d) /\ b7g_num_leaves d = bc_num_leaves (Bc7 d).
Definition Bc15ApiRef : Prop := forall d i, bc7_shape [15; 31] d ->
  (forall x, bc_base (Bc7 d) i = Ok x -> b15g_base d i = Ok x) /\
  (forall x, bc_check (Bc7 d) i = Ok x -> b15g_check d i = Ok x) /\
  (forall x, bc_link (Bc7 d) i = Ok x -> b15g_link d i = Ok x) /\
  (forall x, bc_is_leaf (Bc7 d) i = Ok x -> b15g_is_leaf d i = Ok x) /\
  b15g_num_units d = bc_num_units (Bc7 d) /\ b15g_num_free_units d = bc_num_free_units (Bc7 d) /\
  b15g_num_nodes d = bc_num_nodes (Bc7 d) /\ b15g_num_leaves d = bc_num_leaves (Bc7 d).

(* what bc_build produces has the shape the refinements need *)
Definition BcBuildShape : Prop := forall v units leaves d, units_ok units -> bc_build v units leaves = Ok d ->
  match v, d with
  | V8, Bc8 d => bc8_shape 8 d
  | V16, Bc8 d => bc8_shape 16 d
  | V7, Bc7 d => bc7_shape [7; 15; 31] d
  | V15, Bc7 d => bc7_shape [15; 31] d
  | _, _ => False
  end.
