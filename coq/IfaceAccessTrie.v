(* IfaceAccessTrie.v: refinement statements for the functions regenerated from tail_vector.hpp, code_table.hpp and
   trie.hpp (AccessGen.v / AccessTrieGen.v): whenever the hand-written model function returns a value, the generated
   one returns the same value. *)
From X Require Import Base Arr Consts BitToolsSpec BitToolsGen BitVector CompactVector Dac Tail Trie Spec Wf
  AccessLib AccessGen AccessDispatch AccessTrieGen Iface IfaceDac IfaceQuery IfaceAccess.
Local Open Scope N_scope.

(* ---- tail_vector (AccessTailFacts.v) ---- *)
Definition tail_small (t : tailvec) (q : key) : Prop := alen (tv_chars t) < 2^64 /\ lenN q < 2^64.
Definition TailMatchRef : Prop := forall t q tpos r, tail_small t q -> t_match t q tpos = Ok r -> tvg_match t q tpos = Ok r.
Definition TailPrefixRef : Prop := forall t q tpos r, tail_small t q ->
  t_prefix_match t q tpos = Ok r -> tvg_prefix_match t q tpos = Ok r.
Definition TailDecodeRef : Prop := forall t tpos r, alen (tv_chars t) < 2^64 -> t_decode t tpos = Ok r -> tvg_decode t tpos = Ok r.

(* ---- code_table ---- *)
Definition table_bytes (c : ctable) : Prop := forall i x, aget (ct_table c) i = Ok x -> x < 256.
Definition CtRef : Prop := forall c b r, table_bytes c ->
  (b < 256 -> ct_get_code c b = Ok r -> ctg_get_code c b = Ok r) /\
  (b < 256 -> ct_get_char c b = Ok r -> ctg_get_char c b = Ok r).

(* ---- trie::lookup (AccessTrieFacts.v) ---- *)
Definition bc_shape_any (d : bcvec) : Prop :=
  match d with
  | Bc8 d => bc8_shape 8 d \/ bc8_shape 16 d
  | Bc7 d => bc7_shape [7; 15; 31] d \/ bc7_shape [15; 31] d
  end.
Definition trie_shape (P : trie) : Prop :=
  bc_shape_any (t_bc P) /\ table_bytes (t_table P) /\ alen (tv_chars (t_tail P)) < 2^64.
Definition TrieLookupRef : Prop := forall P q r, trie_shape P -> bytes_ok q = true -> lenN q < 2^64 ->
  lookup P q = Ok r -> trg_lookup P q = Ok r.
(* trie::decode(id, decoded): whatever the caller's buffer held before *)
Definition TrieDecodeRef : Prop := forall P id r out0, trie_shape P -> id < 2^64 ->
  decode P id = Ok r -> trg_decode P id out0 = Ok r.
(* trie::next_prefix on a prefix_iterator: one advance of a bound iterator whose cursor is inside its key *)
Definition PfxNextRef : Prop := forall P it r, trie_shape P -> bytes_ok (p_key it) = true -> lenN (p_key it) < 2^64 ->
  p_obj it = true -> p_kpos it <= lenN (p_key it) ->
  next_prefix P it = Ok r -> trg_next_prefix P it = Ok r.
(* n successive advances from a fresh iterator *)
Fixpoint pfx_calls_g (P : trie) (it : pfx_it) (n : nat) : res (list (option (N * key))) :=
  match n with
  | O => Ok []
  | S m => do '(it', b) <- trg_next_prefix P it;
           do r <- pfx_calls_g P it' m;
           Ok ((if b then Some (p_id it', pfx_decoded it') else None) :: r)
  end.
Definition PfxCallsRef : Prop := forall P q n r, trie_shape P -> bytes_ok q = true -> lenN q < 2^64 ->
  pfx_calls P (mk_prefix q) n = Ok r -> pfx_calls_g P (mk_prefix q) n = Ok r.
(* trie::next_predictive on a predictive_iterator: one advance of a bound iterator.  The cursors' depths must leave room
   for one more level per iteration of the search loop.  This first statement is REFUTED
   (AccessPredictiveFacts.pred_next_ref_naive_refuted): the C++ narrows every alphabet element to a char, so the
   alphabet array must hold bytes -- AccessPredictiveFacts.PredNextRefAlpha adds that premise, and
   assemble_alpha_bytes shows every assembled dictionary satisfies it. *)
Definition cursors_below (b : N) (it : pred_it) : Prop := Forall (fun c => c_kpos c < b) (d_stack it).
Definition PredNextRefNaive : Prop := forall P it r, trie_shape P -> alen (tv_chars (t_tail P)) < 2^62 ->
  bytes_ok (d_key it) = true -> lenN (d_key it) < 2^62 -> lenN (d_dec it) < 2^62 -> bc_num_units (t_bc P) < 2^62 ->
  d_obj it = true -> (d_beg it = true -> d_stack it = []) -> cursors_below (2^62) it ->
  next_predictive P it = Ok r -> trg_next_predictive P it = Ok r.
Fixpoint pred_calls_g (P : trie) (it : pred_it) (n : nat) : res (list (option (N * key))) :=
  match n with
  | O => Ok []
  | S m => do '(it', b) <- trg_next_predictive P it;
           do r <- pred_calls_g P it' m;
           Ok ((if b then Some (d_id it', d_dec it') else None) :: r)
  end.
(* what assemble produces from well-formed logical content has that shape *)
Definition AssembleShape : Prop := forall v L P K, wf_for v L P K -> trie_shape P.
