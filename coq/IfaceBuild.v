(* IfaceBuild.v: statements about construction (proved in BuilderFacts.v / AssembleFacts.v). *)
From X Require Import Base Arr Consts BitToolsSpec BitToolsGen BitVector CompactVector Dac Tail Trie Spec Iface IfaceDac Wf Builder.
Local Open Scope N_scope.

Definition total_bytes (K : list key) : N := fold_right (fun k acc => lenN k + 1 + acc) 0 K.
Definition small_keys (K : list key) : Prop := total_bytes K < 2^40.

(* for every valid key list (and every code table that is a permutation with its inverse -- the
   std::sort oracle), every variant and both requested modes: the builder terminates without fault and
   its logical output passes the certificate check for exactly K *)
Definition BuildSpec : Prop := forall v tbl K req,
  valid_keys K = true -> small_keys K -> perm_okb tbl = true ->
  exists L, build_logical v tbl K req = Ok L /\ lwf_b L K = true /\
            lg_bin L = spec_bin_mode req K.

(* every list that is not a valid key list is rejected with an exception: never a dictionary, never a fault
   (in particular no key is indexed at or beyond its size: key_char would return Fault OobKey) *)
Definition RejectSpec : Prop := forall v tbl K req,
  valid_keys K = false -> Forall (fun k => bytes_ok k = true) K -> small_keys K -> perm_okb tbl = true ->
  exists e, build v tbl K req = Exc e.

(* well-formed logical content always assembles (no fault, no exception) *)
Definition AssembleSpec : Prop := forall v L K, lwf_b L K = true -> exists P, assemble v L = Ok P.
