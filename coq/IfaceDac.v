(* IfaceDac.v: interface statement for the BASE/CHECK vectors (proved in DacFacts.v) and the suffix store
   (proved in TailFacts.v). *)
From X Require Import Base Arr Consts BitToolsSpec BitToolsGen BitVector CompactVector Dac Tail Spec Iface.
Local Open Scope N_scope.

Definition units_ok (units : list unit) : Prop := Forall (fun u => fst u < 2^64 /\ snd u < 2^64) units.
Definition nthu (units : list unit) (i : N) : unit := nth (N.to_nat i) units (0, 0).
Fixpoint count_free_spec (units : list unit) (i : N) : N :=
  match units with [] => 0 | u :: t => (if snd u =? i then 1 else 0) + count_free_spec t (i + 1) end.

Definition BcSpec : Prop := forall v units leaves,
  units_ok units -> length leaves = length units -> lenN units < 2^56 ->
  exists d, bc_build v units leaves = Ok d /\
    bc_num_units d = lenN units /\
    bc_num_free_units d = count_free_spec units 0 /\
    bc_num_leaves d = count_true leaves /\
    bc_num_nodes d = lenN units - count_free_spec units 0 /\
    forall i, i < lenN units ->
      bc_is_leaf d i = Ok (nthb leaves i) /\
      bc_check d i = Ok (snd (nthu units i)) /\
      (nthb leaves i = false -> bc_base d i = Ok (fst (nthu units i))) /\
      (nthb leaves i = true -> bc_link d i = Ok (fst (nthu units i))).

(* suffix store *)
Definition suf_ok (bin : bool) (s : key) : Prop :=
  s <> [] /\ Forall (fun b => b < 256) s /\ (bin = false -> ~ In 0 s).
Definition TailSpec : Prop := forall bin (sufs : list suffix) ,
  Forall (fun sn => suf_ok bin (fst sn)) sufs -> NoDup (map snd sufs) ->
  fold_right (fun sn acc => lenN (fst sn) + 1 + acc) 1 sufs < 2^60 ->
  exists T asg, tail_complete bin sufs = Ok (T, asg) /\
    tv_bin_mode T = bin /\ 1 <= tv_size T /\ tv_size T < 2^60 /\
    (forall q, Forall (fun b => b < 256) q ->
       t_match T q 0 = Ok (match q with [] => true | _ => false end) /\
       t_prefix_match T q 0 = Ok (Some 0)) /\
    t_decode T 0 = Ok [] /\
    (forall npos tpos, In (npos, tpos) asg -> exists s, In (s, npos) sufs) /\
    forall s npos, In (s, npos) sufs ->
      exists tpos, In (npos, tpos) asg /\ tpos <> 0 /\ tpos < tv_size T /\
        (forall tpos', In (npos, tpos') asg -> tpos' = tpos) /\
        t_decode T tpos = Ok s /\
        forall q, Forall (fun b => b < 256) q ->
          t_match T q tpos = Ok (key_eqb q s) /\
          t_prefix_match T q tpos = Ok (if is_prefixb s q then Some (lenN s) else None).
