(* IfaceQuery.v: statements about the queries of a dictionary assembled from well-formed logical content.
   PhysSpec is proved in PhysFacts.v; the query statements in LookupFacts.v / PrefixFacts.v / PredictiveFacts.v. *)
From Coq Require Import FMapPositive.
From X Require Import Base Arr Consts BitToolsSpec BitToolsGen BitVector CompactVector Dac Tail Trie Spec Iface IfaceDac Wf.
Local Open Scope N_scope.

Definition wf_for (v : variant) (L : logical) (P : trie) (K : list key) : Prop :=
  assemble v L = Ok P /\ lwf_b L K = true.

Definition rank_of (terms : list bool) (u : N) : N := count_true (firstn (N.to_nat u) terms).
Definition code_of (L : logical) (b : N) : N := nth (N.to_nat b) (lg_tbl L) 0.
Definition char_of (L : logical) (cd : N) : N := nth (N.to_nat (cd + 256)) (lg_tbl L) 0.

(* the TAIL position [tpos] holds exactly the suffix [s] ([] = the reserved empty slot 0) *)
Definition tail_at (P : trie) (tpos : N) (s : key) : Prop :=
  (s = [] <-> tpos = 0) /\
  t_decode (t_tail P) tpos = Ok s /\
  forall q, Forall (fun b => b < 256) q ->
            t_match (t_tail P) q tpos = Ok (key_eqb q s) /\
            t_prefix_match (t_tail P) q tpos = Ok (if is_prefixb s q then Some (lenN s) else None).

(* what the packed structure answers, in terms of the logical content *)
Record phys_ok (L : logical) (P : trie) : Prop := mkPhys {
  ph_leaf  : forall u, u < lenN (lg_units L) -> bc_is_leaf (t_bc P) u = Ok (nthb (lg_leaves L) u);
  ph_check : forall u, u < lenN (lg_units L) -> bc_check (t_bc P) u = Ok (snd (nthu (lg_units L) u));
  ph_base  : forall u, u < lenN (lg_units L) -> nthb (lg_leaves L) u = false ->
             bc_base (t_bc P) u = Ok (fst (nthu (lg_units L) u));
  ph_link  : forall u, u < lenN (lg_units L) -> nthb (lg_leaves L) u = true ->
             exists tpos, bc_link (t_bc P) u = Ok tpos /\ tpos < 2^60 /\ tail_at P tpos (suffix_at (view_of L) u);
  ph_term  : forall u, u < lenN (lg_units L) -> bv_get (t_terms P) u = Ok (nthb (lg_terms L) u);
  ph_rank  : forall u, u <= lenN (lg_units L) -> npos_to_id P u = Ok (rank_of (lg_terms L) u);
  ph_select: forall i, i < count_true (lg_terms L) ->
             exists p, id_to_npos P i = Ok p /\ p < lenN (lg_units L) /\ nthb (lg_terms L) p = true /\
                       rank_of (lg_terms L) p = i;
  ph_code  : forall b, b < 256 -> ct_get_code (t_table P) b = Ok (code_of L b);
  ph_char  : forall cd, cd < 256 -> ct_get_char (t_table P) cd = Ok (char_of L cd);
  ph_alpha : alist (ct_alpha (t_table P)) = lg_alpha L;
  ph_nkeys : t_nkeys P = lg_nkeys L;
  ph_units : t_num_units P = lenN (lg_units L);
  ph_bin   : t_bin_mode P = lg_bin L;
  ph_maxlen: t_max_length P = lg_maxlen L;
  ph_alen  : t_alphabet_size P = lenN (lg_alpha L);
  ph_frees : t_num_free_units P = count_free_spec (lg_units L) 0;
  ph_nodes : t_num_nodes P = lenN (lg_units L) - count_free_spec (lg_units L) 0;
  ph_tail  : 1 <= t_tail_length P
}.
Definition PhysSpec : Prop := forall v L P K, wf_for v L P K -> phys_ok L P.

(* ---------------- query statements ---------------- *)
Definition lk (P : trie) (q : key) : option N :=
  if bytes_ok q then match lookup P q with Ok r => r | _ => None end else None.
Definition with_ids (P : trie) (ks : list key) : list (N * key) :=
  map (fun k => (match lk P k with Some i => i | None => 0 end, k)) ks.

Definition LookupSpec : Prop := forall v L P K, wf_for v L P K ->
  (forall q, bytes_ok q = true -> lookup P q = Ok (lk P q)) /\
  id_assignment K (lk P) /\
  (forall q, bytes_ok q = true -> (lk P q <> None <-> spec_member K q = true)).

Definition DecodeSpec : Prop := forall v L P K, wf_for v L P K ->
  t_num_keys P = lenN K /\
  (forall k i, lk P k = Some i -> decode P i = Ok k) /\
  (forall i, lenN K <= i -> decode P i = Ok []).

(* results of n successive next() calls on an iterator *)
Fixpoint pfx_calls (P : trie) (it : pfx_it) (n : nat) : res (list (option (N * key))) :=
  match n with
  | O => Ok []
  | S m => do '(it', b) <- next_prefix P it;
           do r <- pfx_calls P it' m;
           Ok ((if b then Some (p_id it', pfx_decoded it') else None) :: r)
  end.
Fixpoint pred_calls (P : trie) (it : pred_it) (n : nat) : res (list (option (N * key))) :=
  match n with
  | O => Ok []
  | S m => do '(it', b) <- next_predictive P it;
           do r <- pred_calls P it' m;
           Ok ((if b then Some (d_id it', d_dec it') else None) :: r)
  end.
(* the abstract iterator: the spec list, then "false" forever *)
Definition abs_calls (l : list (N * key)) (n : nat) : list (option (N * key)) :=
  firstn n (map Some l ++ repeat None n).

Definition PrefixSpec : Prop := forall v L P K, wf_for v L P K -> forall q, bytes_ok q = true ->
  (forall n, pfx_calls P (mk_prefix q) n = Ok (abs_calls (with_ids P (spec_prefixes K q)) n)) /\
  prefix_search P q = Ok (with_ids P (spec_prefixes K q)).

Definition PredictiveSpec : Prop := forall v L P K, wf_for v L P K -> forall q, bytes_ok q = true ->
  (forall n, pred_calls P (mk_predictive q) n = Ok (abs_calls (with_ids P (spec_completions K q)) n)) /\
  predictive_search P q = Ok (with_ids P (spec_completions K q)).

Definition StatsSpec : Prop := forall v L P K, wf_for v L P K ->
  t_num_keys P = lenN K /\ t_max_length P = spec_max_length K /\
  t_alphabet_size P = lenN (spec_alphabet K) /\
  t_num_nodes P + t_num_free_units P = t_num_units P /\
  t_num_nodes P = spec_mp_nodes K /\ 1 <= t_tail_length P.

(* the node at which key q ends in the abstract tree *)
Fixpoint tree_find (t : tree) (q : key) : option N :=
  match t with
  | TLeaf u s => if key_eqb q s then Some u else None
  | TNode u tm cs =>
    match q with
    | [] => if tm then Some u else None
    | b :: q' =>
      (fix go (cs : list (N * tree)) : option N :=
         match cs with [] => None | (b', c) :: r => if b =? b' then tree_find c q' else go r end) cs
    end
  end.
Definition the_tree (L : logical) : option tree := extract (S (N.to_nat (lg_maxlen L))) (view_of L) 0.
(* lookup walks the abstract tree and answers with the terminal rank of the node reached *)
Definition LookupNodeSpec : Prop := forall v L P K T, wf_for v L P K -> the_tree L = Some T ->
  forall q, bytes_ok q = true ->
    lookup P q = Ok (option_map (rank_of (lg_terms L)) (tree_find T q)).
