(* LayoutFacts.v: the member order and member types that the C++ visit() methods have NOW (LayoutGen.v is
   regenerated from the headers on every run) are the ones Serial.v's encoders / readers / size functions were
   written for.  Each expected list below is a transcription of the corresponding Serial.v definition:
     enc_bv / rd_bv / size_bv, enc_cv / rd_cv / size_cv, enc_ct / rd_ct, enc_tail / rd_tail,
     enc_bc8 / rd_bc8 (w = 8, 16), enc_bc7 / rd_bc7 (vbits [7;15;31], [15;31]), enc_trie / rd_trie, save / rd_file.
   A reordered, retyped, added or removed member makes `reflexivity` fail. *)
From Coq Require Import NArith List String.
From X Require Import LayoutGen.
Import ListNotations.
Local Open Scope string_scope.

Definition bv := FObj "bit_vector".
Definition cv := FObj "compact_vector".

(* only the order and the types matter (a renamed member is harmless), so names are dropped before comparing *)
Definition kinds (l : list (string * fkind)) : list fkind := map snd l.
Definition layouts_now :=
  (kinds layout_bit_vector, kinds layout_compact_vector, kinds layout_code_table, kinds layout_tail_vector,
   kinds layout_bc_vector_7, kinds layout_bc_vector_8, kinds layout_bc_vector_15, kinds layout_bc_vector_16,
   kinds layout_trie, file_tag_bytes).

Definition layouts_modelled :=
  ( (* bit_vector    *) [(FInt 8); (FInt 8); (FVec 8); (FVec 8);
                          (FVec 8)],
    (* compact_vector *) [(FInt 8); (FInt 8); (FInt 8); (FVec 8)],
    (* code_table    *) [(FInt 8); (FRaw 512); (FVec 1)],
    (* tail_vector   *) [(FVec 1); (bv)],
    (* bc_vector_7   *) [(FInt 8); (FVec 1); (FVec 2); (FVec 4);
                          (FVec 8); (FArr 3 (FVec 8)); (cv); (bv)],
    (* bc_vector_8   *) [(FInt 4); (FInt 8); (FArr 8 (FVec 1));
                          (FArr 7 bv); (cv); (bv)],
    (* bc_vector_15  *) [(FInt 8); (FVec 2); (FVec 4); (FVec 8);
                          (FArr 2 (FVec 8)); (cv); (bv)],
    (* bc_vector_16  *) [(FInt 4); (FInt 8); (FArr 4 (FVec 2));
                          (FArr 3 bv); (cv); (bv)],
    (* trie          *) [(FInt 8); (FObj "code_table"); (bv);
                          (FObj "bc_vector_type"); (FObj "tail_vector")],
    (* file tag      *) 4%nat ).

Theorem layout_is_the_modelled_one : layouts_now = layouts_modelled.
Proof. reflexivity. Qed.
