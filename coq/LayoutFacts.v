(* LayoutFacts.v: the member order and member types that the C++ visit() methods have NOW (LayoutGen.v is
   regenerated from the headers on every run) are the ones Serial.v's encoders / readers / size functions were
   written for.  Each expected list below is a transcription of the corresponding Serial.v definition:
     enc_bv / rd_bv / size_bv, enc_cv / rd_cv / size_cv, enc_ct / rd_ct, enc_tail / rd_tail,
     enc_bc8 / rd_bc8 (w = 8, 16), enc_bc7 / rd_bc7 (vbits [7;15;31], [15;31]), enc_trie / rd_trie, save / rd_file.
   A reordered, retyped, added or removed member makes `reflexivity` fail. *)
From Coq Require Import NArith List String.
From X Require Import LayoutGen.
Import ListNotations.
Local Open Scope string_scope.

Definition bv := FObj "bit_vector".
Definition cv := FObj "compact_vector".

Definition layouts_now :=
  (layout_bit_vector, layout_compact_vector, layout_code_table, layout_tail_vector,
   layout_bc_vector_7, layout_bc_vector_8, layout_bc_vector_15, layout_bc_vector_16, layout_trie, file_tag_bytes).

Definition layouts_modelled :=
  ( (* bit_vector    *) [("m_size", FInt 8); ("m_num_ones", FInt 8); ("m_bits", FVec 8); ("m_rank_hints", FVec 8);
                          ("m_select_hints", FVec 8)],
    (* compact_vector *) [("m_size", FInt 8); ("m_bits", FInt 8); ("m_mask", FInt 8); ("m_chunks", FVec 8)],
    (* code_table    *) [("m_max_length", FInt 8); ("m_table", FRaw 512); ("m_alphabet", FVec 1)],
    (* tail_vector   *) [("m_chars", FVec 1); ("m_terms", bv)],
    (* bc_vector_7   *) [("m_num_frees", FInt 8); ("m_ints_l1", FVec 1); ("m_ints_l2", FVec 2); ("m_ints_l3", FVec 4);
                          ("m_ints_l4", FVec 8); ("m_ranks", FArr 3 (FVec 8)); ("m_links", cv); ("m_leaves", bv)],
    (* bc_vector_8   *) [("m_num_levels", FInt 4); ("m_num_frees", FInt 8); ("m_bytes", FArr 8 (FVec 1));
                          ("m_nexts", FArr 7 bv); ("m_links", cv); ("m_leaves", bv)],
    (* bc_vector_15  *) [("m_num_frees", FInt 8); ("m_ints_l1", FVec 2); ("m_ints_l2", FVec 4); ("m_ints_l3", FVec 8);
                          ("m_ranks", FArr 2 (FVec 8)); ("m_links", cv); ("m_leaves", bv)],
    (* bc_vector_16  *) [("m_num_levels", FInt 4); ("m_num_frees", FInt 8); ("m_shorts", FArr 4 (FVec 2));
                          ("m_nexts", FArr 3 bv); ("m_links", cv); ("m_leaves", bv)],
    (* trie          *) [("m_num_keys", FInt 8); ("m_table", FObj "code_table"); ("m_terms", bv);
                          ("m_bcvec", FObj "bc_vector_type"); ("m_tvec", FObj "tail_vector")],
    (* file tag      *) 4%nat ).

Theorem layout_is_the_modelled_one : layouts_now = layouts_modelled.
Proof. reflexivity. Qed.
