(* LookupFacts.v: lookup and decode of an assembled dictionary against the abstract tree / key list
   (LookupNodeSpec, LookupSpec, DecodeSpec of IfaceQuery.v), from PhysSpec. *)
From Coq Require Import FMapPositive Lia ZifyN ZifyBool ZifyNat Arith PeanoNat FinFun.
From X Require Import Base Arr ArrFacts Consts BitToolsSpec BitToolsGen BitVector CompactVector Dac Tail Trie
                      Spec Iface IfaceDac Wf IfaceQuery PhysFacts.
Local Open Scope N_scope.

Arguments N.mul : simpl never.
Arguments N.add : simpl never.
Arguments N.shiftl : simpl never.
Arguments N.pow : simpl never.
Arguments N.lxor : simpl never.
Arguments N.land : simpl never.

(* ------------------------------------------------------------------ small list facts *)
Lemma nth_firstn_lt {A} (d : A) : forall n i (l : list A), (i < n)%nat -> nth i (firstn n l) d = nth i l d.
Proof.
  induction n as [|n IH]; intros i l Hi; [lia|].
  destruct l as [|x l]; [destruct i; reflexivity|]. cbn [firstn].
  destruct i as [|i]; [reflexivity|]. cbn [nth]. apply IH. lia.
Qed.

Lemma bytes256_in b : In b bytes256 <-> b < 256.
Proof.
  unfold bytes256. rewrite in_map_iff. split.
  - intros (x & <- & Hx). apply in_seq in Hx. lia.
  - intros H. exists (N.to_nat b). split; [lia|]. apply in_seq. lia.
Qed.
Lemma bytes256_nodup : NoDup bytes256.
Proof. unfold bytes256. apply Injective_map_NoDup; [intros x y; apply Nat2N.inj|apply seq_NoDup]. Qed.

Lemma bytes_ok_forall q : bytes_ok q = true -> Forall (fun b => b < 256) q.
Proof.
  unfold bytes_ok. intros H. apply Forall_forall. intros b Hb. rewrite forallb_forall in H.
  apply N.ltb_lt. auto.
Qed.
Lemma bytes_ok_cons b q : bytes_ok (b :: q) = true -> b < 256 /\ bytes_ok q = true.
Proof. unfold bytes_ok. cbn [forallb]. intros H. apply andb_prop in H. destruct H as [H1 H2]. apply N.ltb_lt in H1. auto. Qed.

(* count_true / rank *)
Lemma ct_firstn_S : forall (l : list bool) i, nth i l false = true ->
  count_true (firstn (S i) l) = count_true (firstn i l) + 1.
Proof.
  induction l as [|x l IH]; intros i H; [destruct i; discriminate|].
  destruct i as [|i].
  - cbn [nth] in H. subst x. cbn [firstn count_true]. lia.
  - cbn [nth] in H. change (firstn (S (S i)) (x :: l)) with (x :: firstn (S i) l).
    change (firstn (S i) (x :: l)) with (x :: firstn i l). cbn [count_true]. rewrite (IH i H). lia.
Qed.
Lemma ct_firstn_mono : forall (l : list bool) i j, (i <= j)%nat ->
  count_true (firstn i l) <= count_true (firstn j l).
Proof.
  induction l as [|x l IH]; intros i j H; [rewrite !firstn_nil; lia|].
  destruct i as [|i]; [cbn [firstn count_true]; lia|].
  destruct j as [|j]; [lia|]. cbn [firstn count_true]. specialize (IH i j). lia.
Qed.
Lemma rank_of_lt terms u : nthb terms u = true -> rank_of terms u < count_true terms.
Proof.
  unfold nthb, rank_of. intros H. pose proof (ct_firstn_S _ _ H) as E.
  pose proof (ct_firstn_mono terms (S (N.to_nat u)) (length terms)) as M.
  rewrite firstn_all in M.
  assert (N.to_nat u < length terms)%nat.
  { destruct (Nat.lt_ge_cases (N.to_nat u) (length terms)) as [Hl|Hl]; [exact Hl|].
    rewrite nth_overflow in H by exact Hl. discriminate. }
  lia.
Qed.
Lemma rank_of_mono_strict terms u u' : nthb terms u = true -> u < u' -> rank_of terms u < rank_of terms u'.
Proof.
  unfold nthb, rank_of. intros H Hlt. pose proof (ct_firstn_S _ _ H) as E.
  pose proof (ct_firstn_mono terms (S (N.to_nat u)) (N.to_nat u')) as M. lia.
Qed.
Lemma rank_of_inj terms u u' : nthb terms u = true -> nthb terms u' = true ->
  rank_of terms u = rank_of terms u' -> u = u'.
Proof.
  intros H1 H2 E. destruct (N.lt_trichotomy u u') as [Hl|[Hl|Hl]]; [|exact Hl|].
  - pose proof (rank_of_mono_strict terms u u' H1 Hl). lia.
  - pose proof (rank_of_mono_strict terms u' u H2 Hl). lia.
Qed.

Lemma nodup_bounded_length (l : list N) (n : N) :
  NoDup l -> (forall x, In x l -> x < n) -> (length l <= N.to_nat n)%nat.
Proof.
  intros Hnd Hb.
  assert (Hincl : incl l (map N.of_nat (seq 0 (N.to_nat n)))).
  { intros x Hx. apply in_map_iff. exists (N.to_nat x). split; [lia|]. apply in_seq. specialize (Hb x Hx). lia. }
  pose proof (NoDup_incl_length Hnd Hincl) as H. rewrite map_length, seq_length in H. exact H.
Qed.

Lemma nodup_app_inv {A} (l l' : list A) : NoDup (l ++ l') ->
  NoDup l /\ NoDup l' /\ forall x, In x l -> In x l' -> False.
Proof.
  induction l as [|y l IH]; intros H.
  - split; [constructor|]. split; [exact H|]. intros x [].
  - cbn [app] in H. inversion H as [|? ? Hni Hnd']; subst. destruct (IH Hnd') as (H1 & H2 & H3).
    split; [constructor; [|exact H1]; intros Hin; apply Hni; apply in_or_app; left; exact Hin|].
    split; [exact H2|]. intros x [->|Hx] Hx'.
    + apply Hni. apply in_or_app. right; exact Hx'.
    + eapply H3; eauto.
Qed.

(* ------------------------------------------------------------------ trees: named versions of the nested loops *)
Definition find_in (b : N) (q' : key) : list (N * tree) -> option N :=
  fix go (cs : list (N * tree)) : option N :=
    match cs with [] => None | (b', c) :: r => if b =? b' then tree_find c q' else go r end.
Definition keys_go : list (N * tree) -> list key :=
  fix go (cs : list (N * tree)) : list key :=
    match cs with [] => [] | (b, c) :: r => map (cons b) (keys_of c) ++ go r end.
Definition nodes_go : list (N * tree) -> list N :=
  fix go (cs : list (N * tree)) : list N :=
    match cs with [] => [] | (_, c) :: r => nodes_of c ++ go r end.
Definition terms_go (V : lview) : list (N * tree) -> bool :=
  fix go (cs : list (N * tree)) : bool :=
    match cs with [] => true | (_, c) :: r => terms_okb V c && go r end.

Lemma tree_find_node u tm cs b q' : tree_find (TNode u tm cs) (b :: q') = find_in b q' cs.
Proof. reflexivity. Qed.
Lemma tree_find_node_nil u tm cs : tree_find (TNode u tm cs) [] = if tm then Some u else None.
Proof. reflexivity. Qed.
Lemma tree_find_leaf u s q : tree_find (TLeaf u s) q = if key_eqb q s then Some u else None.
Proof. reflexivity. Qed.
Lemma find_in_cons b q' b0 c0 r :
  find_in b q' ((b0, c0) :: r) = if b =? b0 then tree_find c0 q' else find_in b q' r.
Proof. reflexivity. Qed.
Lemma keys_of_node u tm cs : keys_of (TNode u tm cs) = (if tm then [[]] else []) ++ keys_go cs.
Proof. reflexivity. Qed.
Lemma keys_go_cons b c r : keys_go ((b, c) :: r) = map (cons b) (keys_of c) ++ keys_go r.
Proof. reflexivity. Qed.
Lemma nodes_of_node u tm cs : nodes_of (TNode u tm cs) = u :: nodes_go cs.
Proof. reflexivity. Qed.
Lemma nodes_go_cons b c r : nodes_go ((b, c) :: r) = nodes_of c ++ nodes_go r.
Proof. reflexivity. Qed.
Lemma terms_okb_node V u tm cs : terms_okb V (TNode u tm cs) = terms_go V cs.
Proof. reflexivity. Qed.
Lemma terms_go_cons V b c r : terms_go V ((b, c) :: r) = terms_okb V c && terms_go V r.
Proof. reflexivity. Qed.
Lemma nodes_of_hd t : nodes_of t = root_of t :: tl (nodes_of t).
Proof. destruct t; reflexivity. Qed.

(* induction over a tree and its child lists *)
Section TreeInd.
Variable Pt : tree -> Prop.
Variable Pc : list (N * tree) -> Prop.
Hypothesis Hleaf : forall u s, Pt (TLeaf u s).
Hypothesis Hnode : forall u tm cs, Pc cs -> Pt (TNode u tm cs).
Hypothesis Hnil : Pc [].
Hypothesis Hcons : forall b c r, Pt c -> Pc r -> Pc ((b, c) :: r).
Fixpoint tree_ind2 (t : tree) : Pt t :=
  match t with
  | TLeaf u s => Hleaf u s
  | TNode u tm cs =>
    Hnode u tm cs ((fix go (cs : list (N * tree)) : Pc cs :=
                      match cs with
                      | [] => Hnil
                      | (b, c) :: r => Hcons b c r (tree_ind2 c) (go r)
                      end) cs)
  end.
End TreeInd.

(* ------------------------------------------------------------------ local soundness of an extracted tree *)
Fixpoint tsound (V : lview) (t : tree) : Prop :=
  match t with
  | TLeaf u s => u < v_n V /\ vget (v_leaves V) u false = true /\ s = suffix_at V u
  | TNode u tm cs =>
    u < v_n V /\ vget (v_leaves V) u false = false /\ tm = vget (v_terms V) u false /\
    NoDup (map fst cs) /\
    (fix go (cs : list (N * tree)) : Prop :=
       match cs with
       | [] => True
       | (b, c) :: r =>
         (b < 256 /\ root_of c = N.lxor (fst (vget (v_units V) u (0, 0))) (vget (v_code V) b 0) /\
          snd (vget (v_units V) (root_of c) (0, 0)) = u /\ tsound V c) /\ go r
       end) cs
  end.
Definition ksound (V : lview) (u : N) : list (N * tree) -> Prop :=
  fix go (cs : list (N * tree)) : Prop :=
    match cs with
    | [] => True
    | (b, c) :: r =>
      (b < 256 /\ root_of c = N.lxor (fst (vget (v_units V) u (0, 0))) (vget (v_code V) b 0) /\
       snd (vget (v_units V) (root_of c) (0, 0)) = u /\ tsound V c) /\ go r
    end.
Lemma tsound_node V u tm cs : tsound V (TNode u tm cs) =
  (u < v_n V /\ vget (v_leaves V) u false = false /\ tm = vget (v_terms V) u false /\
   NoDup (map fst cs) /\ ksound V u cs).
Proof. reflexivity. Qed.
Lemma ksound_cons V u b c r : ksound V u ((b, c) :: r) =
  ((b < 256 /\ root_of c = N.lxor (fst (vget (v_units V) u (0, 0))) (vget (v_code V) b 0) /\
    snd (vget (v_units V) (root_of c) (0, 0)) = u /\ tsound V c) /\ ksound V u r).
Proof. reflexivity. Qed.

Lemma tsound_root_lt V t : tsound V t -> root_of t < v_n V.
Proof. destruct t; cbn [tsound root_of]; tauto. Qed.

(* scan_children over an arbitrary byte list *)
Section Scan.
Variable V : lview.
Variable rec : N -> option tree.
Hypothesis Hrec : forall c t, rec c = Some t -> root_of t = c /\ tsound V t.

Lemma scan_incl base u : forall bs cs, scan_children V rec bs base u = Some cs -> incl (map fst cs) bs.
Proof.
  induction bs as [|b r IH]; intros cs H; cbn [scan_children] in H.
  - injection H as <-. intros x [].
  - destruct (negb _); [discriminate|].
    destruct (scan_children V rec r base u) as [rest|]; [|discriminate]. specialize (IH rest eq_refl).
    destruct (snd _ =? u).
    + destruct (rec _); [|discriminate]. injection H as <-. cbn [map fst].
      intros x [<-|Hx]; [left; reflexivity|right; apply IH; exact Hx].
    + injection H as <-. intros x Hx. right. apply IH. exact Hx.
Qed.

Lemma scan_nodup base u : forall bs cs, scan_children V rec bs base u = Some cs -> NoDup bs -> NoDup (map fst cs).
Proof.
  induction bs as [|b r IH]; intros cs H Hnd; cbn [scan_children] in H.
  - injection H as <-. constructor.
  - inversion Hnd as [|? ? Hni Hnd']; subst. destruct (negb _); [discriminate|].
    destruct (scan_children V rec r base u) as [rest|] eqn:Er; [|discriminate].
    pose proof (scan_incl _ _ _ _ Er) as Hincl. specialize (IH rest eq_refl Hnd').
    destruct (snd _ =? u).
    + destruct (rec _); [|discriminate]. injection H as <-. cbn [map fst].
      constructor; [|exact IH]. intros Hin. apply Hni. apply Hincl. exact Hin.
    + injection H as <-. exact IH.
Qed.

Lemma scan_sound u : forall bs cs,
  scan_children V rec bs (fst (vget (v_units V) u (0, 0))) u = Some cs ->
  (forall b, In b bs -> b < 256) -> ksound V u cs.
Proof.
  induction bs as [|b r IH]; intros cs H Hb; cbn [scan_children] in H.
  - injection H as <-. exact I.
  - destruct (negb _); [discriminate|].
    destruct (scan_children V rec r _ u) as [rest|]; [|discriminate].
    specialize (IH rest eq_refl (fun x Hx => Hb x (or_intror Hx))).
    destruct (N.eqb_spec (snd (vget (v_units V) (N.lxor (fst (vget (v_units V) u (0, 0))) (vget (v_code V) b 0)) (0, 0))) u) as [E|E].
    + destruct (rec _) as [t|] eqn:Et; [|discriminate]. injection H as <-.
      destruct (Hrec _ _ Et) as [Hr Hs]. rewrite ksound_cons.
      split; [|exact IH]. split; [apply Hb; left; reflexivity|]. split; [exact Hr|].
      split; [rewrite Hr; exact E|exact Hs].
    + injection H as <-. exact IH.
Qed.

Lemma find_in_notin b q' : forall cs, ~ In b (map fst cs) -> find_in b q' cs = None.
Proof.
  induction cs as [|[b0 c0] r IH]; intros H; [reflexivity|].
  rewrite find_in_cons. cbn [map fst] in H. destruct (N.eqb_spec b b0) as [->|Hne].
  - exfalso. apply H. left; reflexivity.
  - apply IH. intros Hin. apply H. right; exact Hin.
Qed.

(* what the scan says about one byte *)
Lemma scan_find base u : forall bs cs, scan_children V rec bs base u = Some cs -> NoDup bs ->
  forall b, In b bs ->
    N.lxor base (vget (v_code V) b 0) < v_n V /\
    if snd (vget (v_units V) (N.lxor base (vget (v_code V) b 0)) (0, 0)) =? u
    then exists t, rec (N.lxor base (vget (v_code V) b 0)) = Some t /\
                   forall q', find_in b q' cs = tree_find t q'
    else forall q', find_in b q' cs = None.
Proof.
  induction bs as [|b0 r IH]; intros cs H Hnd b Hin; [contradiction|].
  cbn [scan_children] in H. inversion Hnd as [|? ? Hni Hnd']; subst.
  destruct (N.ltb_spec (N.lxor base (vget (v_code V) b0 0)) (v_n V)) as [Hlt|Hge]; cbn [negb] in H; [|discriminate].
  destruct (scan_children V rec r base u) as [rest|] eqn:Er; [|discriminate].
  pose proof (scan_incl _ _ _ _ Er) as Hincl.
  destruct (N.eq_dec b b0) as [->|Hne].
  - split; [exact Hlt|].
    destruct (snd (vget (v_units V) (N.lxor base (vget (v_code V) b0 0)) (0, 0)) =? u).
    + destruct (rec _) as [t|]; [|discriminate]. injection H as <-. exists t. split; [reflexivity|].
      intros q'. rewrite find_in_cons, N.eqb_refl. reflexivity.
    + injection H as <-. intros q'. apply find_in_notin. intros Hx. apply Hni. apply Hincl. exact Hx.
  - destruct Hin as [Hin|Hin]; [congruence|]. specialize (IH rest eq_refl Hnd' b Hin).
    destruct IH as [IH1 IH2]. split; [exact IH1|].
    assert (Hcs : forall q', find_in b q' cs = find_in b q' rest).
    { intros q'. destruct (snd (vget (v_units V) (N.lxor base (vget (v_code V) b0 0)) (0, 0)) =? u).
      - destruct (rec (N.lxor base (vget (v_code V) b0 0))); [|discriminate]. injection H as <-.
        rewrite find_in_cons. destruct (N.eqb_spec b b0); [congruence|reflexivity].
      - injection H as <-. reflexivity. }
    destruct (snd (vget (v_units V) (N.lxor base (vget (v_code V) b 0)) (0, 0)) =? u).
    + destruct IH2 as (t & Ht & Hf). exists t. split; [exact Ht|]. intros q'. rewrite Hcs. apply Hf.
    + intros q'. rewrite Hcs. apply IH2.
Qed.
End Scan.

Lemma extract_sound V : forall f u t, extract f V u = Some t -> root_of t = u /\ tsound V t.
Proof.
  induction f as [|f IH]; intros u t H; [discriminate|].
  cbn [extract] in H.
  destruct (N.ltb_spec u (v_n V)) as [Hlt|Hge]; cbn [negb] in H; [|discriminate].
  destruct (vget (v_leaves V) u false) eqn:Elf.
  - injection H as <-. cbn [root_of tsound]. auto.
  - destruct (scan_children V (extract f V) bytes256 _ u) as [cs|] eqn:Es; [|discriminate].
    injection H as <-. split; [reflexivity|]. rewrite tsound_node.
    split; [exact Hlt|]. split; [exact Elf|]. split; [reflexivity|]. split.
    + eapply scan_nodup; [exact Es|apply bytes256_nodup].
    + eapply scan_sound; [exact IH|exact Es|]. intros b Hb. apply bytes256_in. exact Hb.
Qed.

(* ------------------------------------------------------------------ the view of a well-formed logical content *)
Section View.
Variable L : logical.
Variable K : list key.
Hypothesis HF : lwf_facts L K.
Let V := view_of L.

Lemma view_n : v_n V = lenN (lg_units L). Proof. reflexivity. Qed.
Lemma view_units c : vget (v_units V) c (0, 0) = nthu (lg_units L) c.
Proof. unfold V. cbn [view_of v_units]. apply vget_of_list. Qed.
Lemma view_leaves u : vget (v_leaves V) u false = nthb (lg_leaves L) u.
Proof. unfold V. cbn [view_of v_leaves]. apply vget_of_list. Qed.
Lemma view_terms u : vget (v_terms V) u false = nthb (lg_terms L) u.
Proof. unfold V. cbn [view_of v_terms]. apply vget_of_list. Qed.
Lemma view_code b : b < 256 -> vget (v_code V) b 0 = code_of L b.
Proof.
  intros Hb. unfold V. cbn [view_of v_code]. rewrite vget_of_list. unfold code_of.
  apply nth_firstn_lt. lia.
Qed.

Lemma perm_code b : b < 256 -> code_of L b < 256 /\ char_of L (code_of L b) = b.
Proof.
  intros Hb. pose proof (lf_perm _ _ HF) as Hp. unfold perm_okb in Hp.
  apply andb_prop in Hp. destruct Hp as [Hp _]. apply andb_prop in Hp. destruct Hp as [_ Hp].
  rewrite forallb_forall in Hp. specialize (Hp b (proj2 (bytes256_in b) Hb)).
  unfold nthN in Hp. unfold code_of, char_of.
  destruct (nth_error (lg_tbl L) (N.to_nat b)) as [cd|] eqn:E1; [|discriminate].
  rewrite (nth_error_nth _ _ 0 E1).
  apply andb_prop in Hp. destruct Hp as [H1 H2]. apply N.ltb_lt in H1. split; [exact H1|].
  destruct (nth_error (lg_tbl L) (N.to_nat (cd + 256))) as [b'|] eqn:E2; [|discriminate].
  rewrite (nth_error_nth _ _ 0 E2). apply N.eqb_eq. exact H2.
Qed.
End View.

(* ------------------------------------------------------------------ lookup follows the tree *)
Lemma lookup_loop_unfold P q rest npos : lookup_loop P q rest npos =
  (do lf <- bc_is_leaf (t_bc P) npos;
   if lf then
     do tpos <- bc_link (t_bc P) npos;
     do m <- t_match (t_tail P) rest tpos;
     if m then do id <- npos_to_id P npos; Ok (Some id) else Ok None
   else
     match rest with
     | [] => do tm <- bv_get (t_terms P) npos;
             if tm then do id <- npos_to_id P npos; Ok (Some id) else Ok None
     | b :: rest' =>
       do '(cpos, ok) <- child P npos b;
       if ok then lookup_loop P q rest' cpos else Ok None
     end).
Proof. destruct rest; reflexivity. Qed.

Section Sim.
Variable L : logical.
Variable K : list key.
Variable P : trie.
Hypothesis HF : lwf_facts L K.
Hypothesis Ph : phys_ok L P.
Let V := view_of L.
Let n := lenN (lg_units L).

Lemma child_step u b : u < n -> nthb (lg_leaves L) u = false -> b < 256 ->
  N.lxor (fst (nthu (lg_units L) u)) (code_of L b) < n ->
  child P u b = Ok (N.lxor (fst (nthu (lg_units L) u)) (code_of L b),
                    snd (nthu (lg_units L) (N.lxor (fst (nthu (lg_units L) u)) (code_of L b))) =? u).
Proof.
  intros Hu Hlf Hb Hc. unfold child.
  rewrite (ph_base _ _ Ph u Hu Hlf). cbn [bind].
  rewrite (ph_code _ _ Ph b Hb). cbn [bind].
  rewrite (ph_check _ _ Ph _ Hc). cbn [bind]. reflexivity.
Qed.

Lemma lookup_sim q : forall f u t, extract f V u = Some t ->
  forall rest, bytes_ok rest = true ->
  lookup_loop P q rest u = Ok (option_map (rank_of (lg_terms L)) (tree_find t rest)).
Proof.
  induction f as [|f IH]; intros u t H rest Hrest; [discriminate|].
  cbn [extract] in H.
  destruct (N.ltb_spec u (v_n V)) as [Hlt|Hge]; cbn [negb] in H; [|discriminate].
  change (v_n V) with n in Hlt.
  rewrite lookup_loop_unfold. rewrite (ph_leaf _ _ Ph u Hlt). cbn [bind].
  unfold V in H. rewrite view_leaves in H. fold V in H.
  destruct (nthb (lg_leaves L) u) eqn:Elf.
  - injection H as <-.
    destruct (ph_link _ _ Ph u Hlt Elf) as (tpos & Elk & _ & _ & _ & Hm).
    rewrite Elk. cbn [bind]. destruct (Hm rest (bytes_ok_forall _ Hrest)) as [Hm1 _].
    rewrite Hm1. cbn [bind]. rewrite tree_find_leaf. fold V.
    destruct (key_eqb rest (suffix_at V u)); [|reflexivity].
    rewrite (ph_rank _ _ Ph u) by (fold n; lia). reflexivity.
  - destruct (scan_children V (extract f V) bytes256 _ u) as [cs|] eqn:Es; [|discriminate].
    injection H as <-. destruct rest as [|b rest'].
    + rewrite (ph_term _ _ Ph u Hlt). cbn [bind]. rewrite tree_find_node_nil.
      rewrite vget_of_list. fold (nthb (lg_terms L) u). destruct (nthb (lg_terms L) u); [|reflexivity].
      rewrite (ph_rank _ _ Ph u) by (fold n; lia). reflexivity.
    + apply bytes_ok_cons in Hrest. destruct Hrest as [Hb Hrest'].
      rewrite tree_find_node.
      pose proof (scan_find V (extract f V) _ u bytes256 cs Es bytes256_nodup b (proj2 (bytes256_in b) Hb)) as Hsf.
      unfold V in Hsf. rewrite (view_code L b Hb), !view_units in Hsf. fold V in Hsf.
      destruct Hsf as [Hc Hsf]. change (v_n V) with n in Hc.
      rewrite (child_step u b Hlt Elf Hb Hc).
      cbn [bind].
      destruct (snd (nthu (lg_units L) (N.lxor (fst (nthu (lg_units L) u)) (code_of L b))) =? u).
      * destruct Hsf as (t' & Et' & Hf). rewrite Hf. apply IH; assumption.
      * rewrite Hsf. reflexivity.
Qed.
End Sim.

(* ------------------------------------------------------------------ tree_find against keys_of / nodes_of *)
Lemma keys_go_fst b q' : forall cs, In (b :: q') (keys_go cs) -> In b (map fst cs).
Proof.
  induction cs as [|[b0 c0] r IH]; intros H; [contradiction|].
  rewrite keys_go_cons in H. apply in_app_or in H. cbn [map fst]. destruct H as [H|H].
  - apply in_map_iff in H. destruct H as (x & E & _). injection E as -> _. left; reflexivity.
  - right. apply IH. exact H.
Qed.

Lemma find_keys V : forall t, tsound V t -> forall q, tree_find t q <> None <-> In q (keys_of t).
Proof.
  apply (tree_ind2
    (fun t => tsound V t -> forall q, tree_find t q <> None <-> In q (keys_of t))
    (fun cs => forall u, ksound V u cs -> NoDup (map fst cs) ->
               forall b q', find_in b q' cs <> None <-> In (b :: q') (keys_go cs))).
  - intros u s _ q. rewrite tree_find_leaf. cbn [keys_of In].
    destruct (key_eqb q s) eqn:E.
    + apply key_eqb_eq in E. split; [auto|discriminate].
    + split; [congruence|]. intros [H|[]]. subst q.
      assert (key_eqb s s = true) by (apply key_eqb_eq; reflexivity). congruence.
  - intros u tm cs IH Hs q. rewrite tsound_node in Hs. destruct Hs as (_ & _ & _ & Hnd & Hk).
    rewrite keys_of_node. destruct q as [|b q'].
    + rewrite tree_find_node_nil. destruct tm; cbn [app].
      * split; [left; reflexivity|discriminate].
      * split; [congruence|]. intros H. exfalso.
        assert (forall cs0, ~ In [] (keys_go cs0)); [|eapply H0; exact H].
        induction cs0 as [|[b0 c0] r IHr]; [intros []|].
        rewrite keys_go_cons. intros Hin. apply in_app_or in Hin. destruct Hin as [Hin|Hin]; [|auto].
        apply in_map_iff in Hin. destruct Hin as (x & E & _). discriminate.
    + rewrite tree_find_node. rewrite (IH u Hk Hnd b q'). destruct tm; cbn [app In]; [|tauto].
      split; [auto|]. intros [H|H]; [discriminate|exact H].
  - intros u _ _ b q'. cbn. tauto.
  - intros b0 c0 r IHc IHr u Hk Hnd b q'. rewrite ksound_cons in Hk. destruct Hk as [(_ & _ & _ & Hs) Hk].
    cbn [map fst] in Hnd. inversion Hnd as [|? ? Hni Hnd']; subst.
    rewrite find_in_cons, keys_go_cons. rewrite in_app_iff. destruct (N.eqb_spec b b0) as [->|Hne].
    + rewrite (IHc Hs q'). split.
      * intros H. left. apply in_map. exact H.
      * intros [H|H].
        -- apply in_map_iff in H. destruct H as (x & E & Hx). injection E as ->. exact Hx.
        -- exfalso. apply Hni. eapply keys_go_fst. exact H.
    + rewrite (IHr u Hk Hnd' b q'). split; [auto|]. intros [H|H]; [|exact H].
      apply in_map_iff in H. destruct H as (x & E & _). congruence.
Qed.

Lemma find_in_nodes : forall t q u, tree_find t q = Some u -> In u (nodes_of t).
Proof.
  apply (tree_ind2
    (fun t => forall q u, tree_find t q = Some u -> In u (nodes_of t))
    (fun cs => forall b q' u, find_in b q' cs = Some u -> In u (nodes_go cs))).
  - intros u s q u'. rewrite tree_find_leaf. destruct (key_eqb q s); [|discriminate].
    intros E. injection E as <-. left; reflexivity.
  - intros u tm cs IH q u'. rewrite nodes_of_node. destruct q as [|b q'].
    + rewrite tree_find_node_nil. destruct tm; [|discriminate]. intros E. injection E as <-. left; reflexivity.
    + rewrite tree_find_node. intros H. right. eapply IH. exact H.
  - intros b q' u H. discriminate.
  - intros b0 c0 r IHc IHr b q' u. rewrite find_in_cons, nodes_go_cons, in_app_iff.
    destruct (b =? b0); intros H; [left; eapply IHc; exact H|right; eapply IHr; exact H].
Qed.
Lemma find_in_nodes_go : forall cs b q' u, find_in b q' cs = Some u -> In u (nodes_go cs).
Proof.
  induction cs as [|[b0 c0] r IH]; intros b q' u H; [discriminate|].
  rewrite find_in_cons in H. rewrite nodes_go_cons, in_app_iff.
  destruct (b =? b0); [left; eapply find_in_nodes; exact H|right; eapply IH; exact H].
Qed.

Lemma find_inj : forall t, NoDup (nodes_of t) ->
  forall k k' u, tree_find t k = Some u -> tree_find t k' = Some u -> k = k'.
Proof.
  apply (tree_ind2
    (fun t => NoDup (nodes_of t) -> forall k k' u, tree_find t k = Some u -> tree_find t k' = Some u -> k = k')
    (fun cs => NoDup (nodes_go cs) -> forall b q b' q' u,
               find_in b q cs = Some u -> find_in b' q' cs = Some u -> b :: q = b' :: q')).
  - intros u s _ k k' u'. rewrite !tree_find_leaf.
    destruct (key_eqb k s) eqn:E1; [|discriminate]. destruct (key_eqb k' s) eqn:E2; [|discriminate].
    apply key_eqb_eq in E1, E2. congruence.
  - intros u tm cs IH Hnd k k' u'. rewrite nodes_of_node in Hnd. inversion Hnd as [|? ? Hni Hnd']; subst.
    destruct k as [|b q], k' as [|b' q']; rewrite ?tree_find_node, ?tree_find_node_nil.
    + reflexivity.
    + destruct tm; [|discriminate]. intros E H. injection E as <-. exfalso. apply Hni.
      eapply find_in_nodes_go. exact H.
    + destruct tm; [|intros _; discriminate]. intros H E. injection E as <-. exfalso. apply Hni.
      eapply find_in_nodes_go. exact H.
    + apply IH. exact Hnd'.
  - intros _ b q b' q' u H. discriminate.
  - intros b0 c0 r IHc IHr Hnd b q b' q' u. rewrite nodes_go_cons in Hnd. rewrite !find_in_cons.
    destruct (nodup_app_inv _ _ Hnd) as (Hnd1 & Hnd2 & Hdisj).
    destruct (N.eqb_spec b b0) as [->|Hne], (N.eqb_spec b' b0) as [->|Hne'].
    + intros H1 H2. f_equal. eapply IHc; eauto.
    + intros H1 H2. exfalso. eapply Hdisj; [eapply find_in_nodes; exact H1|eapply find_in_nodes_go; exact H2].
    + intros H1 H2. exfalso. eapply Hdisj; [eapply find_in_nodes; exact H2|eapply find_in_nodes_go; exact H1].
    + apply IHr. exact Hnd2.
Qed.

(* a key-ending node is in range and has its terminal flag set *)
Lemma find_term V : forall t, tsound V t -> terms_okb V t = true ->
  forall q u, tree_find t q = Some u -> u < v_n V /\ vget (v_terms V) u false = true.
Proof.
  apply (tree_ind2
    (fun t => tsound V t -> terms_okb V t = true ->
              forall q u, tree_find t q = Some u -> u < v_n V /\ vget (v_terms V) u false = true)
    (fun cs => forall u0, ksound V u0 cs -> terms_go V cs = true ->
               forall b q' u, find_in b q' cs = Some u -> u < v_n V /\ vget (v_terms V) u false = true)).
  - intros u s Hs Ht q u'. rewrite tree_find_leaf. destruct (key_eqb q s); [|discriminate].
    intros E. injection E as <-. cbn [tsound] in Hs. cbn [terms_okb] in Ht. tauto.
  - intros u tm cs IH Hs Ht q u'. rewrite tsound_node in Hs. destruct Hs as (Hu & _ & Htm & _ & Hk).
    rewrite terms_okb_node in Ht. destruct q as [|b q'].
    + rewrite tree_find_node_nil. destruct tm; [|discriminate]. intros E. injection E as <-. auto.
    + rewrite tree_find_node. apply (IH u Hk Ht).
  - intros u0 _ _ b q' u H. discriminate.
  - intros b0 c0 r IHc IHr u0 Hk Ht b q' u. rewrite ksound_cons in Hk. destruct Hk as [(_ & _ & _ & Hs) Hk].
    rewrite terms_go_cons in Ht. apply andb_prop in Ht. destruct Ht as [Ht1 Ht2].
    rewrite find_in_cons. destruct (b =? b0); [apply (IHc Hs Ht1)|apply (IHr u0 Hk Ht2)].
Qed.

Lemma tsound_nodes_lt V : forall t, tsound V t -> forall x, In x (nodes_of t) -> x < v_n V.
Proof.
  apply (tree_ind2
    (fun t => tsound V t -> forall x, In x (nodes_of t) -> x < v_n V)
    (fun cs => forall u0, ksound V u0 cs -> forall x, In x (nodes_go cs) -> x < v_n V)).
  - intros u s Hs x [<-|[]]. cbn [tsound] in Hs. tauto.
  - intros u tm cs IH Hs x. rewrite tsound_node in Hs. destruct Hs as (Hu & _ & _ & _ & Hk).
    rewrite nodes_of_node. intros [<-|Hx]; [exact Hu|]. eapply IH; eauto.
  - intros u0 _ x [].
  - intros b0 c0 r IHc IHr u0 Hk x. rewrite ksound_cons in Hk. destruct Hk as [(_ & _ & _ & Hs) Hk].
    rewrite nodes_go_cons, in_app_iff. intros [Hx|Hx]; [apply (IHc Hs x Hx)|apply (IHr u0 Hk x Hx)].
Qed.

(* ------------------------------------------------------------------ climbing from a key-ending node *)
Lemma climb_zero fuel P acc : climb fuel P 0 acc = Ok acc.
Proof. destruct fuel; reflexivity. Qed.
Lemma climb_S f P npos acc : climb (S f) P npos acc =
  if npos =? 0 then Ok acc else
  do ppos <- bc_check (t_bc P) npos;
  do base <- bc_base (t_bc P) ppos;
  do ch <- ct_get_char (t_table P) (N.land (N.lxor base npos) 255);
  climb f P ppos (ch :: acc).
Proof. reflexivity. Qed.

Lemma land_255 x : x < 256 -> N.land x 255 = x.
Proof.
  intros H. change 255 with (N.ones 8). rewrite N.land_ones. apply N.mod_small. exact H.
Qed.

Section Climb.
Variable L : logical.
Variable K : list key.
Variable P : trie.
Hypothesis HF : lwf_facts L K.
Hypothesis Ph : phys_ok L P.
Let V := view_of L.
Let n := lenN (lg_units L).

Definition sfx_at (u : N) : key := if nthb (lg_leaves L) u then suffix_at (view_of L) u else [].

Lemma climb_step u0 b c fuel acc :
  u0 < n -> nthb (lg_leaves L) u0 = false -> b < 256 ->
  c = N.lxor (fst (nthu (lg_units L) u0)) (code_of L b) -> c < n ->
  snd (nthu (lg_units L) c) = u0 -> c <> 0 ->
  climb (S fuel) P c acc = climb fuel P u0 (b :: acc).
Proof.
  intros Hu0 Hlf Hb Ec Hc Hchk Hnz. rewrite climb_S.
  destruct (N.eqb_spec c 0) as [E|_]; [contradiction|].
  rewrite (ph_check _ _ Ph c Hc), Hchk. cbn [bind].
  rewrite (ph_base _ _ Ph u0 Hu0 Hlf). cbn [bind].
  destruct (perm_code L K HF b Hb) as [Hcd Hch].
  assert (E : N.land (N.lxor (fst (nthu (lg_units L) u0)) c) 255 = code_of L b).
  { rewrite Ec, <- N.lxor_assoc, N.lxor_nilpotent, N.lxor_0_l. apply land_255. exact Hcd. }
  rewrite E, (ph_char _ _ Ph _ Hcd), Hch. reflexivity.
Qed.

Lemma climb_tree : forall t, tsound V t -> NoDup (nodes_of t) -> ~ In 0 (tl (nodes_of t)) ->
  forall k u, tree_find t k = Some u ->
  exists path chain, k = path ++ sfx_at u /\ length chain = length path /\ NoDup chain /\
    incl chain (tl (nodes_of t)) /\
    forall fuel acc, climb (length path + fuel) P u acc = climb fuel P (root_of t) (path ++ acc).
Proof.
  apply (tree_ind2
    (fun t => tsound V t -> NoDup (nodes_of t) -> ~ In 0 (tl (nodes_of t)) ->
      forall k u, tree_find t k = Some u ->
      exists path chain, k = path ++ sfx_at u /\ length chain = length path /\ NoDup chain /\
        incl chain (tl (nodes_of t)) /\
        forall fuel acc, climb (length path + fuel) P u acc = climb fuel P (root_of t) (path ++ acc))
    (fun cs => forall u0, ksound V u0 cs -> u0 < n -> nthb (lg_leaves L) u0 = false ->
      NoDup (nodes_go cs) -> ~ In 0 (nodes_go cs) ->
      forall b q u, find_in b q cs = Some u ->
      exists path chain, b :: q = path ++ sfx_at u /\ length chain = length path /\ NoDup chain /\
        incl chain (nodes_go cs) /\
        forall fuel acc, climb (length path + fuel) P u acc = climb fuel P u0 (path ++ acc))).
  - intros u0 s Hs _ _ k u. cbn [tsound] in Hs. destruct Hs as (_ & Hlf & ->).
    rewrite tree_find_leaf. destruct (key_eqb k (suffix_at V u0)) eqn:E; [|discriminate].
    intros E'. injection E' as <-. apply key_eqb_eq in E. exists [], [].
    unfold V in Hlf. rewrite view_leaves in Hlf. unfold sfx_at. rewrite Hlf.
    split; [exact E|]. split; [reflexivity|]. split; [constructor|]. split; [intros x []|].
    intros fuel acc. reflexivity.
  - intros u0 tm cs IH Hs Hnd Hz k u. rewrite tsound_node in Hs. destruct Hs as (Hu0 & Hlf & _ & _ & Hk).
    unfold V in Hlf. rewrite view_leaves in Hlf.
    rewrite nodes_of_node in Hnd, Hz. cbn [tl] in Hz. inversion Hnd as [|? ? _ Hnd']; subst.
    rewrite nodes_of_node. cbn [tl root_of].
    destruct k as [|b q].
    + rewrite tree_find_node_nil. destruct tm; [|discriminate]. intros E. injection E as <-.
      exists [], []. unfold sfx_at. rewrite Hlf.
      split; [reflexivity|]. split; [reflexivity|]. split; [constructor|]. split; [intros x []|].
      intros fuel acc. reflexivity.
    + rewrite tree_find_node. apply (IH u0 Hk Hu0 Hlf Hnd' Hz).
  - intros u0 _ _ _ _ _ b q u H. discriminate.
  - intros b0 c0 r IHc IHr u0 Hk Hu0 Hlf Hnd Hz b q u.
    rewrite ksound_cons in Hk. destruct Hk as [(Hb0 & Hr0 & Hchk & Hs) Hk].
    rewrite nodes_go_cons in Hnd, Hz. destruct (nodup_app_inv _ _ Hnd) as (Hnd1 & Hnd2 & _).
    rewrite find_in_cons, nodes_go_cons. destruct (N.eqb_spec b b0) as [->|Hne].
    + intros Ef.
      assert (Hz1 : ~ In 0 (tl (nodes_of c0))).
      { intros Hin. apply Hz. apply in_or_app. left. rewrite nodes_of_hd. right. exact Hin. }
      destruct (IHc Hs Hnd1 Hz1 q u Ef) as (path' & chain' & Eq & Hlen & Hndc & Hincl & Hcl).
      exists (b0 :: path'), (root_of c0 :: chain').
      split; [cbn [app]; f_equal; exact Eq|]. split; [cbn [length]; f_equal; exact Hlen|].
      split.
      { constructor; [|exact Hndc]. intros Hin. apply Hincl in Hin.
        rewrite nodes_of_hd in Hnd1. inversion Hnd1; auto. }
      split.
      { intros x [<-|Hx]; apply in_or_app; left; rewrite nodes_of_hd; [left; reflexivity|right; apply Hincl; exact Hx]. }
      intros fuel acc. cbn [length].
      replace (S (length path') + fuel)%nat with (length path' + S fuel)%nat by lia.
      rewrite Hcl. cbn [app].
      apply climb_step; try assumption.
      * rewrite Hr0. unfold V. rewrite view_units, (view_code L b0 Hb0). reflexivity.
      * apply (tsound_root_lt V c0 Hs).
      * unfold V in Hchk. rewrite view_units in Hchk. exact Hchk.
      * intros E0. apply Hz. apply in_or_app. left. rewrite nodes_of_hd, E0. left; reflexivity.
    + intros Ef.
      assert (Hz2 : ~ In 0 (nodes_go r)) by (intros Hin; apply Hz; apply in_or_app; right; exact Hin).
      destruct (IHr u0 Hk Hu0 Hlf Hnd2 Hz2 b q u Ef) as (path & chain & Eq & Hlen & Hndc & Hincl & Hcl).
      exists path, chain. split; [exact Eq|]. split; [exact Hlen|]. split; [exact Hndc|].
      split; [|exact Hcl]. intros x Hx. apply in_or_app. right. apply Hincl. exact Hx.
Qed.
End Climb.

Lemma valid_keys_bytes K : valid_keys K = true -> forall k, In k K -> bytes_ok k = true.
Proof.
  unfold valid_keys. destruct K as [|k0 K']; [discriminate|]. intros H.
  apply andb_prop in H. destruct H as [_ H]. rewrite forallb_forall in H. exact H.
Qed.
Lemma spec_member_in K q : spec_member K q = true <-> In q K.
Proof.
  unfold spec_member. rewrite existsb_exists. split.
  - intros (x & Hx & E). apply key_eqb_eq in E. subst. exact Hx.
  - intros H. exists q. split; [exact H|]. apply key_eqb_eq. reflexivity.
Qed.
Lemma lk_some_bytes P k i : lk P k = Some i -> bytes_ok k = true.
Proof. unfold lk. destruct (bytes_ok k); [reflexivity|discriminate]. Qed.

(* everything the three theorems need about one well-formed dictionary *)
Record ctx (L : logical) (P : trie) (K : list key) (T : tree) : Prop := mkCtx {
  cx_ph : phys_ok L P;
  cx_lf : lwf_facts L K;
  cx_tree : the_tree L = Some T;
  cx_root : root_of T = 0;
  cx_sound : tsound (view_of L) T;
  cx_keys : keys_of T = K;
  cx_nd : NoDup (nodes_of T);
  cx_tok : terms_okb (view_of L) T = true;
  cx_ct : count_true (lg_terms L) = lenN K;
  cx_lk : forall q, bytes_ok q = true ->
          lookup P q = Ok (option_map (rank_of (lg_terms L)) (tree_find T q)) /\
          lk P q = option_map (rank_of (lg_terms L)) (tree_find T q)
}.

Lemma ctx_find L P K T (C : ctx L P K T) k i : lk P k = Some i ->
  exists u, tree_find T k = Some u /\ i = rank_of (lg_terms L) u /\
            u < lenN (lg_units L) /\ nthb (lg_terms L) u = true.
Proof.
  intros H. pose proof (lk_some_bytes _ _ _ H) as Hb.
  destruct (cx_lk _ _ _ _ C k Hb) as [_ E]. rewrite E in H.
  destruct (tree_find T k) as [u|] eqn:Ef; [|discriminate]. cbn [option_map] in H. injection H as <-.
  exists u. split; [reflexivity|]. split; [reflexivity|].
  destruct (find_term _ _ (cx_sound _ _ _ _ C) (cx_tok _ _ _ _ C) _ _ Ef) as [H1 H2].
  rewrite view_terms in H2. split; [exact H1|exact H2].
Qed.

Lemma u64max_big : 2^60 < u64max. Proof. reflexivity. Qed.

Section Main.
Hypothesis Hphys : PhysSpec.

Theorem lookup_node_spec : LookupNodeSpec.
Proof.
  intros v L P K T Hwf HT q Hq.
  pose proof (Hphys v L P K Hwf) as Ph. destruct Hwf as [_ Hwf]. apply lwf_b_facts in Hwf.
  unfold lookup. unfold the_tree in HT.
  eapply lookup_sim; eassumption.
Qed.

Lemma make_ctx v L P K : wf_for v L P K -> exists T, ctx L P K T.
Proof.
  intros Hwf. pose proof (Hphys v L P K Hwf) as Ph.
  pose proof (lwf_b_facts _ _ (proj2 Hwf)) as HF.
  destruct (lf_tree _ _ HF) as (T & HT & Hkeys & Hnd & Htok & Hct & _ & _).
  destruct (extract_sound _ _ _ _ HT) as [Hroot Hs].
  exists T. constructor; try assumption.
  intros q Hq. pose proof (lookup_node_spec v L P K T Hwf HT q Hq) as E.
  split; [exact E|]. unfold lk. rewrite Hq, E. reflexivity.
Qed.

Theorem lookup_spec : LookupSpec.
Proof.
  intros v L P K Hwf. destruct (make_ctx v L P K Hwf) as (T & C).
  pose proof (cx_lf _ _ _ _ C) as HF.
  split; [|split].
  - intros q Hq. destruct (cx_lk _ _ _ _ C q Hq) as [E1 E2]. rewrite E1, E2. reflexivity.
  - split; [|split].
    + intros k. split.
      * intros Hin. pose proof (valid_keys_bytes K (lf_valid _ _ HF) k Hin) as Hb.
        destruct (cx_lk _ _ _ _ C k Hb) as [_ E]. rewrite E.
        rewrite <- (cx_keys _ _ _ _ C) in Hin.
        apply (find_keys _ _ (cx_sound _ _ _ _ C)) in Hin.
        destruct (tree_find T k) as [u|]; [|congruence]. eexists. reflexivity.
      * intros (i & Hi). destruct (ctx_find _ _ _ _ C k i Hi) as (u & Ef & _).
        rewrite <- (cx_keys _ _ _ _ C). apply (find_keys _ _ (cx_sound _ _ _ _ C)). congruence.
    + intros k i Hi. destruct (ctx_find _ _ _ _ C k i Hi) as (u & _ & -> & _ & Ht).
      fold (lenN K). rewrite <- (cx_ct _ _ _ _ C). apply rank_of_lt. exact Ht.
    + intros k k' i Hi Hi'.
      destruct (ctx_find _ _ _ _ C k i Hi) as (u & Ef & Er & _ & Ht).
      destruct (ctx_find _ _ _ _ C k' i Hi') as (u' & Ef' & Er' & _ & Ht').
      assert (u = u') by (eapply rank_of_inj; eauto; congruence). subst u'.
      eapply find_inj; [exact (cx_nd _ _ _ _ C)|exact Ef|exact Ef'].
  - intros q Hq. destruct (cx_lk _ _ _ _ C q Hq) as [_ E]. rewrite E, spec_member_in.
    rewrite <- (cx_keys _ _ _ _ C), <- (find_keys _ _ (cx_sound _ _ _ _ C)).
    destruct (tree_find T q); cbn [option_map]; split; congruence.
Qed.

Theorem decode_spec : DecodeSpec.
Proof.
  intros v L P K Hwf. destruct (make_ctx v L P K Hwf) as (T & C).
  pose proof (cx_lf _ _ _ _ C) as HF. pose proof (cx_ph _ _ _ _ C) as Ph.
  assert (Hnk : t_nkeys P = lenN K) by (rewrite (ph_nkeys _ _ Ph); apply (lf_nkeys _ _ HF)).
  split; [exact Hnk|]. split.
  - intros k i Hi. destruct (ctx_find _ _ _ _ C k i Hi) as (u & Ef & -> & Hu & Ht).
    assert (Hlt : rank_of (lg_terms L) u < lenN K).
    { rewrite <- (cx_ct _ _ _ _ C). apply rank_of_lt. exact Ht. }
    unfold decode. rewrite Hnk. destruct (N.leb_spec (lenN K) (rank_of (lg_terms L) u)) as [Hle|_]; [lia|].
    destruct (ph_select _ _ Ph (rank_of (lg_terms L) u)) as (p & Ep & Hp & Htp & Hrp).
    { rewrite (cx_ct _ _ _ _ C). exact Hlt. }
    assert (p = u) by (eapply rank_of_inj; eauto). subst p.
    rewrite Ep. cbn [bind]. rewrite (ph_leaf _ _ Ph u Hu). cbn [bind].
    assert (Hz : ~ In 0 (tl (nodes_of T))).
    { pose proof (cx_nd _ _ _ _ C) as Hnd. rewrite nodes_of_hd, (cx_root _ _ _ _ C) in Hnd.
      inversion Hnd; assumption. }
    destruct (climb_tree L K P HF Ph T (cx_sound _ _ _ _ C) (cx_nd _ _ _ _ C) Hz k u Ef)
      as (path & chain & Ek & Hlen & Hndc & Hincl & Hcl).
    assert (Hpl : (length path <= N.to_nat (lenN (lg_units L)))%nat).
    { rewrite <- Hlen. apply nodup_bounded_length; [exact Hndc|].
      intros x Hx. apply Hincl in Hx.
      apply (tsound_nodes_lt _ T (cx_sound _ _ _ _ C)). rewrite nodes_of_hd. right. exact Hx. }
    assert (Hclimb : climb (S (N.to_nat (t_num_units P))) P u [] = Ok path).
    { rewrite (ph_units _ _ Ph).
      replace (S (N.to_nat (lenN (lg_units L))))
        with (length path + (S (N.to_nat (lenN (lg_units L))) - length path))%nat by lia.
      rewrite Hcl, (cx_root _ _ _ _ C), climb_zero, app_nil_r. reflexivity. }
    unfold sfx_at in Ek.
    destruct (nthb (lg_leaves L) u) eqn:Elf.
    + destruct (ph_link _ _ Ph u Hu Elf) as (tpos & Elk & Hsmall & Hiff & Hdec & _).
      rewrite Elk. cbn [bind]. rewrite Hclimb. cbn [bind].
      pose proof u64max_big as Hbig.
      destruct (N.eqb_spec tpos u64max) as [E|_]; [lia|].
      destruct (N.eqb_spec tpos 0) as [E0|E0]; cbn [negb andb].
      * apply Hiff in E0. rewrite E0 in Ek. rewrite Ek, app_nil_r. reflexivity.
      * rewrite Hdec. cbn [bind]. rewrite Ek. reflexivity.
    + cbn [bind]. rewrite Hclimb. cbn [bind]. rewrite N.eqb_refl, andb_false_r.
      rewrite Ek, app_nil_r. reflexivity.
  - intros i Hi. unfold decode. rewrite Hnk. destruct (N.leb_spec (lenN K) i) as [_|Hlt]; [reflexivity|lia].
Qed.
End Main.

Check lookup_node_spec.
Print Assumptions lookup_node_spec.
Check lookup_spec.
Print Assumptions lookup_spec.
Check decode_spec.
Print Assumptions decode_spec.
