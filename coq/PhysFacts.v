(* PhysFacts.v: the packed structure produced by [assemble] answers according to the logical content
   (PhysSpec of IfaceQuery.v), from the component interface statements. *)
From Coq Require Import FMapPositive Lia ZifyN ZifyBool ZifyNat Arith PeanoNat.
From X Require Import Base Arr ArrFacts Consts BitToolsSpec BitToolsGen BitVector CompactVector Dac Tail Trie
                      Spec Iface IfaceDac Wf IfaceQuery.
Local Open Scope N_scope.

Arguments N.mul : simpl never.
Arguments N.add : simpl never.
Arguments N.shiftl : simpl never.
Arguments N.pow : simpl never.
Arguments N.lxor : simpl never.
Arguments N.land : simpl never.

(* ------------------------------------------------------------------ generic helpers *)
Lemma bind_ok_inv {A B} (r : res A) (f : A -> res B) y :
  bind r f = Ok y -> exists a, r = Ok a /\ f a = Ok y.
Proof. destruct r; cbn [bind]; intros H; try discriminate. eauto. Qed.

Lemma lenN_lt_nat {A} (l : list A) (i : N) : i < lenN l -> (N.to_nat i < length l)%nat.
Proof. unfold lenN. lia. Qed.

Lemma forallb_idx_spec {A} (f : N -> A -> bool) (d : A) : forall l k,
  forallb_idx f l k = true -> forall i, i < lenN l -> f (k + i) (nth (N.to_nat i) l d) = true.
Proof.
  induction l as [|x t IH]; intros k H i Hi; unfold lenN in *; cbn [length] in Hi; [lia|].
  cbn [forallb_idx] in H. apply andb_prop in H. destruct H as [H1 H2].
  destruct (N.eq_dec i 0) as [->|Hne].
  - rewrite N.add_0_r. exact H1.
  - replace (N.to_nat i) with (S (N.to_nat (i - 1))) by lia. cbn [nth].
    replace (k + i) with (k + 1 + (i - 1)) by lia. apply IH; [exact H2|lia].
Qed.

Lemma key_eqb_eq : forall a b, key_eqb a b = true <-> a = b.
Proof.
  induction a as [|x a IH]; intros [|y b]; cbn [key_eqb]; split; intros H; try congruence; try discriminate.
  - apply andb_prop in H. destruct H as [H1 H2]. apply N.eqb_eq in H1. apply IH in H2. congruence.
  - inversion H; subst. rewrite N.eqb_refl. cbn [andb]. apply IH. reflexivity.
Qed.

Lemma list_eqb_eq {A} (eq : A -> A -> bool) :
  (forall x y, eq x y = true -> x = y) -> forall a b, list_eqb eq a b = true -> a = b.
Proof.
  intros Heq. induction a as [|x a IH]; intros [|y b] H; cbn [list_eqb] in H; try discriminate; [reflexivity|].
  apply andb_prop in H. destruct H as [H1 H2]. f_equal; auto.
Qed.

(* ------------------------------------------------------------------ maps built by fold_left *)
Section FoldMap.
Context {A B : Type} (kf : A -> N) (vf : A -> B).
Definition fm (l : list A) (m : PM.t B) : PM.t B :=
  fold_left (fun m a => PM.add (N.succ_pos (kf a)) (vf a) m) l m.

Lemma fm_notin u : forall l m, (forall a, In a l -> kf a <> u) ->
  PM.find (N.succ_pos u) (fm l m) = PM.find (N.succ_pos u) m.
Proof.
  induction l as [|a l IH]; intros m H; [reflexivity|].
  unfold fm in *. cbn [fold_left]. rewrite IH by (intros; apply H; right; assumption).
  apply PM.gso. intros E. apply succ_pos_inj in E. symmetry in E. revert E. apply H. left; reflexivity.
Qed.

Lemma fm_find u b : forall l m, PM.find (N.succ_pos u) (fm l m) = Some b ->
  (exists a, In a l /\ kf a = u /\ vf a = b) \/ PM.find (N.succ_pos u) m = Some b.
Proof.
  induction l as [|a l IH]; intros m H; [right; exact H|].
  unfold fm in *. cbn [fold_left] in H. apply IH in H. destruct H as [(a' & H1 & H2 & H3)|H].
  - left. exists a'. split; [right; exact H1|auto].
  - destruct (N.eq_dec (kf a) u) as [E|E].
    + rewrite E, PM.gss in H. left. exists a. split; [left; reflexivity|]. split; [exact E|congruence].
    + rewrite PM.gso in H; [right; exact H|]. intros E'. apply succ_pos_inj in E'. congruence.
Qed.

Lemma fm_in u : forall l m a, In a l -> kf a = u -> exists b, PM.find (N.succ_pos u) (fm l m) = Some b.
Proof.
  induction l as [|x l IH]; intros m a Hin Hk; [contradiction|].
  unfold fm in *. cbn [fold_left].
  destruct (in_dec N.eq_dec u (map kf l)) as [Hi|Hni].
  - apply in_map_iff in Hi. destruct Hi as (a' & E & Hi). eapply IH; eauto.
  - destruct Hin as [->|Hin].
    + fold (fm l (PM.add (N.succ_pos (kf a)) (vf a) m)). rewrite fm_notin.
      * rewrite Hk, PM.gss. eauto.
      * intros a' Ha' E. apply Hni. apply in_map_iff. eauto.
    + exfalso. apply Hni. apply in_map_iff. eauto.
Qed.

(* with unique keys the map is the association list *)
Lemma fm_unique u l a :
  (forall a', In a' l -> kf a' = u -> vf a' = vf a) -> In a l -> kf a = u ->
  PM.find (N.succ_pos u) (fm l (PM.empty B)) = Some (vf a).
Proof.
  intros Hu Hin Hk. destruct (fm_in u l (PM.empty B) a Hin Hk) as (b & Hb).
  rewrite Hb. f_equal. apply fm_find in Hb. destruct Hb as [(a' & H1 & H2 & H3)|Hb].
  - rewrite <- H3. apply Hu; assumption.
  - rewrite PM.gempty in Hb. discriminate.
Qed.
Lemma fm_none u l : (forall a, In a l -> kf a <> u) ->
  PM.find (N.succ_pos u) (fm l (PM.empty B)) = None.
Proof. intros H. rewrite fm_notin by exact H. apply PM.gempty. Qed.
End FoldMap.

Lemma asg_map_fm asg : asg_map asg = fm fst snd asg (PM.empty N).
Proof. reflexivity. Qed.
Lemma suf_map_fm sufs : suf_map sufs = fm snd fst sufs (PM.empty key).
Proof. reflexivity. Qed.
Lemma set_of_fm l : set_of l = fm (fun x : N => x) (fun _ => tt) l (PM.empty Datatypes.unit).
Proof. reflexivity. Qed.

Lemma in_set_spec l u : in_set (set_of l) u = true <-> In u l.
Proof.
  unfold in_set. rewrite set_of_fm. split.
  - destruct (PM.find _ _) eqn:E; [|discriminate]. intros _.
    apply fm_find in E. destruct E as [(a & H1 & H2 & _)|E]; [subst; exact H1|].
    rewrite PM.gempty in E. discriminate.
  - intros H. destruct (fm_in (fun x : N => x) (fun _ => tt) u l (PM.empty _) u H eq_refl) as (b & Hb).
    rewrite Hb. reflexivity.
Qed.

Lemma nodup_fast_fold : forall l ok m,
  fst (fold_left (fun st x => let '(ok, m) := st in
                   match PM.find (N.succ_pos x) m with
                   | Some _ => (false, m)
                   | None => (ok, PM.add (N.succ_pos x) tt m) end) l (ok, m)) = true ->
  ok = true /\ NoDup l /\ forall x, In x l -> PM.find (N.succ_pos x) m = None.
Proof.
  induction l as [|x l IH]; intros ok m H.
  - cbn [fold_left fst] in H. split; [exact H|]. split; [constructor|]. intros x [].
  - cbn [fold_left] in H. destruct (PM.find (N.succ_pos x) m) eqn:E.
    + apply IH in H. destruct H as [H _]. discriminate.
    + apply IH in H. destruct H as (H1 & H2 & H3). split; [exact H1|]. split.
      * constructor; [|exact H2]. intros Hin. specialize (H3 x Hin). rewrite PM.gss in H3. discriminate.
      * intros y [<-|Hy]; [exact E|]. specialize (H3 y Hy).
        destruct (N.eq_dec y x) as [->|Hne]; [exact E|].
        rewrite PM.gso in H3; [exact H3|]. intros E'. apply succ_pos_inj in E'. congruence.
Qed.

Lemma nodup_fast_NoDup l : nodup_fast l = true -> NoDup l.
Proof. unfold nodup_fast. intros H. apply nodup_fast_fold in H. tauto. Qed.

(* ------------------------------------------------------------------ assign_units *)
Lemma assign_units_length m : forall units k, length (assign_units m units k) = length units.
Proof. induction units as [|u t IH]; intros k; cbn [assign_units length]; [reflexivity|]. rewrite IH. reflexivity. Qed.

Lemma assign_units_nth m : forall units k i, i < lenN units ->
  nthu (assign_units m units k) i =
  match PM.find (N.succ_pos (k + i)) m with
  | Some tp => (tp, snd (nthu units i)) | None => nthu units i end.
Proof.
  unfold nthu.
  induction units as [|u t IH]; intros k i Hi; unfold lenN in Hi; cbn [length] in Hi; [lia|].
  cbn [assign_units]. destruct (N.eq_dec i 0) as [->|Hne].
  - rewrite N.add_0_r. reflexivity.
  - replace (N.to_nat i) with (S (N.to_nat (i - 1))) by lia. cbn [nth].
    rewrite IH by (unfold lenN; lia). replace (k + 1 + (i - 1)) with (k + i) by lia. reflexivity.
Qed.

Lemma assign_units_frees m : forall units k j,
  count_free_spec (assign_units m units k) j = count_free_spec units j.
Proof.
  induction units as [|u t IH]; intros k j; cbn [assign_units count_free_spec]; [reflexivity|].
  rewrite IH. destruct (PM.find _ m); reflexivity.
Qed.

(* ------------------------------------------------------------------ reading lwf_b *)
Lemma suf_okb_ok bin s : suf_okb bin s = true -> suf_ok bin s.
Proof.
  unfold suf_okb, suf_ok. intros H. apply andb_prop in H. destruct H as [H H3].
  apply andb_prop in H. destruct H as [H1 H2]. split; [|split].
  - intros ->. discriminate.
  - apply Forall_forall. intros b Hb. rewrite forallb_forall in H2. apply N.ltb_lt. auto.
  - intros ->. cbn [orb] in H3. intros Hin. apply negb_true_iff in H3.
    assert (existsb (N.eqb 0) s = true); [|congruence].
    apply existsb_exists. exists 0. split; [exact Hin|reflexivity].
Qed.

Record lwf_facts (L : logical) (K : list key) : Prop := mkLwf {
  lf_n : lenN (lg_units L) < 2^56;
  lf_leaves : length (lg_leaves L) = length (lg_units L);
  lf_terms : length (lg_terms L) = length (lg_units L);
  lf_units : units_ok (lg_units L);
  lf_perm : perm_okb (lg_tbl L) = true;
  lf_valid : valid_keys K = true;
  lf_alpha : lg_alpha L = spec_alphabet K;
  lf_maxlen : lg_maxlen L = spec_max_length K;
  lf_nkeys : lg_nkeys L = lenN K;
  lf_sufs : forall s u, In (s, u) (lg_sufs L) ->
            suf_ok (lg_bin L) s /\ u < lenN (lg_units L) /\ nthb (lg_leaves L) u = true;
  lf_sufs_nd : NoDup (map snd (lg_sufs L));
  lf_sufs_sz : fold_right (fun sn acc => lenN (fst sn) + 1 + acc) 1 (lg_sufs L) < 2^60;
  lf_nosuf : forall u, u < lenN (lg_units L) -> nthb (lg_leaves L) u = true ->
             ~ In u (map snd (lg_sufs L)) -> fst (nthu (lg_units L) u) = 0;
  lf_tree : exists T, the_tree L = Some T /\
            keys_of T = K /\ NoDup (nodes_of T) /\ terms_okb (view_of L) T = true /\
            count_true (lg_terms L) = lenN K /\ minimal T = true /\
            forallb_idx (fun i u => if in_set (set_of (nodes_of T)) i then negb (snd u =? i) else (snd u =? i))
                        (lg_units L) 0 = true
}.

Lemma vget_of_list {A} (l : list A) (i : N) (d : A) : vget (of_list l) i d = nth (N.to_nat i) l d.
Proof.
  unfold vget. rewrite get_of_list. destruct (nth_error l (N.to_nat i)) eqn:E.
  - symmetry. apply nth_error_nth. exact E.
  - apply nth_error_None in E. symmetry. apply nth_overflow. exact E.
Qed.

Lemma lwf_b_facts L K : lwf_b L K = true -> lwf_facts L K.
Proof.
  unfold lwf_b. intros H.
  apply andb_prop in H. destruct H as [H Htree].
  apply andb_prop in H. destruct H as [H Hnosuf].
  apply andb_prop in H. destruct H as [H Hsz].
  apply andb_prop in H. destruct H as [H Hnd].
  apply andb_prop in H. destruct H as [H Hsufs].
  apply andb_prop in H. destruct H as [H Hnk].
  apply andb_prop in H. destruct H as [H Hml].
  apply andb_prop in H. destruct H as [H Hal].
  apply andb_prop in H. destruct H as [H Hvk].
  apply andb_prop in H. destruct H as [H Hperm].
  apply andb_prop in H. destruct H as [H Hunits].
  apply andb_prop in H. destruct H as [H Hterms].
  apply andb_prop in H. destruct H as [Hn Hleaves].
  apply N.ltb_lt in Hn. apply N.eqb_eq in Hleaves, Hterms, Hml, Hnk. apply N.ltb_lt in Hsz.
  unfold lenN in Hleaves, Hterms.
  constructor.
  - exact Hn.
  - lia.
  - lia.
  - apply Forall_forall. intros u Hu. rewrite forallb_forall in Hunits. specialize (Hunits u Hu).
    apply andb_prop in Hunits. destruct Hunits as [H1 H2]. apply N.ltb_lt in H1, H2. split; assumption.
  - exact Hperm.
  - exact Hvk.
  - apply (list_eqb_eq N.eqb); [|exact Hal]. intros x y E. apply N.eqb_eq. exact E.
  - exact Hml.
  - exact Hnk.
  - intros s u Hin. rewrite forallb_forall in Hsufs. specialize (Hsufs _ Hin). cbn [fst snd] in Hsufs.
    apply andb_prop in Hsufs. destruct Hsufs as [Hs H3]. apply andb_prop in Hs. destruct Hs as [H1 H2].
    split; [apply suf_okb_ok; exact H1|]. split; [apply N.ltb_lt; exact H2|].
    cbn [view_of v_leaves] in H3. rewrite vget_of_list in H3. exact H3.
  - apply nodup_fast_NoDup. exact Hnd.
  - exact Hsz.
  - intros u Hu Hlf Hni.
    pose proof (forallb_idx_spec _ (0, 0) _ _ Hnosuf u Hu) as Hx. cbn beta in Hx.
    rewrite N.add_0_l in Hx. cbn [view_of v_leaves] in Hx. rewrite vget_of_list in Hx.
    unfold nthb in Hlf. rewrite Hlf in Hx. cbn [negb orb] in Hx.
    apply orb_prop in Hx. destruct Hx as [Hx|Hx].
    + apply in_set_spec in Hx. contradiction.
    + apply N.eqb_eq in Hx. exact Hx.
  - unfold the_tree. destruct (extract _ _ 0) as [T|]; [|discriminate]. exists T. split; [reflexivity|].
    apply andb_prop in Htree. destruct Htree as [H6 H7].
    apply andb_prop in H6. destruct H6 as [H5 H6].
    apply andb_prop in H5. destruct H5 as [H4 H5].
    apply andb_prop in H4. destruct H4 as [H3 H4].
    apply andb_prop in H3. destruct H3 as [H1 H2].
    split; [|split; [|split; [|split; [|split]]]].
    + apply (list_eqb_eq key_eqb); [|exact H1]. intros x y E. apply key_eqb_eq. exact E.
    + apply nodup_fast_NoDup. exact H2.
    + exact H4.
    + apply N.eqb_eq. exact H5.
    + exact H6.
    + exact H7.
Qed.

Lemma perm_okb_len tbl : perm_okb tbl = true -> lenN tbl = 512.
Proof.
  unfold perm_okb. intros H. apply andb_prop in H. destruct H as [H _].
  apply andb_prop in H. destruct H as [H _]. apply N.eqb_eq. exact H.
Qed.

Lemma map_inj_in {A B} (f : A -> B) (l : list A) :
  NoDup (map f l) -> forall a a', In a l -> In a' l -> f a = f a' -> a = a'.
Proof.
  induction l as [|x l IH]; intros Hnd a a' H1 H2 E; [contradiction|].
  cbn [map] in Hnd. inversion Hnd as [|? ? Hni Hnd']; subst.
  destruct H1 as [H1|H1], H2 as [H2|H2].
  - congruence.
  - subst x. exfalso. apply Hni. rewrite E. apply in_map. exact H2.
  - subst x. exfalso. apply Hni. rewrite <- E. apply in_map. exact H1.
  - eapply IH; eauto.
Qed.

Lemma pow_56_62 : 2^56 < 2^62. Proof. reflexivity. Qed.
Lemma pow_60_64 : 2^60 < 2^64. Proof. reflexivity. Qed.

Section Phys.
Hypothesis Hbuild : BvBuildSpec.
Hypothesis Hget : BvGetSpec.
Hypothesis Hrank : BvRankSpec.
Hypothesis Hsel : BvSelectSpec.
Hypothesis Hbc : BcSpec.
Hypothesis Htail : TailSpec.

Theorem phys_spec : PhysSpec.
Proof.
  intros v L P K [Hasm Hwf]. apply lwf_b_facts in Hwf.
  destruct Hwf as [Hn Hlv Htm Hun Hperm _ _ _ _ Hsufs Hnd Hsz Hnosuf _].
  set (n := lenN (lg_units L)) in *.
  unfold assemble in Hasm. apply bind_ok_inv in Hasm. destruct Hasm as ([tv asg] & Etail & Hasm).
  destruct (negb (forallb (fun a : N * N => fst a <? lenN (lg_units L)) asg)); [discriminate|].
  apply bind_ok_inv in Hasm. destruct Hasm as (terms & Eterms & Hasm).
  apply bind_ok_inv in Hasm. destruct Hasm as (bc & Ebc & Hasm).
  injection Hasm as <-.
  (* ---- tail ---- *)
  assert (Hok : Forall (fun sn : suffix => suf_ok (lg_bin L) (fst sn)) (lg_sufs L)).
  { apply Forall_forall. intros [s u] Hin. cbn [fst]. apply (Hsufs s u Hin). }
  destruct (Htail (lg_bin L) (lg_sufs L) Hok Hnd Hsz)
    as (T & asg' & E' & Hmode & Hsize & Htvsz & Hslot0 & Hdec0 & Hasg_in & Hsuf).
  rewrite E' in Etail. injection Etail as -> ->.
  assert (Hasg_b : forall u tp, In (u, tp) asg -> tp < 2^60 /\ nthb (lg_leaves L) u = true).
  { intros u tp Hin. destruct (Hasg_in _ _ Hin) as (s & Hs).
    destruct (Hsuf _ _ Hs) as (tpos & _ & _ & Hlt & Huniq & _).
    rewrite (Huniq _ Hin). split; [lia|]. apply (Hsufs s u Hs). }
  set (units' := assign_units (asg_map asg) (lg_units L) 0) in *.
  assert (Hlen' : lenN units' = n).
  { unfold lenN, units'. rewrite assign_units_length. reflexivity. }
  assert (Hnth' : forall i, i < n -> nthu units' i =
            match PM.find (N.succ_pos i) (asg_map asg) with
            | Some tp => (tp, snd (nthu (lg_units L) i)) | None => nthu (lg_units L) i end).
  { intros i Hi. unfold units'. rewrite assign_units_nth by exact Hi. rewrite N.add_0_l. reflexivity. }
  assert (Hsnd' : forall i, i < n -> snd (nthu units' i) = snd (nthu (lg_units L) i)).
  { intros i Hi. rewrite Hnth' by exact Hi. destruct (PM.find _ _); reflexivity. }
  assert (Hunit_in : forall i, i < n -> fst (nthu (lg_units L) i) < 2^64 /\ snd (nthu (lg_units L) i) < 2^64).
  { intros i Hi. unfold units_ok in Hun. rewrite Forall_forall in Hun. apply Hun.
    unfold nthu. apply nth_In. apply lenN_lt_nat. exact Hi. }
  assert (Hun' : units_ok units').
  { apply Forall_forall. intros x Hx. apply (In_nth _ _ (0, 0)) in Hx. destruct Hx as (j & Hj & Ex).
    assert (Hjn : N.of_nat j < n) by (rewrite <- Hlen'; unfold lenN, Dac.unit in *; lia).
    assert (E : x = nthu units' (N.of_nat j)) by (unfold nthu; rewrite Nat2N.id; symmetry; exact Ex).
    rewrite (Hnth' _ Hjn) in E.
    destruct (Hunit_in _ Hjn) as [U1 U2].
    destruct (PM.find _ _) eqn:Ef.
    - rewrite asg_map_fm in Ef. apply fm_find in Ef. destruct Ef as [([a1 a2] & Ha & Hk & Hv)|Ef].
      + cbn [fst snd] in Hk, Hv. subst a1 a2. destruct (Hasg_b _ _ Ha) as [Hb _].
        rewrite E. cbn [fst snd]. pose proof pow_60_64. split; [lia|exact U2].
      + rewrite PM.gempty in Ef. discriminate.
    - rewrite E. split; assumption. }
  assert (Hlenl : length (lg_leaves L) = length units').
  { unfold units'. rewrite assign_units_length. exact Hlv. }
  assert (Hn' : lenN units' < 2^56) by (rewrite Hlen'; exact Hn).
  destruct (Hbc v units' (lg_leaves L) Hun' Hlenl Hn') as (d & Ed & Hnu & Hnf & Hnl & Hnn & Hq).
  rewrite Ed in Ebc. injection Ebc as <-. rewrite Hlen' in *.
  (* ---- terminal vector ---- *)
  assert (Htl : lenN (lg_terms L) = n) by (unfold lenN, n; rewrite Htm; reflexivity).
  assert (Htmax : lenN (lg_terms L) < max_bits).
  { rewrite Htl. unfold max_bits. pose proof pow_56_62. lia. }
  (* ---- a leaf's link ---- *)
  assert (Hnot_asg : forall u, ~ In u (map snd (lg_sufs L)) -> forall a, In a asg -> fst a <> u).
  { intros u Hni [a1 a2] Ha E. cbn [fst] in E. subst a1. destruct (Hasg_in _ _ Ha) as (s & Hs).
    apply Hni. apply in_map_iff. exists (s, u). split; [reflexivity|exact Hs]. }
  assert (Hlink : forall u, u < n -> nthb (lg_leaves L) u = true ->
            exists tpos, bc_link d u = Ok tpos /\ tpos < 2^60 /\
              tail_at (mkTrie (lg_nkeys L) (mkCt (lg_maxlen L) (of_list (lg_tbl L)) (of_list (lg_alpha L))) terms d tv)
                      tpos (suffix_at (view_of L) u)).
  { intros u Hu Hlf. destruct (Hq u Hu) as (_ & _ & _ & Hlk). specialize (Hlk Hlf).
    rewrite Hlk. unfold suffix_at. cbn [view_of v_sufs]. rewrite suf_map_fm.
    destruct (in_dec N.eq_dec u (map snd (lg_sufs L))) as [Hi|Hni].
    - apply in_map_iff in Hi. destruct Hi as ([s u'] & Eu & Hin). cbn [snd] in Eu. subst u'.
      destruct (Hsuf _ _ Hin) as (tpos & Ha & Hnz & Hlt & Huniq & Hdec & Hmt).
      exists tpos. rewrite (Hnth' u Hu), asg_map_fm.
      rewrite (fm_unique fst snd u asg (u, tpos)); [|intros [a1 a2] Ha' Hk; cbn [fst snd] in *; subst a1; auto|exact Ha|reflexivity].
      cbn [fst snd]. split; [reflexivity|]. split; [lia|].
      rewrite (fm_unique snd fst u (lg_sufs L) (s, u)); [|intros [s' u'] Hin' Hk; cbn [fst snd] in *; subst u'|exact Hin|reflexivity].
      + cbn [fst]. unfold tail_at. cbn [t_tail]. split; [|split; [exact Hdec|exact Hmt]].
        destruct (Hsufs _ _ Hin) as [[Hs _] _]. split; intros; congruence.
      + assert (E : (s', u) = (s, u)) by (eapply (map_inj_in snd); eauto). congruence.
    - rewrite (Hnth' u Hu), asg_map_fm, (fm_none fst snd u asg (Hnot_asg u Hni)).
      rewrite (Hnosuf u Hu Hlf Hni). exists 0. split; [reflexivity|]. split; [reflexivity|].
      rewrite fm_none.
      + unfold tail_at. cbn [t_tail]. split; [tauto|]. split; [exact Hdec0|].
        intros q Hq0. destruct (Hslot0 q Hq0) as [M1 M2]. rewrite M1, M2. destruct q; split; reflexivity.
      + intros [s' u'] Hin' E. cbn [snd] in E. subst u'. apply Hni. apply in_map_iff.
        exists (s', u). split; [reflexivity|exact Hin']. }
  assert (Htbl : lenN (lg_tbl L) = 512) by (apply perm_okb_len; exact Hperm).
  constructor; cbn [t_bc t_terms t_table t_tail t_nkeys].
  - intros u Hu. apply (Hq u Hu).
  - intros u Hu. destruct (Hq u Hu) as (_ & Hc & _). rewrite Hc, Hsnd' by exact Hu. reflexivity.
  - intros u Hu Hlf. destruct (Hq u Hu) as (_ & _ & Hb & _). rewrite (Hb Hlf). f_equal.
    rewrite (Hnth' u Hu), asg_map_fm, fm_none; [reflexivity|].
    intros [a1 a2] Ha E. cbn [fst] in E. subst a1. destruct (Hasg_b _ _ Ha) as [_ Hl]. congruence.
  - intros u Hu Hlf. destruct (Hlink u Hu Hlf) as (tpos & H1 & H2 & H3). exists tpos.
    split; [exact H1|]. split; [exact H2|exact H3].
  - intros u Hu. apply (Hget _ true true); [exact Htmax|exact Eterms|]. rewrite Htl. exact Hu.
  - intros u Hu. unfold npos_to_id, rank_of. cbn [t_terms].
    apply (Hrank _ true); [exact Htmax|exact Eterms|]. rewrite Htl. exact Hu.
  - intros i Hi. unfold id_to_npos, rank_of. cbn [t_terms].
    destruct (Hsel _ _ i Htmax Eterms Hi) as (p & H1 & H2 & H3 & H4).
    exists p. rewrite Htl in H2. auto.
  - intros b Hb. unfold ct_get_code, code_of. cbn [ct_table]. apply aget_of_list_ok.
    fold (lenN (lg_tbl L)). rewrite Htbl. lia.
  - intros cd Hcd. unfold ct_get_char, char_of. cbn [ct_table]. apply aget_of_list_ok.
    fold (lenN (lg_tbl L)). rewrite Htbl. lia.
  - reflexivity.
  - reflexivity.
  - unfold t_num_units. cbn [t_bc]. exact Hnu.
  - unfold t_bin_mode. cbn [t_tail]. exact Hmode.
  - reflexivity.
  - reflexivity.
  - unfold t_num_free_units. cbn [t_bc]. rewrite Hnf. apply assign_units_frees.
  - unfold t_num_nodes. cbn [t_bc]. rewrite Hnn. unfold units'. rewrite assign_units_frees. reflexivity.
  - unfold t_tail_length. cbn [t_tail]. exact Hsize.
Qed.
End Phys.

Check phys_spec.
Print Assumptions phys_spec.
