(* PredictiveFacts.v: correctness of the predictive-search / enumeration iterator
   (descent along the query + explicit-stack DFS) against Spec.spec_completions. *)
From Coq Require Import FMapPositive Lia ZifyN ZifyBool ZifyNat Arith PeanoNat.
From X Require Import Base Arr ArrFacts Consts BitToolsSpec BitToolsGen BitVector CompactVector Dac Tail Trie
  Spec Iface IfaceDac Wf IfaceQuery.
Local Open Scope N_scope.

#[local] Arguments N.mul : simpl never.
#[local] Arguments N.add : simpl never.
#[local] Arguments N.pow : simpl never.
#[local] Arguments N.lxor : simpl never.
#[local] Arguments N.ltb : simpl never.
#[local] Arguments N.leb : simpl never.
#[local] Arguments N.eqb : simpl never.
#[local] Arguments N.of_nat : simpl never.
#[local] Arguments N.to_nat : simpl never.

(* ------------------------------------------------------------------ *)
(* generic helpers                                                     *)
(* ------------------------------------------------------------------ *)
Lemma pd_bind_ok {A B} (a : A) (f : A -> res B) : bind (Ok a) f = f a.
Proof. reflexivity. Qed.

Lemma pd_key_eqb_refl (k : key) : key_eqb k k = true.
Proof. induction k as [|x k IH]; [reflexivity|]. cbn [key_eqb]. rewrite N.eqb_refl, IH. reflexivity. Qed.

Lemma pd_key_eqb_eq (a b : key) : key_eqb a b = true -> a = b.
Proof.
  revert b. induction a as [|x a IH]; intros [|y b] H; cbn [key_eqb] in H; try discriminate; [reflexivity|].
  apply andb_prop in H. destruct H as [H1 H2]. apply N.eqb_eq in H1. apply IH in H2. congruence.
Qed.

Lemma pd_list_eqb_eq {A} (eq : A -> A -> bool) (Heq : forall x y, eq x y = true -> x = y) :
  forall a b, list_eqb eq a b = true -> a = b.
Proof.
  induction a as [|x a IH]; intros [|y b] H; cbn [list_eqb] in H; try discriminate; [reflexivity|].
  apply andb_prop in H. destruct H as [H1 H2]. apply Heq in H1. apply IH in H2. congruence.
Qed.

Lemma pd_prefixb_eq (p s : key) : prefixb p s = is_prefixb p s.
Proof. reflexivity. Qed.

Lemma pd_vget_of_list {A} (l : list A) (i : N) (d : A) : vget (of_list l) i d = nth (N.to_nat i) l d.
Proof.
  unfold vget. rewrite get_of_list. destruct (nth_error l (N.to_nat i)) eqn:E.
  - symmetry. apply nth_error_nth. exact E.
  - apply nth_error_None in E. symmetry. apply nth_overflow. exact E.
Qed.

Lemma pd_nth_firstn {A} (d : A) : forall (l : list A) (k i : nat), (i < k)%nat -> nth i (firstn k l) d = nth i l d.
Proof.
  induction l as [|x l IH]; intros k i H.
  - rewrite firstn_nil. reflexivity.
  - destruct k as [|k]; [lia|]. destruct i as [|i]; [reflexivity|]. cbn [firstn nth]. apply IH. lia.
Qed.

Lemma pd_in_bytes256 (b : N) : In b bytes256 <-> b < 256.
Proof.
  unfold bytes256. rewrite in_map_iff. split.
  - intros [x [<- Hx]]. apply in_seq in Hx. lia.
  - intros H. exists (N.to_nat b). split; [lia|]. apply in_seq. lia.
Qed.

Lemma pd_nodup_bytes256 : NoDup bytes256.
Proof.
  unfold bytes256. apply FinFun.Injective_map_NoDup; [|apply seq_NoDup].
  intros x y H. lia.
Qed.

(* abs_calls *)
Lemma pd_firstn_pad {A} (x : A) : forall (n : nat) (a : list A) (m : nat), (n <= m)%nat ->
  firstn n (a ++ repeat x m) = firstn n (a ++ repeat x n).
Proof.
  induction n as [|n IH]; intros a m H; [reflexivity|].
  destruct a as [|y a].
  - destruct m as [|m]; [lia|]. cbn [app repeat firstn]. f_equal.
    specialize (IH [] m). cbn [app] in IH. apply IH. lia.
  - cbn [app firstn]. f_equal. rewrite (IH a m) by lia. rewrite (IH a (S n)) by lia. reflexivity.
Qed.

Lemma pd_abs_nil (n : nat) : abs_calls [] n = repeat None n.
Proof.
  unfold abs_calls. cbn [map app]. induction n as [|n IH]; [reflexivity|].
  cbn [repeat firstn]. f_equal. exact IH.
Qed.

Lemma pd_abs_cons (x : N * key) (l : list (N * key)) (n : nat) :
  abs_calls (x :: l) (S n) = Some x :: abs_calls l n.
Proof.
  unfold abs_calls. cbn [map app firstn]. f_equal. apply pd_firstn_pad. lia.
Qed.

(* ------------------------------------------------------------------ *)
(* trees                                                               *)
(* ------------------------------------------------------------------ *)
Section TreeInd.
Variable Q : tree -> Prop.
Hypothesis Hleaf : forall u s, Q (TLeaf u s).
Hypothesis Hnode : forall u tm cs, Forall (fun bc => Q (snd bc)) cs -> Q (TNode u tm cs).
Fixpoint pd_tree_ind (t : tree) : Q t :=
  match t with
  | TLeaf u s => Hleaf u s
  | TNode u tm cs =>
    Hnode u tm cs ((fix go (cs : list (N * tree)) : Forall (fun bc => Q (snd bc)) cs :=
                      match cs with
                      | [] => Forall_nil _
                      | bc :: r => Forall_cons bc (pd_tree_ind (snd bc)) (go r)
                      end) cs)
  end.
End TreeInd.

Definition keys_cs (cs : list (N * tree)) : list key :=
  flat_map (fun bc => map (cons (fst bc)) (keys_of (snd bc))) cs.
Definition nodes_cs (cs : list (N * tree)) : list N := flat_map (fun bc => nodes_of (snd bc)) cs.

Lemma pd_keys_node u tm cs : keys_of (TNode u tm cs) = (if tm then [[]] else []) ++ keys_cs cs.
Proof.
  cbn [keys_of]. f_equal. unfold keys_cs.
  induction cs as [|[b c] r IH]; [reflexivity|]. cbn [flat_map fst snd]. rewrite IH. reflexivity.
Qed.

Lemma pd_nodes_node u tm cs : nodes_of (TNode u tm cs) = u :: nodes_cs cs.
Proof.
  cbn [nodes_of]. f_equal. unfold nodes_cs.
  induction cs as [|[b c] r IH]; [reflexivity|]. cbn [flat_map fst snd]. rewrite IH. reflexivity.
Qed.

Lemma pd_find_leaf u s : tree_find (TLeaf u s) s = Some u.
Proof. cbn [tree_find]. rewrite pd_key_eqb_refl. reflexivity. Qed.

Lemma pd_find_child u tm : forall cs b c k, NoDup (map fst cs) -> In (b, c) cs ->
  tree_find (TNode u tm cs) (b :: k) = tree_find c k.
Proof.
  intros cs b c k. cbn [tree_find].
  induction cs as [|[b' c'] r IH]; intros Hnd Hin; [destruct Hin|].
  cbn [map fst] in Hnd. inversion Hnd as [|? ? Hni Hnd']; subst.
  destruct Hin as [Heq|Hin].
  - inversion Heq; subst. rewrite N.eqb_refl. reflexivity.
  - destruct (N.eqb_spec b b') as [->|Hne].
    + exfalso. apply Hni. apply in_map_iff. exists (b', c). split; [reflexivity|exact Hin].
    + apply IH; assumption.
Qed.

Lemma pd_find_nochild u tm : forall cs b k, ~ In b (map fst cs) -> tree_find (TNode u tm cs) (b :: k) = None.
Proof.
  intros cs b k. cbn [tree_find].
  induction cs as [|[b' c'] r IH]; intros Hni; [reflexivity|].
  cbn [map fst In] in Hni. destruct (N.eqb_spec b b') as [->|Hne]; [exfalso; apply Hni; left; reflexivity|].
  apply IH. intros H. apply Hni. right. exact H.
Qed.

(* minimality: what the iterator needs from it *)
Inductive live : tree -> Prop :=
| live_leaf u s : live (TLeaf u s)
| live_node u tm cs : (tm = true \/ cs <> []) -> Forall (fun bc => live (snd bc)) cs -> live (TNode u tm cs).

Lemma pd_minimal_live : forall t, minimal t = true -> live t.
Proof.
  apply (pd_tree_ind (fun t => minimal t = true -> live t)).
  - intros. constructor.
  - intros u tm cs IH H. cbn [minimal] in H. apply andb_prop in H. destruct H as [H1 H2].
    constructor.
    + destruct tm; [left; reflexivity|right]. intros ->. vm_compute in H1. discriminate.
    + clear H1. induction cs as [|[b c] r IHr]; constructor.
      * inversion IH; subst. apply andb_prop in H2. destruct H2 as [H2 _].
        apply andb_prop in H2. destruct H2 as [_ H2]. cbn [snd] in *. auto.
      * inversion IH; subst. apply andb_prop in H2. destruct H2 as [_ H2]. apply IHr; assumption.
Qed.

Lemma pd_live_key : forall t, live t -> exists k, In k (keys_of t).
Proof.
  apply (pd_tree_ind (fun t => live t -> exists k, In k (keys_of t))).
  - intros u s _. exists s. left. reflexivity.
  - intros u tm cs IH H. inversion H as [|? ? ? Hor Hall]; subst. rewrite pd_keys_node.
    destruct tm.
    + exists []. left. reflexivity.
    + destruct Hor as [Hf|Hne]; [discriminate|].
      destruct cs as [|[b c] r]; [congruence|].
      inversion IH as [|? ? IHc _]; subst. inversion Hall as [|? ? Hc _]; subst. cbn [snd] in *.
      destruct (IHc Hc) as [k Hk]. exists (b :: k). cbn [app]. unfold keys_cs. cbn [flat_map fst snd].
      apply in_or_app. left. apply in_map. exact Hk.
Qed.

(* nodup_fast *)
Definition pd_nd_step (st : bool * PM.t Datatypes.unit) (x : N) : bool * PM.t Datatypes.unit :=
  let '(ok, m) := st in
  match PM.find (N.succ_pos x) m with
  | Some _ => (false, m)
  | None => (ok, PM.add (N.succ_pos x) tt m)
  end.

Lemma pd_nd_fold_false : forall l m, fst (fold_left pd_nd_step l (false, m)) = false.
Proof.
  induction l as [|x l IH]; intros m; [reflexivity|]. cbn [fold_left pd_nd_step].
  destruct (PM.find _ m); apply IH.
Qed.

Lemma pd_nd_fold_inv : forall l ok m, fst (fold_left pd_nd_step l (ok, m)) = true ->
  ok = true /\ NoDup l /\ forall x, In x l -> PM.find (N.succ_pos x) m = None.
Proof.
  induction l as [|x l IH]; intros ok m H.
  - cbn in H. subst. repeat split; [constructor|intros x []].
  - cbn [fold_left pd_nd_step] in H. destruct (PM.find (N.succ_pos x) m) eqn:E.
    + rewrite pd_nd_fold_false in H. discriminate.
    + apply IH in H. destruct H as [Hok [Hnd Hfree]]. split; [exact Hok|].
      assert (Hx : ~ In x l).
      { intros Hin. specialize (Hfree x Hin). rewrite PM.gss in Hfree. discriminate. }
      split; [constructor; assumption|].
      intros y [<-|Hy]; [exact E|]. specialize (Hfree y Hy).
      rewrite PM.gso in Hfree; [exact Hfree|].
      intros Heq. apply succ_pos_inj in Heq. subst. contradiction.
Qed.

Lemma pd_nodup_fast_NoDup l : nodup_fast l = true -> NoDup l.
Proof.
  unfold nodup_fast. intros H.
  change (fst (fold_left pd_nd_step l (true, PM.empty Datatypes.unit)) = true) in H.
  apply pd_nd_fold_inv in H. tauto.
Qed.

Lemma pd_nodup_bound (l : list N) (n : N) : NoDup l -> Forall (fun x => x < n) l -> (length l <= N.to_nat n)%nat.
Proof.
  intros Hnd Hall.
  assert (H : (length l <= length (map N.of_nat (seq 0 (N.to_nat n))))%nat).
  { apply NoDup_incl_length; [exact Hnd|]. intros x Hx. rewrite Forall_forall in Hall. specialize (Hall x Hx).
    apply in_map_iff. exists (N.to_nat x). split; [lia|]. apply in_seq. lia. }
  rewrite map_length, seq_length in H. exact H.
Qed.

(* ------------------------------------------------------------------ *)
(* the abstract tree in terms of the logical content                   *)
(* ------------------------------------------------------------------ *)
Section TreeOk.
Variable L : logical.
Let n := lenN (lg_units L).
Definition base_of (u : N) : N := fst (nthu (lg_units L) u).
Definition slot (u b : N) : N := N.lxor (base_of u) (code_of L b).
Definition is_child (u b : N) : bool := snd (nthu (lg_units L) (slot u b)) =? u.
Definition child_sig (cs : list (N * tree)) : list (N * N) := map (fun bc => (fst bc, root_of (snd bc))) cs.

Inductive tree_ok : tree -> Prop :=
| ok_leaf u s : u < n -> nthb (lg_leaves L) u = true -> s = suffix_at (view_of L) u -> tree_ok (TLeaf u s)
| ok_node u tm cs : u < n -> nthb (lg_leaves L) u = false -> tm = nthb (lg_terms L) u ->
    (forall b, b < 256 -> slot u b < n) ->
    child_sig cs = map (fun b => (b, slot u b)) (filter (is_child u) bytes256) ->
    Forall (fun bc => tree_ok (snd bc)) cs -> tree_ok (TNode u tm cs).

Lemma pd_scan_inv (rec : N -> option tree)
  (IH : forall u t, rec u = Some t -> tree_ok t /\ root_of t = u) (base u : N) :
  forall bytes cs, Forall (fun b => b < 256) bytes ->
  scan_children (view_of L) rec bytes base u = Some cs ->
  Forall (fun b => N.lxor base (code_of L b) < n) bytes /\
  child_sig cs = map (fun b => (b, N.lxor base (code_of L b)))
                     (filter (fun b => snd (nthu (lg_units L) (N.lxor base (code_of L b))) =? u) bytes) /\
  Forall (fun bc => tree_ok (snd bc)) cs.
Proof.
  induction bytes as [|b r IHr]; intros cs Hb H.
  - cbn [scan_children] in H. inversion H; subst. repeat split; constructor.
  - inversion Hb as [|? ? Hb1 Hb2]; subst.
    cbn [scan_children] in H.
    assert (Ec : vget (v_code (view_of L)) b 0 = code_of L b).
    { cbn [view_of v_code]. rewrite pd_vget_of_list. unfold code_of. apply pd_nth_firstn. lia. }
    rewrite Ec in H. cbn [view_of v_n v_units] in H. fold n in H.
    destruct (N.ltb_spec (N.lxor base (code_of L b)) n) as [Hlt|Hge]; cbn [negb] in H; [|discriminate].
    destruct (scan_children (view_of L) rec r base u) as [rest|] eqn:Er; [|discriminate].
    destruct (IHr rest Hb2 eq_refl) as [H1 [H2 H3]].
    rewrite pd_vget_of_list in H. fold (nthu (lg_units L) (N.lxor base (code_of L b))) in H.
    cbn [filter].
    destruct (snd (nthu (lg_units L) (N.lxor base (code_of L b))) =? u) eqn:Echk.
    + destruct (rec (N.lxor base (code_of L b))) as [t|] eqn:Et; [|discriminate].
      inversion H; subst. destruct (IH _ _ Et) as [Hok Hroot].
      split; [constructor; assumption|]. split.
      * unfold child_sig in *. cbn [map fst snd]. rewrite Hroot, H2. reflexivity.
      * constructor; assumption.
    + inversion H; subst. split; [constructor; assumption|]. split; assumption.
Qed.

Lemma pd_extract_ok : forall fuel u t, extract fuel (view_of L) u = Some t -> tree_ok t /\ root_of t = u.
Proof.
  induction fuel as [|f IH]; intros u t H; [discriminate|].
  cbn [extract] in H. cbn [view_of v_n v_leaves v_units v_terms] in H. fold n in H.
  destruct (N.ltb_spec u n) as [Hlt|Hge]; cbn [negb] in H; [|discriminate].
  rewrite !pd_vget_of_list in H.
  fold (nthb (lg_leaves L) u) in H. fold (nthu (lg_units L) u) in H. fold (nthb (lg_terms L) u) in H.
  destruct (nthb (lg_leaves L) u) eqn:Elf.
  - inversion H; subst. split; [|reflexivity]. constructor; auto.
  - match type of H with match ?X with _ => _ end = _ => destruct X as [cs|] eqn:Es end; [|discriminate].
    inversion H; subst. split; [|reflexivity].
    change (scan_children (mkView (lenN (lg_units L)) (of_list (lg_units L)) (of_list (lg_leaves L))
             (of_list (lg_terms L)) (of_list (firstn 256 (lg_tbl L))) (suf_map (lg_sufs L))))
      with (scan_children (view_of L)) in Es.
    apply (pd_scan_inv _ (IH)) in Es.
    2:{ apply Forall_forall. intros b Hb. apply pd_in_bytes256. exact Hb. }
    destruct Es as [H1 [H2 H3]].
    constructor; auto.
    intros b Hb. rewrite Forall_forall in H1. apply H1. apply pd_in_bytes256. exact Hb.
Qed.

Lemma pd_ok_nodes : forall t, tree_ok t -> Forall (fun x => x < n) (nodes_of t).
Proof.
  apply (pd_tree_ind (fun t => tree_ok t -> Forall (fun x => x < n) (nodes_of t))).
  - intros u s H. inversion H; subst. cbn [nodes_of]. constructor; [assumption|constructor].
  - intros u tm cs IH H. inversion H as [|? ? ? Hu _ _ _ _ Hall]; subst. rewrite pd_nodes_node.
    constructor; [exact Hu|]. unfold nodes_cs. clear H.
    induction cs as [|[b c] r IHr]; [constructor|].
    inversion IH; subst. inversion Hall; subst. cbn [flat_map snd] in *.
    apply Forall_app. split; auto.
Qed.

Lemma pd_ok_children_nodup u tm cs : tree_ok (TNode u tm cs) -> NoDup (map fst cs).
Proof.
  intros H. inversion H as [|? ? ? _ _ _ _ Hsig _]; subst.
  assert (E : map fst cs = filter (is_child u) bytes256).
  { apply (f_equal (map fst)) in Hsig. unfold child_sig in Hsig. rewrite !map_map in Hsig. cbn [fst] in Hsig.
    rewrite map_id in Hsig. exact Hsig. }
  rewrite E. apply NoDup_filter. apply pd_nodup_bytes256.
Qed.

Lemma pd_ok_child_in u tm cs b : tree_ok (TNode u tm cs) -> b < 256 -> is_child u b = true ->
  exists c, In (b, c) cs /\ root_of c = slot u b.
Proof.
  intros H Hb Hc. inversion H as [|? ? ? _ _ _ _ Hsig _]; subst.
  assert (Hin : In (b, slot u b) (child_sig cs)).
  { rewrite Hsig. apply in_map_iff. exists b. split; [reflexivity|]. apply filter_In. split; [|exact Hc].
    apply pd_in_bytes256. exact Hb. }
  unfold child_sig in Hin. apply in_map_iff in Hin. destruct Hin as [[b' c] [E Hin]]. cbn [fst snd] in E.
  inversion E; subst. exists c. split; [exact Hin|reflexivity].
Qed.

Lemma pd_ok_child_notin u tm cs b : tree_ok (TNode u tm cs) -> is_child u b = false -> ~ In b (map fst cs).
Proof.
  intros H Hc Hin. inversion H as [|? ? ? _ _ _ _ Hsig _]; subst.
  assert (E : map fst cs = filter (is_child u) bytes256).
  { apply (f_equal (map fst)) in Hsig. unfold child_sig in Hsig. rewrite !map_map in Hsig. cbn [fst] in Hsig.
    rewrite map_id in Hsig. exact Hsig. }
  rewrite E in Hin. apply filter_In in Hin. destruct Hin as [_ Hin]. congruence.
Qed.
End TreeOk.

(* what the iterator needs from the certificate *)
Lemma pd_lwf_inv (L : logical) (K : list key) : lwf_b L K = true ->
  exists T, the_tree L = Some T /\ keys_of T = K /\ NoDup (nodes_of T) /\ minimal T = true /\
            lg_alpha L = spec_alphabet K /\ lg_nkeys L = lenN K /\ forallb bytes_ok K = true.
Proof.
  unfold lwf_b. cbv zeta. intros H.
  apply andb_prop in H. destruct H as [H H14].
  apply andb_prop in H. destruct H as [H _].
  apply andb_prop in H. destruct H as [H _].
  apply andb_prop in H. destruct H as [H _].
  apply andb_prop in H. destruct H as [H _].
  apply andb_prop in H. destruct H as [H H9].
  apply andb_prop in H. destruct H as [H _].
  apply andb_prop in H. destruct H as [H H7].
  apply andb_prop in H. destruct H as [_ H6].
  fold (the_tree L) in H14. destruct (the_tree L) as [T|] eqn:ET; [|discriminate].
  apply andb_prop in H14. destruct H14 as [H14 _].
  apply andb_prop in H14. destruct H14 as [H14 Hmin].
  apply andb_prop in H14. destruct H14 as [H14 _].
  apply andb_prop in H14. destruct H14 as [H14 _].
  apply andb_prop in H14. destruct H14 as [Hkeys Hnd].
  exists T. split; [reflexivity|].
  split; [apply (pd_list_eqb_eq key_eqb pd_key_eqb_eq); exact Hkeys|].
  split; [apply pd_nodup_fast_NoDup; exact Hnd|].
  split; [exact Hmin|].
  split; [apply (pd_list_eqb_eq N.eqb); [intros x y E; apply N.eqb_eq; exact E|exact H7]|].
  split; [apply N.eqb_eq; exact H9|].
  unfold valid_keys in H6. destruct K; [discriminate|]. apply andb_prop in H6. tauto.
Qed.

Lemma pd_filter_rev {A} (g : A -> bool) : forall l, filter g (rev l) = rev (filter g l).
Proof.
  induction l as [|x l IH]; [reflexivity|]. cbn [rev filter]. rewrite filter_app, IH. cbn [filter].
  destruct (g x); cbn [rev]; [reflexivity|apply app_nil_r].
Qed.

Lemma pd_filter_filter {A} (f g : A -> bool) : forall l, (forall x, In x l -> g x = true -> f x = true) ->
  filter g (filter f l) = filter g l.
Proof.
  induction l as [|x l IH]; intros H; [reflexivity|]. cbn [filter].
  assert (IH' := IH (fun y Hy => H y (or_intror Hy))).
  destruct (f x) eqn:Ef.
  - cbn [filter]. rewrite IH'. reflexivity.
  - destruct (g x) eqn:Eg; [|exact IH']. rewrite (H x (or_introl eq_refl) Eg) in Ef. discriminate.
Qed.

Lemma pd_lenN_snoc {A} (p : list A) (b : A) : lenN (p ++ [b]) = lenN p + 1.
Proof. unfold lenN. rewrite app_length. cbn [length]. lia. Qed.

Lemma pd_in_nodes_cs b c cs : In (b, c) cs -> (length (nodes_of c) <= length (nodes_cs cs))%nat.
Proof.
  induction cs as [|[b' c'] r IH]; intros H; [destruct H|]. unfold nodes_cs. cbn [flat_map snd].
  rewrite app_length. destruct H as [E|H].
  - inversion E; subst. lia.
  - apply IH in H. unfold nodes_cs in H. lia.
Qed.

Lemma pd_in_keys_cs b c cs k : In (b, c) cs -> In k (keys_of c) -> In (b :: k) (keys_cs cs).
Proof.
  intros H Hk. unfold keys_cs. apply in_flat_map. exists (b, c). split; [exact H|]. cbn [fst snd].
  apply in_map. exact Hk.
Qed.

Lemma pd_nodes_nonempty t : (1 <= length (nodes_of t))%nat.
Proof. destruct t; [cbn; lia|]. rewrite pd_nodes_node. cbn [length]. lia. Qed.

(* ------------------------------------------------------------------ *)
(* the iterator over a fixed well-formed dictionary                    *)
(* ------------------------------------------------------------------ *)
Section Fixed.
Variables (L : logical) (P : trie) (T : tree).
Hypothesis Hph : phys_ok L P.
Hypothesis HT_ok : tree_ok L T.
Hypothesis HT_live : live T.
Hypothesis HT_nd : NoDup (nodes_of T).
Hypothesis Halpha : lg_alpha L = spec_alphabet (keys_of T).
Hypothesis Hbytes : forallb bytes_ok (keys_of T) = true.
Hypothesis Hlk : forall q, bytes_ok q = true ->
  lookup P q = Ok (option_map (rank_of (lg_terms L)) (tree_find T q)).

Let n := lenN (lg_units L).
Definition idk (k : key) : N := match lk P k with Some i => i | None => 0 end.

Lemma pd_with_ids ks : with_ids P ks = map (fun k => (idk k, k)) ks.
Proof. reflexivity. Qed.

Inductive sub_at : key -> tree -> Prop :=
| sub_root : sub_at [] T
| sub_child p u tm cs b c : sub_at p (TNode u tm cs) -> In (b, c) cs -> sub_at (p ++ [b]) c.

Lemma pd_sub_facts p t : sub_at p t ->
  tree_ok L t /\ live t /\ (length (nodes_of t) <= length (nodes_of T))%nat /\
  (forall k, In k (keys_of t) -> In (p ++ k) (keys_of T)) /\
  (forall k, tree_find T (p ++ k) = tree_find t k).
Proof.
  induction 1 as [|p u tm cs b c Hsub IH Hin].
  - repeat split; auto.
  - destruct IH as [Hok [Hlive [Hsz [Hkeys Hfind]]]].
    split; [|split; [|split; [|split]]].
    + inversion Hok as [|? ? ? _ _ _ _ _ Hall]; subst. rewrite Forall_forall in Hall. apply (Hall (b, c) Hin).
    + inversion Hlive as [|? ? ? _ Hall]; subst. rewrite Forall_forall in Hall. apply (Hall (b, c) Hin).
    + rewrite pd_nodes_node in Hsz. cbn [length] in Hsz. apply pd_in_nodes_cs in Hin. lia.
    + intros k Hk. rewrite <- app_assoc. cbn [app]. apply Hkeys. rewrite pd_keys_node. apply in_or_app. right.
      apply (pd_in_keys_cs b c); assumption.
    + intros k. rewrite <- app_assoc. cbn [app]. rewrite Hfind. apply pd_find_child; [|exact Hin].
      apply (pd_ok_children_nodup L u tm cs Hok).
Qed.

Lemma pd_sub_bytes p t k : sub_at p t -> In k (keys_of t) -> bytes_ok (p ++ k) = true.
Proof.
  intros Hs Hk. destruct (pd_sub_facts p t Hs) as [_ [_ [_ [Hkeys _]]]].
  specialize (Hkeys k Hk). rewrite forallb_forall in Hbytes. apply Hbytes. exact Hkeys.
Qed.

Lemma pd_sub_id p t k u : sub_at p t -> In k (keys_of t) -> tree_find t k = Some u ->
  idk (p ++ k) = rank_of (lg_terms L) u.
Proof.
  intros Hs Hk Hf. unfold idk, lk. rewrite (pd_sub_bytes p t k Hs Hk).
  rewrite Hlk by (apply (pd_sub_bytes p t k Hs Hk)).
  destruct (pd_sub_facts p t Hs) as [_ [_ [_ [_ Hfind]]]]. rewrite Hfind, Hf. reflexivity.
Qed.

Lemma pd_sub_size p t : sub_at p t -> (length (nodes_of t) <= N.to_nat n)%nat.
Proof.
  intros Hs. destruct (pd_sub_facts p t Hs) as [_ [_ [Hsz _]]].
  assert (H := pd_nodup_bound (nodes_of T) n HT_nd (pd_ok_nodes L T HT_ok)). lia.
Qed.

(* a child byte occurs in some key, hence lies in the stored alphabet *)
Lemma pd_child_occurs p u tm cs b : sub_at p (TNode u tm cs) -> b < 256 -> is_child L u b = true ->
  occurs b (keys_of T) = true.
Proof.
  intros Hs Hb Hc. destruct (pd_sub_facts _ _ Hs) as [Hok _].
  destruct (pd_ok_child_in L u tm cs b Hok Hb Hc) as [c [Hin _]].
  assert (Hs' := sub_child p u tm cs b c Hs Hin).
  destruct (pd_sub_facts _ _ Hs') as [_ [Hlive [_ [Hkeys _]]]].
  destruct (pd_live_key c Hlive) as [k Hk]. specialize (Hkeys k Hk).
  unfold occurs. apply existsb_exists. exists ((p ++ [b]) ++ k). split; [exact Hkeys|].
  apply existsb_exists. exists b. split; [|apply N.eqb_refl].
  apply in_or_app. left. apply in_or_app. right. left. reflexivity.
Qed.

Lemma pd_alpha_eq (K : list key) : spec_alphabet K = filter (fun b => occurs b K) bytes256.
Proof. reflexivity. Qed.

(* ---- physical answers at tree nodes ---- *)
Lemma pd_push_children (u kpos : N) (Hslots : forall b, b < 256 -> slot L u b < n) :
  forall al stack, Forall (fun b => b < 256) al ->
  push_children P al (base_of L u) u kpos stack =
  Ok (rev (map (fun c => mkCur c (kpos + 1) (slot L u c)) (filter (is_child L u) al)) ++ stack).
Proof.
  induction al as [|c al IH]; intros stack Hal; [reflexivity|].
  inversion Hal as [|? ? Hc Hal']; subst.
  cbn [push_children]. rewrite (ph_code L P Hph c Hc), pd_bind_ok.
  fold (slot L u c). rewrite (ph_check L P Hph (slot L u c) (Hslots c Hc)), pd_bind_ok.
  rewrite IH by exact Hal'. cbn [filter]. fold (is_child L u c).
  destruct (is_child L u c); [|reflexivity].
  cbn [map rev]. rewrite <- app_assoc. reflexivity.
Qed.

Local Notation entry := (key * tree)%type (only parsing).
Definition cur_of (e : entry) : cursor := mkCur (last (fst e) 0) (lenN (fst e)) (root_of (snd e)).
Definition kids (p : key) (cs : list (N * tree)) : list entry := map (fun bc => (p ++ [fst bc], snd bc)) cs.

Lemma pd_push_node p u tm cs stack : sub_at p (TNode u tm cs) ->
  push_children P (rev (alist (ct_alpha (t_table P)))) (base_of L u) u (lenN p) stack =
  Ok (map cur_of (kids p cs) ++ stack).
Proof.
  intros Hs. destruct (pd_sub_facts _ _ Hs) as [Hok _].
  inversion Hok as [|? ? ? Hu Hlf Htm Hslots Hsig Hall]; subst.
  rewrite (ph_alpha L P Hph), Halpha.
  rewrite pd_push_children; [|exact Hslots|].
  2:{ apply Forall_forall. intros b Hb. apply in_rev in Hb. rewrite pd_alpha_eq in Hb. apply filter_In in Hb.
      apply pd_in_bytes256. apply Hb. }
  f_equal. f_equal. rewrite pd_filter_rev, map_rev, rev_involutive.
  rewrite pd_alpha_eq, pd_filter_filter.
  2:{ intros b Hb Hc. apply (pd_child_occurs p u _ cs b Hs); [apply pd_in_bytes256; exact Hb|exact Hc]. }
  unfold kids. rewrite map_map.
  transitivity (map (fun sg => mkCur (fst sg) (lenN p + 1) (snd sg)) (child_sig cs)).
  - rewrite Hsig, map_map. reflexivity.
  - unfold child_sig. rewrite map_map. apply map_ext. intros [b c]. unfold cur_of. cbn [fst snd].
    rewrite last_last, pd_lenN_snoc. reflexivity.
Qed.

(* ---- m_decoded.resize(kpos); back() = label ---- *)
Definition dec_after (d : key) (c : cursor) : key :=
  if 0 <? c_kpos c then set_label d (c_kpos c) (c_label c) else d.

Lemma pd_set_label (p x : key) (b : N) : set_label (p ++ x) (lenN (p ++ [b])) b = p ++ [b].
Proof.
  unfold set_label. f_equal.
  assert (E : N.to_nat (lenN (p ++ [b])) = (length p + 1)%nat).
  { unfold lenN. rewrite app_length. cbn [length]. lia. }
  rewrite E, firstn_app_2, app_length.
  destruct x as [|y x].
  - cbn [firstn length]. replace (length p + 1 - (length p + 0))%nat with 1%nat by lia.
    cbn [repeat]. rewrite app_nil_r. apply removelast_last.
  - cbn [firstn length]. replace (length p + 1 - (length p + S (length x)))%nat with 0%nat by lia.
    cbn [repeat]. rewrite app_nil_r. apply removelast_last.
Qed.

Lemma pd_dec_after_snoc (p x : key) (b : N) (t : tree) : dec_after (p ++ x) (cur_of (p ++ [b], t)) = p ++ [b].
Proof.
  unfold dec_after, cur_of. cbn [c_kpos c_label fst snd]. rewrite last_last.
  destruct (N.ltb_spec 0 (lenN (p ++ [b]))) as [H|H]; [apply pd_set_label|].
  rewrite pd_lenN_snoc in H. lia.
Qed.

Lemma pd_dec_after_self (p : key) (t : tree) : dec_after p (cur_of (p, t)) = p.
Proof.
  destruct (list_eq_dec N.eq_dec p []) as [->|Hne]; [reflexivity|].
  assert (H := pd_dec_after_snoc (removelast p) [last p 0] (last p 0) t).
  rewrite <- (app_removelast_last 0 Hne) in H. exact H.
Qed.

Lemma pd_phys_leaf u s : tree_ok L (TLeaf u s) ->
  bc_is_leaf (t_bc P) u = Ok true /\ npos_to_id P u = Ok (rank_of (lg_terms L) u) /\
  exists tpos, bc_link (t_bc P) u = Ok tpos /\ (s = [] <-> tpos = 0) /\ t_decode (t_tail P) tpos = Ok s.
Proof.
  intros H. inversion H as [? ? Hu Hlf Hs|]; subst. fold n in Hu.
  split; [rewrite (ph_leaf L P Hph u Hu), Hlf; reflexivity|].
  split; [apply (ph_rank L P Hph); fold n; lia|].
  destruct (ph_link L P Hph u Hu Hlf) as [tpos [H1 [_ [H2 [H3 _]]]]].
  exists tpos. auto.
Qed.

Lemma pd_phys_node u tm cs : tree_ok L (TNode u tm cs) ->
  bc_is_leaf (t_bc P) u = Ok false /\ bc_base (t_bc P) u = Ok (base_of L u) /\
  bv_get (t_terms P) u = Ok tm /\ npos_to_id P u = Ok (rank_of (lg_terms L) u).
Proof.
  intros H. inversion H as [|? ? ? Hu Hlf Htm _ _ _]; subst. fold n in Hu.
  split; [rewrite (ph_leaf L P Hph u Hu), Hlf; reflexivity|].
  split; [apply (ph_base L P Hph u Hu Hlf)|].
  split; [apply (ph_term L P Hph u Hu)|].
  apply (ph_rank L P Hph); fold n; lia.
Qed.

(* ---- the DFS ---- *)
Definition st (k : key) (id : N) (d : key) (s : list entry) : pred_it :=
  mkPred true k id d (map cur_of s) false false.
Fixpoint pending (d : key) (s : list entry) : Prop :=
  match s with
  | [] => True
  | e :: r => dec_after d (cur_of e) = fst e /\ forall x, pending (fst e ++ x) r
  end.
Definition out_of (s : list entry) : list key := flat_map (fun e => map (app (fst e)) (keys_of (snd e))) s.
Definition entries_ok (s : list entry) : Prop := Forall (fun e => sub_at (fst e) (snd e)) s.

Lemma pd_pending_kids : forall cs p r, (forall x, pending (p ++ x) r) ->
  forall x, pending (p ++ x) (kids p cs ++ r).
Proof.
  induction cs as [|[b c] cs IH]; intros p r Hr x; [apply Hr|].
  cbn [kids map app fst snd pending]. split; [apply pd_dec_after_snoc|].
  intros y. rewrite <- app_assoc. apply (IH p r Hr).
Qed.

Lemma pd_out_kids p : forall cs, out_of (kids p cs) = map (app p) (keys_cs cs).
Proof.
  induction cs as [|[b c] cs IH]; [reflexivity|].
  unfold out_of, keys_cs in *. cbn [kids map flat_map fst snd]. rewrite map_app. fold (kids p cs). rewrite IH.
  f_equal. rewrite map_map. apply map_ext. intros k. rewrite <- app_assoc. reflexivity.
Qed.

Lemma pd_out_app s1 s2 : out_of (s1 ++ s2) = out_of s1 ++ out_of s2.
Proof. apply flat_map_app. Qed.

Lemma pd_kids_ok p u tm cs : sub_at p (TNode u tm cs) -> entries_ok (kids p cs).
Proof.
  intros Hs. apply Forall_forall. intros e He. unfold kids in He. apply in_map_iff in He.
  destruct He as [[b c] [<- Hin]]. cbn [fst snd]. apply (sub_child p u tm cs b c Hs Hin).
Qed.

Lemma pd_dfs_S f k id d c stk :
  pred_dfs (S f) P (mkPred true k id d (c :: stk) false false) =
  (do lf <- bc_is_leaf (t_bc P) (c_npos c);
   if lf then
     do id' <- npos_to_id P (c_npos c);
     do tpos <- bc_link (t_bc P) (c_npos c);
     do suf <- t_decode (t_tail P) tpos;
     Ok (mkPred true k id' (dec_after d c ++ suf) stk false false, true)
   else
     do base <- bc_base (t_bc P) (c_npos c);
     do stack' <- push_children P (rev (alist (ct_alpha (t_table P)))) base (c_npos c) (c_kpos c) stk;
     do tm <- bv_get (t_terms P) (c_npos c);
     if tm then do id' <- npos_to_id P (c_npos c); Ok (mkPred true k id' (dec_after d c) stack' false false, true)
     else pred_dfs f P (mkPred true k id (dec_after d c) stack' false false)).
Proof. reflexivity. Qed.

Lemma pd_dfs_call : forall f p t r d k id,
  sub_at p t -> entries_ok r -> pending d ((p, t) :: r) -> (length (nodes_of t) <= f)%nat ->
  exists key s',
    pred_dfs f P (st k id d ((p, t) :: r)) = Ok (st k (idk key) key s', true) /\
    out_of ((p, t) :: r) = key :: out_of s' /\ entries_ok s' /\ pending key s'.
Proof.
  induction f as [|f IH]; intros p t r d k id Hs Hr Hpend Hsz.
  - assert (H := pd_nodes_nonempty t). lia.
  - destruct Hpend as [Hdec Hrest]. cbn [fst] in Hdec, Hrest.
    unfold st at 1. cbn [map]. rewrite pd_dfs_S. rewrite Hdec.
    cbn [cur_of c_npos c_kpos fst snd].
    destruct (pd_sub_facts p t Hs) as [Hok [Hlive _]].
    destruct t as [u s|u tm cs]; cbn [root_of].
    + destruct (pd_phys_leaf u s Hok) as [H1 [H2 [tpos [H3 [_ H4]]]]].
      rewrite H1, pd_bind_ok, H2, pd_bind_ok, H3, pd_bind_ok, H4, pd_bind_ok.
      exists (p ++ s), r. split; [|split; [|split]].
      * unfold st. rewrite (pd_sub_id p (TLeaf u s) s u Hs); [reflexivity|left; reflexivity|apply pd_find_leaf].
      * unfold out_of. cbn [flat_map fst snd keys_of map app]. reflexivity.
      * exact Hr.
      * apply Hrest.
    + destruct (pd_phys_node u tm cs Hok) as [H1 [H2 [H3 H4]]].
      rewrite H1, pd_bind_ok, H2, pd_bind_ok, (pd_push_node p u tm cs _ Hs), pd_bind_ok, H3, pd_bind_ok.
      rewrite <- map_app.
      assert (Hk := pd_pending_kids cs p r Hrest []). rewrite app_nil_r in Hk.
      assert (Hko : entries_ok (kids p cs ++ r)).
      { apply Forall_app. split; [apply (pd_kids_ok p u tm cs Hs)|exact Hr]. }
      assert (Hout : out_of ((p, TNode u tm cs) :: r) =
                     (if tm then [p] else []) ++ out_of (kids p cs ++ r)).
      { rewrite pd_out_app, pd_out_kids. unfold out_of at 1. cbn [flat_map fst snd]. fold (out_of r).
        rewrite pd_keys_node, map_app, <- app_assoc. f_equal.
        destruct tm; [cbn [map]; rewrite app_nil_r|]; reflexivity. }
      destruct tm.
      * rewrite H4, pd_bind_ok. exists p, (kids p cs ++ r). split; [|split; [|split]]; auto.
        unfold st. f_equal. f_equal.
        assert (E := pd_sub_id p (TNode u true cs) [] u Hs). rewrite app_nil_r in E.
        rewrite E; [reflexivity| |reflexivity]. rewrite pd_keys_node. left. reflexivity.
      * inversion Hlive as [|? ? ? Hor _]; subst. destruct Hor as [Hf|Hne]; [discriminate|].
        destruct cs as [|[b c] cs']; [congruence|].
        cbn [kids map fst snd app] in *. fold (kids p cs') in *.
        inversion Hko as [|? ? Hc Hko']; subst. cbn [fst snd] in Hc.
        destruct (IH (p ++ [b]) c (kids p cs' ++ r) p k id Hc Hko' Hk) as [key [s' [E1 [E2 [E3 E4]]]]].
        { rewrite pd_nodes_node in Hsz. cbn [length] in Hsz.
          assert (Hl := pd_in_nodes_cs b c ((b, c) :: cs') (or_introl eq_refl)). lia. }
        exists key, s'. split; [|split; [|split]]; auto.
        rewrite Hout. cbn [app]. exact E2.
Qed.

Lemma pd_next_dfs k id d s :
  next_predictive P (st k id d s) = pred_dfs (S (N.to_nat (t_num_units P))) P (st k id d s).
Proof. reflexivity. Qed.

Lemma pd_dfs_empty f k id d : pred_dfs f P (st k id d []) = Ok (mkPred true k id d [] false true, false).
Proof. destruct f; reflexivity. Qed.

Lemma pd_calls_ended it : d_end it = true -> forall m, pred_calls P it m = Ok (repeat None m).
Proof.
  intros He. assert (E : next_predictive P it = Ok (it, false)).
  { unfold next_predictive. rewrite He. destruct (negb (d_obj it)); reflexivity. }
  induction m as [|m IH]; [reflexivity|].
  cbn [pred_calls]. rewrite E, pd_bind_ok. cbv beta iota. rewrite IH, pd_bind_ok. reflexivity.
Qed.

Theorem pd_dfs_calls : forall m s d k id, entries_ok s -> pending d s ->
  pred_calls P (st k id d s) m = Ok (abs_calls (with_ids P (out_of s)) m).
Proof.
  induction m as [|m IH]; intros s d k id Hs Hp; [reflexivity|].
  cbn [pred_calls]. rewrite pd_next_dfs. destruct s as [|[p t] r].
  - rewrite pd_dfs_empty, pd_bind_ok. cbv beta iota.
    rewrite pd_calls_ended by reflexivity. rewrite pd_bind_ok.
    cbn [out_of flat_map with_ids map]. rewrite pd_abs_nil. reflexivity.
  - inversion Hs as [|? ? Hpt Hr]; subst. cbn [fst snd] in Hpt.
    destruct (pd_dfs_call (S (N.to_nat (t_num_units P))) p t r d k id Hpt Hr Hp) as [key [s' [E1 [E2 [E3 E4]]]]].
    { assert (H := pd_sub_size p t Hpt). rewrite (ph_units L P Hph). fold n. lia. }
    rewrite E1, pd_bind_ok. cbv beta iota. rewrite (IH s' key k (idk key) E3 E4), pd_bind_ok.
    rewrite E2. change (with_ids P (key :: out_of s')) with ((idk key, key) :: with_ids P (out_of s')).
    rewrite pd_abs_cons. reflexivity.
Qed.

(* ---- the descent along the query ---- *)
Definition first_call (it : pred_it) (rest : key) (kpos npos : N) (dec : key) : res (pred_it * bool) :=
  do '(it1, r) <- pred_descend P it rest kpos npos dec;
  match r with
  | Some b => Ok (it1, b)
  | None => pred_dfs (S (N.to_nat (t_num_units P))) P it1
  end.
Definition calls_after (x : res (pred_it * bool)) (m : nat) : res (list (option (N * key))) :=
  do '(it', b) <- x;
  do r <- pred_calls P it' m;
  Ok ((if b then Some (d_id it', d_dec it') else None) :: r).

Lemma pd_calls_mk q m :
  pred_calls P (mk_predictive q) (S m) = calls_after (first_call (mk_predictive q) q 0 0 []) m.
Proof. reflexivity. Qed.

Lemma pd_calls_after_end it b m : d_end it = true ->
  calls_after (Ok (it, b)) m = Ok ((if b then Some (d_id it, d_dec it) else None) :: repeat None m).
Proof.
  intros He. unfold calls_after. rewrite pd_bind_ok. cbv beta iota.
  rewrite (pd_calls_ended it He), pd_bind_ok. reflexivity.
Qed.

Lemma pd_filter_prefix_nil (l : list key) : filter (is_prefixb []) l = l.
Proof.
  induction l as [|x l IH]; [reflexivity|]. cbn [filter]. change (is_prefixb [] x) with true.
  cbv iota. f_equal. exact IH.
Qed.

Lemma pd_filter_cons b b' r (ks : list key) :
  filter (is_prefixb (b :: r)) (map (cons b') ks) =
  if b =? b' then map (cons b') (filter (is_prefixb r) ks) else [].
Proof.
  induction ks as [|k ks IH]; [destruct (b =? b'); reflexivity|].
  cbn [map filter]. rewrite IH. change (is_prefixb (b :: r) (b' :: k)) with ((b =? b') && is_prefixb r k).
  destruct (b =? b'); cbn [andb]; [|reflexivity].
  cbn [filter]. destruct (is_prefixb r k); reflexivity.
Qed.

Lemma pd_comp_notin b r : forall cs, ~ In b (map fst cs) -> filter (is_prefixb (b :: r)) (keys_cs cs) = [].
Proof.
  induction cs as [|[b' c'] cs IH]; intros Hni; [reflexivity|].
  unfold keys_cs in *. cbn [flat_map fst snd]. rewrite filter_app, pd_filter_cons.
  cbn [map fst In] in Hni.
  destruct (N.eqb_spec b b') as [->|Hne]; [exfalso; apply Hni; left; reflexivity|].
  cbn [app]. apply IH. intros H. apply Hni. right. exact H.
Qed.

Lemma pd_comp_in b r c : forall cs, NoDup (map fst cs) -> In (b, c) cs ->
  filter (is_prefixb (b :: r)) (keys_cs cs) = map (cons b) (filter (is_prefixb r) (keys_of c)).
Proof.
  induction cs as [|[b' c'] cs IH]; intros Hnd Hin; [destruct Hin|].
  cbn [map fst] in Hnd. inversion Hnd as [|? ? Hni Hnd']; subst.
  unfold keys_cs in *. cbn [flat_map fst snd]. rewrite filter_app, pd_filter_cons.
  destruct Hin as [E|Hin].
  - inversion E; subst. rewrite N.eqb_refl. fold (keys_cs cs). rewrite pd_comp_notin by exact Hni.
    apply app_nil_r.
  - destruct (N.eqb_spec b b') as [->|Hne].
    + exfalso. apply Hni. apply in_map_iff. exists (b', c). split; [reflexivity|exact Hin].
    + cbn [app]. apply IH; assumption.
Qed.

Lemma pd_comp_node b r u tm cs :
  filter (is_prefixb (b :: r)) (keys_of (TNode u tm cs)) = filter (is_prefixb (b :: r)) (keys_cs cs).
Proof. rewrite pd_keys_node, filter_app. destruct tm; reflexivity. Qed.

Lemma pd_head_rev (p : key) : match rev p with [] => 0 | c :: _ => c end = last p 0.
Proof.
  destruct p as [|x p] using rev_ind; [reflexivity|]. rewrite rev_unit, last_last. reflexivity.
Qed.

Lemma pd_descend_cons it b rest' kpos npos dec :
  pred_descend P it (b :: rest') kpos npos dec =
  (do lf <- bc_is_leaf (t_bc P) npos;
   if lf then
     do tpos <- bc_link (t_bc P) npos;
     if tpos =? 0 then Ok (mkPred true (d_key it) (d_id it) (rev dec) [] false true, Some false) else
     do suf <- t_decode (t_tail P) tpos;
     let d := rev dec ++ suf in
     if prefixb (b :: rest') suf then
       do id <- npos_to_id P npos;
       Ok (mkPred true (d_key it) id d [] false true, Some true)
     else Ok (mkPred true (d_key it) (d_id it) d [] false true, Some false)
   else
     do '(cpos, ok) <- child P npos b;
     if negb ok then Ok (mkPred true (d_key it) (d_id it) (rev dec) [] false true, Some false)
     else pred_descend P it rest' (kpos + 1) cpos (b :: dec)).
Proof. reflexivity. Qed.

Theorem pd_descend_calls m : forall rest p t it,
  sub_at p t -> bytes_ok rest = true ->
  calls_after (first_call it rest (lenN p) (root_of t) (rev p)) m =
  Ok (abs_calls (with_ids P (map (app p) (filter (is_prefixb rest) (keys_of t)))) (S m)).
Proof.
  induction rest as [|b rest' IH]; intros p t it Hs Hb.
  - unfold first_call. cbn [pred_descend]. rewrite pd_bind_ok. cbv beta iota.
    rewrite pd_head_rev, rev_involutive.
    change (mkPred true (d_key it) (d_id it) p [mkCur (last p 0) (lenN p) (root_of t)] false false)
      with (st (d_key it) (d_id it) p [(p, t)]).
    rewrite <- pd_next_dfs.
    change (calls_after (next_predictive P (st (d_key it) (d_id it) p [(p, t)])) m)
      with (pred_calls P (st (d_key it) (d_id it) p [(p, t)]) (S m)).
    rewrite pd_dfs_calls.
    + rewrite pd_filter_prefix_nil. unfold out_of. cbn [flat_map fst snd]. rewrite app_nil_r. reflexivity.
    + constructor; [exact Hs|constructor].
    + cbn [pending fst]. split; [apply pd_dec_after_self|trivial].
  - cbn [bytes_ok forallb] in Hb. apply andb_prop in Hb. destruct Hb as [Hb Hb']. apply N.ltb_lt in Hb.
    destruct (pd_sub_facts p t Hs) as [Hok _].
    unfold first_call. rewrite pd_descend_cons.
    destruct t as [u s|u tm cs]; cbn [root_of].
    + destruct (pd_phys_leaf u s Hok) as [H1 [H2 [tpos [H3 [Hz H4]]]]].
      rewrite H1, pd_bind_ok, H3, pd_bind_ok.
      destruct (N.eqb_spec tpos 0) as [E0|E0].
      * rewrite pd_bind_ok. cbv beta iota. rewrite pd_calls_after_end by reflexivity.
        apply Hz in E0. subst s. cbn [keys_of filter is_prefixb map with_ids]. rewrite pd_abs_nil. reflexivity.
      * rewrite H4, pd_bind_ok. cbv zeta. rewrite rev_involutive.
        change (prefixb (b :: rest') s) with (is_prefixb (b :: rest') s).
        cbn [keys_of filter].
        destruct (is_prefixb (b :: rest') s).
        -- rewrite H2, !pd_bind_ok. cbv beta iota. rewrite pd_calls_after_end by reflexivity.
           cbn [d_id d_dec map]. rewrite pd_with_ids. cbn [map]. rewrite pd_abs_cons, pd_abs_nil.
           rewrite (pd_sub_id p (TLeaf u s) s u Hs); [reflexivity|left; reflexivity|apply pd_find_leaf].
        -- rewrite pd_bind_ok. cbv beta iota. rewrite pd_calls_after_end by reflexivity.
           cbn [map with_ids]. rewrite pd_abs_nil. reflexivity.
    + destruct (pd_phys_node u tm cs Hok) as [H1 [H2 [H3 H4]]].
      rewrite H1, pd_bind_ok. unfold child.
      rewrite H2, pd_bind_ok, (ph_code L P Hph b Hb), pd_bind_ok. fold (slot L u b).
      assert (Hslot : slot L u b < n). { inversion Hok; subst; auto. }
      rewrite (ph_check L P Hph _ Hslot), !pd_bind_ok. cbv beta iota. fold (is_child L u b).
      rewrite pd_comp_node.
      destruct (is_child L u b) eqn:Ec; cbn [negb].
      * destruct (pd_ok_child_in L u tm cs b Hok Hb Ec) as [c [Hin Hroot]].
        assert (Hs' := sub_child p u tm cs b c Hs Hin).
        assert (E := IH (p ++ [b]) c it Hs' Hb').
        rewrite pd_lenN_snoc, Hroot, rev_unit in E. unfold first_call in E. rewrite E.
        rewrite (pd_comp_in b rest' c cs (pd_ok_children_nodup L u tm cs Hok) Hin), map_map.
        f_equal. f_equal. f_equal. apply map_ext. intros k. rewrite <- app_assoc. reflexivity.
      * rewrite pd_bind_ok. cbv beta iota. rewrite pd_calls_after_end by reflexivity.
        rewrite (pd_comp_notin b rest' cs (pd_ok_child_notin L u tm cs b Hok Ec)).
        cbn [map with_ids]. rewrite pd_abs_nil. reflexivity.
Qed.

(* ---- the iterator from its initial state ---- *)
Hypothesis HT_root : root_of T = 0.
Hypothesis Hnk : lg_nkeys L = lenN (keys_of T).

Theorem pd_pred_calls q m : bytes_ok q = true ->
  pred_calls P (mk_predictive q) m = Ok (abs_calls (with_ids P (spec_completions (keys_of T) q)) m).
Proof.
  intros Hq. destruct m as [|m]; [reflexivity|].
  rewrite pd_calls_mk.
  assert (E := pd_descend_calls m q [] T (mk_predictive q) sub_root Hq).
  rewrite HT_root in E. cbn [rev] in E. change (lenN (@nil N)) with 0 in E. rewrite E.
  replace (map (app []) (filter (is_prefixb q) (keys_of T))) with (filter (is_prefixb q) (keys_of T))
    by (symmetry; apply map_id).
  reflexivity.
Qed.

Lemma pd_run_of_calls : forall f it l,
  (forall m, pred_calls P it m = Ok (abs_calls l m)) -> (length l < f)%nat -> run_predictive f P it = Ok l.
Proof.
  induction f as [|f IH]; intros it l H Hlen; [lia|].
  cbn [run_predictive]. assert (H1 := H 1%nat). cbn [pred_calls] in H1.
  destruct (next_predictive P it) as [[it' b]| |] eqn:En; cbn [bind] in H1; try discriminate.
  destruct l as [|x l'].
  - rewrite pd_abs_nil in H1. cbn [repeat] in H1. destruct b; [discriminate|]. reflexivity.
  - rewrite pd_abs_cons in H1. destruct b; [|discriminate]. inversion H1 as [Hx].
    rewrite pd_bind_ok. cbv beta iota. rewrite (IH it' l').
    + reflexivity.
    + intros m. assert (Hm := H (S m)). cbn [pred_calls] in Hm. rewrite En, pd_bind_ok in Hm. cbv beta iota in Hm.
      rewrite pd_abs_cons in Hm. destruct (pred_calls P it' m) as [r| |]; cbn [bind] in Hm; try discriminate.
      inversion Hm. reflexivity.
    + cbn [length] in Hlen. lia.
Qed.

Lemma pd_filter_length_le {A} (g : A -> bool) : forall l, (length (filter g l) <= length l)%nat.
Proof. induction l as [|x l IH]; [cbn; lia|]. cbn [filter]. destruct (g x); cbn [length]; lia. Qed.

Theorem pd_pred_search q : bytes_ok q = true ->
  predictive_search P q = Ok (with_ids P (spec_completions (keys_of T) q)).
Proof.
  intros Hq. unfold predictive_search. apply pd_run_of_calls.
  - intros m. apply pd_pred_calls. exact Hq.
  - rewrite pd_with_ids, map_length. unfold spec_completions.
    assert (H := pd_filter_length_le (fun k => is_prefixb q k) (keys_of T)).
    rewrite (ph_nkeys L P Hph), Hnk. unfold lenN. lia.
Qed.
End Fixed.

(* ------------------------------------------------------------------ *)
(* the interface statement                                             *)
(* ------------------------------------------------------------------ *)
Section Main.
Hypothesis Hphys : PhysSpec.
Hypothesis Hlook : LookupNodeSpec.

Theorem predictive_spec : PredictiveSpec.
Proof.
  intros v L P K Hwf q Hq.
  assert (Hph := Hphys v L P K Hwf).
  destruct Hwf as [Hasm Hlwf].
  destruct (pd_lwf_inv L K Hlwf) as [T [HT [Hkeys [Hnd [Hmin [Halpha [Hnk Hbytes]]]]]]].
  assert (Hl := Hlook v L P K T (conj Hasm Hlwf) HT).
  unfold the_tree in HT. apply pd_extract_ok in HT. destruct HT as [Hok Hroot].
  assert (Hlive := pd_minimal_live T Hmin).
  subst K.
  split.
  - intros m. apply (pd_pred_calls L P T Hph Hok Hlive Hnd Halpha Hbytes Hl Hroot q m Hq).
  - apply (pd_pred_search L P T Hph Hok Hlive Hnd Halpha Hbytes Hl Hroot Hnk q Hq).
Qed.

(* enumeration is the case q = [] *)
Corollary enumerate_spec : forall v L P K, wf_for v L P K -> enumerate P = Ok (with_ids P K).
Proof.
  intros v L P K Hwf. destruct (predictive_spec v L P K Hwf [] eq_refl) as [_ H].
  unfold enumerate. rewrite H. f_equal. f_equal. unfold spec_completions.
  exact (pd_filter_prefix_nil K).
Qed.
Corollary enumerate_calls : forall v L P K, wf_for v L P K ->
  forall m, pred_calls P (mk_predictive []) m = Ok (abs_calls (with_ids P K) m).
Proof.
  intros v L P K Hwf m. destruct (predictive_spec v L P K Hwf [] eq_refl) as [H _].
  rewrite H. f_equal. f_equal. f_equal. unfold spec_completions. exact (pd_filter_prefix_nil K).
Qed.
End Main.

Print Assumptions predictive_spec.
Print Assumptions enumerate_calls.
Print Assumptions enumerate_spec.
