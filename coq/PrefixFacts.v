(* PrefixFacts.v: the common-prefix-search iterator (Trie.next_prefix / prefix_search) meets PrefixSpec.
   Main result: [prefix_spec : PhysSpec -> LookupNodeSpec -> PrefixSpec] (statement taken unchanged from
   IfaceQuery.v).  Structure:
     1. helpers; [lwf_unpack]: the certificate gives the abstract tree T with keys_of T = K
     2. inversion of extract/scan_children ([good], [good_leaf], [good_node], [findc])
     3. the abstract walk along the query ([walk], [lwalk]) = filter of keys_of by is_prefixb ([walk_keys]);
        every reported (node, key) satisfies tree_find ([walk_find]); at most |q|+1 results ([walk_len])
     4. iterator invariant [Inv]/[Inv0]; one call of next_prefix consumes one element of the walk
        ([loop_step], [next_step]); [calls_ok] (pfx_calls) and [run_ok] (run_prefix)
     5. [prefix_spec] *)
From Coq Require Import FMapPositive Lia ZifyN ZifyBool ZifyNat Arith PeanoNat.
From X Require Import Base Arr ArrFacts Consts BitToolsSpec BitToolsGen BitVector CompactVector Dac Tail Trie Spec
  Iface IfaceDac Wf IfaceQuery.
Local Open Scope N_scope.

Arguments N.mul : simpl never.
Arguments N.add : simpl never.
Arguments N.pow : simpl never.
Arguments N.lxor : simpl never.

(* ------------------------------------------------------------------ *)
(* generic helpers *)

Lemma bind_ok_inv {A B} (r : res A) (f : A -> res B) y :
  bind r f = Ok y -> exists a, r = Ok a /\ f a = Ok y.
Proof. destruct r; simpl; intros H; try discriminate. eauto. Qed.

Lemma key_eqb_eq a : forall b, key_eqb a b = true -> a = b.
Proof.
  induction a as [|x a IH]; intros [|y b] H; simpl in H; try discriminate; auto.
  apply andb_prop in H. destruct H as [H1 H2]. apply N.eqb_eq in H1. f_equal; auto.
Qed.
Lemma key_eqb_refl a : key_eqb a a = true.
Proof. induction a; simpl; auto. rewrite N.eqb_refl. auto. Qed.
Lemma list_key_eqb_eq a : forall b, list_eqb key_eqb a b = true -> a = b.
Proof.
  induction a as [|x a IH]; intros [|y b] H; simpl in H; try discriminate; auto.
  apply andb_prop in H. destruct H as [H1 H2]. apply key_eqb_eq in H1. f_equal; auto.
Qed.

Lemma vget_of_list {A} (l : list A) i d : vget (of_list l) i d = nth (N.to_nat i) l d.
Proof.
  unfold vget. rewrite get_of_list.
  destruct (nth_error l (N.to_nat i)) eqn:E.
  - symmetry. apply nth_error_nth. exact E.
  - apply nth_error_None in E. symmetry. apply nth_overflow. exact E.
Qed.

Lemma nth_firstn_lt {A} (d : A) k : forall (l : list A) i, (i < k)%nat -> nth i (firstn k l) d = nth i l d.
Proof.
  induction k; intros l i H; [lia|].
  destruct l; [destruct i; reflexivity|]. destruct i; simpl; [reflexivity|]. apply IHk. lia.
Qed.

Lemma bytes256_in b : In b bytes256 <-> b < 256.
Proof.
  unfold bytes256. rewrite in_map_iff. split.
  - intros [x [H1 H2]]. apply in_seq in H2. lia.
  - intros H. exists (N.to_nat b). split; [lia|]. apply in_seq. lia.
Qed.
Lemma bytes256_nodup : NoDup bytes256.
Proof.
  unfold bytes256. apply FinFun.Injective_map_NoDup; [|apply seq_NoDup].
  intros x y H. lia.
Qed.

Lemma bytes_ok_Forall q : bytes_ok q = true -> Forall (fun b => b < 256) q.
Proof.
  unfold bytes_ok. intros H. apply Forall_forall. intros x Hx.
  rewrite forallb_forall in H. apply H in Hx. lia.
Qed.
Lemma bytes_ok_app a b : bytes_ok (a ++ b) = bytes_ok a && bytes_ok b.
Proof. unfold bytes_ok. apply forallb_app. Qed.

Lemma is_prefixb_split s : forall r, is_prefixb s r = true -> exists r', r = s ++ r'.
Proof.
  induction s as [|x s IH]; intros r H; simpl in H.
  - exists r. reflexivity.
  - destruct r as [|y r]; [discriminate|]. apply andb_prop in H. destruct H as [H1 H2].
    apply N.eqb_eq in H1. subst y. destruct (IH _ H2) as [r' ->]. exists r'. reflexivity.
Qed.

(* ------------------------------------------------------------------ *)
(* unpacking the certificate *)

Lemma lwf_unpack L K : lwf_b L K = true ->
  exists T, the_tree L = Some T /\ keys_of T = K /\ forallb bytes_ok K = true.
Proof.
  intros H. unfold lwf_b in H. cbv zeta in H.
  repeat match goal with H : _ && _ = true |- _ => apply andb_prop in H; destruct H end.
  unfold the_tree.
  destruct (extract (S (N.to_nat (lg_maxlen L))) (view_of L) 0) as [T|]; [|discriminate].
  repeat match goal with H : _ && _ = true |- _ => apply andb_prop in H; destruct H end.
  exists T. split; [reflexivity|]. split.
  - apply list_key_eqb_eq. assumption.
  - match goal with H : valid_keys K = true |- _ => unfold valid_keys in H; destruct K; [discriminate|];
      apply andb_prop in H; destruct H; assumption end.
Qed.

(* ------------------------------------------------------------------ *)
(* the abstract tree: child lookup, and inversion of extract *)

Fixpoint findc (b : N) (cs : list (N * tree)) : option tree :=
  match cs with [] => None | (b', c) :: r => if b =? b' then Some c else findc b r end.

Lemma findc_notin b cs : ~ In b (map fst cs) -> findc b cs = None.
Proof.
  induction cs as [|[b' c] r IH]; simpl; intros H; [reflexivity|].
  destruct (N.eqb_spec b b'); [exfalso; apply H; left; congruence|]. apply IH. tauto.
Qed.

Lemma tree_find_node u tm cs b q' :
  tree_find (TNode u tm cs) (b :: q') = match findc b cs with Some c => tree_find c q' | None => None end.
Proof.
  cbn [tree_find]. induction cs as [|[b' c] r IH]; cbn [findc]; [reflexivity|].
  destruct (b =? b'); [reflexivity|]. exact IH.
Qed.

Section Tree.
Variable L : logical.
Definition isleaf (u : N) : bool := nthb (lg_leaves L) u.
Definition isterm (u : N) : bool := nthb (lg_terms L) u.
Definition baseof (u : N) : N := fst (nthu (lg_units L) u).
Definition chkof (u : N) : N := snd (nthu (lg_units L) u).
Definition slot (u b : N) : N := N.lxor (baseof u) (code_of L b).

Lemma vcode_eq b : b < 256 -> vget (v_code (view_of L)) b 0 = code_of L b.
Proof.
  intros H. unfold view_of; cbn [v_code]. rewrite vget_of_list. unfold code_of.
  apply nth_firstn_lt. lia.
Qed.

Lemma scan_inv (rec : N -> option tree) base u : forall bytes cs,
  NoDup bytes -> (forall b, In b bytes -> b < 256) ->
  scan_children (view_of L) rec bytes base u = Some cs ->
  (forall b, In b (map fst cs) -> In b bytes) /\ NoDup (map fst cs) /\
  forall b, In b bytes ->
    N.lxor base (code_of L b) < lenN (lg_units L) /\
    findc b cs = if chkof (N.lxor base (code_of L b)) =? u then rec (N.lxor base (code_of L b)) else None.
Proof.
  induction bytes as [|b1 r IH]; intros cs Hnd Hb H; cbn [scan_children] in H.
  - inversion H; subst. simpl. split; [tauto|]. split; [constructor|]. tauto.
  - rewrite vcode_eq in H by (apply Hb; left; reflexivity).
    set (c := N.lxor base (code_of L b1)) in *.
    unfold view_of in H at 1; cbn [v_n] in H.
    destruct (N.ltb_spec c (lenN (lg_units L))) as [Hc|Hc]; cbn [negb] in H; [|discriminate].
    destruct (scan_children (view_of L) rec r base u) as [rest|] eqn:E; [|discriminate].
    inversion Hnd as [|? ? Hni Hnd']; subst.
    destruct (IH rest Hnd' (fun b Hin => Hb b (or_intror Hin)) eq_refl) as [I1 [I2 I3]].
    unfold view_of in H at 1; cbn [v_units] in H. rewrite vget_of_list in H.
    change (nth (N.to_nat c) (lg_units L) (0, 0)) with (nthu (lg_units L) c) in H.
    change (snd (nthu (lg_units L) c)) with (chkof c) in H.
    destruct (chkof c =? u) eqn:Ek.
    + destruct (rec c) as [t|] eqn:Er; [|discriminate]. inversion H; subst cs. cbn [map fst].
      split; [|split].
      * intros b [Hb1|Hb1]; [left; exact Hb1|right; apply I1; exact Hb1].
      * constructor; [|exact I2]. intros Hin. apply Hni. apply I1. exact Hin.
      * intros b [Hb1|Hb1].
        -- subst b. fold c. split; [exact Hc|]. cbn [findc]. rewrite N.eqb_refl, Ek. symmetry; exact Er.
        -- destruct (I3 b Hb1) as [J1 J2]. split; [exact J1|]. cbn [findc].
           destruct (N.eqb_spec b b1) as [->|Hne]; [contradiction|]. exact J2.
    + inversion H; subst cs. split; [|split].
      * intros b Hb1. right. apply I1. exact Hb1.
      * exact I2.
      * intros b [Hb1|Hb1].
        -- subst b. fold c. split; [exact Hc|]. rewrite Ek. apply findc_notin. intros Hin. apply Hni. apply I1. exact Hin.
        -- apply I3. exact Hb1.
Qed.

Lemma extract_root f : forall u t, extract f (view_of L) u = Some t -> root_of t = u.
Proof.
  destruct f; intros u t H; cbn [extract] in H; [discriminate|].
  destruct (negb (u <? v_n (view_of L))); [discriminate|].
  destruct (vget (v_leaves (view_of L)) u false).
  - inversion H; reflexivity.
  - destruct (scan_children _ _ _ _ _); [|discriminate]. inversion H; reflexivity.
Qed.

Definition good (t : tree) : Prop := exists f, extract f (view_of L) (root_of t) = Some t.

Lemma good_leaf u s : good (TLeaf u s) ->
  u < lenN (lg_units L) /\ isleaf u = true /\ s = suffix_at (view_of L) u.
Proof.
  intros [f H]. cbn [root_of] in H. destruct f; cbn [extract] in H; [discriminate|].
  unfold view_of in H at 1; cbn [v_n] in H.
  destruct (N.ltb_spec u (lenN (lg_units L))) as [Hu|Hu]; cbn [negb] in H; [|discriminate].
  unfold view_of in H at 1; cbn [v_leaves] in H. rewrite vget_of_list in H.
  change (nth (N.to_nat u) (lg_leaves L) false) with (isleaf u) in H.
  destruct (isleaf u).
  - inversion H. auto.
  - destruct (scan_children _ _ _ _ _); [|discriminate]. inversion H.
Qed.

Lemma good_node u tm cs : good (TNode u tm cs) ->
  u < lenN (lg_units L) /\ isleaf u = false /\ tm = isterm u /\
  forall b, b < 256 ->
    slot u b < lenN (lg_units L) /\
    match findc b cs with
    | Some c => chkof (slot u b) = u /\ root_of c = slot u b /\ good c
    | None => chkof (slot u b) <> u
    end.
Proof.
  intros [f H]. cbn [root_of] in H. destruct f; cbn [extract] in H; [discriminate|].
  unfold view_of in H at 1; cbn [v_n] in H.
  destruct (N.ltb_spec u (lenN (lg_units L))) as [Hu|Hu]; cbn [negb] in H; [|discriminate].
  unfold view_of in H at 1; cbn [v_leaves] in H. rewrite vget_of_list in H.
  change (nth (N.to_nat u) (lg_leaves L) false) with (isleaf u) in H.
  destruct (isleaf u); [inversion H|].
  destruct (scan_children _ _ _ _ _) as [cs'|] eqn:E; [|discriminate].
  inversion H; subst cs'. clear H.
  split; [exact Hu|]. split; [reflexivity|]. split.
  { unfold view_of; cbn [v_terms]. rewrite vget_of_list. reflexivity. }
  unfold view_of in E at 3; cbn [v_units] in E. rewrite vget_of_list in E.
  change (fst (nth (N.to_nat u) (lg_units L) (0, 0))) with (baseof u) in E.
  destruct (scan_inv _ _ _ _ _ bytes256_nodup (fun b Hb => proj1 (bytes256_in b) Hb) E) as [_ [_ I3]].
  intros b Hb. destruct (I3 b (proj2 (bytes256_in b) Hb)) as [J1 J2]. fold (slot u b) in J1, J2.
  split; [exact J1|]. rewrite J2.
  destruct (N.eqb_spec (chkof (slot u b)) u) as [Ek|Ek]; [|exact Ek].
  destruct (extract f (view_of L) (slot u b)) as [c|] eqn:Ec.
  - split; [exact Ek|]. pose proof (extract_root _ _ _ Ec) as Hr. split; [exact Hr|].
    exists f. rewrite Hr. exact Ec.
  - (* impossible: findc gives Some when the slot is claimed *) 
    exfalso. clear -E Ec Ek Hb.
    (* scan_children would have failed *)
    assert (G : forall bytes cs0, In b bytes ->
               scan_children (view_of L) (extract f (view_of L)) bytes (baseof u) u = Some cs0 -> False).
    { induction bytes as [|b1 r IH]; intros cs0 Hin H; [destruct Hin|]. cbn [scan_children] in H.
      destruct (negb _); [discriminate|].
      destruct (scan_children (view_of L) (extract f (view_of L)) r (baseof u) u) as [rest|] eqn:E'; [|discriminate].
      destruct Hin as [->|Hin]; [|eapply IH; eauto].
      rewrite vcode_eq in H by exact Hb. fold (slot u b) in H.
      unfold view_of in H at 1; cbn [v_units] in H. rewrite vget_of_list in H.
      change (snd (nth (N.to_nat (slot u b)) (lg_units L) (0, 0))) with (chkof (slot u b)) in H.
      rewrite Ek, N.eqb_refl, Ec in H. discriminate. }
    eapply G; [|exact E]. apply bytes256_in. exact Hb.
Qed.

Lemma good_node_nodup u tm cs : good (TNode u tm cs) -> NoDup (map fst cs).
Proof.
  intros [f H]. cbn [root_of] in H. destruct f; cbn [extract] in H; [discriminate|].
  destruct (negb _); [discriminate|]. destruct (vget (v_leaves _) u false); [inversion H|].
  destruct (scan_children _ _ _ _ _) as [cs'|] eqn:E; [|discriminate].
  inversion H; subst cs'.
  destruct (scan_inv _ _ _ _ _ bytes256_nodup (fun b Hb => proj1 (bytes256_in b) Hb) E) as [_ [I2 _]]. exact I2.
Qed.

Lemma good_child u tm cs b c : good (TNode u tm cs) -> findc b cs = Some c -> b < 256 -> good c.
Proof.
  intros G F Hb. destruct (good_node _ _ _ G) as [_ [_ [_ H]]]. specialize (H b Hb). rewrite F in H. tauto.
Qed.
End Tree.

(* ------------------------------------------------------------------ *)
(* the abstract walk along the query *)

Definition keys_cs (cs : list (N * tree)) : list key :=
  (fix go (cs : list (N * tree)) : list key :=
     match cs with [] => [] | (b, c) :: r => map (cons b) (keys_of c) ++ go r end) cs.
Lemma keys_of_node u tm cs : keys_of (TNode u tm cs) = @app key (if tm then [[]] else []) (keys_cs cs).
Proof. reflexivity. Qed.
Lemma keys_cs_cons b c r : keys_cs ((b, c) :: r) = @app key (@map key key (cons b) (keys_of c)) (keys_cs r).
Proof. reflexivity. Qed.

(* the key ending at the node itself (inner terminal node) *)
Definition own (t : tree) (pre : key) : list (N * key) :=
  match t with TNode u tm _ => if tm then [(u, pre)] else [] | TLeaf _ _ => [] end.
(* what the loop of next() finds when it is entered at node t with [rest] still to read *)
Fixpoint lwalk (rest : key) (t : tree) (pre : key) {struct rest} : list (N * key) :=
  match t with
  | TLeaf u s => if is_prefixb s rest then [(u, pre ++ s)] else []
  | TNode u tm cs =>
    match rest with
    | [] => []
    | b :: r => match findc b cs with
                | None => []
                | Some c => own c (pre ++ [b]) ++ lwalk r c (pre ++ [b])
                end
    end
  end.
Definition walk (rest : key) (t : tree) (pre : key) : list (N * key) := own t pre ++ lwalk rest t pre.

Lemma filter_cons_map b rest : forall ks : list key,
  @filter key (fun k => is_prefixb k rest) (@map key key (cons b) ks) =
  match rest with
  | [] => []
  | b0 :: r => if b =? b0 then @map key key (cons b) (@filter key (fun k => is_prefixb k r) ks) else []
  end.
Proof.
  induction ks as [|k ks IH]; cbn [map filter].
  - destruct rest; [reflexivity|]. destruct (b =? n); reflexivity.
  - rewrite IH. destruct rest as [|b0 r]; cbn [is_prefixb]; [reflexivity|].
    destruct (b =? b0); cbn [andb]; [|reflexivity]. destruct (is_prefixb k r); reflexivity.
Qed.

Lemma keys_cs_nil cs : @filter key (fun k => is_prefixb k []) (keys_cs cs) = [].
Proof.
  induction cs as [|[b c] r IH]; [reflexivity|]. rewrite keys_cs_cons, filter_app, filter_cons_map. exact IH.
Qed.

Lemma keys_cs_notin b0 r cs : ~ In b0 (map fst cs) -> filter (fun k => is_prefixb k (b0 :: r)) (keys_cs cs) = [].
Proof.
  induction cs as [|[b c] cs IH]; intros H; [reflexivity|]. cbn [map fst In] in H.
  rewrite keys_cs_cons, filter_app, filter_cons_map.
  destruct (N.eqb_spec b b0); [exfalso; tauto|]. apply IH. tauto.
Qed.

Lemma keys_cs_filter b0 r cs : NoDup (map fst cs) ->
  @filter key (fun k => is_prefixb k (b0 :: r)) (keys_cs cs) =
  match findc b0 cs with
  | Some c => @map key key (cons b0) (@filter key (fun k => is_prefixb k r) (keys_of c))
  | None => []
  end.
Proof.
  induction cs as [|[b c] cs IH]; intros H; [reflexivity|]. cbn [map fst] in H. inversion H; subst.
  rewrite keys_cs_cons, filter_app, filter_cons_map. cbn [findc]. rewrite (N.eqb_sym b0 b).
  destruct (N.eqb_spec b b0) as [->|Hne].
  - etransitivity; [|apply app_nil_r]. f_equal. apply keys_cs_notin. assumption.
  - apply IH. assumption.
Qed.

Lemma walk_keys L : forall rest t pre, bytes_ok rest = true -> good L t ->
  map snd (walk rest t pre) = @map key key (app pre) (@filter key (fun k => is_prefixb k rest) (keys_of t)).
Proof.
  induction rest as [|b0 r IH]; intros t pre Hb G; destruct t as [u s|u tm cs]; unfold walk.
  - cbn [own lwalk app keys_of filter]. destruct (is_prefixb s []); reflexivity.
  - rewrite keys_of_node, filter_app, keys_cs_nil. cbn [lwalk]. rewrite !app_nil_r.
    destruct tm; cbn [own filter is_prefixb map snd]; [rewrite app_nil_r|]; reflexivity.
  - cbn [own lwalk app keys_of filter]. destruct (is_prefixb s (b0 :: r)); reflexivity.
  - rewrite keys_of_node, filter_app, (keys_cs_filter b0 r cs (good_node_nodup L _ _ _ G)).
    rewrite !map_app. f_equal.
    + destruct tm; cbn [own filter is_prefixb map snd]; [rewrite app_nil_r|]; reflexivity.
    + cbn [lwalk]. cbn [bytes_ok forallb] in Hb. apply andb_prop in Hb. destruct Hb as [Hb0 Hb].
      destruct (findc b0 cs) as [c|] eqn:F; [|reflexivity].
      fold (walk r c (pre ++ [b0])). rewrite IH.
      * rewrite map_map. apply map_ext. intros k. rewrite <- app_assoc. reflexivity.
      * exact Hb.
      * eapply good_child; eauto. lia.
Qed.

Lemma walk_find : forall rest t pre u k, In (u, k) (walk rest t pre) ->
  exists k', k = pre ++ k' /\ tree_find t k' = Some u /\ is_prefixb k' rest = true.
Proof.
  assert (Hown : forall t pre u k rest, In (u, k) (own t pre) ->
            exists k', k = pre ++ k' /\ tree_find t k' = Some u /\ is_prefixb k' rest = true).
  { intros [u0 s|u0 tm cs] pre u k rest H; cbn [own] in H; [destruct H|]. destruct tm; [|destruct H].
    destruct H as [H|[]]. inversion H; subst. exists []. rewrite app_nil_r. auto. }
  assert (Hleaf : forall u0 s pre u k rest, In (u, k) (if is_prefixb s rest then [(u0, pre ++ s)] else []) ->
            exists k', k = pre ++ k' /\ tree_find (TLeaf u0 s) k' = Some u /\ is_prefixb k' rest = true).
  { intros u0 s pre u k rest H. destruct (is_prefixb s rest) eqn:E; [|destruct H]. destruct H as [H|[]].
    inversion H; subst. exists s. cbn [tree_find]. rewrite key_eqb_refl. auto. }
  induction rest as [|b0 r IH]; intros t pre u k H; unfold walk in H; apply in_app_or in H;
    (destruct H as [H|H]; [eapply Hown; eauto|]); destruct t as [u0 s|u0 tm cs]; cbn [lwalk] in H.
  - eapply Hleaf; eauto.
  - destruct H.
  - eapply Hleaf; eauto.
  - destruct (findc b0 cs) as [c|] eqn:F; [|destruct H]. fold (walk r c (pre ++ [b0])) in H.
    destruct (IH _ _ _ _ H) as [k' [E1 [E2 E3]]]. exists (b0 :: k'). split; [|split].
    + rewrite E1, <- app_assoc. reflexivity.
    + rewrite tree_find_node, F. exact E2.
    + cbn [is_prefixb]. rewrite N.eqb_refl. exact E3.
Qed.

Lemma walk_len : forall rest t pre, (length (walk rest t pre) <= S (length rest))%nat.
Proof.
  assert (Hown : forall t pre, (length (own t pre) <= 1)%nat).
  { intros [|? [] ?] pre; simpl; lia. }
  assert (G : forall rest t pre, (length (lwalk rest t pre) <= length rest)%nat \/ 
                                 (own t pre = [] /\ (length (lwalk rest t pre) <= S (length rest))%nat)).
  { induction rest as [|b0 r IH]; intros [u s|u tm cs] pre; cbn [lwalk].
    - right. split; [reflexivity|]. destruct (is_prefixb s []); simpl; lia.
    - left. simpl. lia.
    - right. split; [reflexivity|]. destruct (is_prefixb s (b0 :: r)); simpl; lia.
    - left. destruct (findc b0 cs) as [c|]; [|simpl; lia]. rewrite app_length.
      destruct (IH c (pre ++ [b0])) as [H|[H1 H2]].
      + specialize (Hown c (pre ++ [b0])). simpl. lia.
      + rewrite H1. simpl. simpl in H2. lia. }
  intros rest t pre. unfold walk. rewrite app_length. specialize (Hown t pre).
  destruct (G rest t pre) as [H|[H1 H2]]; [lia|]. rewrite H1. simpl. lia.
Qed.

(* ------------------------------------------------------------------ *)
(* list helpers for the iterator *)

Lemma skipn_lenN {A} (pre rest : list A) : skipn (N.to_nat (lenN pre)) (pre ++ rest) = rest.
Proof.
  unfold lenN. rewrite Nat2N.id. rewrite skipn_app, skipn_all, Nat.sub_diag. reflexivity.
Qed.
Lemma firstn_lenN {A} (pre rest : list A) : firstn (N.to_nat (lenN pre)) (pre ++ rest) = pre.
Proof.
  unfold lenN. rewrite Nat2N.id. rewrite firstn_app, firstn_all, Nat.sub_diag. cbn [firstn]. apply app_nil_r.
Qed.
Lemma lenN_app {A} (a b : list A) : lenN (a ++ b) = lenN a + lenN b.
Proof. unfold lenN. rewrite app_length. lia. Qed.
Lemma kget_mid (pre rest : key) b : kget (pre ++ b :: rest) (lenN pre) = Ok b.
Proof.
  unfold kget, nthN, lenN. rewrite Nat2N.id, nth_error_app2, Nat.sub_diag by lia. reflexivity.
Qed.

Lemma firstn_repeat {A} (x : A) : forall m k, (m <= k)%nat -> firstn m (repeat x k) = repeat x m.
Proof.
  induction m; intros k H; [reflexivity|]. destruct k; [lia|]. cbn [repeat firstn]. f_equal. apply IHm. lia.
Qed.
Lemma firstn_app_repeat {A} (x : A) : forall (a : list A) m k, (m <= k)%nat ->
  firstn m (a ++ repeat x k) = firstn m (a ++ repeat x m).
Proof.
  induction a as [|y a IH]; intros m k H; cbn [app].
  - rewrite !firstn_repeat by lia. reflexivity.
  - destruct m; [reflexivity|]. cbn [firstn]. f_equal.
    rewrite (IH m k) by lia. rewrite (IH m (S m)) by lia. reflexivity.
Qed.
Lemma abs_calls_nil m : abs_calls (@nil (N * key)) (S m) = None :: abs_calls [] m.
Proof.
  unfold abs_calls. cbn [map app]. rewrite !firstn_repeat by lia. reflexivity.
Qed.
Lemma abs_calls_cons x l m : abs_calls (x :: l) (S m) = Some x :: abs_calls l m.
Proof.
  unfold abs_calls. cbn [map app firstn]. f_equal. apply firstn_app_repeat. lia.
Qed.

Lemma lwalk_leaf rest u s pre :
  lwalk rest (TLeaf u s) pre = if is_prefixb s rest then [(u, pre ++ s)] else [].
Proof. destruct rest; reflexivity. Qed.

Lemma pfx_loop_eq fuel P it : pfx_loop fuel P it =
  (do lf <- bc_is_leaf (t_bc P) (p_npos it);
  if lf then
    do tpos <- bc_link (t_bc P) (p_npos it);
    do m <- t_prefix_match (t_tail P) (skipn (N.to_nat (p_kpos it)) (p_key it)) tpos;
    match m with
    | None => Ok (mkPfx (p_obj it) (p_key it) (t_nkeys P) (p_kpos it) (p_npos it) false true, false)
    | Some n =>
      do id <- npos_to_id P (p_npos it);
      Ok (mkPfx (p_obj it) (p_key it) id (p_kpos it + n) (p_npos it) false true, true)
    end
  else
    if p_kpos it =? lenN (p_key it) then pfx_fail P it
    else
    match fuel with
    | O => Fault OutOfFuel
    | S f =>
      do b <- kget (p_key it) (p_kpos it);
      do '(cpos, ok) <- child P (p_npos it) b;
      let it1 := mkPfx (p_obj it) (p_key it) (p_id it) (p_kpos it + 1) (p_npos it) false false in
      if negb ok then pfx_fail P it1 else
      let it2 := mkPfx (p_obj it) (p_key it) (p_id it) (p_kpos it + 1) cpos false false in
      do lf2 <- bc_is_leaf (t_bc P) cpos;
      do tm <- bv_get (t_terms P) cpos;
      if negb lf2 && tm then
        do id <- npos_to_id P cpos;
        Ok (mkPfx (p_obj it) (p_key it) id (p_kpos it + 1) cpos false false, true)
      else pfx_loop f P it2
    end).
Proof. destruct fuel; reflexivity. Qed.

(* ------------------------------------------------------------------ *)
(* the iterator follows the walk *)

Section Iter.
Variable L : logical.
Variable P : trie.
Hypothesis PH : phys_ok L P.
Variable q : key.
Hypothesis Hq : bytes_ok q = true.
Variable T : tree.
Hypothesis GT : good L T.
Hypothesis RT : root_of T = 0.

Let nU := lenN (lg_units L).
Definition rk (u : N) : N := rank_of (lg_terms L) u.
Definition st (id0 kpos npos : N) (e : bool) : pfx_it := mkPfx true q id0 kpos npos false e.

Definition Inv (it : pfx_it) (l : list (N * key)) : Prop :=
  (exists id0 kpos npos, it = st id0 kpos npos true /\ l = []) \/
  (exists id0 t pre rest, it = st id0 (lenN pre) (root_of t) false /\ q = pre ++ rest /\ good L t /\
                          l = lwalk rest t pre).

Definition Step (l : list (N * key)) (r : res (pfx_it * bool)) : Prop :=
  exists it' b, r = Ok (it', b) /\
    match l with
    | [] => b = false /\ Inv it' []
    | (u, k) :: l' => b = true /\ p_id it' = rk u /\ pfx_decoded it' = k /\ Inv it' l'
    end.

Lemma own_spec t pre : good L t ->
  own t pre = if negb (isleaf L (root_of t)) && isterm L (root_of t) then [(root_of t, pre)] else [].
Proof.
  intros G. destruct t as [u s|u tm cs]; cbn [own root_of].
  - destruct (good_leaf _ _ _ G) as [_ [E _]]. rewrite E. reflexivity.
  - destruct (good_node _ _ _ _ G) as [_ [E1 [E2 _]]]. rewrite E1, <- E2. reflexivity.
Qed.

Lemma good_lt t : good L t -> root_of t < lenN (lg_units L).
Proof.
  intros G. destruct t as [u s|u tm cs]; cbn [root_of].
  - apply (good_leaf _ _ _ G).
  - apply (good_node _ _ _ _ G).
Qed.

Lemma child_ok u b : u < lenN (lg_units L) -> isleaf L u = false -> b < 256 -> slot L u b < lenN (lg_units L) ->
  child P u b = Ok (slot L u b, chkof L (slot L u b) =? u).
Proof.
  intros H1 H2 H3 H4. unfold child.
  rewrite (ph_base _ _ PH u H1 H2). cbn [bind]. rewrite (ph_code _ _ PH b H3). cbn [bind].
  fold (baseof L u). fold (slot L u b). rewrite (ph_check _ _ PH _ H4). reflexivity.
Qed.

Lemma loop_step : forall rest t pre fuel id0, good L t -> q = pre ++ rest -> (length rest <= fuel)%nat ->
  Step (lwalk rest t pre) (pfx_loop fuel P (st id0 (lenN pre) (root_of t) false)).
Proof.
  assert (Hleaf : forall rest u s pre fuel id0, good L (TLeaf u s) -> q = pre ++ rest ->
            Step (lwalk rest (TLeaf u s) pre) (pfx_loop fuel P (st id0 (lenN pre) u false))).
  { intros rest u s pre fuel id0 G Eq.
    destruct (good_leaf _ _ _ G) as [Hu [Hl Hs]].
    rewrite pfx_loop_eq. unfold st; cbn [p_npos p_kpos p_key p_obj p_id].
    rewrite (ph_leaf _ _ PH u Hu). fold (isleaf L u). rewrite Hl. cbn [bind].
    destruct (ph_link _ _ PH u Hu Hl) as [tpos [E1 [E2 [_ [_ TA]]]]]. rewrite E1. cbn [bind].
    rewrite Eq at 1. rewrite skipn_lenN.
    assert (Hr : Forall (fun b => b < 256) rest).
    { apply bytes_ok_Forall. rewrite Eq, bytes_ok_app in Hq. apply andb_prop in Hq. tauto. }
    destruct (TA rest Hr) as [_ E3]. rewrite E3. rewrite <- Hs. cbn [bind]. rewrite lwalk_leaf.
    destruct (is_prefixb s rest) eqn:Ep.
    - rewrite (ph_rank _ _ PH u) by lia. cbn [bind].
      eexists _, _. split; [reflexivity|]. cbn [p_id]. split; [reflexivity|]. split; [reflexivity|]. split.
      + unfold pfx_decoded; cbn [p_kpos p_key]. destruct (is_prefixb_split _ _ Ep) as [r' ->].
        rewrite Eq, app_assoc, <- lenN_app. apply firstn_lenN.
      + left. eexists _, _, _. split; reflexivity.
    - eexists _, _. split; [reflexivity|]. split; [reflexivity|]. left. eexists _, _, _. split; reflexivity. }
  induction rest as [|b r IH]; intros t pre fuel id0 G Eq Hf; destruct t as [u s|u tm cs]; cbn [root_of];
    try (apply Hleaf; assumption).
  - (* inner node, query exhausted *)
    destruct (good_node _ _ _ _ G) as [Hu [Hl _]].
    rewrite pfx_loop_eq. unfold st; cbn [p_npos p_kpos p_key p_obj p_id].
    rewrite (ph_leaf _ _ PH u Hu). fold (isleaf L u). rewrite Hl. cbn [bind].
    rewrite Eq at 1. rewrite app_nil_r, N.eqb_refl. unfold pfx_fail; cbn [p_npos p_kpos p_key p_obj p_id lwalk].
    eexists _, _. split; [reflexivity|]. split; [reflexivity|]. left. eexists _, _, _. split; reflexivity.
  - (* inner node, next byte b *)
    destruct (good_node _ _ _ _ G) as [Hu [Hl [_ Hc]]].
    assert (Hb : b < 256).
    { rewrite Eq, bytes_ok_app in Hq. apply andb_prop in Hq. destruct Hq as [_ H2].
      cbn [bytes_ok forallb] in H2. apply andb_prop in H2. lia. }
    specialize (Hc b Hb). destruct Hc as [Hs Hc].
    rewrite pfx_loop_eq. unfold st; cbn [p_npos p_kpos p_key p_obj p_id].
    rewrite (ph_leaf _ _ PH u Hu). fold (isleaf L u). rewrite Hl. cbn [bind].
    destruct (N.eqb_spec (lenN pre) (lenN q)) as [E|_].
    { exfalso. rewrite Eq, lenN_app in E. unfold lenN in E. cbn [length] in E. lia. }
    destruct fuel as [|f]; [cbn [length] in Hf; lia|].
    rewrite Eq at 1. rewrite kget_mid. cbn [bind].
    rewrite (child_ok u b Hu Hl Hb Hs). cbn [bind lwalk].
    destruct (findc b cs) as [c|] eqn:F.
    + destruct Hc as [Hk [Hrc Gc]]. rewrite Hk, N.eqb_refl. cbn [negb].
      rewrite (ph_leaf _ _ PH _ Hs), (ph_term _ _ PH _ Hs). cbn [bind].
      fold (isleaf L (slot L u b)). fold (isterm L (slot L u b)).
      rewrite (own_spec c (pre ++ [b]) Gc), Hrc.
      assert (El : lenN pre + 1 = lenN (pre ++ [b])) by (rewrite lenN_app; reflexivity).
      assert (Eq' : q = (pre ++ [b]) ++ r) by (rewrite <- app_assoc; exact Eq).
      destruct (negb (isleaf L (slot L u b)) && isterm L (slot L u b)).
      * rewrite (ph_rank _ _ PH (slot L u b)) by lia. cbn [bind app].
        eexists _, _. split; [reflexivity|]. cbn [p_id]. split; [reflexivity|]. split; [reflexivity|]. split.
        -- unfold pfx_decoded; cbn [p_kpos p_key]. rewrite El. rewrite Eq' at 1. apply firstn_lenN.
        -- right. exists (rank_of (lg_terms L) (slot L u b)), c, (pre ++ [b]), r.
           rewrite Hrc, <- El. unfold st. auto.
      * cbn [app]. rewrite El, <- Hrc. apply IH; auto. cbn [length] in Hf. lia.
    + destruct (N.eqb_spec (chkof L (slot L u b)) u) as [E|_]; [contradiction|]. cbn [negb].
      unfold pfx_fail; cbn [p_npos p_kpos p_key p_obj p_id].
      eexists _, _. split; [reflexivity|]. split; [reflexivity|]. left. eexists _, _, _. split; reflexivity.
Qed.
Definition Inv0 (it : pfx_it) (l : list (N * key)) : Prop :=
  (it = mk_prefix q /\ l = walk q T []) \/ Inv it l.

Lemma next_step it l : Inv0 it l -> Step l (next_prefix P it).
Proof.
  intros [[-> ->]|[[id0 [kpos [npos [-> ->]]]]|[id0 [t [pre [rest [-> [Eq [G ->]]]]]]]]].
  - (* first call *)
    pose proof (good_lt T GT) as H0. rewrite RT in H0.
    unfold next_prefix, mk_prefix; cbn [p_obj p_end p_beg p_npos p_key p_id p_kpos negb].
    rewrite (ph_leaf _ _ PH 0 H0), (ph_term _ _ PH 0 H0). cbn [bind].
    fold (isleaf L 0). fold (isterm L 0). unfold walk. rewrite (own_spec T [] GT), RT.
    destruct (negb (isleaf L 0) && isterm L 0).
    + rewrite (ph_rank _ _ PH 0) by lia. cbn [bind app].
      eexists _, _. split; [reflexivity|]. cbn [p_id]. split; [reflexivity|]. split; [reflexivity|].
      split; [reflexivity|]. right. exists (rank_of (lg_terms L) 0), T, [], q. rewrite RT. auto.
    + cbn [bind app].
      pose proof (loop_step q T [] (S (length q)) 0 GT eq_refl (le_S _ _ (le_n _))) as H. rewrite RT in H. exact H.
  - (* finished *)
    unfold next_prefix, st; cbn [p_obj p_end negb].
    eexists _, _. split; [reflexivity|]. split; [reflexivity|]. left. eexists _, _, _. split; reflexivity.
  - unfold next_prefix, st; cbn [p_obj p_end p_beg p_npos p_key p_id p_kpos negb bind].
    apply loop_step; auto. rewrite Eq, app_length. lia.
Qed.

Definition idk (uk : N * key) : N * key := (rk (fst uk), snd uk).

Lemma calls_ok : forall n it l, Inv0 it l -> pfx_calls P it n = Ok (abs_calls (map idk l) n).
Proof.
  induction n as [|m IH]; intros it l H; [reflexivity|]. cbn [pfx_calls].
  destruct (next_step it l H) as [it' [b [E M]]]. rewrite E. cbn [bind]. destruct l as [|[u k] l'].
  - destruct M as [-> I]. rewrite (IH it' [] (or_intror I)). cbn [bind map]. rewrite abs_calls_nil. reflexivity.
  - destruct M as [-> [E1 [E2 I]]]. rewrite (IH it' l' (or_intror I)). cbn [bind map]. 
    rewrite abs_calls_cons, E1, E2. reflexivity.
Qed.

Lemma run_ok : forall fuel it l, Inv0 it l -> (length l < fuel)%nat -> run_prefix fuel P it = Ok (map idk l).
Proof.
  induction fuel as [|f IH]; intros it l H Hl; [lia|]. cbn [run_prefix].
  destruct (next_step it l H) as [it' [b [E M]]]. rewrite E. cbn [bind]. destruct l as [|[u k] l'].
  - destruct M as [-> I]. reflexivity.
  - destruct M as [-> [E1 [E2 I]]]. rewrite (IH it' l' (or_intror I)) by (cbn [length] in Hl; lia). cbn [bind map].
    rewrite E1, E2. reflexivity.
Qed.
End Iter.

(* ------------------------------------------------------------------ *)
Section Main.
Hypothesis Hphys : PhysSpec.
Hypothesis Hlook : LookupNodeSpec.

Theorem prefix_spec : PrefixSpec.
Proof.
  intros v L P K W q Hq. pose proof (Hphys _ _ _ _ W) as PH.
  destruct (lwf_unpack _ _ (proj2 W)) as [T [HT [HK HB]]].
  assert (RT : root_of T = 0) by (eapply extract_root; exact HT).
  assert (GT : good L T) by (exists (S (N.to_nat (lg_maxlen L))); rewrite RT; exact HT).
  assert (EL : with_ids P (spec_prefixes K q) = map (idk L) (walk q T [])).
  { unfold with_ids, spec_prefixes. rewrite <- HK.
    pose proof (walk_keys L q T [] Hq GT) as WK.
    assert (WK' : map snd (walk q T []) = @filter key (fun k => is_prefixb k q) (keys_of T)).
    { rewrite WK. apply map_id. }
    clear WK. rename WK' into WK.
    rewrite <- WK, map_map. apply map_ext_in. intros [u k] Hin. unfold idk; cbn [fst snd].
    destruct (walk_find _ _ _ _ _ Hin) as [k' [E1 [E2 E3]]]. cbn [app] in E1. subst k'.
    assert (Hbk : bytes_ok k = true).
    { destruct (is_prefixb_split _ _ E3) as [r' Er]. rewrite Er, bytes_ok_app in Hq. apply andb_prop in Hq. tauto. }
    unfold lk. rewrite Hbk, (Hlook v L P K T W HT k Hbk), E2. reflexivity. }
  split.
  - intros n. rewrite EL. apply (calls_ok L P PH q Hq T GT RT). left. auto.
  - rewrite EL. unfold prefix_search. apply (run_ok L P PH q Hq T GT RT).
    + left. auto.
    + pose proof (walk_len q T []). lia.
Qed.
End Main.

Print Assumptions prefix_spec.
