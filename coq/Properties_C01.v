(* C01: keys and IDs are in bijection; decode(lookup(k)) = k; num_keys = |K|; decode beyond N is empty;
   construction succeeds for every valid key list, every variant, both modes. *)
From X Require Import Base Arr Dac Trie Spec Wf IfaceQuery IfaceBuild Builder All AllBuild Examples ExampleFacts
  AccessLib AccessGen AccessDispatch AccessTrieGen AllAccessTrie.
Local Open Scope N_scope.

(* construction: for every valid key list (bounded total size) and every code table that is a permutation
   (the std::sort oracle), the builder returns a dictionary whose logical content passes the certificate
   check for exactly K -- so everything below applies to it *)
Theorem C01_construction_succeeds : forall v tbl K req,
  valid_keys K = true -> small_keys K -> perm_okb tbl = true ->
  exists L P, build_logical v tbl K req = Ok L /\ build v tbl K req = Ok P /\ wf_for v L P K /\
              lg_bin L = spec_bin_mode req K.
Proof. exact build_wf_thm. Qed.

Theorem C01_ids_bijection : forall v L P K, wf_for v L P K ->
  (forall q, bytes_ok q = true -> lookup P q = Ok (lk P q)) /\
  id_assignment K (lk P) /\
  (forall q, bytes_ok q = true -> (lk P q <> None <-> spec_member K q = true)).
Proof. exact lookup_thm. Qed.

Theorem C01_decode_inverts_lookup : forall v L P K, wf_for v L P K ->
  t_num_keys P = lenN K /\
  (forall k i, lk P k = Some i -> decode P i = Ok k) /\
  (forall i, lenN K <= i -> decode P i = Ok []).
Proof. exact decode_thm. Qed.

(* decode never faults, for any id whatsoever *)
Theorem C01_decode_total : forall v L P K, wf_for v L P K -> forall id,
  decode P id = Ok (match History.key_of_id K (lk P) id with Some k => k | None => [] end).
Proof. exact decode_total_thm. Qed.

(* headline: for EVERY valid key list, every variant, both requested modes, every permutation table *)
Theorem C01_for_all_valid_K : forall v tbl K req, valid_keys K = true -> small_keys K -> perm_okb tbl = true ->
  exists P, build v tbl K req = Ok P /\
  id_assignment K (lk P) /\ t_num_keys P = lenN K /\
  (forall k i, lk P k = Some i -> decode P i = Ok k) /\ (forall i, lenN K <= i -> decode P i = Ok []).
Proof. exact headline_ids. Qed.

(* the same for trie::decode(id, buffer) and trie::lookup as REGENERATED FROM trie.hpp on every run (AccessTrieGen.v):
   decode of the id that lookup gives returns the key, whatever the caller's buffer held before; ids >= N give "" *)
Theorem C01_source_decode_inverts_lookup : forall v L P K, wf_for v L P K ->
  trg_num_keys P = lenN K /\
  (forall k i out0, lk P k = Some i -> i < 2^64 -> trg_decode P i out0 = Ok k) /\
  (forall i out0, lenN K <= i -> i < 2^64 -> trg_decode P i out0 = Ok []).
Proof. exact src_decode. Qed.
Example C01_source_example : match ex_trie V7 with
  | Ok P => match trg_lookup P [97; 98] with
            | Ok (Some i) => trg_decode P i [1; 2; 3] = Ok [97; 98] /\ trg_decode P 1000 [9] = Ok []
            | _ => False end
  | _ => False end.
Proof. vm_compute. split; reflexivity. Qed.

Example C01_nonvacuous : forall v, exists L P, ex_logical v = Ok L /\ wf_for v L P ex_keys.
Proof. exact ex_wf_for. Qed.

Print Assumptions C01_construction_succeeds.
Print Assumptions C01_ids_bijection. Print Assumptions C01_decode_inverts_lookup. Print Assumptions C01_decode_total.
Print Assumptions C01_for_all_valid_K. Print Assumptions C01_source_decode_inverts_lookup.
