(* C02: lookup is exact set membership, for every byte string, and never faults. *)
From X Require Import Builder IfaceBuild Base Arr Dac Trie Spec Wf IfaceQuery All AllBuild Examples ExampleFacts
  AccessLib AccessGen AccessDispatch AccessTrieGen AllAccessTrie.
Local Open Scope N_scope.

Theorem C02_lookup_exact : forall v L P K, wf_for v L P K ->
  (forall q, bytes_ok q = true -> lookup P q = Ok (lk P q)) /\
  id_assignment K (lk P) /\
  (forall q, bytes_ok q = true -> (lk P q <> None <-> spec_member K q = true)).
Proof. exact lookup_thm. Qed.

(* the walk through the packed arrays is the walk through the abstract tree *)
Theorem C02_lookup_walks_tree : forall v L P K T, wf_for v L P K -> the_tree L = Some T ->
  forall q, bytes_ok q = true -> lookup P q = Ok (option_map (rank_of (lg_terms L)) (tree_find T q)).
Proof. exact lookup_node_thm. Qed.

(* headline: for EVERY valid key list and EVERY byte string q *)
Theorem C02_for_all_valid_K : forall v tbl K req, valid_keys K = true -> small_keys K -> perm_okb tbl = true ->
  exists P, build v tbl K req = Ok P /\
  forall q, bytes_ok q = true -> lookup P q = Ok (lk P q) /\ (lk P q <> None <-> spec_member K q = true).
Proof. exact headline_lookup. Qed.

(* the same for trie::lookup as REGENERATED FROM trie.hpp on every run (AccessTrieGen.trg_lookup: the walk over
   BASE/CHECK with the code table, the terminal flag, the TAIL match of the rest; through tail_vector::match,
   code_table::get_code and the accessors of the four bc_vector classes, all regenerated as well) *)
Theorem C02_source_lookup : forall v L P K, wf_for v L P K ->
  forall q, bytes_ok q = true -> lenN q < 2^64 ->
    trg_lookup P q = Ok (lk P q) /\ (lk P q <> None <-> spec_member K q = true).
Proof. exact src_lookup. Qed.
Theorem C02_source_for_all_valid_K : forall v tbl K req, valid_keys K = true -> small_keys K -> perm_okb tbl = true ->
  exists P, build v tbl K req = Ok P /\
  forall q, bytes_ok q = true -> lenN q < 2^64 ->
    trg_lookup P q = Ok (lk P q) /\ (lk P q <> None <-> spec_member K q = true).
Proof. exact src_headline_lookup. Qed.
Example C02_source_example : match ex_trie V15 with
  | Ok P => trg_lookup P [97; 98] <> Ok None /\ trg_lookup P [97; 98; 99] = Ok None /\ trg_lookup P [98; 0] = Ok None
  | _ => False end.
Proof. vm_compute. repeat split; try reflexivity. discriminate. Qed.

Example C02_nonvacuous : forall v, exists L P, ex_logical v = Ok L /\ wf_for v L P ex_keys.
Proof. exact ex_wf_for. Qed.
Example C02_example : match ex_trie V15 with
  | Ok P => lookup P [97; 98] <> Ok None /\ lookup P [97; 98; 99] = Ok None /\ lookup P [98; 0] = Ok None /\ lookup P [98; 0; 120; 0] = Ok None
  | _ => False end.
Proof. vm_compute. repeat split; try reflexivity. discriminate. Qed.

Print Assumptions C02_lookup_exact. Print Assumptions C02_lookup_walks_tree.
Print Assumptions C02_for_all_valid_K.
Print Assumptions C02_source_lookup. Print Assumptions C02_source_for_all_valid_K.
