(* C03: enumeration reproduces the key set exactly, once each, in order, with lookup's ids. *)
From X Require Import Builder IfaceBuild Base Arr Dac Trie Serial Spec Wf IfaceQuery SerialFacts All AllBuild Examples ExampleFacts
  AccessLib AccessGen AccessDispatch AccessTrieGen IfaceAccessTrie AllAccessTrie.
Local Open Scope N_scope.

Theorem C03_enumerate : forall v L P K, wf_for v L P K -> enumerate P = Ok (with_ids P K).
Proof. exact enumerate_thm. Qed.
(* the iterator entry point: n successive next() calls give the keys in K's order, then false forever *)
Theorem C03_enumerate_iterator : forall v L P K, wf_for v L P K -> forall m,
  pred_calls P (mk_predictive []) m = Ok (abs_calls (with_ids P K) m).
Proof. exact enumerate_calls_thm. Qed.
(* dictionaries obtained by load / mmap of the saved file are the same structure (C06), hence enumerate identically *)
Theorem C03_loaded : forall v P, trie_fits v P -> load v (save v P) = Ok P.
Proof. exact load_save. Qed.
Theorem C03_mapped : forall v P r, trie_fits v P -> mmap v (save v P ++ r) = Ok P.
Proof. exact mmap_save. Qed.

(* headline: for EVERY valid key list *)
Theorem C03_for_all_valid_K : forall v tbl K req, valid_keys K = true -> small_keys K -> perm_okb tbl = true ->
  exists P, build v tbl K req = Ok P /\ enumerate P = Ok (with_ids P K) /\
  forall m, pred_calls P (mk_predictive []) m = Ok (abs_calls (with_ids P K) m).
Proof. exact headline_enumerate. Qed.

(* the same for the enumerating iterator as REGENERATED FROM trie.hpp on every run (trg_next_predictive on the empty query) *)
Theorem C03_source_enumerate_iterator : forall v L P K, wf_for v L P K -> forall n,
  N.of_nat n * (bc_num_units (t_bc P) + 2) < 2^61 ->
  pred_calls_g P (mk_predictive []) n = Ok (abs_calls (with_ids P K) n).
Proof. exact src_enumerate. Qed.
Example C03_source_example : match ex_trie V7 with
  | Ok P => match pred_calls_g P (mk_predictive []) 7 with
            | Ok l => map (option_map snd) l = map Some ex_keys ++ [None] | _ => False end
  | _ => False end.
Proof. vm_compute. reflexivity. Qed.

Example C03_nonvacuous : forall v, exists L P, ex_logical v = Ok L /\ wf_for v L P ex_keys.
Proof. exact ex_wf_for. Qed.
Example C03_example : match ex_trie V7 with Ok P => match enumerate P with Ok l => map snd l = ex_keys | _ => False end | _ => False end.
Proof. vm_compute. reflexivity. Qed.

Print Assumptions C03_enumerate. Print Assumptions C03_enumerate_iterator. Print Assumptions C03_loaded. Print Assumptions C03_mapped.
Print Assumptions C03_for_all_valid_K. Print Assumptions C03_source_enumerate_iterator.
