(* C04: common-prefix search returns exactly the keys that are prefixes of the query (shortest first, with
   lookup's ids, text = the prefix of q), then false forever; q is never read at or beyond |q|
   (that would be Fault OobQuery, excluded by "= Ok ..."). Iterator and callback entry points. *)
From X Require Import Builder IfaceBuild Base Arr Dac Trie Spec Wf IfaceQuery All AllBuild Examples ExampleFacts
  AccessLib AccessGen AccessDispatch AccessTrieGen IfaceAccessTrie AllAccessTrie.
Local Open Scope N_scope.

Theorem C04_prefix_search : forall v L P K, wf_for v L P K -> forall q, bytes_ok q = true ->
  (forall n, pfx_calls P (mk_prefix q) n = Ok (abs_calls (with_ids P (spec_prefixes K q)) n)) /\
  prefix_search P q = Ok (with_ids P (spec_prefixes K q)).
Proof. exact prefix_thm. Qed.

(* headline: for EVERY valid key list and EVERY byte string q *)
Theorem C04_for_all_valid_K : forall v tbl K req, valid_keys K = true -> small_keys K -> perm_okb tbl = true ->
  exists P, build v tbl K req = Ok P /\ forall q, bytes_ok q = true ->
  (forall n, pfx_calls P (mk_prefix q) n = Ok (abs_calls (with_ids P (spec_prefixes K q)) n)) /\
  prefix_search P q = Ok (with_ids P (spec_prefixes K q)).
Proof. exact headline_prefix. Qed.

(* the same for trie::next_prefix as REGENERATED FROM trie.hpp on every run (AccessTrieGen.trg_next_prefix): n successive
   advances of a fresh iterator over q (pfx_calls_g) give the spec's list, then false forever *)
Theorem C04_source_prefix_iterator : forall v L P K, wf_for v L P K -> forall q, bytes_ok q = true -> lenN q < 2^64 ->
  forall n, pfx_calls_g P (mk_prefix q) n = Ok (abs_calls (with_ids P (spec_prefixes K q)) n).
Proof. exact src_prefix. Qed.
Theorem C04_source_for_all_valid_K : forall v tbl K req, valid_keys K = true -> small_keys K -> perm_okb tbl = true ->
  exists P, build v tbl K req = Ok P /\ forall q, bytes_ok q = true -> lenN q < 2^64 ->
  forall n, pfx_calls_g P (mk_prefix q) n = Ok (abs_calls (with_ids P (spec_prefixes K q)) n).
Proof. exact src_headline_prefix. Qed.
Example C04_source_example : match ex_trie V8 with
  | Ok P => match pfx_calls_g P (mk_prefix [97; 98; 99; 100; 101]) 6 with
            | Ok l => map (option_map snd) l = [Some []; Some [97]; Some [97; 98]; Some [97; 98; 99; 100]; None; None] | _ => False end
  | _ => False end.
Proof. vm_compute. reflexivity. Qed.

Example C04_nonvacuous : forall v, exists L P, ex_logical v = Ok L /\ wf_for v L P ex_keys.
Proof. exact ex_wf_for. Qed.
Example C04_example : match ex_trie V8 with
  | Ok P => match prefix_search P [97; 98; 99; 100; 101] with Ok l => map snd l = [[]; [97]; [97; 98]; [97; 98; 99; 100]] | _ => False end
  | _ => False end.
Proof. vm_compute. reflexivity. Qed.

Print Assumptions C04_prefix_search.
Print Assumptions C04_for_all_valid_K.
Print Assumptions C04_source_prefix_iterator. Print Assumptions C04_source_for_all_valid_K.
