(* C05: predictive search returns exactly the keys that start with the query, ascending, with lookup's ids. *)
From X Require Import Builder IfaceBuild Base Arr Dac Trie Spec Wf IfaceQuery All AllBuild Examples ExampleFacts
  AccessLib AccessGen AccessDispatch AccessTrieGen IfaceAccessTrie AllAccessTrie.
Local Open Scope N_scope.

Theorem C05_predictive_search : forall v L P K, wf_for v L P K -> forall q, bytes_ok q = true ->
  (forall n, pred_calls P (mk_predictive q) n = Ok (abs_calls (with_ids P (spec_completions K q)) n)) /\
  predictive_search P q = Ok (with_ids P (spec_completions K q)).
Proof. exact predictive_thm. Qed.

(* headline: for EVERY valid key list and EVERY byte string q *)
Theorem C05_for_all_valid_K : forall v tbl K req, valid_keys K = true -> small_keys K -> perm_okb tbl = true ->
  exists P, build v tbl K req = Ok P /\ forall q, bytes_ok q = true ->
  (forall n, pred_calls P (mk_predictive q) n = Ok (abs_calls (with_ids P (spec_completions K q)) n)) /\
  predictive_search P q = Ok (with_ids P (spec_completions K q)).
Proof. exact headline_predictive. Qed.

(* the same for trie::next_predictive as REGENERATED FROM trie.hpp on every run (AccessTrieGen.trg_next_predictive: the
   descent along the query, the cursor stack, the search loop over the alphabet): n successive advances of a fresh iterator
   give the spec's list, then false forever.  The bound on n only excludes runs of 2^61 search steps. *)
Theorem C05_source_predictive_iterator : forall v L P K, wf_for v L P K -> forall q n, bytes_ok q = true -> lenN q < 2^61 ->
  N.of_nat n * (bc_num_units (t_bc P) + 2) < 2^61 ->
  pred_calls_g P (mk_predictive q) n = Ok (abs_calls (with_ids P (spec_completions K q)) n).
Proof. exact src_predictive. Qed.
Example C05_source_example : match ex_trie V15 with
  | Ok P => match pred_calls_g P (mk_predictive [97]) 5 with
            | Ok l => map (option_map snd) l = [Some [97]; Some [97; 98]; Some [97; 98; 99; 100]; None; None] | _ => False end
  | _ => False end.
Proof. vm_compute. reflexivity. Qed.

Example C05_nonvacuous : forall v, exists L P, ex_logical v = Ok L /\ wf_for v L P ex_keys.
Proof. exact ex_wf_for. Qed.
Example C05_example : match ex_trie V16 with
  | Ok P => match predictive_search P [97; 98] with Ok l => map snd l = [[97; 98]; [97; 98; 99; 100]] | _ => False end /\
            predictive_search P [97; 98; 99; 100; 101] = Ok []
  | _ => False end.
Proof. vm_compute. split; reflexivity. Qed.

Print Assumptions C05_predictive_search.
Print Assumptions C05_for_all_valid_K. Print Assumptions C05_source_predictive_iterator.
