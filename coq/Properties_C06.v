(* C06: save -> load / mmap round-trips to an observationally identical dictionary.
   Only statements closed by `exact`; proofs are in SerialFacts.v. *)
From X Require Import LayoutGen LayoutFacts Base Arr Dac Trie Serial Spec Wf IfaceBuild Builder SerialFacts All AllBuild Examples.
Local Open Scope N_scope.

(* every dictionary obtained from a byte file satisfies the shape predicate the theorems need *)
Theorem C06_loaded_fits : forall v b P, Forall byte b -> load v b = Ok P -> trie_fits v P.
Proof. exact load_fits. Qed.
Theorem C06_mapped_fits : forall v b P, Forall byte b -> mmap v b = Ok P -> trie_fits v P.
Proof. exact mmap_fits. Qed.

(* loading the saved bytes gives back the very same structure, hence the same answer to every query,
   statistic and enumeration (they are functions of the structure) *)
Theorem C06_load_save : forall v P, trie_fits v P -> load v (save v P) = Ok P.
Proof. exact load_save. Qed.
(* mapping the image, whatever follows it in memory *)
Theorem C06_mmap_save : forall v P r, trie_fits v P -> mmap v (save v P ++ r) = Ok P.
Proof. exact mmap_save. Qed.
(* save writes exactly memory_in_bytes bytes (two independently written functions) *)
Theorem C06_size : forall v P, trie_fits v P -> lenN (save v P) = memory_in_bytes v P.
Proof. exact save_length. Qed.
(* the file begins with the 4-byte variant tag that get_type_id returns *)
Theorem C06_tag : forall v P, firstn 4 (save v P) = enc_u32 (type_id v) /\ get_type_id (save v P) = Ok (type_id v).
Proof. exact save_tag. Qed.
(* saving the loaded / mapped dictionary again reproduces the file byte for byte *)
Theorem C06_resave_load : forall v P P', trie_fits v P -> load v (save v P) = Ok P' -> save v P' = save v P.
Proof. exact resave_load. Qed.
Theorem C06_resave_mmap : forall v P P' r, trie_fits v P -> mmap v (save v P ++ r) = Ok P' -> save v P' = save v P.
Proof. exact resave_mmap. Qed.
(* any number of save/load generations *)
Theorem C06_generations : forall v n P, trie_fits v P -> generation v n P = Ok (P, save v P).
Proof. exact generations. Qed.

(* headline: every dictionary built from a valid key list round-trips *)
Theorem C06_for_all_valid_K : forall v tbl K req, valid_keys K = true -> small_keys K -> perm_okb tbl = true ->
  exists P, build v tbl K req = Ok P /\
  load v (save v P) = Ok P /\ (forall r, mmap v (save v P ++ r) = Ok P) /\ lenN (save v P) = memory_in_bytes v P.
Proof. exact headline_roundtrip. Qed.

(* the member order and types of every visit() in the current headers are the ones Serial.v models
   (LayoutGen.v is regenerated from the source on every run) *)
Theorem C06_layout_is_the_modelled_one : layouts_now = layouts_modelled.
Proof. exact layout_is_the_modelled_one. Qed.

(* non-vacuity: a built dictionary's file loads, so trie_fits is inhabited by a non-trivial structure *)
Example C06_nonvacuous : exists P, load V8 (ex_bytes V8) = Ok P /\ t_nkeys P = 6 /\ trie_fits V8 P.
Proof.
  destruct (load V8 (ex_bytes V8)) as [P| |] eqn:E; try (vm_compute in E; discriminate).
  exists P. split; [reflexivity|]. split.
  - assert (H : match load V8 (ex_bytes V8) with Ok P => t_nkeys P | _ => 0 end = 6) by (vm_compute; reflexivity).
    rewrite E in H. exact H.
  - apply (load_fits V8 (ex_bytes V8)); [|exact E].
    apply Forall_forall. intros x Hx.
    assert (Hb : forallb (fun b => b <? 256) (ex_bytes V8) = true) by (vm_compute; reflexivity).
    rewrite forallb_forall in Hb. apply N.ltb_lt. apply Hb. exact Hx.
Qed.

Print Assumptions C06_loaded_fits. Print Assumptions C06_mapped_fits. Print Assumptions C06_load_save.
Print Assumptions C06_mmap_save. Print Assumptions C06_size. Print Assumptions C06_tag.
Print Assumptions C06_resave_load. Print Assumptions C06_resave_mmap. Print Assumptions C06_generations.
Print Assumptions C06_for_all_valid_K.
Print Assumptions C06_layout_is_the_modelled_one.
