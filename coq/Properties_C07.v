(* C07 (logic half): in the model every index into every internal array, every read of the query view and
   of a key is checked -- leaving the bounds is a `Fault`. The theorems say: for every valid use the result
   is `Ok`, never `Fault`.  The runtime half (allocator, lifetimes, alignment, the real memory) is observed
   with sanitizers on the implementation side of the correspondence; see DESIGN.md. *)
From X Require Import Base Arr Dac Trie Serial Spec Wf IfaceQuery IfaceBuild Builder History SerialFacts All AllBuild Examples ExampleFacts.
Local Open Scope N_scope.

Theorem C07_queries_never_fault : forall v L P K, wf_for v L P K ->
  (forall q, bytes_ok q = true -> exists r, lookup P q = Ok r) /\
  (forall id, exists k, decode P id = Ok k) /\
  (forall q, bytes_ok q = true -> exists l, prefix_search P q = Ok l) /\
  (forall q, bytes_ok q = true -> exists l, predictive_search P q = Ok l) /\
  (exists l, enumerate P = Ok l) /\
  (forall q n, bytes_ok q = true -> exists l, pfx_calls P (mk_prefix q) n = Ok l) /\
  (forall q n, bytes_ok q = true -> exists l, pred_calls P (mk_predictive q) n = Ok l).
Proof. exact no_fault_thm. Qed.

(* building from any valid key list never faults (and yields certificate-checked content) *)
Theorem C07_build_never_faults : forall v tbl K req,
  valid_keys K = true -> small_keys K -> perm_okb tbl = true ->
  exists L P, build_logical v tbl K req = Ok L /\ build v tbl K req = Ok P /\ wf_for v L P K /\
              lg_bin L = spec_bin_mode req K.
Proof. exact build_wf_thm. Qed.

(* any history of public operations (interleaved iterators, buffer reuse, moves, save/load, save/mmap) runs
   to completion without a fault *)
Theorem C07_histories_never_fault : forall v L P K, wf_for v L P K ->
  forall ops aouts ast', arun K (lk P) [] ops = Some (ast', aouts) ->
  (forall q, In (HLookup q) ops -> bytes_ok q = true) ->
  (forall s q, In (HMkPrefix s q) ops -> bytes_ok q = true) ->
  (forall s q, In (HMkPred s q) ops -> bytes_ok q = true) ->
  exists st', hrun v (mkH P [] []) ops = Ok (st', aouts) /\ h_trie st' = P.
Proof. exact history_wf_thm. Qed.

(* loaded and mapped dictionaries are the same structure: the statements above apply to them *)
Theorem C07_loaded_mapped_same : forall v L P K, wf_for v L P K ->
  load v (save v P) = Ok P /\ (forall r, mmap v (save v P ++ r) = Ok P) /\ lenN (save v P) = memory_in_bytes v P.
Proof. exact built_roundtrip_thm. Qed.

(* a mapped image that is cut short makes the reader leave its bounds: the model says Fault, which is why
   mmap must be given the complete image (the C++ cannot check: it has no length) *)
Theorem C07_mmap_needs_whole_image : forall v P n, trie_fits v P -> (n < length (save v P))%nat ->
  mmap v (firstn n (save v P)) = Fault OobArr.
Proof. exact mmap_truncated. Qed.

(* the known finding F13: the first 8-byte scalar of every file sits at offset 4, so every 64-bit load from an
   8-byte-aligned mapping is misaligned *)
Theorem C07_first_u64_at_offset_4 : forall v P, exists rest,
  save v P = enc_u32 (type_id v) ++ enc_u64 (t_nkeys P) ++ rest /\ length (enc_u32 (type_id v)) = 4%nat.
Proof. intros v P. eexists. split; [unfold save, enc_trie; reflexivity | reflexivity]. Qed.

Example C07_nonvacuous : forall v, exists L P, ex_logical v = Ok L /\ wf_for v L P ex_keys.
Proof. exact ex_wf_for. Qed.

Print Assumptions C07_queries_never_fault. Print Assumptions C07_build_never_faults. Print Assumptions C07_histories_never_fault.
Print Assumptions C07_loaded_mapped_same. Print Assumptions C07_mmap_needs_whole_image. Print Assumptions C07_first_u64_at_offset_4.
