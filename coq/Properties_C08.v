(* C08: invalid key lists are always rejected with xcdat::exception (never a dictionary, never a fault:
   in particular no key is read at or beyond its size -- that would be Fault OobKey). *)
From X Require Import Base Arr Dac Trie Spec Wf IfaceBuild Builder All AllBuild Examples.
Local Open Scope N_scope.

Theorem C08_invalid_rejected : forall v tbl K req,
  valid_keys K = false -> Forall (fun k => bytes_ok k = true) K -> small_keys K -> perm_okb tbl = true ->
  exists e, build v tbl K req = Exc e.
Proof. exact reject_thm. Qed.

Theorem C08_empty_list : forall v tbl req, build v tbl [] req = Exc EmptyDataset.
Proof. reflexivity. Qed.

(* and conversely a valid list is never rejected *)
Theorem C08_valid_accepted : forall v tbl K req,
  valid_keys K = true -> small_keys K -> perm_okb tbl = true ->
  exists L P, build_logical v tbl K req = Ok L /\ build v tbl K req = Ok P /\ IfaceQuery.wf_for v L P K /\
              lg_bin L = spec_bin_mode req K.
Proof. exact build_wf_thm. Qed.

Example C08_examples :
  build V8 (own_table [[97]; [97]]) [[97]; [97]] false = Exc NotUnique /\
  build V7 (own_table [[]; []]) [[]; []] true = Exc NotUnique /\
  build V15 (own_table [[98]; [97]]) [[98]; [97]] false = Exc NotSorted /\
  build V16 (own_table [[97; 0; 98]; [97]]) [[97; 0; 98]; [97]] false = Exc NotSorted.
Proof. vm_compute. repeat split; reflexivity. Qed.

Print Assumptions C08_invalid_rejected. Print Assumptions C08_empty_list. Print Assumptions C08_valid_accepted.
