(* C09: bit-vector access, rank and select are exact for every bit sequence; the portable word functions
   equal what the popcnt / lzcnt / pdep+tzcnt instructions compute.  (BitToolsGen.v is regenerated from
   bit_tools.hpp on every run, so these theorems are re-proved against the current source.) *)
From X Require Import Base Arr BitToolsSpec BitToolsGen BitVector Iface BitToolsFacts BitVectorFacts All AccessLib AccessGen AllAccess.
Local Open Scope N_scope.

Theorem C09_size_ones : forall bits r s, lenN bits < max_bits ->
  exists v, bv_of_bits bits r s = Ok v /\ bv_size v = lenN bits /\ bv_ones v = count_true bits.
Proof. exact bv_build_thm. Qed.
Theorem C09_access : forall bits r s v i, lenN bits < max_bits ->
  bv_of_bits bits r s = Ok v -> i < lenN bits -> bv_get v i = Ok (nthb bits i).
Proof. exact bv_get_thm. Qed.
Theorem C09_rank : forall bits s v i, lenN bits < max_bits ->
  bv_of_bits bits true s = Ok v -> i <= lenN bits -> bv_rank v i = Ok (count_true (firstn (N.to_nat i) bits)).
Proof. exact bv_rank_thm. Qed.
Theorem C09_select : forall bits v n, lenN bits < max_bits ->
  bv_of_bits bits true true = Ok v -> n < count_true bits ->
  exists p, bv_select v n = Ok p /\ p < lenN bits /\ nthb bits p = true /\ count_true (firstn (N.to_nat p) bits) = n.
Proof. exact bv_select_thm. Qed.

(* builder use via push_back, set_bit (i < size) and resize: the builder always denotes the evident bit list *)
Theorem C09_builder_push_back : forall b bits x, bvb_inv b bits -> lenN bits + 1 < 2^64 ->
  exists b', bvb_push_back b x = Ok b' /\ bvb_inv b' (bits ++ [x]).
Proof. exact push_back_inv. Qed.
Theorem C09_builder_set_bit : forall b bits i x, bvb_inv b bits -> i < lenN bits ->
  exists b', bvb_set_bit b i x = Ok b' /\ bvb_inv b' (set_nth bits i x).
Proof. exact set_bit_inv. Qed.
Theorem C09_builder_resize : forall b bits s, bvb_inv b bits -> s + 63 < 2^64 ->
  bvb_inv (bvb_resize b s) (resize_bits bits s).
Proof. exact resize_inv. Qed.
Theorem C09_builder_read : forall b bits i, bvb_inv b bits -> i < lenN bits -> bvb_get b i = Ok (nthb bits i).
Proof. exact bvb_get_inv. Qed.

(* portable = intrinsic *)
Theorem C09_popcount_portable : forall x, x < 2^64 -> popcount x = popcount_intr x.
Proof. intros x H. unfold popcount_intr. apply popcount_correct. exact H. Qed.
Theorem C09_msb_portable : forall x, x < 2^64 -> msb x = msb_intr x.
Proof. exact msb_correct. Qed.
Theorem C09_select_in_word_portable : forall x k, x < 2^64 -> k < popcnt_spec x ->
  select_in_word x k = select_in_word_intr x k /\ select_spec x k = Some (select_in_word x k).
Proof. intros x k H1 H2. split; [apply select_in_word_agree|apply select_in_word_correct]; assumption. Qed.
Theorem C09_rank_portable : forall v i, bv_rank_intr v i = bv_rank v i.
Proof. exact (bv_rank_intr_eq popcount_thm). Qed.

(* access / rank / select as REGENERATED FROM bit_vector.hpp on every run (AccessGen.v: operator[], rank, select with
   rank_for_word, rank_in_block, select_with_hint and the binary search of select_for_block) *)
Theorem C09_source_access : forall bits r s v i, lenN bits < max_bits ->
  bv_of_bits bits r s = Ok v -> i < lenN bits -> bvg_get v i = Ok (nthb bits i).
Proof. exact src_bv_get. Qed.
Theorem C09_source_rank : forall bits s v i, lenN bits < max_bits ->
  bv_of_bits bits true s = Ok v -> i <= lenN bits ->
  bvg_rank v i = Ok (count_true (firstn (N.to_nat i) bits)).
Proof. exact src_bv_rank. Qed.
Theorem C09_source_select : forall bits v n, lenN bits < max_bits ->
  bv_of_bits bits true true = Ok v -> n < count_true bits ->
  exists p, bvg_select v n = Ok p /\ p < lenN bits /\ nthb bits p = true /\
            count_true (firstn (N.to_nat p) bits) = n.
Proof. exact src_bv_select. Qed.
Example C09_source_nonvacuous : match bv_of_bits ([true; true] ++ repeat false 898 ++ [true] ++ repeat false 59) true true with
  | Ok v => bvg_select v 2 = Ok 900 /\ bvg_rank v 901 = Ok 3 /\ bvg_get v 900 = Ok true | _ => False end.
Proof. vm_compute. repeat split; reflexivity. Qed.

(* the defect F8 (unrepaired) made C09_select false: its witness now computes correctly in the model *)
Example C09_f8_witness : match bv_of_bits ([true; true] ++ repeat false 898 ++ [true] ++ repeat false 59) true true with
  | Ok v => bv_select v 2 = Ok 900 | _ => False end.
Proof. vm_compute. reflexivity. Qed.

Print Assumptions C09_size_ones. Print Assumptions C09_access. Print Assumptions C09_rank. Print Assumptions C09_select.
Print Assumptions C09_builder_push_back. Print Assumptions C09_builder_set_bit. Print Assumptions C09_builder_resize. Print Assumptions C09_builder_read.
Print Assumptions C09_source_access. Print Assumptions C09_source_rank. Print Assumptions C09_source_select.
Print Assumptions C09_popcount_portable. Print Assumptions C09_msb_portable. Print Assumptions C09_select_in_word_portable. Print Assumptions C09_rank_portable.
