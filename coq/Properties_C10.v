(* C10: packed integer arrays return exactly what was stored, for all 64-bit values. *)
From X Require Import Base Arr BitVector CompactVector Dac Iface IfaceDac All.
Local Open Scope N_scope.

Theorem C10_compact_vector : forall vs, vs <> [] -> Forall (fun x => x < 2^64) vs -> lenN vs < 2^56 ->
  exists c, cv_build vs = Ok c /\ cv_size c = lenN vs /\ forall i, i < lenN vs -> cv_get c i = Ok (nth (N.to_nat i) vs 0).
Proof. exact cv_thm. Qed.

(* all four BASE/CHECK encodings (7, 8, 15, 16), any unit values below 2^64, any leaf pattern (incl. none) *)
Theorem C10_bc_vectors : forall v units leaves,
  units_ok units -> length leaves = length units -> lenN units < 2^56 ->
  exists d, bc_build v units leaves = Ok d /\
    bc_num_units d = lenN units /\ bc_num_free_units d = count_free_spec units 0 /\
    bc_num_leaves d = count_true leaves /\ bc_num_nodes d = lenN units - count_free_spec units 0 /\
    forall i, i < lenN units ->
      bc_is_leaf d i = Ok (nthb leaves i) /\ bc_check d i = Ok (snd (nthu units i)) /\
      (nthb leaves i = false -> bc_base d i = Ok (fst (nthu units i))) /\
      (nthb leaves i = true -> bc_link d i = Ok (fst (nthu units i))).
Proof. exact bc_thm. Qed.

Example C10_width64 : match cv_build [1; 2^64 - 1; 5] with Ok c => cv_get c 0 = Ok 1 /\ cv_get c 1 = Ok (2^64 - 1) /\ cv_bits c = 64 | _ => False end.
Proof. vm_compute. repeat split; reflexivity. Qed.
Example C10_no_leaf : match bc_build V7 [(300, 0); (70000, 1)] [false; false] with Ok d => bc_base d 1 = Ok 70000 | _ => False end.
Proof. vm_compute. reflexivity. Qed.

Print Assumptions C10_compact_vector. Print Assumptions C10_bc_vectors.
