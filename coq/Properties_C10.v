(* C10: packed integer arrays return exactly what was stored, for all 64-bit values. *)
From X Require Import Base Arr BitVector CompactVector Dac Iface IfaceDac All AccessLib AccessGen AllAccess.
Local Open Scope N_scope.

Theorem C10_compact_vector : forall vs, vs <> [] -> Forall (fun x => x < 2^64) vs -> lenN vs < 2^56 ->
  exists c, cv_build vs = Ok c /\ cv_size c = lenN vs /\ forall i, i < lenN vs -> cv_get c i = Ok (nth (N.to_nat i) vs 0).
Proof. exact cv_thm. Qed.

(* all four BASE/CHECK encodings (7, 8, 15, 16), any unit values below 2^64, any leaf pattern (incl. none) *)
Theorem C10_bc_vectors : forall v units leaves,
  units_ok units -> length leaves = length units -> lenN units < 2^56 ->
  exists d, bc_build v units leaves = Ok d /\
    bc_num_units d = lenN units /\ bc_num_free_units d = count_free_spec units 0 /\
    bc_num_leaves d = count_true leaves /\ bc_num_nodes d = lenN units - count_free_spec units 0 /\
    forall i, i < lenN units ->
      bc_is_leaf d i = Ok (nthb leaves i) /\ bc_check d i = Ok (snd (nthu units i)) /\
      (nthb leaves i = false -> bc_base d i = Ok (fst (nthu units i))) /\
      (nthb leaves i = true -> bc_link d i = Ok (fst (nthu units i))).
Proof. exact bc_thm. Qed.

(* the same for the accessors REGENERATED FROM THE HEADERS on every run (AccessGen.v): compact_vector::operator[],
   and base / check / link / is_leaf / the counters of bc_vector_8, _16, _7, _15 with their DAC walks *)
Theorem C10_source_compact_vector : forall vs, vs <> [] -> Forall (fun x => x < 2^64) vs -> lenN vs < 2^56 ->
  exists c, cv_build vs = Ok c /\ cvg_size c = lenN vs /\ forall i, i < lenN vs -> cvg_get c i = Ok (nth (N.to_nat i) vs 0).
Proof. exact src_cv. Qed.
Theorem C10_source_bc_vector_8 : forall units leaves, units_ok units -> length leaves = length units -> lenN units < 2^56 ->
  exists d, bc_build V8 units leaves = Ok (Bc8 d) /\
  b8g_num_units d = Ok (lenN units) /\ b8g_num_free_units d = count_free_spec units 0 /\
  b8g_num_leaves d = count_true leaves /\ b8g_num_nodes d = Ok (lenN units - count_free_spec units 0) /\
  forall i, i < lenN units ->
    b8g_is_leaf d i = Ok (nthb leaves i) /\ b8g_check d i = Ok (snd (nthu units i)) /\
    (nthb leaves i = false -> b8g_base d i = Ok (fst (nthu units i))) /\
    (nthb leaves i = true -> b8g_link d i = Ok (fst (nthu units i))).
Proof. exact src_bc8. Qed.
Theorem C10_source_bc_vector_16 : forall units leaves, units_ok units -> length leaves = length units -> lenN units < 2^56 ->
  exists d, bc_build V16 units leaves = Ok (Bc8 d) /\
  b16g_num_units d = Ok (lenN units) /\ b16g_num_free_units d = count_free_spec units 0 /\
  b16g_num_leaves d = count_true leaves /\ b16g_num_nodes d = Ok (lenN units - count_free_spec units 0) /\
  forall i, i < lenN units ->
    b16g_is_leaf d i = Ok (nthb leaves i) /\ b16g_check d i = Ok (snd (nthu units i)) /\
    (nthb leaves i = false -> b16g_base d i = Ok (fst (nthu units i))) /\
    (nthb leaves i = true -> b16g_link d i = Ok (fst (nthu units i))).
Proof. exact src_bc16. Qed.
Theorem C10_source_bc_vector_7 : forall units leaves, units_ok units -> length leaves = length units -> lenN units < 2^56 ->
  exists d, bc_build V7 units leaves = Ok (Bc7 d) /\
  b7g_num_units d = lenN units /\ b7g_num_free_units d = count_free_spec units 0 /\
  b7g_num_leaves d = count_true leaves /\ b7g_num_nodes d = lenN units - count_free_spec units 0 /\
  forall i, i < lenN units ->
    b7g_is_leaf d i = Ok (nthb leaves i) /\ b7g_check d i = Ok (snd (nthu units i)) /\
    (nthb leaves i = false -> b7g_base d i = Ok (fst (nthu units i))) /\
    (nthb leaves i = true -> b7g_link d i = Ok (fst (nthu units i))).
Proof. exact src_bc7. Qed.
Theorem C10_source_bc_vector_15 : forall units leaves, units_ok units -> length leaves = length units -> lenN units < 2^56 ->
  exists d, bc_build V15 units leaves = Ok (Bc7 d) /\
  b15g_num_units d = lenN units /\ b15g_num_free_units d = count_free_spec units 0 /\
  b15g_num_leaves d = count_true leaves /\ b15g_num_nodes d = lenN units - count_free_spec units 0 /\
  forall i, i < lenN units ->
    b15g_is_leaf d i = Ok (nthb leaves i) /\ b15g_check d i = Ok (snd (nthu units i)) /\
    (nthb leaves i = false -> b15g_base d i = Ok (fst (nthu units i))) /\
    (nthb leaves i = true -> b15g_link d i = Ok (fst (nthu units i))).
Proof. exact src_bc15. Qed.

Example C10_source_nonvacuous : match bc_build V8 [(300, 0); (70000, 1); (5, 2)] [false; false; true] with
  | Ok (Bc8 d) => b8g_base d 1 = Ok 70000 /\ b8g_check d 1 = Ok 1 /\ b8g_link d 2 = Ok 5 | _ => False end.
Proof. vm_compute. repeat split; reflexivity. Qed.

Example C10_width64 : match cv_build [1; 2^64 - 1; 5] with Ok c => cv_get c 0 = Ok 1 /\ cv_get c 1 = Ok (2^64 - 1) /\ cv_bits c = 64 | _ => False end.
Proof. vm_compute. repeat split; reflexivity. Qed.
Example C10_no_leaf : match bc_build V7 [(300, 0); (70000, 1)] [false; false] with Ok d => bc_base d 1 = Ok 70000 | _ => False end.
Proof. vm_compute. reflexivity. Qed.

Print Assumptions C10_compact_vector. Print Assumptions C10_bc_vectors.
Print Assumptions C10_source_compact_vector. Print Assumptions C10_source_bc_vector_8. Print Assumptions C10_source_bc_vector_16.
Print Assumptions C10_source_bc_vector_7. Print Assumptions C10_source_bc_vector_15.
