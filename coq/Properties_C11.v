(* C11: the suffix store matches and decodes exactly the suffix registered at a position. *)
From X Require Import Base Arr BitVector Tail Spec Iface IfaceDac All AccessLib AccessGen AllAccessTrie.
Local Open Scope N_scope.

Theorem C11_suffix_store : forall bin (sufs : list suffix),
  Forall (fun sn => suf_ok bin (fst sn)) sufs -> NoDup (map snd sufs) ->
  fold_right (fun sn acc => lenN (fst sn) + 1 + acc) 1 sufs < 2^60 ->
  exists T asg, tail_complete bin sufs = Ok (T, asg) /\
    tv_bin_mode T = bin /\ 1 <= tv_size T /\ tv_size T < 2^60 /\
    (forall q, Forall (fun b => b < 256) q ->
       t_match T q 0 = Ok (match q with [] => true | _ => false end) /\ t_prefix_match T q 0 = Ok (Some 0)) /\
    t_decode T 0 = Ok [] /\
    (forall npos tpos, In (npos, tpos) asg -> exists s, In (s, npos) sufs) /\
    forall s npos, In (s, npos) sufs ->
      exists tpos, In (npos, tpos) asg /\ tpos <> 0 /\ tpos < tv_size T /\
        (forall tpos', In (npos, tpos') asg -> tpos' = tpos) /\
        t_decode T tpos = Ok s /\
        forall q, Forall (fun b => b < 256) q ->
          t_match T q tpos = Ok (key_eqb q s) /\
          t_prefix_match T q tpos = Ok (if is_prefixb s q then Some (lenN s) else None).
Proof. exact tail_thm. Qed.

(* the same for match / prefix_match / decode as REGENERATED FROM tail_vector.hpp on every run (the tvg_ functions of AccessGen.v) *)
Theorem C11_source_suffix_store : forall bin (sufs : list suffix),
  Forall (fun sn => suf_ok bin (fst sn)) sufs -> NoDup (map snd sufs) ->
  fold_right (fun sn acc => lenN (fst sn) + 1 + acc) 1 sufs < 2^60 ->
  exists T asg, tail_complete bin sufs = Ok (T, asg) /\
    tvg_bin_mode T = bin /\ 1 <= tvg_size T /\
    (forall q, Forall (fun b => b < 256) q -> lenN q < 2^64 ->
       tvg_match T q 0 = Ok (match q with [] => true | _ => false end) /\
       tvg_prefix_match T q 0 = Ok (Some 0)) /\
    tvg_decode T 0 = Ok [] /\
    forall s npos, In (s, npos) sufs ->
      exists tpos, In (npos, tpos) asg /\ tpos <> 0 /\ tpos < tvg_size T /\
        (forall tpos', In (npos, tpos') asg -> tpos' = tpos) /\
        tvg_decode T tpos = Ok s /\
        forall q, Forall (fun b => b < 256) q -> lenN q < 2^64 ->
          tvg_match T q tpos = Ok (key_eqb q s) /\
          tvg_prefix_match T q tpos = Ok (if is_prefixb s q then Some (lenN s) else None).
Proof. exact src_tail. Qed.
Example C11_source_example : match tail_complete true [([120; 121; 122], 5); ([113], 6); ([121; 122], 7)] with
  | Ok (T, asg) => tvg_match T [0; 120; 121; 122] 0 = Ok false /\ tvg_match T [120; 121; 122] 1 = Ok true /\
                   tvg_prefix_match T [121; 122; 9] 2 = Ok (Some 2) /\ tvg_decode T 4 = Ok [113]
  | _ => False end.
Proof. vm_compute. repeat split; reflexivity. Qed.

Example C11_example : match tail_complete true [([120; 121; 122], 5); ([113], 6); ([121; 122], 7)] with
  | Ok (T, asg) => t_match T [0; 120; 121; 122] 0 = Ok false /\ map snd asg = [1; 2; 4]
  | _ => False end.
Proof. vm_compute. split; reflexivity. Qed.

Print Assumptions C11_suffix_store. Print Assumptions C11_source_suffix_store.
