(* C12 (logic half): concurrent readers see sequential answers.  Threads interleave atomic read steps over one
   shared dictionary; a step returns a new thread-local state and an output but never a new shared object.
   What the theorem cannot exhibit -- that the C++ read operations really do not write the dictionary, i.e. no
   data race -- is the tie checked with ThreadSanitizer on the implementation side. *)
From X Require Import Base Arr Dac Trie History Conc ConcFacts.
Local Open Scope N_scope.

Theorem C12_schedule_independence : forall (v : variant) (P : trie) (init : list (rlocal * list rop)) (schedule : list nat),
  let c := dict_run v P init schedule in
  fst c = P /\ length (snd c) = length init /\
  forall i lo ops, nth_error init i = Some (lo, ops) ->
    exists t, nth_error (snd c) i = Some t /\
      th_outs t ++ dict_seq v P (th_lo t) (th_ops t) = dict_seq v P lo ops /\
      th_outs t = firstn (length ops - length (th_ops t)) (dict_seq v P lo ops) /\
      (exists k, th_outs t = firstn k (dict_seq v P lo ops)) /\
      (th_ops t = [] -> th_outs t = dict_seq v P lo ops).
Proof. exact C12_schedule_independent. Qed.
Theorem C12_complete_runs_are_sequential : forall v P init schedule,
  complete (snd (dict_run v P init schedule)) = true ->
  map th_outs (snd (dict_run v P init schedule)) = map (fun p => dict_seq v P (fst p) (snd p)) init.
Proof. exact C12_complete_outputs. Qed.
Theorem C12_any_two_schedules_agree : forall v P init s1 s2,
  complete (snd (dict_run v P init s1)) = true -> complete (snd (dict_run v P init s2)) = true ->
  map th_outs (snd (dict_run v P init s1)) = map th_outs (snd (dict_run v P init s2)).
Proof. exact C12_complete_schedules_agree. Qed.
Theorem C12_nonvacuous : forall v P init, exists schedule, complete (snd (dict_run v P init schedule)) = true.
Proof. exact C12_complete_schedule_exists. Qed.

Print Assumptions C12_schedule_independence. Print Assumptions C12_complete_runs_are_sequential.
Print Assumptions C12_any_two_schedules_agree. Print Assumptions C12_nonvacuous.
