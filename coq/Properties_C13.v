(* C13: answers depend only on (key set, query): the concrete API state machine (dictionary + iterator slots +
   reused buffers, with moves and save/load/mmap generations) refines the abstract machine whose state is only
   K, the id assignment and, per iterator, (spec result list, number of advances). *)
From X Require Import Base Arr Dac Trie Spec Wf IfaceQuery History HistoryFacts All AllBuild Examples ExampleFacts.
Local Open Scope N_scope.

Theorem C13_history_refinement : forall v L P K, wf_for v L P K ->
  forall ops aouts ast', arun K (lk P) [] ops = Some (ast', aouts) ->
  (forall q, In (HLookup q) ops -> bytes_ok q = true) ->
  (forall s q, In (HMkPrefix s q) ops -> bytes_ok q = true) ->
  (forall s q, In (HMkPred s q) ops -> bytes_ok q = true) ->
  exists st', hrun v (mkH P [] []) ops = Ok (st', aouts) /\ h_trie st' = P.
Proof. exact history_wf_thm. Qed.

(* an exhausted or default iterator keeps answering false: the abstract iterator is "the list, then None forever" *)
Theorem C13_prefix_iterator_exhaustion : forall v L P K, wf_for v L P K -> forall q, bytes_ok q = true ->
  forall n, pfx_calls P (mk_prefix q) n = Ok (abs_calls (with_ids P (spec_prefixes K q)) n).
Proof. intros v L P K H q Hq. exact (proj1 (prefix_thm v L P K H q Hq)). Qed.
Theorem C13_predictive_iterator_exhaustion : forall v L P K, wf_for v L P K -> forall q, bytes_ok q = true ->
  forall n, pred_calls P (mk_predictive q) n = Ok (abs_calls (with_ids P (spec_completions K q)) n).
Proof. intros v L P K H q Hq. exact (proj1 (predictive_thm v L P K H q Hq)). Qed.

Example C13_nonvacuous : forall v, exists L P, ex_logical v = Ok L /\ wf_for v L P ex_keys.
Proof. exact ex_wf_for. Qed.

Print Assumptions C13_history_refinement. Print Assumptions C13_prefix_iterator_exhaustion. Print Assumptions C13_predictive_iterator_exhaustion.
