(* C14: a dictionary file is only ever opened as the variant that wrote it. *)
From X Require Import LayoutGen LayoutFacts Base Arr Dac Trie Serial SerialFacts Examples.
Local Open Scope N_scope.

Theorem C14_mismatch : forall a b P, a <> b ->
  load b (save a P) = Exc TypeMismatch /\ mmap b (save a P) = Exc TypeMismatch.
Proof. exact load_mismatch. Qed.
Theorem C14_own_variant : forall v P, trie_fits v P -> load v (save v P) = Ok P.
Proof. exact load_save. Qed.
Theorem C14_own_variant_mmap : forall v P r, trie_fits v P -> mmap v (save v P ++ r) = Ok P.
Proof. exact mmap_save. Qed.
Theorem C14_type_id : forall v P, firstn 4 (save v P) = enc_u32 (type_id v) /\ get_type_id (save v P) = Ok (type_id v).
Proof. exact save_tag. Qed.
(* unopenable paths (the file system is an input of the model: Missing | NoParent | Dir | File bytes) *)
Theorem C14_unopenable_read : forall v n, n = Missing \/ n = NoParent \/ n = Dir ->
  fs_load v n = Exc OpenFail /\ fs_type_id n = Exc OpenFail.
Proof. exact fs_open_fail. Qed.
Theorem C14_unopenable_write : forall v P target l,
  (target <> NoParent -> target <> Dir ->
     fs_save v P target (Some l) = if l <? lenN (save v P) then Exc WriteFail else Ok (lenN (save v P), save v P)) /\
  (target = NoParent \/ target = Dir -> forall lim, fs_save v P target lim = Exc OpenFail).
Proof. exact fs_save_spec. Qed.

(* the member order and types of every visit() in the current headers are the ones Serial.v models
   (LayoutGen.v is regenerated from the source on every run) *)
Theorem C14_layout_is_the_modelled_one : layouts_now = layouts_modelled.
Proof. exact layout_is_the_modelled_one. Qed.

Example C14_nonvacuous : load V16 (ex_bytes V8) = Exc TypeMismatch /\ load V7 (ex_bytes V15) = Exc TypeMismatch /\
                         get_type_id (ex_bytes V15) = Ok 15.
Proof. vm_compute. repeat split; reflexivity. Qed.

Print Assumptions C14_mismatch. Print Assumptions C14_own_variant. Print Assumptions C14_own_variant_mmap.
Print Assumptions C14_type_id. Print Assumptions C14_unopenable_read. Print Assumptions C14_unopenable_write.
Print Assumptions C14_layout_is_the_modelled_one.
