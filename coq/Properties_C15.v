(* C15: a truncated dictionary file is never loaded. *)
From X Require Import LayoutGen LayoutFacts Base Arr Dac Trie Serial SerialFacts Examples.
Local Open Scope N_scope.

(* every proper prefix of a saved file makes load throw (a short read), for arbitrary structures P
   whose fields fit their C++ types -- not only well-formed dictionaries *)
Theorem C15_truncated : forall v P n, trie_fits v P -> (n < length (save v P))%nat ->
  load v (firstn n (save v P)) = Exc ReadFail.
Proof. exact load_truncated_readfail. Qed.
(* only the complete file loads (trailing garbage is not consulted) *)
Theorem C15_complete : forall v P, trie_fits v P -> load v (save v P) = Ok P.
Proof. exact load_save. Qed.

(* the member order and types of every visit() in the current headers are the ones Serial.v models
   (LayoutGen.v is regenerated from the source on every run) *)
Theorem C15_layout_is_the_modelled_one : layouts_now = layouts_modelled.
Proof. exact layout_is_the_modelled_one. Qed.

Example C15_nonvacuous :
  load V8 (firstn 100 (ex_bytes V8)) = Exc ReadFail /\ load V8 (firstn 3 (ex_bytes V8)) = Exc ReadFail /\
  (100 < length (ex_bytes V8))%nat.
Proof. vm_compute. repeat split; try reflexivity. repeat constructor. Qed.

Print Assumptions C15_truncated. Print Assumptions C15_complete.
Print Assumptions C15_layout_is_the_modelled_one.
