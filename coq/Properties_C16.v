(* C16: save never reports success for an incomplete file.
   Two device models: Serial.fs_save (a device accepting at most [limit] bytes) and Stream.save_dev (the
   stream as a state machine with a sticky error state: the visitor's write calls and the final flush against
   an ARBITRARY schedule of per-call acceptances, for ANY cutting of the file into write calls).  When
   libstdc++ notices a failed write(2) is runtime behaviour observed on the implementation side (partial). *)
From X Require Import Base Arr Dac Trie Serial SerialFacts Stream StreamFacts Examples.
Local Open Scope N_scope.

Theorem C16_fail_or_complete : forall v P target l, target <> NoParent -> target <> Dir ->
  (l < lenN (save v P) -> fs_save v P target (Some l) = Exc WriteFail) /\
  (lenN (save v P) <= l -> fs_save v P target (Some l) = Ok (lenN (save v P), save v P)).
Proof. exact fs_save_limit. Qed.
(* whenever save returns normally: the count is memory_in_bytes, the file is complete and loads to P *)
Theorem C16_ok_means_complete : forall v P target lim b n, trie_fits v P ->
  fs_save v P target lim = Ok (n, b) ->
  n = memory_in_bytes v P /\ fs_load v (File b) = Ok P /\ fs_type_id (File b) = Ok (type_id v).
Proof. exact fs_save_load. Qed.
Theorem C16_unopenable_target : forall v P target l,
  (target <> NoParent -> target <> Dir ->
     fs_save v P target (Some l) = if l <? lenN (save v P) then Exc WriteFail else Ok (lenN (save v P), save v P)) /\
  (target = NoParent \/ target = Dir -> forall lim, fs_save v P target lim = Exc OpenFail).
Proof. exact fs_save_spec. Qed.

(* any cutting of the file into write calls, any schedule of refusals (transient or permanent), any flush
   outcome: an exception if some issued call or the flush was refused, otherwise the complete file *)
Theorem C16_any_chunking_any_schedule : forall v P target cs sched fl, concat cs = save v P ->
  target <> NoParent -> target <> Dir ->
  save_stream target cs sched fl =
    if refused cs sched || negb fl then Exc WriteFail else Ok (lenN (save v P), save v P).
Proof. exact save_any_chunking. Qed.
(* the visitor's own write sequence is such a cutting *)
Theorem C16_visitor_chunks : forall v P, concat (save_chunks v P) = save v P.
Proof. exact save_chunks_concat. Qed.
Theorem C16_refusal_throws : forall v P target sched fl, target <> NoParent -> target <> Dir ->
  refused (save_chunks v P) sched = true \/ fl = false ->
  save_dev v P target sched fl = Exc WriteFail.
Proof. exact save_dev_refusal_throws. Qed.
Theorem C16_normal_return_is_complete : forall v P target sched fl n b, trie_fits v P ->
  save_dev v P target sched fl = Ok (n, b) ->
  b = save v P /\ n = memory_in_bytes v P /\ fs_load v (File b) = Ok P /\ fs_type_id (File b) = Ok (type_id v)
  /\ refused (save_chunks v P) sched = false /\ fl = true.
Proof. exact save_dev_ok_complete. Qed.
(* the capacity device (permanent) and the transient refusal are instances with the same outcome *)
Theorem C16_capacity_schedules : forall v P target l, target <> NoParent -> target <> Dir ->
  save_dev v P target (sched_cap (save_chunks v P) l) true = fs_save v P target (Some l) /\
  save_dev v P target (sched_transient (save_chunks v P) l) true = fs_save v P target (Some l).
Proof. exact save_dev_capacity. Qed.

Example C16_stream_nonvacuous : match ex_trie V8 with
  | Ok P => save_dev V8 P Missing [None; None; Some 3; None] true = Exc WriteFail /\
            save_dev V8 P Missing [None; Some 8] false = Exc WriteFail /\
            (exists n b, save_dev V8 P Missing [] true = Ok (n, b))
  | _ => False end.
Proof. vm_compute. split; [reflexivity|]. split; [reflexivity|]. eexists; eexists; reflexivity. Qed.

Example C16_nonvacuous : match ex_trie V8 with
  | Ok P => fs_save V8 P Missing (Some 100) = Exc WriteFail /\ fs_save V8 P Dir None = Exc OpenFail
  | _ => False end.
Proof. vm_compute. split; reflexivity. Qed.

Print Assumptions C16_fail_or_complete. Print Assumptions C16_ok_means_complete. Print Assumptions C16_unopenable_target.
Print Assumptions C16_any_chunking_any_schedule. Print Assumptions C16_visitor_chunks. Print Assumptions C16_refusal_throws.
Print Assumptions C16_normal_return_is_complete. Print Assumptions C16_capacity_schedules.
