(* C16: save never reports success for an incomplete file.
   The output device is modelled as accepting at most [limit] bytes (Serial.fs_save); when libstdc++
   notices the failed write(2) is runtime behaviour observed on the implementation side (partial). *)
From X Require Import Base Arr Dac Trie Serial SerialFacts Examples.
Local Open Scope N_scope.

Theorem C16_fail_or_complete : forall v P target l, target <> NoParent -> target <> Dir ->
  (l < lenN (save v P) -> fs_save v P target (Some l) = Exc WriteFail) /\
  (lenN (save v P) <= l -> fs_save v P target (Some l) = Ok (lenN (save v P), save v P)).
Proof. exact fs_save_limit. Qed.
(* whenever save returns normally: the count is memory_in_bytes, the file is complete and loads to P *)
Theorem C16_ok_means_complete : forall v P target lim b n, trie_fits v P ->
  fs_save v P target lim = Ok (n, b) ->
  n = memory_in_bytes v P /\ fs_load v (File b) = Ok P /\ fs_type_id (File b) = Ok (type_id v).
Proof. exact fs_save_load. Qed.
Theorem C16_unopenable_target : forall v P target l,
  (target <> NoParent -> target <> Dir ->
     fs_save v P target (Some l) = if l <? lenN (save v P) then Exc WriteFail else Ok (lenN (save v P), save v P)) /\
  (target = NoParent \/ target = Dir -> forall lim, fs_save v P target lim = Exc OpenFail).
Proof. exact fs_save_spec. Qed.

Example C16_nonvacuous : match ex_trie V8 with
  | Ok P => fs_save V8 P Missing (Some 100) = Exc WriteFail /\ fs_save V8 P Dir None = Exc OpenFail
  | _ => False end.
Proof. vm_compute. split; reflexivity. Qed.

Print Assumptions C16_fail_or_complete. Print Assumptions C16_ok_means_complete. Print Assumptions C16_unopenable_target.
