(* C17: reported statistics describe the stored key set. *)
From X Require Import Builder IfaceBuild Base Arr Dac Trie Spec Wf IfaceQuery All AllBuild Examples ExampleFacts.
Local Open Scope N_scope.

Theorem C17_statistics : forall v L P K, wf_for v L P K ->
  t_num_keys P = lenN K /\ t_max_length P = spec_max_length K /\
  t_alphabet_size P = lenN (spec_alphabet K) /\
  t_num_nodes P + t_num_free_units P = t_num_units P /\
  t_num_nodes P = spec_mp_nodes K /\ 1 <= t_tail_length P.
Proof. exact stats_thm. Qed.
(* bin_mode is the logical content's mode flag (that it equals "requested or some key contains NUL" is
   part of the builder statement BuildSpec, see C01/C08) *)
Theorem C17_bin_mode : forall v L P K, wf_for v L P K -> t_bin_mode P = lg_bin L.
Proof. intros v L P K H. exact (ph_bin L P (phys_thm v L P K H)). Qed.

(* headline: for EVERY valid key list, incl. bin_mode = requested or some key contains a NUL byte *)
Theorem C17_for_all_valid_K : forall v tbl K req, valid_keys K = true -> small_keys K -> perm_okb tbl = true ->
  exists P, build v tbl K req = Ok P /\
  t_num_keys P = lenN K /\ t_max_length P = spec_max_length K /\ t_alphabet_size P = lenN (spec_alphabet K) /\
  t_bin_mode P = spec_bin_mode req K /\
  t_num_nodes P + t_num_free_units P = t_num_units P /\ t_num_nodes P = spec_mp_nodes K /\ 1 <= t_tail_length P.
Proof. exact headline_stats. Qed.

Example C17_nonvacuous : forall v, exists L P, ex_logical v = Ok L /\ wf_for v L P ex_keys.
Proof. exact ex_wf_for. Qed.

Print Assumptions C17_statistics. Print Assumptions C17_bin_mode.
Print Assumptions C17_for_all_valid_K.
