(* C18 (logic half): the file is a function of (variant, code table, key list, requested mode) -- the model's
   `build` and `save` mention neither the container type, nor a process or thread, nor a compiler
   configuration; the only configuration-dependent code of the library, the word functions of bit_tools.hpp,
   computes the same values in both of its arms.  Compilers, optimisation levels and uninitialised memory are
   outside the model: observed on the implementation side (four configurations x three containers). *)
From X Require Import LayoutGen LayoutFacts Base Arr BitToolsSpec BitToolsGen BitVector Dac Trie Serial Spec Wf IfaceQuery IfaceBuild Builder
  BitToolsFacts BitVectorFacts SerialFacts All AllBuild.
Local Open Scope N_scope.

Definition file_of (v : variant) (tbl : list N) (K : list key) (req : bool) : res (list N) :=
  do P <- build v tbl K req; Ok (save v P).

(* for every valid key list the file exists, and a dictionary loaded from it (under any configuration whose
   word functions satisfy the equalities below) is the built structure itself *)
Theorem C18_file_defined_and_reloadable : forall v tbl K req,
  valid_keys K = true -> small_keys K -> perm_okb tbl = true ->
  exists P bytes, build v tbl K req = Ok P /\ file_of v tbl K req = Ok bytes /\
                  load v bytes = Ok P /\ Forall byte bytes /\ lenN bytes = memory_in_bytes v P.
Proof.
  intros v tbl K req H1 H2 H3.
  destruct (build_wf_thm v tbl K req H1 H2 H3) as (L & P & _ & HP & Hwf & _).
  pose proof (assemble_fits_thm v L P K Hwf) as F.
  exists P, (save v P). unfold file_of. rewrite HP. cbn [bind].
  split; [reflexivity|]. split; [reflexivity|]. split; [apply load_save; exact F|].
  split; [apply save_bytes_fits; exact F|apply save_length; exact F].
Qed.

(* the instruction-set dependent code: both arms of every #ifdef in bit_tools.hpp agree *)
Theorem C18_bit_tools_irrelevant :
  (forall x, x < 2^64 -> popcount x = popcount_intr x) /\
  (forall x, x < 2^64 -> msb x = msb_intr x) /\
  (forall x k, x < 2^64 -> k < popcnt_spec x -> select_in_word x k = select_in_word_intr x k) /\
  (forall x, byte_counts_intr x = byte_counts x) /\
  (forall x y, uleq_step_9_intr x y = uleq_step_9 x y).
Proof.
  split; [intros x H; unfold popcount_intr; apply popcount_correct; exact H|].
  split; [exact msb_correct|]. split; [exact select_in_word_agree|].
  split; [intros x; reflexivity|intros x y; reflexivity].
Qed.

(* no byte of the file is left undetermined: two structures with equal files are equal, and every
   element of the file is a byte *)
Theorem C18_file_determines_structure : forall v P P', trie_fits v P -> trie_fits v P' -> save v P = save v P' -> P = P'.
Proof. exact save_inj. Qed.

(* the member order and types of every visit() in the current headers are the ones Serial.v models
   (LayoutGen.v is regenerated from the source on every run) *)
Theorem C18_layout_is_the_modelled_one : layouts_now = layouts_modelled.
Proof. exact layout_is_the_modelled_one. Qed.

Print Assumptions C18_file_defined_and_reloadable. Print Assumptions C18_bit_tools_irrelevant. Print Assumptions C18_file_determines_structure.
Print Assumptions C18_layout_is_the_modelled_one.
