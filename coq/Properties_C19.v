(* C19: the command-line tools agree with the library on any key file.
   Tools.v models the glue of the six tools (getline splitting, sort + unique on unsigned bytes, -t / -b
   dispatch, type-id dispatch, mmap, "%d\t%s\n" rows, "-1" for misses, "N found" headers, the -n cap,
   `cin >> id` parsing); cmd_line_parser / tinyformat / mm_file are modelled as the functions they are used as. *)
From X Require Import Base Arr Dac Trie Serial Spec Wf IfaceQuery IfaceBuild SerialFacts Tools ToolsFacts All AllBuild.
Local Open Scope N_scope.

Definition keys_of_file (f : list N) : list key := sort_dedup (split_lines f).

(* xcdat_build, for every -t and -b, on any key file of bytes with at least one line (duplicates, unsorted
   order, empty lines allowed): succeeds and writes a dictionary for exactly the distinct lines *)
Theorem C19_build : forall v b tbl f, bytes f -> f <> [] -> perm_okb tbl = true -> small_keys (keys_of_file f) ->
  exists L P, tool_build v b tbl f = Ok (save v P, keys_of_file f) /\ wf_for v L P (keys_of_file f) /\
              lg_bin L = spec_bin_mode b (keys_of_file f).
Proof. exact (tool_build_wf build_thm assemble_thm). Qed.
Theorem C19_distinct_sorted_lines : forall ls, ls <> [] -> Forall (fun k => bytes_ok k = true) ls ->
  valid_keys (sort_dedup ls) = true /\ (forall k, In k (sort_dedup ls) <-> In k ls).
Proof. intros ls H1 H2. split; [apply sort_dedup_valid; assumption|intros k; apply sort_dedup_set]. Qed.

(* on the file written for K (any dictionary with certificate-checked content): *)
Theorem C19_enumerate : forall v L P K, wf_for v L P K ->
  tool_enumerate (save v P) = Ok (concat (map (fun ik => fmt_row (fst ik) (snd ik)) (with_ids P K))).
Proof. intros v L P K H. exact (tool_enumerate_spec predictive_thm v L P K H (assemble_fits_thm v L P K H)). Qed.
Theorem C19_lookup : forall v L P K, wf_for v L P K -> forall stdin, bytes stdin ->
  tool_lookup (save v P) stdin =
  Ok (concat (map (fun q => match lk P q with Some id => fmt_row id q | None => miss_row q end) (split_lines stdin))).
Proof. intros v L P K H. exact (tool_lookup_spec lookup_thm v L P K H (assemble_fits_thm v L P K H)). Qed.
Theorem C19_lookup_decode_inverse : forall v L P K, wf_for v L P K -> forall k, In k K ->
  exists i, lk P k = Some i /\ i < lenN K /\ tool_decode (save v P) (fmt_dec i ++ [10]) = Ok (fmt_row i k).
Proof. intros v L P K H. exact (tool_lookup_decode_roundtrip lookup_thm decode_thm v L P K H (assemble_fits_thm v L P K H)). Qed.
Theorem C19_decode_out_of_range : forall v L P K, wf_for v L P K -> forall i, lenN K <= i -> i < 2^64 ->
  tool_decode (save v P) (fmt_dec i ++ [10]) = Ok (fmt_row i []).
Proof. intros v L P K H. exact (tool_decode_out_of_range decode_thm v L P K H (assemble_fits_thm v L P K H)). Qed.
Theorem C19_prefix_search : forall v L P K, wf_for v L P K -> forall stdin, bytes stdin ->
  tool_prefix (save v P) stdin =
  Ok (concat (map (fun q => let r := spec_prefixes K q in
                            found_line (lenN r) ++ concat (map (fun ik => fmt_row (fst ik) (snd ik)) (with_ids P r)))
                  (split_lines stdin))).
Proof. intros v L P K H. exact (tool_prefix_spec prefix_thm v L P K H (assemble_fits_thm v L P K H)). Qed.
Theorem C19_predictive_search : forall v L P K, wf_for v L P K -> forall stdin maxn, bytes stdin ->
  tool_predictive (save v P) stdin maxn =
  Ok (concat (map (fun q => let r := spec_completions K q in
                            found_line (lenN r) ++
                            concat (map (fun ik => fmt_row (fst ik) (snd ik)) (firstn (N.to_nat maxn) (with_ids P r))))
                  (split_lines stdin))).
Proof. intros v L P K H. exact (tool_predictive_spec predictive_thm v L P K H (assemble_fits_thm v L P K H)). Qed.

Print Assumptions C19_build. Print Assumptions C19_distinct_sorted_lines. Print Assumptions C19_enumerate.
Print Assumptions C19_lookup. Print Assumptions C19_lookup_decode_inverse. Print Assumptions C19_decode_out_of_range.
Print Assumptions C19_prefix_search. Print Assumptions C19_predictive_search.
