(* Serial.v: the byte format written by save_visitor / read by load_visitor and mmap_visitor /
   measured by size_visitor.  Little-endian; vec<T> = u64 count + raw elements. *)
From X Require Import Base Arr Consts BitToolsSpec BitToolsGen BitVector CompactVector Dac Tail Trie.
Local Open Scope N_scope.

(* ---------------- encoding (save_visitor) ---------------- *)
Fixpoint enc_le (n : nat) (x : N) : list N :=
  match n with O => [] | S m => N.land x 255 :: enc_le m (N.shiftr x 8) end.
Fixpoint dec_le (bs : list N) : N :=
  match bs with [] => 0 | b :: t => N.lor b (N.shiftl (dec_le t) 8) end.

Definition enc_u32 := enc_le 4.
Definition enc_u64 := enc_le 8.
Definition enc_vec (w : nat) (a : arr N) : list N := enc_u64 (alen a) ++ flat_map (enc_le w) (alist a).

Definition enc_bv (b : bitvec) : list N :=
  enc_u64 (bv_size b) ++ enc_u64 (bv_ones b) ++ enc_vec 8 (bv_words b) ++
  enc_vec 8 (bv_rank_hints b) ++ enc_vec 8 (bv_sel_hints b).
Definition enc_cv (c : compact) : list N :=
  enc_u64 (cv_size c) ++ enc_u64 (cv_bits c) ++ enc_u64 (cv_mask c) ++ enc_vec 8 (cv_chunks c).
Definition enc_ct (c : ctable) : list N :=
  enc_u64 (ct_maxlen c) ++ alist (ct_table c) ++ enc_vec 1 (ct_alpha c).
Definition enc_tail (t : tailvec) : list N := enc_vec 1 (tv_chars t) ++ enc_bv (tv_terms t).

Definition cell_bytes8 (w : N) : nat := N.to_nat (w / 8).
Definition enc_bc8 (d : bc8) : list N :=
  enc_u32 (b8_nlev d) ++ enc_u64 (b8_frees d) ++
  flat_map (enc_vec (cell_bytes8 (b8_w d))) (b8_ints d) ++
  flat_map enc_bv (b8_nexts d) ++ enc_cv (b8_links d) ++ enc_bv (b8_leaves d).

(* element widths in bytes of the pointer-DAC levels: u8,u16,u32,u64 / u16,u32,u64 *)
Definition widths7 (vbs : list N) : list nat := map (fun vb => N.to_nat ((vb + 1) / 8)) vbs ++ [8%nat].
Fixpoint enc_vecs (ws : list nat) (l : list (arr N)) : list N :=
  match ws, l with
  | w :: ws', a :: l' => enc_vec w a ++ enc_vecs ws' l'
  | _, _ => []
  end.
Definition enc_bc7 (d : bc7) : list N :=
  enc_u64 (b7_frees d) ++ enc_vecs (widths7 (b7_vbits d)) (b7_ints d) ++
  flat_map (enc_vec 8) (b7_ranks d) ++ enc_cv (b7_links d) ++ enc_bv (b7_leaves d).

Definition enc_bc (d : bcvec) : list N := match d with Bc8 d => enc_bc8 d | Bc7 d => enc_bc7 d end.

Definition enc_trie (P : trie) : list N :=
  enc_u64 (t_nkeys P) ++ enc_ct (t_table P) ++ enc_bv (t_terms P) ++ enc_bc (t_bc P) ++ enc_tail (t_tail P).

(* xcdat::save: tag then the members in visit() order *)
Definition save (v : variant) (P : trie) : list N := enc_u32 (type_id v) ++ enc_trie P.

(* ---------------- size_visitor (memory_in_bytes), written independently ---------------- *)
Definition size_vec (w : N) (a : arr N) : N := 8 + w * alen a.
Definition size_bv (b : bitvec) : N :=
  8 + 8 + size_vec 8 (bv_words b) + size_vec 8 (bv_rank_hints b) + size_vec 8 (bv_sel_hints b).
Definition size_cv (c : compact) : N := 8 + 8 + 8 + size_vec 8 (cv_chunks c).
Definition sumN (l : list N) : N := fold_right N.add 0 l.
Definition size_bc (d : bcvec) : N :=
  match d with
  | Bc8 d => 4 + 8 + sumN (map (size_vec (b8_w d / 8)) (b8_ints d)) + sumN (map size_bv (b8_nexts d))
             + size_cv (b8_links d) + size_bv (b8_leaves d)
  | Bc7 d => 8 + sumN (map (fun wa => size_vec (N.of_nat (fst wa)) (snd wa))
                            (combine (widths7 (b7_vbits d)) (b7_ints d)))
             + sumN (map (size_vec 8) (b7_ranks d)) + size_cv (b7_links d) + size_bv (b7_leaves d)
  end.
Definition memory_in_bytes (v : variant) (P : trie) : N :=
  4 + 8 + (8 + 512 + size_vec 1 (ct_alpha (t_table P))) + size_bv (t_terms P) + size_bc (t_bc P)
  + (size_vec 1 (tv_chars (t_tail P)) + size_bv (tv_terms (t_tail P))).

(* ---------------- decoding ---------------- *)
(* [mm] = true: mmap_visitor (no length known: running off the image is a Fault);
   false: load_visitor over a stream (a short read throws, F11 repaired) *)
Definition short {A} (mm : bool) : res A := if mm then Fault OobArr else Exc ReadFail.

Fixpoint take (n : nat) (s : list N) : option (list N * list N) :=
  match n with
  | O => Some ([], s)
  | S m => match s with
           | [] => None
           | b :: t => match take m t with Some (a, r) => Some (b :: a, r) | None => None end
           end
  end.

Definition reader (A : Type) := list N -> res (A * list N).
Definition rd_ret {A} (a : A) : reader A := fun s => Ok (a, s).
Definition rd_bind {A B} (r : reader A) (f : A -> reader B) : reader B :=
  fun s => match r s with Ok (a, s') => f a s' | Exc e => Exc e | Fault x => Fault x end.
Notation "'rdo' x <- r ; k" := (rd_bind r (fun x => k))
  (at level 200, x pattern, r at level 100, k at level 200, right associativity).

Definition rd_int (mm : bool) (n : nat) : reader N :=
  fun s => match take n s with Some (a, r) => Ok (dec_le a, r) | None => short mm end.

Fixpoint dec_elems (w : nat) (k : nat) (s : list N) : option (list N * list N) :=
  match k with
  | O => Some ([], s)
  | S k' => match take w s with
            | None => None
            | Some (a, r) => match dec_elems w k' r with
                             | Some (l, r') => Some (dec_le a :: l, r')
                             | None => None
                             end
            end
  end.
Definition rd_vec (mm : bool) (w : nat) : reader (arr N) :=
  rdo n <- rd_int mm 8;
  fun s => match dec_elems w (N.to_nat n) s with
           | Some (l, r) => Ok (of_list l, r)
           | None => short mm
           end.
Definition rd_raw (mm : bool) (n : nat) : reader (arr N) :=
  fun s => match take n s with Some (a, r) => Ok (of_list a, r) | None => short mm end.

Definition rd_bv (mm : bool) : reader bitvec :=
  rdo sz <- rd_int mm 8; rdo ones <- rd_int mm 8;
  rdo ws <- rd_vec mm 8; rdo rh <- rd_vec mm 8; rdo sh <- rd_vec mm 8;
  rd_ret (mkBv sz ones ws rh sh).
Definition rd_cv (mm : bool) : reader compact :=
  rdo sz <- rd_int mm 8; rdo bits <- rd_int mm 8; rdo mask <- rd_int mm 8; rdo ch <- rd_vec mm 8;
  rd_ret (mkCv sz bits mask ch).
Definition rd_ct (mm : bool) : reader ctable :=
  rdo ml <- rd_int mm 8; rdo tb <- rd_raw mm 512; rdo al <- rd_vec mm 1;
  rd_ret (mkCt ml tb al).
Definition rd_tail (mm : bool) : reader tailvec :=
  rdo ch <- rd_vec mm 1; rdo tm <- rd_bv mm; rd_ret (mkTail ch tm).

Fixpoint rd_list {A} (n : nat) (r : reader A) : reader (list A) :=
  match n with
  | O => rd_ret []
  | S m => rdo a <- r; rdo l <- rd_list m r; rd_ret (a :: l)
  end.
Fixpoint rd_vecs (mm : bool) (ws : list nat) : reader (list (arr N)) :=
  match ws with
  | [] => rd_ret []
  | w :: ws' => rdo a <- rd_vec mm w; rdo l <- rd_vecs mm ws'; rd_ret (a :: l)
  end.

Definition rd_bc8 (mm : bool) (w : N) : reader bc8 :=
  let maxl := N.to_nat (64 / w) in
  rdo nlev <- rd_int mm 4; rdo frees <- rd_int mm 8;
  rdo ints <- rd_list maxl (rd_vec mm (cell_bytes8 w));
  rdo nexts <- rd_list (maxl - 1) (rd_bv mm);
  rdo links <- rd_cv mm; rdo lv <- rd_bv mm;
  rd_ret (mkBc8 w nlev frees ints nexts links lv).
Definition rd_bc7 (mm : bool) (vbs : list N) : reader bc7 :=
  rdo frees <- rd_int mm 8;
  rdo ints <- rd_vecs mm (widths7 vbs);
  rdo ranks <- rd_list (length vbs) (rd_vec mm 8);
  rdo links <- rd_cv mm; rdo lv <- rd_bv mm;
  rd_ret (mkBc7 vbs frees ints ranks links lv).
Definition rd_bc (mm : bool) (v : variant) : reader bcvec :=
  match v with
  | V8 => rdo d <- rd_bc8 mm 8; rd_ret (Bc8 d)
  | V16 => rdo d <- rd_bc8 mm 16; rd_ret (Bc8 d)
  | V7 => rdo d <- rd_bc7 mm (vbits_of V7); rd_ret (Bc7 d)
  | V15 => rdo d <- rd_bc7 mm (vbits_of V15); rd_ret (Bc7 d)
  end.
Definition rd_trie (mm : bool) (v : variant) : reader trie :=
  rdo nk <- rd_int mm 8; rdo ct <- rd_ct mm; rdo tm <- rd_bv mm; rdo bc <- rd_bc mm v; rdo tl <- rd_tail mm;
  rd_ret (mkTrie nk ct tm bc tl).

Definition rd_file (mm : bool) (v : variant) : reader trie :=
  rdo tid <- rd_int mm 4;
  if tid =? type_id v then rd_trie mm v else fun _ => Exc TypeMismatch.

(* xcdat::load / xcdat::mmap / get_type_id on the bytes of a file *)
Definition load (v : variant) (bytes : list N) : res trie :=
  match rd_file false v bytes with Ok (P, _) => Ok P | Exc e => Exc e | Fault f => Fault f end.
Definition mmap (v : variant) (bytes : list N) : res trie :=
  match rd_file true v bytes with Ok (P, _) => Ok P | Exc e => Exc e | Fault f => Fault f end.
Definition get_type_id (bytes : list N) : res N :=
  match rd_int false 4 bytes with Ok (t, _) => Ok t | Exc e => Exc e | Fault f => Fault f end.

(* ---------------- files and devices (C14, C16) ---------------- *)
Inductive fsnode := Missing | NoParent | Dir | File (bytes : list N).
Definition fs_load (v : variant) (n : fsnode) : res trie :=
  match n with File b => load v b | _ => Exc OpenFail end.
Definition fs_type_id (n : fsnode) : res N :=
  match n with File b => get_type_id b | _ => Exc OpenFail end.
(* saving to a target: a directory or a path with a missing parent cannot be opened;
   a device that accepts at most [limit] bytes makes a write fail (F12 repaired: save throws) *)
Definition fs_save (v : variant) (P : trie) (target : fsnode) (limit : option N) : res (N * list N) :=
  match target with
  | NoParent | Dir => Exc OpenFail
  | _ => let b := save v P in
         match limit with
         | Some l => if l <? lenN b then Exc WriteFail else Ok (lenN b, b)
         | None => Ok (lenN b, b)
         end
  end.
